package main

import (
	"context"
	"errors"
	"log/slog"
	"reflect"
	"strconv"

	"github.com/richardwilkes/toolbox/errs"
	"verifharness/hx"
)

// Stateful ops whose expected result comes from the Lean model (Model/ErrsWalk.lean): errors.Is / errors.As over the
// Unwrap chain, errs.Recovery, and the record the errs.Log* functions hand to the slog handler.

// isOutcome runs errors.Is(v, t).  A nil *Error reached through a foreign wrapper makes the library's Unwrap method
// dereference nil: that panic is an outcome of its own (the model predicts it).
func isOutcome(v, t error) (res string) {
	defer func() {
		if r := recover(); r != nil {
			res = "panic"
		}
	}()
	if errors.Is(v, t) {
		return "1"
	}
	return "0"
}

// isSkipped: targets the model has one notion for (typed nils of foreign types) are not compared.
func isSkipped(t error) bool { return t != nil && isForeignNil(t) }

// comparableErr reports whether == is defined for the dynamic type (the model is told through the kind of the `plain` op).
func comparableErr(v error) bool { return v == nil || reflect.TypeOf(v).Comparable() }

//go:noinline
func doPanic(v any) { panic(v) }

// runRecovery runs a function that panics with v (mode none: does not panic) under errs.Recovery.
//
//go:noinline
func runRecovery(v any, mode string) (got error, called, escaped bool) {
	defer func() {
		if r := recover(); r != nil {
			escaped = true
		}
	}()
	func() {
		switch mode {
		case "nohandler":
			defer errs.Recovery(nil)
		case "badhandler":
			defer errs.Recovery(func(err error) { got, called = err, true; panic("bad handler") })
		default:
			defer errs.Recovery(func(err error) { got, called = err, true })
		}
		if mode != "none" {
			doPanic(v)
		}
	}()
	return got, called, escaped
}

type capHandler struct{ rec []slog.Record }

func (c *capHandler) Enabled(context.Context, slog.Level) bool { return true }
func (c *capHandler) Handle(_ context.Context, r slog.Record) error {
	c.rec = append(c.rec, r)
	return nil
}
func (c *capHandler) WithAttrs([]slog.Attr) slog.Handler { return c }
func (c *capHandler) WithGroup(string) slog.Handler      { return c }

// mkLog logs v through entry point number `entry` of errs/log.go; the wrapper that WrapTyped makes for a foreign error
// records a stack whose first frame outside the library is this function.
//
//go:noinline
func mkLog(entry int, logger *slog.Logger, v error) {
	ctx := context.Background()
	switch entry {
	case 0:
		errs.Log(v)
	case 1:
		errs.LogContext(ctx, v)
	case 2:
		errs.LogTo(logger, v)
	case 3:
		errs.LogContextTo(ctx, logger, v)
	case 4:
		errs.LogWithLevel(ctx, slog.LevelWarn, logger, v)
	case 5:
		errs.LogAttrs(v)
	case 6:
		errs.LogAttrsContext(ctx, v)
	case 7:
		errs.LogAttrsTo(logger, v)
	case 8:
		errs.LogAttrsContextTo(ctx, logger, v)
	default:
		errs.LogAttrsWithLevel(ctx, slog.LevelInfo, logger, v)
	}
}

// logged runs one Log* call against a capturing handler and returns the error behind the stack_trace attribute (nil: no
// attribute) and the description of the record: `-` (no record), else the hex of its message.
func logged(entry int, v error) (error, string) {
	c := &capHandler{}
	logger := slog.New(c)
	saved := slog.Default()
	slog.SetDefault(logger)
	defer slog.SetDefault(saved)
	mkLog(entry, logger, v)
	if len(c.rec) != 1 {
		return nil, "-" + strconv.Itoa(len(c.rec))
	}
	var res error
	n := 0
	c.rec[0].Attrs(func(a slog.Attr) bool {
		if a.Key == errs.StackTraceKey {
			n++
			if sv, ok := a.Value.Any().(interface{ StackError() errs.StackError }); ok {
				if e, ok2 := sv.StackError().(*errs.Error); ok2 {
					res = e
				}
			}
		}
		return true
	})
	if n > 1 {
		return nil, "dup"
	}
	return res, hx.Hex([]byte(c.rec[0].Message))
}

// recoveryMessage is the message errs.Recovery gives its errors, MEASURED on one real panic (not copied from the source);
// it is written into every `recover` line for the model.
var recoveryMessage = func() string {
	got, _, _ := runRecovery(errors.New("probe"), "err")
	if e, ok := got.(*errs.Error); ok && e != nil {
		return e.Message()
	}
	return "?"
}()

// endsForeignNil walks the Unwrap chain itself (not through errors.As): the model has no type for typed nils of foreign
// types, so walks that end in one are left out of the `asf` comparison on both sides.
func endsForeignNil(v error) (res bool) {
	defer func() {
		if r := recover(); r != nil {
			res = false
		}
	}()
	for i := 0; v != nil && i < 100000; i++ {
		if isForeignNil(v) {
			return true
		}
		if e, ok := v.(*errs.Error); ok && e == nil {
			return false
		}
		v = errors.Unwrap(v)
	}
	return false
}

// asForeign runs errors.As(v, &target) with a target of the dynamic type of sample.
func asForeign(v, sample error) (found error, out string) {
	defer func() {
		if r := recover(); r != nil {
			found, out = nil, "panic"
		}
	}()
	tp := reflect.New(reflect.TypeOf(sample))
	if errors.As(v, tp.Interface()) {
		f, _ := tp.Elem().Interface().(error)
		return f, "1"
	}
	return nil, "0"
}
