package main

import (
	"strconv"
	"strings"

	"verifharness/hx"
)

// The generator keeps a small simulation of the heap (only links, emptiness and value kinds) so that it can bound the
// length of every aggregate: with aliasing (`append v1 v1 v1`) lengths double, and an unbounded history would explode.

const (
	kNil = iota
	kTnil
	kFnil
	kRef
	kPlain
	kFwrap
)

type sval struct {
	inner *sval
	kind  int
	id    int
}

type snode struct {
	cause sval
	next  int
	empty bool // &Error{}: no message, stack or cause
}

type sim struct {
	vars  map[int]sval
	nodes []snode
}

func (s *sim) clone() *sim {
	c := &sim{nodes: append([]snode(nil), s.nodes...), vars: make(map[int]sval, len(s.vars))}
	for k, v := range s.vars {
		c.vars[k] = v
	}
	return c
}

func (s *sim) isEmpty(id int) bool { return s.nodes[id].empty && s.nodes[id].next < 0 }

func (s *sim) chain(id int) []int {
	var out []int
	for id >= 0 {
		out = append(out, id)
		id = s.nodes[id].next
	}
	return out
}

func (s *sim) length(v sval) int {
	if v.kind != kRef {
		return 0
	}
	return len(s.chain(v.id))
}

func (s *sim) push(n snode) int {
	s.nodes = append(s.nodes, n)
	return len(s.nodes) - 1
}

func nilish(v sval) bool { return v.kind == kNil || v.kind == kTnil || v.kind == kFnil }

func (s *sim) append(acc sval, args []sval) sval {
	root, cur := -1, -1
	switch {
	case acc.kind == kRef:
		if !s.isEmpty(acc.id) {
			root = acc.id
			c := s.chain(acc.id)
			cur = c[len(c)-1]
		}
	case nilish(acc):
	default:
		root = s.push(snode{next: -1, cause: acc})
		cur = root
	}
	for _, a := range args {
		nxt := -1
		switch {
		case a.kind == kRef:
			if !s.isEmpty(a.id) {
				ids := s.chain(a.id)
				base := len(s.nodes)
				for i, id := range ids {
					n := s.nodes[id]
					n.next = -1
					if i+1 < len(ids) {
						n.next = base + i + 1
					}
					s.nodes = append(s.nodes, n)
				}
				nxt = base
			}
		case nilish(a):
		default:
			nxt = s.push(snode{next: -1, cause: a})
		}
		if nxt >= 0 {
			if cur < 0 {
				root = nxt
			} else {
				s.nodes[cur].next = nxt
			}
			c := s.chain(nxt)
			cur = c[len(c)-1]
		}
	}
	if root < 0 {
		return sval{kind: kTnil}
	}
	return sval{kind: kRef, id: root}
}

func asErr(v sval) bool {
	for {
		switch v.kind {
		case kTnil, kRef:
			return true
		case kFwrap:
			v = *v.inner
		default:
			return false
		}
	}
}

var msgs = []string{"", "a", "b", "c", "d", "e", "f", "g", "x1", "y22", "boom", "io", "Z", "q r", "m-n", "%d", "\"q\"",
	"line1\nline2", "\n", "- item", "%s %v %!d(", "100%", "\ttab", "caf\u00e9 \u2713", "Caused by: x", "Multiple (2) errors occurred:"}

func hexMsg(r *hx.Rng) string { return hx.Hex([]byte(hx.Pick(r, msgs))) }

// plainOp creates a non-nil foreign error: errors.New, or a value of another kind (slice, map, func, chan, struct, string,
// int error types; `slice0` is the non-nil zero-length slice, whose message is empty).
func plainOp(r *hx.Rng) string {
	if r.Bool() {
		return "plain " + hexMsg(r)
	}
	k := hx.Pick(r, plainKinds)
	if k == "slice0" {
		return "plain - slice0"
	}
	return "plain " + hexMsg(r) + " " + k
}

type gen struct {
	r     *hx.Rng
	s     *sim
	emit  func(string)
	nextV int
	lines int
	cap   int // bound on the length of every aggregate of the history
}

func (g *gen) out(k int, v sval, op string) {
	g.s.vars[k] = v
	g.emit("v" + strconv.Itoa(k) + " = " + op)
	g.lines++
}

func (g *gen) fresh() int {
	k := g.nextV
	g.nextV++
	return k
}

func vn(k int) string { return "v" + strconv.Itoa(k) }

// anyVar picks an existing variable index (occasionally an undefined one, which reads as the nil interface).
func (g *gen) anyVar() int { return g.varBelow(g.nextV) }

func (g *gen) varBelow(k int) int {
	if k == 0 || g.r.Chance(1, 40) {
		return g.nextV + 3
	}
	return g.r.Intn(k)
}

func (g *gen) val(k int) sval { return g.s.vars[k] }

// create emits the creation of one base value into variable k.
func (g *gen) create(k int) {
	r := g.r
	switch r.Intn(14) {
	case 0:
		g.out(k, sval{kind: kNil}, "nil")
	case 1:
		g.out(k, sval{kind: kTnil}, "tnil")
	case 2:
		if r.Bool() {
			g.out(k, sval{kind: kFnil}, "fnil")
		} else {
			g.out(k, sval{kind: kFnil}, "fnil "+hx.Pick(r, nilKinds))
		}
	case 3:
		g.out(k, sval{kind: kRef, id: g.s.push(snode{next: -1, empty: true})}, "empty")
	case 4, 5:
		g.out(k, sval{kind: kPlain}, plainOp(r))
	case 6, 7, 8:
		g.out(k, sval{kind: kRef, id: g.s.push(snode{next: -1})}, hx.Pick(r, []string{"new ", "new ", "newf "})+hexMsg(r))
	case 9:
		c := g.varBelow(k)
		cv := g.val(c)
		if nilish(cv) {
			cv = sval{kind: kNil} // NewWithCause drops a typed-nil cause
		}
		g.out(k, sval{kind: kRef, id: g.s.push(snode{next: -1, cause: cv})}, hx.Pick(r, []string{"cause ", "causef "})+hexMsg(r)+" "+vn(c))
	case 10:
		c := g.varBelow(k)
		in := g.val(c)
		g.out(k, sval{kind: kFwrap, inner: &in}, "fwrap "+hexMsg(r)+" "+vn(c))
	default:
		// an aggregate of length 2..5 made of fresh errors, built on a nil interface (everything is copied),
		// a typed nil (copy of everything) or directly on the first error
		n := r.Range(2, 5)
		parts := make([]int, n)
		for i := range parts {
			parts[i] = g.fresh()
			if r.Chance(1, 5) {
				g.out(parts[i], sval{kind: kPlain}, plainOp(r))
			} else {
				g.out(parts[i], sval{kind: kRef, id: g.s.push(snode{next: -1})}, "new "+hexMsg(r))
			}
		}
		var args []int
		switch r.Intn(3) {
		case 0:
			z := g.fresh()
			g.out(z, sval{kind: kNil}, "nil")
			args = append([]int{z}, parts...)
		case 1:
			z := g.fresh()
			g.out(z, sval{kind: kTnil}, "tnil")
			args = append([]int{z}, parts...)
		default:
			args = parts
		}
		g.doAppend(k, args)
	}
}

func (g *gen) doAppend(k int, args []int) bool {
	trial := g.s.clone()
	vs := make([]sval, len(args))
	ws := make([]string, len(args))
	for i, a := range args {
		vs[i] = trial.vars[a]
		ws[i] = vn(a)
	}
	res := trial.append(vs[0], vs[1:])
	// every variable may see a longer chain afterwards: bound them all
	if trial.length(res) > g.cap || len(trial.nodes) > 1500+8*g.cap {
		return false
	}
	for _, v := range trial.vars {
		if trial.length(v) > g.cap {
			return false
		}
	}
	g.s = trial
	g.out(k, res, "append "+strings.Join(ws, " "))
	return true
}

func (g *gen) history(maxOps int) {
	r := g.r
	g.s = &sim{vars: map[int]sval{}}
	g.nextV = 0
	g.emit("reset")
	g.lines++
	for i, n := 0, r.Range(3, 9); i < n; i++ {
		g.create(g.fresh())
	}
	if r.Chance(1, 3) { // typed nils of the other nilable kinds and a non-nil value of such a type, to be used in every position
		for i, n := 0, r.Range(1, 3); i < n; i++ {
			g.out(g.fresh(), sval{kind: kFnil}, "fnil "+hx.Pick(r, nilKinds))
		}
		g.out(g.fresh(), sval{kind: kPlain}, plainOp(r))
	}
	acc := g.anyVar() // the accumulator of the long chain
	if acc >= g.nextV {
		acc = g.fresh()
		g.out(acc, sval{kind: kNil}, "nil")
	}
	ops := r.Range(2, maxOps)
	for i := 0; i < ops; i++ {
		switch c := r.Intn(33); {
		case c < 11: // append
			a := acc
			if r.Chance(1, 3) {
				a = g.anyVar()
			}
			args := []int{a}
			for j, n := 0, hx.Pick(r, []int{0, 1, 1, 2, 2, 3, 3, 4, 5, 7}); j < n; j++ {
				switch r.Intn(8) {
				case 0:
					args = append(args, a) // the accumulator itself
				case 1:
					args = append(args, args[r.Intn(len(args))]) // a repeated argument
				default:
					args = append(args, g.anyVar())
				}
			}
			k := a
			if a >= g.nextV || r.Chance(1, 4) {
				k = g.fresh()
			}
			if !g.doAppend(k, args) {
				g.doAppend(k, args[:1])
			}
			if a == acc && r.Chance(3, 4) {
				acc = k
			}
		case c < 13:
			g.create(g.fresh())
		case c < 15:
			a := g.anyVar()
			v := g.val(a)
			res := v
			switch {
			case nilish(v):
				res = sval{kind: kNil}
			case !asErr(v):
				res = sval{kind: kRef, id: g.s.push(snode{next: -1, cause: v})}
			}
			g.out(g.fresh(), res, "wrap "+vn(a))
		case c < 17:
			a := g.anyVar()
			v := g.val(a)
			res := v
			switch {
			case nilish(v):
				res = sval{kind: kTnil}
			case v.kind != kRef:
				res = sval{kind: kRef, id: g.s.push(snode{next: -1, cause: v})}
			}
			g.out(g.fresh(), res, "wraptyped "+vn(a))
		case c < 18:
			a := g.anyVar()
			v := g.val(a)
			res := sval{kind: kNil}
			switch v.kind {
			case kRef:
				res = g.s.nodes[v.id].cause
			case kFwrap:
				res = *v.inner
			}
			g.out(g.fresh(), res, "unwrap "+vn(a))
		case c < 20:
			a := g.anyVar()
			g.out(g.fresh(), g.val(a), "render "+vn(a))
		case c < 22:
			g.elem(g.anyVar())
		case c < 23:
			a := g.anyVar()
			v := g.val(a)
			res := sval{kind: kNil}
			if v.kind == kRef && !g.s.isEmpty(v.id) {
				res = v
			}
			g.out(g.fresh(), res, "eon "+vn(a))
		case c < 25: // errors.Is(a, b): mostly something a can reach
			a := g.anyVar()
			b := g.anyVar()
			if r.Chance(2, 3) {
				// the cause of a, or a itself
				for v, d := g.val(a), r.Intn(4); d > 0; d-- {
					switch v.kind {
					case kRef:
						v = g.s.nodes[v.id].cause
					case kFwrap:
						v = *v.inner
					}
					for k2, w := range g.s.vars {
						if w == v && k2 < g.nextV && v.kind != kNil {
							b = k2
						}
					}
				}
			}
			g.out(g.fresh(), g.val(a), "is "+vn(a)+" "+vn(b))
		case c >= 31: // errors.As(a, &T) with T the type of something a can reach (or of any variable)
			a := g.anyVar()
			b := g.anyVar()
			if r.Chance(3, 4) {
				for v, d := g.val(a), r.Range(1, 4); d > 0; d-- {
					switch v.kind {
					case kRef:
						v = g.s.nodes[v.id].cause
					case kFwrap:
						v = *v.inner
					}
					for k2, w := range g.s.vars {
						if w == v && k2 < g.nextV && v.kind != kNil {
							b = k2
						}
					}
				}
			}
			// the simulation only bounds lengths: exact for *Error targets, "some single foreign error" otherwise
			res := sval{kind: kPlain}
			if bk := g.val(b).kind; bk == kRef || bk == kTnil {
				res = g.val(a)
				for res.kind == kFwrap {
					res = *res.inner
				}
				if res.kind != kRef && res.kind != kTnil {
					res = sval{kind: kNil}
				}
			}
			g.out(g.fresh(), res, "asf "+vn(a)+" "+vn(b))
		case c < 26: // errors.As(a, &*Error)
			a := g.anyVar()
			v := g.val(a)
			for v.kind == kFwrap {
				v = *v.inner
			}
			if v.kind != kRef && v.kind != kTnil {
				v = sval{kind: kNil}
			}
			g.out(g.fresh(), v, "as "+vn(a))
		case c < 28: // errs.Recovery
			mode := hx.Pick(r, []string{"err", "err", "err", "str", "str", "nohandler", "badhandler", "none"})
			a := g.anyVar()
			v := g.val(a)
			res := sval{kind: kNil}
			arg := vn(a)
			switch {
			case mode == "str":
				arg = hexMsg(r)
				in := g.s.push(snode{next: -1})
				res = sval{kind: kRef, id: g.s.push(snode{next: -1, cause: sval{kind: kRef, id: in}})}
			case mode == "none" || mode == "nohandler" || v.kind == kNil:
			default:
				cv := v
				if nilish(cv) {
					cv = sval{kind: kNil}
				}
				res = sval{kind: kRef, id: g.s.push(snode{next: -1, cause: cv})}
			}
			g.out(g.fresh(), res, "recover "+mode+" "+arg+" "+hx.Hex([]byte(recoveryMessage)))
		case c < 30: // errs.Log* through a capturing handler: the error behind the stack_trace attribute
			a := g.anyVar()
			v := g.val(a)
			res := v
			switch {
			case nilish(v):
				res = sval{kind: kNil}
			case v.kind != kRef:
				res = sval{kind: kRef, id: g.s.push(snode{next: -1, cause: v})}
			}
			g.out(g.fresh(), res, "log "+vn(a)+" "+strconv.Itoa(r.Intn(10)))
		default:
			a := g.anyVar()
			v := g.val(a)
			res := sval{kind: kNil}
			pre := hx.Pick(r, []string{"", "", "p:", "x"})
			if v.kind == kRef {
				n := g.s.nodes[v.id]
				if pre != "" {
					n.empty = false
				}
				res = sval{kind: kRef, id: g.s.push(n)}
			}
			g.out(g.fresh(), res, "clone "+vn(a)+" "+hx.Hex([]byte(pre)))
		}
	}
}

// elem takes one element of WrappedErrors() of variable a as a value of its own and (usually) appends to it: a detached
// copy must behave like a fresh single error, and the aggregate it came from must not change.
func (g *gen) elem(a int) {
	v := g.val(a)
	n := g.s.length(v)
	i := g.r.Intn(n + 1)
	if n > 0 && g.r.Chance(1, 2) {
		i = hx.Pick(g.r, []int{0, 0, n - 1})
	}
	res := sval{kind: kNil}
	if v.kind == kRef && i < n {
		nd := g.s.nodes[g.s.chain(v.id)[i]]
		nd.next = -1
		res = sval{kind: kRef, id: g.s.push(nd)}
	}
	k := g.fresh()
	g.out(k, res, "elem "+vn(a)+" "+strconv.Itoa(i))
	if g.r.Chance(2, 3) {
		args := []int{k}
		for j, m := 0, g.r.Range(1, 3); j < m; j++ {
			args = append(args, g.anyVar())
		}
		if !g.doAppend(k, args) {
			g.doAppend(k, args[:1])
		}
	}
}

// lateRender renders the oldest values at the end of the history: the stack of an old error must still be its own
// after many errors were created elsewhere.
func (g *gen) lateRender() {
	for i, n := 0, g.r.Range(1, 3); i < n && g.nextV > 0; i++ {
		a := g.r.Intn(g.nextV)
		if i == 0 || g.r.Bool() {
			a = g.r.Intn(1 + g.nextV/3)
		}
		g.out(g.fresh(), g.val(a), "render "+vn(a))
	}
}

// bigHistory grows one accumulator through the sizes where fixed buffers, growth policies and two/three/four digit
// counts change (12, 16/17, 32/33, 64/65, 100, 128/129, 256/257, 1000+), with few variables so that the output stays small.
func (g *gen) bigHistory(limit int) {
	r := g.r
	g.s = &sim{vars: map[int]sval{}}
	g.nextV = 0
	g.cap = limit
	g.emit("reset")
	g.lines++
	acc, x, y := g.fresh(), g.fresh(), g.fresh()
	g.out(acc, sval{kind: kRef, id: g.s.push(snode{next: -1})}, "new "+hexMsg(r))
	g.out(x, sval{kind: kRef, id: g.s.push(snode{next: -1})}, "new 78")
	g.out(y, sval{kind: kPlain}, "plain 79")
	var targets []int
	for _, t := range []int{12, 16, 17, 32, 33, 64, 65, 100, 128, 129, 256, 257, 1000, 1024} {
		if t <= limit {
			targets = append(targets, t)
		}
	}
	goal := hx.Pick(r, targets)
	var snaps []int // independent copies of earlier states of the accumulator, for growing in big steps
	for step := 0; step < 90; step++ {
		n := g.s.length(g.val(acc))
		if n == goal {
			switch r.Intn(4) {
			case 0:
				g.out(g.fresh(), g.val(acc), "render "+vn(acc))
			case 1:
				g.elem(acc)
			case 2: // the big aggregate as a middle argument of a fresh accumulator
				k := g.fresh()
				g.out(k, sval{kind: kRef, id: g.s.push(snode{next: -1})}, "new 68")
				g.doAppend(k, []int{k, acc, x})
				g.out(k, sval{kind: kNil}, "nil") // drop it again: keeps the dump small
			default:
				g.out(g.fresh(), g.val(acc), "eon "+vn(acc))
			}
			// next goal: the neighbour, or a larger threshold
			var larger []int
			for _, t := range targets {
				if t > n {
					larger = append(larger, t)
				}
			}
			if len(larger) == 0 {
				break
			}
			goal = larger[0]
			if r.Chance(1, 3) {
				goal = hx.Pick(r, larger)
			}
			continue
		}
		best, bestLen := -1, 0
		for _, sv := range snaps {
			if l := g.s.length(g.val(sv)); n+l <= goal && l > bestLen {
				best, bestLen = sv, l
			}
		}
		switch {
		case 2*n <= goal && bestLen <= n:
			if r.Bool() {
				g.doAppend(acc, []int{acc, acc}) // doubling through aliasing
			} else { // an independent copy, appended; kept for later
				c := g.fresh()
				g.out(c, sval{kind: kTnil}, "tnil")
				g.doAppend(c, []int{c, acc})
				g.doAppend(acc, []int{acc, c})
				if len(snaps) >= 3 {
					g.out(snaps[0], sval{kind: kNil}, "nil")
					snaps = snaps[1:]
				}
				snaps = append(snaps, c)
			}
		case bestLen >= 3:
			if n+bestLen+1 <= goal && r.Bool() {
				g.doAppend(acc, []int{acc, best, x}) // an aggregate in a non-last position
			} else {
				g.doAppend(acc, []int{acc, best})
			}
		case goal-n >= 3 && r.Bool():
			g.doAppend(acc, []int{acc, x, y, x})
		default:
			g.doAppend(acc, []int{acc, hx.Pick(r, []int{x, y})})
		}
	}
	g.lateRender()
	g.cap = 40
}

func (a *errsArea) Gen(r *hx.Rng, n int, _ string, emit func(string)) {
	g := &gen{r: r, emit: emit, cap: 40}
	for g.lines < n {
		if r.Chance(1, 120) {
			g.bigHistory(hx.Pick(r, []int{70, 140, 140, 300, 300, 1100}))
			continue
		}
		maxOps := 12
		if r.Chance(1, 6) {
			maxOps = 30 // long chains on one accumulator
		}
		g.history(maxOps)
		g.lateRender()
	}
}
