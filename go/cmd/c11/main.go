// Harness for C11 (error aggregation and wrapping): a stateful protocol over a table of named error values that drives
// errs.Append / Wrap / WrapTyped / New… / ErrorOrNil / CloneWithPrefixMessage and prints, after every call, what is
// observable of EVERY variable (Count, Message, WrappedErrors, ErrorOrNil, pointer identity), plus an
// implementation-side oracle area for fmt verbs, stack text, errors.Is/As, Recovery and the slog glue.
package main

import (
	"errors"
	"fmt"
	"regexp"
	"runtime"
	"sort"
	"strconv"
	"strings"
	"syscall"
	"time"
	"unsafe"

	"github.com/richardwilkes/toolbox/errs"
	"verifharness/hx"
)

// fptr is a foreign error type with a pointer receiver that tolerates a nil receiver.
type fptr struct{ _ int }

func (f *fptr) Error() string { return "foreign-nil" }

// fwrap is a foreign error that wraps another error.
type fwrap struct {
	inner error
	msg   string
}

func (f *fwrap) Error() string { return f.msg }
func (f *fwrap) Unwrap() error { return f.inner }

func isNilish(v error) bool {
	switch t := v.(type) {
	case nil:
		return true
	case *errs.Error:
		return t == nil
	}
	return isForeignNil(v)
}

type errsArea struct {
	vars     map[int]error
	stacks   map[*uintptr]string // first cell of a recorded stack -> the harness function that created the error
	wflag    map[*uintptr]bool   // first cell of a recorded stack -> the error renders no cause section (wrapped)
	serial   map[*uintptr]int    // first cell of a recorded stack -> serial number of the capture (order of creation)
	poisoned bool
}

func (a *errsArea) get(w string) error {
	return a.vars[varIx(w)]
}

func varIx(w string) int {
	if !strings.HasPrefix(w, "v") {
		panic("bad var")
	}
	return hx.Atoi(w[1:])
}

func (a *errsArea) keys() []int {
	ks := make([]int, 0, len(a.vars))
	for k := range a.vars {
		ks = append(ks, k)
	}
	sort.Ints(ks)
	return ks
}

func (a *errsArea) same(ks []int, v error) string {
	for _, k := range ks {
		if sameVal(a.vars[k], v) {
			return "#" + strconv.Itoa(k)
		}
	}
	return "#?"
}

func (a *errsArea) nodeDesc(n *errs.Error) string {
	var sb strings.Builder
	sb.WriteString(hx.Hex([]byte(n.Message())))
	sb.WriteByte('.')
	if n.RawStackTrace() != nil {
		sb.WriteByte('s')
	}
	c := n.Unwrap()
	if c != nil {
		sb.WriteByte('c')
		// the `wrapped` flag is visible only through the absence of the "Caused by" section; it is fixed when the error
		// is created and copies share the recorded stack, so the answer is remembered per stack (big aggregates would
		// otherwise be symbolised again on every line)
		var key *uintptr
		if st := n.RawStackTrace(); len(st) != 0 {
			key = unsafe.SliceData(st)
		}
		w, known := a.wflag[key]
		if !known || key == nil {
			w = !strings.Contains(n.StackTrace(true), "\n  Caused by: ")
			if key != nil {
				a.wflag[key] = w
			}
		}
		if w {
			sb.WriteByte('w')
		}
	}
	return sb.String()
}

func (a *errsArea) desc(ks []int, v error) string {
	switch t := v.(type) {
	case nil:
		return "nil"
	case *errs.Error:
		if t == nil {
			return "tn" + a.same(ks, v)
		}
		var sb strings.Builder
		sb.WriteString("e" + a.same(ks, v) + "[")
		sb.WriteString(strconv.Itoa(t.Count()))
		sb.WriteByte('|')
		sb.WriteString(hx.Hex([]byte(t.Message())))
		sb.WriteByte('|')
		if t.ErrorOrNil() == nil {
			sb.WriteByte('z')
		} else {
			sb.WriteByte('n')
		}
		sb.WriteByte('|')
		for i, w := range t.WrappedErrors() {
			if i > 0 {
				sb.WriteByte(';')
			}
			we, ok := w.(*errs.Error)
			if !ok || we == nil {
				sb.WriteString("?")
				continue
			}
			sb.WriteString(a.nodeDesc(we))
		}
		sb.WriteByte(']')
		return sb.String()
	case *fwrap:
		return "f" + a.same(ks, v) + ":" + hx.Hex([]byte(t.msg))
	default:
		if isForeignNil(v) {
			return "fn" + a.same(ks, v)
		}
		return "p" + a.same(ks, v) + ":" + hx.Hex([]byte(v.Error()))
	}
}

// renderAll renders an error with every verb and accessor and checks that the renderings agree with each other
// (a panic is caught by the caller and becomes the output `panic`).
func (a *errsArea) renderAll(e *errs.Error) string {
	msg := e.Message()
	v, pv := fmt.Sprintf("%v", e), fmt.Sprintf("%+v", e)
	switch {
	case fmt.Sprintf("%s", e) != msg:
		return "FAIL-render %s"
	case fmt.Sprintf("%q", e) != strconv.Quote(msg):
		return "FAIL-render %q"
	case v != e.Detail(true) || v != e.Error() || pv != e.Detail(false):
		return "FAIL-render %v/%+v/Error/Detail disagree"
	case !strings.HasSuffix(v, e.StackTrace(true)) || !strings.HasSuffix(pv, e.StackTrace(false)):
		return "FAIL-render StackTrace is not the end of Detail"
	case msg != "" && !strings.HasPrefix(v, msg):
		return "FAIL-render %v does not start with the message"
	case errors.Unwrap(e) == nil && strings.Contains(e.StackTrace(true), "\n  Caused by: "):
		return "FAIL-render Caused by without a cause"
	}
	// every contained error still names the harness function that created it, however many errors were created
	// elsewhere since (the stack of an error is its own)
	ws := e.WrappedErrors()
	for i, w := range ws {
		if i >= 24 && i < len(ws)-24 && i%37 != 0 {
			continue // big aggregates: both ends and a sample
		}
		we, ok := w.(*errs.Error)
		if !ok || we == nil {
			return "FAIL-render WrappedErrors element is not an *Error"
		}
		st := we.RawStackTrace()
		if len(st) == 0 {
			continue
		}
		want, known := a.stacks[unsafe.SliceData(st)]
		if !known {
			continue
		}
		text := we.StackTrace(true)
		if !strings.HasPrefix(text, "    [main."+want+"] ") {
			line, _, _ := strings.Cut(text, "\n")
			return "FAIL-render element " + strconv.Itoa(i) + " was created in main." + want + " but its stack starts with " +
				strings.ReplaceAll(strings.TrimSpace(line), " ", "_")
		}
		if i == 0 && !strings.Contains("\n"+v, "\n    [main."+want+"] ") {
			return "FAIL-render %v does not name main." + want
		}
	}
	return ""
}

var creatorIDs = map[string]int{"main.mkNew": 1, "main.mkNewf": 2, "main.mkCause": 3, "main.mkCausef": 4, "main.mkWrap": 5,
	"main.mkWrapTyped": 6, "main.mkAppend": 7, "main.doPanic": 8, "main.mkLog": 9}

var frameLine = regexp.MustCompile(`^    \[(.+)\] .+:[0-9]+$`)

// canon replaces every block of frame lines of a %v / %+v rendering by the token the model uses for a recorded stack:
// «creator.serial», creator = the first function of the block outside the library (as a number), serial = the order of
// capture of the stack that the block belongs to (the k-th block belongs to the k-th error with a stack along the chain of
// *Error causes).
func (a *errsArea) canon(text string, e *errs.Error) (string, string) {
	var serials []int
	for cur := e; cur != nil; {
		if st := cur.RawStackTrace(); len(st) != 0 {
			n, ok := a.serial[unsafe.SliceData(st)]
			if !ok {
				n = -1
			}
			serials = append(serials, n)
		}
		next, ok := errors.Unwrap(cur).(*errs.Error)
		if !ok {
			break
		}
		cur = next
	}
	var out []string
	lines := strings.Split(text, "\n")
	blocks := 0
	const causedBy = "  Caused by: "
	for i := 0; i < len(lines); {
		prefix := ""
		if strings.HasPrefix(lines[i], causedBy) && frameLine.MatchString(lines[i][len(causedBy):]) {
			// a cause without a message: its frames follow the marker on the same line
			prefix = causedBy
			lines[i] = lines[i][len(causedBy):]
		}
		if !frameLine.MatchString(lines[i]) {
			out = append(out, lines[i])
			i++
			continue
		}
		creator := "?"
		for ; i < len(lines) && frameLine.MatchString(lines[i]); i++ {
			fn := frameLine.FindStringSubmatch(lines[i])[1]
			// (errors made inside errs.Recovery have runtime.gopanic between the library and the panicking function)
			if creator == "?" && !strings.HasPrefix(fn, "github.com/richardwilkes/toolbox/errs.") && !strings.HasPrefix(fn, "runtime.") {
				creator = fn
				if id, ok := creatorIDs[fn]; ok {
					creator = strconv.Itoa(id)
				}
			}
		}
		if blocks >= len(serials) {
			return "", "FAIL-render more stack blocks than errors with a stack along the cause chain"
		}
		out = append(out, prefix+"«"+creator+"."+strconv.Itoa(serials[blocks])+"»")
		blocks++
	}
	if blocks != len(serials) {
		return "", "FAIL-render " + strconv.Itoa(len(serials)) + " errors with a stack along the cause chain but " + strconv.Itoa(blocks) + " stack blocks"
	}
	return strings.Join(out, "\n"), ""
}

// rendering is what the model computes for a rendered error: %s, %q (for quotable messages) and the canonical %v = %+v.
func (a *errsArea) rendering(e *errs.Error) (string, string) {
	s := fmt.Sprintf("%s", e)
	q := "?"
	quotable := true
	for i := 0; i < len(s); i++ {
		if c := s[i]; !(c >= 32 && c <= 126) && c != '\n' && c != '\t' && c != '\r' {
			quotable = false
		}
	}
	if quotable {
		q = hx.Hex([]byte(fmt.Sprintf("%q", e)))
	}
	v, fail := a.canon(fmt.Sprintf("%v", e), e)
	if fail != "" {
		return "", fail
	}
	pv, fail := a.canon(fmt.Sprintf("%+v", e), e)
	if fail != "" {
		return "", fail
	}
	if v != pv {
		return "", "FAIL-render %v and %+v differ outside the frame blocks"
	}
	return " R:" + hx.Hex([]byte(s)) + ":" + q + ":" + hx.Hex([]byte(v)), ""
}

// register remembers which harness function created the stacks that appear for the first time in the value.  A call
// that creates an error AND its cause (Recovery with a non-error panic value) captured the cause's stack first.
func (a *errsArea) register(v error, creator string) {
	e, ok := v.(*errs.Error)
	if !ok || e == nil || creator == "" {
		return
	}
	if c, ok2 := errors.Unwrap(e).(*errs.Error); ok2 && c != nil && creator == "doPanic" {
		a.register(c, creator)
	}
	for _, w := range e.WrappedErrors() {
		if we, ok2 := w.(*errs.Error); ok2 && we != nil {
			if st := we.RawStackTrace(); len(st) != 0 {
				if _, seen := a.stacks[unsafe.SliceData(st)]; !seen {
					a.stacks[unsafe.SliceData(st)] = creator
					a.serial[unsafe.SliceData(st)] = len(a.serial)
				}
			}
		}
	}
}

//go:noinline
func mkNew(msg string) *errs.Error { return errs.New(msg) }

//go:noinline
func mkNewf(msg string) *errs.Error { return errs.Newf("%s", msg) }

//go:noinline
func mkCause(msg string, c error) *errs.Error { return errs.NewWithCause(msg, c) }

//go:noinline
func mkCausef(msg string, c error) *errs.Error { return errs.NewWithCausef(c, "%s", msg) }

//go:noinline
func mkAppend(acc error, rest ...error) *errs.Error { return errs.Append(acc, rest...) }

//go:noinline
func mkWrap(c error) error { return errs.Wrap(c) }

//go:noinline
func mkWrapTyped(c error) *errs.Error { return errs.WrapTyped(c) }

func (a *errsArea) dump() string {
	ks := a.keys()
	parts := make([]string, 0, len(ks))
	for _, k := range ks {
		parts = append(parts, "v"+strconv.Itoa(k)+":"+a.desc(ks, a.vars[k]))
	}
	return strings.Join(parts, " ")
}

// Run executes one line under a watchdog: a defective Append can build a cyclic chain, on which the library's own
// loops (Count, the cursor walk, the argument copy) never end or allocate without bound.  The watchdog looks at the CPU
// time the process burns while the line runs (a starved process on a loaded machine burns none, a spinning loop burns
// all of it), answers `hang` and gives every later line of the stream the token `skipped-after-crash`, so that a
// hanging mutant costs a fraction of a second per stream instead of a process restart per history.
func (a *errsArea) Run(line string) string {
	if a.poisoned {
		return "skipped-after-crash"
	}
	done := make(chan string, 1)
	go func() { done <- hx.Safe(func() string { return a.exec(line) }) }()
	select {
	case out := <-done: // the common case: no timer at all
		return out
	case <-time.After(5 * time.Millisecond):
	}
	cpu0, t0 := cpuTime(), time.Now()
	for {
		select {
		case out := <-done:
			return out
		case <-time.After(5 * time.Millisecond):
			var ms runtime.MemStats
			runtime.ReadMemStats(&ms)
			if ms.HeapAlloc > 1<<30 || cpuTime()-cpu0 > time.Second || time.Since(t0) > 20*time.Second {
				a.poisoned = true
				return "hang"
			}
		}
	}
}

func cpuTime() time.Duration {
	var ru syscall.Rusage
	if err := syscall.Getrusage(syscall.RUSAGE_SELF, &ru); err != nil {
		return 0
	}
	return time.Duration(ru.Utime.Nano() + ru.Stime.Nano())
}

func (a *errsArea) exec(line string) string {
	f := strings.Fields(line)
	if len(f) == 1 && f[0] == "reset" {
		a.vars = map[int]error{}
		a.stacks = map[*uintptr]string{}
		a.wflag = map[*uintptr]bool{}
		a.serial = map[*uintptr]int{}
		return "reset"
	}
	if len(f) < 3 || f[1] != "=" || !strings.HasPrefix(f[0], "v") {
		return "bad-op"
	}
	if a.vars == nil {
		a.vars = map[int]error{}
	}
	if a.stacks == nil {
		a.stacks = map[*uintptr]string{}
	}
	if a.wflag == nil {
		a.wflag = map[*uintptr]bool{}
	}
	if a.serial == nil {
		a.serial = map[*uintptr]int{}
	}
	creator := ""
	k := varIx(f[0])
	args := f[3:]
	var res error
	switch {
	case f[2] == "nil" && len(args) == 0:
		res = nil
	case f[2] == "tnil" && len(args) == 0:
		res = (*errs.Error)(nil)
	case f[2] == "fnil" && len(args) == 0:
		res = (*fptr)(nil)
	case f[2] == "fnil" && len(args) == 1: // a typed nil of another nilable kind
		res = foreignNil(args[0])
	case f[2] == "empty" && len(args) == 0:
		res = &errs.Error{}
	case f[2] == "plain" && len(args) == 2 && args[1] != "ptr": // a non-nil foreign error of another kind
		if res = foreignPlain(args[1], string(hx.UnHex(args[0]))); res == nil {
			return "bad-op"
		}
	case f[2] == "plain" && (len(args) == 1 || len(args) == 2):
		res = errors.New(string(hx.UnHex(args[0])))
	case f[2] == "new" && len(args) == 1:
		res, creator = mkNew(string(hx.UnHex(args[0]))), "mkNew"
	case f[2] == "newf" && len(args) == 1:
		res, creator = mkNewf(string(hx.UnHex(args[0]))), "mkNewf"
	case f[2] == "cause" && len(args) == 2:
		res, creator = mkCause(string(hx.UnHex(args[0])), a.get(args[1])), "mkCause"
	case f[2] == "causef" && len(args) == 2:
		res, creator = mkCausef(string(hx.UnHex(args[0])), a.get(args[1])), "mkCausef"
	case f[2] == "fwrap" && len(args) == 2:
		res = &fwrap{msg: string(hx.UnHex(args[0])), inner: a.get(args[1])}
	case f[2] == "append" && len(args) >= 1:
		rest := make([]error, 0, len(args)-1)
		for _, w := range args[1:] {
			rest = append(rest, a.get(w))
		}
		res, creator = mkAppend(a.get(args[0]), rest...), "mkAppend"
	case f[2] == "wrap" && len(args) == 1:
		res, creator = mkWrap(a.get(args[0])), "mkWrap"
	case f[2] == "wraptyped" && len(args) == 1:
		res, creator = mkWrapTyped(a.get(args[0])), "mkWrapTyped"
	case f[2] == "unwrap" && len(args) == 1:
		if v := a.get(args[0]); !isNilish(v) {
			res = errors.Unwrap(v)
		}
	case f[2] == "render" && len(args) == 1:
		res = a.get(args[0])
		if e, ok := res.(*errs.Error); ok && e != nil {
			if fail := a.renderAll(e); fail != "" {
				return fail
			}
			a.vars[k] = res
			r, fail := a.rendering(e)
			if fail != "" {
				return fail
			}
			return a.dump() + r
		}
	case f[2] == "elem" && len(args) == 2:
		// element i of WrappedErrors(): a detached copy, which later calls use as accumulator or argument
		if e, ok := a.get(args[0]).(*errs.Error); ok && e != nil {
			if ws, i := e.WrappedErrors(), hx.Atoi(args[1]); i < len(ws) {
				res = ws[i]
			}
		}
	case f[2] == "eon" && len(args) == 1:
		if e, ok := a.get(args[0]).(*errs.Error); ok {
			res = e.ErrorOrNil()
		}
	case f[2] == "is" && len(args) == 2:
		// errors.Is(a, b); the value itself is the result
		res = a.get(args[0])
		a.vars[k] = res
		out := "skip"
		if t := a.get(args[1]); !isSkipped(t) {
			out = isOutcome(res, t)
		}
		return a.dump() + " IS:" + out
	case f[2] == "asf" && len(args) == 2:
		// errors.As(a, &target), target of the dynamic type of b (any error type); the result is the value found
		v, t := a.get(args[0]), a.get(args[1])
		out := "skip"
		if t != nil && !isForeignNil(t) && !endsForeignNil(v) {
			if v == nil {
				out = "0"
			} else {
				res, out = asForeign(v, t)
			}
		}
		a.vars[k] = res
		return a.dump() + " AS:" + out
	case f[2] == "as" && len(args) == 1:
		var ep *errs.Error
		if v := a.get(args[0]); v != nil && errors.As(v, &ep) {
			res = ep
		}
	case f[2] == "recover" && len(args) == 3: // the third argument (the measured message) is for the model
		// recover <mode> <var | hex>: a panic with an error value (mode err, nohandler, badhandler), with a string (str),
		// or no panic at all (none) under errs.Recovery; the result is what the handler received
		var pv any
		switch args[0] {
		case "str":
			pv = string(hx.UnHex(args[1]))
		case "none":
		default:
			if v := a.get(args[1]); v != nil {
				pv = v
			}
		}
		mode := args[0]
		if pv == nil {
			mode = "none" // panic(nil) is a runtime.PanicNilError of its own: not exercised here
		}
		got, called, escaped := runRecovery(pv, mode)
		res, creator = got, "doPanic"
		a.vars[k] = res
		a.register(res, creator)
		flag := "0"
		if called {
			flag = "1"
		}
		if escaped {
			flag = "escaped"
		}
		return a.dump() + " RC:" + flag
	case f[2] == "log" && len(args) == 2:
		var rec string
		res, rec = logged(hx.Atoi(args[1]), a.get(args[0]))
		creator = "mkLog"
		a.vars[k] = res
		a.register(res, creator)
		return a.dump() + " L:" + rec
	case f[2] == "clone" && len(args) == 2:
		if e, ok := a.get(args[0]).(*errs.Error); ok && e != nil {
			res = e.CloneWithPrefixMessage(string(hx.UnHex(args[1])))
		}
	default:
		return "bad-op"
	}
	a.vars[k] = res
	a.register(res, creator)
	return a.dump()
}

// main.main carries the file name `_testmain.go` (nothing may follow it in this file): it is the frame the library
// filters by function AND file, so every trimmed trace of this binary exercises that rule; area `trace` also calls main
// again from a probe (mainHook) to put the frame next to the creating function.
//
//line _testmain.go:1
func main() {
	if h := mainHook; h != nil {
		mainHook = nil
		mainHookResult = h()
		return
	}
	hx.Main(map[string]hx.Area{"errs": &errsArea{}, "fmt": &fmtArea{}, "trace": traceArea{}})
}
