package main

import (
	"go/scanner"
	"reflect"
	"strings"
	"unsafe"
)

// Foreign error types of every kind the library's typed-nil guard distinguishes.  For each NILABLE kind that can carry an
// Error method (pointer, slice, map, func, chan) there is a typed nil and non-nil values (including the zero-length /
// empty ones, which are real errors); struct, string and int error types cannot be nil at all (their zero values are
// real errors).  An interface stored in an `error` is flattened to its dynamic value and unsafe.Pointer cannot be the
// base of a method receiver, so those two kinds of the guard cannot reach it through an error value.
// The harness decides "is a typed nil" by its own type switch (isNilish), never with the library's helper.

type sliceErr []string

func (s sliceErr) Error() string {
	if s == nil {
		return "nil-slice"
	}
	return strings.Join(s, "")
}

type mapErr map[string]string

func (m mapErr) Error() string {
	if m == nil {
		return "nil-map"
	}
	return m["m"]
}

type funcErr func() string

func (f funcErr) Error() string {
	if f == nil {
		return "nil-func"
	}
	return f()
}

type chanErr chan string

func (c chanErr) Error() string {
	if c == nil {
		return "nil-chan"
	}
	m := <-c
	c <- m
	return m
}

type structErr struct{ msg string }

func (s structErr) Error() string { return s.msg }

type strErr string

func (s strErr) Error() string { return string(s) }

// intErr is an index into intMsgs (equal messages share an index, so == on the values is equality of the messages).
type intErr int

var intMsgs = []string{""}

func (i intErr) Error() string { return intMsgs[i] }

var nilKinds = []string{"ptr", "slice", "map", "func", "chan", "scanner"}
var plainKinds = []string{"ptr", "slice", "slice0", "map", "func", "chan", "struct", "string", "int"}

// foreignNil returns the typed nil of the kind ("" = pointer).
func foreignNil(kind string) error {
	switch kind {
	case "slice":
		return sliceErr(nil)
	case "map":
		return mapErr(nil)
	case "func":
		return funcErr(nil)
	case "chan":
		return chanErr(nil)
	case "scanner": // a nil go/scanner.ErrorList: slice kind, from the standard library
		return scanner.ErrorList(nil)
	}
	return (*fptr)(nil)
}

// foreignPlain returns a non-nil foreign error of the kind whose Error() is msg ("" / "ptr" = errors.New).
func foreignPlain(kind, msg string) error {
	switch kind {
	case "slice":
		return sliceErr{msg}
	case "slice0": // non-nil, zero length: still an error (its message is empty)
		return make(sliceErr, 0, 1)
	case "map":
		return mapErr{"m": msg}
	case "func":
		return funcErr(func() string { return msg })
	case "chan":
		c := make(chanErr, 1)
		c <- msg
		return c
	case "struct":
		return structErr{msg: msg}
	case "string":
		return strErr(msg)
	case "int":
		for i, m := range intMsgs {
			if m == msg {
				return intErr(i)
			}
		}
		intMsgs = append(intMsgs, msg)
		return intErr(len(intMsgs) - 1)
	}
	return nil
}

func isForeignNil(v error) bool {
	switch t := v.(type) {
	case *fptr:
		return t == nil
	case *customErr:
		return t == nil
	case sliceErr:
		return t == nil
	case mapErr:
		return t == nil
	case funcErr:
		return t == nil
	case chanErr:
		return t == nil
	case scanner.ErrorList:
		return t == nil
	}
	return false
}

// sameVal is identity of error values without the run-time panic of == on slices, maps and funcs; all foreign typed nils
// count as one value (the model has a single notion of a foreign typed nil).
func sameVal(a, b error) bool {
	if a == nil || b == nil {
		return a == nil && b == nil
	}
	if isForeignNil(a) || isForeignNil(b) {
		return isForeignNil(a) && isForeignNil(b)
	}
	ta, tb := reflect.TypeOf(a), reflect.TypeOf(b)
	if ta != tb {
		return false
	}
	if ta.Comparable() {
		return a == b
	}
	if fa, ok := a.(funcErr); ok { // reflect's Pointer() of a func is its code; the closure object is the identity
		fb, _ := b.(funcErr)
		return *(*unsafe.Pointer)(unsafe.Pointer(&fa)) == *(*unsafe.Pointer)(unsafe.Pointer(&fb))
	}
	return reflect.ValueOf(a).Pointer() == reflect.ValueOf(b).Pointer()
}
