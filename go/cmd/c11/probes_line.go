package main

// Pass-through frames whose FILE names are chosen with //line directives (the runtime reports them as written): the
// shapes the file shortening of StackTrace distinguishes.  Nothing else may follow a directive but the one function.

//go:noinline
//line /tmp/main.lp/f.go:10
func lpA(k func() error) error { return k() }

//go:noinline
//line /tmp/main.lp/_obj/f.go:20
func lpObj(k func() error) error { return k() }

//go:noinline
//line /tmp/main.lp/zzz/f.go:30
func lpZzz(k func() error) error { return k() }

//go:noinline
//line /tmp/other.x/f.go:40
func lpOther(k func() error) error { return k() }

//go:noinline
//line /nodots/file:50
func lpNoDot(k func() error) error { return k() }

//go:noinline
//line /x.go:1000000
func lpRoot(k func() error) error { return k() }

//go:noinline
//line /a.b/c.go:60
func lpDotDir(k func() error) error { return k() }

//go:noinline
//line /_obj/x.go:70
func lpRootObj(k func() error) error { return k() }

//go:noinline
//line /tmp/main.lp/_obj/_obj/f.go:80
func lpObjObj(k func() error) error { return k() }

//go:noinline
//line m/x.go:90
func lpRel(k func() error) error { return k() }

//go:noinline
//line main.lp/x.go:100
func lpRelDeep(k func() error) error { return k() }

//go:noinline
//line /tmp/dir/.hidden.go:110
func lpHidden(k func() error) error { return k() }

//go:noinline
//line /tmp/ünï.x/f.go:120
func lpUni(k func() error) error { return k() }

//go:noinline
//line /tmp/main./f.go:130
func lpMainDot(k func() error) error { return k() }

//go:noinline
//line /tmp/a.b/README:140
func lpTrail(k func() error) error { return k() }

//go:noinline
//line /tmp/x.y/_obj/f.go:150
func lpObjOnly(k func() error) error { return k() }

//go:noinline
//line //x.go:160
func lpDouble(k func() error) error { return k() }

//go:noinline
//line /tmp/main.lp/_obj:170
func lpObjFile(k func() error) error { return k() }

//go:noinline
//line /tmp/pkg/a.b.c/main.lp.go:1
func lpTwoDots(k func() error) error { return k() }

//go:noinline
//line /tmp/ain.lp/f.go:180
func lpInner(k func() error) error { return k() }

//go:noinline
//line _testmain.go:50
func lpTestmain(k func() error) error { return k() }
