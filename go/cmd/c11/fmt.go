package main

import (
	"context"
	"errors"
	"fmt"
	"log/slog"
	"reflect"
	"strconv"
	"strings"

	"github.com/richardwilkes/toolbox/errs"
	"verifharness/hx"
)

// Implementation-side oracle (no Lean model: runtime stack walking, fmt, slog).  Every error is created inside a
// function with a known name, so the rendered stack must name that function.

//go:noinline
func makeNew(msg string) *errs.Error { mark(); return errs.New(msg) }

//go:noinline
func makeNewf(msg string) *errs.Error { mark(); return errs.Newf("%s", msg) }

//go:noinline
func makeCause(msg string, c error) *errs.Error { mark(); return errs.NewWithCause(msg, c) }

//go:noinline
func makeCausef(msg string, c error) *errs.Error { mark(); return errs.NewWithCausef(c, "%s", msg) }

//go:noinline
func makeWrap(c error) error { mark(); return errs.Wrap(c) }

//go:noinline
func makeWrapTyped(c error) *errs.Error { mark(); return errs.WrapTyped(c) }

//go:noinline
func makeAppend(acc error, rest ...error) *errs.Error { mark(); return errs.Append(acc, rest...) }

//go:noinline
func makeInner(msg string) *errs.Error { mark(); return errs.New(msg) }

type fmtArea struct{}

var fmtKinds = []string{"new", "newf", "cause", "causef", "wrap", "wraptyped", "appendplain", "appendnil", "agg", "empty", "recover", "log",
	"newfargs", "deep", "causechain", "wrapas", "late", "isas", "recoverkinds", "logall", "logvalue", "filter", "clone", "nilkinds"}
var causeKinds = []string{"plain", "fwrap", "errs", "nil", "tnil", "fnil", "fwraperrs", "errorf", "join",
	// typed nils of every nilable kind, non-nil values of the same types, error types that cannot be nil, zero values
	"fnil-slice", "fnil-map", "fnil-func", "fnil-chan", "fnil-scanner",
	"p-slice", "p-slice0", "p-map", "p-func", "p-chan", "p-struct", "p-string", "p-int", "z-struct", "z-string", "z-int"}

// sizes around the places where fixed buffers, growth policies and the number of digits of the count change
var aggSizes = []int{2, 3, 4, 5, 9, 10, 11, 12, 16, 17, 32, 33, 64, 65, 99, 100, 128, 129, 256, 257, 1000}

var oracleMsgs = append(append([]string{}, msgs...), "\xff\xfe not utf8", strings.Repeat("long ", 1000), "a\r\nb", "\x00nul")

func (fmtArea) Gen(r *hx.Rng, n int, _ string, emit func(string)) {
	// fixed preamble: errors built with a typed-nil cause (fix f303e30) are rendered with every verb
	for _, k := range []string{"cause", "causef", "log", "recover", "wrap", "wraptyped", "appendplain", "appendnil"} {
		for _, c := range []string{"tnil", "fnil", "fnil-slice", "fnil-map", "fnil-func", "fnil-chan", "fnil-scanner"} {
			emit("chk " + k + " " + c + " 61 62 2")
			emit("chk " + k + " " + c + " - - 2")
		}
	}
	for i := 0; i < n; i++ {
		k := fmtKinds[i%len(fmtKinds)]
		if i >= 2*len(fmtKinds) {
			k = hx.Pick(r, fmtKinds)
		}
		emit("chk " + k + " " + hx.Pick(r, causeKinds) + " " + hx.Hex([]byte(hx.Pick(r, oracleMsgs))) + " " +
			hx.Hex([]byte(hx.Pick(r, oracleMsgs))) + " " + strconv.Itoa(hx.Pick(r, aggSizes)))
	}
}

func causeOf(kind, msg string) error {
	switch kind {
	case "plain":
		return errors.New(msg)
	case "fwrap":
		return &fwrap{msg: msg, inner: errors.New("inner-" + msg)}
	case "errs":
		return makeInner(msg)
	case "fwraperrs": // a foreign error that WRAPS a detailed error
		return &fwrap{msg: "ctx " + msg, inner: makeInner(msg)}
	case "errorf":
		return fmt.Errorf("saving %q: %w", msg, makeInner(msg))
	case "join":
		return errors.Join(errors.New("j1 "+msg), makeInner(msg))
	case "z-struct":
		return structErr{}
	case "z-string":
		return strErr("")
	case "z-int":
		return intErr(0)
	case "tnil":
		return (*errs.Error)(nil)
	case "fnil":
		return (*fptr)(nil)
	}
	if k, ok := strings.CutPrefix(kind, "fnil-"); ok {
		return foreignNil(k)
	}
	if k, ok := strings.CutPrefix(kind, "p-"); ok {
		return foreignPlain(k, msg)
	}
	return nil
}

// firstFrame returns the line that follows the message (the first stack frame line).
func firstFrame(text, msg string) (string, bool) {
	if !strings.HasPrefix(text, msg) {
		return "", false
	}
	rest := text[len(msg):]
	if msg != "" {
		if !strings.HasPrefix(rest, "\n") {
			return "", false
		}
		rest = rest[1:]
	}
	line := rest
	if i := strings.IndexByte(rest, '\n'); i >= 0 {
		line = rest[:i]
	}
	return line, true
}

func checkRender(e *errs.Error, wantMsg, creator string, cause error, wrapped bool) string {
	msg := e.Message()
	if msg != wantMsg {
		return fmt.Sprintf("FAIL Message()=%q want %q", msg, wantMsg)
	}
	if s := fmt.Sprintf("%s", e); s != wantMsg {
		return fmt.Sprintf("FAIL %%s renders %q want %q", s, wantMsg)
	}
	if s := fmt.Sprintf("%q", e); s != strconv.Quote(wantMsg) {
		return fmt.Sprintf("FAIL %%q renders %q want %q", s, strconv.Quote(wantMsg))
	}
	v := fmt.Sprintf("%v", e)
	pv := fmt.Sprintf("%+v", e)
	if v != e.Detail(true) || pv != e.Detail(false) || e.Error() != v {
		return "FAIL %v/%+v/Error() disagree with Detail"
	}
	for _, text := range []string{v, pv} {
		line, ok := firstFrame(text, wantMsg)
		if !ok {
			return fmt.Sprintf("FAIL rendering %q does not start with the message %q", text, wantMsg)
		}
		if text == v {
			if !strings.HasPrefix(line, "    [main."+creator+"] ") {
				return fmt.Sprintf("FAIL %%v first frame %q does not name main.%s", line, creator)
			}
			if !strings.Contains(line, ".go:") {
				return fmt.Sprintf("FAIL %%v first frame %q has no file:line", line)
			}
		}
		if !strings.Contains("\n"+text, "\n    [main."+creator+"] ") {
			return fmt.Sprintf("FAIL rendering does not name main.%s: %q", creator, text)
		}
		if len(lastFuncs) < 500 && !strings.Contains(text, "[main.(*fmtArea).Run] ") && !strings.Contains(text, "[main.fmtArea.Run] ") {
			return fmt.Sprintf("FAIL rendering does not name the harness Run function: %q", text)
		}
	}
	if len(lastFuncs) > 0 && lastFuncs[0] == "main."+creator {
		// independent oracle for the whole trace: the functions recorded by runtime.Callers at the creation site
		if fail := checkFuncs(v, pv, wantMsg, lastFuncs); fail != "" {
			return fail
		}
	}
	own := v
	if i := strings.Index(v, "\n  Caused by: "); i >= 0 {
		own = v[:i]
	}
	if strings.Contains(own, "[runtime.") || strings.Contains(own, "toolbox/errs.") {
		return fmt.Sprintf("FAIL %%v shows filtered frames: %q", own)
	}
	if len(lastFuncs) < 500 && !strings.Contains(pv, "[runtime.main] ") {
		return fmt.Sprintf("FAIL %%+v lacks the runtime frames: %q", pv)
	}
	if cause != nil {
		if !sameVal(errors.Unwrap(e), cause) {
			return "FAIL Unwrap does not return the cause"
		}
		// errors.Is compares with ==, which Go defines only for comparable dynamic types (not slices, maps, funcs)
		if reflect.TypeOf(cause).Comparable() && !errors.Is(e, cause) {
			return "FAIL errors.Is does not reach the cause"
		}
		if fw, ok := cause.(*fwrap); ok {
			var target *fwrap
			if !errors.As(e, &target) || target != fw {
				return "FAIL errors.As does not reach the cause"
			}
			if !errors.Is(e, fw.inner) {
				return "FAIL errors.Is does not reach the cause's cause"
			}
		}
		var ep *errs.Error
		if !errors.As(e, &ep) || ep != e {
			return "FAIL errors.As(*Error) does not find the error itself"
		}
		has := strings.Contains(v, "\n  Caused by: ")
		if wrapped && has {
			return fmt.Sprintf("FAIL wrapped error renders a Caused by section: %q", v)
		}
		if !wrapped {
			want := cause.Error()
			if !strings.HasSuffix(v, "\n  Caused by: "+want) {
				return fmt.Sprintf("FAIL %%v does not end with the cause %q: %q", want, v)
			}
			if ce, ok := cause.(*errs.Error); ok {
				sep := "\n"
				if ce.Message() == "" {
					sep = "" // Detail of an error without a message is the stack alone
				}
				if !strings.Contains(v, "\n  Caused by: "+ce.Message()+sep+"    [main.makeInner] ") {
					return fmt.Sprintf("FAIL cause section does not name main.makeInner: %q", v)
				}
				if !strings.HasSuffix(pv, "\n  Caused by: "+ce.Detail(false)) {
					return "FAIL %+v does not end with the untrimmed cause"
				}
			}
		}
	} else {
		if strings.Contains(v[len(wantMsg):], "Caused by") || strings.Contains(pv[len(wantMsg):], "Caused by") {
			return fmt.Sprintf("FAIL Caused by without a cause: %q", v)
		}
		if errors.Unwrap(e) != nil {
			return "FAIL Unwrap of an error without a cause is not nil"
		}
		if st := e.StackTrace(true); !strings.HasSuffix(v, st) || !strings.HasPrefix(st, "    [main."+creator+"] ") {
			return fmt.Sprintf("FAIL StackTrace %q is not the stack part of %%v", st)
		}
	}
	if e.ErrorOrNil() != error(e) {
		return "FAIL ErrorOrNil of a non-empty error is not the error"
	}
	return ""
}

type capture struct {
	rec []slog.Record
}

func (c *capture) Enabled(context.Context, slog.Level) bool { return true }
func (c *capture) Handle(_ context.Context, r slog.Record) error {
	c.rec = append(c.rec, r)
	return nil
}
func (c *capture) WithAttrs([]slog.Attr) slog.Handler { return c }
func (c *capture) WithGroup(string) slog.Handler      { return c }

//go:noinline
func panicWith(e error) {
	panic(e)
}

func doRecover(e error) (got error) {
	defer errs.Recovery(func(err error) { got = err })
	panicWith(e)
	return nil
}

func (fmtArea) Run(line string) string {
	f := strings.Fields(line)
	if len(f) != 6 || f[0] != "chk" {
		return "bad-op"
	}
	kind, ckind := f[1], f[2]
	msg, cmsg := string(hx.UnHex(f[3])), string(hx.UnHex(f[4]))
	n := hx.Atoi(f[5])
	cause := causeOf(ckind, cmsg)
	fail := ""
	switch kind {
	case "new":
		fail = checkRender(makeNew(msg), msg, "makeNew", nil, false)
	case "newf":
		e := makeNewf(msg)
		fail = checkRender(e, msg, "makeNewf", nil, false)
		if fail == "" && !strings.Contains(fmt.Sprintf("%+v", e), "toolbox/errs.Newf] ") {
			fail = "FAIL %+v of a Newf error lacks the errs.Newf frame"
		}
	case "cause", "causef":
		want := cause
		if isNilish(cause) {
			want = nil // NewWithCause drops a typed-nil cause; the error must still render with every verb
		}
		if kind == "cause" {
			fail = checkRender(makeCause(msg, cause), msg, "makeCause", want, false)
		} else {
			fail = checkRender(makeCausef(msg, cause), msg, "makeCausef", want, false)
		}
	case "wrap", "wraptyped":
		var res error
		creator := "makeWrap"
		if kind == "wrap" {
			res = makeWrap(cause)
		} else {
			res = makeWrapTyped(cause)
			creator = "makeWrapTyped"
		}
		switch ckind {
		case "nil", "tnil", "fnil", "fnil-slice", "fnil-map", "fnil-func", "fnil-chan", "fnil-scanner":
			if kind == "wrap" && res != nil {
				fail = "FAIL Wrap(nil) is not nil"
			}
			if kind == "wraptyped" && res != error((*errs.Error)(nil)) {
				fail = "FAIL WrapTyped(nil) is not a nil *Error"
			}
			var tn *errs.Error
			var fn *fptr
			if errs.Wrap(tn) != nil || errs.Wrap(fn) != nil || errs.WrapTyped(tn) != nil || errs.WrapTyped(fn) != nil {
				fail = "FAIL Wrap/WrapTyped of a typed nil is not nil"
			}
			if fail == "" {
				fail = checkNilKinds(msg)
			}
		case "fwraperrs", "errorf", "join":
			// the cause is not an *Error but wraps one: Wrap returns it as is, WrapTyped wraps it again
			if kind == "wrap" {
				if res != cause {
					fail = "FAIL Wrap of an error that wraps an *Error does not return it unchanged"
				}
				break
			}
			e, ok := res.(*errs.Error)
			if !ok || e == nil || e == error(cause) {
				fail = "FAIL WrapTyped of a foreign error did not produce a new *Error"
				break
			}
			fail = checkRender(e, cause.Error(), creator, cause, true)
		case "errs":
			if res != cause {
				fail = "FAIL Wrap/WrapTyped of an *Error does not return it unchanged"
			}
			again := errs.Wrap(res)
			if again != res || error(errs.WrapTyped(res)) != res {
				fail = "FAIL wrapping twice is not idempotent"
			}
		default:
			e, ok := res.(*errs.Error)
			if !ok || e == nil {
				fail = "FAIL Wrap/WrapTyped did not produce an *Error"
				break
			}
			fail = checkRender(e, cause.Error(), creator, cause, true)
			if fail == "" && (errs.Wrap(e) != error(e) || errs.WrapTyped(e) != e) {
				fail = "FAIL wrapping twice is not idempotent"
			}
		}
	case "appendplain":
		if isNilish(cause) {
			cause = errors.New(cmsg)
		}
		if ce, ok := cause.(*errs.Error); ok {
			// an *Error accumulator is the result itself
			r := makeAppend(ce)
			if r != ce {
				fail = "FAIL Append(e) is not e"
			} else {
				fail = checkRender(r, cmsg, "makeInner", nil, false)
			}
			break
		}
		fail = checkRender(makeAppend(cause), cause.Error(), "makeAppend", cause, true)
	case "appendnil":
		if isNilish(cause) {
			cause = errors.New(cmsg)
		}
		if _, ok := cause.(*errs.Error); ok {
			cause = errors.New(cmsg)
		}
		var tn *errs.Error
		fail = checkRender(makeAppend(tn, nil, cause), cause.Error(), "makeAppend", cause, true)
	case "agg":
		parts := make([]error, 0, n)
		want := "Multiple (" + strconv.Itoa(n+1) + ") errors occurred:\n- " + msg
		for i := 0; i < n; i++ {
			m := cmsg + strconv.Itoa(i)
			want += "\n- " + m
			if i%2 == 0 {
				parts = append(parts, makeInner(m))
			} else {
				parts = append(parts, errors.New(m))
			}
		}
		first := makeNew(msg)
		r := makeAppend(first, parts...)
		if r != first {
			fail = "FAIL Append(e, …) is not e"
			break
		}
		// the stack is that of the first error
		fail = checkRender(r, want, "makeNew", nil, false)
		if fail == "" && r.Count() != n+1 {
			fail = "FAIL Count of the aggregate"
		}
		if fail == "" {
			// a nil err starts from nothing: the first *Error argument is copied like the others, never adopted
			a1, a2 := makeInner("a1"), makeInner("a2")
			nr := makeAppend(nil, a1, a2)
			if nr == a1 || nr.Count() != 2 || a1.Count() != 1 || a1.Message() != "a1" || a2.Count() != 1 {
				fail = "FAIL Append(nil, a, b) modified or returned its first argument"
			} else if makeAppend(nr, makeInner("a3")); a1.Count() != 1 || nr.Count() != 3 {
				fail = "FAIL a later Append on the result of Append(nil, a, b) reached a"
			} else if !strings.HasPrefix(nr.StackTrace(true), "    [main.makeInner] ") {
				fail = "FAIL the copy of the first argument lost its stack"
			}
		}
		if fail == "" {
			for i, w := range r.WrappedErrors() {
				if i > 0 && i%2 == 0 && !errors.Is(w, parts[i-1]) {
					fail = "FAIL errors.Is does not reach a wrapped plain error inside the aggregate"
				}
			}
		}
	case "empty":
		e := &errs.Error{}
		var tn *errs.Error
		switch {
		case e.ErrorOrNil() != nil || tn.ErrorOrNil() != nil:
			fail = "FAIL ErrorOrNil of an empty error is not nil"
		case makeAppend(nil).ErrorOrNil() != nil || makeAppend(e, tn, nil, (*fptr)(nil)).ErrorOrNil() != nil:
			fail = "FAIL ErrorOrNil of an empty Append is not nil"
		case e.Count() != 0 || tn.Count() != 0:
			fail = "FAIL Count of an empty error"
		case fmt.Sprintf("%v", e) != "<no detail>":
			fail = "FAIL %v of an empty error"
		}
	case "recover":
		if ckind != "nil" && isNilish(cause) {
			// panic(typed nil error): Recovery hands it to NewWithCause, which drops it; the result must render
			got := doRecover(causeOf(ckind, cmsg))
			e, ok := got.(*errs.Error)
			if !ok || e == nil {
				fail = "FAIL Recovery did not hand an *Error to the handler"
				break
			}
			fail = checkRender(e, "recovered from panic", "panicWith", nil, false)
			if strings.HasPrefix(fail, "FAIL %v first frame") || strings.HasPrefix(fail, "FAIL StackTrace") {
				fail = "" // the first frames are errs.Recovery/runtime.gopanic: only the rendering itself is checked
				if !strings.Contains(fmt.Sprintf("%v", e), "[main.panicWith] ") {
					fail = "FAIL Recovery stack does not name the panicking function"
				}
			}
			break
		}
		if cause == nil {
			cause = errors.New(cmsg)
		}
		got := doRecover(cause)
		e, ok := got.(*errs.Error)
		switch {
		case !ok || e == nil:
			fail = "FAIL Recovery did not hand an *Error to the handler"
		case e.Message() != "recovered from panic":
			fail = "FAIL Recovery message"
		case (reflect.TypeOf(cause).Comparable() && !errors.Is(e, cause)) || !sameVal(errors.Unwrap(e), cause):
			fail = "FAIL Recovery lost the panic value"
		case !strings.Contains(fmt.Sprintf("%v", e), "[main.panicWith] "):
			fail = fmt.Sprintf("FAIL Recovery stack does not name the panicking function: %q", fmt.Sprintf("%v", e))
		}
	case "log":
		var e *errs.Error
		creator := "makeNew"
		if ckind == "nil" {
			e = makeNew(msg)
		} else {
			e = makeCause(msg, cause)
			creator = "makeCause"
		}
		c := &capture{}
		errs.LogTo(slog.New(c), e, "k", 1)
		if len(c.rec) != 1 {
			fail = "FAIL LogTo did not produce one record"
			break
		}
		rec := c.rec[0]
		if rec.Message != e.Message() || rec.Level != slog.LevelError {
			fail = "FAIL log record message/level"
			break
		}
		found := false
		rec.Attrs(func(a slog.Attr) bool {
			if a.Key == errs.StackTraceKey {
				val := a.Value.Resolve()
				if lines, ok := val.Any().([]string); ok && len(lines) > 0 && strings.HasPrefix(lines[0], "[main."+creator+"] ") {
					found = true
				}
			}
			return true
		})
		if !found {
			fail = "FAIL log record lacks a stack_trace attribute naming main." + creator
		}
		// a plain error is wrapped on the way in
		c2 := &capture{}
		errs.LogTo(slog.New(c2), errors.New(cmsg))
		if len(c2.rec) != 1 || c2.rec[0].Message != cmsg {
			fail = "FAIL LogTo of a plain error"
		}
	default:
		var handled bool
		if fail, handled = runExtra(kind, ckind, msg, cmsg, n, cause); !handled {
			return "bad-op"
		}
	}
	if fail != "" {
		return fail
	}
	return "ok " + kind
}
