package main

import (
	"context"
	"errors"
	"fmt"
	"go/scanner"
	"log/slog"
	"math"
	"runtime"
	"strconv"
	"strings"

	"github.com/richardwilkes/toolbox/errs"
)

// Second part of the implementation-side oracle (hardening pass): an independent expectation for the whole trace
// (function names from runtime.Callers at the creation site), format arguments, deep stacks, cause chains, foreign
// errors with As methods, old errors rendered late, errors.Is/As through every constructor, Recovery with every kind of
// panic value, every entry point of errs/log.go, LogValue, RuntimePrefixesToFilter, CloneWithPrefixMessage.

// lastFuncs holds the function names of the stack at the last call of mark (innermost first = the creating function).
var lastFuncs []string

//go:noinline
func mark() {
	pcs := make([]uintptr, 4096)
	n := runtime.Callers(2, pcs)
	frames := runtime.CallersFrames(pcs[:n])
	out := make([]string, 0, n)
	for {
		f, more := frames.Next()
		if f.Function != "" {
			out = append(out, f.Function)
		}
		if !more {
			break
		}
	}
	lastFuncs = out
}

const errsPkg = "github.com/richardwilkes/toolbox/errs."

// funcsOf parses the function names of the error's own frames (everything after the message, before any cause).
func funcsOf(text, msg string) ([]string, string) {
	rest := strings.TrimPrefix(text, msg)
	if i := strings.Index(rest, "\n  Caused by: "); i >= 0 {
		rest = rest[:i]
	}
	rest = strings.TrimPrefix(rest, "\n")
	if rest == "" {
		return nil, ""
	}
	var out []string
	for _, line := range strings.Split(rest, "\n") {
		if !strings.HasPrefix(line, "    [") {
			return nil, "frame line without the `    [` prefix: " + strconv.Quote(line)
		}
		j := strings.LastIndex(line, "] ")
		if j < 0 {
			return nil, "frame line without `] `: " + strconv.Quote(line)
		}
		loc := line[j+2:]
		k := strings.LastIndexByte(loc, ':')
		if k <= 0 {
			return nil, "frame line without file:line: " + strconv.Quote(line)
		}
		if ln, err := strconv.Atoi(loc[k+1:]); err != nil || ln <= 0 {
			return nil, "frame line without a line number: " + strconv.Quote(line)
		}
		out = append(out, line[5:j])
	}
	return out, ""
}

func filtered(fn string) bool {
	if fn == "main.main" {
		return true // its file name is `_testmain.go` in this binary (see main.go): the library's function-and-file rule
	}
	return strings.HasPrefix(fn, "runtime.") || strings.HasPrefix(fn, "testing.") || strings.HasPrefix(fn, errsPkg)
}

// checkFuncs compares the rendered frames with the functions runtime.Callers saw at the creation site.
func checkFuncs(v, pv, msg string, want []string) string {
	full, bad := funcsOf(pv, msg)
	if bad != "" {
		return "FAIL %+v " + bad
	}
	k := 0
	for k < len(full) && strings.HasPrefix(full[k], errsPkg) {
		k++ // frames of the library itself (Newf, NewWithCausef, Append → WrapTyped)
	}
	if len(full) > 512 {
		return "FAIL more than 512 frames recorded"
	}
	if len(want) > 512-k {
		want = want[:512-k]
	}
	got := full[k:]
	if len(got) != len(want) {
		return fmt.Sprintf("FAIL %%+v shows %d frames, the creation site had %d", len(got), len(want))
	}
	for i := range got {
		if got[i] != want[i] {
			return fmt.Sprintf("FAIL %%+v frame %d is %s, the creation site had %s", i, got[i], want[i])
		}
	}
	trimmed, bad2 := funcsOf(v, msg)
	if bad2 != "" {
		return "FAIL %v " + bad2
	}
	var wt []string
	for _, fn := range want {
		if !filtered(fn) {
			wt = append(wt, fn)
		}
	}
	if len(trimmed) != len(wt) {
		return fmt.Sprintf("FAIL %%v shows %d frames, expected %d", len(trimmed), len(wt))
	}
	for i := range wt {
		if trimmed[i] != wt[i] {
			return fmt.Sprintf("FAIL %%v frame %d is %s, expected %s", i, trimmed[i], wt[i])
		}
	}
	return ""
}

//go:noinline
func makeNewfArgs(format string, args ...any) *errs.Error { mark(); return errs.Newf(format, args...) }

//go:noinline
func makeCausefArgs(c error, format string, args ...any) *errs.Error { mark(); return errs.NewWithCausef(c, format, args...) }

//go:noinline
func deepNew(d int, msg string) *errs.Error {
	if d <= 0 {
		return deepLeaf(msg)
	}
	return deepNew(d-1, msg)
}

//go:noinline
func deepLeaf(msg string) *errs.Error { mark(); return errs.New(msg) }

//go:noinline
func makeClone(e *errs.Error, prefix string) error { return e.CloneWithPrefixMessage(prefix) }

// fas is a foreign error whose As method hands out a detailed error.
type fas struct{ e *errs.Error }

func (f *fas) Error() string { return "fas" }
func (f *fas) As(target any) bool {
	if p, ok := target.(**errs.Error); ok {
		*p = f.e
		return true
	}
	return false
}

type customErr struct{ code int }

func (c *customErr) Error() string { return "custom " + strconv.Itoa(c.code) }

var errSentinel = errors.New("sentinel")

type ctxKey struct{}

type capture2 struct {
	rec  []slog.Record
	ctxs []context.Context
	min  slog.Level
	fail bool
}

func (c *capture2) Enabled(_ context.Context, l slog.Level) bool { return l >= c.min }
func (c *capture2) Handle(ctx context.Context, r slog.Record) error {
	c.rec = append(c.rec, r)
	c.ctxs = append(c.ctxs, ctx)
	if c.fail {
		return errors.New("handler failed")
	}
	return nil
}
func (c *capture2) WithAttrs([]slog.Attr) slog.Handler { return c }
func (c *capture2) WithGroup(string) slog.Handler      { return c }

var logEntryNames = []string{"Log", "LogContext", "LogTo", "LogContextTo", "LogWithLevel",
	"LogAttrs", "LogAttrsContext", "LogAttrsTo", "LogAttrsContextTo", "LogAttrsWithLevel"}

// logVia calls entry point ep; the default logger is the capture for the entry points that use it (and for a nil logger).
//
//go:noinline
func logVia(ep int, c *capture2, nilLogger, nilCtx bool, level slog.Level, e error) {
	old := slog.Default()
	slog.SetDefault(slog.New(c))
	defer slog.SetDefault(old)
	logger := slog.New(c)
	if nilLogger {
		logger = nil
	}
	ctx := context.WithValue(context.Background(), ctxKey{}, "c")
	if nilCtx {
		ctx = nil
	}
	switch ep {
	case 0:
		errs.Log(e, "k", 1)
	case 1:
		errs.LogContext(ctx, e, "k", 1)
	case 2:
		errs.LogTo(logger, e, "k", 1)
	case 3:
		errs.LogContextTo(ctx, logger, e, "k", 1)
	case 4:
		errs.LogWithLevel(ctx, level, logger, e, "k", 1)
	case 5:
		errs.LogAttrs(e, slog.Int("k", 1))
	case 6:
		errs.LogAttrsContext(ctx, e, slog.Int("k", 1))
	case 7:
		errs.LogAttrsTo(logger, e, slog.Int("k", 1))
	case 8:
		errs.LogAttrsContextTo(ctx, logger, e, slog.Int("k", 1))
	case 9:
		errs.LogAttrsWithLevel(ctx, level, logger, e, slog.Int("k", 1))
	}
}

func stackAttr(rec slog.Record) (lines []string, raw slog.Value, hasK bool, found bool) {
	rec.Attrs(func(a slog.Attr) bool {
		if a.Key == errs.StackTraceKey {
			raw = a.Value
			if l, ok := a.Value.Resolve().Any().([]string); ok {
				lines, found = l, true
			}
		}
		if a.Key == "k" && a.Value.Resolve().Int64() == 1 {
			hasK = true
		}
		return true
	})
	return
}

// checkStackLines compares the stack_trace attribute (one trimmed frame per element) with the creation site.
func checkStackLines(lines, want []string) string {
	for i, l := range lines { // the attribute carries the cause section as well: only the error's own frames are judged
		if strings.HasPrefix(l, "Caused by:") {
			lines = lines[:i]
			break
		}
	}
	var wt []string
	for _, fn := range want {
		if !filtered(fn) {
			wt = append(wt, fn)
		}
	}
	if len(lines) != len(wt) {
		return fmt.Sprintf("FAIL stack_trace has %d frames, expected %d", len(lines), len(wt))
	}
	for i, l := range lines {
		if !strings.HasPrefix(l, "["+wt[i]+"] ") {
			return fmt.Sprintf("FAIL stack_trace frame %d is %q, expected %s", i, l, wt[i])
		}
	}
	return ""
}

func checkLogAll(e *errs.Error, wantMsg, creator string, funcs []string, cmsg string) string {
	for ep, name := range logEntryNames {
		usesLogger := ep == 2 || ep == 3 || ep == 4 || ep == 7 || ep == 8 || ep == 9
		withLevel := ep == 4 || ep == 9
		hasCtx := ep == 1 || ep == 3 || ep == 4 || ep == 6 || ep == 8 || ep == 9
		for variant := 0; variant < 4; variant++ {
			nilLogger := variant == 1 && usesLogger
			nilCtx := variant == 2 && withLevel
			level := slog.LevelError
			c := &capture2{min: slog.LevelDebug, fail: variant == 3}
			if withLevel {
				level = []slog.Level{slog.LevelWarn, slog.LevelDebug - 4, slog.Level(math.MaxInt32), slog.LevelInfo}[variant]
				c.min = slog.LevelDebug - 4
			}
			logVia(ep, c, nilLogger, nilCtx, level, e)
			if len(c.rec) != 1 {
				return fmt.Sprintf("FAIL %s produced %d records", name, len(c.rec))
			}
			rec := c.rec[0]
			if rec.Message != wantMsg {
				return fmt.Sprintf("FAIL %s record message %q want %q", name, rec.Message, wantMsg)
			}
			if rec.Level != level {
				return fmt.Sprintf("FAIL %s record level %v want %v", name, rec.Level, level)
			}
			lines, raw, hasK, found := stackAttr(rec)
			if !hasK {
				return "FAIL " + name + " lost the extra argument/attribute"
			}
			if !found || len(lines) == 0 || !strings.HasPrefix(lines[0], "[main."+creator+"] ") {
				return fmt.Sprintf("FAIL %s stack_trace attribute does not name main.%s: %q", name, creator, lines)
			}
			if fail := checkStackLines(lines, funcs); fail != "" {
				return fail + " (" + name + ")"
			}
			if se, ok := raw.Any().(interface{ StackError() errs.StackError }); !ok || se.StackError() != errs.StackError(e) {
				return "FAIL " + name + " stack_trace value does not hand out the error (StackError)"
			}
			fr, _ := runtime.CallersFrames([]uintptr{rec.PC}).Next()
			if fr.Function != "main."+creator {
				return fmt.Sprintf("FAIL %s record source is %s, not the creating function main.%s", name, fr.Function, creator)
			}
			gotCtx := c.ctxs[0]
			if gotCtx == nil {
				return "FAIL " + name + " handed a nil context to the handler"
			}
			if hasCtx && !nilCtx && gotCtx.Value(ctxKey{}) != "c" {
				return "FAIL " + name + " did not pass the context on"
			}
		}
		// a level the logger has disabled: nothing is written
		if withLevel {
			c := &capture2{min: slog.LevelError}
			logVia(ep, c, false, false, slog.LevelError-1, e)
			if len(c.rec) != 0 {
				return "FAIL " + name + " wrote a record below the enabled level"
			}
		} else {
			c := &capture2{min: slog.LevelError + 1}
			logVia(ep, c, false, false, slog.LevelError, e)
			if len(c.rec) != 0 {
				return "FAIL " + name + " wrote a record although Error is disabled"
			}
		}
		// nil error: a record without message and without a stack; plain error: wrapped on the way in
		c := &capture2{min: slog.LevelDebug}
		logVia(ep, c, false, false, slog.LevelError, nil)
		if len(c.rec) != 1 || c.rec[0].Message != "" {
			return "FAIL " + name + "(nil error)"
		}
		if _, _, hasK, found := stackAttr(c.rec[0]); found || !hasK {
			return "FAIL " + name + "(nil error) attributes"
		}
		c = &capture2{min: slog.LevelDebug}
		logVia(ep, c, false, false, slog.LevelError, (*errs.Error)(nil))
		if len(c.rec) != 1 || c.rec[0].Message != "" {
			return "FAIL " + name + "(typed-nil error)"
		}
		c = &capture2{min: slog.LevelDebug}
		logVia(ep, c, false, false, slog.LevelError, errors.New(cmsg))
		if len(c.rec) != 1 || c.rec[0].Message != cmsg {
			return "FAIL " + name + "(plain error) message"
		}
		if lines, _, _, found := stackAttr(c.rec[0]); !found || len(lines) == 0 || !strings.HasPrefix(lines[0], "[main.logVia] ") {
			return fmt.Sprintf("FAIL %s(plain error) stack_trace does not start at the caller: %q", name, lines)
		}
	}
	return ""
}

//go:noinline
func panicAny(v any) { panic(v) }

//go:noinline
func panicRuntime(kind int) {
	switch kind {
	case 0:
		var m map[string]int
		m["x"] = 1
	case 1:
		var p *customErr
		_ = p.code
	default:
		s := []int{1}
		i := 5
		_ = s[i%7]
	}
}

func recoverWith(do func(), handler errs.RecoveryHandler) (returned bool) {
	func() {
		defer errs.Recovery(handler)
		do()
	}()
	return true
}

func checkRecoverKinds(msg string) string {
	inner := makeInner(msg)
	type pc struct {
		name string
		do   func()
		want func(e *errs.Error) string // judge the handed error
	}
	isCause := func(c error) func(*errs.Error) string {
		return func(e *errs.Error) string {
			if errors.Unwrap(e) != c || !errors.Is(e, c) {
				return "the panic value is not the cause"
			}
			if !strings.Contains(fmt.Sprintf("%v", e), "\n  Caused by: "+c.Error()) {
				return "the cause is not rendered"
			}
			return ""
		}
	}
	textCause := func(text string) func(*errs.Error) string {
		return func(e *errs.Error) string {
			c, ok := errors.Unwrap(e).(*errs.Error)
			if !ok || c == nil || c.Message() != text {
				return fmt.Sprintf("the cause does not carry the panic value %q", text)
			}
			if !strings.Contains(fmt.Sprintf("%v", e), "\n  Caused by: "+text) {
				return "the cause is not rendered"
			}
			return ""
		}
	}
	runtimeCause := func(sub string) func(*errs.Error) string {
		return func(e *errs.Error) string {
			c := errors.Unwrap(e)
			var re runtime.Error
			if c == nil || !errors.As(e, &re) || !strings.Contains(c.Error(), sub) {
				return "the runtime error is not the cause"
			}
			return ""
		}
	}
	plain := errors.New("p " + msg)
	custom := &customErr{code: 7}
	cases := []pc{
		{"string", func() { panicAny("s " + msg) }, textCause("s " + msg)},
		{"empty string", func() { panicAny("") }, textCause("")},
		{"error", func() { panicAny(plain) }, isCause(plain)},
		{"sentinel", func() { panicAny(errSentinel) }, isCause(errSentinel)},
		{"custom error", func() { panicAny(custom) }, isCause(custom)},
		{"*Error", func() { panicAny(inner) }, isCause(inner)},
		{"int", func() { panicAny(42) }, textCause("42")},
		{"struct", func() { panicAny(struct{ A, B int }{1, 2}) }, textCause("{A:1 B:2}")},
		{"typed-nil *Error", func() { panicAny((*errs.Error)(nil)) }, func(e *errs.Error) string {
			if errors.Unwrap(e) != nil {
				return "a typed-nil panic value became a cause"
			}
			return ""
		}},
		{"typed-nil foreign", func() { panicAny((*fptr)(nil)) }, func(e *errs.Error) string {
			if errors.Unwrap(e) != nil {
				return "a typed-nil panic value became a cause"
			}
			return ""
		}},
		{"nil", func() { panicAny(nil) }, func(e *errs.Error) string {
			var pn *runtime.PanicNilError
			if !errors.As(e, &pn) {
				return "panic(nil) is not reported as a PanicNilError"
			}
			return ""
		}},
		{"nil map", func() { panicRuntime(0) }, runtimeCause("nil map")},
		{"nil deref", func() { panicRuntime(1) }, runtimeCause("nil pointer")},
		{"index", func() { panicRuntime(2) }, runtimeCause("index out of range")},
	}
	for _, c := range cases {
		var got error
		calls := 0
		recoverWith(c.do, func(err error) { got = err; calls++ })
		e, ok := got.(*errs.Error)
		if calls != 1 || !ok || e == nil {
			return "FAIL Recovery(" + c.name + ") did not hand exactly one *Error to the handler"
		}
		if e.Message() != "recovered from panic" {
			return "FAIL Recovery(" + c.name + ") message"
		}
		if why := c.want(e); why != "" {
			return "FAIL Recovery(" + c.name + "): " + why
		}
		v := fmt.Sprintf("%v", e)
		if v != e.Error() || !strings.HasPrefix(v, "recovered from panic\n    [main.") {
			return "FAIL Recovery(" + c.name + ") rendering"
		}
		if !strings.Contains(v, "[main.panicAny] ") && !strings.Contains(v, "[main.panicRuntime] ") {
			return "FAIL Recovery(" + c.name + ") stack does not name the panicking function: " + strconv.Quote(v)
		}
		if !strings.Contains(fmt.Sprintf("%+v", e), "[runtime.gopanic] ") {
			return "FAIL Recovery(" + c.name + ") %+v lacks the runtime frames"
		}
		// a nil handler swallows the panic, a panicking handler is guarded
		if !recoverWith(c.do, nil) {
			return "FAIL Recovery(nil handler)"
		}
		if !recoverWith(c.do, func(error) { panic("bad handler") }) {
			return "FAIL Recovery(panicking handler)"
		}
	}
	// no panic: the handler is not called
	calls := 0
	recoverWith(func() {}, func(error) { calls++ })
	if calls != 0 {
		return "FAIL Recovery called the handler without a panic"
	}
	return ""
}

// everyConstructor: errors.Is / errors.As / Unwrap reach the cause through every way of building an *Error.
func checkIsAs(msg, cmsg string) string {
	causes := []error{errors.New(cmsg), errSentinel, &customErr{code: 3}, &fwrap{msg: "fw " + cmsg, inner: errSentinel},
		fmt.Errorf("ctx: %w", errSentinel), errors.Join(errSentinel, errors.New("other")),
		structErr{msg: "s " + cmsg}, strErr("t " + cmsg), foreignPlain("int", "i "+cmsg), structErr{}, strErr(""), intErr(0)}
	for ci, c := range causes {
		built := map[string]*errs.Error{
			"NewWithCause":  makeCause(msg, c),
			"NewWithCausef": makeCausef(msg, c),
			"WrapTyped":     makeWrapTyped(c),
			"Append(c)":     makeAppend(c),
			"Append(nil,c)": makeAppend(nil, c),
		}
		if w, ok := makeWrap(c).(*errs.Error); ok {
			built["Wrap"] = w
		} else {
			return "FAIL Wrap of a foreign error is not an *Error"
		}
		if ws := makeAppend(makeNew(msg), nil, c).WrappedErrors(); len(ws) == 2 {
			built["element of Append(e,c)"], _ = ws[1].(*errs.Error)
		} else {
			return "FAIL Append(e, nil, c) does not have 2 elements"
		}
		if cl, ok := makeClone(built["NewWithCause"], "p: ").(*errs.Error); ok {
			built["CloneWithPrefixMessage"] = cl
		} else {
			return "FAIL CloneWithPrefixMessage did not return an *Error"
		}
		// an aggregate exposes the cause of its first error
		built["aggregate"] = makeAppend(makeCause(msg, c), makeNew("second"))
		for name, e := range built {
			if e == nil {
				return "FAIL " + name + " is nil"
			}
			if errors.Unwrap(e) != c {
				return fmt.Sprintf("FAIL Unwrap through %s does not return cause %d", name, ci)
			}
			if !errors.Is(e, c) {
				return fmt.Sprintf("FAIL errors.Is through %s does not reach cause %d", name, ci)
			}
			if ci >= 3 && ci <= 5 && !errors.Is(e, errSentinel) {
				return fmt.Sprintf("FAIL errors.Is through %s does not reach the sentinel inside cause %d", name, ci)
			}
			var ce *customErr
			if ci == 2 && (!errors.As(e, &ce) || ce != c) {
				return "FAIL errors.As through " + name + " does not reach the custom error"
			}
			var ep *errs.Error
			if !errors.As(e, &ep) || ep != e {
				return "FAIL errors.As(*Error) through " + name + " does not find the error itself"
			}
			if errors.Is(e, errors.New(cmsg)) {
				return "FAIL errors.Is through " + name + " matches an unrelated error"
			}
		}
	}
	// errors without a cause
	for name, e := range map[string]*errs.Error{"New": makeNew(msg), "Newf": makeNewf(msg)} {
		var ep *errs.Error
		if errors.Unwrap(e) != nil || !errors.Is(e, e) || !errors.As(e, &ep) || ep != e || errors.Is(e, errSentinel) {
			return "FAIL errors.Is/As/Unwrap on " + name
		}
	}
	return ""
}

// checkNilKinds: a typed nil of EVERY nilable kind is nil for every entry point that asks, in every argument position;
// non-nil values of the same types and values of types that cannot be nil (zero values included) are errors and are kept.
// The expectation comes from the harness's own type switch, not from the library's helper.
func checkNilKinds(msg string) string {
	var nils []error
	for _, k := range nilKinds {
		nils = append(nils, foreignNil(k))
	}
	nils = append(nils, (*errs.Error)(nil), (*customErr)(nil))
	real := []error{foreignPlain("slice", msg), foreignPlain("slice0", ""), foreignPlain("map", msg), mapErr{}, foreignPlain("func", msg),
		foreignPlain("chan", msg), structErr{msg: msg}, structErr{}, strErr(msg), strErr(""), foreignPlain("int", msg), intErr(0),
		scanner.ErrorList{&scanner.Error{Msg: msg}}, scanner.ErrorList{}}
	for i, nv := range nils {
		name := fmt.Sprintf("typed nil #%d (%T)", i, nv)
		if errs.Wrap(nv) != nil {
			return "FAIL Wrap(" + name + ") is not nil"
		}
		if errs.WrapTyped(nv) != nil {
			return "FAIL WrapTyped(" + name + ") is not nil"
		}
		if e := errs.NewWithCause(msg, nv); errors.Unwrap(e) != nil || strings.Contains(fmt.Sprintf("%v", e), "Caused by") && !strings.Contains(msg, "Caused by") {
			return "FAIL NewWithCause kept " + name + " as a cause"
		}
		if e := errs.NewWithCausef(nv, "%s", msg); errors.Unwrap(e) != nil {
			return "FAIL NewWithCausef kept " + name + " as a cause"
		}
		if errs.Append(nv) != nil || errs.Append(nil, nv) != nil || errs.Append(nv, nv, nil, nv) != nil || errs.Append(&errs.Error{}, nil, nv) != nil {
			return "FAIL Append of only " + name + " is not nil"
		}
		// in every position of an argument list with real errors around it
		for pos := 0; pos <= 3; pos++ {
			args := []error{errors.New("a"), errs.New("b"), structErr{msg: "c"}}
			args = append(args[:pos], append([]error{nv}, args[pos:]...)...)
			for _, acc := range []error{nil, errs.New("acc"), errors.New("pacc"), nv, &errs.Error{}} {
				want := 3
				if acc != nil && !isNilish(acc) {
					if ae, ok := acc.(*errs.Error); !ok || len(ae.WrappedErrors()) == 0 || ae.Message() != "" {
						want = 4
					}
				}
				r := errs.Append(acc, args...)
				if r == nil || r.Count() != want || len(r.WrappedErrors()) != want {
					return fmt.Sprintf("FAIL Append with %s at position %d (accumulator %T): Count %d, want %d", name, pos, acc, r.Count(), want)
				}
				for _, w := range r.WrappedErrors() {
					if m := fmt.Sprintf("%s", w); strings.HasPrefix(m, "nil-") || m == "foreign-nil" || m == "no errors" {
						return "FAIL Append kept " + name + " as an error: " + strconv.Quote(m)
					}
				}
			}
		}
		c := &capture2{min: slog.LevelDebug}
		logVia(2, c, false, false, slog.LevelError, nv)
		if len(c.rec) != 1 || c.rec[0].Message != "" {
			return "FAIL LogTo(" + name + ") is not treated as a nil error"
		}
		var got error
		recoverWith(func() { panicAny(nv) }, func(err error) { got = err })
		if e, ok := got.(*errs.Error); !ok || e == nil || errors.Unwrap(e) != nil || e.Error() == "" {
			return "FAIL Recovery(panic(" + name + ")) kept the typed nil as a cause or does not render"
		}
	}
	for i, rv := range real {
		name := fmt.Sprintf("non-nil value #%d (%T)", i, rv)
		want := rv.Error()
		w, ok := errs.Wrap(rv).(*errs.Error)
		if !ok || w == nil || w.Message() != want || !sameVal(errors.Unwrap(w), rv) {
			return "FAIL Wrap(" + name + ") lost the error"
		}
		if wt := errs.WrapTyped(rv); wt == nil || wt.Message() != want || !sameVal(errors.Unwrap(wt), rv) {
			return "FAIL WrapTyped(" + name + ") lost the error"
		}
		if e := errs.NewWithCause("m", rv); !sameVal(errors.Unwrap(e), rv) || !strings.HasSuffix(fmt.Sprintf("%v", e), "\n  Caused by: "+want) {
			return "FAIL NewWithCause dropped or did not render " + name
		}
		if e := errs.NewWithCausef(rv, "m"); !sameVal(errors.Unwrap(e), rv) {
			return "FAIL NewWithCausef dropped " + name
		}
		if r := errs.Append(nil, rv); r == nil || r.Count() != 1 || r.Message() != want {
			return "FAIL Append(nil, " + name + ") lost the error"
		}
		if r := errs.Append(rv); r == nil || r.Count() != 1 || !sameVal(errors.Unwrap(r), rv) {
			return "FAIL Append(" + name + ") lost the error"
		}
		if r := errs.Append(errs.New("a"), nil, rv, rv); r.Count() != 3 {
			return "FAIL Append(a, nil, x, x) with " + name
		}
	}
	return ""
}

func runExtra(kind, ckind, msg, cmsg string, n int, cause error) (string, bool) {
	switch kind {
	case "newfargs":
		type fa struct {
			format string
			args   []any
		}
		cases := []fa{
			{"%d", []any{math.MaxInt64}}, {"%d|%d|%d", []any{math.MinInt64, 0, -1}}, {"%x-%o-%b", []any{uint64(math.MaxUint64), -1, 5}},
			{"%5.2f|%e|%g", []any{3.14159, 1e300, math.Inf(-1)}}, {"%s=%q", []any{msg, cmsg}}, {"%v %+v %#v", []any{struct{ A int }{1}, []int{1, 2}, "s"}},
			{"100%% sure", nil}, {"%d", nil}, {"no verbs", []any{1}}, {"%w", []any{errors.New(cmsg)}}, {"", nil}, {"%s", []any{msg}},
			{"%[2]d %[1]d", []any{1, 2}}, {"%*d", []any{5, 42}}, {"%c%U", []any{0x1F600, 0x1F600}}, {msg, nil}, {"%v", []any{nil}},
		}
		for _, c := range cases {
			want := fmt.Sprintf(c.format, c.args...)
			if fail := checkRender(makeNewfArgs(c.format, c.args...), want, "makeNewfArgs", nil, false); fail != "" {
				return fail + " [Newf " + strconv.Quote(c.format) + "]", true
			}
			var wantCause error
			if !isNilish(cause) {
				wantCause = cause
			}
			if fail := checkRender(makeCausefArgs(cause, c.format, c.args...), want, "makeCausefArgs", wantCause, false); fail != "" {
				return fail + " [NewWithCausef " + strconv.Quote(c.format) + "]", true
			}
		}
		return "", true
	case "deep":
		for _, d := range []int{0, 1, 50, 400, 495, 500, 505, 508, 509, 510, 511, 512, 513, 520, 600, 3000} {
			e := deepNew(d, msg)
			if fail := checkRender(e, msg, "deepLeaf", nil, false); fail != "" {
				return fail + " [depth " + strconv.Itoa(d) + "]", true
			}
			if len(e.RawStackTrace()) > 512 {
				return "FAIL more than 512 frames recorded", true
			}
		}
		return "", true
	case "causechain":
		for _, depth := range []int{1, 2, 5, 17, 50} {
			var e error = errors.New("root " + cmsg)
			if ckind == "errs" {
				e = makeInner("root " + cmsg)
			}
			root := e
			want := ""
			for i := 1; i <= depth; i++ {
				m := msg + strconv.Itoa(i)
				if i%2 == 0 {
					e = makeCausef(m, e)
				} else {
					e = makeCause(m, e)
				}
				want = m + "|" + want
			}
			top, _ := e.(*errs.Error)
			v := fmt.Sprintf("%v", top)
			if c := strings.Count(v, "\n  Caused by: "); c != depth {
				return fmt.Sprintf("FAIL a chain of %d causes renders %d Caused by sections", depth, c), true
			}
			// messages appear outermost first
			pos := 0
			for i := depth; i >= 1; i-- {
				m := msg + strconv.Itoa(i)
				j := strings.Index(v[pos:], m)
				if j < 0 {
					return "FAIL cause chain: message " + strconv.Quote(m) + " is missing or out of order", true
				}
				pos += j + len(m)
			}
			if !strings.Contains(v[pos:], "root "+cmsg) {
				return "FAIL cause chain: the root cause is not rendered last", true
			}
			if !errors.Is(top, root) {
				return "FAIL errors.Is does not reach the root of a cause chain", true
			}
			if fmt.Sprintf("%s", top) != msg+strconv.Itoa(depth) {
				return "FAIL %s of a cause chain is not the outer message", true
			}
		}
		return "", true
	case "wrapas":
		inner := makeInner(cmsg)
		f := &fas{e: inner}
		if makeWrap(f) != error(f) {
			return "FAIL Wrap of an error whose As yields an *Error does not return it unchanged", true
		}
		w := makeWrapTyped(f)
		if w == nil || w == inner || errors.Unwrap(w) != error(f) {
			return "FAIL WrapTyped of a foreign error with an As method", true
		}
		if fail := checkRender(w, "fas", "makeWrapTyped", f, true); fail != "" {
			return fail, true
		}
		if a := makeAppend(nil, f, nil, f); a.Count() != 2 {
			return "FAIL Append of a foreign error with an As method", true
		}
		return "", true
	case "late":
		// the stack of an older error is its own: create e1, then many errors elsewhere, then render e1
		e1 := makeNew(msg)
		f1 := append([]string{}, lastFuncs...)
		e2 := makeCausef(msg, errors.New(cmsg))
		f2 := append([]string{}, lastFuncs...)
		agg := makeAppend((*errs.Error)(nil), makeInner("i0"), errors.New("p1"), makeNewf("n2"))
		var keep []error
		for i := 0; i < 3+n%7; i++ {
			keep = append(keep, makeInner(cmsg), makeWrap(errors.New(cmsg)), makeCause(cmsg, errSentinel), deepNew(i, cmsg),
				makeAppend(errors.New(cmsg)), makeWrapTyped(errors.New(cmsg)))
		}
		lastFuncs = f1
		if fail := checkRender(e1, msg, "makeNew", nil, false); fail != "" {
			return fail + " [rendered late]", true
		}
		lastFuncs = f2
		if fail := checkRender(e2, msg, "makeCausef", errors.Unwrap(e2), false); fail != "" {
			return fail + " [rendered late]", true
		}
		for i, want := range []string{"makeInner", "makeAppend", "makeNewf"} {
			w, _ := agg.WrappedErrors()[i].(*errs.Error)
			if w == nil || !strings.HasPrefix(w.StackTrace(true), "    [main."+want+"] ") {
				return "FAIL element " + strconv.Itoa(i) + " of an older aggregate no longer names main." + want, true
			}
		}
		c := &capture2{min: slog.LevelDebug}
		logVia(2, c, false, false, slog.LevelError, e1)
		if lines, _, _, found := stackAttr(c.rec[0]); !found || checkStackLines(lines, f1) != "" {
			return "FAIL stack_trace of an older error: " + checkStackLines(lines, f1), true
		}
		_ = keep
		return "", true
	case "isas":
		return checkIsAs(msg, cmsg), true
	case "nilkinds":
		return checkNilKinds(msg), true
	case "recoverkinds":
		return checkRecoverKinds(msg), true
	case "logall":
		var e *errs.Error
		creator, want := "makeNew", msg
		switch n % 3 {
		case 0:
			e = makeNew(msg)
		case 1:
			e, creator = makeCause(msg, cause), "makeCause"
		default: // an aggregate: the message lists everything, the stack is the first error's
			e = makeNew(msg)
			f := append([]string{}, lastFuncs...)
			if makeAppend(e, errors.New(cmsg), makeInner("z")) != e {
				return "FAIL Append(e, …) is not e", true
			}
			lastFuncs = f
			want = "Multiple (3) errors occurred:\n- " + msg + "\n- " + cmsg + "\n- z"
		}
		return checkLogAll(e, want, creator, append([]string{}, lastFuncs...), cmsg), true
	case "logvalue":
		e := makeCause(msg, cause)
		val := e.LogValue()
		if val.Kind() != slog.KindGroup {
			return "FAIL LogValue is not a group", true
		}
		var gotMsg string
		var lines []string
		for _, a := range val.Group() {
			switch a.Key {
			case slog.MessageKey:
				gotMsg = a.Value.String()
			case errs.StackTraceKey:
				lines, _ = a.Value.Resolve().Any().([]string)
			}
		}
		if gotMsg != msg {
			return "FAIL LogValue message", true
		}
		return checkStackLines(lines, lastFuncs), true
	case "filter":
		e := makeNew(msg)
		old := errs.RuntimePrefixesToFilter
		defer func() { errs.RuntimePrefixesToFilter = old }()
		errs.RuntimePrefixesToFilter = append(append([]string{}, old...), "verifharness/hx.")
		v, pv := fmt.Sprintf("%v", e), fmt.Sprintf("%+v", e)
		if strings.Contains(v, "[verifharness/hx.") || !strings.Contains(pv, "[verifharness/hx.") || !strings.Contains(v, "[main.makeNew] ") {
			return "FAIL RuntimePrefixesToFilter: an added prefix is not filtered from %v only", true
		}
		errs.RuntimePrefixesToFilter = nil
		// with no prefixes the only frame %v may still drop is main.main in `_testmain.go` (the library's function-and-file
		// rule; this binary's main.main carries that file name, see main.go)
		var keep []string
		for _, line := range strings.Split(pv, "\n") {
			if !strings.HasPrefix(line, "    [main.main] _testmain.go:") {
				keep = append(keep, line)
			}
		}
		if v2 := fmt.Sprintf("%v", e); v2 != strings.Join(keep, "\n") {
			return "FAIL RuntimePrefixesToFilter: with no prefixes %v must equal %+v without the _testmain.go main.main frame", true
		}
		errs.RuntimePrefixesToFilter = old
		return checkRender(e, msg, "makeNew", nil, false), true
	case "clone":
		e := makeCause(msg, cause)
		f := append([]string{}, lastFuncs...)
		cl, ok := makeClone(e, cmsg).(*errs.Error)
		if !ok || cl == nil || cl == e {
			return "FAIL CloneWithPrefixMessage did not return a new *Error", true
		}
		if e.Message() != msg {
			return "FAIL CloneWithPrefixMessage changed the original", true
		}
		lastFuncs = f
		var wantCause error
		if !isNilish(cause) {
			wantCause = cause
		}
		if fail := checkRender(cl, cmsg+msg, "makeCause", wantCause, false); fail != "" {
			return fail + " [clone]", true
		}
		// appending to the clone of a single error leaves the original alone
		if makeAppend(cl, makeInner("x")).Count() != 2 || e.Count() != 1 || e.Message() != msg {
			return "FAIL Append on a clone changed the original", true
		}
		return "", true
	}
	return "", false
}
