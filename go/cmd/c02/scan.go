package main

import (
	"fmt"
	"hash/fnv"
	"strings"
	"unicode"
	"unicode/utf8"

	"github.com/richardwilkes/toolbox/xmath/num"
	"verifharness/hx"
)

// The fmt.Scanner entry points (Uint128.Scan / Int128.Scan). On the modelled tree Scan reads one blank-delimited token
// (state.Token(true, nil)) and hands scanText(token, verb) to *FromString: the verbs b, o/O, x/X insert their base prefix
// (after the sign) unless the text already starts with 0 and a prefix letter of that base, d drops zero padding, every
// other verb leaves the token alone.  Two uses:
//
//   - area `scan` (differential): the line `u|i scan <verb> <hex token>` is answered by the Lean model with
//     Conv.*.scan (= fromString (scanText token verb)) and by this harness with Sscanf / Fscanf of that verb — and, for
//     the verb v, also Sscan / Sscanln / Fscan — around the token (leading blanks, separators, a following token, all
//     derived from a hash of the line); the outputs use the format of the model's fromstring.
//   - oracle `glue`: every rendering Format produces is scanned back (scanBackChecks).

type val interface{ num.Uint128 | num.Int128 }

func compsOf[T val](v T) string {
	switch x := any(v).(type) {
	case num.Uint128:
		return ustr(x)
	case num.Int128:
		return istr(x)
	}
	return "?"
}

func fromStringOf[T val](s string) (T, error) {
	var z T
	switch any(z).(type) {
	case num.Uint128:
		v, err := num.Uint128FromString(s)
		return any(v).(T), err
	default:
		v, err := num.Int128FromString(s)
		return any(v).(T), err
	}
}

type scanOutcome struct {
	how  string
	ok   bool
	v    string // components when ok
	note string // problem with the rest of the input
}

// scanMethods runs the fmt entry points that pass the given verb to Scan on lead+tok+sep+next and reports what came
// back for the first operand and whether the next token was still readable afterwards.
func scanMethods[T val](tok string, verb byte, h uint64) []scanOutcome {
	pick := func(xs []string) string { r := xs[h%uint64(len(xs))]; h = h*0x9E3779B97F4A7C15 + 0x7F4A7C15; return r }
	lead := pick([]string{"", " ", "  ", "\t", " \t "})
	leadNL := pick([]string{"", "\n", " \n ", "\r\n", "\v\f"})
	sep := pick([]string{" ", "\t", "  ", " \t"})
	sepNL := pick([]string{" ", "\n", " \n", "\r\n", "\t"})
	next := pick([]string{"42", "-7", "abc", "7.5", "0x1f", "1e3", "_", "/"})
	wide := pick([]string{"", "600", "5"})
	if n := utf8.RuneCountInString(tok); (wide == "5" && n > 5) || (wide == "600" && n > 600) {
		wide = "" // a width shorter than the token cuts the token: not the situation described here
	}
	if verb == 'c' {
		wide = "" // fmt does not skip blanks before %c, so a width would count the leading blanks and may cut the token
	}
	pv := "%" + string(verb)
	wv := "%" + wide + string(verb)
	var outs []scanOutcome
	rec := func(how string, v T, err error, n, wantN int, s string, checkNext bool) {
		o := scanOutcome{how: how, ok: err == nil}
		if err == nil {
			o.v = compsOf(v)
			if n != wantN {
				o.note = fmt.Sprintf("n=%d", n)
			}
		} else if n != 0 {
			o.note = fmt.Sprintf("n=%d with error", n)
		}
		if checkNext && s != next {
			o.note += fmt.Sprintf(" next=%q want %q", s, next)
		}
		outs = append(outs, o)
	}
	if tok == "" {
		// nothing but blanks: every entry point must report an error
		var v2 T
		n, err := fmt.Sscanf(lead, wv, any(&v2))
		rec("Sscanf("+wv+")", v2, err, n, 1, "", false)
		if verb == 'v' {
			var v T
			n, err = fmt.Sscan(leadNL+lead, any(&v))
			rec("Sscan", v, err, n, 1, "", false)
			var v3 T
			n, err = fmt.Fscan(strings.NewReader(lead), any(&v3))
			rec("Fscan", v3, err, n, 1, "", false)
		}
		return outs
	}
	{
		var v T
		var s string
		n, err := fmt.Sscanf(lead+tok+sep+next+" tail", pv+" %s", any(&v), &s)
		rec("Sscanf("+pv+")", v, err, n, 2, s, err == nil)
	}
	{
		var v T
		var s string
		n, err := fmt.Sscanf(lead+tok+sep+next, wv+" %s", any(&v), &s)
		rec("Sscanf("+wv+")", v, err, n, 2, s, err == nil)
	}
	{
		var v T
		var s string
		r := strings.NewReader(lead + tok + sep + next + " tail")
		n, err := fmt.Fscanf(r, wv, any(&v))
		_, _ = fmt.Fscan(r, &s) //nolint:errcheck // s is compared
		rec("Fscanf("+wv+")", v, err, n, 1, s, true)
	}
	if verb == 'v' { // the entry points without a format pass the verb v
		{
			var v T
			var s string
			n, err := fmt.Sscan(leadNL+lead+tok+sepNL+next+" tail", any(&v), &s)
			rec("Sscan", v, err, n, 2, s, err == nil)
		}
		{
			var v T
			var s string
			r := strings.NewReader(leadNL + lead + tok + sepNL + next + "\ntail")
			n, err := fmt.Fscan(r, any(&v))
			_, _ = fmt.Fscan(r, &s) //nolint:errcheck // s is compared
			rec("Fscan", v, err, n, 1, s, true)
		}
		{
			var v T
			var s string
			n, err := fmt.Sscanln(lead+tok+sep+next+"\ntail", any(&v), &s)
			rec("Sscanln", v, err, n, 2, s, err == nil)
		}
	}
	return outs
}

func lineHash(s string) uint64 {
	f := fnv.New64a()
	f.Write([]byte(s)) //nolint:errcheck // never fails
	return f.Sum64()
}

// scanLine answers `u|i scan <verb> <hex token>` through the Scan methods, in the output format of the model's
// fromstring (`ok <v> <v>` / `err <zero>`); a disagreement between the entry points, or a next token that is no longer
// readable, is appended and so becomes a mismatch with the model.
func scanLine[T val](line, tok string, verb byte) string {
	outs := scanMethods[T](tok, verb, lineHash(line))
	first := outs[0]
	var probs []string
	for _, o := range outs {
		if o.ok != first.ok || o.v != first.v {
			probs = append(probs, fmt.Sprintf("%s=%v/%s but %s=%v/%s", first.how, first.ok, first.v, o.how, o.ok, o.v))
		}
		if o.note != "" {
			probs = append(probs, o.how+":"+strings.TrimSpace(o.note))
		}
	}
	var z T
	out := "err " + compsOf(z)
	if first.ok {
		out = "ok " + first.v + " " + first.v
	}
	if len(probs) > 0 {
		if len(probs) > 2 {
			probs = probs[:2]
		}
		out += " scan-inconsistent " + strings.ReplaceAll(strings.Join(probs, "; "), "\n", "\\n")
	}
	return out
}

type scanArea struct{}

func (scanArea) Run(line string) string { return guarded(func() string { return scanRun(line) }) }

func scanRun(line string) string {
	f := strings.Fields(line)
	if len(f) != 4 || f[1] != "scan" || len(f[2]) != 1 {
		return "bad-op"
	}
	verb := f[2][0]
	if !((verb >= 'a' && verb <= 'z') || (verb >= 'A' && verb <= 'Z')) {
		return "bad-op"
	}
	tok := string(hx.UnHex(f[3]))
	if !tokenOK(tok) {
		return "bad-op"
	}
	switch f[0] {
	case "u":
		return scanLine[num.Uint128](line, tok, verb)
	case "i":
		return scanLine[num.Int128](line, tok, verb)
	}
	return "bad-op"
}

// tokenOK: a token as fmt reads it — valid UTF-8 (fmt re-encodes runes) without any blank.
func tokenOK(s string) bool {
	if !utf8.ValidString(s) {
		return false
	}
	for _, r := range s {
		if unicode.IsSpace(r) {
			return false
		}
	}
	return true
}

func sanitizeToken(s string) string {
	var sb strings.Builder
	for i := 0; i < len(s); {
		r, w := utf8.DecodeRuneInString(s[i:])
		if !(r == utf8.RuneError && w == 1) && !unicode.IsSpace(r) {
			sb.WriteString(s[i : i+w])
		}
		i += w
	}
	return sb.String()
}

var junkTails = []string{"abc", ".5", "/2", "x", ",", ";", ")", "e", "e+", "_", ".", "e1", "E-1", "p1", "L", "n", "%", "\x00", "é", "0x"}

const baseLetters = "dboOxX"
const otherLetters = "vvvvsqceUtgT"

// genSpec builds a print specification Format honours: flags, optional width / zero padding / precision, base verb.
func genSpec(r *hx.Rng, letter byte, digits int) string {
	spec := "%" + hx.Pick(r, []string{"", "", "#", "+", " ", "+#", " #", "-"})
	switch r.Intn(8) {
	case 0:
		spec += "0" + fmt.Sprint(digits+r.Range(1, 4)) // a few padding zeros (a single one included)
	case 1:
		spec += "0" + fmt.Sprint(r.Range(1, 140))
	case 2:
		spec += fmt.Sprint(hx.Pick(r, []int{r.Range(1, 60), 64, 65, 128, 129, 130, 256, 300}))
	case 3:
		spec += "." + fmt.Sprint(digits+r.Range(0, 3))
	case 4:
		spec += "." + fmt.Sprint(r.Range(0, 140))
	}
	return spec + string(letter)
}

func (scanArea) Gen(r *hx.Rng, n int, _ string, emit func(string)) {
	for i := 0; i < n; i++ {
		var t string
		verb := hx.Pick(r, []byte(baseLetters+baseLetters+otherLetters))
		switch r.Intn(8) {
		case 0, 1: // a valid literal with a tail that does not belong to it
			t = genValidText(r) + hx.Pick(r, junkTails)
		case 2, 3, 4: // a rendering of Format, scanned with the verb it was printed with (mostly) or another one
			hi, lo := genPair(r)
			if r.Chance(1, 3) {
				hi, lo = 0, uint64(r.Intn(1<<uint(r.Range(1, 16))))
			}
			letter := hx.Pick(r, []byte(baseLetters))
			var spec string
			if r.Bool() {
				v := mkU(hi, lo)
				spec = genSpec(r, letter, len(fmt.Sprintf("%"+string(letter), v)))
				t = fmt.Sprintf(spec, v)
			} else {
				v := mkI(hi, lo)
				spec = genSpec(r, letter, len(strings.TrimPrefix(fmt.Sprintf("%"+string(letter), v), "-")))
				t = fmt.Sprintf(spec, v)
			}
			if fs := strings.Fields(t); len(fs) > 0 {
				t = fs[0]
			}
			if r.Chance(4, 5) {
				verb = letter
			}
			if r.Chance(1, 12) {
				t = mutate(r, t)
			}
		default:
			t = genText(r)
		}
		t = sanitizeToken(t)
		emit(hx.Pick(r, []string{"u", "i"}) + " scan " + string(verb) + " " + hx.Hex([]byte(t)))
	}
}

// ------------------------------------------------------------------------------------------------ glue: scan back

// baseVerb: the verbs for which Scan honours the base / padding the text was printed with.
func baseVerb(letter string) bool {
	return len(letter) == 2 && strings.Contains(baseLetters, letter[1:])
}

// printSpecs: every verb/flag/width/precision combination Format honours (it delegates to big.Int.Format) for a value
// whose bare rendering has the given number of digits; `self` marks the renderings FromString reads back unaided.
type printSpec struct {
	verb string
	self bool
}

var fixedSpecs = []printSpec{
	{"%v", true}, {"%s", true}, {"%+v", true}, {"%#v", true}, {"%45v", true}, {"%-45s|", true},
	{"%10.5s", false}, {"%q", false}, {"%c", false}, {"%e", false}, {"%U", false},
}

func printSpecsFor[T val](v T) []printSpec {
	specs := append([]printSpec(nil), fixedSpecs...)
	for _, letter := range []string{"d", "b", "o", "O", "x", "X"} {
		digits := len(strings.TrimLeft(fmt.Sprintf("%"+letter, any(v)), "+-"))
		for _, flags := range []string{"", "#", "+", " ", "+#", " #"} {
			prefixed := letter == "O" || (strings.Contains(flags, "#") && letter != "d")
			for _, wp := range []string{"", "45", "-45", "045", "0140", ".50", ".140", fmt.Sprintf("0%d", digits+1), fmt.Sprintf("0%d", digits+2),
				fmt.Sprintf(".%d", digits+1), fmt.Sprintf("0%d", digits+3+len(flags))} {
				padded := strings.HasPrefix(wp, "0") || strings.HasPrefix(wp, ".")
				self := (letter == "d" && !padded) || prefixed
				specs = append(specs, printSpec{"%" + flags + wp + letter, self})
			}
		}
	}
	return specs
}

func verbLetter(pv string) string {
	for i := 1; i < len(pv); i++ {
		c := pv[i]
		if (c >= 'a' && c <= 'z') || (c >= 'A' && c <= 'Z') {
			return "%" + string(c)
		}
	}
	return "%v"
}

// scanBackChecks prints v with every specification and scans the text back
//   - with the verb it was printed with: for d b o O x X the identical value must come back, whatever the flags,
//     padding, width and precision; for the other verbs Scan(token) ≡ FromString(token);
//   - with %v, Sscan and Fscan: Scan(token) ≡ FromString(token), and the identical value for self-describing texts.
func scanBackChecks[T val](v T, fail func(string, ...any)) {
	for _, pv := range printSpecsFor(v) {
		text := fmt.Sprintf(pv.verb, any(v))
		tok := ""
		if fs := strings.Fields(text); len(fs) > 0 {
			tok = fs[0]
		}
		letter := verbLetter(pv.verb)
		ev, eerr := fromStringOf[T](tok)
		if pv.self && (eerr != nil || ev != v) {
			fail("Sprintf(%q)=%q does not parse back: %s,%v", pv.verb, text, compsOf(ev), eerr)
			continue
		}
		judge := func(how string, got T, err error) {
			if (err != nil) != (eerr != nil) || (err == nil && got != ev) {
				fail("%s of %q (printed with %s): %s,%v but FromString(%q)=%s,%v", how, text, pv.verb, compsOf(got), err, tok,
					compsOf(ev), eerr)
			}
		}
		var a, b, c, d T
		_, err := fmt.Sscanf(text, letter, any(&a))
		switch {
		case baseVerb(letter):
			if err != nil || a != v {
				fail("Sscanf(%s) of %q (printed with %s): %s,%v, not the value printed", letter, text, pv.verb, compsOf(a), err)
			}
		default:
			judge("Sscanf("+letter+")", a, err)
		}
		_, err = fmt.Sscanf(text, "%v", any(&b))
		judge("Sscanf(%v)", b, err)
		_, err = fmt.Sscan(text, any(&c))
		judge("Sscan", c, err)
		_, err = fmt.Fscan(strings.NewReader(text), any(&d))
		judge("Fscan", d, err)
	}
}
