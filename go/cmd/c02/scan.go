package main

import (
	"fmt"
	"hash/fnv"
	"strings"
	"unicode"
	"unicode/utf8"

	"github.com/richardwilkes/toolbox/xmath/num"
	"verifharness/hx"
)

// The fmt.Scanner entry points (Uint128.Scan / Int128.Scan). On the modelled tree Scan reads one blank-delimited token
// (state.Token(true, nil)), ignores the verb altogether and hands the whole token to *FromString; so for every token
//
//	Scan(token) ≡ FromString(token)   (value and error-ness), whatever the verb,
//
// and the input after the token stays readable as the next token.  Two uses:
//
//   - area `scan` (differential): the line `u|i fromstring <hex token>` is answered by the Lean model with
//     Conv.*.fromString and by this harness with Sscan / Sscanf / Sscanln / Fscan / Fscanf around the token (leading blanks,
//     separators, a following token, all derived from a hash of the line); the outputs use the model's format.
//   - oracle `glue`: every rendering Format produces is scanned back (scanBackChecks).

type val interface{ num.Uint128 | num.Int128 }

func compsOf[T val](v T) string {
	switch x := any(v).(type) {
	case num.Uint128:
		return ustr(x)
	case num.Int128:
		return istr(x)
	}
	return "?"
}

func fromStringOf[T val](s string) (T, error) {
	var z T
	switch any(z).(type) {
	case num.Uint128:
		v, err := num.Uint128FromString(s)
		return any(v).(T), err
	default:
		v, err := num.Int128FromString(s)
		return any(v).(T), err
	}
}

// scanVerbs are handed to Scan through Sscanf; the modelled Scan ignores the verb, so all of them behave like %v
// (fmt hands any verb character to a Scanner without checking it).
var scanVerbs = []string{"%v", "%d", "%x", "%X", "%o", "%O", "%b", "%s", "%q", "%c", "%e", "%U", "%t", "%5v", "%600d"}

type scanOutcome struct {
	how  string
	ok   bool
	v    string // components when ok
	note string // problem with the rest of the input
}

// scanMethods runs every fmt entry point on lead+tok+sep+next and reports what came back for the first operand and
// whether the next token was still readable afterwards.
func scanMethods[T val](tok string, h uint64) []scanOutcome {
	pick := func(xs []string) string { r := xs[h%uint64(len(xs))]; h = h*0x9E3779B97F4A7C15 + 0x7F4A7C15; return r }
	lead := pick([]string{"", " ", "  ", "\t", " \t "})
	leadNL := pick([]string{"", "\n", " \n ", "\r\n", "\v\f"})
	sep := pick([]string{" ", "\t", "  ", " \t"})
	sepNL := pick([]string{" ", "\n", " \n", "\r\n", "\t"})
	next := pick([]string{"42", "-7", "abc", "7.5", "0x1f", "1e3", "_", "/"})
	verb := pick(scanVerbs)
	if n := utf8.RuneCountInString(tok); (verb == "%5v" && n > 5) || (verb == "%600d" && n > 600) {
		verb = "%v" // a width shorter than the token cuts the token: not the situation described here
	}
	var outs []scanOutcome
	rec := func(how string, v T, err error, n, wantN int, s string, checkNext bool) {
		o := scanOutcome{how: how, ok: err == nil}
		if err == nil {
			o.v = compsOf(v)
			if n != wantN {
				o.note = fmt.Sprintf("n=%d", n)
			}
		} else if n != 0 {
			o.note = fmt.Sprintf("n=%d with error", n)
		}
		if checkNext && s != next {
			o.note += fmt.Sprintf(" next=%q want %q", s, next)
		}
		outs = append(outs, o)
	}
	if tok == "" {
		// nothing but blanks: every entry point must report an error
		var v T
		n, err := fmt.Sscan(leadNL+lead, any(&v))
		rec("Sscan", v, err, n, 1, "", false)
		var v2 T
		n, err = fmt.Sscanf(lead, verb, any(&v2))
		rec("Sscanf("+verb+")", v2, err, n, 1, "", false)
		var v3 T
		n, err = fmt.Fscan(strings.NewReader(lead), any(&v3))
		rec("Fscan", v3, err, n, 1, "", false)
		return outs
	}
	{
		var v T
		var s string
		n, err := fmt.Sscan(leadNL+lead+tok+sepNL+next+" tail", any(&v), &s)
		rec("Sscan", v, err, n, 2, s, err == nil)
	}
	{
		var v T
		var s string
		r := strings.NewReader(leadNL + lead + tok + sepNL + next + "\ntail")
		n, err := fmt.Fscan(r, any(&v))
		_, _ = fmt.Fscan(r, &s) //nolint:errcheck // s is compared
		rec("Fscan", v, err, n, 1, s, true)
	}
	{
		var v T
		var s string
		n, err := fmt.Sscanf(lead+tok+sep+next+" tail", "%v %s", any(&v), &s)
		rec("Sscanf(%v)", v, err, n, 2, s, err == nil)
	}
	{
		var v T
		var s string
		n, err := fmt.Sscanf(lead+tok+sep+next, verb+" %s", any(&v), &s)
		rec("Sscanf("+verb+")", v, err, n, 2, s, err == nil)
	}
	{
		var v T
		var s string
		r := strings.NewReader(lead + tok + sep + next + " tail")
		n, err := fmt.Fscanf(r, verb, any(&v))
		_, _ = fmt.Fscan(r, &s) //nolint:errcheck // s is compared
		rec("Fscanf("+verb+")", v, err, n, 1, s, true)
	}
	{
		var v T
		var s string
		n, err := fmt.Sscanln(lead+tok+sep+next+"\ntail", any(&v), &s)
		rec("Sscanln", v, err, n, 2, s, err == nil)
	}
	return outs
}

func lineHash(s string) uint64 {
	f := fnv.New64a()
	f.Write([]byte(s)) //nolint:errcheck // never fails
	return f.Sum64()
}

// scanLine answers `u|i fromstring <hex token>` through the Scan methods, in the output format of the model's
// fromstring (`ok <v> <v>` / `err <zero>`); a disagreement between the entry points, or a next token that is no longer
// readable, is appended and so becomes a mismatch with the model.
func scanLine[T val](line, tok string) string {
	outs := scanMethods[T](tok, lineHash(line))
	first := outs[0]
	var probs []string
	for _, o := range outs {
		if o.ok != first.ok || o.v != first.v {
			probs = append(probs, fmt.Sprintf("%s=%v/%s but %s=%v/%s", first.how, first.ok, first.v, o.how, o.ok, o.v))
		}
		if o.note != "" {
			probs = append(probs, o.how+":"+strings.TrimSpace(o.note))
		}
	}
	var z T
	out := "err " + compsOf(z)
	if first.ok {
		out = "ok " + first.v + " " + first.v
	}
	if len(probs) > 0 {
		if len(probs) > 2 {
			probs = probs[:2]
		}
		out += " scan-inconsistent " + strings.ReplaceAll(strings.Join(probs, "; "), "\n", "\\n")
	}
	return out
}

type scanArea struct{}

func (scanArea) Run(line string) string {
	f := strings.Fields(line)
	if len(f) != 3 || f[1] != "fromstring" {
		return "bad-op"
	}
	tok := string(hx.UnHex(f[2]))
	if !tokenOK(tok) {
		return "bad-op"
	}
	switch f[0] {
	case "u":
		return scanLine[num.Uint128](line, tok)
	case "i":
		return scanLine[num.Int128](line, tok)
	}
	return "bad-op"
}

// tokenOK: a token as fmt reads it — valid UTF-8 (fmt re-encodes runes) without any blank.
func tokenOK(s string) bool {
	if !utf8.ValidString(s) {
		return false
	}
	for _, r := range s {
		if unicode.IsSpace(r) {
			return false
		}
	}
	return true
}

func sanitizeToken(s string) string {
	var sb strings.Builder
	for i := 0; i < len(s); {
		r, w := utf8.DecodeRuneInString(s[i:])
		if !(r == utf8.RuneError && w == 1) && !unicode.IsSpace(r) {
			sb.WriteString(s[i : i+w])
		}
		i += w
	}
	return sb.String()
}

var junkTails = []string{"abc", ".5", "/2", "x", ",", ";", ")", "e", "e+", "_", ".", "e1", "E-1", "p1", "L", "n", "%", "\x00", "é", "0x"}

func (scanArea) Gen(r *hx.Rng, n int, _ string, emit func(string)) {
	for i := 0; i < n; i++ {
		var t string
		switch r.Intn(8) {
		case 0, 1: // a valid literal with a tail that does not belong to it
			t = genValidText(r) + hx.Pick(r, junkTails)
		case 2: // a rendering of Format with an explicit base
			hi, lo := genPair(r)
			v := num.Uint128FromComponents(hi, lo)
			t = fmt.Sprintf(hx.Pick(r, []string{"%#x", "%#X", "%O", "%#b", "%#o", "%x", "%X", "%o", "%b", "%+d", "%+#x"}), v)
			if r.Bool() {
				t = "-" + strings.TrimPrefix(t, "+")
			}
		default:
			t = genText(r)
		}
		t = sanitizeToken(t)
		emit(hx.Pick(r, []string{"u", "i"}) + " fromstring " + hx.Hex([]byte(t)))
	}
}

// ------------------------------------------------------------------------------------------------ glue: scan back

// printVerbs: every verb/flag/width combination Format honours (it delegates to big.Int.Format).  selfDescribing marks
// the renderings that FromString reads back as the same value (decimal, or carrying their base prefix); for the others
// (bare %x %o %b, zero padding that looks like an octal prefix, the bad-verb text) only Scan ≡ FromString is demanded.
var printVerbs = []struct {
	verb string
	self bool
}{
	{"%d", true}, {"%v", true}, {"%s", true}, {"%+d", true}, {"% d", true}, {"%45d", true}, {"%-45d|", true}, {"%+v", true},
	{"%#v", true}, {"%45v", true}, {"%#x", true}, {"%#X", true}, {"%O", true}, {"%#o", true}, {"%#b", true}, {"%+#x", true},
	{"%+#b", true}, {"%-50O|", true}, {"%50O", true}, {"% #x", true},
	{"%x", false}, {"%X", false}, {"%o", false}, {"%b", false}, {"%045d", false}, {"%.50d", false}, {"%+.3x", false},
	{"%10.5s", false}, {"%#.40x", false}, {"%q", false}, {"%c", false}, {"%e", false}, {"%U", false},
}

func verbLetter(pv string) string {
	for i := 1; i < len(pv); i++ {
		c := pv[i]
		if (c >= 'a' && c <= 'z') || (c >= 'A' && c <= 'Z') {
			return "%" + string(c)
		}
	}
	return "%v"
}

// scanBackChecks prints v with every verb and scans the text back with the matching verb, with %v, with Sscan and
// with Fscan.  fail is called for every departure from Scan(token) ≡ FromString(token) and, for self-describing
// renderings, from "the identical value comes back".
func scanBackChecks[T val](v T, fail func(string, ...any)) {
	for _, pv := range printVerbs {
		text := fmt.Sprintf(pv.verb, any(v))
		tok := ""
		if fs := strings.Fields(text); len(fs) > 0 {
			tok = fs[0]
		}
		ev, eerr := fromStringOf[T](tok)
		if pv.self && (eerr != nil || ev != v) {
			fail("Sprintf(%q)=%q does not parse back: %s,%v", pv.verb, text, compsOf(ev), eerr)
			continue
		}
		judge := func(how string, got T, err error) {
			if (err != nil) != (eerr != nil) || (err == nil && got != ev) {
				fail("%s of %q (printed with %s): %s,%v but FromString(%q)=%s,%v", how, text, pv.verb, compsOf(got), err, tok,
					compsOf(ev), eerr)
			}
		}
		var a, b, c, d T
		_, err := fmt.Sscanf(text, verbLetter(pv.verb), any(&a))
		judge("Sscanf("+verbLetter(pv.verb)+")", a, err)
		_, err = fmt.Sscanf(text, "%v", any(&b))
		judge("Sscanf(%v)", b, err)
		_, err = fmt.Sscan(text, any(&c))
		judge("Sscan", c, err)
		_, err = fmt.Fscan(strings.NewReader(text), any(&d))
		judge("Fscan", d, err)
	}
}
