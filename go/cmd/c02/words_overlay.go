//go:build !nooverlay

package main

import "github.com/richardwilkes/toolbox/xmath/num"

// Values are built from and read back as their two words through the accessors of go/overlay/c02_words.go, never
// through num.*FromComponents / Components (those are themselves compared, op `comps`).
func mkU(hi, lo uint64) num.Uint128        { return num.VerifC02U(hi, lo) }
func mkI(hi, lo uint64) num.Int128         { return num.VerifC02I(hi, lo) }
func wordsU(u num.Uint128) (hi, lo uint64) { return num.VerifC02WordsU(u) }
func wordsI(i num.Int128) (hi, lo uint64)  { return num.VerifC02WordsI(i) }
