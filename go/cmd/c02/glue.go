package main

import (
	"encoding/json"
	"fmt"
	"math/big"
	"strings"

	"github.com/richardwilkes/toolbox/xmath/num"
	"gopkg.in/yaml.v3"
	"verifharness/hx"
)

// glue is the implementation-side identity oracle: every rendering of a value produced by the library's fmt / JSON /
// YAML / text plumbing must equal the rendering of the same mathematical value by math/big (computed here from the two
// words, independently of AsBigInt), and loading each rendering back must give the identical value.
type glue struct{}

func (glue) Gen(r *hx.Rng, n int, _ string, emit func(string)) {
	for _, w := range gluePairs {
		emit("u " + pair(w[0], w[1]))
		emit("i " + pair(w[0], w[1]))
	}
	for i := 0; i < n; i++ {
		hi, lo := genPair(r)
		emit(hx.Pick(r, []string{"u", "i"}) + " " + pair(hi, lo))
	}
}

var gluePairs = [][2]uint64{
	{0, 0}, {0, 1}, {^uint64(0), ^uint64(0)}, {^uint64(0), 0}, {^uint64(0), 1}, {1 << 63, 0}, {1 << 63, 1}, {1<<63 - 1, ^uint64(0)},
	{1, 0}, {0, ^uint64(0)}, {0, 1 << 63}, {0, 1<<63 - 1}, {^uint64(0), 1 << 63}, {^uint64(0), 1<<63 - 1}, {^uint64(0) - 1, ^uint64(0)},
	{0, 9}, {0, 10}, {0, 99}, {0, 100},
	// hexadecimal renderings that start with the digit b / B (one padding zero makes them look like a binary prefix),
	// contain the digit e, or look like another base's prefix
	{0, 0xb}, {0, 0xb1}, {0, 0xbe}, {0, 0xb0}, {0, 0xe}, {0, 0x1e}, {0, 0xe1}, {0, 16}, {0, 31}, {0, 8},
	{^uint64(0), ^uint64(0) - 0xb1 + 1}, {^uint64(0), ^uint64(0) - 0xb + 1}, {0xb, 0}, {0xb100000000000000, 1},
	// -2^64, -2^63, ±2^64±1, ±2^63±1, small negatives, decimal length changes (ind2-c02-a); the top bit of lo against hi
	// (ind2-c02-b)
	{1, 1}, {^uint64(0) - 1, ^uint64(0)}, {^uint64(0), ^uint64(0) - 1}, {^uint64(0), ^uint64(0) - 8}, {^uint64(0), ^uint64(0) - 9},
	{^uint64(0), ^uint64(0) - 10}, {^uint64(0), ^uint64(0) - 99}, {0, 1<<63 + 1}, {0, 1<<63 - 2}, {^uint64(0), 1<<63 + 1},
	{^uint64(0), 1<<63 - 2}, {^uint64(0) - 1, 0}, {2, 0}, {0, 10000000000000000000}, {^uint64(0), ^uint64(0) - 9999999999999999999},
	{0x4b3b4ca85a86c47a, 0x098a224000000000}, {0x4b3b4ca85a86c47a, 0x098a223fffffffff}, {0xb4c4b357a5793b85, 0xf675ddc000000000},
	{1<<63 - 1, ^uint64(0) - 1}, {1 << 63, 2}, {1 << 62, 0}, {0, 1 << 32}, {0, 1<<32 - 1}, {0, 1 << 53}, {0, 1<<53 + 1},
}

var fmtVerbs = []string{
	"%d", "%v", "%s", "%x", "%X", "%o", "%O", "%b", "%#x", "%#o", "%#b", "%+d", "% d", "%45d", "%-45d|", "%045d", "%.50d", "%+.3x",
	"%+v", "%#v", "%10.5s", "%#X", "%+#x", "%-30x|", "%300d", "%0300b", "%#o", "%#O", "% x",
} // the text printed for verbs Format does not support (%q %c %e ...) is not constrained and not compared

type uWrap struct {
	A num.Uint128            `json:"a" yaml:"a"`
	P *num.Uint128           `json:"p" yaml:"p"`
	L []num.Uint128          `json:"l" yaml:"l"`
	M map[string]num.Uint128 `json:"m" yaml:"m"`
}

type iWrap struct {
	A num.Int128            `json:"a" yaml:"a"`
	P *num.Int128           `json:"p" yaml:"p"`
	L []num.Int128          `json:"l" yaml:"l"`
	M map[string]num.Int128 `json:"m" yaml:"m"`
}

func exact(hi, lo uint64, signed bool) *big.Int {
	b := new(big.Int).SetUint64(hi)
	b.Lsh(b, 64)
	b.Or(b, new(big.Int).SetUint64(lo))
	if signed && hi>>63 == 1 {
		b.Sub(b, p128)
	}
	return b
}

func (glue) Run(line string) string { return guarded(func() string { return glueRun(line) }) }

func glueRun(line string) string {
	f := strings.Fields(line)
	if len(f) != 2 {
		return "bad-op"
	}
	hi, lo := parsePair(f[1])
	var fails []string
	fail := func(format string, a ...any) {
		for i, x := range a {
			if e, ok := x.(error); ok && e != nil {
				a[i] = strings.SplitN(e.Error(), "\n", 2)[0]
			}
		}
		fails = append(fails, strings.ReplaceAll(fmt.Sprintf(format, a...), "\n", "\\n"))
	}
	switch f[0] {
	case "u":
		v := mkU(hi, lo)
		var zero num.Uint128
		want := exact(hi, lo, false)
		dec := want.Text(10)
		for _, verb := range fmtVerbs {
			if g, w := fmt.Sprintf(verb, v), fmt.Sprintf(verb, want); g != w {
				fail("Sprintf(%q)=%q want %q", verb, g, w)
			}
		}
		if g := fmt.Sprint(v); g != dec {
			fail("Sprint=%q", g)
		}
		if v.AsBigInt().Cmp(want) != 0 {
			fail("AsBigInt=%s", v.AsBigInt())
		}
		var reuse big.Int
		reuse.SetString("-123456789012345678901234567890123456789012345678901234567890", 10)
		v.ToBigInt(&reuse)
		if reuse.Cmp(want) != 0 {
			fail("ToBigInt(reused)=%s", &reuse)
		}
		if bf := v.AsBigFloat(); bf.Text('f', 0) != dec {
			fail("AsBigFloat=%s", bf.Text('f', 0))
		}
		if back := num.Uint128FromBigInt(want); back != v {
			fail("FromBigInt=%s", back)
		}
		// text
		t, err := v.MarshalText()
		if err != nil || string(t) != dec {
			fail("MarshalText=%q,%v", t, err)
		}
		var u1 num.Uint128
		if err = u1.UnmarshalText(t); err != nil || u1 != v {
			fail("UnmarshalText=%s,%v", u1, err)
		}
		// scan
		var u2, u3 num.Uint128
		if _, err = fmt.Sscan("  "+dec+" rest", &u2); err != nil || u2 != v {
			fail("Sscan=%s,%v", u2, err)
		}
		if _, err = fmt.Sscanf(dec+" |", "%v |", &u3); err != nil || u3 != v {
			fail("Sscanf=%s,%v", u3, err)
		}
		scanBackChecks[num.Uint128](v, fail)
		extraChecks(v, hi, lo, want, fail)
		// json
		j, err := json.Marshal(v)
		if err != nil || string(j) != dec {
			fail("json.Marshal=%q,%v", j, err)
		}
		var u4 num.Uint128
		if err = json.Unmarshal(j, &u4); err != nil || u4 != v {
			fail("json.Unmarshal=%s,%v", u4, err)
		}
		w := uWrap{A: v, P: &v, L: []num.Uint128{v, {}, v}, M: map[string]num.Uint128{"k": v}}
		j, err = json.Marshal(w)
		wantJ := `{"a":` + dec + `,"p":` + dec + `,"l":[` + dec + `,0,` + dec + `],"m":{"k":` + dec + `}}`
		if err != nil || string(j) != wantJ {
			fail("json struct=%q,%v", j, err)
		}
		var w2 uWrap
		if err = json.Unmarshal(j, &w2); err != nil || w2.A != v || w2.P == nil || *w2.P != v || len(w2.L) != 3 || w2.L[0] != v ||
			w2.L[1] != zero || w2.L[2] != v || w2.M["k"] != v {
			fail("json struct back=%+v,%v", w2, err)
		}
		mk, err := json.Marshal(map[num.Uint128]int{v: 1})
		if err != nil || string(mk) != `{"`+dec+`":1}` {
			fail("json map key=%q,%v", mk, err)
		}
		var u5 num.Uint128
		if err = json.Unmarshal([]byte(`"`+dec+`"`), &u5); err == nil {
			fail("json string %q accepted as %s", dec, u5)
		}
		// yaml
		y, err := yaml.Marshal(v)
		if err != nil {
			fail("yaml.Marshal err %v", err)
		}
		var sy string
		if err = yaml.Unmarshal(y, &sy); err != nil || sy != dec {
			fail("yaml scalar=%q,%v", sy, err)
		}
		var u6 num.Uint128
		if err = yaml.Unmarshal(y, &u6); err != nil || u6 != v {
			fail("yaml.Unmarshal=%s,%v", u6, err)
		}
		y, err = yaml.Marshal(w)
		if err != nil {
			fail("yaml struct err %v", err)
		}
		var w3 uWrap
		if err = yaml.Unmarshal(y, &w3); err != nil || w3.A != v || w3.P == nil || *w3.P != v || len(w3.L) != 3 || w3.L[0] != v ||
			w3.L[1] != zero || w3.L[2] != v || w3.M["k"] != v {
			fail("yaml struct back=%+v,%v from %q", w3, err, y)
		}
		var u7 num.Uint128
		if err = yaml.Unmarshal([]byte(dec+"\n"), &u7); err != nil || u7 != v {
			fail("yaml plain=%s,%v", u7, err)
		}
	case "i":
		v := mkI(hi, lo)
		var zero num.Int128
		want := exact(hi, lo, true)
		dec := want.Text(10)
		for _, verb := range fmtVerbs {
			if g, w := fmt.Sprintf(verb, v), fmt.Sprintf(verb, want); g != w {
				fail("Sprintf(%q)=%q want %q", verb, g, w)
			}
		}
		if g := fmt.Sprint(v); g != dec {
			fail("Sprint=%q", g)
		}
		if v.AsBigInt().Cmp(want) != 0 {
			fail("AsBigInt=%s", v.AsBigInt())
		}
		var reuse big.Int
		reuse.SetString("-123456789012345678901234567890123456789012345678901234567890", 10)
		v.ToBigInt(&reuse)
		if reuse.Cmp(want) != 0 {
			fail("ToBigInt(reused)=%s", &reuse)
		}
		if bf := v.AsBigFloat(); bf.Text('f', 0) != dec {
			fail("AsBigFloat=%s", bf.Text('f', 0))
		}
		if back := num.Int128FromBigInt(want); back != v {
			fail("FromBigInt=%s", back)
		}
		t, err := v.MarshalText()
		if err != nil || string(t) != dec {
			fail("MarshalText=%q,%v", t, err)
		}
		var u1 num.Int128
		if err = u1.UnmarshalText(t); err != nil || u1 != v {
			fail("UnmarshalText=%s,%v", u1, err)
		}
		var u2, u3 num.Int128
		if _, err = fmt.Sscan("  "+dec+" rest", &u2); err != nil || u2 != v {
			fail("Sscan=%s,%v", u2, err)
		}
		if _, err = fmt.Sscanf(dec+" |", "%v |", &u3); err != nil || u3 != v {
			fail("Sscanf=%s,%v", u3, err)
		}
		scanBackChecks[num.Int128](v, fail)
		extraChecks(v, hi, lo, want, fail)
		j, err := json.Marshal(v)
		if err != nil || string(j) != dec {
			fail("json.Marshal=%q,%v", j, err)
		}
		var u4 num.Int128
		if err = json.Unmarshal(j, &u4); err != nil || u4 != v {
			fail("json.Unmarshal=%s,%v", u4, err)
		}
		w := iWrap{A: v, P: &v, L: []num.Int128{v, {}, v}, M: map[string]num.Int128{"k": v}}
		j, err = json.Marshal(w)
		wantJ := `{"a":` + dec + `,"p":` + dec + `,"l":[` + dec + `,0,` + dec + `],"m":{"k":` + dec + `}}`
		if err != nil || string(j) != wantJ {
			fail("json struct=%q,%v", j, err)
		}
		var w2 iWrap
		if err = json.Unmarshal(j, &w2); err != nil || w2.A != v || w2.P == nil || *w2.P != v || len(w2.L) != 3 || w2.L[0] != v ||
			w2.L[1] != zero || w2.L[2] != v || w2.M["k"] != v {
			fail("json struct back=%+v,%v", w2, err)
		}
		mk, err := json.Marshal(map[num.Int128]int{v: 1})
		if err != nil || string(mk) != `{"`+dec+`":1}` {
			fail("json map key=%q,%v", mk, err)
		}
		var u5 num.Int128
		if err = json.Unmarshal([]byte(`"`+dec+`"`), &u5); err == nil {
			fail("json string %q accepted as %s", dec, u5)
		}
		y, err := yaml.Marshal(v)
		if err != nil {
			fail("yaml.Marshal err %v", err)
		}
		var sy string
		if err = yaml.Unmarshal(y, &sy); err != nil || sy != dec {
			fail("yaml scalar=%q,%v", sy, err)
		}
		var u6 num.Int128
		if err = yaml.Unmarshal(y, &u6); err != nil || u6 != v {
			fail("yaml.Unmarshal=%s,%v", u6, err)
		}
		y, err = yaml.Marshal(w)
		if err != nil {
			fail("yaml struct err %v", err)
		}
		var w3 iWrap
		if err = yaml.Unmarshal(y, &w3); err != nil || w3.A != v || w3.P == nil || *w3.P != v || len(w3.L) != 3 || w3.L[0] != v ||
			w3.L[1] != zero || w3.L[2] != v || w3.M["k"] != v {
			fail("yaml struct back=%+v,%v from %q", w3, err, y)
		}
		var u7 num.Int128
		if err = yaml.Unmarshal([]byte(dec+"\n"), &u7); err != nil || u7 != v {
			fail("yaml plain=%s,%v", u7, err)
		}
	default:
		return "bad-op"
	}
	if len(fails) > 0 {
		if len(fails) > 3 {
			fails = fails[:3]
		}
		return "FAIL " + strings.Join(fails, "; ")
	}
	return "ok"
}
