//go:build nooverlay

package main

// constsLine is the black-box stub: the accessor did not compile against the working tree (a private constant was
// renamed or removed), so the white-box view is not observed. The behaviour at the boundaries is still compared by the
// `fromfloat` lines of the corpus and the generator.
func constsLine() string { return "consts-unavailable" }
