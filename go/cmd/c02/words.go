package main

import (
	"fmt"
	"math/big"
	"strconv"
	"strings"

	"github.com/richardwilkes/toolbox/xmath/num"
	"verifharness/hx"
)

// Area `words`: the big.Int import / export at the level of big.Words, against the word-level model
// (Conv.wordsToU128W / fromBigIntW / toBigIntW in lean/Model/Conv128.lean, theorems C02.fromBigIntW_* / toBigIntW_*).
//
//	u|i frombigw <sign> <hex magnitude>              FromBigInt(v): answered with v.Bits() and the result
//	u|i tobigw <hi:lo> <sign> <hex magnitude>        ToBigInt(dst) into a destination holding that value: answered
//	                                                 with the sign and the Bits() of the destination afterwards
//
// The answer starts with the size of big.Word of this build (`W64` / `W32`); the model answers for both sizes and the
// check keeps the segment of the size of the build it compares with.
type wordsArea struct{}

func wordTag() string { return "W" + strconv.Itoa(strconv.IntSize) }

func wordsStr(ws []big.Word) string {
	if len(ws) == 0 {
		return "-"
	}
	out := make([]string, len(ws))
	for i, w := range ws {
		out[i] = strconv.FormatUint(uint64(w), 16)
	}
	return strings.Join(out, ",")
}

func bigSign(b *big.Int) string {
	if b.Sign() < 0 {
		return "-"
	}
	return "+"
}

func (wordsArea) Run(line string) string { return guarded(func() string { return wordsRun(line) }) }

func wordsRun(line string) string {
	f := strings.Fields(line)
	if len(f) == 1 && f[0] == "wordsize" {
		return wordTag()
	}
	if len(f) < 4 {
		return "bad-op"
	}
	switch f[1] {
	case "frombigw":
		v := parseBig(f[2], f[3])
		bits := wordsStr(v.Bits())
		var res string
		if f[0] == "u" {
			res = ustr(num.Uint128FromBigInt(v))
		} else {
			res = istr(num.Int128FromBigInt(v))
		}
		if wordsStr(v.Bits()) != bits || v.Cmp(parseBig(f[2], f[3])) != 0 {
			return "argument-modified"
		}
		return wordTag() + " " + bits + " " + res
	case "tobigw":
		if len(f) < 5 {
			return "bad-op"
		}
		dst := parseBig(f[3], f[4])
		if f[0] == "u" {
			mkU(parsePair(f[2])).ToBigInt(dst)
		} else {
			mkI(parsePair(f[2])).ToBigInt(dst)
		}
		return wordTag() + " " + bigSign(dst) + " " + wordsStr(dst.Bits())
	}
	return "bad-op"
}

// genDest: destinations of every width in words of either size (0..6 64-bit words = 0..12 32-bit words, odd counts of
// 32-bit words included), with the most significant word small, all ones, or a single top bit.
func genDest(r *hx.Rng) *big.Int {
	if r.Chance(1, 6) {
		return genBig(r)
	}
	half := r.Intn(14) // number of 32-bit words
	if half == 0 {
		return new(big.Int)
	}
	b := new(big.Int)
	switch r.Intn(4) {
	case 0:
		b.Lsh(one, uint(32*(half-1))) // smallest value with that many words
	case 1:
		b.Sub(new(big.Int).Lsh(one, uint(32*half)), one) // largest
	case 2:
		b.Lsh(one, uint(32*half-1)) // top bit only
	default:
		b.Lsh(new(big.Int).SetUint64(r.U64()|1), uint(32*(half-1)))
		b.And(b, new(big.Int).Sub(new(big.Int).Lsh(one, uint(32*half)), one))
		b.SetBit(b, 32*(half-1), 1)
		b.Or(b, new(big.Int).SetUint64(r.U64()))
	}
	if r.Chance(1, 3) {
		b.Neg(b)
	}
	return b
}

func (wordsArea) Gen(r *hx.Rng, n int, _ string, emit func(string)) {
	for i := 0; i < n; i++ {
		ty := hx.Pick(r, []string{"u", "i"})
		if r.Intn(5) < 2 {
			b := genBig(r)
			if r.Chance(1, 4) { // exactly k words of 32 bits, k = 0..6: every arm of both switches, smallest / largest value
				k := uint(r.Intn(7))
				switch {
				case k == 0:
					b = new(big.Int)
				case r.Bool():
					b = new(big.Int).Lsh(one, 32*(k-1))
				default:
					b = new(big.Int).Sub(new(big.Int).Lsh(one, 32*k), one)
				}
				if r.Bool() {
					b.Neg(b)
				}
			}
			emit(fmt.Sprintf("%s frombigw %s %s", ty, bigSign(b), new(big.Int).Abs(b).Text(16)))
			continue
		}
		hi, lo := genPair(r)
		if r.Chance(1, 5) { // values whose upper words vanish: the result has fewer words than were stored
			switch r.Intn(4) {
			case 0:
				hi, lo = 0, 0
			case 1:
				hi = 0
			case 2:
				hi, lo = 0, lo&0xFFFFFFFF
			default:
				hi &= 0xFFFFFFFF
			}
		}
		d := genDest(r)
		emit(fmt.Sprintf("%s tobigw %s %s %s", ty, pair(hi, lo), bigSign(d), new(big.Int).Abs(d).Text(16)))
	}
}
