// Harness for C02 (lossless conversion, printing and saturation of num.Uint128 / num.Int128).
//
// Areas:
//
//	conv  tie lines executed by the real code and by the Lean model Conv.* (lean/Model/Conv128.lean)
//	f64   `f64op` lines validating the binary64 model GoSem.F64 against the hardware
//	glue  implementation-side identity oracle for fmt / encoding/json / yaml.v3 / text / Scan plumbing (no Lean model)
//	scan  fmt.Scanner entry points: Sscan/Sscanf/Sscanln/Fscan/Fscanf of a token vs the model's fromString of that token
//	format fmt.Formatter: Format(state), Sprintf and Sscanf of the text vs the model Conv.*.format / scan of the token
//	words FromBigInt / ToBigInt at the level of big.Words (Bits() before and after) vs the word-level model, both word sizes
package main

import (
	"fmt"
	"math"
	"math/big"
	"strings"
	"sync/atomic"
	"time"

	"github.com/richardwilkes/toolbox/xmath/num"
	"verifharness/hx"
)

func pair(hi, lo uint64) string { return fmt.Sprintf("%016x:%016x", hi, lo) }

func parsePair(s string) (hi, lo uint64) {
	if _, err := fmt.Sscanf(s, "%x:%x", &hi, &lo); err != nil {
		panic("bad pair " + s)
	}
	return hi, lo
}

func parseU64(s string) uint64 {
	var v uint64
	if _, err := fmt.Sscanf(s, "%x", &v); err != nil {
		panic("bad u64 " + s)
	}
	return v
}

func fbits(f float64) string {
	if f != f {
		return "nan"
	}
	return fmt.Sprintf("%016x", math.Float64bits(f))
}

func b2s(b bool) string {
	if b {
		return "1"
	}
	return "0"
}

func ustr(u num.Uint128) string { h, l := wordsU(u); return pair(h, l) }
func istr(i num.Int128) string  { h, l := wordsI(i); return pair(h, l) }

func parseBig(sign, mag string) *big.Int {
	b, ok := new(big.Int).SetString(mag, 16)
	if !ok {
		panic("bad magnitude " + mag)
	}
	if sign == "-" {
		b.Neg(b)
	}
	return b
}

const (
	sentinelHi = 0xdeadbeefdeadbeef
	sentinelLo = 0x0123456789abcdef
)

func okErr(err error) string { return b2s(err == nil) }

// guarded runs one line with a deadline, so that a mutant that loops costs seconds, not the stream's timeout: the
// line is answered `hang`, and after two hangs the rest of the stream is skipped (the spinning goroutines cannot be
// stopped).  Panics are turned into the token `panic` here because hx.Main's recover does not see other goroutines.
var hangs atomic.Int32

func guarded(f func() string) string {
	if hangs.Load() >= 2 {
		return "skipped-after-crash"
	}
	ch := make(chan string, 1)
	go func() { ch <- hx.Safe(f) }()
	select {
	case s := <-ch:
		return s
	case <-time.After(lineDeadline):
		hangs.Add(1)
		return "hang"
	}
}

const lineDeadline = 12 * time.Second // 4 s was reached by big.Rat texts like -5e999999 on a machine oversubscribed five times (false `hang` on control-c02-1)

type conv struct{}

func (conv) Run(line string) string { return guarded(func() string { return convRun(line) }) }

func convRun(line string) string {
	f := strings.Fields(line)
	if len(f) == 0 {
		return "bad-op"
	}
	if f[0] == "consts" {
		return constsLine() // white-box view (consts_overlay.go) or the token `consts-unavailable` (consts_stub.go)
	}
	if len(f) < 3 {
		return "bad-op"
	}
	switch f[0] {
	case "u":
		return runU(f[1], f[2:])
	case "i":
		return runI(f[1], f[2:])
	}
	return "bad-op"
}

func yamlFeeder(s string) func(any) error {
	return func(target any) error {
		p, ok := target.(*string)
		if !ok {
			return fmt.Errorf("unexpected target %T", target)
		}
		*p = s
		return nil
	}
}

// extraOps: the remaining entry points, common to both types (l = the value as a loader on a sentinel receiver).
//
//	yamlcb <mode> <hex text>     UnmarshalYAML with a callback that stores the text (ok), stores nothing (none) or fails (err)
//	scantok <mode> <verb> <hex>  Scan with a ScanState whose Token delivers the token (ok) or fails (err)
//	float64m <hi:lo>             Float64() of the json.Number interface
//	asbigfloat <hi:lo>           AsBigFloat(): precision, exact integer value, accuracy
func yamlCallback(mode, text string) func(any) error {
	switch mode {
	case "ok":
		return yamlFeeder(text)
	case "none":
		return func(any) error { return nil }
	default:
		return func(any) error { return errSentinel }
	}
}

func scanStateFor(mode, tok string) *fakeState {
	if mode == "ok" {
		return &fakeState{tok: []byte(tok)}
	}
	return &fakeState{err: errSentinel}
}

func hi64(p string) uint64 { h, _ := parsePair(p); return h }
func lo64(p string) uint64 { _, l := parsePair(p); return l }

func bigFloatStr(f *big.Float) string {
	acc := f.Acc() // accuracy of the rounding SetInt performed (read before Int, which reports its own)
	z, _ := f.Int(nil)
	return fmt.Sprintf("%d %s %s %v", f.Prec(), z.Text(16), acc, f.IsInt())
}

func runU(op string, a []string) string {
	switch op {
	case "yamlcb":
		r := mkU(sentinelHi, sentinelLo)
		e := r.UnmarshalYAML(yamlCallback(a[0], string(hx.UnHex(a[1]))))
		return okErr(e) + "/" + ustr(r)
	case "scantok":
		r := mkU(sentinelHi, sentinelLo)
		e := r.Scan(scanStateFor(a[0], string(hx.UnHex(a[2]))), rune(a[1][0]))
		return okErr(e) + "/" + ustr(r)
	case "float64m":
		if f, err := mkU(parsePair(a[0])).Float64(); err != nil && f == 0 {
			return "err"
		}
		return "ok"
	case "asbigfloat":
		return bigFloatStr(mkU(parsePair(a[0])).AsBigFloat())
	case "bigfloat64": // not the library: validates the model's rounding (roundToPrec) against math/big for the contrast
		return bigFloatStr(new(big.Float).SetPrec(64).SetInt(exact(hi64(a[0]), lo64(a[0]), false)))
	case "fromfloat":
		return ustr(num.Uint128FromFloat64(math.Float64frombits(parseU64(a[0]))))
	case "asfloat":
		return fbits(mkU(parsePair(a[0])).AsFloat64())
	case "fromstring":
		s := string(hx.UnHex(a[0]))
		v, err := num.Uint128FromString(s)
		nc := num.Uint128FromStringNoCheck(s)
		if err != nil {
			_ = v // what accompanies an error is not constrained; FromStringNoCheck's documented 0 is compared
			return "err " + ustr(nc)
		}
		return "ok " + ustr(v) + " " + ustr(nc)
	case "unmarshal":
		s := string(hx.UnHex(a[0]))
		r1 := mkU(sentinelHi, sentinelLo)
		e1 := r1.UnmarshalText([]byte(s))
		r2 := mkU(sentinelHi, sentinelLo)
		e2 := r2.UnmarshalJSON([]byte(s))
		r3 := mkU(sentinelHi, sentinelLo)
		e3 := r3.UnmarshalYAML(yamlFeeder(s))
		return okErr(e1) + "/" + ustr(r1) + " " + okErr(e2) + "/" + ustr(r2) + " " + okErr(e3) + "/" + ustr(r3)
	case "frombig":
		return ustr(num.Uint128FromBigInt(parseBig(a[0], a[1])))
	case "asbig":
		return mkU(parsePair(a[0])).AsBigInt().Text(16)
	case "str":
		v := mkU(parsePair(a[0]))
		t, _ := v.MarshalText() //nolint:errcheck // never fails
		j, _ := v.MarshalJSON() //nolint:errcheck // never fails
		y, _ := v.MarshalYAML() //nolint:errcheck // never fails
		return v.String() + " " + string(t) + " " + string(j) + " " + fmt.Sprint(y)
	case "narrow":
		v := mkU(parsePair(a[0]))
		i64 := "err"
		if n, err := v.Int64(); err == nil {
			i64 = fmt.Sprintf("ok:%016x", uint64(n))
		}
		return b2s(v.IsInt128()) + " " + istr(v.AsInt128()) + " " + b2s(v.IsUint64()) + " " +
			fmt.Sprintf("%016x", v.AsUint64()) + " " + i64
	case "from64":
		return ustr(num.Uint128From64(parseU64(a[0])))
	case "comps": // the exported word constructor / accessor against the white-box words
		hi, lo := parsePair(a[0])
		h2, l2 := mkU(hi, lo).Components()
		return ustr(num.Uint128FromComponents(hi, lo)) + " " + pair(h2, l2) + " " + b2s(mkU(hi, lo).IsZero())
	}
	return "bad-op"
}

func runI(op string, a []string) string {
	switch op {
	case "yamlcb":
		r := mkI(sentinelHi, sentinelLo)
		e := r.UnmarshalYAML(yamlCallback(a[0], string(hx.UnHex(a[1]))))
		return okErr(e) + "/" + istr(r)
	case "scantok":
		r := mkI(sentinelHi, sentinelLo)
		e := r.Scan(scanStateFor(a[0], string(hx.UnHex(a[2]))), rune(a[1][0]))
		return okErr(e) + "/" + istr(r)
	case "float64m":
		if f, err := mkI(parsePair(a[0])).Float64(); err != nil && f == 0 {
			return "err"
		}
		return "ok"
	case "asbigfloat":
		return bigFloatStr(mkI(parsePair(a[0])).AsBigFloat())
	case "bigfloat64":
		return bigFloatStr(new(big.Float).SetPrec(64).SetInt(exact(hi64(a[0]), lo64(a[0]), true)))
	case "fromfloat":
		return istr(num.Int128FromFloat64(math.Float64frombits(parseU64(a[0]))))
	case "asfloat":
		return fbits(mkI(parsePair(a[0])).AsFloat64())
	case "fromstring":
		s := string(hx.UnHex(a[0]))
		v, err := num.Int128FromString(s)
		nc := num.Int128FromStringNoCheck(s)
		if err != nil {
			_ = v // what accompanies an error is not constrained; FromStringNoCheck's documented 0 is compared
			return "err " + istr(nc)
		}
		return "ok " + istr(v) + " " + istr(nc)
	case "unmarshal":
		s := string(hx.UnHex(a[0]))
		r1 := mkI(sentinelHi, sentinelLo)
		e1 := r1.UnmarshalText([]byte(s))
		r2 := mkI(sentinelHi, sentinelLo)
		e2 := r2.UnmarshalJSON([]byte(s))
		r3 := mkI(sentinelHi, sentinelLo)
		e3 := r3.UnmarshalYAML(yamlFeeder(s))
		return okErr(e1) + "/" + istr(r1) + " " + okErr(e2) + "/" + istr(r2) + " " + okErr(e3) + "/" + istr(r3)
	case "frombig":
		return istr(num.Int128FromBigInt(parseBig(a[0], a[1])))
	case "asbig":
		return mkI(parsePair(a[0])).AsBigInt().Text(16)
	case "str":
		v := mkI(parsePair(a[0]))
		t, _ := v.MarshalText() //nolint:errcheck // never fails
		j, _ := v.MarshalJSON() //nolint:errcheck // never fails
		y, _ := v.MarshalYAML() //nolint:errcheck // never fails
		return v.String() + " " + string(t) + " " + string(j) + " " + fmt.Sprint(y)
	case "narrow":
		v := mkI(parsePair(a[0]))
		i64 := "err"
		if n, err := v.Int64(); err == nil {
			i64 = fmt.Sprintf("ok:%016x", uint64(n))
		}
		return b2s(v.IsUint128()) + " " + ustr(v.AsUint128()) + " " + b2s(v.IsInt64()) + " " +
			fmt.Sprintf("%016x", uint64(v.AsInt64())) + " " + b2s(v.IsUint64()) + " " +
			fmt.Sprintf("%016x", v.AsUint64()) + " " + i64
	case "from64":
		return istr(num.Int128From64(int64(parseU64(a[0]))))
	case "fromu64":
		return istr(num.Int128FromUint64(parseU64(a[0])))
	case "comps":
		hi, lo := parsePair(a[0])
		h2, l2 := mkI(hi, lo).Components()
		return istr(num.Int128FromComponents(hi, lo)) + " " + pair(h2, l2) + " " + b2s(mkI(hi, lo).IsZero())
	case "abs":
		return ustr(mkI(parsePair(a[0])).AbsUint128())
	}
	return "bad-op"
}

// ---------------------------------------------------------------------------------------------------- f64 model

type f64area struct{}

//go:noinline
func fadd(a, b float64) float64 { return a + b }

//go:noinline
func fsub(a, b float64) float64 { return a - b }

//go:noinline
func fmul(a, b float64) float64 { return a * b }

//go:noinline
func fdiv(a, b float64) float64 { return a / b }

//go:noinline
func toU64(a float64) uint64 { return uint64(a) }

//go:noinline
func toI64(a float64) int64 { return int64(a) }

//go:noinline
func ofU64(a uint64) float64 { return float64(a) }

//go:noinline
func ofI64(a int64) float64 { return float64(a) }

func (f64area) Run(line string) string { return guarded(func() string { return f64Run(line) }) }

func f64Run(line string) string {
	f := strings.Fields(line)
	if len(f) != 4 || f[0] != "f64op" {
		return "bad-op"
	}
	ab, bb := parseU64(f[2]), parseU64(f[3])
	a, b := math.Float64frombits(ab), math.Float64frombits(bb)
	switch f[1] {
	case "add":
		return fbits(fadd(a, b))
	case "sub":
		return fbits(fsub(a, b))
	case "mul":
		return fbits(fmul(a, b))
	case "div":
		return fbits(fdiv(a, b))
	case "mod":
		return fbits(math.Mod(a, b))
	case "neg":
		return fbits(-a)
	case "ofu64":
		return fbits(ofU64(ab))
	case "ofi64":
		return fbits(ofI64(int64(ab)))
	case "tou64":
		// the language defines the conversion only when the truncated value is representable
		if a > -1 && a < 18446744073709551616.0 {
			return fmt.Sprintf("%016x", toU64(a))
		}
		return "impl-defined"
	case "toi64":
		if a >= -9223372036854775808.0 && a < 9223372036854775808.0 {
			return fmt.Sprintf("%016x", uint64(toI64(a)))
		}
		return "impl-defined"
	case "cmp":
		return b2s(a <= b) + b2s(a < b) + b2s(a == b) + b2s(a != b) + b2s(a >= b) + b2s(a > b)
	case "nextz":
		return fbits(math.Nextafter(a, 0))
	}
	return "bad-op"
}

func main() {
	hx.Main(map[string]hx.Area{"conv": conv{}, "f64": f64area{}, "glue": glue{}, "scan": scanArea{}, "words": wordsArea{}, "format": formatArea{}})
}
