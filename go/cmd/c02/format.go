package main

import (
	"bytes"
	"fmt"
	"strconv"
	"strings"

	"github.com/richardwilkes/toolbox/xmath/num"
	"verifharness/hx"
)

// Area `format`: the fmt.Formatter of both types against the model Conv.U128.format / Conv.I128.format
// (lean/Model/Conv128Fmt.lean: AsBigInt, then (*big.Int).Format transcribed from math/big), theorems C02.format_*.
//
//	u|i format <hi:lo> <flags> <width|-> <precision|-> <verb>
//
// flags: letters p(+) m(-) s(#) b(blank) z(0), or `.` for none.  Answer: the text written by Format called with a
// fmt.State that reports exactly these flags / width / precision (hex bytes), the text fmt.Sprintf produces for the
// corresponding format string, and what fmt.Sscanf reads back from that text with the same verb.  For a verb that
// Format does not support the texts are not constrained (`unsupported`).
type formatArea struct{}

type fmtState struct {
	buf              bytes.Buffer
	flags            string
	width, prec      int
	hasWidth, hasPrc bool
}

func (s *fmtState) Write(b []byte) (int, error) { return s.buf.Write(b) }
func (s *fmtState) Width() (int, bool)          { return s.width, s.hasWidth }
func (s *fmtState) Precision() (int, bool)      { return s.prec, s.hasPrc }
func (s *fmtState) Flag(c int) bool             { return strings.IndexByte(s.flags, byte(c)) >= 0 }

const supportedVerbs = "boOdsvxX"

var flagLetters = map[byte]byte{'p': '+', 'm': '-', 's': '#', 'b': ' ', 'z': '0'}

func (formatArea) Run(line string) string { return guarded(func() string { return formatRun(line) }) }

func formatRun(line string) string {
	f := strings.Fields(line)
	if len(f) != 7 || f[1] != "format" || len(f[6]) != 1 {
		return "bad-op"
	}
	verb := rune(f[6][0])
	if !strings.ContainsRune(supportedVerbs, verb) {
		return "unsupported"
	}
	hi, lo := parsePair(f[2])
	var flags []byte
	if f[3] != "." {
		for i := 0; i < len(f[3]); i++ {
			c, ok := flagLetters[f[3][i]]
			if !ok {
				return "bad-op"
			}
			flags = append(flags, c)
		}
	}
	st := &fmtState{flags: string(flags)}
	spec := "%" + string(flags)
	if f[4] != "-" {
		st.width, st.hasWidth = hx.Atoi(f[4]), true
		spec += f[4]
	}
	if f[5] != "-" {
		st.prec, st.hasPrc = hx.Atoi(f[5]), true
		spec += "." + f[5]
	}
	spec += string(verb)
	var direct, printed, back string
	if f[0] == "u" {
		v := mkU(hi, lo)
		v.Format(st, verb)
		direct = st.buf.String()
		printed = fmt.Sprintf(spec, v)
		r := mkU(sentinelHi, sentinelLo)
		if n, err := fmt.Sscanf(printed, "%"+string(verb), &r); err == nil && n == 1 {
			back = "ok:" + ustr(r)
		} else {
			back = "err"
			if h, l := wordsU(r); h != sentinelHi || l != sentinelLo {
				back = "err-receiver-modified"
			}
		}
	} else {
		v := mkI(hi, lo)
		v.Format(st, verb)
		direct = st.buf.String()
		printed = fmt.Sprintf(spec, v)
		r := mkI(sentinelHi, sentinelLo)
		if n, err := fmt.Sscanf(printed, "%"+string(verb), &r); err == nil && n == 1 {
			back = "ok:" + istr(r)
		} else {
			back = "err"
			if h, l := wordsI(r); h != sentinelHi || l != sentinelLo {
				back = "err-receiver-modified"
			}
		}
	}
	return hx.Hex([]byte(direct)) + " " + hx.Hex([]byte(printed)) + " " + back
}

var (
	fmtWidths = []int{0, 1, 2, 3, 4, 5, 8, 10, 16, 17, 20, 32, 33, 39, 40, 41, 45, 64, 65, 128, 129, 130, 131, 140, 256, 300}
	fmtFlags  = allFlagSubsets()
)

// allFlagSubsets: every subset of the five flags + - # blank 0 (32), the empty one three times as often.
func allFlagSubsets() []string {
	out := []string{".", "."}
	for m := 0; m < 32; m++ {
		t := ""
		for k, c := range "pmsbz" {
			if m&(1<<k) != 0 {
				t += string(c)
			}
		}
		if t == "" {
			t = "."
		}
		out = append(out, t)
	}
	return out
}

func (formatArea) Gen(r *hx.Rng, n int, _ string, emit func(string)) {
	for i := 0; i < n; i++ {
		ty := hx.Pick(r, []string{"u", "i"})
		hi, lo := genPair(r)
		if r.Chance(1, 8) { // values with few digits, zero included: paddings and the empty rendering of `%.0d` of 0
			hi, lo = 0, uint64(r.Intn(20))
			if ty == "i" && r.Bool() {
				hi, lo = ^uint64(0), -lo
				if lo == 0 {
					hi = 0
				}
			}
		}
		if r.Chance(1, 10) { // values whose hexadecimal digits start with b / contain e: not a base prefix, not an exponent
			lo = hx.Pick(r, []uint64{0xb, 0xb1, 0xe, 0x1e, 0xbe, 0xeb, 0xb0e, 0x1e5, 0xbbbb, 0xeeee, 0xb << 60, 0xe << 60})
			hi = 0
			if r.Chance(1, 3) {
				hi = hx.Pick(r, []uint64{0xb, 0xe, 0x1e, 0xb1})
			}
		}
		flags := hx.Pick(r, fmtFlags)
		width, prec := "-", "-"
		if r.Intn(3) > 0 {
			width = strconv.Itoa(hx.Pick(r, fmtWidths))
		}
		if r.Intn(3) == 0 {
			prec = strconv.Itoa(hx.Pick(r, fmtWidths))
		}
		verb := string(supportedVerbs[r.Intn(len(supportedVerbs))])
		if r.Chance(1, 40) {
			verb = hx.Pick(r, []string{"c", "q", "e", "U", "t", "B"})
		}
		emit(fmt.Sprintf("%s format %s %s %s %s %s", ty, pair(hi, lo), flags, width, prec, verb))
	}
}

var _ = num.Uint128{}
