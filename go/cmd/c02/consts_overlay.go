//go:build !nooverlay

package main

import (
	"strings"

	"github.com/richardwilkes/toolbox/xmath/num"
)

// constsLine renders the unexported float range constants of package num, read through the accessor that
// go/overlay/c02_consts.go injects with `go build -overlay`. Everything that touches the accessor lives in this file.
func constsLine() string {
	cs := num.VerifC02Consts()
	out := make([]string, len(cs))
	for i, c := range cs {
		out[i] = fbits(c)
	}
	return strings.Join(out, " ")
}
