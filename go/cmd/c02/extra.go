package main

import (
	"encoding/json"
	"errors"
	"fmt"
	"io"
	"math/big"
	"strings"

	"github.com/richardwilkes/toolbox/xmath/num"
	"gopkg.in/yaml.v3"
)

// extraChecks: the hardening pass of the `glue` oracle (tools/HARDENING.md).  Everything is judged against `want`, the
// value computed with math/big from the two words, and against the words themselves; no helper of package num takes
// part in a verdict.
//
//	class 3  rare entry points: ToBigInt(dst), AsBigFloat, Float64(), Int64(), IsZero, Unmarshal* / Scan on reused receivers
//	class 4  outcomes of the callbacks the API takes: the yaml unmarshal function and the fmt.ScanState
//	class 5  aliasing and reuse: destinations of every width, results mutated afterwards, receivers reused after an error
//	class 6  shapes: pre-filled containers, null, decoder streams, the same destination twice

type exporter interface {
	ToBigInt(*big.Int)
	AsBigInt() *big.Int
	AsBigFloat() *big.Float
	Float64() (float64, error)
	Int64() (int64, error)
	IsZero() bool
	String() string
	MarshalText() ([]byte, error)
}

type loader interface {
	UnmarshalText([]byte) error
	UnmarshalJSON([]byte) error
	UnmarshalYAML(func(any) error) error
	Scan(fmt.ScanState, rune) error
}

func fromBigOf[T val](b *big.Int) T {
	var z T
	switch any(z).(type) {
	case num.Uint128:
		return any(num.Uint128FromBigInt(b)).(T)
	default:
		return any(num.Int128FromBigInt(b)).(T)
	}
}

func mkOf[T val](hi, lo uint64) T {
	var z T
	switch any(z).(type) {
	case num.Uint128:
		return any(mkU(hi, lo)).(T)
	default:
		return any(mkI(hi, lo)).(T)
	}
}

func bigPow2(k uint) *big.Int { return new(big.Int).Lsh(big.NewInt(1), k) }

// destinations returns big.Ints in every state a caller may hand to ToBigInt: fresh, emptied but with capacity, one
// word, exactly two, three, many words, negative, and `prev` (the result of an earlier ToBigInt of another value).
func destinations(prev *big.Int) map[string]*big.Int {
	emptied := bigPow2(2500)
	emptied.SetInt64(0)
	wideNeg := bigPow2(700)
	wideNeg.Neg(wideNeg)
	return map[string]*big.Int{
		"fresh": new(big.Int), "emptied-wide": emptied, "one-word": big.NewInt(7), "one-word-neg": big.NewInt(-7),
		"two-words": bigPow2(100), "two-words-neg": new(big.Int).Neg(bigPow2(127)), "three-words": bigPow2(130),
		"five-words": bigPow2(300), "forty-words": bigPow2(2500), "wide-neg": wideNeg,
		"all-ones-3": new(big.Int).Sub(bigPow2(192), big.NewInt(1)), "previous-result": prev,
	}
}

type fakeState struct {
	tok []byte
	err error
}

func (f *fakeState) ReadRune() (rune, int, error)                { return 0, 0, io.EOF }
func (f *fakeState) UnreadRune() error                           { return nil }
func (f *fakeState) SkipSpace()                                  {}
func (f *fakeState) Token(bool, func(rune) bool) ([]byte, error) { return f.tok, f.err }
func (f *fakeState) Width() (int, bool)                          { return 0, false }
func (f *fakeState) Read([]byte) (int, error)                    { return 0, io.EOF }

var errSentinel = errors.New("sentinel")

type wrapOf[T val] struct {
	A T            `json:"a" yaml:"a"`
	P *T           `json:"p" yaml:"p"`
	L []T          `json:"l" yaml:"l"`
	M map[string]T `json:"m" yaml:"m"`
}

func extraChecks[T val](v T, hi, lo uint64, want *big.Int, fail func(string, ...any)) {
	ex := any(v).(exporter)
	dec := want.Text(10)
	other := mkOf[T](^hi, ^lo^0x5555)
	_, signed := any(v).(num.Int128)
	otherDec := exact(^hi, ^lo^0x5555, signed).Text(10)
	otherEx := any(other).(exporter)
	var zero T

	// --- ToBigInt into destinations of every width, twice, and after another value used the same destination
	prev := new(big.Int)
	otherEx.ToBigInt(prev)
	for name, dst := range destinations(prev) {
		ex.ToBigInt(dst)
		if dst.Cmp(want) != 0 || dst.BitLen() != want.BitLen() || dst.Sign() != want.Sign() {
			fail("ToBigInt(%s)=%s", name, dst)
		}
		ex.ToBigInt(dst)
		if dst.Cmp(want) != 0 {
			fail("ToBigInt(%s) twice=%s", name, dst)
		}
		if dst.Text(10) != dec || fmt.Sprintf("%x", dst) != fmt.Sprintf("%x", want) {
			fail("ToBigInt(%s) renders as %s", name, dst)
		}
	}
	// --- AsBigInt results are independent of each other, of the value and of the package's own constants
	a, c := ex.AsBigInt(), ex.AsBigInt()
	a.Lsh(a, 200).Add(a, big.NewInt(3))
	if bits := a.Bits(); len(bits) > 0 {
		bits[0] ^= 1
	}
	if c.Cmp(want) != 0 || ex.AsBigInt().Cmp(want) != 0 {
		fail("AsBigInt after mutating an earlier result=%s,%s", c, ex.AsBigInt())
	}
	c.Neg(c).Sub(c, big.NewInt(1))
	if m1 := mkI(^uint64(0), ^uint64(0)).AsBigInt(); m1.Cmp(big.NewInt(-1)) != 0 {
		fail("AsBigInt(-1)=%s after other calls", m1)
	}
	if mn := mkI(1<<63, 0).AsBigInt(); mn.Cmp(new(big.Int).Neg(bigPow2(127))) != 0 {
		fail("AsBigInt(Min)=%s after other calls", mn)
	}
	if mx := mkU(^uint64(0), ^uint64(0)).AsBigInt(); mx.Cmp(mask) != 0 {
		fail("AsBigInt(MaxUint128)=%s after other calls", mx)
	}
	// --- FromBigInt leaves its argument alone
	arg := new(big.Int).Set(want)
	if got := fromBigOf[T](arg); got != v || arg.Cmp(want) != 0 {
		fail("FromBigInt=%s, argument now %s", compsOf(got), arg)
	}
	// --- AsBigFloat is the exact value
	bf := ex.AsBigFloat()
	if bi, acc := bf.Int(nil); !bf.IsInt() || acc != big.Exact || bi.Cmp(want) != 0 || bf.Sign() != want.Sign() || bf.IsInf() {
		fail("AsBigFloat=%s (int %s, %v)", bf.Text('f', 0), bi, acc)
	}
	// --- json.Number style accessors
	if f, err := ex.Float64(); err == nil || f != 0 {
		fail("Float64()=%v,%v", f, err)
	}
	if n, err := ex.Int64(); want.IsInt64() != (err == nil) || (err == nil && n != want.Int64()) {
		fail("Int64()=%d,%v", n, err)
	}
	if ex.IsZero() != (hi|lo == 0) {
		fail("IsZero()=%v", ex.IsZero())
	}
	if t, err := ex.MarshalText(); err == nil && len(t) > 0 {
		t[0] = 'x'
		if ex.String() != dec {
			fail("String()=%q after mutating MarshalText's result", ex.String())
		}
	}
	// --- a receiver is left alone by a failed load and fully overwritten by the next good one
	type loadFn struct {
		name string
		bad  func(loader) error
		good func(loader) error
	}
	loads := []loadFn{
		{"UnmarshalText", func(l loader) error { return l.UnmarshalText([]byte(dec + "x")) }, func(l loader) error { return l.UnmarshalText([]byte(dec)) }},
		{"UnmarshalJSON", func(l loader) error { return l.UnmarshalJSON([]byte(`"` + dec + `"`)) }, func(l loader) error { return l.UnmarshalJSON([]byte(dec)) }},
		{"UnmarshalYAML", func(l loader) error { return l.UnmarshalYAML(yamlFeeder(dec + ".5")) }, func(l loader) error { return l.UnmarshalYAML(yamlFeeder(dec)) }},
		{"Scan", func(l loader) error { return l.Scan(&fakeState{tok: []byte("1/" + dec)}, 'v') }, func(l loader) error { return l.Scan(&fakeState{tok: []byte(dec)}, 'd') }},
	}
	for _, lf := range loads {
		r := other
		l := any(&r).(loader)
		if err := lf.bad(l); err == nil || r != other {
			fail("%s(bad text) = %v, receiver %s", lf.name, err, compsOf(r))
		}
		if err := lf.good(l); err != nil || r != v {
			fail("%s after an error = %v, receiver %s", lf.name, err, compsOf(r))
		}
		if err := lf.good(l); err != nil || r != v {
			fail("%s twice = %v, receiver %s", lf.name, err, compsOf(r))
		}
	}
	// --- outcomes of the yaml unmarshal callback: error (fresh, sentinel), nothing stored, panic
	for name, cb := range map[string]func(any) error{
		"fresh-error": func(any) error { return errors.New("boom") },
		"sentinel":    func(any) error { return errSentinel },
		"eof":         func(any) error { return io.EOF },
		"no-store":    func(any) error { return nil },
	} {
		r := other
		if err := any(&r).(loader).UnmarshalYAML(cb); err == nil || r != other {
			fail("UnmarshalYAML(callback %s) = %v, receiver %s", name, err, compsOf(r))
		}
	}
	for name, pv := range map[string]any{"string": "boom", "error": errSentinel, "nil-pointer": (*int)(nil)} {
		r := other
		var err error
		func() {
			defer func() { _ = recover() }()
			err = errSentinel
			err = any(&r).(loader).UnmarshalYAML(func(any) error { panic(pv) })
		}()
		if err == nil || r != other { // a panic that propagates leaves err at the sentinel
			fail("UnmarshalYAML(callback panics with %s) = %v, receiver %s", name, err, compsOf(r))
		}
	}
	// --- outcomes of the ScanState: Token fails
	for _, te := range []error{io.EOF, io.ErrUnexpectedEOF, errSentinel} {
		r := other
		if err := any(&r).(loader).Scan(&fakeState{err: te}, 'v'); err == nil || r != other {
			fail("Scan(Token fails with %v) = %v, receiver %s", te, err, compsOf(r))
		}
	}
	// --- containers that already hold other values; null; a decoder stream into one variable
	o2 := other
	w := wrapOf[T]{A: other, P: &o2, L: []T{other, other, other, other}, M: map[string]T{"k": other}}
	doc := `{"a":` + dec + `,"p":` + dec + `,"l":[` + dec + `,0,` + dec + `],"m":{"k":` + dec + `}}`
	if err := json.Unmarshal([]byte(doc), &w); err != nil || w.A != v || w.P == nil || *w.P != v || len(w.L) != 3 || w.L[0] != v ||
		w.L[1] != zero || w.L[2] != v || w.M["k"] != v {
		fail("json into a pre-filled struct=%+v,%v", w, err)
	}
	o3 := other
	wy := wrapOf[T]{A: other, P: &o3, L: []T{other, other, other, other}, M: map[string]T{"k": other}}
	ydoc := "a: " + dec + "\np: \"" + dec + "\"\nl: [" + dec + ", 0, '" + dec + "']\nm: {k: " + dec + "}\n"
	if err := yaml.Unmarshal([]byte(ydoc), &wy); err != nil || wy.A != v || wy.P == nil || *wy.P != v || len(wy.L) != 3 ||
		wy.L[0] != v || wy.L[1] != zero || wy.L[2] != v || wy.M["k"] != v {
		fail("yaml into a pre-filled struct=%+v,%v", wy, err)
	}
	var wn wrapOf[T]
	if err := json.Unmarshal([]byte(`{"a":`+dec+`,"p":null}`), &wn); err != nil || wn.A != v || wn.P != nil {
		fail("json null pointer=%+v,%v", wn, err)
	}
	var pp **T
	if err := json.Unmarshal([]byte(" "+dec+"\n"), &pp); err != nil || pp == nil || *pp == nil || **pp != v {
		fail("json into **T: %v", err)
	}
	r := other
	jd := json.NewDecoder(strings.NewReader(dec + " " + otherDec + "\n" + dec + " [" + dec + "]"))
	for k, wantV := range []T{v, other, v} {
		if err := jd.Decode(&r); err != nil || r != wantV {
			fail("json decoder stream item %d=%s,%v", k, compsOf(r), err)
		}
	}
	var arr [1]T
	if err := jd.Decode(&arr); err != nil || arr[0] != v {
		fail("json decoder stream array=%s,%v", compsOf(arr[0]), err)
	}
	// --- the exported word constructor / accessor
	switch x := any(v).(type) {
	case num.Uint128:
		if h, l := x.Components(); h != hi || l != lo || num.Uint128FromComponents(hi, lo) != x {
			fail("Components/FromComponents %x:%x", h, l)
		}
	case num.Int128:
		if h, l := x.Components(); h != hi || l != lo || num.Int128FromComponents(hi, lo) != x {
			fail("Components/FromComponents %x:%x", h, l)
		}
	}
}
