package main

import (
	"fmt"
	"math"
	"math/big"
	"strconv"
	"strings"

	"verifharness/hx"
)

// ------------------------------------------------------------------------------------------------ floats

var specialFloats = []float64{
	0, math.Copysign(0, -1), math.NaN(), math.Inf(1), math.Inf(-1),
	0x1p63, -0x1p63, 0x1p64, -0x1p64, 0x1p127, -0x1p127, 0x1p128, -0x1p128, 0x1p53, -0x1p53, 0x1p52, 1, -1, 0.5, -0.5,
	math.MaxFloat64, -math.MaxFloat64, math.SmallestNonzeroFloat64, -math.SmallestNonzeroFloat64,
	0x1p-1022, 0x1p-1023, 1.5, -1.5, 2.5, 3.5, 0x1p32, 0x1p31,
	// decimal landmarks between the binary range bounds, and the bounds written in decimal
	1e18, 1e19, 1e20, 1e38, 1e39, -1e19, -1e38, -1e39, 9.223372036854776e18, 1.8446744073709552e19, 1.7014118346046923e38,
	3.4028236692093846e38, 0.9999999999999999, -0.9999999999999999, 1.0000000000000002, 4503599627370495.5, -4503599627370495.5,
	9007199254740991, 9007199254740993, 1e15 + 0.5, 0x1p-1074, 0x1.fffffffffffffp1023,
}

func genFloatBits(r *hx.Rng) uint64 {
	sign := uint64(0)
	if r.Bool() {
		sign = 1 << 63
	}
	switch r.Intn(14) {
	case 12: // powers of ten and their float neighbours (decimal magnitudes between the binary bounds)
		b := math.Float64bits(math.Pow(10, float64(r.Range(-5, 41))))
		return uint64(int64(b)+int64(r.Range(-2, 2))) | sign
	case 13: // an integer plus or minus one half (truncation toward zero), at every magnitude below 2^53
		k := uint(r.Range(0, 52))
		f := float64(uint64(1)<<k+uint64(r.Intn(5))) - 2 + hx.Pick(r, []float64{0.5, -0.5, 0.25, 0.75, 0})
		return (math.Float64bits(f) &^ (1 << 63)) | sign
	case 0, 1: // power of two and its neighbours over the whole exponent range
		k := r.Range(-1080, 1030)
		b := math.Float64bits(math.Ldexp(1, k))
		switch r.Intn(3) {
		case 0:
			if b > 0 {
				b--
			}
		case 1:
			b++
		}
		return (b &^ (1 << 63)) | sign
	case 2: // powers of two in the band that the 128-bit conversions split
		k := r.Range(-3, 131)
		b := math.Float64bits(math.Ldexp(1, k))
		b = uint64(int64(b) + int64(r.Range(-3, 3)))
		return b | sign
	case 3:
		b := math.Float64bits(hx.Pick(r, specialFloats))
		if r.Chance(1, 3) {
			b = uint64(int64(b) + int64(r.Range(-2, 2)))
		}
		return b
	case 4: // uniform bit patterns
		return r.U64()
	case 5: // magnitude below 1
		e := uint64(r.Range(1023-60, 1022))
		return sign | e<<52 | (r.U64() & (1<<52 - 1))
	case 6: // all 53 bits set at every exponent
		e := uint64(r.Range(0, 2046))
		return sign | e<<52 | (1<<52 - 1)
	case 7: // random mantissa, exponent in the band 2^-2 .. 2^130
		e := uint64(r.Range(1021, 1023+130))
		return sign | e<<52 | (r.U64() & (1<<52 - 1))
	case 8: // sparse mantissa in the band
		e := uint64(r.Range(1023, 1023+129))
		m := uint64(0)
		for i, n := 0, r.Intn(4); i < n; i++ {
			m |= 1 << uint(r.Intn(52))
		}
		return sign | e<<52 | m
	case 9: // integers and half-integers near 2^52, 2^53, 2^63, 2^64
		base := hx.Pick(r, []float64{0x1p52, 0x1p53, 0x1p63, 0x1p64, 0x1p62, 0x1p11, 1, 0x1p127, 0x1p126})
		f := base + float64(r.Range(-8, 8))*hx.Pick(r, []float64{0.5, 1, 2048, 1024, 0x1p75, 0x1p74})
		return (math.Float64bits(f) &^ (1 << 63)) | sign
	case 10: // subnormals
		return sign | (r.U64() & (1<<52 - 1) >> uint(r.Intn(52)))
	default: // small integers with fractions
		f := float64(r.Intn(1<<20)) / float64(1+r.Intn(64))
		return math.Float64bits(f) | sign
	}
}

// ------------------------------------------------------------------------------------------------ 128-bit values

func genWord(r *hx.Rng) uint64 {
	switch r.Intn(8) {
	case 0:
		return 0
	case 1:
		return math.MaxUint64
	case 2:
		return 1 << 63
	case 3:
		return 1<<63 - 1
	case 4: // sparse
		var v uint64
		for i, n := 0, r.Intn(4); i < n; i++ {
			v |= 1 << uint(r.Intn(64))
		}
		return v
	case 5: // dense
		v := uint64(math.MaxUint64)
		for i, n := 0, r.Intn(4); i < n; i++ {
			v &^= 1 << uint(r.Intn(64))
		}
		return v
	case 6:
		return uint64(r.Intn(16))
	default:
		if r.Chance(1, 3) {
			return hx.Pick(r, []uint64{1, math.MaxUint64 - 1, 1<<63 + 1, 1<<63 - 2, 1 << 32, 1<<32 - 1, 1<<32 + 1, 1<<31 - 1, 1 << 31,
				1<<62 + 1, math.MaxUint64 / 2, math.MaxUint64/2 + 1, 1<<53 - 1, 1 << 53, 1<<53 + 1, pow10u(r.Intn(20)), pow10u(r.Intn(20)) - 1,
				pow10u(r.Intn(20)) + 1})
		}
		return r.U64()
	}
}

func pow10u(k int) uint64 {
	v := uint64(1)
	for i := 0; i < k; i++ {
		v *= 10
	}
	return v
}

var (
	one   = big.NewInt(1)
	two64 = new(big.Int).Lsh(one, 64)
	p128  = new(big.Int).Lsh(one, 128)
	mask  = new(big.Int).Sub(p128, one)
)

func bigToPair(b *big.Int) (hi, lo uint64) {
	v := new(big.Int).And(b, mask) // two's complement for negative values
	lo = new(big.Int).And(v, new(big.Int).Sub(two64, one)).Uint64()
	hi = new(big.Int).Rsh(v, 64).Uint64()
	return hi, lo
}

func genPair(r *hx.Rng) (hi, lo uint64) {
	switch r.Intn(15) {
	case 12: // powers of ten and their neighbours, both signs
		b := new(big.Int).Exp(big.NewInt(10), big.NewInt(int64(r.Intn(40))), nil)
		b.Add(b, big.NewInt(int64(r.Range(-1, 1))))
		if r.Bool() {
			b.Neg(b)
		}
		return bigToPair(b)
	case 13: // the high word is all zeros or all ones, the low word is anything: its top bit agrees or disagrees with hi
		return hx.Pick(r, []uint64{0, math.MaxUint64}), hx.Pick(r, []uint64{genWord(r), r.U64(), r.U64() | 1<<63, r.U64() >> 1})
	case 14: // exactly ±2^63, ±2^64 and the values one away from them
		b := new(big.Int).Lsh(one, uint(63+r.Intn(2)))
		b.Add(b, big.NewInt(int64(r.Range(-1, 1))))
		if r.Bool() {
			b.Neg(b)
		}
		return bigToPair(b)
	case 0:
		return 0, genWord(r)
	case 1:
		return genWord(r), 0
	case 2:
		return math.MaxUint64, 0
	case 3: // ±2^k ± small
		k := uint(r.Intn(129))
		b := new(big.Int).Lsh(one, k)
		b.Add(b, big.NewInt(int64(r.Range(-2, 2))))
		if r.Bool() {
			b.Neg(b)
		}
		return bigToPair(b)
	case 4: // neighbours of the bounds of both types and of the 64-bit types
		base := hx.Pick(r, []*big.Int{
			new(big.Int), p128, new(big.Int).Lsh(one, 127), new(big.Int).Lsh(one, 63), two64,
			new(big.Int).Neg(new(big.Int).Lsh(one, 63)), new(big.Int).Neg(two64),
		})
		b := new(big.Int).Add(base, big.NewInt(int64(r.Range(-3, 3))))
		return bigToPair(b)
	case 5: // below 2^53 and around it (exact float range)
		v := r.U64() >> uint(r.Range(10, 63))
		if r.Bool() {
			return bigToPair(new(big.Int).Neg(new(big.Int).SetUint64(v)))
		}
		return 0, v
	case 6: // halfway cases for float rounding: 54..66 significant bits
		n := uint(r.Range(54, 66))
		v := new(big.Int).SetUint64(r.U64() | 1<<63)
		v.Rsh(v, 64-53)
		v.Lsh(v, n-53)
		v.Or(v, new(big.Int).Lsh(one, n-54)) // exactly half
		v.Add(v, big.NewInt(int64(r.Range(-1, 1))))
		v.Lsh(v, uint(r.Intn(int(128-n)+1)))
		if r.Bool() {
			v.Neg(v)
		}
		return bigToPair(v)
	case 7:
		return genWord(r), genWord(r)
	case 8: // sign-extended 64-bit values
		v := genWord(r)
		if v>>63 == 1 {
			return math.MaxUint64, v
		}
		return 0, v
	case 9: // low word at or next to a rounding tie of float64(lo) (k significant bits, k = 54..64), any high word
		k := r.Range(54, 64)
		sh := uint(k - 53)
		lo = ((r.U64() | 1<<63) >> 11) << sh
		lo |= 1 << (sh - 1)
		lo = uint64(int64(lo) + int64(r.Range(-1, 1)))
		switch r.Intn(4) {
		case 0:
			hi = 0
		case 1:
			hi = uint64(1 + r.Intn(3))
		case 2:
			hi = r.U64()
		default:
			hi = r.U64() >> uint(r.Intn(64))
		}
		return hi, lo
	default:
		return r.U64() >> uint(r.Intn(64)), r.U64()
	}
}

func genBig(r *hx.Rng) *big.Int {
	switch r.Intn(10) {
	case 8: // exactly k words: the smallest and the largest value with k 64-bit (or 2k 32-bit) words
		k := uint(hx.Pick(r, []int{1, 2, 3, 4, 5, 6, 8, 9, 16, 17, 32, 33, 64, 65, 2, 3, 4, 5}))
		if r.Chance(1, 30) {
			k = 1000
		}
		var b *big.Int
		switch r.Intn(3) {
		case 0:
			b = new(big.Int).Lsh(one, 64*(k-1))
		case 1:
			b = new(big.Int).Sub(new(big.Int).Lsh(one, 64*k), one)
		default:
			b = new(big.Int).Lsh(one, 64*k-32) // an odd number of 32-bit words
			b.Add(b, big.NewInt(int64(r.Range(-1, 1))))
		}
		if r.Bool() {
			b.Neg(b)
		}
		return b
	case 9: // powers of ten around the decimal length of the bounds
		b := new(big.Int).Exp(big.NewInt(10), big.NewInt(int64(r.Range(17, 45))), nil)
		b.Add(b, big.NewInt(int64(r.Range(-1, 1))))
		if r.Bool() {
			b.Neg(b)
		}
		return b
	case 0: // around word boundaries and type bounds
		k := hx.Pick(r, []uint{0, 1, 63, 64, 65, 127, 128, 129, 191, 192, 193, 255, 256, 257, 320})
		b := new(big.Int).Lsh(one, k)
		b.Add(b, big.NewInt(int64(r.Range(-2, 2))))
		if r.Bool() {
			b.Neg(b)
		}
		return b
	case 1: // far out of range
		b := new(big.Int).SetUint64(r.U64() | 1)
		b.Lsh(b, uint(r.Range(100, 400)))
		b.Add(b, new(big.Int).SetUint64(r.U64()))
		if r.Bool() {
			b.Neg(b)
		}
		return b
	default:
		hi, lo := genPair(r)
		b := new(big.Int).SetUint64(hi)
		b.Lsh(b, 64).Or(b, new(big.Int).SetUint64(lo))
		if r.Bool() {
			b.Neg(b)
		}
		return b
	}
}

// ------------------------------------------------------------------------------------------------ strings

func withUnderscores(r *hx.Rng, digits string) string {
	if len(digits) < 2 {
		return digits
	}
	var sb strings.Builder
	for i := 0; i < len(digits); i++ {
		if i > 0 && r.Chance(1, 4) {
			sb.WriteByte('_')
		}
		sb.WriteByte(digits[i])
	}
	return sb.String()
}

func signStr(r *hx.Rng) string { return hx.Pick(r, []string{"", "", "", "-", "-", "+"}) }

func genInteger(r *hx.Rng) *big.Int {
	b := genBig(r)
	if n := b.BitLen(); n > 4500 && !r.Chance(1, 20) {
		b.Rsh(b, uint(n-4500+r.Intn(64))) // very long texts are kept, but rare (the scanners are quadratic in the length)
	}
	return b.Abs(b)
}

// digit counts around the thresholds of the scanners (19 / 16 digits per 64-bit word, 9 / 8 per 32-bit word), of the
// types (39 / 40 decimal, 32 / 33 hexadecimal, 128 / 129 binary digits) and of typical fast paths
var digitCounts = []int{1, 8, 9, 10, 12, 16, 17, 18, 19, 20, 21, 32, 33, 38, 39, 40, 43, 64, 65, 128, 129, 256, 257, 1000, 1025}

func genLongLiteral(r *hx.Rng) string {
	n := hx.Pick(r, digitCounts)
	if r.Chance(1, 60) {
		n = 5000
	}
	base, pfx, digits := 10, "", "0123456789"
	switch r.Intn(5) {
	case 0:
		base, pfx, digits = 16, hx.Pick(r, []string{"0x", "0X"}), hx.Pick(r, []string{"0123456789abcdef", "0123456789ABCDEF", "0123456789abcdf"})
	case 1:
		base, pfx, digits = 2, hx.Pick(r, []string{"0b", "0B"}), "01"
	case 2:
		base, pfx, digits = 8, hx.Pick(r, []string{"0o", "0O", "0"}), "01234567"
	}
	_ = base
	var sb strings.Builder
	zeros := 0
	if r.Chance(1, 3) {
		zeros = r.Intn(n) // leading zeros: the value is small, the text is long
	}
	for i := 0; i < n; i++ {
		c := digits[r.Intn(len(digits))]
		if i < zeros || (i == 0 && pfx == "" && c == '0') {
			c = '0'
			if pfx == "" {
				c = '1' // a decimal literal must not start with 0
			}
		}
		if i > 0 && r.Chance(1, 40) {
			sb.WriteByte('_')
		}
		sb.WriteByte(c)
	}
	t := signStr(r) + pfx + sb.String()
	if pfx == "" && r.Chance(1, 4) {
		t += hx.Pick(r, []string{"e0", "e1", "E+2", "e-1", "e-0"})
	}
	return t
}

func genValidText(r *hx.Rng) string {
	if r.Chance(1, 12) {
		return genLongLiteral(r)
	}
	v := genInteger(r)
	switch r.Intn(16) {
	case 0, 1, 2: // plain decimal
		return signStr(r) + v.Text(10)
	case 3: // hex
		t := v.Text(16)
		if r.Bool() {
			t = strings.ToUpper(t)
		}
		return signStr(r) + hx.Pick(r, []string{"0x", "0X"}) + t
	case 4:
		return signStr(r) + hx.Pick(r, []string{"0o", "0O", "0"}) + v.Text(8)
	case 5:
		return signStr(r) + hx.Pick(r, []string{"0b", "0B"}) + v.Text(2)
	case 6: // underscores in valid places
		pfx, base := "", 10
		switch r.Intn(5) {
		case 0:
			pfx, base = "0x", 16
		case 1:
			pfx, base = "0b", 2
		case 2:
			pfx, base = "0o", 8
		case 3:
			pfx, base = "0", 8
		}
		t := withUnderscores(r, v.Text(base))
		if pfx != "" && r.Bool() {
			t = "_" + t
		}
		return signStr(r) + pfx + t
	case 7: // leading zeros in a prefixed literal
		return signStr(r) + "0x" + strings.Repeat("0", r.Intn(4)) + v.Text(16)
	case 8, 9: // integral exponent form: mantissa without trailing zeros times a power of ten
		t := v.Text(10)
		z := 0
		for len(t) > 1 && t[len(t)-1] == '0' {
			t = t[:len(t)-1]
			z++
		}
		z += r.Intn(3) * r.Intn(20)
		e := hx.Pick(r, []string{"e", "E"}) + hx.Pick(r, []string{"", "+", ""}) + strings.Repeat("0", r.Intn(2)) + strconv.Itoa(z)
		return signStr(r) + t + e
	case 10: // radix point, exponent large enough to make it integral (or just not)
		t := v.Text(10)
		cut := r.Intn(len(t) + 1)
		frac := len(t) - cut
		e := frac + r.Range(-2, 3)
		ip := t[:cut]
		if ip == "" && r.Bool() {
			ip = "0"
		}
		return signStr(r) + ip + "." + t[cut:] + hx.Pick(r, []string{"e", "E"}) + strconv.Itoa(e)
	case 11: // negative exponent, trailing zeros make it integral (or not)
		t := v.Text(10)
		z := r.Intn(6)
		return signStr(r) + t + strings.Repeat("0", z) + "e-" + strconv.Itoa(z+r.Range(-1, 1))
	case 12: // hexadecimal text that merely contains an e, with optional binary exponent
		t := v.Text(16) + "e" + fmt.Sprintf("%x", r.Intn(256))
		if r.Bool() {
			t = strings.ToUpper(t)
		}
		s := signStr(r) + "0x" + t
		switch r.Intn(4) {
		case 0:
			s += "p" + strconv.Itoa(r.Range(-12, 40))
		case 1:
			s = signStr(r) + "0x" + v.Text(16) + ".e" + strings.Repeat("0", r.Intn(3)) + "p" + strconv.Itoa(r.Range(0, 16))
		}
		return s
	case 13: // binary / octal mantissa followed by a decimal exponent
		if r.Bool() {
			return signStr(r) + "0b" + v.Text(2) + "e" + strconv.Itoa(r.Range(-2, 30))
		}
		return signStr(r) + "0o" + v.Text(8) + "E" + strconv.Itoa(r.Range(-2, 30))
	case 14: // exponents around the limits of big.Rat.SetString and of ParseInt
		m := hx.Pick(r, []string{"1", "0", "5", "2", "1.5", "0.0", "12"})
		var e string
		if r.Chance(1, 40) {
			e = hx.Pick(r, []string{"1000000", "1000001", "-1000000", "-1000001", "999999"})
		} else {
			e = hx.Pick(r, []string{
				"5000", "-5000", "40", "39", "38", "-1", "-0", "+0", "9223372036854775807", "9223372036854775808",
				"-9223372036854775808", "-9223372036854775809", "99999999999999999999", "10000001", "-10000001",
				"1_0", "1__0", "_1", "1_", "00000000000000000000001",
			})
		}
		if strings.HasPrefix(m, "0") && !strings.Contains(m, ".") && r.Bool() {
			return signStr(r) + "0x1p" + e + "e" // not valid: nothing may follow the exponent
		}
		return signStr(r) + m + "e" + e
	default: // fraction syntax (must be rejected) whose numerator or denominator contains an e / E
		num := hx.Pick(r, []string{"0x" + v.Text(16) + "e", "0X" + strings.ToUpper(v.Text(16)) + "E", v.Text(10) + "e0", v.Text(10) + "E2",
			"0b" + v.Text(2) + "e1", "0xe", "1e2", "0x1e", v.Text(10)})
		den := hx.Pick(r, []string{"1", "2", "0x1e", "0", "-1", "1e0", "0xe", "1E0", "10", "0x1", "1e-0", "+1"})
		return signStr(r) + num + "/" + den
	}
}

const alphabet = "0123456789abcdefABCDEFxXoOpP_+-./ eE\x00\xc3\xa9\t\"'"

func mutate(r *hx.Rng, s string) string {
	b := []byte(s)
	switch r.Intn(7) {
	case 0: // insert
		i := r.Intn(len(b) + 1)
		return string(b[:i]) + string(alphabet[r.Intn(len(alphabet))]) + string(b[i:])
	case 1: // delete
		if len(b) == 0 {
			return s
		}
		i := r.Intn(len(b))
		return string(b[:i]) + string(b[i+1:])
	case 2: // replace
		if len(b) == 0 {
			return s
		}
		b[r.Intn(len(b))] = alphabet[r.Intn(len(alphabet))]
		return string(b)
	case 3: // truncate
		return s[:r.Intn(len(s)+1)]
	case 4: // surround (whitespace, quotes)
		q := hx.Pick(r, []string{" ", "\"", "'", "\n", "\t"})
		switch r.Intn(3) {
		case 0:
			return q + s
		case 1:
			return s + q
		default:
			return q + s + q
		}
	case 5: // double a character
		if len(b) == 0 {
			return s
		}
		i := r.Intn(len(b))
		return string(b[:i+1]) + string(b[i:])
	default: // underscore somewhere
		i := r.Intn(len(b) + 1)
		return string(b[:i]) + "_" + string(b[i:])
	}
}

var fixedTexts = []string{
	"", "+", "-", "0", "-0", "+0", "00", "0_0", "0_", "_0", "0x", "0x_", "0x_1", "0b", "0o", "08", "09", "0_8", "0e", "e", "E1", "1e",
	"1e+", "1e-", "1e1", "1E1", "1e1e1", "1.e1", ".1e1", ".e1", "1._0e2", "1_.0e2", "1_0.0_1e2", "0x.8p1e", "0xep1", "0xEP1",
	"0x1.ep4", "0b1e3", "0o7e1", "07e1", "08e1", "0_7e1", "1e0/1", "1/1", "0x1e/1", "1e30", "-1e30", "1e38", "1e39", "-1e38", "-1e39",
	"340282366920938463463374607431768211455", "340282366920938463463374607431768211456",
	"170141183460469231731687303715884105727", "170141183460469231731687303715884105728",
	"-170141183460469231731687303715884105728", "-170141183460469231731687303715884105729", "-1", "1p3", "0x1p3", "Inf", "NaN",
	"1e-0", "10e-1", "15e-1", "0.5e1", "0.05e1", "1.0", "1.", "0xe", "0XE", "0Xe_e", "e5", "-e5", "1 e5", "1e5 ", "1e 5",
	"0xe/0xe", "0xE/1", "-0x1e/1", "0x1e/2", "1e2/1", "1e2/1e0", "2/1e0", "0b1e1/1", "0xe/", "/0xe", "0xe//1", "1e0/0", "e/e", "1/e",
	"null", "true", "nil", "0n", "1L", "1u", "1ULL", "0d10", "٣", "１２", "1,000", "1'000", "1 000",
}

func genText(r *hx.Rng) string {
	switch r.Intn(10) {
	case 0:
		return hx.Pick(r, fixedTexts)
	case 1, 2, 3:
		s := genValidText(r)
		for i, n := 0, 1+r.Intn(2); i < n; i++ {
			s = mutate(r, s)
		}
		return s
	default:
		return genValidText(r)
	}
}

// ------------------------------------------------------------------------------------------------ streams

func (conv) Gen(r *hx.Rng, n int, _ string, emit func(string)) {
	emit("consts")
	for i := 0; i < n; i++ {
		ty := hx.Pick(r, []string{"u", "i"})
		switch r.Intn(20) {
		case 0, 1, 2, 3, 4:
			emit(fmt.Sprintf("%s fromfloat %016x", ty, genFloatBits(r)))
		case 5, 6, 7, 8:
			hi, lo := genPair(r)
			emit(ty + " asfloat " + pair(hi, lo))
		case 9, 10, 11, 12:
			emit(ty + " fromstring " + hx.Hex([]byte(genText(r))))
		case 13:
			emit(ty + " unmarshal " + hx.Hex([]byte(genText(r))))
		case 14, 15:
			b := genBig(r)
			sg := "+"
			if b.Sign() < 0 {
				sg = "-"
			}
			emit(ty + " frombig " + sg + " " + new(big.Int).Abs(b).Text(16))
		case 16:
			hi, lo := genPair(r)
			emit(ty + " asbig " + pair(hi, lo))
		case 17:
			hi, lo := genPair(r)
			emit(ty + " str " + pair(hi, lo))
		case 18:
			hi, lo := genPair(r)
			emit(ty + " narrow " + pair(hi, lo))
		default:
			switch r.Intn(7) {
			case 4:
				mode := hx.Pick(r, []string{"ok", "ok", "none", "err"})
				emit(ty + " yamlcb " + mode + " " + hx.Hex([]byte(genText(r))))
			case 5:
				mode := hx.Pick(r, []string{"ok", "ok", "err"})
				emit(ty + " scantok " + mode + " " + hx.Pick(r, []string{"v", "d", "x", "X", "o", "O", "b", "s", "q"}) + " " + hx.Hex([]byte(genText(r))))
			case 6:
				hi, lo := genPair(r)
				emit(ty + " " + hx.Pick(r, []string{"asbigfloat", "asbigfloat", "bigfloat64", "bigfloat64", "float64m"}) + " " + pair(hi, lo))
			case 0:
				hi, lo := genPair(r)
				emit(ty + " comps " + pair(hi, lo))
			case 1:
				hi, lo := genPair(r)
				emit("i abs " + pair(hi, lo))
			default:
				op := "from64"
				if ty == "i" && r.Bool() {
					op = "fromu64"
				}
				emit(fmt.Sprintf("%s %s %016x", ty, op, genWord(r)))
			}
		}
	}
}

func (f64area) Gen(r *hx.Rng, n int, _ string, emit func(string)) {
	for i := 0; i < n; i++ {
		a, b := genFloatBits(r), genFloatBits(r)
		if r.Chance(1, 6) { // nearby operands: cancellation, ties
			b = uint64(int64(a)+int64(r.Range(-4, 4))) ^ (uint64(r.Intn(2)) << 63)
		}
		switch r.Intn(14) {
		case 0, 1:
			emit(fmt.Sprintf("f64op add %016x %016x", a, b))
		case 2:
			emit(fmt.Sprintf("f64op sub %016x %016x", a, b))
		case 3, 4:
			emit(fmt.Sprintf("f64op mul %016x %016x", a, b))
		case 5, 6:
			emit(fmt.Sprintf("f64op div %016x %016x", a, b))
		case 7:
			if r.Bool() {
				b = math.Float64bits(0x1p64)
			}
			emit(fmt.Sprintf("f64op mod %016x %016x", a, b))
		case 8:
			emit(fmt.Sprintf("f64op neg %016x %016x", a, 0))
		case 9:
			_, lo := genPair(r)
			emit(fmt.Sprintf("f64op %s %016x %016x", hx.Pick(r, []string{"ofu64", "ofi64"}), lo, 0))
		case 10:
			emit(fmt.Sprintf("f64op tou64 %016x %016x", a, 0))
		case 11:
			emit(fmt.Sprintf("f64op toi64 %016x %016x", a, 0))
		case 12:
			emit(fmt.Sprintf("f64op cmp %016x %016x", a, b))
		default:
			f := math.Float64frombits(a &^ (1 << 63))
			if f > 0 && !math.IsInf(f, 0) {
				emit(fmt.Sprintf("f64op nextz %016x %016x", a&^(1<<63), 0))
			} else {
				emit(fmt.Sprintf("f64op cmp %016x %016x", a, b))
			}
		}
	}
}
