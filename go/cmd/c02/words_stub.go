//go:build nooverlay

package main

import (
	"unsafe"

	"github.com/richardwilkes/toolbox/xmath/num"
)

// Black-box build (the overlay did not compile against the working tree): the two words are reached through the
// memory layout `struct{ hi, lo uint64 }` instead of the injected accessors.
type raw128 struct{ hi, lo uint64 }

func init() {
	if unsafe.Sizeof(num.Uint128{}) != unsafe.Sizeof(raw128{}) || unsafe.Sizeof(num.Int128{}) != unsafe.Sizeof(raw128{}) {
		panic("c02 harness: unexpected size of num.Uint128 / num.Int128")
	}
}

func mkU(hi, lo uint64) num.Uint128 { r := raw128{hi, lo}; return *(*num.Uint128)(unsafe.Pointer(&r)) }
func mkI(hi, lo uint64) num.Int128  { r := raw128{hi, lo}; return *(*num.Int128)(unsafe.Pointer(&r)) }
func wordsU(u num.Uint128) (hi, lo uint64) {
	r := *(*raw128)(unsafe.Pointer(&u))
	return r.hi, r.lo
}
func wordsI(i num.Int128) (hi, lo uint64) {
	r := *(*raw128)(unsafe.Pointer(&i))
	return r.hi, r.lo
}
