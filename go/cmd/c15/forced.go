package main

import (
	"fmt"
	"math"
	"os"
	"sort"
	"strconv"
	"strings"
	"sync"
	"sync/atomic"
	"time"

	"github.com/richardwilkes/toolbox/taskqueue"
	"verifharness/hx"
)

// Forced schedules: every task blocks on its own release channel, so that after each script line the queue reaches a
// quiescent state whose observable (started / finished / recovered tasks, returned Submit calls, state of Shutdown) is
// predicted by the Lean model.

type subReq struct {
	id   int
	kind byte // 'n' = returns normally, otherwise a panic value kind (values.go)
}

type curTask struct {
	id   int
	kind byte
}

type fq struct {
	q          *taskqueue.Queue
	mu         sync.Mutex
	started    map[int]int
	finished   map[int]int
	recovered  map[int]int
	workers    int
	startOrder []int // ids in the order in which the tasks began / ended (printed for one-worker queues)
	finOrder   []int
	rel        map[int]chan struct{}
	cur        map[int64]curTask // goroutine id -> the panicking task it is running
	relAll     bool
	nextID     int
	subQueue   []subReq
	subCond    *sync.Cond
	subIssued  int // Submit calls asked for
	subDone    int // Submit calls that have returned
	subPanics  int // Submit calls that ended in a panic of the caller (send on the closed input channel)
	shut       int32
	subStopped bool
	broken     bool // a hint deadline was missed in this history
}

// handler modes of `new W D C [H]`: 0 recording handler, 1 no RecoveryHandler option, 2 RecoveryHandler(nil),
// 3 handler that records and then panics.
func newFQ(workers, depth, inCap, mode int) *fq {
	f := &fq{
		started:   make(map[int]int),
		finished:  make(map[int]int),
		recovered: make(map[int]int),
		rel:       make(map[int]chan struct{}),
		cur:       make(map[int64]curTask),
		workers:   workers,
	}
	f.subCond = sync.NewCond(&f.mu)
	opts := withInCap([]taskqueue.Option{taskqueue.Workers(workers), taskqueue.Depth(depth)}, inCap)
	record := func(err error) {
		// recovered[-1]: a call that cannot be attributed to a panicking task; -2: nil error; -3: the rendering of the
		// error does not mention the marker of the task although the panic value had text
		gid := curGID()
		f.mu.Lock()
		ct, ok := f.cur[gid]
		f.mu.Unlock()
		id := -1
		if ok {
			id = ct.id
		}
		bad := 0
		if err == nil {
			bad = -2
		} else if ok && hasText(ct.kind) && !strings.Contains(errText(err), marker(ct.id)) {
			bad = -3
		}
		f.mu.Lock()
		f.recovered[id]++
		if bad != 0 {
			f.recovered[bad]++
		}
		f.mu.Unlock()
	}
	switch mode {
	case 0:
		opts = append(opts, taskqueue.RecoveryHandler(record))
	case 1:
	case 2:
		opts = append(opts, taskqueue.RecoveryHandler(nil))
	case 3:
		opts = append(opts, taskqueue.RecoveryHandler(func(err error) {
			record(err)
			panic("bad recovery handler")
		}))
	}
	f.q = taskqueue.New(opts...)
	go f.submitter()
	return f
}

// relChan must be called with f.mu held.
func (f *fq) relChan(id int) chan struct{} {
	ch, ok := f.rel[id]
	if !ok {
		ch = make(chan struct{})
		if f.relAll {
			close(ch)
		}
		f.rel[id] = ch
	}
	return ch
}

func (f *fq) task(id int, kind byte) taskqueue.Task {
	return func() {
		f.mu.Lock()
		f.started[id]++
		f.startOrder = append(f.startOrder, id)
		ch := f.relChan(id)
		f.mu.Unlock()
		<-ch
		f.mu.Lock()
		f.finished[id]++
		f.finOrder = append(f.finOrder, id)
		if kind != 'n' {
			f.cur[curGID()] = curTask{id: id, kind: kind}
		}
		f.mu.Unlock()
		if kind != 'n' {
			panicWith(kind, id)
		}
	}
}

// submitter is the single sequential submitting goroutine: Submit calls are issued in id order, one after the other.
func (f *fq) submitter() {
	for {
		f.mu.Lock()
		for len(f.subQueue) == 0 && !f.subStopped {
			f.subCond.Wait()
		}
		if len(f.subQueue) == 0 {
			f.mu.Unlock()
			return
		}
		r := f.subQueue[0]
		f.subQueue = f.subQueue[1:]
		f.mu.Unlock()
		panicked := f.callSubmit(f.task(r.id, r.kind))
		f.mu.Lock()
		if panicked {
			f.subPanics++
		} else {
			f.subDone++
		}
		f.mu.Unlock()
	}
}

// callSubmit calls Submit and reports whether the call panicked in the caller (what a send on the closed input does)
func (f *fq) callSubmit(t taskqueue.Task) (panicked bool) {
	defer func() {
		if recover() != nil {
			panicked = true
		}
	}()
	f.q.Submit(t)
	return false
}

func showCounts(m map[int]int) string {
	if len(m) == 0 {
		return "-"
	}
	ids := make([]int, 0, len(m))
	for id := range m {
		ids = append(ids, id)
	}
	sort.Ints(ids)
	parts := make([]string, len(ids))
	for i, id := range ids {
		parts[i] = strconv.Itoa(id)
		if m[id] != 1 {
			parts[i] += "*" + strconv.Itoa(m[id])
		}
	}
	return strings.Join(parts, ",")
}

func showSeq(l []int) string {
	if len(l) == 0 {
		return "-"
	}
	parts := make([]string, len(l))
	for i, id := range l {
		parts[i] = strconv.Itoa(id)
	}
	return strings.Join(parts, ",")
}

// obs: for a one-worker queue the tasks are printed in the ORDER in which they began and ended (the model predicts the
// order: submission order), otherwise as sorted sets.
func (f *fq) obs() string {
	f.mu.Lock()
	defer f.mu.Unlock()
	st, fin := showCounts(f.started), showCounts(f.finished)
	if f.workers == 1 {
		st, fin = showSeq(f.startOrder), showSeq(f.finOrder)
	}
	o := fmt.Sprintf("st=%s fin=%s rec=%s sub=%d sd=%d", st, fin, showCounts(f.recovered), f.subDone,
		atomic.LoadInt32(&f.shut))
	if f.subPanics > 0 {
		o += fmt.Sprintf(" xp=%d", f.subPanics) // Submit calls that panicked in their caller
	}
	return o
}

var (
	hintMisses int
	// deadMode: after 3 missed deadlines the rest of the stream is not run (the answers are the token that the
	// comparison skips): the queue under test hangs, the verdict is decided, and the check must stay short
	deadMode bool
)

func hintDeadline() time.Duration {
	if ms := os.Getenv("C15_DEADLINE_MS"); ms != "" { // minimisation runs of a failing history
		return time.Duration(hx.Atoi(ms)) * time.Millisecond
	}
	if hintMisses >= 1 {
		return 400 * time.Millisecond
	}
	return 3 * time.Second
}

func missed(f *fq) {
	hintMisses++
	f.broken = true
	if hintMisses >= 3 && os.Getenv("C15_DEADLINE_MS") == "" {
		deadMode = true
	}
}

// settle waits for quiescence: with a hint (the model's prediction) until the observable equals the hint, then a grace
// period to see that nothing extra happens; without (or when the hint is not reached within the deadline) until the
// observable has been stable for a while.
func (f *fq) settle(pre, hint string, grace time.Duration) string {
	if hint != "" && !f.broken {
		end := time.Now().Add(hintDeadline())
		pause := 50 * time.Microsecond
		for {
			if pre+f.obs() == hint {
				time.Sleep(grace)
				return pre + f.obs()
			}
			if time.Now().After(end) {
				break
			}
			time.Sleep(pause)
			if pause < time.Millisecond {
				pause *= 2
			}
		}
		missed(f)
	}
	stable := 40 * time.Millisecond
	end := time.Now().Add(2 * time.Second)
	last := f.obs()
	since := time.Now()
	for {
		time.Sleep(time.Millisecond)
		cur := f.obs()
		if cur != last {
			last = cur
			since = time.Now()
		} else if time.Since(since) >= stable {
			return pre + cur
		}
		if time.Now().After(end) {
			return pre + cur + " unstable"
		}
	}
}

func (f *fq) release(ids []int) {
	f.mu.Lock()
	for _, id := range ids {
		ch := f.relChan(id)
		select {
		case <-ch:
		default:
			close(ch)
		}
	}
	f.mu.Unlock()
}

func (f *fq) shutdown() bool { return f.shutdownWhen(false) }

// shutdownWhen(blocked): Shutdown is called when no Submit is outstanding (blocked = false: inside the contract) or
// when one is blocked in Submit (blocked = true, script line `shutx`: outside the contract — the blocked send panics)
func (f *fq) shutdownWhen(blocked bool) bool {
	f.mu.Lock()
	pending := f.subIssued != f.subDone+f.subPanics
	f.mu.Unlock()
	if pending != blocked || atomic.LoadInt32(&f.shut) != 0 {
		return false
	}
	atomic.StoreInt32(&f.shut, 1)
	go func() {
		f.q.Shutdown()
		atomic.StoreInt32(&f.shut, 2)
	}()
	return true
}

// dispose lets everything run out so that no goroutine of a finished history keeps spinning or holding memory.
func (f *fq) releaseAll() {
	f.mu.Lock()
	f.relAll = true
	for _, ch := range f.rel {
		select {
		case <-ch:
		default:
			close(ch)
		}
	}
	f.mu.Unlock()
}

func (f *fq) dispose() {
	f.releaseAll()
	end := time.Now().Add(time.Second)
	if f.broken {
		end = time.Now().Add(30 * time.Millisecond)
	}
	for time.Now().Before(end) {
		f.mu.Lock()
		idle := f.subIssued == f.subDone+f.subPanics
		f.mu.Unlock()
		if idle {
			break
		}
		time.Sleep(200 * time.Microsecond)
	}
	f.mu.Lock()
	idle := f.subIssued == f.subDone+f.subPanics
	f.subStopped = true
	f.subCond.Broadcast()
	f.mu.Unlock()
	if !idle {
		return // a Submit is stuck (defect under test): abandon the queue
	}
	if atomic.LoadInt32(&f.shut) == 0 {
		f.shutdown()
	}
	for time.Now().Before(end) && atomic.LoadInt32(&f.shut) != 2 {
		time.Sleep(200 * time.Microsecond)
	}
}

// measureInCap finds the capacity of the `in` channel of a queue from outside: one worker, Depth(0), the worker busy
// with a blocked task; then `tasks` takes one task, the dispatcher holds one while it waits for a completion, `in` takes
// its capacity and the next Submit blocks: capacity = (Submit calls that return) - 3.
func measureInCap() int { return measureInCapQuiet(60 * time.Millisecond) }

func measureInCapQuiet(quiet time.Duration) int {
	gate := make(chan struct{})
	q := taskqueue.New(taskqueue.Workers(1), taskqueue.Depth(0))
	var returned atomic.Int32
	var stop atomic.Bool
	done := make(chan struct{})
	go func() {
		defer close(done)
		started := make(chan struct{})
		q.Submit(func() { close(started); <-gate })
		returned.Add(1)
		<-started // the worker has taken the first task: the next one goes into the (empty) tasks channel …
		q.Submit(func() {})
		returned.Add(1)
		time.Sleep(5 * time.Millisecond)              // … before the third one arrives, which the dispatcher then holds
		for !stop.Load() && returned.Load() < 20000 { // bounded: a queue that never blocks is not measured for ever
			q.Submit(func() {})
			returned.Add(1)
		}
	}()
	last, since := returned.Load(), time.Now()
	for time.Since(since) < quiet {
		time.Sleep(time.Millisecond)
		if cur := returned.Load(); cur != last {
			last, since = cur, time.Now()
		}
	}
	stop.Store(true)
	close(gate)
	<-done
	q.Shutdown()
	return int(last) - 3
}

type forcedArea struct{ cur *fq }

func splitHint(line string) (string, string) {
	if i := strings.Index(line, " ## "); i >= 0 {
		return line[:i], strings.TrimSpace(line[i+4:])
	}
	return line, ""
}

func parseIDs(ws []string) []int {
	ids := make([]int, len(ws))
	for i, w := range ws {
		ids[i] = hx.Atoi(w)
	}
	return ids
}

const (
	graceShort = 2 * time.Millisecond
	graceLong  = 25 * time.Millisecond
)

func (a *forcedArea) Run(line string) string {
	if deadMode {
		return "skipped-after-crash"
	}
	op, hint := splitHint(line)
	w := strings.Fields(op)
	if len(w) == 0 {
		return "bad-op"
	}
	if w[0] == "reset" {
		if a.cur != nil {
			a.cur.dispose()
			a.cur = nil
		}
		return "reset"
	}
	if w[0] == "cap" {
		// the capacity of the `in` channel this build runs with: set per queue (white-box build) or measured (black-box)
		if overlayBuild {
			return "cap=overlay"
		}
		return "cap=" + strconv.Itoa(measureInCap())
	}
	if w[0] == "realcap" {
		// the capacity of `in` of a queue made by New without the injected option, measured from outside; the measurement
		// waits for a quiet period, so a starved submitter could under-count: the most frequent of up to five
		// measurements is reported (the check compares it with what c15facts read from the source)
		count := map[int]int{}
		best := -1
		for i := 0; i < 5; i++ {
			c := measureInCapQuiet(250 * time.Millisecond) // a long quiet period: a starved submitter must not look blocked
			count[c]++
			if best < 0 || count[c] > count[best] {
				best = c
			}
			if count[best] >= 2 {
				break
			}
		}
		return "cap=" + strconv.Itoa(best)
	}
	if w[0] == "new" {
		if len(w) != 4 && len(w) != 5 {
			return "bad-op"
		}
		workers, depth, inCap, mode := hx.Atoi(w[1]), hx.Atoi(w[2]), hx.Atoi(w[3]), 0
		if len(w) == 5 {
			mode = hx.Atoi(w[4])
		}
		if workers < 1 || inCap < 1 || mode < 0 || mode > 3 {
			return "bad-op"
		}
		if a.cur != nil {
			a.cur.dispose()
		}
		a.cur = newFQ(workers, depth, inCap, mode)
		return "ok"
	}
	f := a.cur
	if f == nil {
		return "bad-op"
	}
	switch w[0] {
	case "sub":
		if len(w) != 2 || strings.Trim(w[1], "n"+valueKinds) != "" {
			return "bad-op"
		}
		if atomic.LoadInt32(&f.shut) != 0 {
			return f.settle("sub-refused ", hint, graceShort)
		}
		f.mu.Lock()
		for _, ch := range w[1] {
			f.subQueue = append(f.subQueue, subReq{id: f.nextID, kind: byte(ch)})
			f.nextID++
			f.subIssued++
		}
		f.subCond.Broadcast()
		f.mu.Unlock()
		return f.settle("", hint, graceShort)
	case "late":
		// outside the contract: one Submit call AFTER Shutdown was called, from a goroutine of its own; the send on the
		// closed input panics in that goroutine and nothing is accepted (xp counts such calls; a call that returns is
		// counted as a returned Submit and its task has an id no accepted task can have)
		if len(w) != 2 || len(w[1]) != 1 || strings.Trim(w[1], "n"+valueKinds) != "" {
			return "bad-op"
		}
		if atomic.LoadInt32(&f.shut) == 0 {
			return f.settle("late-refused ", hint, graceShort)
		}
		f.mu.Lock()
		f.subIssued++
		id := 1000 + f.subIssued
		f.mu.Unlock()
		go func() {
			panicked := f.callSubmit(f.task(id, w[1][0]))
			f.mu.Lock()
			if panicked {
				f.subPanics++
			} else {
				f.subDone++
			}
			f.mu.Unlock()
		}()
		return f.settle("", hint, graceShort)
	case "shutx":
		// outside the contract: Shutdown while a Submit is blocked on the full input
		if len(w) != 1 {
			return "bad-op"
		}
		if !f.shutdownWhen(true) {
			return f.settle("shutx-refused ", hint, graceShort)
		}
		return f.settle("", hint, graceShort)
	case "rel":
		f.release(parseIDs(w[1:]))
		return f.settle("", hint, graceShort)
	case "shut":
		if len(w) != 1 {
			return "bad-op"
		}
		if !f.shutdown() {
			return f.settle("shut-refused ", hint, graceShort)
		}
		return f.settle("", hint, graceShort)
	case "relshut":
		f.release(parseIDs(w[1:]))
		if !f.shutdown() {
			return f.settle("shut-refused ", hint, graceShort)
		}
		return f.settle("", hint, graceShort)
	case "obs":
		if len(w) != 1 {
			return "bad-op"
		}
		return f.settle("", hint, graceLong)
	case "end":
		// release everything (also tasks not yet accepted); when all Submit calls have returned and all tasks have
		// finished, call Shutdown (if it was not called before)
		if len(w) != 1 {
			return "bad-op"
		}
		f.releaseAll()
		end := time.Now().Add(hintDeadline())
		for {
			f.mu.Lock()
			done := f.subIssued == f.subDone+f.subPanics && len(f.finished) >= f.subDone
			f.mu.Unlock()
			if done || f.broken {
				break
			}
			if time.Now().After(end) {
				missed(f)
				break
			}
			time.Sleep(100 * time.Microsecond)
		}
		f.shutdown()
		return f.settle("", hint, graceLong)
	}
	return "bad-op"
}

// hugeDepths: depths no machine can allocate; the queue must treat them like any depth larger than the number of tasks.
var hugeDepths = []int{math.MaxInt, math.MaxInt - 1, math.MaxInt/2 + 1, 1 << 31, 1 << 40}

// genLong: one worker, 17..70 tasks submitted in bursts and released strictly in order, with partial drains between
// the bursts, so that the backlog grows past 16, 32 and 64 entries after tasks have been taken off its head (growth
// policies, ring buffers, shifting). With one worker and in-order releases the model's exploration stays small and the
// quiescent observable is schedule-independent (unbounded depth: every Submit is accepted).
func genLong(r *hx.Rng, out func(string)) {
	depth := hx.Pick(r, []int{-1, -1, -1, -1, 100, 64, 17, math.MinInt64, hugeDepths[r.Intn(len(hugeDepths))]})
	inCap := hx.Pick(r, []int{2, 4})
	mode := hx.Pick(r, []int{0, 0, 1})
	total := hx.Pick(r, []int{17, 20, 33, 40, 65, 70})
	out("reset")
	out(fmt.Sprintf("new 1 %d %d %d", depth, inCap, mode))
	next, rel := 0, 0
	for next < total {
		k := r.Range(3, 12)
		if k > total-next {
			k = total - next
		}
		var sb strings.Builder
		for j := 0; j < k; j++ {
			if r.Chance(1, 9) {
				sb.WriteByte(valueKinds[r.Intn(len(valueKinds))])
			} else {
				sb.WriteByte('n')
			}
		}
		out("sub " + sb.String())
		next += k
		m := r.Range(1, (next-rel)/3+1) // drain a part: the head of the backlog advances, the rest stays queued
		var ids []string
		for j := 0; j < m && rel < next; j++ {
			ids = append(ids, strconv.Itoa(rel))
			rel++
		}
		out("rel " + strings.Join(ids, " "))
	}
	for rel < next {
		m := r.Range(1, 9)
		var ids []string
		for j := 0; j < m && rel < next; j++ {
			ids = append(ids, strconv.Itoa(rel))
			rel++
		}
		out("rel " + strings.Join(ids, " "))
	}
	out("shut")
	out("end")
}

// genOutsideContract: histories in which the callers break the contract — Submit after Shutdown (`late`), Shutdown while a
// Submit is blocked on the full input (`shutx`).  The model (Model/TaskQueueEnv.lean) says what the code does: such a
// Submit panics in its caller, nothing is accepted, the accepted tasks are run and Shutdown returns.
func genOutsideContract(r *hx.Rng, out func(string)) {
	workers := hx.Pick(r, []int{1, 1, 2})
	depth := hx.Pick(r, []int{0, 0, 1, 2, -1})
	inCap := hx.Pick(r, []int{1, 1, 2})
	out("reset")
	out(fmt.Sprintf("new %d %d %d %d", workers, depth, inCap, hx.Pick(r, []int{0, 0, 1, 3})))
	d := depth
	if d < 0 {
		d = 2
	}
	// enough tasks to block the submitter of a bounded queue: workers running, `tasks` full, one held, the backlog, `in`
	k := 2*workers + 1 + d + inCap + r.Range(0, 2)
	// one Submit per line (each settles before the next: which Submit blocks does not depend on the schedule); the last
	// line asks for two, so that a `shutx` finds one blocked send and one more to come
	for j := 0; j < k; j++ {
		fl := "n"
		if r.Chance(1, 5) {
			fl = string(valueKinds[r.Intn(len(valueKinds))])
		}
		if j == k-2 && r.Bool() {
			out("sub " + fl + "n")
			break
		}
		out("sub " + fl)
	}
	rel := 0
	if r.Chance(1, 3) {
		out("rel 0")
		rel = 1
	}
	if r.Chance(1, 2) {
		out("shutx") // refused when no Submit is blocked (unbounded queue, or the release made room)
		out("shut")  // refused when shutx was accepted
	} else {
		// inside the contract up to Shutdown, then late calls
		out("late n") // refused: Shutdown has not been called
		for rel < k {
			out("rel " + strconv.Itoa(rel))
			rel++
		}
		out("shut")
	}
	for n := r.Range(1, 3); n > 0; n-- {
		out("late " + string("npsz"[r.Intn(4)]))
	}
	for rel < k {
		m := r.Range(1, 3)
		var ids []string
		for j := 0; j < m && rel < k; j++ {
			ids = append(ids, strconv.Itoa(rel))
			rel++
		}
		out("rel " + strings.Join(ids, " "))
		if r.Chance(1, 4) {
			out("late n")
		}
	}
	out("end")
}

// Gen emits histories `reset / new W D C / … / obs`; n counts script lines.
func (a *forcedArea) Gen(r *hx.Rng, n int, tier string, emit func(string)) {
	lines := 0
	out := func(s string) { emit(s); lines++ }
	for lines < n {
		if r.Chance(1, 10) {
			genLong(r, out)
			continue
		}
		if r.Chance(1, 9) {
			genOutsideContract(r, out)
			continue
		}
		workers := hx.Pick(r, []int{1, 1, 2, 2, 3, 5, 8})
		depth := hx.Pick(r, []int{-1, 0, 0, 1, 1, 2, 3, 10, 100, workers, workers, workers + 1, math.MinInt64, 65536,
			hugeDepths[r.Intn(len(hugeDepths))], hugeDepths[r.Intn(len(hugeDepths))]})
		inCap := hx.Pick(r, []int{1, 1, 2, 3})
		out("reset")
		mode := hx.Pick(r, []int{0, 0, 0, 1, 1, 2, 3})
		out(fmt.Sprintf("new %d %d %d %d", workers, depth, inCap, mode))
		multi := r.Chance(1, 3) // histories with several actions per line (kept only where the model is schedule-independent)
		next := 0
		var unreleased []int
		shutAsked := false
		steps := r.Range(4, 26)
		maxTasks := 14
		for i := 0; i < steps; i++ {
			c := r.Intn(100)
			if shutAsked && c < 50 {
				c += 50
			}
			switch {
			case c < 50:
				if next >= maxTasks {
					continue
				}
				k := 1
				if multi && r.Chance(1, 3) {
					k = r.Range(2, 4)
				}
				var sb strings.Builder
				for j := 0; j < k; j++ {
					if r.Chance(1, 4) {
						sb.WriteByte(valueKinds[r.Intn(len(valueKinds))])
					} else {
						sb.WriteByte('n')
					}
					unreleased = append(unreleased, next)
					next++
				}
				out("sub " + sb.String())
			case c < 88:
				if len(unreleased) == 0 {
					continue
				}
				k := 1
				if multi && r.Chance(1, 3) {
					k = r.Range(2, 4)
				}
				var ids []string
				for j := 0; j < k && len(unreleased) > 0; j++ {
					// mostly the oldest tasks (they are the running ones), sometimes any (released before it starts)
					ix := 0
					if r.Chance(1, 3) {
						ix = r.Intn(len(unreleased))
					} else if len(unreleased) > workers && r.Bool() {
						ix = r.Intn(workers)
					}
					ids = append(ids, strconv.Itoa(unreleased[ix]))
					unreleased = append(unreleased[:ix], unreleased[ix+1:]...)
				}
				if multi && r.Chance(1, 6) && !shutAsked {
					out("relshut " + strings.Join(ids, " "))
					shutAsked = true
				} else {
					out("rel " + strings.Join(ids, " "))
				}
			case c < 94:
				if shutAsked {
					continue
				}
				out("shut") // refused while a Submit is blocked; otherwise Shutdown waits for the unreleased tasks
				shutAsked = true
			case c < 96:
				out("obs")
			default:
				out("sub " + hx.Pick(r, []string{"n", "p", "z", "s"})) // possibly after Shutdown: refused on both sides
				if !shutAsked {
					unreleased = append(unreleased, next)
					next++
				}
			}
		}
		// the end of every history: everything is released, Shutdown must return
		var ids []string
		for _, id := range unreleased {
			ids = append(ids, strconv.Itoa(id))
		}
		switch {
		case len(ids) == 0:
			out("shut")
		case multi && r.Bool():
			// Shutdown racing the last completions
			out("relshut " + strings.Join(ids, " "))
			out("shut") // refused if the first one was accepted, accepted if a blocked Submit made the first one refused
		default:
			for len(ids) > 0 {
				k := 1
				if multi {
					k = r.Range(1, len(ids))
				}
				out("rel " + strings.Join(ids[:k], " "))
				ids = ids[k:]
			}
			out("shut")
		}
		out("end")
	}
}
