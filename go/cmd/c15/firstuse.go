package main

import (
	"fmt"
	"os"
	"runtime"
	"sync"
	"sync/atomic"
	"time"

	"github.com/richardwilkes/toolbox/taskqueue"
	"verifharness/hx"
)

// Simultaneous FIRST use of fresh queues (a line of area stress):
//
//	first <workers> <gomaxprocs> <racers> <rounds> <seed>
//
// In every round a fresh queue is made and `racers` goroutines, released together from a barrier (channel close, then a bounded spin to a common instant), each submit two
// short tasks as the very first calls the queue sees; when they are done Shutdown is called.  Judged per round like the
// other stress lines: every task ran exactly once and had finished when Shutdown returned, nothing ran afterwards, never
// more than `workers` tasks at the same instant.  (Whatever New leaves to be set up on first use — a dispatcher started
// lazily, say — is set up under the heaviest contention the API allows: seeded/ind6-c15-a.)
func firstUseChild(args []string) {
	if len(args) != 5 {
		fmt.Println("FAIL bad child arguments")
		return
	}
	workers, procs, racers, rounds := hx.Atoi(args[0]), hx.Atoi(args[1]), hx.Atoi(args[2]), hx.Atoi(args[3])
	rr := hx.NewRng(uint64(hx.Atoi(args[4])))
	runtime.GOMAXPROCS(procs)
	var round atomic.Int32
	go func() {
		start := time.Now()
		last, since := round.Load(), time.Now()
		for {
			time.Sleep(100 * time.Millisecond)
			if cur := round.Load(); cur != last {
				last, since = cur, time.Now()
			}
			if time.Since(since) > 3*time.Second || time.Since(start) > 40*time.Second {
				break
			}
		}
		fmt.Printf("FAIL hang: round %d of simultaneous first use did not end within 3s (Submit or Shutdown blocked)\n", round.Load())
		os.Exit(0)
	}()
	n := racers * 2
	for r := 0; r < rounds; r++ {
		round.Store(int32(r))
		depth := []int{-1, 0, 1, 3}[rr.Intn(4)]
		q := taskqueue.New(taskqueue.Workers(workers), taskqueue.Depth(depth))
		ran := make([]atomic.Int32, n)
		var running, maxRunning, ready atomic.Int32
		var releaseAt atomic.Int64
		start := make(chan struct{})
		spin := rr.Intn(3)
		var wg sync.WaitGroup
		for g := 0; g < racers; g++ {
			wg.Add(1)
			go func(g int) {
				defer wg.Done()
				// barrier: wake up on the close of `start`, then spin (bounded: 300 microseconds) to a common instant
				ready.Add(1)
				<-start
				for at := releaseAt.Load(); time.Now().UnixNano() < at; {
				}
				for k := 0; k < 2; k++ {
					id := g*2 + k
					q.Submit(func() {
						cur := running.Add(1)
						for {
							m := maxRunning.Load()
							if cur <= m || maxRunning.CompareAndSwap(m, cur) {
								break
							}
						}
						for i := 0; i <= spin; i++ {
							runtime.Gosched()
						}
						ran[id].Add(1)
						running.Add(-1)
					})
				}
			}(g)
		}
		for int(ready.Load()) < racers {
			runtime.Gosched()
		}
		releaseAt.Store(time.Now().UnixNano() + 300000)
		close(start)
		wg.Wait()
		q.Shutdown()
		atReturn := 0
		for i := range ran {
			atReturn += int(ran[i].Load())
		}
		if atReturn != n {
			fmt.Printf("FAIL simultaneous first use, round %d (depth %d): Shutdown returned when %d of %d tasks had finished\n", r, depth, atReturn, n)
			return
		}
		for i := 0; i < 3; i++ {
			runtime.Gosched()
		}
		for i := range ran {
			if c := ran[i].Load(); c != 1 {
				fmt.Printf("FAIL simultaneous first use, round %d (depth %d): task %d ran %d times\n", r, depth, i, c)
				return
			}
		}
		if m := int(maxRunning.Load()); m > workers {
			fmt.Printf("FAIL simultaneous first use, round %d (depth %d): %d tasks were running at the same instant with %d workers\n", r, depth, m, workers)
			return
		}
	}
	fmt.Printf("ok rounds=%d racers=%d\n", rounds, racers)
}

// Submit racing Shutdown (a line of area stress; outside the contract of the queue, inside the model since
// Model/TaskQueueEnv.lean):
//
//	race <workers> <gomaxprocs> <submitters> <rounds> <seed>
//
// In every round a fresh queue gets three tasks from each of `submitters` goroutines while another goroutine calls
// Shutdown after a short random delay.  What the code does, and the model says: a Submit whose send completed before the
// close is accepted — its task runs exactly once and has finished when Shutdown returns; every other Submit panics in
// its caller ("send on closed channel", also when it was blocked at the close) and its task never runs.  Judged per
// round: accepted XOR panicked; accepted => ran once before Shutdown returned; panicked => never ran; Shutdown returns.
func raceChild(args []string) {
	if len(args) != 5 {
		fmt.Println("FAIL bad child arguments")
		return
	}
	workers, procs, subs, rounds := hx.Atoi(args[0]), hx.Atoi(args[1]), hx.Atoi(args[2]), hx.Atoi(args[3])
	rr := hx.NewRng(uint64(hx.Atoi(args[4])))
	runtime.GOMAXPROCS(procs)
	var round atomic.Int32
	go func() {
		start := time.Now()
		last, since := round.Load(), time.Now()
		for {
			time.Sleep(100 * time.Millisecond)
			if cur := round.Load(); cur != last {
				last, since = cur, time.Now()
			}
			if time.Since(since) > 3*time.Second || time.Since(start) > 40*time.Second {
				break
			}
		}
		fmt.Printf("FAIL hang: round %d of Submit racing Shutdown did not end within 3s (Shutdown or a Submit blocked for ever)\n", round.Load())
		os.Exit(0)
	}()
	n := subs * 3
	for r := 0; r < rounds; r++ {
		round.Store(int32(r))
		depth := []int{-1, 0, 1, 3}[rr.Intn(4)]
		q := taskqueue.New(withInCap([]taskqueue.Option{taskqueue.Workers(workers), taskqueue.Depth(depth)}, 1+rr.Intn(3))...)
		ran := make([]atomic.Int32, n)
		outcome := make([]atomic.Int32, n) // 1 = Submit returned, 2 = Submit panicked in the caller
		delay := time.Duration(rr.Intn(40)) * time.Microsecond
		var wg sync.WaitGroup
		for g := 0; g < subs; g++ {
			wg.Add(1)
			go func(g int) {
				defer wg.Done()
				for k := 0; k < 3; k++ {
					id := g*3 + k
					func() {
						defer func() {
							if recover() != nil {
								outcome[id].Store(2)
							}
						}()
						q.Submit(func() {
							runtime.Gosched()
							ran[id].Add(1)
						})
						outcome[id].Store(1)
					}()
				}
			}(g)
		}
		time.Sleep(delay)
		q.Shutdown()
		atReturn := 0
		for i := range ran {
			atReturn += int(ran[i].Load())
		}
		wg.Wait() // every Submit has returned or panicked: none may stay blocked on a closed channel
		for i := 0; i < 3; i++ {
			runtime.Gosched()
		}
		after := 0
		for i := range ran {
			after += int(ran[i].Load())
		}
		if after != atReturn {
			fmt.Printf("FAIL Submit racing Shutdown, round %d (depth %d): %d tasks ran after Shutdown had returned\n", r, depth, after-atReturn)
			return
		}
		for i := range ran {
			o, c := outcome[i].Load(), ran[i].Load()
			switch {
			case o == 1 && c != 1:
				fmt.Printf("FAIL Submit racing Shutdown, round %d (depth %d): Submit of task %d returned normally but the task ran %d times\n", r, depth, i, c)
				return
			case o == 2 && c != 0:
				fmt.Printf("FAIL Submit racing Shutdown, round %d (depth %d): Submit of task %d panicked in its caller but the task ran %d times\n", r, depth, i, c)
				return
			case o != 1 && o != 2:
				fmt.Printf("FAIL Submit racing Shutdown, round %d (depth %d): Submit of task %d neither returned nor panicked\n", r, depth, i)
				return
			}
		}
	}
	fmt.Printf("ok rounds=%d submitters=%d\n", rounds, subs)
}
