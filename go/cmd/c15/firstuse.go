package main

import (
	"fmt"
	"os"
	"runtime"
	"sync"
	"sync/atomic"
	"time"

	"github.com/richardwilkes/toolbox/taskqueue"
	"verifharness/hx"
)

// Simultaneous FIRST use of fresh queues (a line of area stress):
//
//	first <workers> <gomaxprocs> <racers> <rounds> <seed>
//
// In every round a fresh queue is made and `racers` goroutines, released together from a barrier (channel close, then a bounded spin to a common instant), each submit two
// short tasks as the very first calls the queue sees; when they are done Shutdown is called.  Judged per round like the
// other stress lines: every task ran exactly once and had finished when Shutdown returned, nothing ran afterwards, never
// more than `workers` tasks at the same instant.  (Whatever New leaves to be set up on first use — a dispatcher started
// lazily, say — is set up under the heaviest contention the API allows: seeded/ind6-c15-a.)
func firstUseChild(args []string) {
	if len(args) != 5 {
		fmt.Println("FAIL bad child arguments")
		return
	}
	workers, procs, racers, rounds := hx.Atoi(args[0]), hx.Atoi(args[1]), hx.Atoi(args[2]), hx.Atoi(args[3])
	rr := hx.NewRng(uint64(hx.Atoi(args[4])))
	runtime.GOMAXPROCS(procs)
	var round atomic.Int32
	go func() {
		start := time.Now()
		last, since := round.Load(), time.Now()
		for {
			time.Sleep(100 * time.Millisecond)
			if cur := round.Load(); cur != last {
				last, since = cur, time.Now()
			}
			if time.Since(since) > 3*time.Second || time.Since(start) > 40*time.Second {
				break
			}
		}
		fmt.Printf("FAIL hang: round %d of simultaneous first use did not end within 3s (Submit or Shutdown blocked)\n", round.Load())
		os.Exit(0)
	}()
	n := racers * 2
	for r := 0; r < rounds; r++ {
		round.Store(int32(r))
		depth := []int{-1, 0, 1, 3}[rr.Intn(4)]
		q := taskqueue.New(taskqueue.Workers(workers), taskqueue.Depth(depth))
		ran := make([]atomic.Int32, n)
		var running, maxRunning, ready atomic.Int32
		var releaseAt atomic.Int64
		start := make(chan struct{})
		spin := rr.Intn(3)
		var wg sync.WaitGroup
		for g := 0; g < racers; g++ {
			wg.Add(1)
			go func(g int) {
				defer wg.Done()
				// barrier: wake up on the close of `start`, then spin (bounded: 300 microseconds) to a common instant
				ready.Add(1)
				<-start
				for at := releaseAt.Load(); time.Now().UnixNano() < at; {
				}
				for k := 0; k < 2; k++ {
					id := g*2 + k
					q.Submit(func() {
						cur := running.Add(1)
						for {
							m := maxRunning.Load()
							if cur <= m || maxRunning.CompareAndSwap(m, cur) {
								break
							}
						}
						for i := 0; i <= spin; i++ {
							runtime.Gosched()
						}
						ran[id].Add(1)
						running.Add(-1)
					})
				}
			}(g)
		}
		for int(ready.Load()) < racers {
			runtime.Gosched()
		}
		releaseAt.Store(time.Now().UnixNano() + 300000)
		close(start)
		wg.Wait()
		q.Shutdown()
		atReturn := 0
		for i := range ran {
			atReturn += int(ran[i].Load())
		}
		if atReturn != n {
			fmt.Printf("FAIL simultaneous first use, round %d (depth %d): Shutdown returned when %d of %d tasks had finished\n", r, depth, atReturn, n)
			return
		}
		for i := 0; i < 3; i++ {
			runtime.Gosched()
		}
		for i := range ran {
			if c := ran[i].Load(); c != 1 {
				fmt.Printf("FAIL simultaneous first use, round %d (depth %d): task %d ran %d times\n", r, depth, i, c)
				return
			}
		}
		if m := int(maxRunning.Load()); m > workers {
			fmt.Printf("FAIL simultaneous first use, round %d (depth %d): %d tasks were running at the same instant with %d workers\n", r, depth, m, workers)
			return
		}
	}
	fmt.Printf("ok rounds=%d racers=%d\n", rounds, racers)
}
