package main

import (
	"fmt"
	"runtime"
	"strconv"
	"strings"

	"github.com/richardwilkes/toolbox/errs"
)

// Panic values of panicking tasks. The model treats them all alike: whatever a task panics with, the recovery handler
// (if there is one) is called exactly once, with a non-nil error, and the worker goes on.
//
//	p plain error (pointer to a harness type)   s string                      r runtime error: nil map write
//	x runtime error: index out of range         e non-nil *errs.Error         z typed-nil *errs.Error
//	f typed-nil foreign pointer error           w error wrapping *errs.Error  0 panic(nil) (*runtime.PanicNilError)
//	v struct value
const valueKinds = "psrxezfw0v"

type panicErr struct{ id int }

func (p *panicErr) Error() string {
	if p == nil {
		return "typed-nil harness error"
	}
	return marker(p.id)
}

type panicStruct struct {
	ID     int
	Marker string
}

func marker(id int) string { return "task-marker-" + strconv.Itoa(id) + "!" }

// hasText: the rendering of the reported error must mention the marker of the task.
func hasText(kind byte) bool { return strings.IndexByte("psewv", kind) >= 0 }

func panicWith(kind byte, id int) {
	switch kind {
	case 's':
		panic(marker(id))
	case 'r':
		var m map[int]int
		m[id] = 1
	case 'x':
		var a []int
		a[id] = 1
	case 'e':
		panic(errs.New(marker(id)))
	case 'z':
		var e *errs.Error // e.g. the nil result of an errs.Append accumulation
		panic(e)
	case 'f':
		var p *panicErr
		panic(p)
	case 'w':
		panic(fmt.Errorf("%s: %w", marker(id), errs.New("inner")))
	case '0':
		var v any
		panic(v)
	case 'v':
		panic(panicStruct{ID: id, Marker: marker(id)})
	default:
		panic(&panicErr{id: id})
	}
	panic("unreachable: kind " + string(kind) + " did not panic")
}

// errText renders an error the way a log would (never panics itself).
func errText(err error) (s string) {
	defer func() {
		if r := recover(); r != nil {
			s = fmt.Sprint("<rendering panicked: ", r, ">")
		}
	}()
	return err.Error() + "\n" + fmt.Sprintf("%+v", err)
}

// curGID is the id of the calling goroutine. The recovery handler runs on the worker goroutine that ran the panicking
// task, which is how a handler call is attributed to its task whatever the panic value is.
func curGID() int64 {
	var buf [64]byte
	n := runtime.Stack(buf[:], false)
	f := strings.Fields(string(buf[:n]))
	if len(f) < 2 {
		return -1
	}
	id, err := strconv.ParseInt(f[1], 10, 64)
	if err != nil {
		return -1
	}
	return id
}
