// Harness for C15 (task queue): area `forced` (forced schedules, compared with the Lean model through drv_c15) and
// area `stress` (random stress in child processes, judged on the event log), area `recovery` (errs.Recovery called
// directly) and area `probe` (situations outside the domain, transcribed and not judged),
// area `cfg` (what New makes of its options, compared with Model/TaskQueueNew.lean).
package main

import (
	"os"
	"syscall"

	"verifharness/hx"
)

func main() {
	// a queue with an enormous Depth must not allocate it: with a cap on the address space an attempt to do so fails at
	// once (process death, reported as a violation) instead of reserving tens of gigabytes
	_ = syscall.Setrlimit(syscall.RLIMIT_AS, &syscall.Rlimit{Cur: 6 << 30, Max: 6 << 30})
	if len(os.Args) >= 2 && os.Args[1] == "child-stress" {
		stressChild(os.Args[2:])
		return
	}
	if len(os.Args) >= 2 && os.Args[1] == "child-first" {
		firstUseChild(os.Args[2:])
		return
	}
	if len(os.Args) >= 2 && os.Args[1] == "child-race" {
		raceChild(os.Args[2:])
		return
	}
	if len(os.Args) >= 3 && os.Args[1] == "child-probe" {
		probeChild(os.Args[2])
		return
	}
	hx.Main(map[string]hx.Area{"forced": &forcedArea{}, "stress": stressArea{}, "recovery": recoveryArea{},
		"probe": probeArea{}, "cfg": cfgArea{}})
}
