// Harness for C15 (task queue): area `forced` (forced schedules, compared with the Lean model through drv_c15) and
// area `stress` (random stress in child processes, judged on the event log), area `recovery` (errs.Recovery called
// directly) and area `probe` (situations outside the domain, transcribed and not judged).
package main

import (
	"os"

	"verifharness/hx"
)

func main() {
	if len(os.Args) >= 2 && os.Args[1] == "child-stress" {
		stressChild(os.Args[2:])
		return
	}
	if len(os.Args) >= 3 && os.Args[1] == "child-probe" {
		probeChild(os.Args[2])
		return
	}
	hx.Main(map[string]hx.Area{"forced": &forcedArea{}, "stress": stressArea{}, "recovery": recoveryArea{},
		"probe": probeArea{}})
}
