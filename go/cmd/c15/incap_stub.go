//go:build nooverlay

package main

import "github.com/richardwilkes/toolbox/taskqueue"

// Black-box build (the overlay did not compile against the working tree, e.g. the private field was renamed): the queue
// keeps the `in` channel that New gives it; the check measures its capacity (measureInCap) and tells the model.
const overlayBuild = false

func withInCap(opts []taskqueue.Option, _ int) []taskqueue.Option { return opts }

func queueFields(*taskqueue.Queue) (workers, depth, inCap int, handler bool) { return 0, 0, 0, false }
