//go:build !nooverlay

package main

import "github.com/richardwilkes/toolbox/taskqueue"

// White-box build: the capacity of the `in` channel is set through the option injected by go/overlay/c15_incap.go.
const overlayBuild = true

func withInCap(opts []taskqueue.Option, n int) []taskqueue.Option {
	return append(opts, taskqueue.VerifInCap(n))
}

func queueFields(q *taskqueue.Queue) (workers, depth, inCap int, handler bool) {
	return taskqueue.VerifFields(q)
}
