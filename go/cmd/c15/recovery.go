package main

import (
	"fmt"
	"strconv"
	"strings"

	"github.com/richardwilkes/toolbox/errs"
	"verifharness/hx"
)

// Area `recovery`: errs.Recovery called directly, the way its documentation shows (`defer errs.Recovery(handler)`), for
// every kind of panic value (and no panic at all) and every kind of handler: recording, nil, and a handler that itself
// panics with each kind of value.  Judged by the harness: nothing escapes, the handler is called exactly once per panic
// (never without one), with a non-nil error that mentions the text of the panic value where it has text.
//
//	rec <value kind | n> <handler 0 recording | 2 nil | 3 panicking> <value kind the handler panics with>
type recoveryArea struct{}

func (recoveryArea) Gen(_ *hx.Rng, n int, _ string, emit func(string)) {
	var all []string
	for _, k := range "n" + valueKinds {
		all = append(all, fmt.Sprintf("rec %c 0 p", k), fmt.Sprintf("rec %c 2 p", k))
		for _, hk := range valueKinds {
			all = append(all, fmt.Sprintf("rec %c 3 %c", k, hk))
		}
	}
	for i := 0; i < n; i++ {
		emit(all[i%len(all)])
	}
}

func (recoveryArea) Run(line string) string {
	f := strings.Fields(line)
	if len(f) != 4 || f[0] != "rec" || len(f[1]) != 1 || len(f[3]) != 1 {
		return "bad-op"
	}
	kind, hmode, hkind := f[1][0], hx.Atoi(f[2]), f[3][0]
	const id = 7
	calls := 0
	var got error
	var h errs.RecoveryHandler
	switch hmode {
	case 0:
		h = func(e error) { calls++; got = e }
	case 3:
		h = func(e error) { calls++; got = e; panicWith(hkind, 9999) }
	}
	reached := false
	escaped := func() (esc any) {
		defer func() { esc = recover() }()
		func() {
			defer errs.Recovery(h)
			if kind != 'n' {
				panicWith(kind, id)
			}
		}()
		reached = true // the function that deferred Recovery returned normally to its caller
		return nil
	}()
	var bad []string
	if escaped != nil {
		bad = append(bad, fmt.Sprintf("a panic escaped from the function that deferred errs.Recovery: %v", escaped))
	} else if !reached {
		bad = append(bad, "control did not return to the caller")
	}
	want := 0
	if kind != 'n' && h != nil {
		want = 1
	}
	if calls != want {
		bad = append(bad, "handler called "+strconv.Itoa(calls)+" times, expected "+strconv.Itoa(want))
	}
	if calls > 0 {
		if got == nil {
			bad = append(bad, "handler called with a nil error")
		} else if hasText(kind) && !strings.Contains(errText(got), marker(id)) {
			bad = append(bad, "the reported error does not mention the text of the panic value")
		}
	}
	if len(bad) > 0 {
		return "FAIL " + strings.Join(bad, "; ")
	}
	return "ok calls=" + strconv.Itoa(calls)
}
