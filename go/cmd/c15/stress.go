package main

import (
	"bytes"
	"context"
	"fmt"
	"math"
	"os"
	"os/exec"
	"runtime"
	"sort"
	"strings"
	"sync"
	"sync/atomic"
	"time"

	"github.com/richardwilkes/toolbox/taskqueue"
	"verifharness/hx"
)

// Random stress: one configuration per line, executed in a child process (a dispatcher crash or a hang must be seen as
// FAIL, not kill the check). The child records an event log with a global atomic sequence and checks the property
// directly on it.
//
//	run <workers> <depth> <gomaxprocs> <submitters> <tasks> <panic%> <handler mode> <inCap|-1> <pace 0|1> <seed>
//
// handler mode: 0 recording handler, 1 no RecoveryHandler option, 2 RecoveryHandler(nil), 3 handler that records and
// then panics for every second task.

type stressArea struct{}

var (
	stressWorkers = []int{1, 2, 5, 17}
	stressDepths  = []int{-1, 0, 1, 3, 100}
	stressProcs   = []int{1, 2, 4, 16}
)

func (stressArea) Gen(r *hx.Rng, n int, tier string, emit func(string)) {
	off := r.Intn(80)
	ncpu := runtime.NumCPU()
	for i := 0; i < n; i++ {
		k := (i + off) % 80 // all 80 combinations of workers x depth x GOMAXPROCS are visited in every 80 lines
		w := stressWorkers[k%4]
		d := stressDepths[(k/4)%5]
		p := stressProcs[(k/20)%4]
		subs := hx.Pick(r, []int{1, 1, 2, 3, 8})
		tasks := hx.Pick(r, []int{1, 7, 40, 120, 300})
		if tier == "thorough" && r.Chance(1, 10) {
			tasks = 2000
		}
		if i%40 == 13 {
			// simultaneous first use of fresh queues, many rounds in one child process
			fp := hx.Pick(r, []int{2, 4, 4, 16})
			rounds := 500
			if fp == 2 {
				rounds = 800 // with two Ps the racers overlap less often
			}
			emit(fmt.Sprintf("first %d %d %d %d %d", hx.Pick(r, []int{1, 1, 2, 5}), fp, hx.Pick(r, []int{2, 3, 4}), rounds,
				r.U64()%1000000))
			continue
		}
		if i%40 == 27 {
			// Submit racing Shutdown: accepted before the close, or a panic in the caller
			emit(fmt.Sprintf("race %d %d %d %d %d", hx.Pick(r, []int{1, 2, 5}), hx.Pick(r, []int{2, 4, 16}), hx.Pick(r, []int{1, 2, 4}),
				300, r.U64()%1000000))
			continue
		}
		flags := 0
		switch {
		case i%20 == 7:
			// a long burst on one worker with an unbounded backlog and completions interleaved with submissions: the
			// backlog grows past 16, 32, 64, ... entries after its head has moved (order must still be submission order)
			w, d = 1, hx.Pick(r, []int{-1, -1, math.MinInt64})
			subs = hx.Pick(r, []int{1, 2})
			tasks = hx.Pick(r, []int{300, 1000})
		case i%3 == 1:
			// wide family: boundary values of every numeric option, many submitters, sizes around growth thresholds
			w = hx.Pick(r, []int{0, 1, 2, 3, ncpu, ncpu + 1, 64})
			if w == 0 {
				flags |= flagNoWorkers // New without the Workers option (1 + NumCPU workers)
			}
			wd := w
			if wd == 0 {
				wd = ncpu + 1
			}
			d = hx.Pick(r, []int{-1, 0, 1, 2, wd - 1, wd, wd + 1, 10, 17, 1 << 20, math.MinInt64,
				hugeDepths[r.Intn(len(hugeDepths))], hugeDepths[r.Intn(len(hugeDepths))]})
			if r.Chance(1, 8) {
				d = -1
				flags |= flagNoDepth // New without the Depth option (unbounded)
			}
			subs = hx.Pick(r, []int{1, 2, 8, 32})
			tasks = hx.Pick(r, []int{0, 1, 16, 17, 33, 65, 129, 300, 1000})
		}
		if r.Chance(1, 6) {
			flags |= flagTwin
		}
		panicPct := hx.Pick(r, []int{0, 0, 5, 30, 100})
		hp := 0
		if panicPct > 0 {
			hp = hx.Pick(r, []int{0, 0, 1, 1, 2, 3})
		}
		inCap := hx.Pick(r, []int{-1, -1, 1, 2, 5})
		pace := 0
		if r.Chance(1, 4) || i%20 == 7 {
			pace = 1
		}
		emit(fmt.Sprintf("run %d %d %d %d %d %d %d %d %d %d %d", w, d, p, subs, tasks, panicPct, hp, inCap, pace,
			r.U64()%1000000, flags))
	}
}

// flags of a stress line (last field, optional)
const (
	flagNoWorkers = 1 // do not pass the Workers option (the bound `running <= Workers` is then not judged)
	flagNoDepth   = 2 // do not pass the Depth option
	flagTwin      = 4 // a second queue is built from the SAME option values and used concurrently (no shared state)
)

var stressFailures, stressHangs int

func (a stressArea) Run(line string) string {
	if stressFailures >= 4 || stressHangs >= 2 {
		// the verdict of the run is already FAIL (the first failures are reported); do not spend a watchdog period on
		// each of the remaining configurations
		return "ok skipped: configurations have already failed in this run (4 failures or 2 hangs)"
	}
	out := a.run1(line)
	if strings.HasPrefix(out, "FAIL") {
		stressFailures++
		if strings.HasPrefix(out, "FAIL hang") {
			stressHangs++
		}
	}
	return out
}

func (stressArea) run1(line string) string {
	f := strings.Fields(line)
	child, procs := "child-stress", ""
	if len(f) == 6 && f[0] == "first" {
		child, procs = "child-first", f[2] // simultaneous first use of fresh queues (firstuse.go)
	} else if len(f) == 6 && f[0] == "race" {
		child, procs = "child-race", f[2] // Submit racing Shutdown (firstuse.go)
	} else if (len(f) != 11 && len(f) != 12) || f[0] != "run" {
		return "bad-op"
	} else {
		procs = f[3]
	}
	ctx, cancel := context.WithTimeout(context.Background(), 60*time.Second)
	defer cancel()
	cmd := exec.CommandContext(ctx, os.Args[0], append([]string{child}, f[1:]...)...)
	cmd.Env = append(os.Environ(), "GOMAXPROCS="+procs, "GOTRACEBACK=single")
	var so, se bytes.Buffer
	cmd.Stdout = &so
	cmd.Stderr = &se
	err := cmd.Run()
	first := strings.TrimSpace(strings.SplitN(so.String(), "\n", 2)[0])
	if ctx.Err() != nil {
		return "FAIL hang: the child process did not end within 60s (" + first + ")"
	}
	if err != nil {
		msg := ""
		for _, l := range strings.Split(se.String(), "\n") {
			if strings.HasPrefix(l, "panic:") || strings.HasPrefix(l, "fatal error:") {
				msg = l
				break
			}
		}
		return "FAIL the process died: " + err.Error() + " " + msg
	}
	if first == "" {
		return "FAIL no verdict from the child process"
	}
	return first
}

func stressChild(args []string) {
	if len(args) != 10 && len(args) != 11 {
		fmt.Println("FAIL bad child arguments")
		return
	}
	flags := 0
	if len(args) == 11 {
		flags = hx.Atoi(args[10])
	}
	workers, depth, procs := hx.Atoi(args[0]), hx.Atoi(args[1]), hx.Atoi(args[2])
	subs, tasks, panicPct := hx.Atoi(args[3]), hx.Atoi(args[4]), hx.Atoi(args[5])
	mode, inCap, pace := hx.Atoi(args[6]), hx.Atoi(args[7]), args[8] == "1"
	handlerPanics := mode == 3
	seed := uint64(hx.Atoi(args[9]))
	runtime.GOMAXPROCS(procs)

	var seq atomic.Int64
	callSeq := make([]atomic.Int64, tasks)
	retSeq := make([]atomic.Int64, tasks)
	startSeq := make([]atomic.Int64, tasks)
	finSeq := make([]atomic.Int64, tasks)
	startCnt := make([]atomic.Int32, tasks)
	finCnt := make([]atomic.Int32, tasks)
	recCnt := make([]atomic.Int32, tasks)
	var badRec, nilRec, noMarker atomic.Int32
	var curTaskOf sync.Map // goroutine id -> id of the panicking task it is running
	var running, maxRunning atomic.Int32
	var shutCalled atomic.Int64

	panics := make([]bool, tasks)
	pkind := make([]byte, tasks) // panic value kind (values.go)
	kind := make([]int, tasks)
	amount := make([]int, tasks)
	rr := hx.NewRng(seed)
	for i := range panics {
		panics[i] = rr.Intn(100) < panicPct
		pkind[i] = valueKinds[rr.Intn(len(valueKinds))]
		kind[i] = rr.Intn(5)
		amount[i] = rr.Intn(200)
	}

	sum := func(a []atomic.Int32) int {
		n := 0
		for i := range a {
			n += int(a[i].Load())
		}
		return n
	}
	go func() { // watchdog: a hang is a failure of the property (Shutdown must return), reported with the state reached
		// hang = the event sequence has not advanced for 3 s (a slow machine still makes progress), or 40 s in total
		start := time.Now()
		last, since := seq.Load(), time.Now()
		for {
			time.Sleep(100 * time.Millisecond)
			if cur := seq.Load(); cur != last {
				last, since = cur, time.Now()
			}
			if time.Since(since) > 3*time.Second || time.Since(start) > 40*time.Second {
				break
			}
		}
		returned := 0
		for i := range retSeq {
			if retSeq[i].Load() != 0 {
				returned++
			}
		}
		fmt.Printf("FAIL hang: no event for 3s (%.0fs after the start): %d/%d Submit calls returned, %d tasks started, %d finished, Shutdown called=%v and not returned\n",
			time.Since(start).Seconds(), returned, tasks, sum(startCnt), sum(finCnt), shutCalled.Load() != 0)
		os.Exit(0)
	}()

	var opts []taskqueue.Option
	if flags&flagNoWorkers == 0 {
		opts = append(opts, taskqueue.Workers(workers))
	}
	if flags&flagNoDepth == 0 {
		opts = append(opts, taskqueue.Depth(depth))
	}
	handler := func(err error) {
		// the handler runs on the worker goroutine that ran the panicking task
		v, ok := curTaskOf.Load(curGID())
		if !ok {
			badRec.Add(1)
			return
		}
		id := v.(int)
		recCnt[id].Add(1)
		if err == nil {
			nilRec.Add(1)
		} else if hasText(pkind[id]) && !strings.Contains(errText(err), marker(id)) {
			noMarker.Add(1)
		}
		if handlerPanics && id%2 == 0 {
			panic("bad recovery handler")
		}
	}
	switch mode {
	case 1: // the default: no handler, panics are swallowed silently
	case 2:
		opts = append(opts, taskqueue.RecoveryHandler(nil))
	default:
		opts = append(opts, taskqueue.RecoveryHandler(handler))
	}
	if inCap > 0 {
		opts = withInCap(opts, inCap) // black-box build: the capacity New chose
	}
	q := taskqueue.New(opts...)

	mk := func(id int) taskqueue.Task {
		return func() {
			cur := running.Add(1)
			for {
				m := maxRunning.Load()
				if cur <= m || maxRunning.CompareAndSwap(m, cur) {
					break
				}
			}
			startCnt[id].Add(1)
			startSeq[id].Store(seq.Add(1))
			switch kind[id] {
			case 0:
			case 1:
				for i := 0; i <= amount[id]%3; i++ {
					runtime.Gosched()
				}
			case 2:
				time.Sleep(time.Duration(amount[id]) * time.Microsecond)
			case 3:
				x := 0
				for i := 0; i < amount[id]*50; i++ {
					x += i
				}
				_ = x
			case 4:
				runtime.Gosched()
			}
			finSeq[id].Store(seq.Add(1))
			finCnt[id].Add(1)
			running.Add(-1)
			if panics[id] {
				curTaskOf.Store(curGID(), id)
				panicWith(pkind[id], id)
			}
		}
	}

	var wg sync.WaitGroup
	var nextTask atomic.Int32
	for s := 0; s < subs; s++ {
		wg.Add(1)
		go func(s int) {
			defer wg.Done()
			pr := hx.NewRng(seed*31 + uint64(s))
			for {
				id := int(nextTask.Add(1)) - 1
				if id >= tasks {
					return
				}
				callSeq[id].Store(seq.Add(1))
				q.Submit(mk(id))
				retSeq[id].Store(seq.Add(1))
				if pace && pr.Chance(1, 4) {
					time.Sleep(time.Duration(pr.Intn(300)) * time.Microsecond)
				}
			}
		}(s)
	}
	var twinRan []atomic.Int32
	twinDone := make(chan struct{})
	if flags&flagTwin != 0 {
		// a second queue from the same option values, used while the first one is busy
		twinRan = make([]atomic.Int32, 12)
		q2 := taskqueue.New(opts...)
		go func() {
			for i := range twinRan {
				q2.Submit(func() { twinRan[i].Add(1) })
			}
			q2.Shutdown()
			close(twinDone)
		}()
	} else {
		close(twinDone)
	}
	// Shutdown is called from a goroutine of its own as soon as the last Submit has returned (Submit concurrent with or
	// after Shutdown is outside the domain: it panics with "send on closed channel" by construction)
	shutDone := make(chan int64)
	go func() {
		wg.Wait()
		shutCalled.Store(seq.Add(1))
		q.Shutdown() // races the last completions
		shutDone <- seq.Add(1)
	}()
	shutRet := <-shutDone
	<-twinDone
	startsAtReturn, finAtReturn := sum(startCnt), sum(finCnt)
	time.Sleep(3 * time.Millisecond)

	var fails []string
	fail := func(format string, a ...any) {
		if len(fails) < 3 {
			fails = append(fails, fmt.Sprintf(format, a...))
		}
	}
	if finAtReturn != tasks {
		fail("Shutdown returned when %d of %d tasks had finished", finAtReturn, tasks)
	}
	if s2, f2 := sum(startCnt), sum(finCnt); s2 != startsAtReturn || f2 != finAtReturn {
		fail("tasks ran after Shutdown returned (starts %d->%d, finishes %d->%d)", startsAtReturn, s2, finAtReturn, f2)
	}
	for id := 0; id < tasks; id++ {
		if c := startCnt[id].Load(); c != 1 {
			fail("task %d started %d times", id, c)
		}
		if c := finCnt[id].Load(); c != 1 {
			fail("task %d finished %d times", id, c)
		}
		if fs := finSeq[id].Load(); fs == 0 || fs > shutRet {
			fail("task %d finished after Shutdown returned (or never)", id)
		}
		want := int32(0)
		if panics[id] && mode != 1 && mode != 2 {
			want = 1
		}
		if c := recCnt[id].Load(); c != want {
			fail("task %d (panics=%v, panic value kind %c) was reported to the recovery handler %d times, expected %d", id,
				panics[id], pkind[id], c, want)
		}
	}
	if badRec.Load() != 0 {
		fail("recovery handler called %d times on a goroutine that was not running a panicking task", badRec.Load())
	}
	if nilRec.Load() != 0 {
		fail("recovery handler called %d times with a nil error", nilRec.Load())
	}
	if noMarker.Load() != 0 {
		fail("%d reported errors do not mention the text of the panic value", noMarker.Load())
	}
	for i := range twinRan {
		if c := twinRan[i].Load(); c != 1 {
			fail("twin queue built from the same options: task %d ran %d times", i, c)
		}
	}
	if m := int(maxRunning.Load()); flags&flagNoWorkers == 0 && m > workers {
		fail("%d tasks were running at the same instant with %d workers", m, workers)
	}
	if workers == 1 && flags&flagNoWorkers == 0 {
		// order consistent with submission: Submit(a) returned before Submit(b) was called => a starts before b
		order := make([]int, 0, tasks)
		for id := 0; id < tasks; id++ {
			if startCnt[id].Load() == 1 {
				order = append(order, id)
			}
		}
		sort.Slice(order, func(i, j int) bool { return startSeq[order[i]].Load() < startSeq[order[j]].Load() })
		minRet := int64(1) << 62
		minID := -1
		for i := len(order) - 1; i >= 0; i-- {
			id := order[i]
			if minRet < callSeq[id].Load() {
				fail("one worker: task %d ran before task %d although Submit(%d) had returned before Submit(%d) was called", id, minID, minID, id)
				break
			}
			if rs := retSeq[id].Load(); rs < minRet {
				minRet, minID = rs, id
			}
		}
	}
	if len(fails) > 0 {
		fmt.Println("FAIL " + strings.Join(fails, "; "))
		return
	}
	fmt.Printf("ok tasks=%d maxrunning=%d panics-reported=%d\n", tasks, maxRunning.Load(), sum(recCnt))
}
