package main

import (
	"bytes"
	"context"
	"fmt"
	"os"
	"os/exec"
	"runtime"
	"strings"
	"sync"
	"sync/atomic"
	"time"

	"github.com/richardwilkes/toolbox/taskqueue"
	"verifharness/hx"
)

// Area `probe`: situations OUTSIDE the domain of the property (it speaks of tasks that return or panic, of submitters
// that are not tasks of the same queue).  They are transcribed, not judged: each line
// runs in a child process with deadlines and answers `obs …` with what the code did; the check stores the answers in the
// evidence (coverage.observations).
type probeArea struct{}

var probeNames = []string{"goexit", "reentrant-unbounded", "reentrant-bounded", "reentrant-depth0"}

func (probeArea) Gen(_ *hx.Rng, n int, _ string, emit func(string)) {
	for i := 0; i < n; i++ {
		emit("probe " + probeNames[i%len(probeNames)])
	}
}

func (probeArea) Run(line string) string {
	f := strings.Fields(line)
	if len(f) != 2 || f[0] != "probe" {
		return "bad-op"
	}
	ctx, cancel := context.WithTimeout(context.Background(), 20*time.Second)
	defer cancel()
	cmd := exec.CommandContext(ctx, os.Args[0], "child-probe", f[1])
	cmd.Env = append(os.Environ(), "GOTRACEBACK=single")
	var so, se bytes.Buffer
	cmd.Stdout = &so
	cmd.Stderr = &se
	err := cmd.Run()
	first := strings.TrimSpace(strings.SplitN(so.String(), "\n", 2)[0])
	if err != nil {
		msg := ""
		for _, l := range strings.Split(se.String(), "\n") {
			if strings.HasPrefix(l, "panic:") || strings.HasPrefix(l, "fatal error:") {
				msg = l
				break
			}
		}
		return "obs " + f[1] + ": the process died (" + err.Error() + ") " + msg
	}
	return "obs " + f[1] + ": " + first
}

func waitOr(d time.Duration, f func()) bool {
	done := make(chan struct{})
	go func() { f(); close(done) }()
	select {
	case <-done:
		return true
	case <-time.After(d):
		return false
	}
}

func probeChild(name string) {
	switch name {
	case "goexit":
		// a task that calls runtime.Goexit: neither a return nor a panic
		var ran, recovered atomic.Int32
		q := taskqueue.New(taskqueue.Workers(2), taskqueue.Depth(-1),
			taskqueue.RecoveryHandler(func(error) { recovered.Add(1) }))
		for i := 0; i < 6; i++ {
			q.Submit(func() {
				ran.Add(1)
				if i == 1 {
					runtime.Goexit()
				}
			})
		}
		returned := waitOr(700*time.Millisecond, q.Shutdown)
		fmt.Printf("2 workers, 6 tasks, task 1 calls runtime.Goexit: %d tasks ran, handler calls %d, Shutdown returned within 0.7s: %v\n",
			ran.Load(), recovered.Load(), returned)
	case "reentrant-unbounded", "reentrant-bounded", "reentrant-depth0":
		// tasks that Submit to their own queue while other goroutines keep the small `in` channel full
		depth := map[string]int{"reentrant-unbounded": -1, "reentrant-bounded": 1, "reentrant-depth0": 0}[name]
		var ran atomic.Int32
		q := taskqueue.New(withInCap([]taskqueue.Option{taskqueue.Workers(1), taskqueue.Depth(depth)}, 1)...)
		const outer = 200
		var wg, nested sync.WaitGroup
		for s := 0; s < 4; s++ {
			wg.Add(1)
			go func() {
				defer wg.Done()
				for i := 0; i < outer/4; i++ {
					nested.Add(1)
					q.Submit(func() {
						ran.Add(1)
						time.Sleep(30 * time.Microsecond) // lets the dispatcher get ahead of the task
						q.Submit(func() { ran.Add(1) })   // the task is a submitter of its own queue
						nested.Done()
					})
				}
			}()
		}
		limit := time.Second
		if depth < 0 {
			limit = 5 * time.Second // ends as soon as everything has run
		}
		ok := waitOr(limit, func() { wg.Wait(); nested.Wait() })
		returned := false
		if ok {
			returned = waitOr(time.Second, q.Shutdown)
		}
		fmt.Printf("1 worker, depth %d, in-capacity 1, 4 submitters, %d tasks each submitting one more: all Submit calls returned within the deadline (1s, unbounded 5s): %v, %d of %d tasks ran, Shutdown returned: %v\n",
			depth, outer, ok, ran.Load(), 2*outer, returned)
	default:
		fmt.Println("unknown probe")
	}
}
