package main

import (
	"fmt"
	"math"
	"runtime"
	"strconv"
	"strings"

	"github.com/richardwilkes/toolbox/taskqueue"
	"verifharness/hx"
)

// Area cfg: what New makes of its options.
//
//	cfg <ncpu> <option>*      option = w=<int> Workers | d=<int> Depth | h=0 RecoveryHandler(nil) | h=1 RecoveryHandler(f)
//
// The real New is called with the options in the given order; the fields of the queue it returns (white-box accessor
// taskqueue.VerifFields, injected with -overlay) are printed and compared with Model/TaskQueueNew.lean; the queue is then
// shut down (so every configuration is also started and stopped once).  <ncpu> tells the model the number of CPUs; the
// generator writes runtime.NumCPU() there (a line written on another machine answers `other-machine`).
type cfgArea struct{}

func (cfgArea) Gen(r *hx.Rng, n int, tier string, emit func(string)) {
	ncpu := runtime.NumCPU()
	ws := []int{math.MinInt64, -5, -1, 0, 1, 2, 3, ncpu - 1, ncpu, ncpu + 1, ncpu + 2, 64}
	ds := []int{math.MinInt64, -2, -1, 0, 1, 2, 100, 1023, 1024, 1025, 1 << 40, math.MaxInt64}
	for i := 0; i < n; i++ {
		k := r.Intn(6)
		if i%7 == 0 {
			k = 0
		}
		var opts []string
		for j := 0; j < k; j++ {
			switch r.Intn(3) {
			case 0:
				opts = append(opts, "w="+strconv.Itoa(hx.Pick(r, ws)))
			case 1:
				opts = append(opts, "d="+strconv.Itoa(hx.Pick(r, ds)))
			default:
				opts = append(opts, "h="+strconv.Itoa(r.Intn(2)))
			}
		}
		emit(strings.TrimSpace(fmt.Sprintf("cfg %d %s", ncpu, strings.Join(opts, " "))))
	}
}

func (cfgArea) Run(line string) string {
	f := strings.Fields(line)
	if len(f) < 2 || f[0] != "cfg" {
		return "bad-op"
	}
	if !overlayBuild {
		return "no-overlay"
	}
	if n, err := strconv.Atoi(f[1]); err != nil || n < 0 {
		return "bad-op"
	} else if n != runtime.NumCPU() {
		return "other-machine"
	}
	var opts []taskqueue.Option
	for _, o := range f[2:] {
		kv := strings.SplitN(o, "=", 2)
		if len(kv) != 2 {
			return "bad-op"
		}
		v, err := strconv.Atoi(kv[1])
		if err != nil {
			return "bad-op"
		}
		switch {
		case kv[0] == "w":
			if v > 1<<16 {
				return "bad-op" // that many goroutines are not started by a test
			}
			opts = append(opts, taskqueue.Workers(v))
		case kv[0] == "d":
			opts = append(opts, taskqueue.Depth(v))
		case kv[0] == "h" && v == 0:
			opts = append(opts, taskqueue.RecoveryHandler(nil))
		case kv[0] == "h" && v == 1:
			opts = append(opts, taskqueue.RecoveryHandler(func(error) {}))
		default:
			return "bad-op"
		}
	}
	q := taskqueue.New(opts...)
	w, d, c, h := queueFields(q)
	ran := 0
	q.Submit(func() { ran++ })
	q.Shutdown()
	if ran != 1 {
		return fmt.Sprintf("workers=%d depth=%d incap=%d handler=%v ran=%d", w, d, c, h, ran)
	}
	return fmt.Sprintf("workers=%d depth=%d incap=%d handler=%v", w, d, c, h)
}
