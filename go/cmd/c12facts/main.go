// c12facts <repo> <out.lean> — reads from the Go source of package log/rotation of the working tree WHICH file-system
// calls the package makes, and writes them as Lean tables (lean/Generated/RotationCalls.lean; Props/C12Calls.lean decides
// that they are exactly the calls the failing-file-system model `Rot.Sys` quantifies over).  Standard library only
// (go/parser, go/ast); no type checking:
//
//   - osCalls: every function of package "os" that is called anywhere in the package (non-test files), by name;
//   - fileCalls: every method called on an *os.File: on a struct field declared `*os.File`, or on a local variable that
//     was assigned from such a field or from os.OpenFile / os.Open / os.Create, or on a parameter of that type;
//   - openFlags: for every os.OpenFile call the os.O_* constants or-ed together in its flag argument ("?other" if the
//     argument is anything else).
//
// The tables are SETS (sorted, without repetition): splitting Write/rotate into helpers, renaming fields or locals,
// reordering the flag constants changes nothing.  A new call (os.Chmod, os.Truncate, (*os.File).Seek, …) or a dropped
// one changes the table, and the tie theorems no longer check.
package main

import (
	"encoding/json"
	"fmt"
	"go/ast"
	"go/parser"
	"go/token"
	"os"
	"path/filepath"
	"sort"
	"strconv"
	"strings"
)

func isOsFileType(e ast.Expr, osName string) bool {
	st, ok := e.(*ast.StarExpr)
	if !ok {
		return false
	}
	sel, ok := st.X.(*ast.SelectorExpr)
	if !ok {
		return false
	}
	id, ok := sel.X.(*ast.Ident)
	return ok && id.Name == osName && sel.Sel.Name == "File"
}

func sortedKeys(m map[string]bool) []string {
	out := make([]string, 0, len(m))
	for k := range m {
		out = append(out, k)
	}
	sort.Strings(out)
	return out
}

func leanList(xs []string) string {
	q := make([]string, len(xs))
	for i, x := range xs {
		q[i] = strconv.Quote(x)
	}
	return "[" + strings.Join(q, ", ") + "]"
}

func main() {
	if len(os.Args) != 3 {
		fmt.Fprintln(os.Stderr, "usage: c12facts <repo> <out.lean>")
		os.Exit(2)
	}
	dir := filepath.Join(os.Args[1], "log", "rotation")
	fset := token.NewFileSet()
	pkgs, err := parser.ParseDir(fset, dir, func(fi os.FileInfo) bool { return !strings.HasSuffix(fi.Name(), "_test.go") }, 0)
	if err != nil {
		fmt.Fprintln(os.Stderr, "parse:", err)
		os.Exit(1)
	}
	pkg := pkgs["rotation"]
	if pkg == nil {
		fmt.Fprintln(os.Stderr, "package rotation not found in", dir)
		os.Exit(1)
	}
	osCalls, fileCalls := map[string]bool{}, map[string]bool{}
	var openFlags [][]string
	fileFields := map[string]bool{}
	osNames := map[*ast.File]string{}
	var files []*ast.File
	for _, name := range func() []string {
		var ns []string
		for n := range pkg.Files {
			ns = append(ns, n)
		}
		sort.Strings(ns)
		return ns
	}() {
		f := pkg.Files[name]
		files = append(files, f)
		osName := ""
		for _, im := range f.Imports {
			if im.Path.Value == `"os"` {
				osName = "os"
				if im.Name != nil {
					osName = im.Name.Name
				}
			}
		}
		osNames[f] = osName
		if osName == "" {
			continue
		}
		ast.Inspect(f, func(n ast.Node) bool {
			if st, ok := n.(*ast.StructType); ok {
				for _, fld := range st.Fields.List {
					if isOsFileType(fld.Type, osName) {
						for _, nm := range fld.Names {
							fileFields[nm.Name] = true
						}
					}
				}
			}
			return true
		})
	}
	for _, f := range files {
		osName := osNames[f]
		if osName == "" {
			continue
		}
		isOsCall := func(e ast.Expr, names ...string) bool {
			c, ok := e.(*ast.CallExpr)
			if !ok {
				return false
			}
			sel, ok := c.Fun.(*ast.SelectorExpr)
			if !ok {
				return false
			}
			id, ok := sel.X.(*ast.Ident)
			if !ok || id.Name != osName {
				return false
			}
			for _, n := range names {
				if sel.Sel.Name == n {
					return true
				}
			}
			return false
		}
		isFileExpr := func(e ast.Expr, tracked map[string]bool) bool {
			switch x := e.(type) {
			case *ast.Ident:
				return tracked[x.Name]
			case *ast.SelectorExpr:
				return fileFields[x.Sel.Name]
			}
			return false
		}
		for _, d := range f.Decls {
			fd, ok := d.(*ast.FuncDecl)
			if !ok || fd.Body == nil {
				continue
			}
			tracked := map[string]bool{}
			if fd.Type.Params != nil {
				for _, p := range fd.Type.Params.List {
					if isOsFileType(p.Type, osName) {
						for _, nm := range p.Names {
							tracked[nm.Name] = true
						}
					}
				}
			}
			// locals that hold the file: two passes so that the order of statements does not matter
			for pass := 0; pass < 2; pass++ {
				ast.Inspect(fd.Body, func(n ast.Node) bool {
					as, ok := n.(*ast.AssignStmt)
					if !ok {
						return true
					}
					for i, rhs := range as.Rhs {
						if i >= len(as.Lhs) {
							break
						}
						if isFileExpr(rhs, tracked) || isOsCall(rhs, "OpenFile", "Open", "Create") {
							if id, ok := as.Lhs[i].(*ast.Ident); ok && id.Name != "_" {
								tracked[id.Name] = true
							}
						}
					}
					return true
				})
			}
			ast.Inspect(fd.Body, func(n ast.Node) bool {
				c, ok := n.(*ast.CallExpr)
				if !ok {
					return true
				}
				sel, ok := c.Fun.(*ast.SelectorExpr)
				if !ok {
					return true
				}
				if id, ok := sel.X.(*ast.Ident); ok && id.Name == osName && !tracked[id.Name] {
					osCalls[sel.Sel.Name] = true
					if sel.Sel.Name == "OpenFile" && len(c.Args) >= 2 {
						fl := map[string]bool{}
						var walk func(e ast.Expr)
						walk = func(e ast.Expr) {
							switch x := e.(type) {
							case *ast.BinaryExpr:
								if x.Op == token.OR {
									walk(x.X)
									walk(x.Y)
									return
								}
							case *ast.ParenExpr:
								walk(x.X)
								return
							case *ast.SelectorExpr:
								if q, ok := x.X.(*ast.Ident); ok && q.Name == osName && strings.HasPrefix(x.Sel.Name, "O_") {
									fl[x.Sel.Name] = true
									return
								}
							}
							fl["?other"] = true
						}
						walk(c.Args[1])
						openFlags = append(openFlags, sortedKeys(fl))
					}
					return true
				}
				if isFileExpr(sel.X, tracked) {
					fileCalls[sel.Sel.Name] = true
				}
				return true
			})
		}
	}
	sort.Slice(openFlags, func(i, j int) bool { return strings.Join(openFlags[i], "|") < strings.Join(openFlags[j], "|") })
	var sb strings.Builder
	sb.WriteString("/-! generated by go/cmd/c12facts from log/rotation of the working tree on every run of `./check C12` — do not edit -/\n")
	sb.WriteString("namespace RotationCalls\n\n")
	sb.WriteString("/-- the functions of package os that package rotation calls -/\n")
	sb.WriteString("def osCalls : List String := " + leanList(sortedKeys(osCalls)) + "\n\n")
	sb.WriteString("/-- the methods of *os.File that package rotation calls -/\n")
	sb.WriteString("def fileCalls : List String := " + leanList(sortedKeys(fileCalls)) + "\n\n")
	sb.WriteString("/-- the os.O_* constants of the flag argument of every os.OpenFile call -/\n")
	fls := make([]string, len(openFlags))
	for i, fl := range openFlags {
		fls[i] = leanList(fl)
	}
	sb.WriteString("def openFlags : List (List String) := [" + strings.Join(fls, ", ") + "]\n\n")
	sb.WriteString("end RotationCalls\n")
	if err := os.WriteFile(os.Args[2], []byte(sb.String()), 0o644); err != nil {
		fmt.Fprintln(os.Stderr, "write:", err)
		os.Exit(1)
	}
	js, _ := json.Marshal(map[string]any{"osCalls": sortedKeys(osCalls), "fileCalls": sortedKeys(fileCalls), "openFlags": openFlags,
		"fileFields": sortedKeys(fileFields)})
	fmt.Println(string(js))
}
