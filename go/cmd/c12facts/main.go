// c12facts <repo> <out.lean> — reads from the Go source of package log/rotation of the working tree WHICH file-system
// calls the package makes, and writes them as Lean tables (lean/Generated/RotationCalls.lean; Props/C12Calls.lean decides
// that they are the calls the failing-file-system model `Rot.Sys` quantifies over).  The package is TYPE-CHECKED
// (go/types; the standard library through the compiler's export data, the other imports as empty packages — enough to
// resolve every identifier of the package itself and of package os), so the facts do not depend on how the code is
// written down:
//
//   - roots: the methods of the struct type(s) that hold a *os.File field (the Rotator); the inventory is taken over every
//     function of the package REACHABLE from them through static references (calls, function values, closures);
//   - osCalls: the functions of package os referenced there; fileCalls: the methods of os.File referenced there — by the
//     resolved object, wherever and through whatever helper, variable or parenthesis they are written;
//   - openFlagBits: the VALUE of the flag argument of every os.OpenFile call (go/types constant evaluation: literals,
//     named constants, `|` of constants, parentheses all give the same integer), with the values of os.O_APPEND,
//     O_CREATE, O_TRUNC, O_EXCL read from package os;
//   - what could not be resolved is LISTED (`unresolved`) and makes the tables incomplete (`complete := false`): a flag
//     argument that is not a constant, a call through an interface or a function-typed variable in reachable code, the
//     file handed to another function or stored in an interface, package os not importable.  The tie theorems are
//     stated so that an absent fact makes the statement vacuous; a call that IS resolved and is not one of the model's
//     (os.Chmod, os.Truncate, a Seek on the descriptor …) breaks them.
package main

import (
	"encoding/json"
	"fmt"
	"go/ast"
	"go/constant"
	"go/importer"
	"go/parser"
	"go/token"
	"go/types"
	"os"
	"path/filepath"
	"sort"
	"strconv"
	"strings"
)

type mixImporter struct {
	def    types.Importer
	fake   map[string]*types.Package
	failed []string
}

func (m *mixImporter) Import(path string) (*types.Package, error) {
	first := strings.SplitN(path, "/", 2)[0]
	if !strings.Contains(first, ".") {
		if p, err := m.def.Import(path); err == nil {
			return p, nil
		}
		m.failed = append(m.failed, path)
	}
	if p, ok := m.fake[path]; ok {
		return p, nil
	}
	p := types.NewPackage(path, path[strings.LastIndex(path, "/")+1:])
	p.MarkComplete()
	m.fake[path] = p
	return p, nil
}

func sortedKeys(m map[string]bool) []string {
	out := make([]string, 0, len(m))
	for k := range m {
		out = append(out, k)
	}
	sort.Strings(out)
	return out
}

func leanList(xs []string) string {
	q := make([]string, len(xs))
	for i, x := range xs {
		q[i] = strconv.Quote(x)
	}
	return "[" + strings.Join(q, ", ") + "]"
}

func isOsFile(t types.Type) bool {
	if p, ok := t.(*types.Pointer); ok {
		t = p.Elem()
	}
	n, ok := t.(*types.Named)
	return ok && n.Obj().Pkg() != nil && n.Obj().Pkg().Path() == "os" && n.Obj().Name() == "File"
}

func main() {
	if len(os.Args) != 3 {
		fmt.Fprintln(os.Stderr, "usage: c12facts <repo> <out.lean>")
		os.Exit(2)
	}
	dir := filepath.Join(os.Args[1], "log", "rotation")
	fset := token.NewFileSet()
	pkgs, err := parser.ParseDir(fset, dir, func(fi os.FileInfo) bool { return !strings.HasSuffix(fi.Name(), "_test.go") }, 0)
	if err != nil {
		fmt.Fprintln(os.Stderr, "parse:", err)
		os.Exit(1)
	}
	apkg := pkgs["rotation"]
	if apkg == nil {
		fmt.Fprintln(os.Stderr, "package rotation not found in", dir)
		os.Exit(1)
	}
	var names []string
	for n := range apkg.Files {
		names = append(names, n)
	}
	sort.Strings(names)
	var files []*ast.File
	for _, n := range names {
		files = append(files, apkg.Files[n])
	}
	imp := &mixImporter{def: importer.ForCompiler(fset, "gc", nil), fake: map[string]*types.Package{}}
	info := &types.Info{Types: map[ast.Expr]types.TypeAndValue{}, Uses: map[*ast.Ident]types.Object{},
		Defs: map[*ast.Ident]types.Object{}, Selections: map[*ast.SelectorExpr]*types.Selection{}}
	conf := types.Config{Importer: imp, Error: func(error) {}}
	tpkg, _ := conf.Check("rotation", fset, files, info)

	unresolved := map[string]bool{}
	osCalls, fileCalls := map[string]bool{}, map[string]bool{}
	var flagBits []int64
	osConst := map[string]int64{}
	var osPkg *types.Package
	if tpkg != nil {
		for _, p := range tpkg.Imports() {
			if p.Path() == "os" {
				osPkg = p
			}
		}
	}
	osReal := osPkg != nil && osPkg.Scope().Lookup("OpenFile") != nil
	if !osReal {
		unresolved["package os could not be imported (" + strings.Join(imp.failed, ",") + "): no facts"] = true
	} else {
		for _, c := range []string{"O_APPEND", "O_CREATE", "O_TRUNC", "O_EXCL", "O_WRONLY", "O_RDWR"} {
			if k, ok := osPkg.Scope().Lookup(c).(*types.Const); ok {
				if v, exact := constant.Int64Val(k.Val()); exact {
					osConst[c] = v
				}
			}
		}
	}

	fileMethods := map[string]bool{}
	if osReal {
		if tn, ok := osPkg.Scope().Lookup("File").(*types.TypeName); ok {
			ms := types.NewMethodSet(types.NewPointer(tn.Type()))
			for i := 0; i < ms.Len(); i++ {
				fileMethods[ms.At(i).Obj().Name()] = true
			}
		}
	}
	isFileInfo := func(t types.Type) bool {
		n, ok := t.(*types.Named)
		return ok && n.Obj().Pkg() != nil && n.Obj().Pkg().Path() == "io/fs" && n.Obj().Name() == "FileInfo"
	}
	// functions of the package, their bodies, the roots
	type fn struct {
		decl *ast.FuncDecl
		obj  *types.Func
	}
	funcs := map[*types.Func]*fn{}
	holders := map[*types.TypeName]bool{} // named struct types with a *os.File field
	if tpkg != nil {
		for _, n := range tpkg.Scope().Names() {
			if tn, ok := tpkg.Scope().Lookup(n).(*types.TypeName); ok {
				if st, ok := tn.Type().Underlying().(*types.Struct); ok {
					for i := 0; i < st.NumFields(); i++ {
						if isOsFile(st.Field(i).Type()) {
							holders[tn] = true
						}
					}
				}
			}
		}
	}
	var all []*fn
	for _, f := range files {
		for _, d := range f.Decls {
			if fd, ok := d.(*ast.FuncDecl); ok && fd.Body != nil {
				if o, ok := info.Defs[fd.Name].(*types.Func); ok {
					x := &fn{fd, o}
					funcs[o] = x
					all = append(all, x)
				}
			}
		}
	}
	recvHolder := func(o *types.Func) bool {
		sig := o.Type().(*types.Signature)
		if sig.Recv() == nil {
			return false
		}
		t := sig.Recv().Type()
		if p, ok := t.(*types.Pointer); ok {
			t = p.Elem()
		}
		n, ok := t.(*types.Named)
		return ok && holders[n.Obj()]
	}
	var work []*fn
	for _, x := range all {
		if recvHolder(x.obj) {
			work = append(work, x)
		}
	}
	if len(work) == 0 { // representation not recognised: take every function of the package
		work = append(work, all...)
		if osReal {
			unresolved["no struct type with a *os.File field: inventory taken over the whole package"] = true
		}
	}
	seen := map[*fn]bool{}
	for len(work) > 0 {
		x := work[len(work)-1]
		work = work[:len(work)-1]
		if seen[x] {
			continue
		}
		seen[x] = true
		pos := func(n ast.Node) string { p := fset.Position(n.Pos()); return filepath.Base(p.Filename) + ":" + strconv.Itoa(p.Line) }
		ast.Inspect(x.decl.Body, func(n ast.Node) bool {
			switch e := n.(type) {
			case *ast.Ident:
				if o, ok := info.Uses[e].(*types.Func); ok && o.Pkg() != nil {
					sig := o.Type().(*types.Signature)
					switch {
					case o.Pkg().Path() == "os" && sig.Recv() == nil:
						osCalls[o.Name()] = true
					case o.Pkg().Path() == "os" && isOsFile(sig.Recv().Type()):
						fileCalls[o.Name()] = true
					case o.Pkg() == tpkg:
						if y := funcs[o]; y != nil {
							work = append(work, y)
						}
					}
				}
			case *ast.CallExpr:
				// os.OpenFile flags
				var callee types.Object
				switch f := e.Fun.(type) {
				case *ast.Ident:
					callee = info.Uses[f]
				case *ast.SelectorExpr:
					callee = info.Uses[f.Sel]
				}
				if o, ok := callee.(*types.Func); ok && o.Pkg() != nil && o.Pkg().Path() == "os" && o.Name() == "OpenFile" &&
					o.Type().(*types.Signature).Recv() == nil && len(e.Args) >= 2 {
					if tv, ok := info.Types[e.Args[1]]; ok && tv.Value != nil {
						if v, exact := constant.Int64Val(constant.ToInt(tv.Value)); exact {
							flagBits = append(flagBits, v)
						} else {
							unresolved["OpenFile flag argument at "+pos(e)+" is not a small integer constant"] = true
						}
					} else {
						unresolved["OpenFile flag argument at "+pos(e)+" is not a constant"] = true
					}
				}
				// dynamic calls: through an interface method or a function-typed variable
				if tv, ok := info.Types[e.Fun]; ok && !tv.IsType() && !tv.IsBuiltin() {
					if o, ok := callee.(*types.Func); ok {
						if sig := o.Type().(*types.Signature); sig.Recv() != nil {
							// an interface method that *os.File also has may be the file behind an interface (io.Writer, io.Closer …);
							// fs.FileInfo (the result of Stat) is not a file
							if _, isIface := sig.Recv().Type().Underlying().(*types.Interface); isIface && fileMethods[o.Name()] &&
								!isFileInfo(sig.Recv().Type()) {
								unresolved["call of interface method "+o.Name()+" (a method *os.File has too) at "+pos(e)] = true
							}
						}
					} else if _, isVar := callee.(*types.Var); isVar {
						if _, isSig := tv.Type.Underlying().(*types.Signature); isSig {
							unresolved["call through a function-typed variable at "+pos(e)] = true
						}
					}
				}
				// the file handed to another function (not as the receiver)
				for _, a := range e.Args {
					if tv, ok := info.Types[a]; ok && tv.Type != nil && isOsFile(tv.Type) {
						unresolved["the *os.File is passed as an argument at "+pos(e)] = true
					}
				}
			}
			return true
		})
	}
	sort.Slice(flagBits, func(i, j int) bool { return flagBits[i] < flagBits[j] })
	complete := osReal && len(unresolved) == 0
	var sb strings.Builder
	sb.WriteString("/-! generated by go/cmd/c12facts from log/rotation of the working tree on every run of `./check C12` — do not edit -/\n")
	sb.WriteString("namespace RotationCalls\n\n")
	sb.WriteString("/-- the functions of package os referenced in the code reachable from the methods of the Rotator -/\n")
	sb.WriteString("def osCalls : List String := " + leanList(sortedKeys(osCalls)) + "\n\n")
	sb.WriteString("/-- the methods of os.File referenced there -/\n")
	sb.WriteString("def fileCalls : List String := " + leanList(sortedKeys(fileCalls)) + "\n\n")
	sb.WriteString("/-- the value of the flag argument of every os.OpenFile call there (constant evaluation) -/\n")
	fb := make([]string, len(flagBits))
	for i, v := range flagBits {
		fb[i] = strconv.FormatInt(v, 10)
	}
	sb.WriteString("def openFlagBits : List Nat := [" + strings.Join(fb, ", ") + "]\n\n")
	sb.WriteString("/-- the values of the constants of package os on this platform (0: not read) -/\n")
	for _, c := range []string{"O_APPEND", "O_CREATE", "O_TRUNC", "O_EXCL", "O_WRONLY", "O_RDWR"} {
		sb.WriteString("def " + c + " : Nat := " + strconv.FormatInt(osConst[c], 10) + "\n")
	}
	sb.WriteString("\n/-- nothing was left unresolved: the tables are the whole inventory -/\n")
	sb.WriteString("def complete : Bool := " + strconv.FormatBool(complete) + "\n\n")
	sb.WriteString("/-- what could not be resolved (facts absent, statements about them vacuous) -/\n")
	sb.WriteString("def unresolved : List String := " + leanList(sortedKeys(unresolved)) + "\n\n")
	sb.WriteString("end RotationCalls\n")
	if err := os.WriteFile(os.Args[2], []byte(sb.String()), 0o644); err != nil {
		fmt.Fprintln(os.Stderr, "write:", err)
		os.Exit(1)
	}
	var roots []string
	for tn := range holders {
		roots = append(roots, tn.Name())
	}
	sort.Strings(roots)
	var reach []string
	for x := range seen {
		reach = append(reach, x.obj.Name())
	}
	sort.Strings(reach)
	js, _ := json.Marshal(map[string]any{"osCalls": sortedKeys(osCalls), "fileCalls": sortedKeys(fileCalls), "openFlagBits": flagBits,
		"osConst": osConst, "complete": complete, "unresolved": sortedKeys(unresolved), "holders": roots, "reachable": reach})
	fmt.Println(string(js))
}
