package main

import (
	"os"
	"path/filepath"
	"strconv"
	"strings"
	"syscall"

	"github.com/richardwilkes/toolbox/xio/fs/safe"
	"verifharness/hx"
)

// ---------------------------------------------------------------------------------------------- area duo
// TWO safe.File handles (A, B) on ONE destination, their calls interleaved call by call — a deterministic realisation of
// the interleavings Props/C14RaceHist.lean (two_histories_old_or_A_or_B) quantifies over.  Stateful; a history starts with
//   reset <old> <umask>
// and continues with  dcreate <h> <mode> | dwrite <h> <n> | dcommit <h> | dclose <h> | dclosefd <h>      (h = A | B)
//   -> <result> dst=<state> A=<state of A's temporary file> B=<state of B's temporary file>
// A writes bytes of stream seed 3, B of stream seed 5, so the destination shows whose content it holds.
type duoArea struct {
	dir, dst string
	f        [2]*safe.File
	name     [2]string
	off      [2]int
	umask    uint32
	oldDir   bool
	old      oldSpec
}

var duoSeeds = [2]int{seedNew, 5}

func (*duoArea) Gen(r *hx.Rng, n int, _ string, emit func(string)) {
	b := bufSize()
	for i := 0; i < n; {
		old := genOld(r)
		if r.Intn(10) == 0 {
			old = "dir"
		}
		emit("reset " + old + " " + hx.Pick(r, umasks))
		i++
		created := [2]bool{}
		for k, m := 0, r.Range(3, 12); k < m; k++ {
			h := r.Intn(2)
			hs := "AB"[h : h+1]
			if !created[h] {
				emit("dcreate " + hs + " " + hx.Pick(r, modes))
				created[h] = true
				i++
				continue
			}
			switch r.Intn(10) {
			case 0, 1, 2, 3:
				emit("dwrite " + hs + " " + strconv.Itoa(hx.Pick(r, []int{0, 1, 10, 1000, b, b + 1, r.Intn(5000)})))
			case 4, 5, 6:
				emit("dcommit " + hs)
			case 7, 8:
				emit("dclose " + hs)
			default:
				emit("dclosefd " + hs)
			}
			i++
		}
	}
}

func (a *duoArea) obs(res string) string {
	st := [2]string{"absent", "absent"}
	known := map[string]bool{}
	for h := 0; h < 2; h++ {
		if a.name[h] != "" {
			st[h] = fileState(a.name[h])
			known[filepath.Base(a.name[h])] = true
		}
	}
	for _, e := range extras(a.dir) { // nothing but the two temporary files may ever appear beside the destination
		if !known[e] {
			res = "BAD:stray-entry"
		}
	}
	return res + " dst=" + fileState(a.dst) + " A=" + st[0] + " B=" + st[1] + targetCheck(a.dir, a.old)
}

func (a *duoArea) Run(line string) string { return withDeadline(func() string { return a.run(line) }) }

func (a *duoArea) run(line string) string {
	f := strings.Fields(line)
	if len(f) == 0 {
		return "bad-op"
	}
	if f[0] == "reset" {
		for h := 0; h < 2; h++ {
			if a.f[h] != nil {
				_ = a.f[h].File.Close()
			}
			a.f[h], a.name[h], a.off[h] = nil, "", 0
		}
		if a.dir != "" {
			cleanup(a.dir)
		}
		a.old = parseOld(f[1])
		a.dir, a.dst = setup(a.old)
		a.oldDir = f[1] == "dir"
		a.umask = octal(f[2])
		return "reset"
	}
	if a.dir == "" || len(f) < 2 || (f[1] != "A" && f[1] != "B") {
		return "bad-op"
	}
	h := 0
	if f[1] == "B" {
		h = 1
	}
	prev := syscall.Umask(int(a.umask))
	defer syscall.Umask(prev)
	if f[0] == "dcreate" {
		if a.f[h] != nil || len(f) != 3 {
			return "bad-op"
		}
		var err error
		a.f[h], err = safe.CreateWithMode(a.dst, os.FileMode(octal(f[2])))
		if err != nil {
			return a.obs(resCode(err))
		}
		a.name[h] = a.f[h].Name()
		if a.name[h] == a.dst || filepath.Dir(a.name[h]) != a.dir || a.name[0] == a.name[1] || a.f[h].OriginalName() != a.dst {
			return a.obs("BAD:Name")
		}
		return a.obs("ok")
	}
	if a.f[h] == nil {
		return "bad-op"
	}
	switch f[0] {
	case "dwrite":
		if len(f) != 3 {
			return "bad-op"
		}
		n := atoi(f[2])
		k, err := a.f[h].Write(genBytes(a.off[h], n, duoSeeds[h]))
		if err == nil {
			if k != n {
				return a.obs("BAD:short-write")
			}
			a.off[h] += n
		}
		return a.obs(resCode(err))
	case "dcommit":
		res := resCode(a.f[h].Commit())
		if a.oldDir && (res == "errno:EISDIR" || res == "errno:EEXIST" || res == "errno:ENOTEMPTY") {
			res = "errno:DIR"
		}
		return a.obs(res)
	case "dclose":
		return a.obs(resCode(a.f[h].Close()))
	case "dclosefd":
		return a.obs(resCode(a.f[h].File.Close()))
	}
	return "bad-op"
}
