package main

import (
	crand "crypto/rand"
	"errors"
	"fmt"
	"io/fs"
	"os"
	"path/filepath"
	"sort"
	"strconv"
	"strings"
	"syscall"

	xfs "github.com/richardwilkes/toolbox/xio/fs"
	"github.com/richardwilkes/toolbox/xio/fs/safe"
	"verifharness/hx"
)

// ------------------------------------------------------------------------------------------- area paths
// clean <hex path>                                   -> hex of filepath.Clean   (ties the model's Clean to the stdlib's)
// dirof <hex path>                                   -> hex of filepath.Dir
// tempname <hex tmpdir> <hex dir> <hex pattern> <dir exists 0|1>
//    -> pre=<hex> suf=<hex>  what is common to the front / the back of the names of 12 files made by fs.CreateTemp
//       (the public door to internal.CreateTemp; the random middle differs) | err=sep | err=errno:<E>
type pathsArea struct{}

var pathAtoms = []string{"a", "b", ".", "..", "/", "//", "safe1", "", "c.d", "/", "a/", "./", "../"}

func (pathsArea) Gen(r *hx.Rng, n int, _ string, emit func(string)) {
	fixed := []string{"", "/", ".", "..", "a", "a/", "/a/b/", "a//b/./c/..", "/..", "/../a", "../a/..", "a/../..", "/a/b/../../..",
		"./", "a/b/../../../c", "//a", "a/./b/.", "...", "a/.../b", "/.", "/./", "a/b", "/a", "x/", "x//", "../..", "./../x"}
	for _, p := range fixed {
		emit("clean " + hx.Hex([]byte(p)))
		emit("dirof " + hx.Hex([]byte(p)))
	}
	// safe.Create on raw names (relative to a scratch directory that contains sub/): invalid, or the cleaned name it keeps
	for _, nm := range []string{"/", "//", "/./", "/..", "/../", "x", "x/", "x//", "./x", "sub/x", "sub/x/", "sub//x", "sub/../x", "", ".",
		"./", "sub/", "sub/.", "sub/./", "..", "../", "../x", "sub/../../x", "x/.", "x/..", "sub/x/..", "a*b", "safe1", "safe1/"} {
		emit("origname " + hx.Hex([]byte(nm)))
	}
	cwd, _ := os.Getwd()
	td := os.TempDir()
	pats := []string{"safe", "x*y", "*", "*.txt", "a*b*c", "", ".", "..", "**", "a/b", "/", "pre*", "*suf", "sp ace*", "\xc3\xbc*\xc3\xb1",
		"safe*", "1*2", "*/", "..*", "a*.."}
	for i := 0; i < n; i++ {
		switch r.Intn(4) {
		case 0, 1:
			k := r.Range(1, 6)
			var sb strings.Builder
			for j := 0; j < k; j++ {
				sb.WriteString(hx.Pick(r, pathAtoms))
				if r.Bool() {
					sb.WriteString("/")
				}
			}
			op := "clean "
			if r.Bool() {
				op = "dirof "
			}
			emit(op + hx.Hex([]byte(sb.String())))
		default:
			root := filepath.Join(cwd, "tn"+strconv.FormatUint(r.U64(), 36))
			dir := root + hx.Pick(r, []string{"/p/q/r", "/p/q/r/", "/p/q//r", "/p/q/r/../r", "/p/q/./r", "/p/q/r//"})
			pat := hx.Pick(r, pats)
			exists := "1"
			switch r.Intn(8) {
			case 0: // a missing directory (with a pattern whose prefix keeps the name inside it)
				dir, exists, pat = root+"/p/missing", "0", hx.Pick(r, []string{"safe", "x*y", "pre*", "a/b"})
			case 1: // dir == "": os.TempDir(); only patterns that stay inside it
				dir, pat = "", hx.Pick(r, []string{"safe", "x*y", "pre*", "c14*.tmp"})
			}
			emit("tempname " + hx.Hex([]byte(td)) + " " + hx.Hex([]byte(dir)) + " " + hx.Hex([]byte(pat)) + " " + exists)
		}
	}
}

func (pathsArea) Run(line string) string {
	f := strings.Fields(line)
	switch {
	case len(f) == 2 && f[0] == "clean":
		return hx.Hex([]byte(filepath.Clean(string(hx.UnHex(f[1])))))
	case len(f) == 2 && f[0] == "dirof":
		return hx.Hex([]byte(filepath.Dir(string(hx.UnHex(f[1])))))
	case len(f) == 2 && f[0] == "origname":
		return withDeadline(func() string { return origName(string(hx.UnHex(f[1]))) })
	case len(f) == 5 && f[0] == "tempname":
		return withDeadline(func() string { return tempNames(string(hx.UnHex(f[2])), string(hx.UnHex(f[3])), f[4] == "1") })
	}
	return "bad-op"
}

// origName: safe.Create(name) in a scratch directory: "invalid" (os.ErrInvalid, nothing created) or "valid:<hex of
// OriginalName()>" — the name as CreateWithMode cleaned it; the temporary file must sit in filepath.Dir of it.
func origName(name string) string {
	scratch, err := os.MkdirTemp(".", "o")
	if err != nil {
		panic(err)
	}
	if scratch, err = filepath.Abs(scratch); err != nil {
		panic(err)
	}
	defer os.RemoveAll(scratch)
	work := scratch + "/w"
	if err = os.MkdirAll(work+"/sub", 0o755); err != nil {
		panic(err)
	}
	cwd, err := os.Getwd()
	if err != nil {
		panic(err)
	}
	if err = os.Chdir(work); err != nil {
		panic(err)
	}
	defer os.Chdir(cwd) //nolint:errcheck
	f, cerr := safe.Create(name)
	if cerr != nil {
		if errors.Is(cerr, os.ErrInvalid) {
			if es, _ := os.ReadDir("."); len(es) != 1 {
				return "BAD:something-created-for-an-invalid-name"
			}
			return "invalid"
		}
		return "err:" + resCode(cerr)
	}
	defer f.Close()
	on := f.OriginalName()
	want, _ := filepath.Abs(filepath.Dir(on))
	got, _ := filepath.Abs(filepath.Dir(f.Name()))
	if want != got {
		return "BAD:temporary-file-not-in-Dir(OriginalName)"
	}
	return "valid:" + hx.Hex([]byte(on))
}

func tempNames(dir, pat string, exists bool) string {
	if dir != "" {
		i := strings.Index(dir, "/tn")
		j := strings.Index(dir[i+1:], "/")
		root := dir[:i+1+j]
		defer os.RemoveAll(root)
		if err := os.MkdirAll(root+"/p/q/r", 0o755); err != nil {
			return "setup:" + err.Error()
		}
	}
	var names []string
	defer func() {
		for _, n := range names {
			os.Remove(n)
		}
	}()
	for k := 0; k < 12; k++ {
		fl, err := xfs.CreateTemp(dir, pat, 0o600)
		if err != nil {
			if strings.Contains(err.Error(), "path separator") {
				return "err=sep"
			}
			return "err=" + resCode(err)
		}
		names = append(names, fl.Name())
		st, serr := fl.Stat()
		fl.Close()
		if serr != nil || st.Size() != 0 || !st.Mode().IsRegular() {
			return "BAD:not-a-new-empty-regular-file"
		}
	}
	_ = exists
	pre, suf := names[0], names[0]
	for _, n := range names[1:] {
		for !strings.HasPrefix(n, pre) {
			pre = pre[:len(pre)-1]
		}
		for !strings.HasSuffix(n, suf) {
			suf = suf[1:]
		}
	}
	if len(pre)+len(suf) > len(names[0]) { // all twelve equal?!
		return "BAD:names-not-distinct"
	}
	for _, n := range names { // the middle is a decimal number
		mid := n[len(pre) : len(n)-len(suf)]
		if _, err := strconv.ParseUint(mid, 10, 63); err != nil || (len(mid) > 1 && mid[0] == '0') {
			return "BAD:middle-not-decimal:" + mid
		}
	}
	return "pre=" + hx.Hex([]byte(pre)) + " suf=" + hx.Hex([]byte(suf))
}

// ------------------------------------------------------------------------------------------- area dest
// dest <hex name relative to <scratch>/r/a/b> <pieces> <fault> <cbmode>
//    -> res=<code> dst=<state of the cleaned destination path> look=<states of the five look-alikes> new=<entries that
//       were not there before, the destination aside>
// The tree: r/a/b/{safe1.db, safe123, safe, x.txt, sub/}, r/a/safe7.
type destArea struct{}

var lookFiles = []struct {
	rel  string
	n    int
	mode uint32
}{{"r/a/b/safe1.db", 10, 0o600}, {"r/a/b/safe123", 20, 0o644}, {"r/a/b/safe", 5, 0o644}, {"r/a/b/x.txt", 30, 0o640}, {"r/a/safe7", 7, 0o644}}

func (destArea) Gen(r *hx.Rng, n int, _ string, emit func(string)) {
	b := bufSize()
	rels := []string{"safe123", "safe2023-q4.csv", "safe999x", "safe1.db", "safe", "safe*", "a*b", "[x]", "?", "sub/y", "sub/", "sub",
		"", ".", "..", "../..", "../safe7", "../safe8", "nosuch/y", "nosuch/deep/y", "x.txt/y", "x.txt/y/z", "sub//./y", "sub/../z",
		"./safe1.db", "new", strings.Repeat("n", 255), strings.Repeat("n", 256), "sub/" + strings.Repeat("m", 255),
		"sub/" + strings.Repeat("m", 300), "safe" + strings.Repeat("9", 251), " ", "sp ace", "\xc3\xa4", "new/", "new//", "sub/y/"}
	faults := []string{"none p", "cb:1 p", "panic:0 p", "cb:0 s"}
	for i := 0; i < n; i++ {
		rel := rels[i%len(rels)]
		ft := faults[(i/len(rels))%len(faults)]
		pcs := hx.Pick(r, []string{"10", strconv.Itoa(b + 1), "1000x70", "-"})
		emit("dest " + hx.Hex([]byte(rel)) + " " + pcs + " " + ft)
	}
}

func (destArea) Run(line string) string {
	f := strings.Fields(line)
	if len(f) != 5 || f[0] != "dest" {
		return "bad-op"
	}
	return withDeadline(func() string { return destRun(string(hx.UnHex(f[1])), parsePieces(f[2]), f[3], f[4]) })
}

func destRun(rel string, pieces []int, fault, cbMode string) string {
	scratch, err := os.MkdirTemp(".", "t")
	if err != nil {
		panic(err)
	}
	if scratch, err = filepath.Abs(scratch); err != nil {
		panic(err)
	}
	defer os.RemoveAll(scratch)
	if err = os.MkdirAll(scratch+"/r/a/b/sub", 0o755); err != nil {
		panic(err)
	}
	os.Chmod(scratch, 0o755) //nolint:errcheck
	for _, l := range lookFiles {
		p := filepath.Join(scratch, l.rel)
		if err = os.WriteFile(p, genBytes(0, l.n, seedOld), 0o600); err != nil {
			panic(err)
		}
		os.Chmod(p, os.FileMode(l.mode)) //nolint:errcheck
	}
	before := listTree(scratch)
	parentBefore := listDir(filepath.Dir(scratch))
	filename := scratch + "/r/a/b/" + rel
	cleaned := filepath.Clean(filename)
	prev := syscall.Umask(0o22)
	defer syscall.Umask(prev)
	cbFail := -1
	switch {
	case strings.HasPrefix(fault, "cb:"):
		cbFail = atoi(fault[3:])
	case strings.HasPrefix(fault, "panic:"):
		cbFail = atoi(fault[6:])
		cbMode += "!"
	}
	werr := func() (err error) {
		panicked := true
		defer func() {
			if panicked {
				_ = recover()
				err = errPanicked
			}
		}()
		err = perform("wf", filename, 0o644, pieces, cbFail, cbMode, nil)
		panicked = false
		return err
	}()
	res := resCode(werr)
	if st, e := os.Lstat(cleaned); e == nil && st.IsDir() && (res == "errno:EISDIR" || res == "errno:EEXIST" || res == "errno:ENOTEMPTY") {
		res = "errno:DIR"
	}
	var look []string
	for _, l := range lookFiles {
		look = append(look, fileState(filepath.Join(scratch, l.rel)))
	}
	n := 0
	for _, e := range listTree(scratch) {
		if !contains(before, e) && e != cleaned {
			n++
		}
	}
	for _, e := range listDir(filepath.Dir(scratch)) { // a destination above the scratch tree puts its temporary file here
		if !contains(parentBefore, e) && !strings.HasPrefix(filepath.Base(e), "t") && !strings.HasPrefix(filepath.Base(e), "d") {
			n++
		}
	}
	return fmt.Sprintf("res=%s dst=%s look=%s new=%d", res, fileState(cleaned), strings.Join(look, ","), n)
}

func listTree(root string) []string {
	var out []string
	filepath.WalkDir(root, func(p string, _ fs.DirEntry, _ error) error { //nolint:errcheck
		out = append(out, p)
		return nil
	})
	sort.Strings(out)
	return out
}

func listDir(d string) []string {
	es, _ := os.ReadDir(d)
	var out []string
	for _, e := range es {
		out = append(out, filepath.Join(d, e.Name()))
	}
	return out
}

func contains(xs []string, x string) bool {
	i := sort.SearchStrings(xs, x)
	return i < len(xs) && xs[i] == x
}

// ------------------------------------------------------------------------------------------- area collide
// REAL name collisions: crypto/rand.Reader (a public variable of the standard library, the only seam in front of
// xmath/rand's crypto source) is pinned for the duration of one call, so that CreateTemp draws numbers whose names the
// harness has created beforehand.
// collide <old> <k> <pieces> <fault> <cbmode>   the first k candidates safe7000, safe7001, … exist (10 bytes each)
//    -> res=<code> dst=<state> pre=<unchanged>/<k> new=<entries beside dst and the k files> opens=<n.a. in-process: echoed>
// selfcollide <pieces> <fault> <cbmode>         the destination is the ABSENT file safe123 and every draw is 123
//    -> res=<code> during=<state of the destination seen by the callback after its last piece | -> dst=<final state>
type collideArea struct{}

func (collideArea) Gen(r *hx.Rng, n int, _ string, emit func(string)) {
	b := bufSize()
	ks := []int{0, 1, 2, 5, 999, 1000, 3, 1000}
	fts := []string{"none p", "cb:1 p", "panic:0 p", "none s"}
	for i := 0; i < n; i++ {
		pcs := hx.Pick(r, []string{"10", strconv.Itoa(b + 1), "1000x70", "-"})
		if i%5 == 4 {
			np := len(parsePieces(pcs))
			ft := hx.Pick(r, []string{"none p", "cb:" + strconv.Itoa(np) + " p", "panic:" + strconv.Itoa(np) + " p"})
			emit("selfcollide " + pcs + " " + ft)
			continue
		}
		emit(fmt.Sprintf("collide %s %d %s %s", hx.Pick(r, []string{"absent", "file:70000:600", "file:0:644"}), ks[i%len(ks)], pcs,
			fts[(i/len(ks))%len(fts)]))
	}
}

type pinnedReader struct {
	next func() uint64
}

func (p *pinnedReader) Read(b []byte) (int, error) {
	v := p.next()
	for i := range b { // little endian, as cryptoRand.Intn decodes it
		b[i] = byte(v >> (8 * uint(i)))
	}
	return len(b), nil
}

func (collideArea) Run(line string) string {
	f := strings.Fields(line)
	return withDeadline(func() string {
		switch {
		case len(f) == 6 && f[0] == "collide":
			return collideRun(parseOld(f[1]), atoi(f[2]), parsePieces(f[3]), f[4], f[5])
		case len(f) == 4 && f[0] == "selfcollide":
			return selfCollideRun(parsePieces(f[1]), f[2], f[3])
		}
		return "bad-op"
	})
}

func pinned(next func() uint64, call func() error) (err error) {
	saved := crand.Reader
	crand.Reader = &pinnedReader{next: next}
	defer func() { crand.Reader = saved }()
	panicked := true
	defer func() {
		if panicked {
			_ = recover()
			err = errPanicked
		}
	}()
	err = call()
	panicked = false
	return err
}

func cbArgs(fault, cbMode string) (int, string) {
	cbFail := -1
	switch {
	case strings.HasPrefix(fault, "cb:"):
		cbFail = atoi(fault[3:])
	case strings.HasPrefix(fault, "panic:"):
		cbFail = atoi(fault[6:])
		cbMode += "!"
	}
	return cbFail, cbMode
}

func collideRun(old oldSpec, k int, pieces []int, fault, cbMode string) string {
	dir, dst := setup(old)
	defer cleanup(dir)
	preState := make([]string, k)
	for i := 0; i < k; i++ {
		p := filepath.Join(dir, "safe"+strconv.Itoa(7000+i))
		if err := os.WriteFile(p, genBytes(i, 10, seedOld), 0o600); err != nil {
			panic(err)
		}
		preState[i] = fileState(p)
	}
	prev := syscall.Umask(0o22)
	defer syscall.Umask(prev)
	cbFail, cbm := cbArgs(fault, cbMode)
	draw := uint64(7000)
	werr := pinned(func() uint64 { v := draw; draw++; return v }, func() error {
		return perform("wf", dst, 0o644, pieces, cbFail, cbm, nil)
	})
	same := 0
	for i := 0; i < k; i++ {
		if fileState(filepath.Join(dir, "safe"+strconv.Itoa(7000+i))) == preState[i] {
			same++
		}
	}
	opens := int(draw - 7000)
	return fmt.Sprintf("res=%s dst=%s pre=%d/%d new=%d opens=%d", resCode(werr), fileState(dst), same, k, len(extras(dir))-k, opens)
}

func selfCollideRun(pieces []int, fault, cbMode string) string {
	dir, _ := setup(oldSpec{kind: "absent"})
	defer cleanup(dir)
	dst := filepath.Join(dir, "safe123")
	prev := syscall.Umask(0o22)
	defer syscall.Umask(prev)
	cbFail, cbm := cbArgs(fault, cbMode)
	during := "-"
	werr := pinned(func() uint64 { return 123 }, func() error {
		return perform("wf", dst, 0o644, pieces, cbFail, cbm, func(int) { during = fileState(dst) })
	})
	return fmt.Sprintf("res=%s during=%s dst=%s", resCode(werr), during, fileState(dst))
}
