package main

import (
	"bytes"
	"errors"
	"fmt"
	"io"
	"os"
	"path/filepath"
	"strconv"
	"strings"
	"sync"
	"time"

	"github.com/richardwilkes/toolbox/xio/fs/safe"
	"verifharness/hx"
)

// Implementation-side oracles (no Lean model; the harness judges with expectations written down here, independent of
// the library): destination names, two writers on one destination, and compound faults under strace.

// ------------------------------------------------------------------------------------------- deadlines
var (
	hangMu sync.Mutex
	hangs  int
)

// withDeadline runs f; a call that does not return within 20 s is reported as "hang" (and after three hangs the
// rest of the stream is skipped) so that a dead-locking mutant costs seconds, not the tier budget.
func withDeadline(f func() string) string {
	hangMu.Lock()
	h := hangs
	hangMu.Unlock()
	if h >= 3 {
		return "hang-skipped"
	}
	ch := make(chan string, 1)
	go func() { ch <- hx.Safe(f) }()
	select {
	case s := <-ch:
		return s
	case <-time.After(20 * time.Second):
		hangMu.Lock()
		hangs++
		hangMu.Unlock()
		return "hang"
	}
}

// ------------------------------------------------------------------------------------------- area names
// names <case>  ->  ok <case> | FAIL <case>: <why>
type namesArea struct{}

var nameCases = []string{"bare", "dotslash", "trailing", "unclean", "unicode", "name255", "name256", "empty", "dot", "root",
	"nodir", "bare-file", "trailing-file", "empty-file", "root-file", "name256-file", "existing-bare"}

func (namesArea) Gen(_ *hx.Rng, _ int, _ string, emit func(string)) {
	for _, c := range nameCases {
		emit("names " + c)
	}
}

func (namesArea) Run(line string) string {
	f := strings.Fields(line)
	if len(f) != 2 {
		return "bad-op"
	}
	return withDeadline(func() string {
		if why := nameCase(f[1]); why != "" {
			return "FAIL " + f[1] + ": " + why
		}
		return "ok " + f[1]
	})
}

func nameCase(c string) string {
	dir, _ := setup(oldSpec{kind: "absent"})
	defer cleanup(dir)
	cwd, err := os.Getwd()
	if err != nil {
		return err.Error()
	}
	if err = os.Chdir(dir); err != nil {
		return err.Error()
	}
	defer os.Chdir(cwd) //nolint:errcheck
	content := genBytes(0, 70001, seedNew)
	viaFile := strings.HasSuffix(c, "-file")
	c = strings.TrimSuffix(c, "-file")
	write := func(name string) error {
		if viaFile {
			fl, e := safe.Create(name)
			if e != nil {
				return e
			}
			if _, e = fl.Write(content); e != nil {
				_ = fl.Close()
				return e
			}
			if e = fl.Commit(); e != nil {
				_ = fl.Close()
				return e
			}
			return fl.Close()
		}
		return safe.WriteFile(name, func(w io.Writer) error { _, e := w.Write(content); return e })
	}
	listing := func() string {
		es, _ := os.ReadDir(dir)
		var ns []string
		for _, e := range es {
			ns = append(ns, e.Name())
		}
		return strings.Join(ns, ",")
	}
	good := func(name, final string) string {
		if e := write(name); e != nil {
			return "unexpected error " + resCode(e)
		}
		got, e := os.ReadFile(filepath.Join(dir, final))
		if e != nil || !bytes.Equal(got, content) {
			return "destination does not hold the new content"
		}
		if l := listing(); l != final {
			return "directory holds " + strconv.Quote(l)
		}
		return ""
	}
	bad := func(name string, want error) string {
		e := write(name)
		if e == nil {
			return "no error returned"
		}
		if want != nil && !errors.Is(e, want) {
			return "error is " + resCode(e)
		}
		if l := listing(); l != "" {
			return "directory holds " + strconv.Quote(l) + " after the failed call"
		}
		return ""
	}
	switch c {
	case "bare":
		return good("dst", "dst")
	case "existing-bare":
		if e := os.WriteFile("dst", []byte("old"), 0o600); e != nil {
			return e.Error()
		}
		return good("dst", "dst")
	case "dotslash":
		return good("./dst", "dst")
	case "trailing": // filepath.Clean removes the trailing separator
		return good(dir+"/dst/", "dst")
	case "unclean":
		return good(dir+"/x/../y/.././dst", "dst")
	case "unicode":
		return good(dir+"/ä b\tc.txt", "ä b\tc.txt")
	case "name255":
		n := strings.Repeat("n", 255)
		return good(dir+"/"+n, n)
	case "name256": // the temporary name is short, so the failure comes from the rename: no temporary file may stay
		return bad(dir+"/"+strings.Repeat("n", 256), nil)
	case "empty": // cleans to ".": nothing can be renamed onto the directory itself
		return bad("", nil)
	case "dot":
		return bad(".", nil)
	case "root":
		return bad("/", os.ErrInvalid)
	case "nodir":
		return bad(dir+"/missing/dst", os.ErrNotExist)
	}
	return "unknown case"
}

// ------------------------------------------------------------------------------------------- area race
// race <old> <sizeA> <sizeB>   two goroutines replace the same destination with safe.WriteFile at the same time
// race2 <old> <sizeA> <sizeB> <commitB 0|1>  two safe.File handles on one destination, interleaved in one goroutine
type raceArea struct{}

func (raceArea) Gen(r *hx.Rng, n int, _ string, emit func(string)) {
	b := bufSize()
	sizes := []int{0, 1, 1000, b - 1, b, b + 1, 200000}
	for i := 0; i < n; i++ {
		old := hx.Pick(r, []string{"absent", "file:70000:600", "file:0:644", "link:70000:644", "dangling"})
		if i%2 == 0 {
			emit(fmt.Sprintf("race %s %d %d", old, hx.Pick(r, sizes), hx.Pick(r, sizes)))
		} else {
			emit(fmt.Sprintf("race2 %s %d %d %d", old, hx.Pick(r, sizes), hx.Pick(r, sizes), r.Intn(2)))
		}
	}
}

const seedB = 5

func (raceArea) Run(line string) string {
	f := strings.Fields(line)
	if len(f) < 4 {
		return "bad-op"
	}
	return withDeadline(func() string {
		old := parseOld(f[1])
		na, nb := atoi(f[2]), atoi(f[3])
		dir, dst := setup(old)
		defer cleanup(dir)
		oldState := fileState(dst)
		a, b := genBytes(0, na, seedNew), genBytes(0, nb, seedB)
		sa, sb := stateOf(a, 0o644), stateOf(b, 0o644)
		if f[0] == "race" {
			rd := startReader(dst, oldState, sa, sb)
			var wg sync.WaitGroup
			errsAB := make([]error, 2)
			for i, data := range [][]byte{a, b} {
				wg.Add(1)
				go func() {
					defer wg.Done()
					errsAB[i] = safe.WriteFile(dst, func(w io.Writer) error {
						for off := 0; off < len(data); off += 1000 {
							if _, e := w.Write(data[off:min(off+1000, len(data))]); e != nil {
								return e
							}
						}
						return nil
					})
				}()
			}
			wg.Wait()
			rs := rd.finish()
			switch {
			case errsAB[0] != nil || errsAB[1] != nil:
				return fmt.Sprintf("FAIL a writer returned an error: %v %v", errsAB[0], errsAB[1])
			case rs != "ok":
				return "FAIL reader saw " + rs
			case len(extras(dir)) != 0:
				return "FAIL temporary files left: " + strings.Join(extras(dir), ",")
			}
			if s := fileState(dst); s != sa && s != sb {
				return "FAIL final destination is neither writer's complete content: " + s
			}
			return "ok" + targetCheck(dir, old)
		}
		// race2: two handles, interleaved
		f1, e1 := safe.Create(dst)
		f2, e2 := safe.Create(dst)
		if e1 != nil || e2 != nil {
			return "FAIL Create"
		}
		if f1.Name() == f2.Name() {
			return "FAIL both handles share one temporary file"
		}
		for off := 0; off < max(na, nb); off += 4096 {
			if off < na {
				if _, e := f1.Write(a[off:min(off+4096, na)]); e != nil {
					return "FAIL write A"
				}
			}
			if off < nb {
				if _, e := f2.Write(b[off:min(off+4096, nb)]); e != nil {
					return "FAIL write B"
				}
			}
			if s := fileState(dst); s != oldState {
				return "FAIL destination changed before any Commit: " + s
			}
		}
		if e := f1.Commit(); e != nil {
			return "FAIL Commit A"
		}
		if s := fileState(dst); s != sa {
			return "FAIL after Commit A the destination is " + s
		}
		want := sa
		if f[4] == "1" {
			if e := f2.Commit(); e != nil {
				return "FAIL Commit B"
			}
			want = sb
		}
		if f1.Close() != nil || f2.Close() != nil {
			return "FAIL Close"
		}
		if s := fileState(dst); s != want {
			return "FAIL final destination is " + s
		}
		if len(extras(dir)) != 0 {
			return "FAIL temporary files left"
		}
		return "ok" + targetCheck(dir, old)
	})
}

// ------------------------------------------------------------------------------------------- area compound
// compound <old> <kind> <pieces> <primary> <secondary>   (strace; two faults in one run)
//   primary:   none | cb:<j> | panic:<j> | write:<k>:<ERR> | rename:<ERR>
//   secondary: close:<ERR> | unlink:<ERR>   — hits the close(2) / unlinkat(2) of the cleanup path
// expectation: the primary failure is what the call returns, the destination is untouched, nothing is renamed; the
// temporary file is gone unless it is the unlink that was made to fail.
type compoundArea struct{}

func (compoundArea) Gen(_ *hx.Rng, _ int, tier string, emit func(string)) {
	b := bufSize()
	pats := []string{"1000x70", strconv.Itoa(b + 1)}
	olds := []string{"file:70000:600"}
	if tier == "thorough" {
		pats = append(pats, "1", "-", "1000x200", strconv.Itoa(b)+",1")
		olds = append(olds, "absent", "link:5:644")
	}
	for _, old := range olds {
		for _, p := range pats {
			np := len(parsePieces(p))
			nw := len(chunkSizes("wf", parsePieces(p)))
			prim := []string{"cb:0", "cb:" + strconv.Itoa(np), "panic:" + strconv.Itoa(np/2)}
			if nw > 0 {
				prim = append(prim, "write:"+strconv.Itoa(nw-1)+":ENOSPC", "write:0:EIO")
			}
			for _, pr := range prim {
				emit("compound " + old + " wf " + p + " " + pr + " close:EIO")
				emit("compound " + old + " wf " + p + " " + pr + " unlink:EACCES")
			}
			emit("compound " + old + " wf " + p + " rename:EIO unlink:EIO")
			emit("compound " + old + " commit " + p + " rename:ENOSPC unlink:EIO")
			emit("compound " + old + " abort " + p + " none unlink:EIO")
			emit("compound " + old + " abort " + p + " none close:EIO")
		}
	}
}

func (compoundArea) Run(line string) string {
	f := strings.Fields(line)
	if len(f) != 6 {
		return "bad-op"
	}
	sysOnce.Do(learn)
	if sys.err != "" {
		return "ok skipped: strace " + sys.err
	}
	old := parseOld(f[1])
	s := scenario{f[1], "22", "644", f[2], f[3]}
	prim, sec := strings.Split(f[4], ":"), strings.Split(f[5], ":")
	cbFail, cbMode := -1, "p"
	var injects []string
	want := ""
	switch prim[0] {
	case "cb":
		cbFail, want = atoi(prim[1]), "cb"
	case "panic":
		cbFail, want, cbMode = atoi(prim[1]), "panic", "p!"
	case "write":
		want = "errno:" + prim[2]
		injects = append(injects, fmt.Sprintf("%s:error=%s:when=%d", sys.name["write"], prim[2], sys.offset["write"]+atoi(prim[1])+1))
	case "rename":
		want = "errno:" + prim[1]
		injects = append(injects, fmt.Sprintf("%s:error=%s:when=%d", sys.name["rename"], prim[1], sys.offset["rename"]+1))
	case "none":
		want = "errno:" + sec[1]
	}
	injects = append(injects, fmt.Sprintf("%s:error=%s:when=%d", sys.name[sec[0]], sec[1], sys.offset[sec[0]]+1))
	dir, dst := setup(old)
	defer cleanup(dir)
	oldState := fileState(dst)
	rd := startReader(dst, oldState)
	res, calls, e := runStrace(dir, dst, s, cbFail, cbMode, injects)
	rs := rd.finish()
	if e != "" {
		return "ok skipped: " + e
	}
	var seq []string
	hit := false
	for _, c := range calls {
		if c.canon == "" {
			continue
		}
		seq = append(seq, c.canon)
		if c.inj && c.kind == sec[0] {
			hit = true
		}
	}
	sq := strings.Join(seq, ";")
	if !hit {
		return "FAIL the secondary fault did not land on a " + sec[0] + " in the destination directory: " + sq
	}
	switch {
	case res != want:
		return "FAIL returned " + res + ", want " + want + ": " + sq
	case fileState(dst) != oldState:
		return "FAIL destination changed to " + fileState(dst) + ": " + sq
	case rs != "ok":
		return "FAIL reader saw " + rs
	case strings.Contains(sq+";", "rename tmp dst;"):
		return "FAIL a rename succeeded: " + sq
	case !strings.Contains(sq, "unlink tmp"):
		return "FAIL no attempt to remove the temporary file: " + sq
	}
	if sec[0] == "close" && len(extras(dir)) != 0 {
		return "FAIL temporary file left although only close failed: " + sq
	}
	return "ok " + sq + targetCheck(dir, old)
}
