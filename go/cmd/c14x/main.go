// Harness for C14 (safe file replacement): in-process histories of safe.File and safe.WriteFileWithMode, and
// strace-driven runs of a child process (action sequence, injected faults, kill points).
package main

import (
	"os"

	"verifharness/hx"
)

func main() {
	if len(os.Args) > 1 && os.Args[1] == "child" {
		childMain()
		return
	}
	if len(os.Args) > 1 && os.Args[1] == "probe" { // is strace usable here?
		os.Stdout.WriteString(probeStrace() + "\n")
		return
	}
	if len(os.Args) > 1 && os.Args[1] == "calibrate" { // measure the buffer size of WriteFileWithMode
		os.Stdout.WriteString(calibrate() + "\n")
		return
	}
	hx.Main(map[string]hx.Area{"api": &apiArea{}, "wf": wfArea{}, "trace": traceArea{}, "names": namesArea{},
		"race": raceArea{}, "compound": compoundArea{}, "paths": pathsArea{}, "dest": destArea{}, "collide": collideArea{}, "hist": histArea{}, "multi": multiArea{}, "duo": &duoArea{}})
}
