package main

import (
	"errors"
	"fmt"
	"io"
	"os"
	"path/filepath"

	"github.com/richardwilkes/toolbox/xio/fs/safe"
)

// The size of the buffer WriteFileWithMode puts in front of the temporary file is not constrained by the property; the
// check measures it from behaviour (how many bytes a callback can hand over before anything reaches the temporary
// file) and hands the measured value to generators, harness and model driver.

var errStop = errors.New("calibration done")

// tmpSize returns the size of the single entry beside the destination (the temporary file), -1 if there is none.
func tmpSize(dir string) int64 {
	ex := extras(dir)
	if len(ex) != 1 {
		return -1
	}
	st, err := os.Stat(filepath.Join(dir, ex[0]))
	if err != nil {
		return -1
	}
	return st.Size()
}

// firstFlush hands over pieces of the given size until the temporary file is no longer empty; it returns the bytes
// handed over before the Write that made data appear, and the size that appeared.
func firstFlush(piece, limit int) (handed int, appeared int64, err error) {
	dir, dst := setup(oldSpec{kind: "absent"})
	defer cleanup(dir)
	buf := make([]byte, piece)
	werr := safe.WriteFileWithMode(dst, func(w io.Writer) error {
		for handed <= limit {
			if _, e := w.Write(buf); e != nil {
				return e
			}
			if s := tmpSize(dir); s != 0 {
				appeared = s
				return errStop
			}
			handed += piece
		}
		return errors.New("nothing reached the temporary file")
	}, 0o644)
	if !errors.Is(werr, errStop) {
		return 0, 0, fmt.Errorf("probe with %d-byte pieces: %v", piece, werr)
	}
	if appeared < 0 {
		return 0, 0, errors.New("temporary file not found beside the destination")
	}
	return handed, appeared, nil
}

// sizesAfter hands over the given pieces and reports the temporary file's size after each.
func sizesAfter(pieces ...int) ([]int64, error) {
	dir, dst := setup(oldSpec{kind: "absent"})
	defer cleanup(dir)
	var out []int64
	werr := safe.WriteFileWithMode(dst, func(w io.Writer) error {
		for _, n := range pieces {
			if _, e := w.Write(make([]byte, n)); e != nil {
				return e
			}
			out = append(out, tmpSize(dir))
		}
		return errStop
	}, 0o644)
	if !errors.Is(werr, errStop) {
		return nil, werr
	}
	return out, nil
}

// calibrate prints "ok <N>" or "fail: <why>".
func calibrate() string {
	const limit = 64 << 20
	handed, appeared, err := firstFlush(4096, limit)
	if err != nil {
		return "fail: " + err.Error()
	}
	if handed == 0 { // the very first 4096-byte Write reached the file: the buffer is smaller than that
		if handed, appeared, err = firstFlush(1, 8192); err != nil {
			return "fail: " + err.Error()
		}
	}
	n := int(appeared)
	if n <= 0 || n < handed {
		return fmt.Sprintf("fail: inconsistent first flush (%d bytes handed over, %d appeared)", handed, appeared)
	}
	// cross-checks: N bytes stay buffered, one more byte flushes exactly N; N+1 bytes at once by-pass the buffer
	a, err := sizesAfter(n, 1)
	if err != nil || len(a) != 2 || a[0] != 0 || a[1] != int64(n) {
		return fmt.Sprintf("fail: cross-check N,1 with N=%d gave %v %v", n, a, err)
	}
	b, err := sizesAfter(n + 1)
	if err != nil || len(b) != 1 || b[0] != int64(n+1) {
		return fmt.Sprintf("fail: cross-check N+1 with N=%d gave %v %v", n, b, err)
	}
	if n > 1 {
		c, err2 := sizesAfter(n-1, 1, 1)
		if err2 != nil || len(c) != 3 || c[0] != 0 || c[1] != 0 || c[2] != int64(n) {
			return fmt.Sprintf("fail: cross-check N-1,1,1 with N=%d gave %v %v", n, c, err2)
		}
	}
	return fmt.Sprintf("ok %d", n)
}
