package main

import (
	"errors"
	"fmt"
	"hash/fnv"
	"os"
	"path/filepath"
	"strconv"
	"strings"
	"syscall"
)

// content bytes: byte i of a stream with the given seed (old destination content: seed 7, new content: seed 3).
func genBytes(off, n, seed int) []byte {
	b := make([]byte, n)
	for i := range b {
		b[i] = byte(((off+i)*31 + seed) % 251)
	}
	return b
}

const (
	seedNew = 3
	seedOld = 7
)

// bufSize is the size the repository passes to bufio.NewWriterSize (read from the source by the check and passed in
// the environment; generators centre their sizes on it).
func bufSize() int {
	if v, err := strconv.Atoi(os.Getenv("C14_BUFSIZE")); err == nil && v > 0 {
		return v
	}
	return 65536
}

// parsePieces: "-" = no Write call at all; otherwise comma separated sizes, "AxB" = B pieces of size A.
func parsePieces(s string) []int {
	if s == "-" {
		return nil
	}
	var out []int
	for _, w := range strings.Split(s, ",") {
		if i := strings.IndexByte(w, 'x'); i >= 0 {
			a, b := atoi(w[:i]), atoi(w[i+1:])
			for k := 0; k < b; k++ {
				out = append(out, a)
			}
		} else {
			out = append(out, atoi(w))
		}
	}
	return out
}

// chunkSizes lists the write(2) sizes of the fault-free scenario: bufio's fill/flush/bypass rule for kind "wf", one
// write per piece otherwise.  Used only to place faults and to enumerate fault positions; the expected outputs come
// from the Lean model.
func chunkSizes(kind string, ps []int) []int {
	if kind != "wf" {
		return append([]int(nil), ps...)
	}
	b := bufSize()
	var out []int
	buf := 0
	for _, p := range ps {
		for p > b-buf {
			if buf == 0 {
				out = append(out, p)
				p = 0
			} else {
				p -= b - buf
				buf = 0
				out = append(out, b)
			}
		}
		buf += p
	}
	if buf > 0 {
		out = append(out, buf)
	}
	return out
}

func atoi(s string) int {
	v, err := strconv.Atoi(s)
	if err != nil {
		panic("bad int " + s)
	}
	return v
}

func octal(s string) uint32 {
	v, err := strconv.ParseUint(s, 8, 32)
	if err != nil {
		panic("bad octal " + s)
	}
	return uint32(v)
}

// old destination: "absent" | "dir" | "file:<len>:<mode>" | "link:<len>:<mode>" (a symbolic link to such a file, which
// lives outside the destination directory) | "dangling" (a symbolic link to nothing)
type oldSpec struct {
	kind string
	n    int
	mode uint32
}

func parseOld(s string) oldSpec {
	switch {
	case s == "absent":
		return oldSpec{kind: "absent"}
	case s == "dir":
		return oldSpec{kind: "dir"}
	case s == "dangling":
		return oldSpec{kind: "dangling"}
	case s == "noparent": // the destination's directory does not exist
		return oldSpec{kind: "noparent"}
	case strings.HasPrefix(s, "file:"), strings.HasPrefix(s, "link:"):
		f := strings.Split(s, ":")
		return oldSpec{kind: f[0], n: atoi(f[1]), mode: octal(f[2])}
	}
	panic("bad old spec " + s)
}

// setup creates a fresh directory with the destination in its old state and returns (dir, dst path).
func setup(o oldSpec) (string, string) {
	dir, err := os.MkdirTemp(".", "d")
	if err != nil {
		panic(err)
	}
	dir, err = filepath.Abs(dir)
	if err != nil {
		panic(err)
	}
	if err = os.Chmod(dir, 0o755); err != nil {
		panic(err)
	}
	dst := filepath.Join(dir, "dst")
	switch o.kind {
	case "noparent":
		dst = filepath.Join(dir, "nodir", "dst")
	case "file":
		if err = os.WriteFile(dst, genBytes(0, o.n, seedOld), 0o600); err != nil {
			panic(err)
		}
		if err = os.Chmod(dst, os.FileMode(o.mode)); err != nil {
			panic(err)
		}
	case "dir":
		if err = os.Mkdir(dst, 0o755); err != nil {
			panic(err)
		}
	case "link":
		target := dir + ".target"
		if err = os.WriteFile(target, genBytes(0, o.n, seedOld), 0o600); err != nil {
			panic(err)
		}
		if err = os.Chmod(target, os.FileMode(o.mode)); err != nil {
			panic(err)
		}
		if err = os.Symlink(target, dst); err != nil {
			panic(err)
		}
	case "dangling":
		if err = os.Symlink(dir+".missing", dst); err != nil {
			panic(err)
		}
	}
	return dir, dst
}

// cleanup removes what setup created.
func cleanup(dir string) {
	os.RemoveAll(dir)
	os.Remove(dir + ".target")
}

// targetCheck: the file a symbolic-link destination pointed to must never be touched (the rename replaces the link).
func targetCheck(dir string, o oldSpec) string {
	switch o.kind {
	case "dir": // a directory destination must stay as setup made it: empty
		if es, err := os.ReadDir(filepath.Join(dir, "dst")); err != nil || len(es) > 0 {
			return fmt.Sprintf(" BAD:directory-destination-modified:%d-entries", len(es))
		}
	case "link":
		if s := readState(dir + ".target"); s != stateOf(genBytes(0, o.n, seedOld), o.mode) {
			return " BAD:link-target-modified:" + s
		}
	case "dangling":
		if _, err := os.Lstat(dir + ".missing"); err == nil {
			return " BAD:link-target-created"
		}
	}
	return ""
}

// fileState is readState plus the marker "@" when the path itself is a symbolic link.
func fileState(p string) string {
	st, err := os.Lstat(p)
	s := readState(p)
	if err == nil && st.Mode()&os.ModeSymlink != 0 {
		s += "@"
	}
	return s
}

// readState (what a reader of the path sees): "absent" | "dir" | "<len>:<fnv1a-64 hex>:<mode octal>" | "unreadable"
func readState(p string) string {
	f, err := os.Open(p)
	if err != nil {
		// no such entry — also when a file stands where a directory would have to be, or the name is longer than any
		// entry can be
		if os.IsNotExist(err) || errors.Is(err, syscall.ENOTDIR) || errors.Is(err, syscall.ENAMETOOLONG) {
			return "absent"
		}
		return "unreadable"
	}
	defer f.Close()
	st, err := f.Stat()
	if err != nil {
		return "unreadable"
	}
	if st.IsDir() {
		return "dir"
	}
	h := fnv.New64a()
	buf := make([]byte, 1<<16)
	n := 0
	for {
		k, rerr := f.Read(buf)
		h.Write(buf[:k])
		n += k
		if rerr != nil {
			break
		}
	}
	return fmt.Sprintf("%d:%x:%o", n, h.Sum64(), uint32(st.Mode().Perm()))
}

func stateOf(data []byte, mode uint32) string {
	h := fnv.New64a()
	h.Write(data)
	return fmt.Sprintf("%d:%x:%o", len(data), h.Sum64(), mode)
}

// extras lists the directory entries other than the destination.
func extras(dir string) []string {
	es, err := os.ReadDir(dir)
	if err != nil {
		return []string{"unreadable"}
	}
	var out []string
	for _, e := range es {
		if e.Name() != "dst" {
			out = append(out, e.Name())
		}
	}
	return out
}

var errCB = errors.New("callback failed")

// lastCbErr is the very error value the callback returned last; "the error is returned" is checked by identity.
var lastCbErr error = errCB

type cbErrT struct{}

func (*cbErrT) Error() string { return "typed-nil callback error" }

var errPanicked = errors.New("panic left WriteFileWithMode")

var errnoNames = map[syscall.Errno]string{
	syscall.ENOSPC: "ENOSPC", syscall.EIO: "EIO", syscall.EACCES: "EACCES", syscall.EISDIR: "EISDIR",
	syscall.ENOTEMPTY: "ENOTEMPTY", syscall.EEXIST: "EEXIST", syscall.EBADF: "EBADF", syscall.ENOENT: "ENOENT",
	syscall.EXDEV: "EXDEV", syscall.EFBIG: "EFBIG", syscall.ENOTDIR: "ENOTDIR", syscall.ENAMETOOLONG: "ENAMETOOLONG", syscall.EPERM: "EPERM", syscall.EROFS: "EROFS",
}

// resCode is the canonical form of a returned error (no paths).
func resCode(err error) string {
	if err == nil {
		return "ok"
	}
	var en syscall.Errno
	switch {
	case errors.Is(err, errPanicked):
		return "panic"
	case err == lastCbErr || errors.Is(err, errCB):
		return "cb"
	case errors.Is(err, os.ErrClosed):
		return "closed"
	case errors.As(err, &en):
		if n, ok := errnoNames[en]; ok {
			return "errno:" + n
		}
		return "errno:" + strconv.Itoa(int(en))
	case errors.Is(err, os.ErrInvalid):
		return "invalid"
	case errors.Is(err, os.ErrExist): // CreateTemp after 1000 collisions (a bare os.ErrExist, no errno)
		return "exist"
	}
	return "other"
}

// reader polls the destination until stop is closed; every observation must be one of the allowed states.
type reader struct {
	stop chan struct{}
	done chan string
}

func startReader(dst string, allowed ...string) *reader {
	r := &reader{stop: make(chan struct{}), done: make(chan string, 1)}
	ok := map[string]bool{}
	for _, a := range allowed {
		ok[strings.TrimSuffix(a, "@")] = true
	}
	go func() {
		bad := ""
		n := 0
		for {
			s := readState(dst)
			n++
			if !ok[s] && bad == "" {
				bad = s
			}
			select {
			case <-r.stop:
				if bad != "" {
					r.done <- "BAD:" + bad
				} else {
					r.done <- "ok"
				}
				return
			default:
			}
		}
	}()
	return r
}

func (r *reader) finish() string {
	close(r.stop)
	return <-r.done
}
