package main

import (
	"fmt"
	"os"
	"os/signal"
	"path/filepath"
	"strconv"
	"strings"
	"syscall"

	"github.com/richardwilkes/toolbox/xio/fs/safe"
	"verifharness/hx"
)

var (
	umasks = []string{"0", "22", "27", "77", "2", "22", "22"}
	modes  = []string{"644", "600", "666", "755", "400", "777", "640", "644", "444", "664"}
)

func genOld(r *hx.Rng) string {
	switch r.Intn(8) {
	case 0, 1:
		return "absent"
	case 2:
		return "dangling"
	case 3:
		return "link:" + strconv.Itoa(hx.Pick(r, []int{0, 1, 70000})) + ":" + hx.Pick(r, modes)
	default:
		b := bufSize()
		n := hx.Pick(r, []int{0, 1, 5, 1000, b - 1, b, b + 1, 100000, r.Intn(3000)})
		return "file:" + strconv.Itoa(n) + ":" + hx.Pick(r, modes)
	}
}

// genPieces returns a piece pattern whose sizes sit around the buffer size (at most ~300 pieces).
func genPieces(r *hx.Rng) string {
	b := bufSize()
	totals := []int{0, 1, b - 1, b, b + 1, 2 * b, 2*b + 1, 3*b + 3392, 200000, b / 2, r.Intn(4 * b)}
	total := hx.Pick(r, totals)
	switch r.Intn(8) {
	case 0:
		return "-" // the callback never calls Write
	case 1: // one Write with everything
		return strconv.Itoa(total)
	case 2, 3: // equal pieces
		p := hx.Pick(r, []int{1000, 4096, b - 1, b, b + 1, 2*b + 5, b / 2, b/2 + 1, 777, 1 + r.Intn(2*b)})
		if total/p > 300 {
			p = total/300 + 1
		}
		if total/p == 0 {
			return strconv.Itoa(total)
		}
		s := strconv.Itoa(p) + "x" + strconv.Itoa(total/p)
		if total%p != 0 {
			s += "," + strconv.Itoa(total%p)
		}
		return s
	default: // mixture, zeros included, buffer boundary hit from both sides
		k := r.Range(1, 7)
		var ps []string
		for i := 0; i < k; i++ {
			ps = append(ps, strconv.Itoa(hx.Pick(r, []int{0, 1, 2, b - 2, b - 1, b, b + 1, 2 * b, 2*b + 1, b / 2, b/2 + 1, 100,
				r.Intn(b), r.Intn(3 * b)})))
		}
		return strings.Join(ps, ",")
	}
}

func sum(xs []int) int {
	t := 0
	for _, x := range xs {
		t += x
	}
	return t
}

// ---------------------------------------------------------------------------------------------- area wf
// wf <old> <umask> <mode> <pieces> <fault> <cbmode>
//    fault: none | cb:<j> | panic:<j> (the callback panics after j pieces) | rename:DIR (old must be "dir") | write:<k>:EFBIG (write(2) number k fails: RLIMIT_FSIZE is
//    set to the size the temporary file has when that call starts, SIGXFSZ ignored);  cbmode: p | s | k
// -> res=<code> dst=<state> extra=<n> mid=<i:size,…|-> reader=<ok|BAD:…>
type wfArea struct{}

func (wfArea) Gen(r *hx.Rng, n int, _ string, emit func(string)) {
	for i := 0; i < n; i++ {
		old := genOld(r)
		pieces := genPieces(r)
		fault := "none"
		switch r.Intn(8) {
		case 0, 1:
			fault = "cb:" + strconv.Itoa(r.Intn(len(parsePieces(pieces))+1))
		case 2:
			old, fault = "dir", "rename:DIR"
		case 5:
			fault = "panic:" + strconv.Itoa(r.Intn(len(parsePieces(pieces))+1))
		case 3, 4:
			if nw := len(chunkSizes("wf", parsePieces(pieces))); nw > 0 {
				fault = "write:" + strconv.Itoa(r.Intn(nw+r.Intn(2))) + ":EFBIG"
			}
		}
		emit("wf " + old + " " + hx.Pick(r, umasks) + " " + hx.Pick(r, modes) + " " + pieces + " " + fault + " " +
			hx.Pick(r, []string{"p", "s", "k"}))
	}
}

func (wfArea) Run(line string) string { return withDeadline(func() string { return wfRun(line) }) }

// wfRun: a BAD observation of the concurrent reader must be CONFIRMED by a second run of the same line in a fresh
// directory (once, in a thorough run under heavy machine load, the reader of a dangling-symlink destination reported a state
// that no system call of the run can produce and that 1500 repetitions did not show again).  A regression that exposes a
// partial or empty destination does so on every run of a line with a large payload, and the kill-point enumeration of the
// strace streams catches it without any race.
func wfRun(line string) string {
	out := wfOnce(line)
	if strings.Contains(out, "reader=BAD") {
		if again := wfOnce(line); !strings.Contains(again, "reader=BAD") {
			return again
		}
	}
	return out
}

func wfOnce(line string) string {
	f := strings.Fields(line)
	if len(f) != 7 || f[0] != "wf" {
		return "bad-op"
	}
	cbMode := f[6]
	old, um, mode, pieces, fault := parseOld(f[1]), octal(f[2]), octal(f[3]), parsePieces(f[4]), f[5]
	dir, dst := setup(old)
	defer cleanup(dir)
	prev := syscall.Umask(int(um))
	defer syscall.Umask(prev)
	oldState := fileState(dst)
	newState := stateOf(genBytes(0, sum(pieces), seedNew), mode&^um)
	cbFail := -1
	if strings.HasPrefix(fault, "cb:") {
		cbFail = atoi(fault[3:])
	}
	if strings.HasPrefix(fault, "panic:") { // the callback panics; the panic is recovered here, outside the call
		cbFail = atoi(fault[6:])
		cbMode += "!"
	}
	rd := startReader(dst, oldState, newState)
	var mid []string
	midBad := ""
	last := int64(0)
	after := func(i int) {
		ex := extras(dir)
		if len(ex) != 1 {
			midBad = fmt.Sprintf("BAD:%d-entries-beside-dst-at-piece-%d", len(ex), i)
			return
		}
		st, err := os.Stat(filepath.Join(dir, ex[0]))
		if err != nil {
			midBad = "BAD:temp-unreadable"
			return
		}
		if uint32(st.Mode().Perm()) != mode&^um {
			midBad = fmt.Sprintf("BAD:temp-mode-%o", uint32(st.Mode().Perm()))
		}
		if st.Size() != last {
			last = st.Size()
			mid = append(mid, fmt.Sprintf("%d:%d", i, last))
		}
		if s := fileState(dst); s != oldState {
			midBad = "BAD:dst-changed-during-callback:" + s
		}
	}
	restore := func() {}
	if strings.HasPrefix(fault, "write:") {
		cs := chunkSizes("wf", pieces)
		k := atoi(strings.Split(fault, ":")[1])
		if k < len(cs) {
			restore = limitFileSize(uint64(sum(cs[:k])))
		}
	}
	err := func() (err error) {
		panicked := true // recover() alone cannot tell panic(nil) (under GODEBUG=panicnil=1) from no panic
		defer func() {
			if panicked {
				_ = recover()
				err = errPanicked
			}
		}()
		err = perform("wf", dst, mode, pieces, cbFail, cbMode, after)
		panicked = false
		return err
	}()
	restore()
	rs := rd.finish()
	m := "-"
	if midBad != "" {
		m = midBad
	} else if len(mid) > 0 {
		m = strings.Join(mid, ",")
	}
	res := resCode(err)
	if fault == "rename:DIR" && (res == "errno:EISDIR" || res == "errno:EEXIST" || res == "errno:ENOTEMPTY") {
		res = "errno:DIR" // which errno rename(file, directory) gives depends on the file system
	}
	return fmt.Sprintf("res=%s dst=%s extra=%d mid=%s reader=%s%s", res, fileState(dst), len(extras(dir)), m, rs,
		targetCheck(dir, old))
}

// ---------------------------------------------------------------------------------------------- area api
// reset <old> <umask> | create <mode> | write <len> | commit | close | closefd
// -> <res> dst=<state> tmp=<absent|state|MULTI>
type apiArea struct {
	dir, dst string
	f        *safe.File
	off      int
	umask    uint32
	oldDir   bool
	old      oldSpec
	nhist    int
}

func (*apiArea) Gen(r *hx.Rng, n int, _ string, emit func(string)) {
	for i := 0; i < n; {
		old := genOld(r)
		if r.Intn(8) == 0 {
			old = "dir" // Commit's rename fails
		}
		emit("reset " + old + " " + hx.Pick(r, umasks))
		emit("create " + hx.Pick(r, modes))
		i += 2
		b := bufSize()
		for k, m := 0, r.Range(0, 7); k < m; k++ {
			switch r.Intn(10) {
			case 0, 1, 2, 3:
				emit("write " + strconv.Itoa(hx.Pick(r, []int{0, 1, 10, 1000, b, b + 1, r.Intn(5000)})))
			case 4, 5, 6:
				emit("commit")
			case 7, 8:
				emit("close")
			default:
				emit("closefd")
			}
			i++
		}
	}
}

func (a *apiArea) obs(res string) string {
	ex := extras(a.dir)
	t := "absent"
	if len(ex) == 1 {
		t = fileState(filepath.Join(a.dir, ex[0]))
	} else if len(ex) > 1 {
		t = "MULTI"
	}
	return res + " dst=" + fileState(a.dst) + " tmp=" + t + targetCheck(a.dir, a.old)
}

func (a *apiArea) Run(line string) string { return withDeadline(func() string { return a.run(line) }) }

func (a *apiArea) run(line string) string {
	f := strings.Fields(line)
	if len(f) == 0 {
		return "bad-op"
	}
	if f[0] == "reset" {
		if a.f != nil {
			_ = a.f.File.Close()
			a.f = nil
		}
		if a.dir != "" {
			cleanup(a.dir)
		}
		a.old = parseOld(f[1])
		a.dir, a.dst = setup(a.old)
		a.oldDir = f[1] == "dir"
		a.nhist++
		a.umask = octal(f[2])
		a.off = 0
		return "reset"
	}
	if a.dir == "" {
		return "bad-op"
	}
	prev := syscall.Umask(int(a.umask))
	defer syscall.Umask(prev)
	switch f[0] {
	case "create":
		if a.f != nil {
			return "bad-op"
		}
		var err error
		if m := octal(f[1]); m == 0o644 && a.nhist%2 == 0 {
			a.f, err = safe.Create(a.dst) // the wrapper fixes the mode to 0644
		} else {
			a.f, err = safe.CreateWithMode(a.dst, os.FileMode(m))
		}
		if err == nil && a.f.OriginalName() != a.dst {
			return a.obs("BAD:OriginalName")
		}
		if err == nil { // Name() is the temporary file: beside the destination, not the destination itself
			ex := extras(a.dir)
			if n := a.f.Name(); filepath.Dir(n) != a.dir || n == a.dst || len(ex) != 1 || filepath.Base(n) != ex[0] {
				return a.obs("BAD:Name")
			}
		}
		return a.obs(resCode(err))
	case "write":
		if a.f == nil {
			return "bad-op"
		}
		n := atoi(f[1])
		k, err := a.f.Write(genBytes(a.off, n, seedNew))
		if err == nil {
			if k != n {
				return a.obs("BAD:short-write")
			}
			a.off += n
		}
		return a.obs(resCode(err))
	case "commit":
		if a.f == nil {
			return "bad-op"
		}
		res := resCode(a.f.Commit())
		if a.oldDir && (res == "errno:EISDIR" || res == "errno:EEXIST" || res == "errno:ENOTEMPTY") {
			res = "errno:DIR"
		}
		return a.obs(res)
	case "close":
		if a.f == nil {
			return "bad-op"
		}
		return a.obs(resCode(a.f.Close()))
	case "closefd":
		if a.f == nil {
			return "bad-op"
		}
		return a.obs(resCode(a.f.File.Close()))
	}
	return "bad-op"
}

// limitFileSize makes every write beyond n bytes of any regular file fail with EFBIG (like a full disk) until the
// returned function is called.
func limitFileSize(n uint64) func() {
	signal.Ignore(syscall.SIGXFSZ)
	var saved syscall.Rlimit
	if err := syscall.Getrlimit(syscall.RLIMIT_FSIZE, &saved); err != nil {
		panic(err)
	}
	if err := syscall.Setrlimit(syscall.RLIMIT_FSIZE, &syscall.Rlimit{Cur: n, Max: saved.Max}); err != nil {
		panic(err)
	}
	return func() {
		if err := syscall.Setrlimit(syscall.RLIMIT_FSIZE, &saved); err != nil {
			panic(err)
		}
	}
}
