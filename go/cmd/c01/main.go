// Harness for C01 (128-bit integers): drives every exported arithmetic / ordering / bit method of num.Uint128 and
// num.Int128.  Line protocol: `u <op> <args…>` / `i <op> <args…>`; 128-bit operand `hi:lo` (hex), 64-bit operand
// `x<hex>` (int64 operands: two's-complement bit pattern), counts / bit indexes decimal.
package main

import (
	"fmt"
	"hash/fnv"
	"runtime"
	"runtime/debug"
	"strconv"
	"strings"
	"time"

	"github.com/richardwilkes/toolbox/xmath/num"
	"verifharness/hx"
)

type area struct{}

// ---------------------------------------------------------------------------------------------- run

func pU(s string) num.Uint128 {
	k := strings.IndexByte(s, ':')
	if k < 0 {
		panic("hx: bad u128 " + s)
	}
	hi, err := strconv.ParseUint(s[:k], 16, 64)
	if err != nil {
		panic("hx: bad u128 " + s)
	}
	lo, err2 := strconv.ParseUint(s[k+1:], 16, 64)
	if err2 != nil {
		panic("hx: bad u128 " + s)
	}
	return num.Uint128FromComponents(hi, lo)
}

func pI(s string) num.Int128 {
	hi, lo := pU(s).Components()
	return num.Int128FromComponents(hi, lo)
}

// alt is set per line (from a hash of the line): operands are then built and results read through the
// reinterpreting conversions AsInt128 / AsUint128 instead of FromComponents / Components, so that both ways of
// getting a value in and out of the two types are exercised by every operation (hardening class 3).
var alt bool

func mkU(s string) num.Uint128 {
	if alt {
		return pI(s).AsUint128()
	}
	return pU(s)
}

func mkI(s string) num.Int128 {
	if alt {
		return pU(s).AsInt128()
	}
	return pI(s)
}

func pW(s string) uint64 {
	if len(s) < 2 || s[0] != 'x' {
		panic("hx: bad word " + s)
	}
	v, err := strconv.ParseUint(s[1:], 16, 64)
	if err != nil {
		panic("hx: bad word " + s)
	}
	return v
}

func fU(u num.Uint128) string {
	hi, lo := u.Components()
	if alt {
		hi, lo = u.AsInt128().Components()
	}
	return strconv.FormatUint(hi, 16) + ":" + strconv.FormatUint(lo, 16)
}

func fI(i num.Int128) string {
	hi, lo := i.Components()
	if alt {
		hi, lo = i.AsUint128().Components()
	}
	return strconv.FormatUint(hi, 16) + ":" + strconv.FormatUint(lo, 16)
}

func fW(v uint64) string { return "x" + strconv.FormatUint(v, 16) }

var uUU = map[string]func(a, b num.Uint128) string{
	"add":      func(a, b num.Uint128) string { return fU(a.Add(b)) },
	"sub":      func(a, b num.Uint128) string { return fU(a.Sub(b)) },
	"mul":      func(a, b num.Uint128) string { return fU(a.Mul(b)) },
	"div":      func(a, b num.Uint128) string { return fU(a.Div(b)) },
	"mod":      func(a, b num.Uint128) string { return fU(a.Mod(b)) },
	"divmod":   func(a, b num.Uint128) string { q, r := a.DivMod(b); return fU(q) + " " + fU(r) },
	"and":      func(a, b num.Uint128) string { return fU(a.And(b)) },
	"or":       func(a, b num.Uint128) string { return fU(a.Or(b)) },
	"xor":      func(a, b num.Uint128) string { return fU(a.Xor(b)) },
	"andnot":   func(a, b num.Uint128) string { return fU(a.AndNot(b)) },
	"andnot64": func(a, b num.Uint128) string { return fU(a.AndNot64(b)) },
	"cmp":      func(a, b num.Uint128) string { return strconv.Itoa(a.Cmp(b)) },
	"gt":       func(a, b num.Uint128) string { return strconv.FormatBool(a.GreaterThan(b)) },
	"ge":       func(a, b num.Uint128) string { return strconv.FormatBool(a.GreaterThanOrEqual(b)) },
	"eq":       func(a, b num.Uint128) string { return strconv.FormatBool(a.Equal(b)) },
	"lt":       func(a, b num.Uint128) string { return strconv.FormatBool(a.LessThan(b)) },
	"le":       func(a, b num.Uint128) string { return strconv.FormatBool(a.LessThanOrEqual(b)) },
}

var uUW = map[string]func(a num.Uint128, b uint64) string{
	"add64":    func(a num.Uint128, b uint64) string { return fU(a.Add64(b)) },
	"sub64":    func(a num.Uint128, b uint64) string { return fU(a.Sub64(b)) },
	"mul64":    func(a num.Uint128, b uint64) string { return fU(a.Mul64(b)) },
	"div64":    func(a num.Uint128, b uint64) string { return fU(a.Div64(b)) },
	"mod64":    func(a num.Uint128, b uint64) string { return fU(a.Mod64(b)) },
	"divmod64": func(a num.Uint128, b uint64) string { q, r := a.DivMod64(b); return fU(q) + " " + fU(r) },
	"and64":    func(a num.Uint128, b uint64) string { return fU(a.And64(b)) },
	"or64":     func(a num.Uint128, b uint64) string { return fU(a.Or64(b)) },
	"xor64":    func(a num.Uint128, b uint64) string { return fU(a.Xor64(b)) },
	"cmp64":    func(a num.Uint128, b uint64) string { return strconv.Itoa(a.Cmp64(b)) },
	"gt64":     func(a num.Uint128, b uint64) string { return strconv.FormatBool(a.GreaterThan64(b)) },
	"ge64":     func(a num.Uint128, b uint64) string { return strconv.FormatBool(a.GreaterThanOrEqual64(b)) },
	"eq64":     func(a num.Uint128, b uint64) string { return strconv.FormatBool(a.Equal64(b)) },
	"lt64":     func(a num.Uint128, b uint64) string { return strconv.FormatBool(a.LessThan64(b)) },
	"le64":     func(a num.Uint128, b uint64) string { return strconv.FormatBool(a.LessThanOrEqual64(b)) },
}

var uU = map[string]func(a num.Uint128) string{
	"inc":       func(a num.Uint128) string { return fU(a.Inc()) },
	"dec":       func(a num.Uint128) string { return fU(a.Dec()) },
	"not":       func(a num.Uint128) string { return fU(a.Not()) },
	"bitlen":    func(a num.Uint128) string { return strconv.Itoa(a.BitLen()) },
	"onescount": func(a num.Uint128) string { return strconv.Itoa(a.OnesCount()) },
	"lz":        func(a num.Uint128) string { return strconv.FormatUint(uint64(a.LeadingZeros()), 10) },
	"tz":        func(a num.Uint128) string { return strconv.FormatUint(uint64(a.TrailingZeros()), 10) },
	"iszero":    func(a num.Uint128) string { return strconv.FormatBool(a.IsZero()) },
	"isint128":  func(a num.Uint128) string { return strconv.FormatBool(a.IsInt128()) },
	"isuint64":  func(a num.Uint128) string { return strconv.FormatBool(a.IsUint64()) },
	"asuint64":  func(a num.Uint128) string { return fW(a.AsUint64()) },
}

var iII = map[string]func(a, b num.Int128) string{
	"add":    func(a, b num.Int128) string { return fI(a.Add(b)) },
	"sub":    func(a, b num.Int128) string { return fI(a.Sub(b)) },
	"mul":    func(a, b num.Int128) string { return fI(a.Mul(b)) },
	"div":    func(a, b num.Int128) string { return fI(a.Div(b)) },
	"mod":    func(a, b num.Int128) string { return fI(a.Mod(b)) },
	"divmod": func(a, b num.Int128) string { q, r := a.DivMod(b); return fI(q) + " " + fI(r) },
	"cmp":    func(a, b num.Int128) string { return strconv.Itoa(a.Cmp(b)) },
	"gt":     func(a, b num.Int128) string { return strconv.FormatBool(a.GreaterThan(b)) },
	"ge":     func(a, b num.Int128) string { return strconv.FormatBool(a.GreaterThanOrEqual(b)) },
	"eq":     func(a, b num.Int128) string { return strconv.FormatBool(a.Equal(b)) },
	"lt":     func(a, b num.Int128) string { return strconv.FormatBool(a.LessThan(b)) },
	"le":     func(a, b num.Int128) string { return strconv.FormatBool(a.LessThanOrEqual(b)) },
}

var iIW = map[string]func(a num.Int128, b int64) string{
	"add64":    func(a num.Int128, b int64) string { return fI(a.Add64(b)) },
	"sub64":    func(a num.Int128, b int64) string { return fI(a.Sub64(b)) },
	"mul64":    func(a num.Int128, b int64) string { return fI(a.Mul64(b)) },
	"div64":    func(a num.Int128, b int64) string { return fI(a.Div64(b)) },
	"mod64":    func(a num.Int128, b int64) string { return fI(a.Mod64(b)) },
	"divmod64": func(a num.Int128, b int64) string { q, r := a.DivMod64(b); return fI(q) + " " + fI(r) },
	"cmp64":    func(a num.Int128, b int64) string { return strconv.Itoa(a.Cmp64(b)) },
	"gt64":     func(a num.Int128, b int64) string { return strconv.FormatBool(a.GreaterThan64(b)) },
	"ge64":     func(a num.Int128, b int64) string { return strconv.FormatBool(a.GreaterThanOrEqual64(b)) },
	"eq64":     func(a num.Int128, b int64) string { return strconv.FormatBool(a.Equal64(b)) },
	"lt64":     func(a num.Int128, b int64) string { return strconv.FormatBool(a.LessThan64(b)) },
	"le64":     func(a num.Int128, b int64) string { return strconv.FormatBool(a.LessThanOrEqual64(b)) },
}

var iI = map[string]func(a num.Int128) string{
	"inc":       func(a num.Int128) string { return fI(a.Inc()) },
	"dec":       func(a num.Int128) string { return fI(a.Dec()) },
	"neg":       func(a num.Int128) string { return fI(a.Neg()) },
	"abs":       func(a num.Int128) string { return fI(a.Abs()) },
	"absu":      func(a num.Int128) string { return fU(a.AbsUint128()) },
	"sign":      func(a num.Int128) string { return strconv.Itoa(a.Sign()) },
	"iszero":    func(a num.Int128) string { return strconv.FormatBool(a.IsZero()) },
	"isuint128": func(a num.Int128) string { return strconv.FormatBool(a.IsUint128()) },
	"isint64":   func(a num.Int128) string { return strconv.FormatBool(a.IsInt64()) },
	"asint64":   func(a num.Int128) string { return fW(uint64(a.AsInt64())) },
	"isuint64":  func(a num.Int128) string { return strconv.FormatBool(a.IsUint64()) },
	"asuint64":  func(a num.Int128) string { return fW(a.AsUint64()) },
}

func exec(line string) string {
	f := strings.Fields(line)
	if len(f) < 3 {
		return "bad-op"
	}
	op := f[1]
	if op == "limit" {
		// the exported limit variables themselves (the model has them as constants: U128.maxU128, I128.maxI128/minI128)
		switch f[0] + " " + f[2] {
		case "u max":
			return fU(num.MaxUint128)
		case "i max":
			return fI(num.MaxInt128)
		case "i min":
			return fI(num.MinInt128)
		}
		return "bad-op"
	}
	h := fnv.New32a()
	h.Write([]byte(line))
	alt = h.Sum32()&1 == 1
	switch f[0] {
	case "u":
		switch len(f) {
		case 3:
			if fn, ok := uU[op]; ok {
				return fn(mkU(f[2]))
			}
			if op == "from64" {
				return fU(num.Uint128From64(pW(f[2])))
			}
		case 4:
			if fn, ok := uUU[op]; ok {
				return fn(mkU(f[2]), mkU(f[3]))
			}
			if fn, ok := uUW[op]; ok {
				return fn(mkU(f[2]), pW(f[3]))
			}
			switch op {
			case "shl", "shr":
				c, err := strconv.ParseUint(f[3], 10, 64)
				if err != nil {
					return "bad-op"
				}
				if op == "shl" {
					return fU(mkU(f[2]).LeftShift(uint(c)))
				}
				return fU(mkU(f[2]).RightShift(uint(c)))
			case "bit":
				i, err := strconv.ParseInt(f[3], 10, 64)
				if err != nil {
					return "bad-op"
				}
				return strconv.FormatUint(uint64(mkU(f[2]).Bit(int(i))), 10)
			}
		case 5:
			if op == "setbit" {
				i, err := strconv.ParseInt(f[3], 10, 64)
				b, err2 := strconv.ParseUint(f[4], 10, 64)
				if err != nil || err2 != nil {
					return "bad-op"
				}
				return fU(mkU(f[2]).SetBit(int(i), uint(b)))
			}
		}
	case "i":
		switch len(f) {
		case 3:
			if fn, ok := iI[op]; ok {
				return fn(mkI(f[2]))
			}
			if op == "from64" {
				return fI(num.Int128From64(int64(pW(f[2]))))
			}
			if op == "fromu64" {
				return fI(num.Int128FromUint64(pW(f[2])))
			}
		case 4:
			if fn, ok := iII[op]; ok {
				return fn(mkI(f[2]), mkI(f[3]))
			}
			if fn, ok := iIW[op]; ok {
				return fn(mkI(f[2]), int64(pW(f[3])))
			}
		}
	}
	return "bad-op"
}

// The exported limit variables take part in the arithmetic (Neg / AbsUint128 compare with MinInt128): an operation that
// modified one of them would silently change later results.
var (
	maxU128Hi, maxU128Lo = num.MaxUint128.Components()
	maxI128Hi, maxI128Lo = num.MaxInt128.Components()
	minI128Hi, minI128Lo = num.MinInt128.Components()
)

func globalsIntact() bool {
	a, b := num.MaxUint128.Components()
	c, d := num.MaxInt128.Components()
	e, f := num.MinInt128.Components()
	return a == ^uint64(0) && b == ^uint64(0) && c == 1<<63-1 && d == ^uint64(0) && e == 1<<63 && f == 0 &&
		a == maxU128Hi && b == maxU128Lo && c == maxI128Hi && d == maxI128Lo && e == minI128Hi && f == minI128Lo
}

// Per-call deadline (hardening class 8): every operation runs in its own goroutine; an operation that does not return
// within the deadline is reported as `hang` for that line (the spinning goroutine is abandoned).  After three hangs the
// rest of the stream is skipped, so that a looping mutant costs seconds, not the stream's timeout.
const callDeadline = 2 * time.Second

var hangs int

// panicClass is the canonical class of a recovered panic value.  The property says that division or remainder by zero
// panics (the library's own value "divide by zero") and that nothing else does; the model states which panic each entry
// point raises (today: the explicit one, everywhere), so a change of WHICH panic fires is visible.
//
//	panic:divzero         the library's explicit panic: a non-runtime value whose text is "divide by zero"
//	panic:runtime-divide  the Go runtime's own integer-divide panic
//	panic:runtime         any other runtime.Error (index out of range, nil dereference, ...)
//	panic:other           anything else
func panicClass(r any) string {
	if re, ok := r.(runtime.Error); ok {
		if strings.Contains(re.Error(), "integer divide by zero") {
			return "panic:runtime-divide"
		}
		return "panic:runtime"
	}
	if fmt.Sprint(r) == "divide by zero" {
		return "panic:divzero"
	}
	return "panic:other"
}

func (area) Run(line string) string {
	if hangs >= 3 {
		return "skipped-after-crash"
	}
	done := make(chan string, 1)
	go func() {
		defer func() {
			if r := recover(); r != nil {
				done <- panicClass(r)
			}
		}()
		done <- exec(line)
	}()
	t := time.NewTimer(callDeadline)
	defer t.Stop()
	select {
	case out := <-done:
		if !globalsIntact() {
			return "FAIL exported limit variable (MaxUint128/MaxInt128/MinInt128) modified; " + out
		}
		return out
	case <-t.C:
		hangs++
		return "hang"
	}
}

func main() {
	// unbounded recursion is fatal in Go (not recoverable); a small limit makes such a mutant die in milliseconds
	// instead of after filling a 1 GB stack, so that the crash is attributed to its line within the quick budget
	debug.SetMaxStack(32 << 20)
	hx.Main(map[string]hx.Area{"int128": area{}})
}
