// Harness for C01 (128-bit integers): drives every exported arithmetic / ordering / bit method of num.Uint128 and
// num.Int128.  Line protocol: `u <op> <args…>` / `i <op> <args…>`; 128-bit operand `hi:lo` (hex), 64-bit operand
// `x<hex>` (int64 operands: two's-complement bit pattern), counts / bit indexes decimal.
package main

import (
	"strconv"
	"strings"

	"github.com/richardwilkes/toolbox/xmath/num"
	"verifharness/hx"
)

type area struct{}

// ---------------------------------------------------------------------------------------------- run

func pU(s string) num.Uint128 {
	k := strings.IndexByte(s, ':')
	if k < 0 {
		panic("hx: bad u128 " + s)
	}
	hi, err := strconv.ParseUint(s[:k], 16, 64)
	if err != nil {
		panic("hx: bad u128 " + s)
	}
	lo, err2 := strconv.ParseUint(s[k+1:], 16, 64)
	if err2 != nil {
		panic("hx: bad u128 " + s)
	}
	return num.Uint128FromComponents(hi, lo)
}

func pI(s string) num.Int128 {
	hi, lo := pU(s).Components()
	return num.Int128FromComponents(hi, lo)
}

func pW(s string) uint64 {
	if len(s) < 2 || s[0] != 'x' {
		panic("hx: bad word " + s)
	}
	v, err := strconv.ParseUint(s[1:], 16, 64)
	if err != nil {
		panic("hx: bad word " + s)
	}
	return v
}

func fU(u num.Uint128) string {
	hi, lo := u.Components()
	return strconv.FormatUint(hi, 16) + ":" + strconv.FormatUint(lo, 16)
}

func fI(i num.Int128) string {
	hi, lo := i.Components()
	return strconv.FormatUint(hi, 16) + ":" + strconv.FormatUint(lo, 16)
}

func fW(v uint64) string { return "x" + strconv.FormatUint(v, 16) }

var uUU = map[string]func(a, b num.Uint128) string{
	"add":      func(a, b num.Uint128) string { return fU(a.Add(b)) },
	"sub":      func(a, b num.Uint128) string { return fU(a.Sub(b)) },
	"mul":      func(a, b num.Uint128) string { return fU(a.Mul(b)) },
	"div":      func(a, b num.Uint128) string { return fU(a.Div(b)) },
	"mod":      func(a, b num.Uint128) string { return fU(a.Mod(b)) },
	"divmod":   func(a, b num.Uint128) string { q, r := a.DivMod(b); return fU(q) + " " + fU(r) },
	"and":      func(a, b num.Uint128) string { return fU(a.And(b)) },
	"or":       func(a, b num.Uint128) string { return fU(a.Or(b)) },
	"xor":      func(a, b num.Uint128) string { return fU(a.Xor(b)) },
	"andnot":   func(a, b num.Uint128) string { return fU(a.AndNot(b)) },
	"andnot64": func(a, b num.Uint128) string { return fU(a.AndNot64(b)) },
	"cmp":      func(a, b num.Uint128) string { return strconv.Itoa(a.Cmp(b)) },
	"gt":       func(a, b num.Uint128) string { return strconv.FormatBool(a.GreaterThan(b)) },
	"ge":       func(a, b num.Uint128) string { return strconv.FormatBool(a.GreaterThanOrEqual(b)) },
	"eq":       func(a, b num.Uint128) string { return strconv.FormatBool(a.Equal(b)) },
	"lt":       func(a, b num.Uint128) string { return strconv.FormatBool(a.LessThan(b)) },
	"le":       func(a, b num.Uint128) string { return strconv.FormatBool(a.LessThanOrEqual(b)) },
}

var uUW = map[string]func(a num.Uint128, b uint64) string{
	"add64":    func(a num.Uint128, b uint64) string { return fU(a.Add64(b)) },
	"sub64":    func(a num.Uint128, b uint64) string { return fU(a.Sub64(b)) },
	"mul64":    func(a num.Uint128, b uint64) string { return fU(a.Mul64(b)) },
	"div64":    func(a num.Uint128, b uint64) string { return fU(a.Div64(b)) },
	"mod64":    func(a num.Uint128, b uint64) string { return fU(a.Mod64(b)) },
	"divmod64": func(a num.Uint128, b uint64) string { q, r := a.DivMod64(b); return fU(q) + " " + fU(r) },
	"and64":    func(a num.Uint128, b uint64) string { return fU(a.And64(b)) },
	"or64":     func(a num.Uint128, b uint64) string { return fU(a.Or64(b)) },
	"xor64":    func(a num.Uint128, b uint64) string { return fU(a.Xor64(b)) },
	"cmp64":    func(a num.Uint128, b uint64) string { return strconv.Itoa(a.Cmp64(b)) },
	"gt64":     func(a num.Uint128, b uint64) string { return strconv.FormatBool(a.GreaterThan64(b)) },
	"ge64":     func(a num.Uint128, b uint64) string { return strconv.FormatBool(a.GreaterThanOrEqual64(b)) },
	"eq64":     func(a num.Uint128, b uint64) string { return strconv.FormatBool(a.Equal64(b)) },
	"lt64":     func(a num.Uint128, b uint64) string { return strconv.FormatBool(a.LessThan64(b)) },
	"le64":     func(a num.Uint128, b uint64) string { return strconv.FormatBool(a.LessThanOrEqual64(b)) },
}

var uU = map[string]func(a num.Uint128) string{
	"inc":       func(a num.Uint128) string { return fU(a.Inc()) },
	"dec":       func(a num.Uint128) string { return fU(a.Dec()) },
	"not":       func(a num.Uint128) string { return fU(a.Not()) },
	"bitlen":    func(a num.Uint128) string { return strconv.Itoa(a.BitLen()) },
	"onescount": func(a num.Uint128) string { return strconv.Itoa(a.OnesCount()) },
	"lz":        func(a num.Uint128) string { return strconv.FormatUint(uint64(a.LeadingZeros()), 10) },
	"tz":        func(a num.Uint128) string { return strconv.FormatUint(uint64(a.TrailingZeros()), 10) },
	"iszero":    func(a num.Uint128) string { return strconv.FormatBool(a.IsZero()) },
	"isint128":  func(a num.Uint128) string { return strconv.FormatBool(a.IsInt128()) },
	"isuint64":  func(a num.Uint128) string { return strconv.FormatBool(a.IsUint64()) },
	"asuint64":  func(a num.Uint128) string { return fW(a.AsUint64()) },
}

var iII = map[string]func(a, b num.Int128) string{
	"add":    func(a, b num.Int128) string { return fI(a.Add(b)) },
	"sub":    func(a, b num.Int128) string { return fI(a.Sub(b)) },
	"mul":    func(a, b num.Int128) string { return fI(a.Mul(b)) },
	"div":    func(a, b num.Int128) string { return fI(a.Div(b)) },
	"mod":    func(a, b num.Int128) string { return fI(a.Mod(b)) },
	"divmod": func(a, b num.Int128) string { q, r := a.DivMod(b); return fI(q) + " " + fI(r) },
	"cmp":    func(a, b num.Int128) string { return strconv.Itoa(a.Cmp(b)) },
	"gt":     func(a, b num.Int128) string { return strconv.FormatBool(a.GreaterThan(b)) },
	"ge":     func(a, b num.Int128) string { return strconv.FormatBool(a.GreaterThanOrEqual(b)) },
	"eq":     func(a, b num.Int128) string { return strconv.FormatBool(a.Equal(b)) },
	"lt":     func(a, b num.Int128) string { return strconv.FormatBool(a.LessThan(b)) },
	"le":     func(a, b num.Int128) string { return strconv.FormatBool(a.LessThanOrEqual(b)) },
}

var iIW = map[string]func(a num.Int128, b int64) string{
	"add64":    func(a num.Int128, b int64) string { return fI(a.Add64(b)) },
	"sub64":    func(a num.Int128, b int64) string { return fI(a.Sub64(b)) },
	"mul64":    func(a num.Int128, b int64) string { return fI(a.Mul64(b)) },
	"div64":    func(a num.Int128, b int64) string { return fI(a.Div64(b)) },
	"mod64":    func(a num.Int128, b int64) string { return fI(a.Mod64(b)) },
	"divmod64": func(a num.Int128, b int64) string { q, r := a.DivMod64(b); return fI(q) + " " + fI(r) },
	"cmp64":    func(a num.Int128, b int64) string { return strconv.Itoa(a.Cmp64(b)) },
	"gt64":     func(a num.Int128, b int64) string { return strconv.FormatBool(a.GreaterThan64(b)) },
	"ge64":     func(a num.Int128, b int64) string { return strconv.FormatBool(a.GreaterThanOrEqual64(b)) },
	"eq64":     func(a num.Int128, b int64) string { return strconv.FormatBool(a.Equal64(b)) },
	"lt64":     func(a num.Int128, b int64) string { return strconv.FormatBool(a.LessThan64(b)) },
	"le64":     func(a num.Int128, b int64) string { return strconv.FormatBool(a.LessThanOrEqual64(b)) },
}

var iI = map[string]func(a num.Int128) string{
	"inc":       func(a num.Int128) string { return fI(a.Inc()) },
	"dec":       func(a num.Int128) string { return fI(a.Dec()) },
	"neg":       func(a num.Int128) string { return fI(a.Neg()) },
	"abs":       func(a num.Int128) string { return fI(a.Abs()) },
	"absu":      func(a num.Int128) string { return fU(a.AbsUint128()) },
	"sign":      func(a num.Int128) string { return strconv.Itoa(a.Sign()) },
	"iszero":    func(a num.Int128) string { return strconv.FormatBool(a.IsZero()) },
	"isuint128": func(a num.Int128) string { return strconv.FormatBool(a.IsUint128()) },
	"isint64":   func(a num.Int128) string { return strconv.FormatBool(a.IsInt64()) },
	"asint64":   func(a num.Int128) string { return fW(uint64(a.AsInt64())) },
	"isuint64":  func(a num.Int128) string { return strconv.FormatBool(a.IsUint64()) },
	"asuint64":  func(a num.Int128) string { return fW(a.AsUint64()) },
}

func (area) Run(line string) string {
	f := strings.Fields(line)
	if len(f) < 3 {
		return "bad-op"
	}
	op := f[1]
	switch f[0] {
	case "u":
		switch len(f) {
		case 3:
			if fn, ok := uU[op]; ok {
				return fn(pU(f[2]))
			}
			if op == "from64" {
				return fU(num.Uint128From64(pW(f[2])))
			}
		case 4:
			if fn, ok := uUU[op]; ok {
				return fn(pU(f[2]), pU(f[3]))
			}
			if fn, ok := uUW[op]; ok {
				return fn(pU(f[2]), pW(f[3]))
			}
			switch op {
			case "shl", "shr":
				c, err := strconv.ParseUint(f[3], 10, 64)
				if err != nil {
					return "bad-op"
				}
				if op == "shl" {
					return fU(pU(f[2]).LeftShift(uint(c)))
				}
				return fU(pU(f[2]).RightShift(uint(c)))
			case "bit":
				i, err := strconv.ParseInt(f[3], 10, 64)
				if err != nil {
					return "bad-op"
				}
				return strconv.FormatUint(uint64(pU(f[2]).Bit(int(i))), 10)
			}
		case 5:
			if op == "setbit" {
				i, err := strconv.ParseInt(f[3], 10, 64)
				b, err2 := strconv.ParseUint(f[4], 10, 64)
				if err != nil || err2 != nil {
					return "bad-op"
				}
				return fU(pU(f[2]).SetBit(int(i), uint(b)))
			}
		}
	case "i":
		switch len(f) {
		case 3:
			if fn, ok := iI[op]; ok {
				return fn(pI(f[2]))
			}
			if op == "from64" {
				return fI(num.Int128From64(int64(pW(f[2]))))
			}
			if op == "fromu64" {
				return fI(num.Int128FromUint64(pW(f[2])))
			}
		case 4:
			if fn, ok := iII[op]; ok {
				return fn(pI(f[2]), pI(f[3]))
			}
			if fn, ok := iIW[op]; ok {
				return fn(pI(f[2]), int64(pW(f[3])))
			}
		}
	}
	return "bad-op"
}

func main() { hx.Main(map[string]hx.Area{"int128": area{}}) }
