package main

import (
	"math/big"
	"math/bits"
	"strconv"

	"verifharness/hx"
)

// v128 is the generator's own 128-bit value (independent of the package under test).
type v128 struct{ hi, lo uint64 }

func (v v128) String() string {
	return strconv.FormatUint(v.hi, 16) + ":" + strconv.FormatUint(v.lo, 16)
}

func (v v128) big() *big.Int {
	b := new(big.Int).SetUint64(v.hi)
	b.Lsh(b, 64)
	return b.Or(b, new(big.Int).SetUint64(v.lo))
}

var mask128 = new(big.Int).Sub(new(big.Int).Lsh(big.NewInt(1), 128), big.NewInt(1))

func fromBig(b *big.Int) v128 {
	x := new(big.Int).And(b, mask128) // also maps negative values to two's complement
	lo := new(big.Int).And(x, new(big.Int).SetUint64(^uint64(0))).Uint64()
	hi := new(big.Int).Rsh(x, 64).Uint64()
	return v128{hi, lo}
}

func (v v128) bitLen() int {
	if v.hi != 0 {
		return 64 + bits.Len64(v.hi)
	}
	return bits.Len64(v.lo)
}

func (v v128) shr(n int) v128 {
	switch {
	case n <= 0:
		return v
	case n >= 128:
		return v128{}
	case n >= 64:
		return v128{0, v.hi >> uint(n-64)}
	default:
		return v128{v.hi >> uint(n), v.lo>>uint(n) | v.hi<<uint(64-n)}
	}
}

func (v v128) shl(n int) v128 {
	switch {
	case n <= 0:
		return v
	case n >= 128:
		return v128{}
	case n >= 64:
		return v128{v.lo << uint(n-64), 0}
	default:
		return v128{v.hi<<uint(n) | v.lo>>uint(64-n), v.lo << uint(n)}
	}
}

var digits32 = []uint32{0, 1, 2, 0x7fffffff, 0x80000000, 0x80000001, 0xfffffffe, 0xffffffff, 0x0000ffff, 0xffff0000}

func digit(r *hx.Rng) uint64 {
	if r.Chance(2, 5) {
		return uint64(uint32(r.U64()))
	}
	return uint64(hx.Pick(r, digits32))
}

// digitPattern builds a value from four 32-bit digits chosen among extreme values (drives the Knuth-D corrections).
func digitPattern(r *hx.Rng) v128 {
	return v128{digit(r)<<32 | digit(r), digit(r)<<32 | digit(r)}
}

// withBitLen returns a value whose bit length is exactly n (0..128), the lower bits following a random pattern.
func withBitLen(r *hx.Rng, n int) v128 {
	if n <= 0 {
		return v128{}
	}
	var v v128
	switch r.Intn(6) {
	case 0: // 100…0
		v = v128{1 << 63, 0}
	case 1: // 111…1
		v = v128{^uint64(0), ^uint64(0)}
	case 2: // 100…01
		v = v128{1 << 63, 0}
		v = v.shr(128 - n)
		v.lo |= 1
		return v
	case 3:
		v = digitPattern(r)
		v.hi |= 1 << 63
	default:
		v = v128{r.U64() | 1<<63, r.U64()}
	}
	return v.shr(128 - n)
}

var specials = []v128{
	{0, 0}, {0, 1}, {0, 2}, {0, 3}, {0, 10},
	{0, 1 << 63}, {0, 1<<63 - 1}, {0, 1<<63 + 1},
	{0, ^uint64(0)}, {0, ^uint64(0) - 1}, {1, 0}, {1, 1},
	{1 << 63, 0}, {1 << 63, 1}, {1<<63 - 1, ^uint64(0)}, {1<<63 - 1, ^uint64(0) - 1}, // Int128 Min, Min+1, Max, Max-1
	{^uint64(0), ^uint64(0)}, {^uint64(0), ^uint64(0) - 1}, // -1, -2 / MaxUint128
	{^uint64(0), 1 << 63}, {^uint64(0), 1<<63 - 1}, {^uint64(0), 1<<63 + 1}, // -2^63 and neighbours
	{^uint64(0), 0}, {^uint64(0), 1}, {^uint64(0) - 1, ^uint64(0)}, // -2^64 and neighbours
	{0, 1 << 32}, {0, 1<<32 - 1}, {1 << 32, 0},
}

// limits128: 0, +-1, +-2, Min/Max of Int128 and neighbours, MaxUint128, 2^64 neighbours (drawn with extra weight, so that
// every operand position of every op sees exactly 0 and the type limits on every run)
var limits128 = []v128{
	{0, 0}, {0, 0}, {0, 0}, {0, 1}, {0, 2}, {^uint64(0), ^uint64(0)}, {^uint64(0), ^uint64(0) - 1},
	{1 << 63, 0}, {1 << 63, 1}, {1 << 63, 2}, {1<<63 - 1, ^uint64(0)}, {1<<63 - 1, ^uint64(0) - 1},
	{0, ^uint64(0)}, {1, 0}, {1, 1}, {0, 1 << 63}, {^uint64(0), 1 << 63}, {^uint64(0), 0},
}

// nearLimit returns a value within 2^k (k uniform in 0..64) of MinInt128, MaxInt128, 0 (from below: small negatives) or
// MaxUint128: the receivers for which compare-by-subtraction, `a+b` and `a-b` wrap against a 64-bit operand of the
// opposite direction (a uniformly random receiver is in that window with probability 2^-64).
func nearLimit(r *hx.Rng) v128 {
	k := uint(r.Intn(65))
	var d uint64
	if k > 0 {
		d = (r.U64() | 1<<63) >> (64 - k)
	}
	if r.Chance(1, 4) {
		d = hx.Pick(r, limitWords)
	}
	db := new(big.Int).SetUint64(d)
	switch r.Intn(5) {
	case 0: // MinInt128 + d
		return fromBig(db.Add(db, v128{1 << 63, 0}.big()))
	case 1: // MaxInt128 - d
		return fromBig(db.Sub(v128{1<<63 - 1, ^uint64(0)}.big(), db))
	case 2: // -d
		return fromBig(db.Neg(db))
	case 3: // MaxUint128 - d (= -1 - d)
		return fromBig(db.Sub(v128{^uint64(0), ^uint64(0)}.big(), db))
	default: // 2^64 +- d
		if r.Bool() {
			return fromBig(db.Add(v128{1, 0}.big(), db))
		}
		return fromBig(db.Sub(v128{1, 0}.big(), db))
	}
}

// genU is the operand mixture of the design.
func genU(r *hx.Rng) v128 {
	if r.Chance(1, 12) {
		return hx.Pick(r, limits128)
	}
	if r.Chance(1, 12) {
		return nearLimit(r)
	}
	switch r.Intn(14) {
	case 0, 1: // uniform
		return v128{r.U64(), r.U64()}
	case 2: // sparse: 1–3 bits
		var v v128
		for i, n := 0, r.Range(1, 3); i < n; i++ {
			v = or128(v, v128{0, 1}.shl(r.Intn(128)))
		}
		return v
	case 3: // dense: all ones but 1–3 bits
		v := v128{^uint64(0), ^uint64(0)}
		for i, n := 0, r.Range(1, 3); i < n; i++ {
			b := v128{0, 1}.shl(r.Intn(128))
			v = v128{v.hi &^ b.hi, v.lo &^ b.lo}
		}
		return v
	case 4: // hi = 0
		return v128{0, genW(r)}
	case 5: // lo = 0
		return v128{genW(r), 0}
	case 6: // hi all ones (small negative numbers)
		return v128{^uint64(0), genW(r)}
	case 7: // 2^k, 2^k ± 1
		k := r.Intn(128)
		p := v128{0, 1}.shl(k).big()
		switch r.Intn(3) {
		case 0:
			return fromBig(p)
		case 1:
			return fromBig(p.Add(p, big.NewInt(1)))
		default:
			return fromBig(p.Sub(p, big.NewInt(1)))
		}
	case 8:
		return hx.Pick(r, specials)
	case 9: // neighbour of a special value
		b := hx.Pick(r, specials).big()
		return fromBig(b.Add(b, big.NewInt(int64(r.Range(-3, 3)))))
	case 10:
		return digitPattern(r)
	case 11: // negated small / medium magnitude
		b := withBitLen(r, r.Intn(70)).big()
		return fromBig(b.Neg(b))
	default: // uniform bit length
		return withBitLen(r, r.Intn(129))
	}
}

func or128(a, b v128) v128 { return v128{a.hi | b.hi, a.lo | b.lo} }

// limitWords: 0, +-1, MinInt64 / MaxInt64 / MaxUint64 and neighbours (drawn with extra weight)
var limitWords = []uint64{0, 0, 1, 2, ^uint64(0), ^uint64(0) - 1, 1 << 63, 1<<63 + 1, 1<<63 - 1, 1<<63 - 2, 1 << 62, 1<<62 + 1, 1 << 32, 10}

var words = []uint64{0, 1, 2, 3, 10, 1 << 31, 1<<32 - 1, 1 << 32, 1<<32 + 1, 1<<63 - 1, 1 << 63, 1<<63 + 1, ^uint64(0), ^uint64(0) - 1,
	0x8000000000000000 - 2, 0x80000000ffffffff, 0x8000000100000000, 0xffffffff00000000, 0x00000000ffffffff}

// genW is the mixture for 64-bit operands (also used as int64 bit patterns).
func genW(r *hx.Rng) uint64 {
	if r.Chance(1, 6) {
		return hx.Pick(r, limitWords)
	}
	switch r.Intn(8) {
	case 0:
		return hx.Pick(r, words)
	case 1:
		k := uint(r.Intn(64))
		switch r.Intn(3) {
		case 0:
			return 1 << k
		case 1:
			return 1<<k + 1
		default:
			return 1<<k - 1
		}
	case 2: // random bit length
		k := uint(r.Intn(65))
		if k == 0 {
			return 0
		}
		return (r.U64() | 1<<63) >> (64 - k)
	case 3: // small negative as int64
		return -uint64(r.Intn(1000))
	case 4:
		return digit(r)<<32 | digit(r)
	case 5:
		return uint64(r.Intn(100))
	default:
		return r.U64()
	}
}

// genDivPair builds (dividend, divisor) pairs that reach every path of the division dispatch and every correction
// branch of the kernels.
func genDivPair(r *hx.Rng) (u, n v128) {
	u, n = genDivPair0(r)
	// exactly zero in either position, and in both (all twelve entry points draw from here)
	switch r.Intn(40) {
	case 0:
		u = v128{}
	case 1:
		n = v128{}
	case 2:
		u, n = v128{}, v128{}
	case 3:
		u = hx.Pick(r, limits128)
	case 4:
		n = hx.Pick(r, limits128)
	}
	return u, n
}

// genMultiple: u = q*n + rem with a divisor wider than a word, q = 2^k + small with k centred on the dispatch threshold
// (2^15, 2^16, 2^17, ...) or uniform, and rem in {0, 1, 2, n-2, n-1, random}: the inputs on which the estimate of
// divmod128by128 is one short and the remainder before the final correction equals the divisor exactly.
func genMultiple(r *hx.Rng) (u, n v128) {
	bn := r.Range(65, 112)
	n = withBitLen(r, bn)
	maxq := 128 - bn
	k := r.Range(12, 22)
	if r.Chance(1, 3) {
		k = r.Intn(maxq + 1)
	}
	if k > maxq {
		k = maxq
	}
	q := new(big.Int).Lsh(big.NewInt(1), uint(k))
	q.Add(q, big.NewInt(int64(r.Range(-2, 2))))
	if r.Chance(1, 4) {
		q = withBitLen(r, k).big()
	}
	if q.Sign() <= 0 {
		q = big.NewInt(1)
	}
	b := new(big.Int).Mul(q, n.big())
	switch r.Intn(7) {
	case 0, 1:
	case 2:
		b.Add(b, big.NewInt(int64(r.Range(1, 2))))
	case 3:
		b.Sub(b, big.NewInt(int64(r.Range(1, 2))))
	case 4:
		b.Add(b, n.big()).Sub(b, big.NewInt(int64(r.Range(1, 2))))
	default:
		b.Add(b, new(big.Int).Mod(v128{r.U64(), r.U64()}.big(), n.big()))
	}
	if b.Sign() < 0 || b.BitLen() > 128 {
		b = new(big.Int).Mul(big.NewInt(1<<15), n.big())
		if b.BitLen() > 128 {
			b = n.big()
		}
	}
	return fromBig(b), n
}

func genDivPair0(r *hx.Rng) (u, n v128) {
	switch r.Intn(14) {
	case 12, 13:
		return genMultiple(r)
	case 10, 11:
		return genKnuthPair(r)
	case 0: // free mixture (also hits 0 divisors, equal operands, u < n)
		u, n = genU(r), genU(r)
		if r.Chance(1, 20) {
			n = u
		}
		return u, n
	case 1, 2: // prescribed bit lengths: lz(n) - lz(u) uniform
		bu := r.Range(1, 128)
		bn := r.Range(1, bu)
		return withBitLen(r, bu), withBitLen(r, bn)
	case 3: // around the binary/Knuth threshold
		bn := r.Range(1, 111)
		d := r.Range(4, 36) // the threshold is 16 in the reference tree; a tree with another value stays covered
		bu := bn + d
		if bu > 128 {
			bu = 128
		}
		return withBitLen(r, bu), withBitLen(r, bn)
	case 4: // 128/128 path: divisor wider than a word, gap above the threshold
		bn := r.Range(65, 111)
		bu := r.Range(bn+17, 128)
		return withBitLen(r, bu), withBitLen(r, bn)
	case 5: // 128/64 path
		bn := r.Range(2, 64)
		bu := r.Range(bn+17, 128)
		if bu < 65 {
			bu = r.Range(65, 128)
		}
		return withBitLen(r, bu), withBitLen(r, bn)
	case 6, 7: // u = q*n + r with r at the edges: exact multiples, one below, one above
		n = withBitLen(r, r.Range(1, 127))
		qb := 128 - n.bitLen()
		q := withBitLen(r, r.Intn(qb+1))
		b := new(big.Int).Mul(q.big(), n.big())
		switch r.Intn(5) {
		case 0:
		case 1:
			b.Add(b, big.NewInt(1))
		case 2:
			b.Sub(b, big.NewInt(1))
		case 3:
			b.Add(b, n.big()).Sub(b, big.NewInt(1))
		default:
			rem := new(big.Int).Mod(v128{r.U64(), r.U64()}.big(), n.big())
			b.Add(b, rem)
		}
		if b.Sign() < 0 || b.BitLen() > 128 {
			b = q.big()
		}
		return fromBig(b), n
	case 8: // extreme 32-bit digits on both sides, divisor shifted to a random width
		n = digitPattern(r).shr(r.Intn(128))
		u = digitPattern(r).shr(r.Intn(40))
		return u, n
	default: // divisor with minimal normalised top digit and maximal next digit; dividend just below divisor·2^k
		top := uint64(0x80000000)<<32 | uint64(hx.Pick(r, []uint32{0xffffffff, 0xfffffffe, 0xffff0000, 0}))
		if r.Bool() {
			top += uint64(r.Intn(3)) << 32
		}
		n = v128{top, uint64(digit(r))<<32 | digit(r)}.shr(r.Range(1, 127))
		k := r.Intn(128 - n.bitLen() + 1)
		b := new(big.Int).Lsh(n.big(), uint(k))
		b.Sub(b, big.NewInt(int64(r.Intn(4))))
		b.Sub(b, new(big.Int).Rsh(v128{0, r.U64()}.big(), uint(r.Intn(64))))
		if b.Sign() < 0 {
			b = n.big()
		}
		return fromBig(b), n
	}
}

// genKnuthPair builds a 128/64 division from the inside of divmod128by64: it picks the normalised divisor digits
// (vn1, vn0), the first digit estimate q1 and its remainder rhat, and then the next dividend digit un1 so that the test
// `left > right` of the correction loop is decided by a margin of -1, 0 or +1 (in the first or in the second round).
// The pair is then shifted right by a random amount (the routine normalises it back).
func genKnuthPair(r *hx.Rng) (u, n v128) {
	const b = uint64(1) << 32
	vn1 := hx.Pick(r, []uint64{1 << 31, 1<<31 + 1, 1<<31 + 2, b - 1, b - 2, 0xc0000000})
	if r.Chance(1, 3) {
		vn1 = 1<<31 | uint64(uint32(r.U64()))
	}
	vn0 := digit(r)
	if r.Bool() {
		vn0 = hx.Pick(r, []uint64{b - 1, b - 2, b - 3, b - 1, 1 << 31})
	}
	d := vn1<<32 | vn0
	q1 := hx.Pick(r, []uint64{b - 1, b - 2, b - 3, b, b + 1})
	if r.Chance(1, 3) {
		q1 = uint64(uint32(r.U64()))
	}
	rhat := uint64(r.Intn(4))
	switch r.Intn(5) {
	case 0:
		rhat = vn1 - 1 - uint64(r.Intn(3))
	case 1, 2: // rhat + vn1 just below 2^32, so that a second round happens
		if b-vn1 > uint64(4) {
			rhat = b - vn1 - 1 - uint64(r.Intn(4))
		}
	case 3:
		rhat = r.U64() % vn1
	}
	if rhat >= vn1 {
		rhat = vn1 - 1
	}
	hi, lo := bits.Mul64(q1, vn1)
	uhi, c := bits.Add64(lo, rhat, 0)
	if hi != 0 || c != 0 || uhi >= d {
		uhi = d - 1 - uint64(r.Intn(3))
		q1 = uhi / vn1
		rhat = uhi % vn1
	}
	// un1 with left - right in a small window, first or second round
	var un1 uint64
	delta := uint64(r.Intn(5)) - 2
	if r.Bool() {
		un1 = q1*vn0 - rhat<<32 + delta
	} else {
		un1 = (q1-1)*vn0 - (rhat+vn1)<<32 + delta
	}
	if un1 >= b || r.Chance(1, 8) {
		un1 = digit(r)
	}
	u = v128{uhi, un1<<32 | digit(r)}
	n = v128{0, d}
	if r.Bool() {
		k := r.Intn(63)
		u, n = u.shr(k), n.shr(k)
	}
	return u, n
}

var shiftCounts = []uint64{0, 1, 2, 31, 32, 33, 62, 63, 64, 65, 66, 95, 96, 97, 126, 127, 128, 129, 130, 160, 191, 192, 193, 255, 256, 257, 320,
	1000, 1023, 1024, 4096, 65535, 65536, 1 << 20, 1<<20 + 1, 1<<20 + 65, 1 << 31, 1 << 32, 1<<32 + 1, 1<<32 + 64, 1<<32 + 65,
	1 << 63, 1<<63 + 1, 1<<63 + 64, ^uint64(0), ^uint64(0) - 63, ^uint64(0) - 64}

// genCount: shift counts. Besides the list: uniform in 0..130, 64·m + j for large m (a masked count `(n-64)&63` looks
// right below 128 and wrong from 128 on), and 2^k + small.
func genCount(r *hx.Rng) uint64 {
	switch r.Intn(5) {
	case 0, 1:
		return hx.Pick(r, shiftCounts)
	case 2:
		return uint64(r.Intn(131))
	case 3:
		return 64*uint64(r.Range(2, 40)) + uint64(r.Intn(64))
	default:
		return uint64(1)<<uint(r.Intn(64)) + uint64(r.Intn(130))
	}
}

var bitIndexes = []int64{-1, -2, -63, -64, -65, -127, -128, -129, 1<<63 - 2, 1<<63 - 64, -1<<63 + 1, 1 << 62, 1000, 0, 1, 31, 32, 62, 63, 64, 65, 95, 96, 126, 127, 128, 129, 191, 192, 255, 256, 1 << 31, 1 << 32, 1<<32 + 5,
	-1 << 63, 1<<63 - 1, -1<<63 + 64, -1 << 32}
var setBitValues = []uint64{0, 1, 2, 3, 255, 256, 1 << 32, 1 << 63, ^uint64(0)}

var uOpsUU = []string{"add", "sub", "mul", "and", "or", "xor", "andnot", "andnot64", "cmp", "gt", "ge", "eq", "lt", "le"}
var uOpsUW = []string{"add64", "sub64", "mul64", "and64", "or64", "xor64", "cmp64", "gt64", "ge64", "eq64", "lt64", "le64"}
var uOpsU = []string{"inc", "dec", "not", "bitlen", "onescount", "lz", "tz", "iszero", "isint128", "isuint64", "asuint64"}
var divOps = []string{"div", "mod", "divmod"}
var div64Ops = []string{"div64", "mod64", "divmod64"}
var iOpsII = []string{"add", "sub", "mul", "cmp", "gt", "ge", "eq", "lt", "le"}
var iOpsIW = []string{"add64", "sub64", "mul64", "cmp64", "gt64", "ge64", "eq64", "lt64", "le64"}
var iOpsI = []string{"inc", "dec", "neg", "abs", "absu", "sign", "iszero", "isuint128", "isint64", "asint64", "isuint64", "asuint64"}

func xw(v uint64) string { return "x" + strconv.FormatUint(v, 16) }

func near(r *hx.Rng, a v128) v128 {
	// a related second operand: equal, neighbour, same high word, swapped words
	switch r.Intn(6) {
	case 0:
		return a
	case 1:
		b := a.big()
		return fromBig(b.Add(b, big.NewInt(int64(r.Range(-2, 2)))))
	case 2:
		return v128{a.hi, genW(r)}
	case 3:
		return v128{genW(r), a.lo}
	case 4:
		return v128{a.lo, a.hi}
	default:
		return v128{a.hi ^ 1<<63, a.lo}
	}
}

// overflowPair returns a signed receiver within d of MinInt128 / MaxInt128 and a 64-bit magnitude m in
// {d-1, d, d+1, 2d, random}: with the operand pointing away from zero, a-n resp. a+n lands exactly on, one short of, or
// one past the type limit (comparator-by-subtraction, wrapped Add64/Sub64).  neg says whether the receiver is near Min.
func overflowPair(r *hx.Rng) (a v128, m uint64, nearMin bool) {
	k := uint(r.Intn(63))
	var d uint64
	if k > 0 {
		d = (r.U64() | 1<<63) >> (64 - k)
	}
	switch r.Intn(6) {
	case 0:
		m = d - 1
	case 1:
		m = d
	case 2:
		m = d + 1
	case 3:
		m = 2 * d
	case 4:
		m = r.U64() >> 1
	default:
		m = hx.Pick(r, []uint64{1, 2, 1<<63 - 1, 1 << 63, 1 << 62})
	}
	db := new(big.Int).SetUint64(d)
	nearMin = r.Bool()
	if nearMin {
		a = fromBig(db.Add(db, v128{1 << 63, 0}.big()))
	} else {
		a = fromBig(db.Sub(v128{1<<63 - 1, ^uint64(0)}.big(), db))
	}
	return a, m, nearMin
}

func (area) Gen(r *hx.Rng, n int, _ string, emit func(string)) {
	// hx.NewRng(seed) and hx.NewRng(seed+1) are the same SplitMix64 sequence shifted by one draw, and the shards of a
	// run use consecutive seeds; forking first decorrelates them (otherwise the shards re-synchronise and repeat lines).
	r = r.Fork()
	for k := 0; k < n; k++ {
		c := r.Intn(100)
		switch {
		case c < 24: // unsigned 128/128 division
			u, d := genDivPair(r)
			emit("u " + hx.Pick(r, divOps) + " " + u.String() + " " + d.String())
		case c < 34: // unsigned 128/64 division
			u, d := genDivPair(r)
			w := d.lo
			if d.hi != 0 && r.Bool() {
				w = d.hi
			}
			if r.Chance(1, 8) {
				w = genW(r)
			}
			emit("u " + hx.Pick(r, div64Ops) + " " + u.String() + " " + xw(w))
		case c < 44: // signed division
			u, d := genDivPair(r)
			if r.Bool() {
				u = fromBig(new(big.Int).Neg(u.big()))
			}
			if r.Bool() {
				d = fromBig(new(big.Int).Neg(d.big()))
			}
			if r.Chance(1, 10) {
				u, d = genU(r), genU(r)
			}
			emit("i " + hx.Pick(r, divOps) + " " + u.String() + " " + d.String())
		case c < 50: // signed 128/64 division
			u, d := genDivPair(r)
			if r.Bool() {
				u = fromBig(new(big.Int).Neg(u.big()))
			}
			w := d.lo
			if r.Chance(1, 3) {
				w = genW(r)
			}
			if r.Bool() {
				w = -w
			}
			emit("i " + hx.Pick(r, div64Ops) + " " + u.String() + " " + xw(w))
		case c < 62:
			a := genU(r)
			b := genU(r)
			if r.Chance(1, 4) {
				b = near(r, a)
			}
			emit("u " + hx.Pick(r, uOpsUU) + " " + a.String() + " " + b.String())
		case c < 70:
			a := genU(r)
			w := genW(r)
			if r.Chance(1, 5) {
				w = a.lo + uint64(r.Range(-1, 1))
			}
			emit("u " + hx.Pick(r, uOpsUW) + " " + a.String() + " " + xw(w))
		case c < 76:
			emit("u " + hx.Pick(r, uOpsU) + " " + genU(r).String())
		case c < 80:
			cnt := genCount(r)
			op := "shl"
			if r.Bool() {
				op = "shr"
			}
			emit("u " + op + " " + genU(r).String() + " " + strconv.FormatUint(cnt, 10))
		case c < 83:
			i := hx.Pick(r, bitIndexes)
			if r.Bool() {
				i = int64(r.Range(-2, 130))
			}
			emit("u bit " + genU(r).String() + " " + strconv.FormatInt(i, 10))
		case c < 86:
			i := hx.Pick(r, bitIndexes)
			if r.Bool() {
				i = int64(r.Range(-2, 130))
			}
			emit("u setbit " + genU(r).String() + " " + strconv.FormatInt(i, 10) + " " + strconv.FormatUint(hx.Pick(r, setBitValues), 10))
		case c < 92:
			a := genU(r)
			b := genU(r)
			if r.Chance(1, 3) {
				b = near(r, a)
			}
			if r.Chance(1, 5) {
				var m uint64
				var nearMin bool
				a, m, nearMin = overflowPair(r)
				b = v128{0, m}
				if r.Bool() == nearMin { // half of the time pointing away from zero (a-b overflows), half towards (a+b)
					b = fromBig(new(big.Int).Neg(b.big()))
				}
				if r.Bool() {
					a, b = b, a
				}
			}
			emit("i " + hx.Pick(r, iOpsII) + " " + a.String() + " " + b.String())
		case c < 96:
			a := genU(r)
			w := genW(r)
			if r.Chance(1, 4) {
				w = a.lo + uint64(r.Range(-1, 1))
				if r.Bool() { // make the operand the sign extension of its low word, so that equality is reachable
					if int64(a.lo) < 0 {
						a.hi = ^uint64(0)
					} else {
						a.hi = 0
					}
				}
			}
			if r.Chance(1, 3) {
				var m uint64
				var nearMin bool
				a, m, nearMin = overflowPair(r)
				if m > 1<<63 {
					m = 1 << 63
				}
				w = m
				if r.Bool() == nearMin {
					w = -m
				}
			}
			emit("i " + hx.Pick(r, iOpsIW) + " " + a.String() + " " + xw(w))
		case c < 99:
			emit("i " + hx.Pick(r, iOpsI) + " " + genU(r).String())
		default:
			switch r.Intn(3) {
			case 0:
				emit("u from64 " + xw(genW(r)))
			case 1:
				emit("i from64 " + xw(genW(r)))
			default:
				emit("i fromu64 " + xw(genW(r)))
			}
		}
	}
}
