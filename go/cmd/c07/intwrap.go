// Area intwrap: an implementation-side oracle (no Lean model) for QuadTree[int] at the ends of the int64 range, where
// Go's int arithmetic wraps while the Lean model computes in unbounded ℤ.  One line is one whole history:
//
//	iw|iws <Threshold> I,<id>,<x>,<y>,<w>,<h> R,<id> G C P,<px>,<py>,<qx>,<qy>,<qw>,<qh> …
//
// (G = Reorganize, C = Clear, P = probe all sixteen queries with that point and rectangle.)  After every mutation
// Size/All, and at every P all sixteen queries, are compared with a linear scan that applies the library's own geom
// predicates to the same int values.
//
// A rectangle WRAPS when X+Width or Y+Height leaves int64 (Width, Height > 0).  For a wrapping rectangle geom's
// predicates are mutually inconsistent (r.Contains(q) can hold while r.Intersects(q) fails, because q.Right() is
// negative), so no index that prunes by Intersects can agree with the scan — this is a KNOWN FINDING of C07, recorded
// by specific histories (op word `iws`, judged strictly).  Judging:
//   - a history in which NO stored rectangle and NO probe rectangle wraps is judged strictly — also when the UNION of
//     the stored rectangles is wider than 2^63 and the tree's own root computation wraps (the root then comes out
//     Empty and Reorganize's Contains guard sends everything to the outside list, which is scanned);
//   - in a history with a wrapping rectangle, a disagreement is counted (`wrap-mismatch`), not failed, unless the
//     line's op word is `iws`.
package main

import (
	"fmt"
	"math"
	"math/big"
	"strconv"
	"strings"
	"time"

	"github.com/richardwilkes/toolbox/collection/quadtree"
	"github.com/richardwilkes/toolbox/xmath/geom"
	"verifharness/hx"
)

type iwArea struct{}

type inode = nd[int]

func wraps(r geom.Rect[int]) bool {
	return (r.Width > 0 && r.X+r.Width < r.X) || (r.Height > 0 && r.Y+r.Height < r.Y)
}

func idsI(l []*inode) string { return ids(l) }

// Independent evaluation of the predicates in unbounded integers (math/big), straight from the property text; used
// to cross-check every evaluation of geom's predicates in histories where nothing wraps.
func bi(v int) *big.Int { return big.NewInt(int64(v)) }

func bigIn(px, py int, r geom.Rect[int]) bool {
	if r.Width <= 0 || r.Height <= 0 {
		return false
	}
	right := new(big.Int).Add(bi(r.X), bi(r.Width))
	bottom := new(big.Int).Add(bi(r.Y), bi(r.Height))
	return r.X <= px && r.Y <= py && bi(px).Cmp(right) < 0 && bi(py).Cmp(bottom) < 0
}

func bigContains(a, b geom.Rect[int]) bool {
	if a.Width <= 0 || a.Height <= 0 || b.Width <= 0 || b.Height <= 0 {
		return false
	}
	ar, ab := new(big.Int).Add(bi(a.X), bi(a.Width)), new(big.Int).Add(bi(a.Y), bi(a.Height))
	br, bb := new(big.Int).Add(bi(b.X), bi(b.Width)), new(big.Int).Add(bi(b.Y), bi(b.Height))
	return a.X <= b.X && a.Y <= b.Y && br.Cmp(ar) <= 0 && bb.Cmp(ab) <= 0
}

func bigIntersects(a, b geom.Rect[int]) bool {
	if a.Width <= 0 || a.Height <= 0 || b.Width <= 0 || b.Height <= 0 {
		return false
	}
	ar, ab := new(big.Int).Add(bi(a.X), bi(a.Width)), new(big.Int).Add(bi(a.Y), bi(a.Height))
	br, bb := new(big.Int).Add(bi(b.X), bi(b.Width)), new(big.Int).Add(bi(b.Y), bi(b.Height))
	return bi(a.X).Cmp(br) < 0 && bi(a.Y).Cmp(bb) < 0 && ar.Cmp(bi(b.X)) > 0 && ab.Cmp(bi(b.Y)) > 0
}

func (iwArea) Run(line string) string {
	busySince.Store(time.Now().UnixNano())
	defer busySince.Store(0)
	f := strings.Fields(line)
	if len(f) < 2 || (f[0] != "iw" && f[0] != "iws") {
		return "bad-op"
	}
	strict := f[0] == "iws"
	var q quadtree.QuadTree[int, *inode]
	q.Threshold = hx.Atoi(f[1])
	objs := map[int]*inode{}
	var stored []*inode
	m := matcher[int]{mod: 2, rem: 0}
	wrapped := false
	mismatch := ""
	checks := 0
	note := func(step int, op, what string, got, want any) {
		if mismatch == "" {
			mismatch = fmt.Sprintf("after step %d (%s): %s: tree=%v scan=%v", step, op, what, got, want)
		}
	}
	for step, op := range f[2:] {
		a := strings.Split(op, ",")
		switch {
		case a[0] == "I" && len(a) == 6:
			id := hx.Atoi(a[1])
			o, ok := objs[id]
			if !ok {
				o = &inode{id: id, r: geom.NewRect(hx.Atoi(a[2]), hx.Atoi(a[3]), hx.Atoi(a[4]), hx.Atoi(a[5]))}
				objs[id] = o
			}
			if wraps(o.r) {
				wrapped = true
			}
			q.Insert(o)
			if !o.r.Empty() {
				stored = append(stored, o)
			}
		case a[0] == "R" && len(a) == 2:
			o, ok := objs[hx.Atoi(a[1])]
			if !ok {
				o = &inode{id: hx.Atoi(a[1]), r: geom.NewRect(1, 1, 1, 1)}
				objs[o.id] = o
			}
			q.Remove(o)
			for i, s := range stored {
				if s == o {
					stored = append(stored[:i:i], stored[i+1:]...)
					break
				}
			}
		case a[0] == "G" && len(a) == 1:
			q.Reorganize()
		case a[0] == "C" && len(a) == 1:
			q.Clear()
			stored = nil
		case a[0] == "P" && len(a) == 7:
			p := geom.NewPoint(hx.Atoi(a[1]), hx.Atoi(a[2]))
			r := geom.NewRect(hx.Atoi(a[3]), hx.Atoi(a[4]), hx.Atoi(a[5]), hx.Atoi(a[6]))
			if wraps(r) {
				wrapped = true
			}
			scan := func(pred func(*inode) bool) []*inode {
				var out []*inode
				for _, o := range stored {
					if pred(o) {
						out = append(out, o)
					}
				}
				return out
			}
			mt := func(o *inode) bool { return m.Matches(o) }
			if !wrapped { // geom's predicates against unbounded-integer arithmetic
				for _, o := range stored {
					if p.In(o.r) != bigIn(p.X, p.Y, o.r) || o.r.Intersects(r) != bigIntersects(o.r, r) ||
						o.r.Contains(r) != bigContains(o.r, r) || r.Contains(o.r) != bigContains(r, o.r) {
						return fmt.Sprintf("FAIL geom predicate differs from unbounded-integer evaluation: p=%v q=%v stored=%v", p, r, o.r)
					}
				}
			}
			for _, c := range []struct {
				what  string
				b     bool
				found []*inode
				pred  func(*inode) bool
			}{
				{"ContainsPoint", q.ContainsPoint(p), q.FindContainsPoint(p), func(o *inode) bool { return p.In(o.r) }},
				{"MatchedContainsPoint", q.MatchedContainsPoint(m, p), q.FindMatchedContainsPoint(m, p), func(o *inode) bool { return p.In(o.r) && mt(o) }},
				{"Intersects", q.Intersects(r), q.FindIntersects(r), func(o *inode) bool { return o.r.Intersects(r) }},
				{"MatchedIntersects", q.MatchedIntersects(m, r), q.FindMatchedIntersects(m, r), func(o *inode) bool { return o.r.Intersects(r) && mt(o) }},
				{"ContainsRect", q.ContainsRect(r), q.FindContainsRect(r), func(o *inode) bool { return o.r.Contains(r) }},
				{"MatchedContainsRect", q.MatchedContainsRect(m, r), q.FindMatchedContainsRect(m, r), func(o *inode) bool { return o.r.Contains(r) && mt(o) }},
				{"ContainedByRect", q.ContainedByRect(r), q.FindContainedByRect(r), func(o *inode) bool { return r.Contains(o.r) }},
				{"MatchedContainedByRect", q.MatchedContainedByRect(m, r), q.FindMatchedContainedByRect(m, r), func(o *inode) bool { return r.Contains(o.r) && mt(o) }},
			} {
				want := scan(c.pred)
				if g, w := idsI(c.found), idsI(want); g != w {
					note(step, op, "Find"+c.what, g, w)
				}
				if c.b != (len(want) > 0) {
					note(step, op, c.what, c.b, len(want) > 0)
				}
				checks += 2
			}
			continue
		default:
			return "bad-op"
		}
		if q.Size() != len(stored) {
			note(step, op, "Size", q.Size(), len(stored))
		}
		if g, w := idsI(q.All()), idsI(stored); g != w {
			note(step, op, "All", g, w)
		}
	}
	switch {
	case mismatch == "":
		if wrapped {
			return "ok wrap-agree " + strconv.Itoa(checks)
		}
		return "ok " + strconv.Itoa(checks)
	case wrapped && !strict:
		return "ok wrap-mismatch " + strconv.Itoa(checks)
	case wrapped:
		return "FAIL (a rectangle of the history wraps) " + mismatch
	default:
		return "FAIL " + mismatch
	}
}

// ---------------------------------------------------------------------------------------------- generator

func (iwArea) Gen(r *hx.Rng, n int, _ string, emit func(string)) {
	const hi, lo = math.MaxInt64, math.MinInt64
	for i := 0; i < n; i++ {
		h := r.Fork()
		// families: 0 = near MaxInt without wrapping, 1 = near MinInt, 2 = both ends (union wider than 2^63),
		// 3 = anywhere in the range without wrapping, 4 = near MaxInt WITH wrapping rectangles / probes
		fam := h.Intn(5)
		coord := func() int {
			switch fam {
			case 0, 4:
				return hi - h.Intn(300)
			case 1:
				return lo + h.Intn(300)
			case 2:
				if h.Bool() {
					return hi - h.Intn(300)
				}
				return lo + h.Intn(300)
			default:
				switch h.Intn(4) {
				case 0:
					return hi - h.Intn(1<<uint(h.Range(1, 62)))
				case 1:
					return lo + h.Intn(1<<uint(h.Range(1, 62)))
				case 2:
					return h.Range(-100, 100)
				default:
					return int(h.U64())
				}
			}
		}
		rect := func(maxSize int) (x, y, w, hh int) {
			x, y = coord(), coord()
			if fam == 0 || fam == 4 {
				y = h.Intn(60) // one axis at the end of the range is enough, as in the reviewer's experiment
			}
			w, hh = 1+h.Intn(maxSize), 1+h.Intn(maxSize)
			if h.Chance(1, 12) {
				w = -h.Intn(3)
			}
			if fam == 3 && h.Chance(1, 4) {
				w = 1 + h.Intn(1<<uint(h.Range(1, 62)))
			}
			if fam != 4 { // clamp so that nothing wraps
				if w > 0 && x > hi-w {
					w = hi - x
				}
				if hh > 0 && y > hi-hh {
					hh = hi - y
				}
			}
			return
		}
		thr := hx.Pick(h, []int{4, 4, 5, 0, 64})
		nid := h.Range(2, 26)
		type rc struct{ x, y, w, h int }
		rects := make([]rc, nid)
		for k := range rects {
			x, y, w, hh := rect(60)
			rects[k] = rc{x, y, w, hh}
		}
		parts := []string{"iw", strconv.Itoa(thr)}
		var in []int
		probe := func() {
			x, y, w, hh := rect(90)
			px, py := coord(), coord()
			if fam == 0 || fam == 4 {
				py = h.Intn(60)
			}
			if len(in) > 0 && h.Bool() { // around a stored rectangle
				b := rects[hx.Pick(h, in)]
				x, y = b.x-h.Intn(4), b.y-h.Intn(4)
				px, py = b.x+h.Intn(3), b.y+h.Intn(3)
				if fam != 4 {
					if w > 0 && x > hi-w {
						w = hi - x
					}
					if hh > 0 && y > hi-hh {
						hh = hi - y
					}
				}
			}
			parts = append(parts, fmt.Sprintf("P,%d,%d,%d,%d,%d,%d", px, py, x, y, w, hh))
		}
		for s := h.Range(6, 40); s > 0; s-- {
			c := h.Intn(100)
			switch {
			case c < 50 || len(in) == 0:
				id := h.Intn(nid)
				q := rects[id]
				parts = append(parts, fmt.Sprintf("I,%d,%d,%d,%d,%d", id, q.x, q.y, q.w, q.h))
				in = append(in, id)
			case c < 60:
				k := h.Intn(len(in))
				parts = append(parts, "R,"+strconv.Itoa(in[k]))
				in[k] = in[len(in)-1]
				in = in[:len(in)-1]
			case c < 72:
				parts = append(parts, "G")
			case c < 74:
				parts = append(parts, "C")
				in = in[:0]
			default:
				probe()
			}
		}
		probe()
		emit(strings.Join(parts, " "))
	}
}
