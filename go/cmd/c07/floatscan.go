// Area floatscan: an implementation-side oracle (no Lean model) for the "fractional floating-point" clause of C07.
// One line is one whole history over float64 rectangles whose coordinates are NOT dyadic (k/10, k/3, 12.9,
// 27.700000000000003, sums that round, …), so the unions, halvings and sums inside the quadtree round.  After every
// mutation Size, All and all sixteen queries are compared with a linear scan kept by the harness that applies the
// library's own geom predicates to the very same float values — "exactly what a linear scan of the stored nodes
// would".  Probes sit at, one ulp below and one ulp above the right/bottom edges of the stored rectangles and of their
// union (math.Nextafter).  float64 values travel as 16 hex digits of their IEEE bit pattern.
//
//	fs <Threshold> I,<id>,<x>,<y>,<w>,<h> R,<id> G C T,<k> …      (G = Reorganize, C = Clear, T = set Threshold)
package main

import (
	"fmt"
	"math"
	"sort"
	"strconv"
	"strings"
	"time"

	"github.com/richardwilkes/toolbox/collection/quadtree"
	"github.com/richardwilkes/toolbox/xmath/geom"
	"verifharness/hx"
)

type fsArea struct{}

func fbits(f float64) string { return fmt.Sprintf("%016x", math.Float64bits(f)) }

func unbits(s string) float64 {
	u, err := strconv.ParseUint(s, 16, 64)
	if err != nil {
		panic("floatscan: bad float bits " + s)
	}
	return math.Float64frombits(u)
}

type fnode = nd[float64]

func sortedIDs(l []*fnode) []int {
	v := make([]int, len(l))
	for i, n := range l {
		v[i] = n.id
	}
	sort.Ints(v)
	return v
}

func sameIDs(a, b []int) bool {
	if len(a) != len(b) {
		return false
	}
	for i := range a {
		if a[i] != b[i] {
			return false
		}
	}
	return true
}

// Independent evaluation of the three geom predicates straight from the property text (half-open point containment;
// Contains = non-empty and the extreme representable points of the inner rectangle are In the outer; Intersects = the
// candidate point (max lefts, max tops) is In both).  The linear scan uses the library's predicates, as the property
// says, and every single evaluation is cross-checked against these, so that a defect in geom cannot hide on both sides.
func indepIn(px, py float64, r geom.Rect[float64]) bool {
	if r.Width <= 0 || r.Height <= 0 {
		return false
	}
	return r.X <= px && r.Y <= py && px < r.X+r.Width && py < r.Y+r.Height
}

func indepContains(a, b geom.Rect[float64]) bool {
	if b.Width <= 0 || b.Height <= 0 {
		return false
	}
	down := math.Inf(-1)
	for _, x := range []float64{b.X, math.Nextafter(b.X+b.Width, down)} {
		for _, y := range []float64{b.Y, math.Nextafter(b.Y+b.Height, down)} {
			if !indepIn(x, y, a) {
				return false
			}
		}
	}
	return true
}

func indepIntersects(a, b geom.Rect[float64]) bool {
	x, y := math.Max(a.X, b.X), math.Max(a.Y, b.Y)
	return indepIn(x, y, a) && indepIn(x, y, b)
}

var predMismatch string // first disagreement between geom and the independent evaluation in the current history

func chk(what string, lib, ind bool, skip bool, args ...any) bool {
	if lib != ind && !skip && predMismatch == "" {
		predMismatch = fmt.Sprintf("%s%v: geom says %v, independent evaluation %v", what, args, lib, ind)
	}
	return lib
}

func scan(stored []*fnode, pred func(*fnode) bool) []*fnode {
	var out []*fnode
	for _, o := range stored {
		if pred(o) {
			out = append(out, o)
		}
	}
	return out
}

func around(v float64) []float64 {
	return []float64{v, math.Nextafter(v, math.Inf(-1)), math.Nextafter(v, math.Inf(1))}
}

// absorbed reports a rectangle with a positive size that rounding swallows: fl(X+Width) == X or fl(Y+Height) == Y.
// Such a rectangle is not Empty but has no representable point (known finding of C07: geom's Contains and Intersects
// disagree on it).  Stored rectangles are always judged; probe rectangles DERIVED by the harness are dropped when
// absorbed, so that the judged domain is exactly "histories whose stored rectangles all have a representable point".
func absorbed(r geom.Rect[float64]) bool {
	return (r.Width > 0 && r.X+r.Width == r.X) || (r.Height > 0 && r.Y+r.Height == r.Y)
}

// probes derives the probe points and rectangles from the stored rectangles and their union.
func probes(stored []*fnode) (pts []geom.Point[float64], rects []geom.Rect[float64]) {
	var u geom.Rect[float64]
	var rs []geom.Rect[float64]
	for _, o := range stored {
		u = u.Union(o.r)
		rs = append(rs, o.r)
	}
	rs = append(rs, u)
	if len(rs) > 9 { // keep the work per step bounded: the union and the eight most recently stored rectangles
		rs = rs[len(rs)-9:]
	}
	for _, r := range rs {
		my := r.Y + r.Height/2
		mx := r.X + r.Width/2
		for _, x := range around(r.Right()) {
			pts = append(pts, geom.NewPoint(x, my), geom.NewPoint(x, r.Y))
		}
		for _, y := range around(r.Bottom()) {
			pts = append(pts, geom.NewPoint(mx, y), geom.NewPoint(r.X, y))
		}
		pts = append(pts, geom.NewPoint(r.X, r.Y), geom.NewPoint(math.Nextafter(r.Right(), math.Inf(-1)), math.Nextafter(r.Bottom(), math.Inf(-1))))
		rects = append(rects, r)
		for _, d := range []geom.Rect[float64]{
			geom.NewRect(r.X, r.Y, math.Nextafter(r.Width, math.Inf(1)), r.Height),
			geom.NewRect(r.X, r.Y, r.Width, math.Nextafter(r.Height, math.Inf(-1))),
			geom.NewRect(math.Nextafter(r.Right(), math.Inf(-1)), r.Y, r.Width, r.Height),
			geom.NewRect(r.Right(), r.Y, 1, r.Height),
			geom.NewRect(r.X, math.Nextafter(r.Bottom(), math.Inf(-1)), r.Width, 1),
			geom.NewRect(mx, my, r.Width/4, r.Height/4),
			geom.NewRect(r.X-1, r.Y-1, r.Width+2, r.Height+2),
		} {
			if !absorbed(d) {
				rects = append(rects, d)
			}
		}
	}
	return pts, rects
}

func (fsArea) Run(line string) string {
	f := strings.Fields(line)
	if len(f) < 2 || f[0] != "fs" {
		return "bad-op"
	}
	busySince.Store(time.Now().UnixNano())
	defer busySince.Store(0)
	predMismatch = ""
	var q quadtree.QuadTree[float64, *fnode]
	q.Threshold = hx.Atoi(f[1])
	objs := map[int]*fnode{}
	var stored []*fnode
	m := matcher[float64]{mod: 2, rem: 0}
	mt := func(o *fnode) bool { return m.Matches(o) }
	checks := 0
	for step, op := range f[2:] {
		a := strings.Split(op, ",")
		switch {
		case a[0] == "I" && len(a) == 6:
			id := hx.Atoi(a[1])
			o, ok := objs[id]
			if !ok {
				o = &fnode{id: id, r: geom.NewRect(unbits(a[2]), unbits(a[3]), unbits(a[4]), unbits(a[5]))}
				objs[id] = o
			}
			q.Insert(o)
			if !o.r.Empty() {
				stored = append(stored, o)
			}
		case a[0] == "R" && len(a) == 2:
			id := hx.Atoi(a[1])
			o, ok := objs[id]
			if !ok {
				o = &fnode{id: id, r: geom.NewRect(0.1, 0.1, 0.3, 0.3)}
				objs[id] = o
			}
			q.Remove(o)
			for i, s := range stored {
				if s == o {
					stored = append(stored[:i:i], stored[i+1:]...)
					break
				}
			}
		case a[0] == "G" && len(a) == 1:
			q.Reorganize()
		case a[0] == "C" && len(a) == 1:
			q.Clear()
			stored = nil
		case a[0] == "T" && len(a) == 2:
			q.Threshold = hx.Atoi(a[1])
		default:
			return "bad-op"
		}
		fail := func(what string, got, want any) string {
			return fmt.Sprintf("FAIL after step %d (%s): %s: tree=%v scan=%v", step, op, what, got, want)
		}
		if q.Size() != len(stored) {
			return fail("Size", q.Size(), len(stored))
		}
		if g, w := sortedIDs(q.All()), sortedIDs(stored); !sameIDs(g, w) {
			return fail("All", g, w)
		}
		pts, rects := probes(stored)
		cmp := func(what string, arg any, b bool, found []*fnode, pred func(*fnode) bool) string {
			w := sortedIDs(scan(stored, pred))
			if g := sortedIDs(found); !sameIDs(g, w) {
				return fail(fmt.Sprintf("Find%s(%v)", what, arg), g, w)
			}
			if b != (len(w) > 0) {
				return fail(fmt.Sprintf("%s(%v)", what, arg), b, len(w) > 0)
			}
			checks += 2
			return ""
		}
		for _, p := range pts {
			in := func(o *fnode) bool { return chk("In", p.In(o.r), indepIn(p.X, p.Y, o.r), false, p, o.r) }
			if s := cmp("ContainsPoint", p, q.ContainsPoint(p), q.FindContainsPoint(p), in); s != "" {
				return s
			}
			if s := cmp("MatchedContainsPoint", p, q.MatchedContainsPoint(m, p), q.FindMatchedContainsPoint(m, p),
				func(o *fnode) bool { return in(o) && mt(o) }); s != "" {
				return s
			}
		}
		for _, r := range rects {
			ab := absorbed(r)
			ix := func(o *fnode) bool {
				return chk("Intersects", o.r.Intersects(r), indepIntersects(o.r, r), ab || absorbed(o.r), o.r, r)
			}
			cr := func(o *fnode) bool {
				return chk("Contains", o.r.Contains(r), indepContains(o.r, r), ab || absorbed(o.r), o.r, r)
			}
			cb := func(o *fnode) bool {
				return chk("Contains", r.Contains(o.r), indepContains(r, o.r), ab || absorbed(o.r), r, o.r)
			}
			for _, c := range []struct {
				what  string
				b     bool
				found []*fnode
				pred  func(*fnode) bool
			}{
				{"Intersects", q.Intersects(r), q.FindIntersects(r), ix},
				{"MatchedIntersects", q.MatchedIntersects(m, r), q.FindMatchedIntersects(m, r), func(o *fnode) bool { return ix(o) && mt(o) }},
				{"ContainsRect", q.ContainsRect(r), q.FindContainsRect(r), cr},
				{"MatchedContainsRect", q.MatchedContainsRect(m, r), q.FindMatchedContainsRect(m, r), func(o *fnode) bool { return cr(o) && mt(o) }},
				{"ContainedByRect", q.ContainedByRect(r), q.FindContainedByRect(r), cb},
				{"MatchedContainedByRect", q.MatchedContainedByRect(m, r), q.FindMatchedContainedByRect(m, r), func(o *fnode) bool { return cb(o) && mt(o) }},
			} {
				if s := cmp(c.what, r, c.b, c.found, c.pred); s != "" {
					return s
				}
			}
		}
	}
	if predMismatch != "" {
		return "FAIL " + predMismatch
	}
	return "ok " + strconv.Itoa(checks)
}

// ---------------------------------------------------------------------------------------------- generator

func fsCoord(r *hx.Rng) float64 {
	switch r.Intn(9) {
	case 0:
		return float64(r.Range(-300, 600)) / 10
	case 1:
		return float64(r.Range(-100, 200)) / 3
	case 2:
		return float64(r.Range(-100, 200)) / 7
	case 3:
		return float64(r.Range(0, 400))/10 + 0.1 + 0.2 // sums that round
	case 4:
		return hx.Pick(r, []float64{12.9, 27.700000000000003, 0.1, 0.3, 1.1, 2.675, 30.400000000000002, 1e6 + 0.1, -1e6 - 0.7,
			1e9 + 0.7, -1e12 - 0.3, 1e15 + 0.5, 1e16, 3e-9, -7e-12,
			math.Copysign(0, -1), 5e-324, -5e-324, 2.2250738585072014e-308, 3e-310, 1e300, -1e300, 4e307})
	case 5:
		return float64(r.Range(-50, 50)) * 0.1
	case 6:
		return float64(r.Range(1, 99)) / 100 * float64(r.Range(1, 40))
	case 7:
		return 1e3*float64(r.Range(-3, 3)) + float64(r.Range(0, 99))/100
	default:
		return float64(r.Range(-20, 40)) + float64(r.Range(0, 9))/9
	}
}

func fsSize(r *hx.Rng) float64 {
	switch r.Intn(10) {
	case 0:
		return 0
	case 1:
		return -0.5
	case 2:
		return hx.Pick(r, []float64{0.7, 2.7, 0.1, 0.3, 1.0 / 3, 1e-3, 5e-324, 1e-310, 1e300, 4e307, math.Copysign(0, -1)})
	case 3:
		return float64(r.Range(1, 9)) / 10
	case 4:
		return float64(r.Range(1, 30)) / 3
	default:
		return float64(r.Range(1, 120)) / 10
	}
}

func ulp(x float64) float64 {
	x = math.Abs(x)
	return math.Nextafter(x, math.Inf(1)) - x
}

func (fsArea) Gen(r *hx.Rng, n int, _ string, emit func(string)) {
	for i := 0; i < n; i++ {
		h := r.Fork()
		thr := hx.Pick(h, []int{0, 3, 4, 4, 4, 5, 5, 64, -1, 1, 10, 9223372036854775807})
		steps := h.Range(3, 28)
		nid := h.Range(2, 14)
		type rc struct{ x, y, w, hh float64 }
		rects := make([]rc, nid)
		share := h.Chance(1, 3) // many rectangles on one row: right edges accumulate rounding
		for k := range rects {
			rects[k] = rc{fsCoord(h), fsCoord(h), fsSize(h), fsSize(h)}
			if share {
				rects[k].y, rects[k].hh = 0, 1
			}
			if k > 0 && h.Chance(1, 4) { // abutting the previous one through a rounded sum
				p := rects[k-1]
				rects[k].x = p.x + p.w
			}
			if h.Chance(1, 6) { // a few ulps wide / high: next to the absorbed region, but with a representable point
				rects[k].w = float64(h.Range(1, 6)) * ulp(rects[k].x)
				if h.Bool() {
					rects[k].hh = float64(h.Range(1, 6)) * ulp(rects[k].y)
				}
			}
			// stay outside the known finding: never a stored rectangle whose positive size is absorbed
			for absorbed(geom.NewRect(rects[k].x, rects[k].y, rects[k].w, rects[k].hh)) {
				if rects[k].w > 0 && rects[k].x+rects[k].w == rects[k].x {
					rects[k].w = 2 * ulp(rects[k].x)
				}
				if rects[k].hh > 0 && rects[k].y+rects[k].hh == rects[k].y {
					rects[k].hh = 2 * ulp(rects[k].y)
				}
			}
		}
		var in []int
		parts := []string{"fs", strconv.Itoa(thr)}
		for s := 0; s < steps; s++ {
			c := h.Intn(100)
			switch {
			case c < 55 || len(in) == 0:
				id := h.Intn(nid)
				q := rects[id]
				parts = append(parts, fmt.Sprintf("I,%d,%s,%s,%s,%s", id, fbits(q.x), fbits(q.y), fbits(q.w), fbits(q.hh)))
				in = append(in, id)
			case c < 72:
				k := h.Intn(len(in))
				id := in[k]
				if h.Chance(1, 8) {
					id = h.Intn(nid + 2)
				} else {
					in[k] = in[len(in)-1]
					in = in[:len(in)-1]
				}
				parts = append(parts, "R,"+strconv.Itoa(id))
			case c < 94:
				parts = append(parts, "G")
			case c < 97:
				parts = append(parts, "T,"+strconv.Itoa(hx.Pick(h, thrValues)))
			default:
				parts = append(parts, "C")
				in = in[:0]
			}
		}
		emit(strings.Join(parts, " "))
	}
}
