// Area quadwrap: QuadTree[int] against the Lean model at machine integers (`QT.instI64`, core Lean's Int64: the same
// transcription of geom/quadtree as the `i` histories, with wrapping + and -).  Histories start with `reset w <Threshold>`
// and use the line format of area quadtree, so model and implementation are compared line by line (state after every
// mutation, all sixteen queries at every probe) — also at the ends of the int64 range, where the unbounded-integer
// model does not apply and area intwrap can only compare the tree with a linear scan.  Two sources of histories:
//   - the generator of area intwrap (coordinates within 300 of MaxInt64 / MinInt64, both ends at once, anywhere in the
//     range, rectangles and probes whose X+Width wraps), translated operation by operation;
//   - the int histories of area quadtree (all shapes, drain and big histories, huge root above unit squares).
package main

import (
	"strings"

	"github.com/richardwilkes/toolbox/xmath/geom"
	"verifharness/hx"
)

type qwArea struct{ qtArea }

// wrapsWords: X+Width or Y+Height of the rectangle leaves int64 (Width, Height > 0).
func wrapsWords(w []string) bool {
	return wraps(geom.NewRect(hx.Atoi(w[0]), hx.Atoi(w[1]), hx.Atoi(w[2]), hx.Atoi(w[3])))
}

// translateIW turns one intwrap history (`iw <thr> I,… R,… G C P,…`) into quadtree lines.  Mutations are always
// translated (Size/All after each).  A probe is translated only while no wrapping rectangle is stored and its own
// rectangle does not wrap: for a wrapping rectangle geom's predicates are mutually inconsistent (known finding), the
// property cannot be judged there and a rewrite of a predicate may legitimately answer differently; area intwrap
// counts those cases.
func translateIW(line string, emit func(string)) int {
	f := strings.Fields(line)
	n := 0
	out := func(s string) { emit(s); n++ }
	out("reset w " + f[1])
	rect := map[string]string{}
	wr := map[string]bool{}
	stored := map[string]int{}
	wrapStored := func() bool {
		for id, k := range stored {
			if k > 0 && wr[id] {
				return true
			}
		}
		return false
	}
	for _, op := range f[2:] {
		a := strings.Split(op, ",")
		switch a[0] {
		case "I":
			if _, ok := rect[a[1]]; !ok {
				rect[a[1]] = strings.Join(a[2:6], " ")
				wr[a[1]] = wrapsWords(a[2:6])
			}
			out("ins " + a[1] + " " + rect[a[1]])
			if w := strings.Fields(rect[a[1]]); !strings.HasPrefix(w[2], "-") && w[2] != "0" && !strings.HasPrefix(w[3], "-") && w[3] != "0" {
				stored[a[1]]++
			}
		case "R":
			if _, ok := rect[a[1]]; !ok {
				rect[a[1]] = "1 1 1 1"
			}
			out("rm " + a[1] + " " + rect[a[1]])
			if stored[a[1]] > 0 {
				stored[a[1]]--
			}
		case "G":
			out("reorg")
		case "C":
			out("clear")
			stored = map[string]int{}
		case "P":
			if wrapStored() || wrapsWords(a[3:7]) {
				statWrapProbeSkipped++
				continue
			}
			out("probe " + strings.Join(a[1:7], " ") + " 2 0")
		}
	}
	return n
}

var statWrapProbeSkipped int

func (a *qwArea) Gen(r *hx.Rng, n int, tier string, emit func(string)) {
	total := 0
	for total < n {
		h := r.Fork()
		if h.Chance(2, 3) {
			iwArea{}.Gen(h, 1, tier, func(l string) { total += translateIW(l, emit) })
			continue
		}
		keep := false
		(&qtArea{}).Gen(h, 300, tier, func(l string) {
			if strings.HasPrefix(l, "reset ") {
				keep = strings.HasPrefix(l, "reset i ")
				l = "reset w " + strings.TrimPrefix(l, "reset i ")
			}
			if keep {
				emit(l)
				total++
			}
		})
	}
}
