// Area quadfloat: QuadTree[float64] on NON-dyadic coordinates (unions, halvings and sums inside the quadtree round)
// against the Lean model at IEEE doubles (`QT.instF64`: the same transcription of geom/quadtree as the exact `f`
// histories, at core Lean's Float).  Histories start with `reset d <Threshold>`, coordinates travel as the 16 hex digits
// of their bit pattern, the line format is that of area quadtree: state after every mutation, all sixteen queries at
// every probe.  The histories are those of area floatscan (which can only compare the tree with a linear scan inside the
// harness), translated operation by operation; the probes are drawn from the same set floatscan derives after each
// step: at, one ulp below and one ulp above the right/bottom edges of the stored rectangles and of their union.  A third
// of the histories are the EXACT float histories of area quadtree (dyadic inputs) sent through the IEEE-double model:
// there the Float instance must agree with the Rat instance the theorems are about.
package main

import (
	"strconv"
	"strings"

	"github.com/richardwilkes/toolbox/xmath/geom"
	"verifharness/cmd/c18/gx"
	"verifharness/hx"
)

type qfArea struct{ qtArea }

func rectBits(r geom.Rect[float64]) string {
	return fbits(r.X) + " " + fbits(r.Y) + " " + fbits(r.Width) + " " + fbits(r.Height)
}

// translateFS turns one floatscan history (`fs <thr> I,… R,… G C T,…`) into quadtree lines with `per` probes after
// every mutation.
func translateFS(line string, h *hx.Rng, per int, emit func(string)) int {
	f := strings.Fields(line)
	n := 0
	out := func(s string) { emit(s); n++ }
	out("reset d " + f[1])
	objs := map[string]*fnode{}
	var stored []*fnode
	for _, op := range f[2:] {
		a := strings.Split(op, ",")
		switch a[0] {
		case "I":
			o, ok := objs[a[1]]
			if !ok {
				o = &fnode{id: hx.Atoi(a[1]), r: geom.NewRect(unbits(a[2]), unbits(a[3]), unbits(a[4]), unbits(a[5]))}
				objs[a[1]] = o
			}
			out("ins " + a[1] + " " + rectBits(o.r))
			if !o.r.Empty() {
				stored = append(stored, o)
			}
		case "R":
			o, ok := objs[a[1]]
			if !ok {
				o = &fnode{id: hx.Atoi(a[1]), r: geom.NewRect(0.1, 0.1, 0.3, 0.3)}
				objs[a[1]] = o
			}
			out("rm " + a[1] + " " + rectBits(o.r))
			for i, s := range stored {
				if s == o {
					stored = append(stored[:i:i], stored[i+1:]...)
					break
				}
			}
		case "G":
			out("reorg")
		case "C":
			out("clear")
			stored = nil
		case "T":
			out("thr " + a[1])
		}
		pts, rects := probes(stored)
		for k := 0; k < per && len(pts) > 0 && len(rects) > 0; k++ {
			p, r := hx.Pick(h, pts), hx.Pick(h, rects)
			mod := h.Range(1, 3)
			out("probe " + fbits(p.X) + " " + fbits(p.Y) + " " + rectBits(r) + " " + strconv.Itoa(mod) + " " + strconv.Itoa(h.Intn(mod)))
		}
	}
	return n
}

// exactToBits rewrites a line of an exact (`reset f`) history for the IEEE-double model: every rational `n/d` becomes
// the bit pattern of the float64 it denotes (the inputs are dyadic, the conversion is exact).  On such histories the
// Float instance must answer what the Rat instance — about which the theorems speak — answers.
func exactToBits(l string) string {
	f := strings.Fields(l)
	num := func(from, to int) {
		for i := from; i < to && i < len(f); i++ {
			f[i] = fbits(gx.F(f[i]))
		}
	}
	switch f[0] {
	case "reset":
		f[1] = "d"
	case "ins", "rm":
		num(2, 6)
	case "probe":
		num(1, 7)
	case "pprobe":
		num(3, 9)
	}
	return strings.Join(f, " ")
}

func (a *qfArea) Gen(r *hx.Rng, n int, tier string, emit func(string)) {
	total := 0
	for total < n {
		h := r.Fork()
		if h.Chance(2, 3) {
			fsArea{}.Gen(h, 1, tier, func(l string) { total += translateFS(l, h, 4, emit) })
			continue
		}
		// the exact float histories of area quadtree (all shapes, drain and big histories, odd matchers) once more,
		// now through the IEEE-double model
		keep := false
		(&qtArea{}).Gen(h, 300, tier, func(l string) {
			if strings.HasPrefix(l, "reset ") {
				keep = strings.HasPrefix(l, "reset f ")
			}
			if keep {
				emit(exactToBits(l))
				total++
			}
		})
	}
}
