// Harness for C07 (quadtree = linear scan): drives quadtree.QuadTree[int, …] and QuadTree[float64, …] through
// histories of Insert / Remove / Reorganize / Clear with all sixteen queries probed in between.
// A history starts with `reset i|f <Threshold>`; float64 coordinates are exact rationals (small dyadics, so that the
// halvings and sums of splitIfNeeded and Union are exact); outputs are sorted id lists.
package main

import (
	"runtime/debug"
	"sort"
	"strconv"
	"strings"

	"github.com/richardwilkes/toolbox/collection/quadtree"
	"github.com/richardwilkes/toolbox/xmath"
	"github.com/richardwilkes/toolbox/xmath/geom"
	"verifharness/cmd/c18/gx"
	"verifharness/hx"
)

// nd is a stored object: identity is the pointer, Bounds never changes.
type nd[T xmath.Numeric] struct {
	id int
	r  geom.Rect[T]
}

func (n *nd[T]) Bounds() geom.Rect[T] { return n.r }

type matcher[T xmath.Numeric] struct{ mod, rem int }

func (m matcher[T]) Matches(n *nd[T]) bool { return n.id%m.mod == m.rem }

// tree is the implementation-side state of one history.
type tree[T xmath.Numeric] struct {
	q     quadtree.QuadTree[T, *nd[T]]
	objs  map[int]*nd[T]
	parse func(string) T
}

func newTree[T xmath.Numeric](threshold int, parse func(string) T) *tree[T] {
	t := &tree[T]{objs: map[int]*nd[T]{}, parse: parse}
	t.q.Threshold = threshold
	return t
}

func ids[T xmath.Numeric](l []*nd[T]) string {
	if len(l) == 0 {
		return "-"
	}
	v := make([]int, len(l))
	for i, n := range l {
		v[i] = n.id
	}
	sort.Ints(v)
	parts := make([]string, len(v))
	for i, x := range v {
		parts[i] = strconv.Itoa(x)
	}
	return strings.Join(parts, ",")
}

func tf(b bool) string {
	if b {
		return "T"
	}
	return "F"
}

func (t *tree[T]) state() string {
	return "n=" + strconv.Itoa(t.q.Size()) + " all=" + ids(t.q.All())
}

// obj returns the object with that id (one object per id and history: re-inserting an id stores the same pointer
// twice); the rectangle on the line must be the one the object was created with.
func (t *tree[T]) obj(id int, r geom.Rect[T]) *nd[T] {
	if o, ok := t.objs[id]; ok {
		if o.r != r {
			panic("harness: bounds of a stored object must not change")
		}
		return o
	}
	o := &nd[T]{id: id, r: r}
	t.objs[id] = o
	return o
}

func (t *tree[T]) run(f []string) string {
	num := t.parse
	switch {
	case f[0] == "ins" && len(f) == 6:
		t.q.Insert(t.obj(hx.Atoi(f[1]), geom.NewRect(num(f[2]), num(f[3]), num(f[4]), num(f[5]))))
		return t.state()
	case f[0] == "rm" && len(f) == 6:
		t.q.Remove(t.obj(hx.Atoi(f[1]), geom.NewRect(num(f[2]), num(f[3]), num(f[4]), num(f[5]))))
		return t.state()
	case f[0] == "reorg" && len(f) == 1:
		t.q.Reorganize()
		return t.state()
	case f[0] == "clear" && len(f) == 1:
		t.q.Clear()
		return t.state()
	case f[0] == "thr" && len(f) == 2:
		t.q.Threshold = hx.Atoi(f[1])
		return t.state()
	case f[0] == "probe" && len(f) == 9:
		p := geom.NewPoint(num(f[1]), num(f[2]))
		r := geom.NewRect(num(f[3]), num(f[4]), num(f[5]), num(f[6]))
		m := matcher[T]{mod: hx.Atoi(f[7]), rem: hx.Atoi(f[8])}
		q := &t.q
		return strings.Join([]string{
			tf(q.ContainsPoint(p)), ids(q.FindContainsPoint(p)),
			tf(q.MatchedContainsPoint(m, p)), ids(q.FindMatchedContainsPoint(m, p)),
			tf(q.Intersects(r)), ids(q.FindIntersects(r)),
			tf(q.MatchedIntersects(m, r)), ids(q.FindMatchedIntersects(m, r)),
			tf(q.ContainsRect(r)), ids(q.FindContainsRect(r)),
			tf(q.MatchedContainsRect(m, r)), ids(q.FindMatchedContainsRect(m, r)),
			tf(q.ContainedByRect(r)), ids(q.FindContainedByRect(r)),
			tf(q.MatchedContainedByRect(m, r)), ids(q.FindMatchedContainedByRect(m, r)),
		}, " ")
	}
	return "bad-op"
}

type qtArea struct {
	ti *tree[int]
	tf *tree[float64]
}

func (a *qtArea) Run(line string) string {
	f := strings.Fields(line)
	if len(f) == 0 {
		return "bad-op"
	}
	if f[0] == "reset" {
		if len(f) != 3 {
			return "bad-op"
		}
		a.ti, a.tf = nil, nil
		switch f[1] {
		case "i":
			a.ti = newTree(hx.Atoi(f[2]), hx.Atoi)
		case "f":
			a.tf = newTree(hx.Atoi(f[2]), gx.F)
		default:
			return "bad-op"
		}
		return "ok"
	}
	switch {
	case a.ti != nil:
		return a.ti.run(f)
	case a.tf != nil:
		return a.tf.run(f)
	}
	return "bad-op"
}

// ---------------------------------------------------------------------------------------------- generator

type grect [4]int64 // grid units

type hist struct {
	r     *hx.Rng
	j     uint // coordinates are k / 2^j (j = 0 for int trees)
	rects []grect
	in    []int // ids currently inserted (with repetitions)
	emit  func(string)
	lines int
}

func (h *hist) num(v int64) string { return gx.Dy(v, h.j) }

func (h *hist) rectWords(g grect) string {
	return h.num(g[0]) + " " + h.num(g[1]) + " " + h.num(g[2]) + " " + h.num(g[3])
}

func (h *hist) out(s string) {
	h.emit(s)
	h.lines++
}

// universe builds the rectangles of a history in one of several styles.
func universe(r *hx.Rng, n int, huge int64) []grect {
	style := r.Intn(8)
	rs := make([]grect, 0, n)
	size := func() int64 {
		switch r.Intn(10) {
		case 0:
			return 0
		case 1:
			return -int64(r.Range(1, 3))
		case 2, 3, 4:
			return 1
		default:
			return int64(r.Range(1, 9))
		}
	}
	for i := 0; i < n; i++ {
		var g grect
		switch style {
		case 0: // identical unit squares (the fixed stack-overflow case) with a few strangers
			g = grect{3, 3, 1, 1}
			if r.Chance(1, 8) {
				g = grect{int64(r.Range(0, 6)), int64(r.Range(0, 6)), 1, 1}
			}
		case 1: // abutting grid cells
			g = grect{int64(r.Range(0, 7)) * 2, int64(r.Range(0, 7)) * 2, 2, 2}
		case 2: // small cluster, many overlaps and repeats
			g = grect{int64(r.Range(0, 4)), int64(r.Range(0, 4)), int64(r.Range(1, 3)), int64(r.Range(1, 3))}
		case 3: // wide spread
			g = grect{int64(r.Range(-40, 40)), int64(r.Range(-40, 40)), size(), size()}
		case 4: // strips (very different width and height: child 0 sticks out of its parent)
			if r.Bool() {
				g = grect{int64(r.Range(0, 60)), int64(r.Range(0, 2)), int64(r.Range(1, 4)), 1}
			} else {
				g = grect{int64(r.Range(0, 2)), int64(r.Range(0, 60)), 1, int64(r.Range(1, 4))}
			}
		case 5: // nested
			k := int64(r.Range(0, 10))
			g = grect{k, k, 24 - 2*k + int64(r.Intn(2)), 24 - 2*k + int64(r.Intn(2))}
		default:
			g = grect{int64(r.Range(-10, 20)), int64(r.Range(-10, 20)), size(), size()}
		}
		if r.Chance(1, 40) {
			g = grect{-huge / 2, -huge / 2, huge, huge}
		}
		if r.Chance(1, 30) {
			g[2+r.Intn(2)] = -int64(r.Intn(2))
		}
		rs = append(rs, g)
	}
	return rs
}

func (h *hist) probe() {
	r := h.r
	var base grect
	if len(h.rects) > 0 {
		base = hx.Pick(r, h.rects)
	}
	px, py := gx.PointNear(r, [4]int64(base))
	var q grect
	switch r.Intn(7) {
	case 0:
		q = base
	case 1: // slightly larger / smaller than a stored rectangle
		d := int64(r.Range(-1, 1))
		q = grect{base[0] - d, base[1] - d, base[2] + 2*d, base[3] + 2*d}
	case 2: // abutting a stored rectangle
		q = grect{base[0] + base[2], base[1], int64(r.Range(1, 4)), int64(r.Range(1, 4))}
	case 3: // big window
		q = grect{int64(r.Range(-45, 10)), int64(r.Range(-45, 10)), int64(r.Range(10, 90)), int64(r.Range(10, 90))}
	case 4: // tiny window inside
		q = grect{base[0] + base[2]/2, base[1] + base[3]/2, 1, 1}
	case 5: // empty query
		q = grect{base[0], base[1], 0, int64(r.Range(-1, 3))}
	default:
		q = grect{int64(r.Range(-12, 24)), int64(r.Range(-12, 24)), int64(r.Range(1, 12)), int64(r.Range(1, 12))}
	}
	mod := r.Range(1, 3)
	h.out("probe " + h.num(px) + " " + h.num(py) + " " + h.rectWords(q) + " " + strconv.Itoa(mod) + " " + strconv.Itoa(r.Intn(mod)))
}

func (h *hist) mutation() {
	r := h.r
	c := r.Intn(100)
	switch {
	case c < 62 || len(h.in) == 0:
		id := r.Intn(len(h.rects))
		h.out("ins " + strconv.Itoa(id) + " " + h.rectWords(h.rects[id]))
		h.in = append(h.in, id)
	case c < 90:
		var id int
		if r.Chance(1, 8) {
			id = r.Intn(len(h.rects)) // maybe absent
		} else {
			k := r.Intn(len(h.in))
			id = h.in[k]
			h.in[k] = h.in[len(h.in)-1]
			h.in = h.in[:len(h.in)-1]
		}
		h.out("rm " + strconv.Itoa(id) + " " + h.rectWords(h.rects[id]))
	case c < 96:
		h.out("reorg")
	case c < 98:
		h.out("thr " + strconv.Itoa(hx.Pick(r, []int{0, 3, 4, 5, 7, 64})))
	default:
		h.out("clear")
		h.in = h.in[:0]
	}
}

// coverProbe probes with a rectangle that covers a whole region (a quadrant, the root, everything), exactly or with a
// margin, and a point inside it.
func (h *hist) coverProbe(regions []grect) {
	r := h.r
	g := hx.Pick(r, regions)
	m := int64(0)
	switch r.Intn(4) {
	case 0:
		m = 1
	case 1:
		m = int64(r.Range(2, 40))
	}
	q := grect{g[0] - m, g[1] - m, g[2] + 2*m, g[3] + 2*m}
	px, py := g[0]+int64(r.Intn(int(g[2]))), g[1]+int64(r.Intn(int(g[3])))
	mod := r.Range(1, 3)
	h.out("probe " + h.num(px) + " " + h.num(py) + " " + h.rectWords(q) + " " + strconv.Itoa(mod) + " " + strconv.Itoa(r.Intn(mod)))
}

func (h *hist) insID(id int) { h.out("ins " + strconv.Itoa(id) + " " + h.rectWords(h.rects[id])) }
func (h *hist) rmID(id int)  { h.out("rm " + strconv.Itoa(id) + " " + h.rectWords(h.rects[id])) }

// drain generates a history that leaves lazily kept structure behind: a frame fixes the root to S x S, many small
// rectangles are packed into one quadrant (one or two levels deep) so that it is subdivided, then all of them — or
// everything in the tree — are removed with Remove and NO Reorganize/Clear, while rectangles covering that quadrant,
// its parent, the root and everything are probed with all sixteen queries.  Also: nodes outside the root inserted and
// removed again (emptied outside list), and nodes straddling the centre lines removed while the children stay
// populated (emptied root contents above non-empty children).
func (h *hist) drain(thr int) {
	r := h.r
	S := int64(16) << uint(r.Intn(3)) // 16, 32, 64 grid units
	eff := thr
	if eff < 4 {
		eff = 64
	}
	frame := []grect{{0, S - 1, 1, 1}, {S - 1, 0, 1, 1}, {S - 1, S - 1, 1, 1}}
	// the packed region: a quadrant of the root or a quadrant of a quadrant
	size := S / 2
	rx, ry := int64(r.Intn(2))*size, int64(r.Intn(2))*size
	regions := []grect{{rx, ry, size, size}, {0, 0, S, S}, {-S, -S, 3 * S, 3 * S}}
	if r.Bool() {
		size /= 2
		rx += int64(r.Intn(2)) * size
		ry += int64(r.Intn(2)) * size
		regions = append(regions, grect{rx, ry, size, size})
	}
	if rx+size == S && ry+size == S { // keep the frame's far corner out of the packed region
		frame[2] = grect{S - 1, S/2 - 1, 1, 1}
		if ry+size > S/2-1 && ry <= S/2-1 && rx+size == S {
			frame[2] = grect{S/2 - 1, S - 1, 1, 1}
		}
	}
	h.rects = append(h.rects[:0], frame...)
	npack := r.Range(eff+1, eff*3+4)
	for i := 0; i < npack; i++ {
		w, hh := int64(r.Range(1, 2)), int64(r.Range(1, 2))
		if w > size {
			w = size
		}
		if hh > size {
			hh = size
		}
		h.rects = append(h.rects, grect{rx + int64(r.Intn(int(size-w+1))), ry + int64(r.Intn(int(size-hh+1))), w, hh})
	}
	firstPack, endPack := len(frame), len(h.rects)
	// straddlers (stay in the root's own contents) and strangers outside the root
	nstr := r.Range(0, 3)
	for i := 0; i < nstr; i++ {
		h.rects = append(h.rects, grect{S/2 - 1, S/2 - 1 - int64(r.Intn(2)), 2, 2})
	}
	endStr := len(h.rects)
	nout := r.Range(0, 3)
	for i := 0; i < nout; i++ {
		h.rects = append(h.rects, grect{S + int64(r.Range(1, 9)), int64(r.Range(-9, int(S))), int64(r.Range(1, 3)), int64(r.Range(1, 3))})
	}
	endOut := len(h.rects)
	for id := range frame {
		h.insID(id)
	}
	h.out("reorg")
	order := func(lo, hi int) []int {
		v := make([]int, 0, hi-lo)
		for i := lo; i < hi; i++ {
			v = append(v, i)
		}
		for i := len(v) - 1; i > 0; i-- {
			k := r.Intn(i + 1)
			v[i], v[k] = v[k], v[i]
		}
		return v
	}
	maybe := func() {
		if r.Chance(1, 5) {
			h.coverProbe(regions)
		}
	}
	for _, id := range order(firstPack, endOut) {
		h.insID(id)
		maybe()
	}
	if r.Chance(1, 3) && eff != 64 {
		h.out("reorg") // rebuild once while everything is in: the quadrant is subdivided by the re-insertion
	}
	h.coverProbe(regions)
	// drain: packed first (random order), probing in between and after
	phases := [][2]int{{firstPack, endPack}}
	rest := [][2]int{{endPack, endStr}, {endStr, endOut}, {0, firstPack}}
	for _, k := range order(0, len(rest)) {
		if r.Chance(2, 3) {
			phases = append(phases, rest[k])
		}
	}
	if r.Chance(1, 4) { // sometimes the straddlers go first: emptied root contents above populated children
		phases[0], phases[len(phases)-1] = phases[len(phases)-1], phases[0]
	}
	for _, ph := range phases {
		for _, id := range order(ph[0], ph[1]) {
			h.rmID(id)
			maybe()
		}
		for k := 0; k < 4; k++ {
			h.coverProbe(regions)
		}
		h.probe()
	}
	// life goes on after the drain: a few inserts into the emptied structure
	for k := r.Range(0, 4); k > 0; k-- {
		h.insID(r.Intn(len(h.rects)))
		h.coverProbe(regions)
	}
}

func (a *qtArea) Gen(r *hx.Rng, n int, _ string, emit func(string)) {
	total := 0
	for total < n {
		h := &hist{r: r.Fork(), emit: emit}
		kind := "i"
		huge := int64(1) << 31
		if h.r.Bool() {
			kind = "f"
			h.j = uint(h.r.Intn(4))
			huge = 1 << 20
		}
		if h.r.Chance(1, 4) {
			thr := hx.Pick(h.r, []int{4, 4, 5, 5, 3, 64})
			if thr == 3 || thr == 64 {
				thr = hx.Pick(h.r, []int{4, 5, thr}) // effective threshold 64 only now and then (long histories)
			}
			h.out("reset " + kind + " " + strconv.Itoa(thr))
			h.drain(thr)
			total += h.lines
			continue
		}
		thr := hx.Pick(h.r, []int{0, 3, 4, 4, 5, 5, 64})
		nrect := h.r.Range(1, 40)
		steps := h.r.Range(10, 120)
		if thr != 4 && thr != 5 && h.r.Chance(2, 3) { // effective threshold 64: enough items to reorganise and split
			nrect = h.r.Range(70, 160)
			steps = h.r.Range(100, 320)
		}
		h.rects = universe(h.r, nrect, huge)
		h.out("reset " + kind + " " + strconv.Itoa(thr))
		for s := 0; s < steps; s++ {
			h.mutation()
			for k := h.r.Range(0, 2); k > 0; k-- {
				h.probe()
			}
		}
		h.probe()
		total += h.lines
	}
}

func main() {
	debug.SetMaxStack(64 << 20) // a runaway split recursion dies quickly instead of after 1 GB
	hx.Main(map[string]hx.Area{"quadtree": &qtArea{}, "floatscan": fsArea{}})
}
