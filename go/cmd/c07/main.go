// Harness for C07 (quadtree = linear scan): drives quadtree.QuadTree[int, …] and QuadTree[float64, …] through
// histories of Insert / Remove / Reorganize / Clear with all sixteen queries probed in between.
// A history starts with `reset i|f <Threshold>`; float64 coordinates are exact rationals (small dyadics, so that the
// halvings and sums of splitIfNeeded and Union are exact); outputs are sorted id lists.
package main

import (
	"errors"
	"fmt"
	"os"
	"runtime/debug"
	"sort"
	"strconv"
	"strings"
	"sync/atomic"
	"time"

	"github.com/richardwilkes/toolbox/collection/quadtree"
	"github.com/richardwilkes/toolbox/xmath"
	"github.com/richardwilkes/toolbox/xmath/geom"
	"verifharness/cmd/c18/gx"
	"verifharness/hx"
)

// nd is a stored object: identity is the pointer, Bounds never changes.
type nd[T xmath.Numeric] struct {
	id int
	r  geom.Rect[T]
}

func (n *nd[T]) Bounds() geom.Rect[T] { return n.r }

type matcher[T xmath.Numeric] struct{ mod, rem int }

func (m matcher[T]) Matches(n *nd[T]) bool { return n.id%m.mod == m.rem }

// tree is the implementation-side state of one history.
type tree[T xmath.Numeric] struct {
	q      quadtree.QuadTree[T, *nd[T]]
	objs   map[int]*nd[T]
	stored map[int]int // how many entries of the object the tree owes by the specification (not asked from the library)
	parse  func(string) T
}

func newTree[T xmath.Numeric](threshold int, parse func(string) T) *tree[T] {
	t := &tree[T]{objs: map[int]*nd[T]{}, stored: map[int]int{}, parse: parse}
	t.q.Threshold = threshold
	return t
}

func ids[T xmath.Numeric](l []*nd[T]) string {
	if len(l) == 0 {
		return "-"
	}
	v := make([]int, len(l))
	for i, n := range l {
		v[i] = n.id
	}
	sort.Ints(v)
	parts := make([]string, len(v))
	for i, x := range v {
		parts[i] = strconv.Itoa(x)
	}
	return strings.Join(parts, ",")
}

func tf(b bool) string {
	if b {
		return "T"
	}
	return "F"
}

// scribble overwrites a slice the library returned (and appends to it): a result that aliases internal storage would
// corrupt the tree, which the following comparison and every later line would show.
func scribble[T xmath.Numeric](l []*nd[T]) {
	bogus := &nd[T]{id: 999999}
	for i := range l {
		l[i] = bogus
	}
	if cap(l) > len(l) {
		l = l[:cap(l)]
		for i := range l {
			l[i] = bogus
		}
	}
}

func (t *tree[T]) state() string {
	all := t.q.All()
	s := "n=" + strconv.Itoa(t.q.Size()) + " all=" + ids(all)
	scribble(all)
	if again := "n=" + strconv.Itoa(t.q.Size()) + " all=" + ids(t.q.All()); again != s {
		return s + " ALIASED:" + again
	}
	return s
}

// oddMatcher is a matcher that panics (in several ways) on one id or answers inconsistently.
type oddMatcher[T xmath.Numeric] struct {
	mode  string
	id    int
	calls int
}

var errSentinel = errors.New("matcher failed")

func (m *oddMatcher[T]) Matches(n *nd[T]) bool {
	m.calls++
	if m.mode == "flip" {
		return m.calls%2 == 1
	}
	if n.id == m.id || m.id < 0 {
		switch m.mode {
		case "pstring":
			panic("matcher panic")
		case "perror":
			panic(errSentinel)
		case "pruntime":
			var arr []int
			_ = arr[n.id+1]
		case "pnilptr":
			var p *nd[T]
			_ = p.id
		case "pnil":
			panic(nil)
		}
	}
	return n.id%2 == 0
}

// oddProbe runs the eight Matched queries with an odd matcher, each call recovered separately.  What the calls return
// or whether they panic is not judged (the property does not say in which order a matcher is consulted); judged is
// that the answers stay within the unmatched answers and — by the lines that follow — that the tree is unharmed.
func (t *tree[T]) oddProbe(mode string, id int, p geom.Point[T], r geom.Rect[T]) string {
	q := &t.q
	sub := func(found []*nd[T], all []*nd[T]) bool {
		have := map[*nd[T]]int{}
		for _, o := range all {
			have[o]++
		}
		for _, o := range found {
			have[o]--
			if have[o] < 0 {
				return false
			}
		}
		return true
	}
	bad := ""
	try := func(name string, f func() bool) {
		defer func() { _ = recover() }()
		if !f() {
			bad += " " + name
		}
	}
	nm := func() *oddMatcher[T] { return &oddMatcher[T]{mode: mode, id: id} }
	try("FindMatchedContainsPoint", func() bool { return sub(q.FindMatchedContainsPoint(nm(), p), q.FindContainsPoint(p)) })
	try("FindMatchedIntersects", func() bool { return sub(q.FindMatchedIntersects(nm(), r), q.FindIntersects(r)) })
	try("FindMatchedContainsRect", func() bool { return sub(q.FindMatchedContainsRect(nm(), r), q.FindContainsRect(r)) })
	try("FindMatchedContainedByRect", func() bool { return sub(q.FindMatchedContainedByRect(nm(), r), q.FindContainedByRect(r)) })
	try("MatchedContainsPoint", func() bool { return !q.MatchedContainsPoint(nm(), p) || q.ContainsPoint(p) })
	try("MatchedIntersects", func() bool { return !q.MatchedIntersects(nm(), r) || q.Intersects(r) })
	try("MatchedContainsRect", func() bool { return !q.MatchedContainsRect(nm(), r) || q.ContainsRect(r) })
	try("MatchedContainedByRect", func() bool { return !q.MatchedContainedByRect(nm(), r) || q.ContainedByRect(r) })
	if bad != "" {
		return "FAIL matched answer outside the unmatched answer:" + bad
	}
	return "done"
}

// obj returns the object with that id (one object per id and history: re-inserting an id stores the same pointer
// twice).  While at least one entry of the object is stored the rectangle on the line must be the one it was stored
// with (the package's contract); an object that is not stored takes the rectangle of the line — the SAME pointer now
// answers other Bounds(), as a moved widget would.
func (t *tree[T]) obj(id int, r geom.Rect[T]) *nd[T] {
	if o, ok := t.objs[id]; ok {
		if o.r != r {
			if t.stored[id] > 0 {
				return nil // outside the contract (only reached in histories cut down by the minimiser)
			}
			o.r = r
		}
		return o
	}
	o := &nd[T]{id: id, r: r}
	t.objs[id] = o
	return o
}

func (t *tree[T]) run(f []string) string {
	num := t.parse
	switch {
	case f[0] == "ins" && len(f) == 6:
		o := t.obj(hx.Atoi(f[1]), geom.NewRect(num(f[2]), num(f[3]), num(f[4]), num(f[5])))
		if o == nil {
			return "contract"
		}
		if o.r.Width > 0 && o.r.Height > 0 {
			t.stored[o.id]++
		}
		t.q.Insert(o)
		return t.state()
	case f[0] == "rm" && len(f) == 6:
		o := t.obj(hx.Atoi(f[1]), geom.NewRect(num(f[2]), num(f[3]), num(f[4]), num(f[5])))
		if o == nil {
			return "contract"
		}
		if t.stored[o.id] > 0 {
			t.stored[o.id]--
		}
		t.q.Remove(o)
		return t.state()
	case f[0] == "reorg" && len(f) == 1:
		t.q.Reorganize()
		return t.state()
	case f[0] == "clear" && len(f) == 1:
		t.q.Clear()
		t.stored = map[int]int{}
		return t.state()
	case f[0] == "thr" && len(f) == 2:
		t.q.Threshold = hx.Atoi(f[1])
		return t.state()
	case f[0] == "state" && len(f) == 1:
		return t.state()
	case f[0] == "pprobe" && len(f) == 9:
		return t.oddProbe(f[1], hx.Atoi(f[2]), geom.NewPoint(num(f[3]), num(f[4])), geom.NewRect(num(f[5]), num(f[6]), num(f[7]), num(f[8])))
	case f[0] == "probe" && len(f) == 9:
		p := geom.NewPoint(num(f[1]), num(f[2]))
		r := geom.NewRect(num(f[3]), num(f[4]), num(f[5]), num(f[6]))
		m := matcher[T]{mod: hx.Atoi(f[7]), rem: hx.Atoi(f[8])}
		q := &t.q
		var got [][]*nd[T]
		keep := func(l []*nd[T]) string {
			got = append(got, l)
			return ids(l)
		}
		out := strings.Join([]string{
			tf(q.ContainsPoint(p)), keep(q.FindContainsPoint(p)),
			tf(q.MatchedContainsPoint(m, p)), keep(q.FindMatchedContainsPoint(m, p)),
			tf(q.Intersects(r)), keep(q.FindIntersects(r)),
			tf(q.MatchedIntersects(m, r)), keep(q.FindMatchedIntersects(m, r)),
			tf(q.ContainsRect(r)), keep(q.FindContainsRect(r)),
			tf(q.MatchedContainsRect(m, r)), keep(q.FindMatchedContainsRect(m, r)),
			tf(q.ContainedByRect(r)), keep(q.FindContainedByRect(r)),
			tf(q.MatchedContainedByRect(m, r)), keep(q.FindMatchedContainedByRect(m, r)),
		}, " ")
		// aliasing: overwrite every returned slice, then the same queries must answer the same
		before := ids(q.FindIntersects(r)) + "/" + ids(q.FindContainsPoint(p)) + "/" + ids(q.All())
		for _, l := range got {
			scribble(l)
		}
		if after := ids(q.FindIntersects(r)) + "/" + ids(q.FindContainsPoint(p)) + "/" + ids(q.All()); after != before {
			return out + " ALIASED"
		}
		return out
	}
	return "bad-op"
}

type qtArea struct {
	ti *tree[int]
	tf *tree[float64]
}

var busySince atomic.Int64 // unix nanoseconds at which the current line started, 0 when idle

// watchdog ends the process when one line runs for more than 10 s (a looping mutant), so that the driver of the check
// can attribute the death to that line within the quick-tier budget.
func watchdog() {
	for {
		time.Sleep(500 * time.Millisecond)
		if t := busySince.Load(); t != 0 && time.Since(time.Unix(0, t)) > 10*time.Second {
			fmt.Fprintln(os.Stderr, "watchdog: one operation ran for more than 10 s")
			os.Exit(3)
		}
	}
}

func (a *qtArea) Run(line string) string {
	busySince.Store(time.Now().UnixNano())
	defer busySince.Store(0)
	f := strings.Fields(line)
	if len(f) == 0 {
		return "bad-op"
	}
	if f[0] == "reset" {
		if len(f) != 3 {
			return "bad-op"
		}
		a.ti, a.tf = nil, nil
		switch f[1] {
		case "i", "w":
			a.ti = newTree(hx.Atoi(f[2]), hx.Atoi)
		case "f":
			a.tf = newTree(hx.Atoi(f[2]), gx.F)
		case "d":
			a.tf = newTree(hx.Atoi(f[2]), unbits)
		default:
			return "bad-op"
		}
		return "ok"
	}
	switch {
	case a.ti != nil:
		return a.ti.run(f)
	case a.tf != nil:
		return a.tf.run(f)
	}
	return "bad-op"
}

// ---------------------------------------------------------------------------------------------- generator

// thrValues are the values the public Threshold field is set to in mid-history: below MinQuadTreeThreshold (0, ±1, 3,
// negative, MinInt: all mean 64), at and just above it, two-digit values, around the default, and MaxInt.
var thrValues = []int{0, 1, -1, -7, 3, 4, 5, 7, 10, 12, 63, 64, 65, 9223372036854775807, -9223372036854775808}

type grect [4]int64 // grid units

type hist struct {
	r     *hx.Rng
	j     uint // coordinates are k / 2^j (j = 0 for int trees)
	rects []grect
	in    []int // ids currently inserted (with repetitions); a superset of what is stored
	huge  int64
	emit  func(string)
	lines int
}

// rebound gives an object that is certainly not stored new bounds now and then (the package allows that: Bounds() must
// stay the same only WHILE the node is stored) — the same pointer comes back with another rectangle.
func (h *hist) rebound(id int) {
	for _, x := range h.in {
		if x == id {
			return
		}
	}
	if h.huge != 0 && h.r.Chance(1, 3) {
		g := universe(h.r, 1, h.huge)[0]
		if h.r.Bool() { // a small move: next to where it was, other size
			o := h.rects[id]
			g = grect{o[0] + int64(h.r.Range(-3, 3)), o[1] + int64(h.r.Range(-3, 3)), o[2] + int64(h.r.Range(0, 2)), o[3] + int64(h.r.Range(0, 2))}
		}
		h.rects[id] = g
		statRebound++
	}
}

var statRebound int

func (h *hist) num(v int64) string { return gx.Dy(v, h.j) }

func (h *hist) rectWords(g grect) string {
	return h.num(g[0]) + " " + h.num(g[1]) + " " + h.num(g[2]) + " " + h.num(g[3])
}

func (h *hist) out(s string) {
	h.emit(s)
	h.lines++
}

// universe builds the rectangles of a history in one of several styles.
func universe(r *hx.Rng, n int, huge int64) []grect {
	style := r.Intn(8)
	rs := make([]grect, 0, n)
	size := func() int64 {
		switch r.Intn(10) {
		case 0:
			return 0
		case 1:
			return -int64(r.Range(1, 3))
		case 2, 3, 4:
			return 1
		default:
			return int64(r.Range(1, 9))
		}
	}
	for i := 0; i < n; i++ {
		var g grect
		switch style {
		case 0: // identical unit squares (the fixed stack-overflow case) with a few strangers
			g = grect{3, 3, 1, 1}
			if r.Chance(1, 8) {
				g = grect{int64(r.Range(0, 6)), int64(r.Range(0, 6)), 1, 1}
			}
		case 1: // abutting grid cells
			g = grect{int64(r.Range(0, 7)) * 2, int64(r.Range(0, 7)) * 2, 2, 2}
		case 2: // small cluster, many overlaps and repeats
			g = grect{int64(r.Range(0, 4)), int64(r.Range(0, 4)), int64(r.Range(1, 3)), int64(r.Range(1, 3))}
		case 3: // wide spread
			g = grect{int64(r.Range(-40, 40)), int64(r.Range(-40, 40)), size(), size()}
		case 4: // strips (very different width and height: child 0 sticks out of its parent)
			if r.Bool() {
				g = grect{int64(r.Range(0, 60)), int64(r.Range(0, 2)), int64(r.Range(1, 4)), 1}
			} else {
				g = grect{int64(r.Range(0, 2)), int64(r.Range(0, 60)), 1, int64(r.Range(1, 4))}
			}
		case 5: // nested
			k := int64(r.Range(0, 10))
			g = grect{k, k, 24 - 2*k + int64(r.Intn(2)), 24 - 2*k + int64(r.Intn(2))}
		default:
			g = grect{int64(r.Range(-10, 20)), int64(r.Range(-10, 20)), size(), size()}
		}
		if r.Chance(1, 40) {
			g = grect{-huge / 2, -huge / 2, huge, huge}
		}
		if r.Chance(1, 30) {
			g[2+r.Intn(2)] = -int64(r.Intn(2))
		}
		rs = append(rs, g)
	}
	return rs
}

func (h *hist) probe() {
	r := h.r
	var base grect
	if len(h.rects) > 0 {
		base = hx.Pick(r, h.rects)
	}
	px, py := gx.PointNear(r, [4]int64(base))
	var q grect
	switch r.Intn(7) {
	case 0:
		q = base
	case 1: // slightly larger / smaller than a stored rectangle
		d := int64(r.Range(-1, 1))
		q = grect{base[0] - d, base[1] - d, base[2] + 2*d, base[3] + 2*d}
	case 2: // abutting a stored rectangle
		q = grect{base[0] + base[2], base[1], int64(r.Range(1, 4)), int64(r.Range(1, 4))}
	case 3: // big window
		q = grect{int64(r.Range(-45, 10)), int64(r.Range(-45, 10)), int64(r.Range(10, 90)), int64(r.Range(10, 90))}
	case 4: // tiny window inside
		q = grect{base[0] + base[2]/2, base[1] + base[3]/2, 1, 1}
	case 5: // empty query
		q = grect{base[0], base[1], 0, int64(r.Range(-1, 3))}
	default:
		q = grect{int64(r.Range(-12, 24)), int64(r.Range(-12, 24)), int64(r.Range(1, 12)), int64(r.Range(1, 12))}
	}
	mod := r.Range(1, 3)
	h.out("probe " + h.num(px) + " " + h.num(py) + " " + h.rectWords(q) + " " + strconv.Itoa(mod) + " " + strconv.Itoa(r.Intn(mod)))
}

func (h *hist) mutation() {
	r := h.r
	c := r.Intn(100)
	switch {
	case c < 62 || len(h.in) == 0:
		id := r.Intn(len(h.rects))
		h.rebound(id)
		h.out("ins " + strconv.Itoa(id) + " " + h.rectWords(h.rects[id]))
		h.in = append(h.in, id)
	case c < 90:
		var id int
		if r.Chance(1, 8) {
			id = r.Intn(len(h.rects)) // maybe absent
			h.rebound(id)
		} else {
			k := r.Intn(len(h.in))
			id = h.in[k]
			h.in[k] = h.in[len(h.in)-1]
			h.in = h.in[:len(h.in)-1]
		}
		h.out("rm " + strconv.Itoa(id) + " " + h.rectWords(h.rects[id]))
	case c < 96:
		h.out("reorg")
	case c < 98:
		h.out("thr " + strconv.Itoa(hx.Pick(r, thrValues)))
		if r.Bool() { // an operation right after the configuration change
			id := r.Intn(len(h.rects))
			h.insID(id)
			h.in = append(h.in, id)
		}
	default:
		h.out("clear")
		h.in = h.in[:0]
	}
}

// coverProbe probes with a rectangle that covers a whole region (a quadrant, the root, everything), exactly or with a
// margin, and a point inside it.
func (h *hist) coverProbe(regions []grect) {
	r := h.r
	g := hx.Pick(r, regions)
	m := int64(0)
	switch r.Intn(4) {
	case 0:
		m = 1
	case 1:
		m = int64(r.Range(2, 40))
	}
	q := grect{g[0] - m, g[1] - m, g[2] + 2*m, g[3] + 2*m}
	px, py := g[0]+int64(r.Intn(int(g[2]))), g[1]+int64(r.Intn(int(g[3])))
	mod := r.Range(1, 3)
	h.out("probe " + h.num(px) + " " + h.num(py) + " " + h.rectWords(q) + " " + strconv.Itoa(mod) + " " + strconv.Itoa(r.Intn(mod)))
}

// oddProbe: a query round with a panicking or inconsistent matcher, then the state and a normal probe.
func (h *hist) oddProbe() {
	r := h.r
	var base grect
	if len(h.rects) > 0 {
		base = hx.Pick(r, h.rects)
	}
	px, py := gx.PointNear(r, [4]int64(base))
	q := grect{base[0] - 1, base[1] - 1, base[2] + int64(r.Range(0, 12)), base[3] + int64(r.Range(0, 12))}
	if r.Bool() {
		q = grect{-50, -50, 200, 200}
	}
	id := r.Intn(len(h.rects) + 1)
	if r.Chance(1, 4) {
		id = -1 // panic on every call
	}
	mode := hx.Pick(r, []string{"pstring", "perror", "pruntime", "pnilptr", "pnil", "flip"})
	h.out("pprobe " + mode + " " + strconv.Itoa(id) + " " + h.num(px) + " " + h.num(py) + " " + h.rectWords(q))
	h.out("state")
	h.probe()
}

func (h *hist) insID(id int) { h.out("ins " + strconv.Itoa(id) + " " + h.rectWords(h.rects[id])) }
func (h *hist) rmID(id int)  { h.out("rm " + strconv.Itoa(id) + " " + h.rectWords(h.rects[id])) }

// drain generates a history that builds a deep tree and then takes it apart group by group with Remove and NO
// Reorganize/Clear, so that lazily kept structure stays behind.  A frame fixes the root to S x S.  Groups of nodes:
//   - tight clusters: threshold+1 … threshold+3 unit (or smaller region) squares on the same or adjacent cells; they
//     force subdivision all the way down (4 to 6 levels for S = 16 … 64, 60 levels for the huge integer root);
//   - a packed quadrant (many small rectangles spread over one quadrant or a quadrant of a quadrant);
//   - singles: one or two nodes per quadrant, held directly by shallow quadrants (the siblings of the deep ones);
//   - straddlers on the centre lines (held by the root itself) and outsiders beyond the root (outside list).
// All groups are inserted in random order, optionally rebuilt once by Reorganize, then removed group by group in random
// group order — so that quadrants are emptied level by level in every order: deep subtree first (emptied but still
// subdivided quadrant), or its shallow siblings first (populated grandchildren below a quadrant with empty contents),
// root contents first, outside list first, everything — with rectangles covering each region / the root / everything
// probed by all sixteen queries in between, and the structure regrown afterwards.
func (h *hist) drain(thr int, kind string) {
	r := h.r
	S := int64(16) << uint(r.Intn(3)) // 16, 32, 64 grid units
	if kind == "i" && r.Chance(1, 6) {
		S = 1 << 60 // a huge root above unit squares: huge and tiny together
	}
	eff := thr
	if eff < 4 {
		eff = 64
	}
	frame := []grect{{0, S - 1, 1, 1}, {S - 1, 0, 1, 1}}
	regions := []grect{{0, 0, S, S}, {-S / 2, -S / 2, 2 * S, 2 * S}}
	for qx := int64(0); qx < 2; qx++ {
		for qy := int64(0); qy < 2; qy++ {
			regions = append(regions, grect{qx * S / 2, qy * S / 2, S / 2, S / 2})
		}
	}
	h.rects = append(h.rects[:0], frame...)
	var groups [][2]int
	group := func(gen func()) {
		lo := len(h.rects)
		gen()
		if len(h.rects) > lo {
			groups = append(groups, [2]int{lo, len(h.rects)})
		}
	}
	cell := func() (int64, int64) { // a cell well inside the root, away from the frame
		return int64(r.Range(1, 13)) * (S / 16), int64(r.Range(1, 13)) * (S / 16)
	}
	for c := r.Range(1, 3); c > 0; c-- { // tight clusters
		cx, cy := cell()
		cx += int64(r.Intn(3))
		cy += int64(r.Intn(3))
		group(func() {
			for i := r.Range(eff+1, eff+3); i > 0; i-- {
				h.rects = append(h.rects, grect{cx + int64(r.Intn(2)), cy + int64(r.Intn(2)), 1, 1})
			}
		})
		sz := int64(4)
		regions = append(regions, grect{cx - cx%sz, cy - cy%sz, sz, sz}, grect{cx, cy, 2, 2})
	}
	if S <= 64 && r.Bool() { // a packed quadrant
		size := S / 2
		rx, ry := int64(r.Intn(2))*size, int64(r.Intn(2))*size
		if r.Bool() {
			size /= 2
			rx += int64(r.Intn(2)) * size
			ry += int64(r.Intn(2)) * size
		}
		regions = append(regions, grect{rx, ry, size, size})
		group(func() {
			for i := r.Range(eff+1, eff*2+4); i > 0; i-- {
				w, hh := int64(r.Range(1, 2)), int64(r.Range(1, 2))
				h.rects = append(h.rects, grect{rx + int64(r.Intn(int(size-w+1))), ry + int64(r.Intn(int(size-hh+1))), w, hh})
			}
		})
	}
	group(func() { // singles, directly held by shallow quadrants
		for qx := int64(0); qx < 2; qx++ {
			for qy := int64(0); qy < 2; qy++ {
				for i := r.Range(0, 2); i > 0; i-- {
					w := S/4 + 1 // too big for a quadrant of the quadrant
					h.rects = append(h.rects, grect{qx*S/2 + int64(r.Intn(int(S/2-w))), qy*S/2 + int64(r.Intn(int(S/2-w))), w, w})
				}
			}
		}
	})
	group(func() { // straddlers
		for i := r.Range(0, 3); i > 0; i-- {
			h.rects = append(h.rects, grect{S/2 - 1, S/2 - 1 - int64(r.Intn(2)), 2, 2})
		}
	})
	group(func() { // outsiders
		for i := r.Range(0, 3); i > 0; i-- {
			h.rects = append(h.rects, grect{S + int64(r.Range(1, 9)), int64(r.Range(-9, 9)), int64(r.Range(1, 3)), int64(r.Range(1, 3))})
		}
	})
	for id := range frame {
		h.insID(id)
	}
	h.out("reorg")
	order := func(lo, hi int) []int {
		v := make([]int, 0, hi-lo)
		for i := lo; i < hi; i++ {
			v = append(v, i)
		}
		for i := len(v) - 1; i > 0; i-- {
			k := r.Intn(i + 1)
			v[i], v[k] = v[k], v[i]
		}
		return v
	}
	maybe := func() {
		if r.Chance(1, 6) {
			h.coverProbe(regions)
		}
	}
	for _, id := range order(len(frame), len(h.rects)) {
		h.insID(id)
		maybe()
	}
	if r.Chance(1, 3) && eff != 64 {
		h.out("reorg") // rebuild once while everything is in: subdivision by re-insertion
	}
	h.coverProbe(regions)
	h.probe()
	groups = append(groups, [2]int{0, len(frame)})
	for _, g := range order(0, len(groups)) {
		if r.Chance(1, 6) {
			continue // this group stays
		}
		ph := groups[g]
		ids := order(ph[0], ph[1])
		if r.Chance(1, 5) && len(ids) > 1 {
			ids = ids[:len(ids)-1] // all but one
		}
		for _, id := range ids {
			h.rmID(id)
			maybe()
		}
		if r.Chance(1, 4) {
			h.rmID(ids[0]) // a failed remove: Size must not move
		}
		for k := 0; k < 3; k++ {
			h.coverProbe(regions)
		}
		h.probe()
		if r.Chance(1, 5) {
			h.oddProbe()
		}
	}
	// regrow: inserts into the emptied structure, then possibly a rebuild
	for k := r.Range(0, 8); k > 0; k-- {
		h.insID(r.Intn(len(h.rects)))
		h.coverProbe(regions)
	}
	if r.Chance(1, 3) {
		h.out("reorg")
		h.coverProbe(regions)
	}
}

// big generates a history around a collection-size threshold (12, 16/17, 32/33, 64/65/66, 128/129, 256+, 1000+ stored
// nodes): fast paths for small n, the default threshold 64 and growth policies sit there.
func (h *hist) big(tier string) {
	r := h.r
	sizes := []int{12, 16, 17, 32, 33, 63, 64, 65, 66, 128, 129, 257, 300}
	if tier == "thorough" || r.Chance(1, 12) {
		sizes = append(sizes, 1000, 1025)
	}
	n := hx.Pick(r, sizes)
	h.rects = universe(r, n, 1<<20)
	for id := 0; id < n; id++ {
		h.insID(id)
		if id >= n-3 || r.Chance(1, 40) {
			h.probe()
		}
	}
	h.out("reorg")
	h.probe()
	h.probe()
	for _, id := range []int{0, n - 1, n / 2} { // first, last, middle
		h.rmID(id)
		h.probe()
	}
	for k := r.Range(0, 30); k > 0; k-- {
		h.rmID(r.Intn(n))
	}
	h.probe()
	h.oddProbe()
}

func (a *qtArea) Gen(r *hx.Rng, n int, tier string, emit func(string)) {
	total := 0
	for total < n {
		h := &hist{r: r.Fork(), emit: emit}
		kind := "i"
		huge := int64(1) << 31
		if h.r.Bool() {
			kind = "f"
			h.j = uint(h.r.Intn(4))
			huge = 1 << 20
		}
		if h.r.Chance(1, 4) {
			thr := hx.Pick(h.r, []int{4, 4, 5, 5, 3, 64})
			if thr == 3 || thr == 64 {
				thr = hx.Pick(h.r, []int{4, 5, thr}) // effective threshold 64 only now and then (long histories)
			}
			h.out("reset " + kind + " " + strconv.Itoa(thr))
			h.drain(thr, kind)
			total += h.lines
			continue
		}
		if h.r.Chance(1, 20) {
			h.out("reset " + kind + " " + strconv.Itoa(hx.Pick(h.r, []int{0, 4, 5, 64, 12})))
			h.big(tier)
			total += h.lines
			continue
		}
		if kind == "i" {
			huge = 1 << 60
		}
		thr := hx.Pick(h.r, []int{0, 3, 4, 4, 5, 5, 64})
		nrect := h.r.Range(1, 40)
		steps := h.r.Range(10, 120)
		if thr != 4 && thr != 5 && h.r.Chance(2, 3) { // effective threshold 64: enough items to reorganise and split
			nrect = h.r.Range(70, 160)
			steps = h.r.Range(100, 320)
		}
		h.rects = universe(h.r, nrect, huge)
		h.huge = huge
		h.out("reset " + kind + " " + strconv.Itoa(thr))
		for s := 0; s < steps; s++ {
			h.mutation()
			for k := h.r.Range(0, 2); k > 0; k-- {
				h.probe()
			}
			if h.r.Chance(1, 12) {
				h.oddProbe()
			}
		}
		h.probe()
		total += h.lines
	}
}

func main() {
	debug.SetMaxStack(16 << 20) // a runaway split recursion dies quickly instead of after 1 GB
	go watchdog()
	hx.Main(map[string]hx.Area{"quadtree": &qtArea{}, "floatscan": fsArea{}, "intwrap": iwArea{}, "quadwrap": &qwArea{}, "quadfloat": &qfArea{}})
}
