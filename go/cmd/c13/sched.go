package main

import (
	"bytes"
	"errors"
	"fmt"
	"log/slog"
	"runtime"
	"strconv"
	"strings"
	"sync"
	"time"

	"github.com/richardwilkes/toolbox/log/tracelog"
	"verifharness/hx"
)

// Area `sched`: forced schedules of BUFFERED mode, judged by the protocol model (lean/Model/TraceProto.lean).
//
//	sched <depth> <nprod> <tok>*
//	  h<i>     producer i makes one whole Handle call (from its own goroutine) and the script waits for it to return
//	  c<i>.<j> producers i and j make one call each AT THE SAME TIME
//	  w<k>     k more sink Writes may return (without a permit the sink's Write stalls)
//	  s        pause briefly (no constraint)
//	  F        from now on the sink's Write returns an error (the delivery goroutine ignores it)
//
// The delivery goroutine is first parked inside the Write of a primer record (no permits), so the script starts from a
// known state.  What the script does NOT control is when the delivery goroutine receives and when a permitted Write
// returns; the model enumerates those choices.  At the end the sink is released, the channel drained (a sentinel
// record is logged until one arrives) and the output is what every Handle call returned and the final sink content:
//
//	rets=nil,nil,... writes=<hex>|<hex>|...
//
// The check hands `judge <line> => <output>` to the model driver, which answers `ok` iff the outcome is one of the
// outcomes the protocol allows for this script.  Producer i logs through the root (i%3 == 0), root.WithAttrs(pre=i)
// (1) or root.WithGroup("r") (2); its j-th record is `p<i>-<j>` with attributes g, seq and a pad whose length
// depends on both.
type schedArea struct{}

func (schedArea) Gen(r *hx.Rng, n int, _ string, emit func(string)) {
	for i := 0; i < n; i++ {
		nprod := r.Range(1, 5)
		depth := hx.Pick(r, []int{1, 1, 1, 2, 2, 3, nprod, 4})
		w := []string{"sched", strconv.Itoa(depth), strconv.Itoa(nprod)}
		if r.Chance(1, 6) {
			w = append(w, "F")
		}
		// few permits and few concurrent pairs: the set of outcomes the protocol allows stays small, so the verdict is sharp
		permits, pairs := r.Intn(4), r.Intn(3)
		for k := r.Range(4, 12); k > 0; k-- {
			c := r.Intn(100)
			switch {
			case c < 15 && nprod > 1 && pairs > 0:
				pairs--
				a := r.Intn(nprod)
				b := (a + 1 + r.Intn(nprod-1)) % nprod
				w = append(w, "c"+strconv.Itoa(a)+"."+strconv.Itoa(b))
			case c < 35 && permits > 0:
				k2 := r.Range(1, permits)
				permits -= k2
				w = append(w, "w"+strconv.Itoa(k2))
			case c < 45:
				w = append(w, "s")
			default:
				w = append(w, "h"+strconv.Itoa(r.Intn(nprod)))
			}
		}
		emit(strings.Join(w, " "))
	}
}

type schedSink struct {
	mu       sync.Mutex
	cond     *sync.Cond
	permits  int
	open     bool
	inflight bool
	fail     bool
	seen     int
	writes   [][]byte
}

func (s *schedSink) Write(p []byte) (int, error) {
	s.mu.Lock()
	defer s.mu.Unlock()
	s.inflight = true
	s.cond.Broadcast()
	for !s.open && s.permits == 0 {
		s.cond.Wait()
	}
	if !s.open {
		s.permits--
	}
	s.inflight = false
	switch {
	case bytes.Contains(p, sentinelMark):
		rest := p[bytes.Index(p, sentinelMark)+len(sentinelMark):]
		if j := bytes.IndexByte(rest, '\n'); j >= 0 {
			rest = rest[:j]
		}
		s.seen, _ = strconv.Atoi(string(rest)) //nolint:errcheck // machine generated
	case bytes.Contains(p, primerMark):
	default:
		s.writes = append(s.writes, bytes.Clone(p))
	}
	if s.fail {
		return 0, errors.New("sink failure")
	}
	return len(p), nil
}

func schedHandler(root slog.Handler, i int) slog.Handler {
	switch i % 3 {
	case 1:
		return root.WithAttrs([]slog.Attr{slog.Int("pre", i)})
	case 2:
		return root.WithGroup("r")
	}
	return root
}

var schedTime = time.Unix(1700000000, 0).UTC()

func (schedArea) Run(line string) string {
	f := strings.Fields(line)
	if len(f) < 3 || f[0] != "sched" {
		return "bad-op"
	}
	if hangs >= 3 {
		return "dead"
	}
	depth, nprod := hx.Atoi(f[1]), hx.Atoi(f[2])
	s := &schedSink{}
	s.cond = sync.NewCond(&s.mu)
	root := tracelog.New(&tracelog.Config{Sink: s, BufferDepth: depth})
	release := func() {
		s.mu.Lock()
		s.open = true
		s.cond.Broadcast()
		s.mu.Unlock()
	}
	// park the delivery goroutine inside the Write of a primer
	if callHandle(root, slog.NewRecord(time.Time{}, slog.LevelInfo, string(primerMark), 0)) == "ret=blocked" {
		release()
		return "rets=blocked writes=-"
	}
	if !pollUntil(5*time.Second, func() bool { s.mu.Lock(); defer s.mu.Unlock(); return s.inflight }) {
		release()
		hangs++
		return "stuck: the delivery goroutine never reached the sink"
	}
	type result struct {
		p   int
		ret string
	}
	cmds := make([]chan struct{}, nprod)
	done := make(chan result, 2*nprod)
	for i := range cmds {
		cmds[i] = make(chan struct{}, 1)
		go func(i int) {
			h := schedHandler(root, i)
			seq := 0
			for range cmds[i] {
				rec := slog.NewRecord(schedTime, slog.LevelInfo, fmt.Sprintf("p%d-%d", i, seq), 0)
				rec.AddAttrs(slog.Int("g", i), slog.Int("seq", seq), slog.String("pad", strings.Repeat("x", padLen(i, seq))))
				seq++
				ret := "nil"
				if err := h.Handle(ctx, rec); err != nil {
					ret = "err"
				}
				done <- result{i, ret}
			}
		}(i)
	}
	defer func() {
		for _, c := range cmds {
			close(c)
		}
	}()
	var rets []string
	wait := func(k int) bool {
		for ; k > 0; k-- {
			select {
			case r := <-done:
				rets = append(rets, r.ret)
			case <-time.After(2 * time.Second):
				return false
			}
		}
		return true
	}
	for _, tok := range f[3:] {
		ok := true
		switch {
		case tok == "s":
			runtime.Gosched()
			time.Sleep(100 * time.Microsecond)
		case tok == "F":
			s.mu.Lock()
			s.fail = true
			s.mu.Unlock()
		case tok[0] == 'h':
			cmds[hx.Atoi(tok[1:])] <- struct{}{}
			ok = wait(1)
		case tok[0] == 'c':
			p := strings.Split(tok[1:], ".")
			cmds[hx.Atoi(p[0])] <- struct{}{}
			cmds[hx.Atoi(p[1])] <- struct{}{}
			ok = wait(2)
		case tok[0] == 'w':
			s.mu.Lock()
			s.permits += hx.Atoi(tok[1:])
			s.cond.Broadcast()
			s.mu.Unlock()
		default:
			release()
			return "bad-op"
		}
		if !ok {
			hangs++
			release()
			return "rets=" + strings.Join(append(rets, "blocked"), ",") + " writes=-"
		}
	}
	release()
	// drain: log a sentinel until one arrives; the channel is FIFO, so everything accepted before it has been written
	flushed := false
	for seq, end := 1, time.Now().Add(5*time.Second); time.Now().Before(end) && !flushed; seq++ {
		// (every call of the harness into the handler has a deadline: a mutant may block in here)
		if callHandle(root, slog.NewRecord(time.Time{}, slog.LevelInfo, string(sentinelMark)+strconv.Itoa(seq), 0)) == "ret=blocked" {
			return "rets=" + strings.Join(append(rets, "blocked"), ",") + " writes=-"
		}
		want := seq
		flushed = pollUntil(2*time.Millisecond, func() bool { s.mu.Lock(); defer s.mu.Unlock(); return s.seen == want })
	}
	if !flushed {
		hangs++
		return "stuck: the channel was never drained"
	}
	s.mu.Lock()
	defer s.mu.Unlock()
	parts := make([]string, len(s.writes))
	for i, w := range s.writes {
		parts[i] = hx.Hex(w)
	}
	out := "rets=" + strings.Join(rets, ",") + " writes="
	if len(parts) == 0 {
		return out + "-"
	}
	return out + strings.Join(parts, "|")
}

func pollUntil(d time.Duration, pred func() bool) bool {
	end := time.Now().Add(d)
	for {
		if pred() {
			return true
		}
		if time.Now().After(end) {
			return false
		}
		time.Sleep(10 * time.Microsecond)
	}
}
