//go:build nooverlay

package main

import (
	"log/slog"
	"strings"

	"github.com/richardwilkes/toolbox/errs"
)

// Black-box fallback (the overlay did not compile against the working tree): a stand-in that does what the library's
// stackValue is documented to do.  What the real LogValue would have shown is then not observed by the `s` attributes
// (the real value is still exercised through the errs.Log* entry points).
type svStandIn struct{ se errs.StackError }

func (v *svStandIn) StackError() errs.StackError { return v.se }

func (v *svStandIn) LogValue() slog.Value {
	stack := strings.Split(v.se.StackTrace(true), "\n")
	for i := range stack {
		stack[i] = strings.TrimSpace(stack[i])
	}
	return slog.AnyValue(stack)
}

func realStackValue(se errs.StackError) any { return &svStandIn{se: se} }

const svWhiteBox = false
