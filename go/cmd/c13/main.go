// Harness for C13 (log handlers): area `log` is a stateful protocol over tracelog.Handler / multilog.Handler with
// recording sinks (one sink per root handler; every Write call is recorded separately); area `stress` is the
// implementation-side schedule oracle meant for the -race build.
//
// Protocol of area `log` (strings travel as hex of their UTF-8 bytes, "-" = empty):
//
//	reset
//	new <h> <sink> <minLevel> <bufferDepth> [<level>:<name>]*   tracelog.New with a fresh recording sink
//	mnew <m> <h>*                                               multilog.New over existing handlers (tracelog or multilog)
//	wg <new> <parent> <name>                                    WithGroup  -> same | new
//	wa <new> <parent> attr*                                     WithAttrs  -> same | new
//	en <h> <level>                                              Enabled    -> true | false
//	mode <sink> ok|fail|faile|fails|panic|panice                behaviour of the sink's Write from now on: fail = fresh
//	                                                            plain error, faile = fresh *errs.Error, fails = the
//	                                                            sink's one sentinel *errs.Error (same pointer always)
//	hold <sink> / release <sink>                                stall / resume the sink of a buffered handler
//	log <h> <level> <tstok> <sec> <nsec> <zone> <msg> attr*     Handle(record) -> writes since the last op + return
//	logerr <h> <level> <msg> attr*                              errs.LogAttrsWithLevel with a real *errs.Error
//
// attr := e | l <key> <tok> <kind> <payload> | g <key> <n> attr*n | v attr | k <key> <trace> attr | s <key> <trace>
// (`s`: the library's own *stackValue over a scripted errs.StackError whose StackTrace(true) is <trace>)
// (`tok` is the rendering of the leaf computed by the generator with strconv/fmt/time directly; the harness ignores it,
// the model assembles it).
package main

import (
	"bytes"
	"context"
	"errors"
	"fmt"
	"io"
	"log/slog"
	"math"
	"os"
	"regexp"
	"runtime"
	"sort"
	"strconv"
	"strings"
	"sync"
	"time"

	"github.com/richardwilkes/toolbox/errs"
	"github.com/richardwilkes/toolbox/log/multilog"
	"github.com/richardwilkes/toolbox/log/tracelog"
	"verifharness/hx"
)

var (
	sentinelMark = []byte("\x00SENTINEL")
	primerMark   = []byte("\x00PRIMER")
	ctx          = context.Background()
)

// ---------------------------------------------------------------------------------------------- sinks

type sink struct {
	id       int
	mu       sync.Mutex
	cond     *sync.Cond
	writes   [][]byte
	mode     string
	depth    int
	held     bool
	inflight bool
	seen     int
	sentSeq  int
	root     *tracelog.Handler
	sentinel *errs.Error    // the long-lived error of mode `fails`: the same pointer on every call
	agg      *errs.Error    // the long-lived two-element aggregate of mode `failm`
	lvar     *slog.LevelVar // non-nil when the handler family was created with a shared LevelVar
	nonNil   int            // Write calls of a synchronous sink that returned a non-nil error interface (`err != nil`)
}

// foreignErr is an error type of somebody else; a nil *foreignErr in an error interface is a "typed nil".
type foreignErr struct{}

func (e *foreignErr) Error() string { return "foreign-nil" }

type nothing struct{ _ int }

func (s *sink) Write(p []byte) (n int, err error) {
	s.mu.Lock()
	defer s.mu.Unlock()
	defer func() {
		if err != nil && s.depth == 0 { // the interface value, as the caller of the child sees it
			s.nonNil++
		}
	}()
	s.inflight = true
	s.cond.Broadcast()
	for s.held {
		s.cond.Wait()
	}
	s.inflight = false
	if i := bytes.Index(p, sentinelMark); i >= 0 {
		rest := p[i+len(sentinelMark):]
		if j := bytes.IndexByte(rest, '\n'); j >= 0 {
			rest = rest[:j]
		}
		s.seen, _ = strconv.Atoi(string(rest)) //nolint:errcheck // machine generated
		return len(p), nil
	}
	if bytes.Contains(p, primerMark) {
		return len(p), nil
	}
	s.writes = append(s.writes, bytes.Clone(p))
	id := strconv.Itoa(s.id)
	switch s.mode {
	case "fail": // a fresh plain error
		return 0, errors.New("sinkfail" + id)
	case "faile": // a fresh *errs.Error
		return 0, errs.New("sinkfail" + id)
	case "fails": // the sink's sentinel *errs.Error
		return 0, s.sentinel
	case "failm": // the sink's long-lived aggregate of two errors
		return 0, s.agg
	case "failn": // a nil *errs.Error inside a non-nil error interface
		return 0, (*errs.Error)(nil)
	case "failf": // a nil pointer of a foreign error type
		return 0, (*foreignErr)(nil)
	case "panic":
		panic("sinkpanic" + id)
	case "panice":
		panic(errors.New("sinkpanic" + id))
	case "panicr": // a runtime error
		var m map[int]int
		m[s.id] = 1
	case "panicp": // a typed nil pointer that is not an error
		panic((*nothing)(nil))
	case "panicn": // panic(nil): the runtime turns it into *runtime.PanicNilError
		panic(nil) //nolint:govet // on purpose
	case "panics": // the sentinel itself as the panic value
		panic(s.sentinel)
	default:
		if strings.HasPrefix(s.mode, "failk:") { // an error value of a given dynamic kind, see errkinds.go
			return 0, errKinds[s.mode[6:]]
		}
	}
	return len(p), nil
}

func (s *sink) poll(d time.Duration, pred func() bool) bool {
	end := time.Now().Add(d)
	for {
		s.mu.Lock()
		ok := pred()
		s.mu.Unlock()
		if ok {
			return true
		}
		if time.Now().After(end) {
			return false
		}
		time.Sleep(10 * time.Microsecond)
	}
}

// flush makes sure everything accepted by the delivery channel so far has been written: a sentinel record is logged
// until one gets through; the channel is FIFO, so everything before it has been written.
func (s *sink) flush() bool {
	end := time.Now().Add(5 * time.Second)
	for time.Now().Before(end) {
		s.mu.Lock()
		s.sentSeq++
		seq := s.sentSeq
		s.mu.Unlock()
		rec := slog.NewRecord(time.Time{}, slog.LevelInfo, string(sentinelMark)+strconv.Itoa(seq), 0)
		if callHandle(s.root, rec) == "ret=blocked" {
			return false
		}
		if s.poll(2*time.Millisecond, func() bool { return s.seen == seq }) {
			return true
		}
	}
	return false
}

// ---------------------------------------------------------------------------------------------- session

type session struct {
	handlers map[string]slog.Handler
	sinks    map[int]*sink
	dead     bool // a call blocked or a sink got stuck: the rest of the history is answered with "dead" at once
}

var cur = &session{handlers: map[string]slog.Handler{}, sinks: map[int]*sink{}}

// hangs counts calls that ran into their deadline in this process; after three the stream is answered with "dead"
// at once (a hang has been reported; do not pay the deadline thousands of times).
var hangs int

// panicText names a panic value; the wording of the Go runtime's own errors is not compared.
func panicText(rec any) string {
	switch v := rec.(type) {
	case *errs.Error:
		if v != nil {
			return v.Message()
		}
	case *runtime.PanicNilError:
		return "PANICNIL"
	case runtime.Error:
		return "RUNTIMEERR"
	}
	return strings.ReplaceAll(fmt.Sprint(rec), "\n", "\\n")
}

func callHandle(h slog.Handler, r slog.Record) string {
	ch := make(chan string, 1)
	go func() {
		defer func() {
			if rec := recover(); rec != nil {
				ch <- "ret=panic:" + panicText(rec)
			}
		}()
		ch <- fmtErr(h.Handle(ctx, r))
	}()
	select {
	case s := <-ch:
		return s
	case <-time.After(2 * time.Second):
		hangs++
		return "ret=blocked"
	}
}

func fmtErr(err error) string {
	if err == nil {
		return "ret=nil"
	}
	var e *errs.Error
	var ok bool
	if e, ok = err.(*errs.Error); !ok { //nolint:errorlint // the exact dynamic type is the observation
		return "ret=E:" + err.Error()
	}
	if e == nil {
		return "ret=typed-nil"
	}
	var items []string
	for _, w := range e.WrappedErrors() {
		we, ok2 := w.(*errs.Error) //nolint:errorlint // see above
		if !ok2 {
			items = append(items, "E:"+w.Error())
			continue
		}
		// a recovered panic is an error ABOUT a cause (its own message is not the cause's); an error a child returned is
		// either a *errs.Error without cause or a wrapper whose message IS the cause's.  The wording of the library's
		// own message is not compared.
		cause := errors.Unwrap(we)
		causeMsg := ""
		if cause != nil {
			if ce, isE := cause.(*errs.Error); isE { //nolint:errorlint // see above
				causeMsg = ce.Message()
			} else if _, isR := cause.(runtime.Error); isR { //nolint:errorlint // see above
				causeMsg = panicText(cause)
			} else {
				causeMsg = cause.Error()
			}
		}
		if cause != nil && we.Message() != causeMsg {
			items = append(items, "P:"+causeMsg)
		} else {
			items = append(items, "E:"+we.Message())
		}
	}
	if len(items) > 200 { // a correct aggregate has at most two items per child; keep a runaway chain printable
		items = append(items[:200], "...")
	}
	// one output line per operation, whatever a (mutated) library puts into a message
	return "ret=" + strconv.Itoa(e.Count()) + "[" + strings.ReplaceAll(strings.Join(items, ","), "\n", "\\n") + "]"
}

// settle brings every buffered sink to a deterministic state and returns false if one is stuck.
func (ss *session) settle() bool {
	ok := true
	for _, id := range ss.sinkIDs() {
		s := ss.sinks[id]
		if s.depth == 0 {
			continue
		}
		s.mu.Lock()
		held := s.held
		s.mu.Unlock()
		if !held {
			ok = s.flush() && ok
		}
	}
	return ok
}

func (ss *session) sinkIDs() []int {
	ids := make([]int, 0, len(ss.sinks))
	for id := range ss.sinks {
		ids = append(ids, id)
	}
	sort.Ints(ids)
	return ids
}

// collect returns and clears the Write calls recorded since the last operation, per sink in sink-id order.
func (ss *session) collect(canon func([]byte) []byte) []string {
	var out []string
	for _, id := range ss.sinkIDs() {
		s := ss.sinks[id]
		s.mu.Lock()
		ws := s.writes
		s.writes = nil
		s.mu.Unlock()
		if len(ws) == 0 {
			continue
		}
		var sb strings.Builder
		fmt.Fprintf(&sb, "S%d=%d", id, len(ws))
		for _, w := range ws {
			if canon != nil {
				w = canon(w)
			}
			sb.WriteByte(':')
			sb.WriteString(hx.Hex(w))
		}
		out = append(out, sb.String())
	}
	return out
}

// sentinels prints Count() and Message() of every sink's sentinel error: nothing may ever change them.
func (ss *session) sentinels() string {
	ids := ss.sinkIDs()
	if len(ids) == 0 {
		return "sent=-"
	}
	parts := make([]string, 0, len(ids))
	for _, id := range ids {
		e := ss.sinks[id].sentinel
		if e.Count() > 64 { // something keeps growing a child's error: stop the history before it eats the machine
			ss.dead = true
			parts = append(parts, fmt.Sprintf("%d:%d:runaway", id, e.Count()))
			continue
		}
		a := ss.sinks[id].agg
		if a.Count() > 64 {
			ss.dead = true
			parts = append(parts, fmt.Sprintf("%d:agg:%d:runaway", id, a.Count()))
			continue
		}
		msg, amsg := e.Message(), a.Message()
		if len(msg) > 96 { // a sentinel's message never changes; keep a runaway chain printable
			msg = msg[:96] + "~" + strconv.Itoa(len(msg))
		}
		if len(amsg) > 96 {
			amsg = amsg[:96] + "~" + strconv.Itoa(len(amsg))
		}
		parts = append(parts, fmt.Sprintf("%d:%d:%s:%d:%s", id, e.Count(), hx.Hex([]byte(msg)), a.Count(), hx.Hex([]byte(amsg))))
	}
	return "sent=" + strings.Join(parts, ",")
}

// nonNil returns and clears the number of non-nil error interfaces the synchronous sinks handed back since the last
// operation — counted with `err != nil`, never with the library's own notion of nil.
func (ss *session) nonNil() string {
	n := 0
	for _, s := range ss.sinks {
		s.mu.Lock()
		n += s.nonNil
		s.nonNil = 0
		s.mu.Unlock()
	}
	return "nn=" + strconv.Itoa(n)
}

type logArea struct{}

func (logArea) Run(line string) string {
	f := strings.Fields(line)
	if len(f) == 0 {
		return "bad-op"
	}
	ss := cur
	if hangs >= 3 || (ss.dead && f[0] != "reset") {
		return "dead"
	}
	out := ss.run(f)
	if strings.Contains(out, "blocked") || strings.Contains(out, "stuck") {
		ss.dead = true
		if strings.Contains(out, "stuck") {
			hangs++
		}
	}
	return out
}

func (ss *session) run(f []string) string {
	switch f[0] {
	case "reset":
		// release whatever the previous history left stalled so that its goroutines end
		for _, s := range ss.sinks {
			s.mu.Lock()
			s.held = false
			s.cond.Broadcast()
			s.mu.Unlock()
		}
		cur = &session{handlers: map[string]slog.Handler{}, sinks: map[int]*sink{}}
		return "reset"
	case "new":
		if len(f) < 5 {
			return "bad-op"
		}
		id := hx.Atoi(f[2])
		s := &sink{id: id, mode: "ok", depth: max(hx.Atoi(f[4]), 0), sentinel: errs.New("sinksentinel" + f[2])}
		s.agg = errs.Append(errs.New("sinkagg"+f[2]+"a"), errs.New("sinkagg"+f[2]+"b"))
		s.cond = sync.NewCond(&s.mu)
		cfg := &tracelog.Config{Level: leveler(f[3], s), Sink: s, BufferDepth: hx.Atoi(f[4])}
		if len(f) > 5 {
			cfg.LevelNames = map[slog.Level]string{}
			for _, w := range f[5:] {
				p := strings.SplitN(w, ":", 2)
				cfg.LevelNames[slog.Level(hx.Atoi(p[0]))] = string(hx.UnHex(p[1]))
			}
		}
		s.root = tracelog.New(cfg)
		ss.sinks[id] = s
		ss.handlers[f[1]] = s.root
		return "ok"
	case "setlevel": // change the LevelVar shared by a handler family
		if len(f) != 3 {
			return "bad-op"
		}
		s, ok := ss.sinks[hx.Atoi(f[1])]
		if !ok || s.lvar == nil {
			return "bad-op"
		}
		s.lvar.Set(slog.Level(hx.Atoi(f[2])))
		return "ok"
	case "norm": // Config.Normalize on its own
		if len(f) != 4 {
			return "bad-op"
		}
		given := &sink{}
		cfg := tracelog.Config{Level: leveler(f[1], given), BufferDepth: hx.Atoi(f[2])}
		if f[3] == "1" {
			cfg.Sink = given
		}
		cfg.Normalize()
		where := "other"
		switch cfg.Sink {
		case io.Writer(given):
			where = "given"
		case io.Writer(os.Stderr):
			where = "stderr"
		}
		return fmt.Sprintf("level=%d depth=%d sink=%s", int(cfg.Level.Level()), cfg.BufferDepth, where)
	case "mnew":
		kids := make([]slog.Handler, 0, len(f)-2)
		for _, k := range f[2:] { // tracelog handlers, or fan-out handlers made earlier (nesting)
			h, ok := ss.handlers[k]
			if !ok {
				return "bad-op"
			}
			kids = append(kids, h)
		}
		ss.handlers[f[1]] = multilog.New(kids...)
		return "ok"
	case "wg":
		if len(f) != 4 {
			return "bad-op"
		}
		p, ok := ss.handlers[f[2]]
		if !ok {
			return "bad-op"
		}
		n := p.WithGroup(string(hx.UnHex(f[3])))
		ss.handlers[f[1]] = n
		return sameOrNew(p, n)
	case "wa":
		if len(f) < 3 {
			return "bad-op"
		}
		p, ok := ss.handlers[f[2]]
		if !ok {
			return "bad-op"
		}
		nodes, ok := parseNodes(f[3:])
		if !ok {
			return "bad-op"
		}
		n := p.WithAttrs(buildAttrs(nodes))
		ss.handlers[f[1]] = n
		return sameOrNew(p, n)
	case "en":
		if len(f) != 3 {
			return "bad-op"
		}
		h, ok := ss.handlers[f[1]]
		if !ok {
			return "bad-op"
		}
		return strconv.FormatBool(h.Enabled(ctx, slog.Level(hx.Atoi(f[2]))))
	case "mode":
		if len(f) != 3 {
			return "bad-op"
		}
		s, ok := ss.sinks[hx.Atoi(f[1])]
		if !ok {
			return "bad-op"
		}
		switch f[2] {
		case "ok", "fail", "faile", "fails", "failm", "failn", "failf":
		case "panic", "panice", "panicr", "panicp", "panicn", "panics":
			if s.depth > 0 { // a panic in the delivery goroutine would kill the process
				return "bad-op"
			}
		default:
			if _, known := errKinds[strings.TrimPrefix(f[2], "failk:")]; !known || !strings.HasPrefix(f[2], "failk:") {
				return "bad-op"
			}
		}
		s.mu.Lock()
		s.mode = f[2]
		s.mu.Unlock()
		return "ok"
	case "hold":
		if len(f) != 2 {
			return "bad-op"
		}
		s, ok := ss.sinks[hx.Atoi(f[1])]
		if !ok || s.depth == 0 || s.held {
			return "bad-op"
		}
		s.mu.Lock()
		s.held = true
		s.mu.Unlock()
		// occupy the delivery goroutine with a primer so that every later record meets the channel alone
		callHandle(s.root, slog.NewRecord(time.Time{}, slog.LevelInfo, string(primerMark), 0))
		if !s.poll(5*time.Second, func() bool { return s.inflight }) {
			return "stuck"
		}
		return "ok"
	case "release":
		if len(f) != 2 {
			return "bad-op"
		}
		s, ok := ss.sinks[hx.Atoi(f[1])]
		if !ok || s.depth == 0 || !s.held {
			return "bad-op"
		}
		s.mu.Lock()
		s.held = false
		s.cond.Broadcast()
		s.mu.Unlock()
		if !s.flush() {
			return "stuck"
		}
		return strings.Join(append(ss.collect(nil), "released"), " ")
	case "log":
		if len(f) < 8 {
			return "bad-op"
		}
		h, ok := ss.handlers[f[1]]
		if !ok {
			return "bad-op"
		}
		nodes, ok := parseNodes(f[8:])
		if !ok {
			return "bad-op"
		}
		sec, _ := strconv.ParseInt(f[4], 10, 64)  //nolint:errcheck // machine generated
		nsec, _ := strconv.ParseInt(f[5], 10, 64) //nolint:errcheck // machine generated
		rec := slog.NewRecord(mkTime(sec, nsec, hx.Atoi(f[6])), slog.Level(hx.Atoi(f[2])), string(hx.UnHex(f[7])), 0)
		rec.AddAttrs(buildAttrs(nodes)...)
		ret := callHandle(h, rec)
		if !ss.settle() {
			ret += " stuck"
		}
		return strings.Join(append(ss.collect(nil), ret, ss.nonNil(), ss.sentinels()), " ")
	case "logerr": // logerr <h> <level> <msg> attr*  ==  logx LogAttrsWithLevel bg h e <h> <level> <msg> attr*
		if len(f) < 4 {
			return "bad-op"
		}
		return ss.logX(append([]string{"logx", "LogAttrsWithLevel", "bg", "h", "e"}, f[1:]...))
	case "logx": // logx <api> <ctx: bg|nil> <logger: h|nil> <err: e|p|n|t> <h> <level> <msg> attr*
		return ss.logX(f)
	}
	return "bad-op"
}

// sameOrNew: whether a derivation returns the receiver or a copy is not something the property constrains.
func sameOrNew(_, _ slog.Handler) string { return "ok" }

// leveler decodes the level field of `new`/`norm`: a number, `nil` (no Leveler), `tnil` (a nil *slog.LevelVar inside the
// interface) or `var:<n>` (a *slog.LevelVar shared by the whole handler family, see `setlevel`).
func leveler(tok string, s *sink) slog.Leveler {
	switch {
	case tok == "nil":
		return nil
	case tok == "tnil":
		return (*slog.LevelVar)(nil)
	case strings.HasPrefix(tok, "var:"):
		s.lvar = &slog.LevelVar{}
		s.lvar.Set(slog.Level(hx.Atoi(tok[4:])))
		return s.lvar
	}
	return slog.Level(hx.Atoi(tok))
}

func mkTime(sec, nsec int64, zone int) time.Time {
	loc := time.UTC
	if zone != 0 {
		loc = time.FixedZone("", zone)
	}
	return time.Unix(sec, nsec).In(loc)
}

var (
	stampRx     = regexp.MustCompile(` \| (\d{4}-\d{2}-\d{2}) \| (\d{2}:\d{2}:\d{2}\.\d{3}) \| `)
	stackLineRx = regexp.MustCompile(`^    \[[^\n]+\] [^\s]+:\d+$`)
	fbRx        = regexp.MustCompile(`stack_trace=\[(?:\[[^\]\n]*\] [^\s\]]+:\d+ ?)+\]`)
)

func stackShaped(text string) bool {
	if text == "" {
		return false
	}
	for _, l := range strings.Split(text, "\n") {
		if !stackLineRx.MatchString(l) {
			return false
		}
	}
	return true
}

// logX logs an error through one of the ten errs.Log* entry points.  The time stamp (time.Now inside errs) and the
// stack text (addresses of this binary) are replaced by placeholders after being checked independently: the stamp must
// lie in the window of the call; the stack text must FOLLOW the main line inside the same Write, consist of lines of
// the shape `    [function] file:line`, and — when the harness created the *errs.Error itself — equal
// err.StackTrace(true) and start in this function.
func (ss *session) logX(f []string) string {
	if len(f) < 8 {
		return "bad-op"
	}
	api, ctxKind, lgKind, errKind := f[1], f[2], f[3], f[4]
	h, ok := ss.handlers[f[5]]
	if !ok {
		return "bad-op"
	}
	for _, s := range ss.sinks {
		if s.held {
			return "bad-op"
		}
	}
	nodes, ok := parseNodes(f[8:])
	if !ok {
		return "bad-op"
	}
	level, msg, attrs := slog.Level(hx.Atoi(f[6])), string(hx.UnHex(f[7])), buildAttrs(nodes)
	var err error
	trace, fb := "", ""
	switch errKind {
	case "e":
		e := errs.New(msg)
		err = e
		trace = e.StackTrace(true)
		lines := strings.Split(trace, "\n")
		for i := range lines {
			lines[i] = strings.TrimSpace(lines[i])
		}
		fb = fmt.Sprint(lines)
		if !stackShaped(trace) || !strings.Contains(lines[0], "logX") {
			return "bad-stack-text"
		}
	case "p":
		err = errors.New(msg)
	case "n":
	case "t":
		err = (*errs.Error)(nil)
	default:
		v, known := errKinds[strings.TrimPrefix(errKind, "k:")]
		if !known || !strings.HasPrefix(errKind, "k:") {
			return "bad-op"
		}
		err, errKind = v, "p" // wrapped inside errs like any foreign error (or taken for nil: the model knows which)
	}
	var c context.Context = ctx //nolint:staticcheck // a nil context is one of the inputs
	if ctxKind == "nil" {
		c = nil
	}
	logger := slog.New(h)
	passed := logger
	if lgKind == "nil" {
		passed = nil
	}
	anyArgs := make([]any, len(attrs))
	for i, a := range attrs {
		anyArgs[i] = a
	}
	var call func()
	switch api {
	case "Log":
		call = func() { errs.Log(err, anyArgs...) }
	case "LogContext":
		call = func() { errs.LogContext(c, err, anyArgs...) }
	case "LogTo":
		call = func() { errs.LogTo(passed, err, anyArgs...) }
	case "LogContextTo":
		call = func() { errs.LogContextTo(c, passed, err, anyArgs...) }
	case "LogWithLevel":
		call = func() { errs.LogWithLevel(c, level, passed, err, anyArgs...) }
	case "LogAttrs":
		call = func() { errs.LogAttrs(err, attrs...) }
	case "LogAttrsContext":
		call = func() { errs.LogAttrsContext(c, err, attrs...) }
	case "LogAttrsTo":
		call = func() { errs.LogAttrsTo(passed, err, attrs...) }
	case "LogAttrsContextTo":
		call = func() { errs.LogAttrsContextTo(c, passed, err, attrs...) }
	case "LogAttrsWithLevel":
		call = func() { errs.LogAttrsWithLevel(c, level, passed, err, attrs...) }
	default:
		return "bad-op"
	}
	prev := slog.Default()
	slog.SetDefault(logger) // the entry points without a logger (and a nil logger) use the default one
	t0 := time.Now().Truncate(time.Millisecond)
	done := make(chan string, 1)
	go func() {
		defer func() {
			if rec := recover(); rec != nil {
				done <- "ret=panic:" + panicText(rec)
			}
		}()
		call()
		done <- "ret=void"
	}()
	var ret string
	select {
	case ret = <-done:
	case <-time.After(2 * time.Second):
		hangs++
		ret = "ret=blocked"
	}
	t1 := time.Now()
	slog.SetDefault(prev)
	if !ss.settle() {
		ret += " stuck"
	}
	canon := func(w []byte) []byte {
		if m := stampRx.FindSubmatchIndex(w); m != nil {
			t, perr := time.ParseInLocation("2006-01-02 15:04:05.000", string(w[m[2]:m[3]])+" "+string(w[m[4]:m[5]]), time.Local)
			if perr == nil && !t.Before(t0) && !t.After(t1) {
				w = append(append(bytes.Clone(w[:m[0]]), " | NOW | "...), w[m[1]:]...)
			}
		}
		switch errKind {
		case "e":
			if bytes.HasSuffix(w, []byte("\n"+trace+"\n")) {
				w = append(bytes.Clone(w[:len(w)-len(trace)-1]), "<<STACK>>\n"...)
			}
			w = bytes.ReplaceAll(w, []byte(fb), []byte("[<<STACK>>]"))
		case "p": // the *errs.Error is created inside errs: only the shape of its stack text can be checked
			// (the text must mention this function: scripted carriers in the same record have their own text)
			for i := 0; i < len(w)-1 && w[len(w)-1] == '\n'; i++ {
				if w[i] == '\n' {
					if rest := string(w[i+1 : len(w)-1]); stackShaped(rest) && strings.Contains(rest, "logX") {
						w = append(bytes.Clone(w[:i+1]), "<<STACK>>\n"...)
						break
					}
				}
			}
			w = fbRx.ReplaceAllFunc(w, func(m []byte) []byte {
				if bytes.Contains(m, []byte("logX")) {
					return []byte("stack_trace=[<<STACK>>]")
				}
				return m
			})
		}
		return w
	}
	return strings.Join(append(ss.collect(canon), ret, ss.nonNil(), ss.sentinels()), " ")
}

// ---------------------------------------------------------------------------------------------- attribute trees

type node struct {
	kind    byte // e l g v k s
	key     string
	tok     string
	leaf    byte
	payload string
	kids    []*node
	inner   *node
	trace   string
}

// loopLV is a LogValuer that resolves to itself for ever.
type loopLV struct{}

func (l *loopLV) LogValue() slog.Value { return slog.AnyValue(l) }

// lv is a LogValuer resolving to a fixed value.
type lv struct{ v slog.Value }

func (l *lv) LogValue() slog.Value { return l.v }

// scriptedStack is an errs.StackError with a scripted stack text.
type scriptedStack struct{ trace string }

func (s *scriptedStack) Error() string          { return "scripted" }
func (s *scriptedStack) Message() string        { return "scripted" }
func (s *scriptedStack) Detail(bool) string     { return "scripted\n" + s.trace }
func (s *scriptedStack) StackTrace(bool) string { return s.trace }

// carrier mirrors errs' own stack value: it offers StackError() and resolves to something else as a LogValuer.
type carrier struct {
	st *scriptedStack
	fb slog.Value
}

func (c *carrier) StackError() errs.StackError { return c.st }
func (c *carrier) LogValue() slog.Value        { return c.fb }

func parseNode(ws []string) (*node, []string, bool) {
	if len(ws) == 0 {
		return nil, nil, false
	}
	switch ws[0] {
	case "e":
		return &node{kind: 'e'}, ws[1:], true
	case "l":
		if len(ws) < 5 || len(ws[3]) != 1 {
			return nil, nil, false
		}
		return &node{kind: 'l', key: string(hx.UnHex(ws[1])), tok: string(hx.UnHex(ws[2])), leaf: ws[3][0], payload: ws[4]}, ws[5:], true
	case "g":
		if len(ws) < 3 {
			return nil, nil, false
		}
		n := &node{kind: 'g', key: string(hx.UnHex(ws[1]))}
		cnt := hx.Atoi(ws[2])
		rest := ws[3:]
		for i := 0; i < cnt; i++ {
			k, r, ok := parseNode(rest)
			if !ok {
				return nil, nil, false
			}
			n.kids = append(n.kids, k)
			rest = r
		}
		return n, rest, true
	case "v":
		in, rest, ok := parseNode(ws[1:])
		if !ok {
			return nil, nil, false
		}
		return &node{kind: 'v', inner: in}, rest, true
	case "k":
		if len(ws) < 3 {
			return nil, nil, false
		}
		in, rest, ok := parseNode(ws[3:])
		if !ok {
			return nil, nil, false
		}
		return &node{kind: 'k', key: string(hx.UnHex(ws[1])), trace: string(hx.UnHex(ws[2])), inner: in}, rest, true
	case "s":
		if len(ws) < 3 {
			return nil, nil, false
		}
		return &node{kind: 's', key: string(hx.UnHex(ws[1])), trace: string(hx.UnHex(ws[2]))}, ws[3:], true
	}
	return nil, nil, false
}

func parseNodes(ws []string) ([]*node, bool) {
	var out []*node
	for len(ws) > 0 {
		n, rest, ok := parseNode(ws)
		if !ok {
			return nil, false
		}
		out = append(out, n)
		ws = rest
	}
	return out, true
}

func buildAttrs(ns []*node) []slog.Attr {
	out := make([]slog.Attr, 0, len(ns))
	for _, n := range ns {
		out = append(out, n.build())
	}
	return out
}

func (n *node) build() slog.Attr {
	switch n.kind {
	case 'l':
		switch n.leaf {
		case 's':
			return slog.String(n.key, string(hx.UnHex(n.payload)))
		case 'i':
			v, _ := strconv.ParseInt(n.payload, 10, 64) //nolint:errcheck // machine generated
			return slog.Int64(n.key, v)
		case 'u':
			v, _ := strconv.ParseUint(n.payload, 10, 64) //nolint:errcheck // machine generated
			return slog.Uint64(n.key, v)
		case 'f':
			v, _ := strconv.ParseUint(n.payload, 16, 64) //nolint:errcheck // machine generated
			return slog.Float64(n.key, math.Float64frombits(v))
		case 'b':
			return slog.Bool(n.key, n.payload == "1")
		case 'd':
			v, _ := strconv.ParseInt(n.payload, 10, 64) //nolint:errcheck // machine generated
			return slog.Duration(n.key, time.Duration(v))
		case 't':
			p := strings.Split(n.payload, ":")
			sec, _ := strconv.ParseInt(p[0], 10, 64)  //nolint:errcheck // machine generated
			nsec, _ := strconv.ParseInt(p[1], 10, 64) //nolint:errcheck // machine generated
			return slog.Time(n.key, mkTime(sec, nsec, hx.Atoi(p[2])))
		case 'n':
			return slog.Any(n.key, nil)
		case 'r':
			return slog.Any(n.key, &loopLV{})
		case 'x':
			return slog.Any(n.key, errors.New(string(hx.UnHex(n.payload))))
		case 'j':
			k := hx.Atoi(n.payload)
			sl := make([]int, k)
			for i := range sl {
				sl[i] = i
			}
			return slog.Any(n.key, sl)
		}
		panic("bad leaf kind")
	case 'g':
		return slog.Attr{Key: n.key, Value: slog.GroupValue(buildAttrs(n.kids)...)}
	case 'v':
		in := n.inner.build()
		return slog.Attr{Key: in.Key, Value: slog.AnyValue(&lv{v: in.Value})}
	case 'k':
		in := n.inner.build()
		return slog.Attr{Key: n.key, Value: slog.AnyValue(&carrier{st: &scriptedStack{trace: n.trace}, fb: in.Value})}
	case 's':
		return slog.Any(n.key, realStackValue(&scriptedStack{trace: n.trace}))
	}
	return slog.Attr{}
}

func main() {
	hx.Main(map[string]hx.Area{"log": logArea{}, "stress": stressArea{}, "recovery": recoveryArea{}, "sched": schedArea{},
		"rec": recArea{}})
}
