//go:build !nooverlay

package main

import "github.com/richardwilkes/toolbox/errs"

// realStackValue returns the library's own `*stackValue` over a scripted stack (white box, see
// go/overlay/c13_stackvalue.go).
func realStackValue(se errs.StackError) any { return errs.VerifStackValue(se) }

const svWhiteBox = true
