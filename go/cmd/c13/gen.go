package main

import (
	"fmt"
	"math"
	"strconv"
	"strings"
	"time"

	"verifharness/hx"
)

var (
	keys     = []string{"a", "b", "key", "stack_trace", "stack_trace", "", "x.y", "k=v", "sp ace", "é", "msg", "id"}
	strs     = []string{"", "v", "hello world", "q\"uote", "nl\nline", "tab\t", "µs", "\xff\xfe", "back\\slash", "a=b |", " ", "\x00"}
	grpNames = []string{"g", "grp", "", "req", "a.b", "é", "stack_trace"}
	msgs     = []string{"", "msg", "hello world", "a | b", "k=v", "µ unicode", "tab\there", "\"quoted\""}
	levels   = []int{-8, -5, -4, -3, -1, 0, 1, 3, 4, 5, 7, 8, 9, 12, 100, -100, 1234}
	floats   = []float64{0, math.Copysign(0, -1), 1.5, -2.25, 1e21, 1e-7, math.NaN(), math.Inf(1), math.Inf(-1), math.MaxFloat64, 0.1, 123456789}
	ints     = []int64{0, 1, -1, 42, math.MaxInt64, math.MinInt64, 1000000}
	durs     = []int64{0, 1, 1500, 1000000, 90 * 1e9, -5 * 1e9, 3600 * 1e9, math.MaxInt64}
	secs     = []int64{0, 1, 1000000000, 1700000000, 1758844800, 253402300799 - 86400, -62135596800 + 86400, 951782400, 68169600}
	nsecs    = []int64{0, 999999999, 500000, 999499999, 1000000, 123456789}
	zones    = []int{0, 0, 3600, -18000, 19800, -34200}
	traces   = []string{"    [main.f] f.go:12", "    [main.f] f.go:12\n    [main.g] g.go:3", "", "one\ntwo\nthree", "    [x.y] z.go:1\n  Caused by: boom"}
)

func hexs(s string) string { return hx.Hex([]byte(s)) }

func stampTok(t time.Time) string {
	y, mo, d := t.Date()
	h, mi, s := t.Clock()
	return fmt.Sprintf(" | %04d-%02d-%02d | %02d:%02d:%02d.%03d | ", y, int(mo), d, h, mi, s, t.Nanosecond()/1000000)
}

func genLeaf(r *hx.Rng, key string) *node {
	n := &node{kind: 'l', key: key}
	switch r.Intn(12) {
	case 0, 1, 2:
		s := hx.Pick(r, strs)
		if r.Chance(1, 6) {
			b := make([]byte, r.Intn(5))
			for i := range b {
				b[i] = byte(r.U64())
			}
			s = string(b)
		}
		n.leaf, n.payload, n.tok = 's', hexs(s), strconv.Quote(s)
	case 3, 4:
		v := hx.Pick(r, ints)
		if r.Bool() {
			v = int64(r.U64())
		}
		n.leaf, n.payload, n.tok = 'i', strconv.FormatInt(v, 10), strconv.FormatInt(v, 10)
	case 5:
		v := r.U64()
		if r.Bool() {
			v = math.MaxUint64
		}
		n.leaf, n.payload, n.tok = 'u', strconv.FormatUint(v, 10), strconv.FormatUint(v, 10)
	case 6:
		v := hx.Pick(r, floats)
		if r.Chance(1, 3) {
			v = math.Float64frombits(r.U64())
		}
		n.leaf, n.payload, n.tok = 'f', strconv.FormatUint(math.Float64bits(v), 16), strconv.FormatFloat(v, 'g', -1, 64)
	case 7:
		if r.Bool() {
			n.leaf, n.payload, n.tok = 'b', "1", "true"
		} else {
			n.leaf, n.payload, n.tok = 'b', "0", "false"
		}
	case 8:
		v := hx.Pick(r, durs)
		if r.Chance(1, 3) {
			v = int64(r.U64())
		}
		n.leaf, n.payload, n.tok = 'd', strconv.FormatInt(v, 10), time.Duration(v).String()
	case 9:
		sec, nsec, zone := hx.Pick(r, secs), hx.Pick(r, nsecs), hx.Pick(r, zones)
		n.leaf, n.payload = 't', fmt.Sprintf("%d:%d:%d", sec, nsec, zone)
		n.tok = mkTime(sec, nsec, zone).Format(time.RFC3339Nano)
	case 10:
		if key == "" { // Any(nil) under an empty key IS the empty attribute; that is kind `e`
			n.leaf, n.payload, n.tok = 'b', "1", "true"
		} else {
			n.leaf, n.payload, n.tok = 'n', "_", "<nil>"
		}
	default:
		if r.Bool() {
			s := hx.Pick(r, strs)
			n.leaf, n.payload, n.tok = 'x', hexs(s), s
		} else {
			k := r.Intn(4)
			parts := make([]string, k)
			for i := range parts {
				parts[i] = strconv.Itoa(i)
			}
			n.leaf, n.payload, n.tok = 'j', strconv.Itoa(k), "["+strings.Join(parts, " ")+"]"
		}
	}
	return n
}

func genNode(r *hx.Rng, depth int) *node {
	c := r.Intn(20)
	switch {
	case c < 1:
		return &node{kind: 'e'}
	case c < 11 || depth >= 3:
		return genLeaf(r, hx.Pick(r, keys))
	case c < 15:
		n := &node{kind: 'g', key: hx.Pick(r, keys)}
		for i, k := 0, r.Intn(4); i < k; i++ {
			n.kids = append(n.kids, genNode(r, depth+1))
		}
		return n
	case c < 17:
		return &node{kind: 'v', inner: genNode(r, depth+1)}
	default:
		key := "stack_trace"
		if r.Chance(1, 4) {
			key = hx.Pick(r, keys)
		}
		var in *node
		if r.Chance(1, 5) {
			in = &node{kind: 'g', key: key}
			for i, k := 0, r.Intn(3); i < k; i++ {
				in.kids = append(in.kids, genNode(r, depth+1))
			}
		} else {
			in = genLeaf(r, key)
		}
		return &node{kind: 'k', key: key, trace: hx.Pick(r, traces), inner: in}
	}
}

func (n *node) plainEmptyGroup() bool { return n.kind == 'g' && len(n.kids) == 0 }

// norm mirrors what construction does to the tree before any handler sees it: slog.GroupValue removes the members that
// are (already constructed, hence already normalised) empty groups.  LogValuers are opaque to it.
func (n *node) norm() *node {
	switch n.kind {
	case 'g':
		m := &node{kind: 'g', key: n.key}
		for _, k := range n.kids {
			if kn := k.norm(); !kn.plainEmptyGroup() {
				m.kids = append(m.kids, kn)
			}
		}
		return m
	case 'v':
		return &node{kind: 'v', inner: n.inner.norm()}
	case 'k':
		return &node{kind: 'k', key: n.key, trace: n.trace, inner: n.inner.norm()}
	}
	return n
}

func (n *node) words(out []string) []string {
	switch n.kind {
	case 'e':
		return append(out, "e")
	case 'l':
		return append(out, "l", hexs(n.key), hexs(n.tok), string(n.leaf), n.payload)
	case 'g':
		out = append(out, "g", hexs(n.key), strconv.Itoa(len(n.kids)))
		for _, k := range n.kids {
			out = k.words(out)
		}
		return out
	case 'v':
		return n.inner.words(append(out, "v"))
	case 'k':
		return n.inner.words(append(out, "k", hexs(n.key), hexs(n.trace)))
	}
	return out
}

// genAttrs returns the words of 0..max attributes; record=true also applies Record.AddAttrs' removal of empty groups.
func genAttrs(r *hx.Rng, maxN int, record bool) []string {
	var out []string
	for i, k := 0, r.Intn(maxN+1); i < k; i++ {
		n := genNode(r, 0).norm()
		if record && n.plainEmptyGroup() {
			continue
		}
		out = n.words(out)
	}
	return out
}

type ghandler struct {
	name  string
	multi bool
	sinks []int
}

func (logArea) Gen(r *hx.Rng, n int, _ string, emit func(string)) {
	left := n
	out := func(s string) { emit(s); left-- }
	for left > 0 {
		out("reset")
		var hs []ghandler
		buffered := map[int]int{}
		held := map[int]bool{}
		panicky := map[int]bool{}
		nextH, nextS := 0, 1
		newName := func() string { nextH++; return "h" + strconv.Itoa(nextH-1) }
		addRoot := func() {
			depth := 0
			if r.Chance(1, 4) {
				depth = r.Range(1, 3)
			}
			w := []string{"new", newName(), strconv.Itoa(nextS), strconv.Itoa(hx.Pick(r, []int{-8, -4, 0, 0, 0, 1, 4, 8})), strconv.Itoa(depth)}
			if r.Chance(1, 4) {
				seen := map[int]bool{}
				for i, k := 0, r.Range(1, 3); i < k; i++ {
					l := hx.Pick(r, levels)
					if !seen[l] {
						seen[l] = true
						w = append(w, strconv.Itoa(l)+":"+hexs(hx.Pick(r, []string{"TRACE", "info", "", "W", "FATAL!", "é"})))
					}
				}
			}
			if depth > 0 {
				buffered[nextS] = depth
			}
			hs = append(hs, ghandler{name: w[1], sinks: []int{nextS}})
			nextS++
			out(strings.Join(w, " "))
		}
		addRoot()
		for ops := r.Range(8, 45); ops > 0 && left > 0; ops-- {
			h := hs[r.Intn(len(hs))]
			if r.Chance(1, 3) { // favour recent handlers so that chains grow
				h = hs[len(hs)-1-r.Intn(min(3, len(hs)))]
			} else if r.Chance(1, 3) { // and fan-out handlers once there are some
				var ml []ghandler
				for _, x := range hs {
					if x.multi && len(x.sinks) > 0 {
						ml = append(ml, x)
					}
				}
				if len(ml) > 0 {
					h = hx.Pick(r, ml)
				}
			}
			anyHeld := len(held) > 0
			c := r.Intn(100)
			switch {
			case c >= 92 && !anyHeld:
				// one fan-out handler takes several records in a row while the set of failing children varies; its first
				// child keeps returning its sentinel *errs.Error (an aggregate must never be built INTO a child's error)
				var ml []ghandler
				for _, x := range hs {
					if x.multi && len(x.sinks) >= 2 {
						ml = append(ml, x)
					}
				}
				if len(ml) == 0 {
					addRoot()
					continue
				}
				m := hx.Pick(r, ml)
				out("mode " + strconv.Itoa(m.sinks[0]) + " fails")
				for k := r.Range(3, 7); k > 0 && left > 0; k-- {
					for _, sk := range m.sinks[1:] {
						if sk == m.sinks[0] || r.Chance(1, 3) {
							continue
						}
						md := hx.Pick(r, []string{"ok", "ok", "fail", "faile", "fails", "panic"})
						if buffered[sk] > 0 && md == "panic" {
							md = "fail"
						}
						out("mode " + strconv.Itoa(sk) + " " + md)
					}
					if r.Chance(1, 6) {
						out("mode " + strconv.Itoa(m.sinks[0]) + " " + hx.Pick(r, []string{"ok", "fails", "fails"}))
					}
					sec, nsec := 1700000000+int64(r.Intn(40000000)), int64(r.Intn(1000000000))
					w := []string{"log", m.name, strconv.Itoa(hx.Pick(r, []int{8, 8, 9, 12, 100, 4, 0})), hexs(stampTok(mkTime(sec, nsec, 0))),
						strconv.FormatInt(sec, 10), strconv.FormatInt(nsec, 10), "0", hexs(hx.Pick(r, msgs))}
					w = append(w, genAttrs(r, 2, true)...)
					out(strings.Join(w, " "))
				}
			case c < 4 && nextS < 6:
				addRoot()
			case c < 9:
				var tl []ghandler
				for _, x := range hs {
					if !x.multi {
						tl = append(tl, x)
					}
				}
				m := ghandler{name: newName(), multi: true}
				w := []string{"mnew", m.name}
				usedBuf := map[int]bool{}
				for i, k := 0, r.Intn(5); i < k; i++ {
					x := hx.Pick(r, tl)
					// two children on one buffered sink race with the delivery goroutine inside a single Handle:
					// whether the second send finds room is a matter of scheduling, so that shape is left to `stress`
					if buffered[x.sinks[0]] > 0 {
						if usedBuf[x.sinks[0]] {
							continue
						}
						usedBuf[x.sinks[0]] = true
					}
					w = append(w, x.name)
					m.sinks = append(m.sinks, x.sinks...)
				}
				hs = append(hs, m)
				out(strings.Join(w, " "))
			case c < 22:
				nh := ghandler{name: newName(), multi: h.multi, sinks: h.sinks}
				g := hx.Pick(r, grpNames)
				hs = append(hs, nh)
				out("wg " + nh.name + " " + h.name + " " + hexs(g))
			case c < 40:
				nh := ghandler{name: newName(), multi: h.multi, sinks: h.sinks}
				hs = append(hs, nh)
				out(strings.TrimSpace("wa " + nh.name + " " + h.name + " " + strings.Join(genAttrs(r, 3, false), " ")))
			case c < 45:
				out("en " + h.name + " " + strconv.Itoa(hx.Pick(r, levels)))
			case c < 52:
				s := r.Range(1, nextS-1)
				m := hx.Pick(r, []string{"ok", "fail", "faile", "fails", "fails", "panic", "panice"})
				if buffered[s] > 0 && strings.HasPrefix(m, "panic") {
					m = "fail"
				}
				panicky[s] = strings.HasPrefix(m, "panic")
				out("mode " + strconv.Itoa(s) + " " + m)
			case c < 58:
				s := r.Range(1, nextS-1)
				if buffered[s] == 0 {
					continue
				}
				if held[s] {
					delete(held, s)
					out("release " + strconv.Itoa(s))
				} else {
					held[s] = true
					out("hold " + strconv.Itoa(s))
				}
			case c < 64 && !anyHeld:
				out(strings.TrimSpace("logerr " + h.name + " " + strconv.Itoa(hx.Pick(r, levels)) + " " + hexs(hx.Pick(r, msgs)) + " " + strings.Join(genAttrs(r, 3, true), " ")))
			default:
				sec, nsec, zone := hx.Pick(r, secs), hx.Pick(r, nsecs), hx.Pick(r, zones)
				if r.Chance(1, 3) {
					sec, nsec = 1700000000+int64(r.Intn(40000000)), int64(r.Intn(1000000000))
				}
				w := []string{"log", h.name, strconv.Itoa(hx.Pick(r, levels)), hexs(stampTok(mkTime(sec, nsec, zone))),
					strconv.FormatInt(sec, 10), strconv.FormatInt(nsec, 10), strconv.Itoa(zone), hexs(hx.Pick(r, msgs))}
				w = append(w, genAttrs(r, 4, true)...)
				out(strings.Join(w, " "))
			}
		}
		// leave nothing stalled
		for s := 1; s < nextS; s++ {
			if held[s] {
				out("release " + strconv.Itoa(s))
			}
		}
	}
}
