package main

import (
	"fmt"
	"math"
	"strconv"
	"strings"
	"time"

	"verifharness/hx"
)

var (
	keys     = []string{"a", "b", "key", "stack_trace", "stack_trace", "", "x.y", "k=v", "sp ace", "é", "msg", "id", "k\nl"}
	strs     = []string{"", "v", "hello world", "q\"uote", "nl\nline", "tab\t", "µs", "\xff\xfe", "back\\slash", "a=b |", " ", "\x00"}
	grpNames = []string{"g", "grp", "", "req", "a.b", "é", "stack_trace"}
	msgs     = []string{"", "msg", "hello world", "a | b", "k=v", "µ unicode", "tab\there", "\"quoted\"", "two\nlines", "ends with a line feed\n", "\r\n"}
	levels   = []int{-8, -5, -4, -3, -1, 0, 1, 3, 4, 5, 7, 8, 9, 12, 100, -100, 1234, 2, -2, 10, 99, 101, 999, 1000, -9, -10, -99, 127, 128,
		255, 256, math.MaxInt32, math.MaxInt32 + 1, math.MinInt32, math.MinInt32 - 1, math.MaxInt64, math.MaxInt64 - 1, math.MinInt64,
		math.MinInt64 + 1, math.MaxInt64/2 + 1, 1 << 62}
	rootLvls = []string{"-8", "-4", "0", "0", "0", "0", "1", "4", "8", "100", "-100", "9223372036854775807", "-9223372036854775808",
		"nil", "tnil", "var:0", "var:4", "var:-4", "2147483648"}
	depths   = []int{1, 1, 1, 2, 2, 3, 3, 8, 64, 1000}
	negDepth = []int{-1, -2, math.MinInt64, math.MinInt32}
	floats   = []float64{0, math.Copysign(0, -1), 1.5, -2.25, 1e21, 1e-7, math.NaN(), math.Inf(1), math.Inf(-1), math.MaxFloat64, 0.1, 123456789,
		math.SmallestNonzeroFloat64, 2.2250738585072014e-308, 2.225073858507201e-308, 1 << 53, 1<<53 + 2, 0.30000000000000004, 1e20, 1e21 - 131072,
		999999.9999999999, -math.MaxFloat64, float64(math.MaxFloat32), 5e-324, 1e-5, 1e-4}
	ints     = []int64{0, 1, -1, 42, math.MaxInt64, math.MinInt64, 1000000, math.MaxInt32, math.MaxInt32 + 1, math.MinInt32 - 1, 999999, 1000001,
		math.MaxInt64 - 1, math.MinInt64 + 1, 1 << 62, 255, 256, 65535, 65536, 9, 10, 99, 100}
	uints    = []uint64{0, 1, 9, 10, 1 << 63, 1<<63 - 1, 1<<63 + 1, math.MaxUint64, math.MaxUint64 - 1, math.MaxUint32, math.MaxUint32 + 1}
	durs     = []int64{0, 1, 1500, 1000000, 90 * 1e9, -5 * 1e9, 3600 * 1e9, math.MaxInt64, math.MinInt64, -1, 999, 1000, 999999999, 1000000000, 59999999999}
	secs     = []int64{0, 1, 1000000000, 1700000000, 1758844800, 253402300799 - 86400, -62135596800 + 86400, 951782400, 68169600}
	nsecs    = []int64{0, 999999999, 500000, 999499999, 1000000, 123456789, 999500000, 999999, 499999, 500000000, 999000000, 1, 99999999}
	zones    = []int{0, 0, 3600, -18000, 19800, -34200}
	traces   = []string{"    [main.f] f.go:12", "    [main.f] f.go:12\n    [main.g] g.go:3", "", "one\ntwo\nthree", "    [x.y] z.go:1\n  Caused by: boom"}
)

// stack texts for the `s` attribute (a real errs.stackValue over a scripted StackError): every white-space rune that
// unicode.IsSpace accepts, look-alikes it does not accept, invalid UTF-8, CR LF, empty and blank lines.
var (
	svSpaces   = []string{" ", " ", "\t", "\v", "\f", "\r", "\u0085", "\u00a0", "\u1680", "\u2000", "\u2001", "\u2005", "\u200a", "\u2028", "\u2029", "\u202f", "\u205f", "\u3000", "    "}
	svNotSpace = []string{"\u200b", "\ufeff", "\u180e", "\u2060", "\xc2", "\xe2\x80", "\xe2", "\x85", "\xa0", "\x80", "\xff", "\x1c", "\x1f", "\x00", "\xe1\x9a", "\xe3\x80"}
	svBodies   = []string{"[main.f] f.go:12", "[main.f] f.go:12", "a b", "a  b", "x", "", "[", "]", "é", "Caused by: boom", "a\u00a0b", "日本", "a\tb"}
)

func svTrace(r *hx.Rng) string {
	if r.Chance(1, 4) {
		return hx.Pick(r, traces)
	}
	var sb strings.Builder
	ws := func() {
		for i, k := 0, r.Intn(3); i < k; i++ {
			sb.WriteString(hx.Pick(r, svSpaces))
		}
	}
	odd := func() {
		if r.Chance(1, 6) {
			sb.WriteString(hx.Pick(r, svNotSpace))
		}
	}
	for i, k := 0, r.Intn(5); i < k; i++ {
		if i > 0 {
			if r.Chance(1, 8) {
				sb.WriteByte('\r')
			}
			sb.WriteByte('\n')
		}
		ws()
		odd()
		sb.WriteString(hx.Pick(r, svBodies))
		odd()
		ws()
	}
	if r.Chance(1, 10) {
		sb.WriteByte('\n')
	}
	return sb.String()
}

func hexs(s string) string { return hx.Hex([]byte(s)) }

func stampTok(t time.Time) string {
	y, mo, d := t.Date()
	h, mi, s := t.Clock()
	return fmt.Sprintf(" | %04d-%02d-%02d | %02d:%02d:%02d.%03d | ", y, int(mo), d, h, mi, s, t.Nanosecond()/1000000)
}

func genLeaf(r *hx.Rng, key string) *node {
	n := &node{kind: 'l', key: key}
	switch r.Intn(12) {
	case 0, 1, 2:
		s := hx.Pick(r, strs)
		if r.Chance(1, 6) {
			b := make([]byte, r.Intn(5))
			for i := range b {
				b[i] = byte(r.U64())
			}
			s = string(b)
		} else if r.Chance(1, 60) {
			s = longString(r)
		}
		n.leaf, n.payload, n.tok = 's', hexs(s), strconv.Quote(s)
	case 3, 4:
		v := hx.Pick(r, ints)
		if r.Bool() {
			v = int64(r.U64())
		}
		n.leaf, n.payload, n.tok = 'i', strconv.FormatInt(v, 10), strconv.FormatInt(v, 10)
	case 5:
		v := r.U64()
		if r.Bool() {
			v = hx.Pick(r, uints)
		}
		n.leaf, n.payload, n.tok = 'u', strconv.FormatUint(v, 10), strconv.FormatUint(v, 10)
	case 6:
		v := hx.Pick(r, floats)
		if r.Chance(1, 3) {
			v = math.Float64frombits(r.U64())
		}
		n.leaf, n.payload, n.tok = 'f', strconv.FormatUint(math.Float64bits(v), 16), strconv.FormatFloat(v, 'g', -1, 64)
	case 7:
		if r.Bool() {
			n.leaf, n.payload, n.tok = 'b', "1", "true"
		} else {
			n.leaf, n.payload, n.tok = 'b', "0", "false"
		}
	case 8:
		v := hx.Pick(r, durs)
		if r.Chance(1, 3) {
			v = int64(r.U64())
		}
		n.leaf, n.payload, n.tok = 'd', strconv.FormatInt(v, 10), time.Duration(v).String()
	case 9:
		sec, nsec, zone := hx.Pick(r, secs), hx.Pick(r, nsecs), hx.Pick(r, zones)
		n.leaf, n.payload = 't', fmt.Sprintf("%d:%d:%d", sec, nsec, zone)
		n.tok = mkTime(sec, nsec, zone).Format(time.RFC3339Nano)
	case 10:
		if key == "" { // Any(nil) under an empty key IS the empty attribute; that is kind `e`
			n.leaf, n.payload, n.tok = 'b', "1", "true"
		} else {
			n.leaf, n.payload, n.tok = 'n', "_", "<nil>"
		}
	default:
		if r.Chance(1, 8) { // a LogValuer that never resolves: slog gives up and substitutes an error value
			n.leaf, n.payload, n.tok = 'r', "_", "LogValue called too many times on Value of type *main.loopLV"
		} else if r.Bool() {
			s := hx.Pick(r, strs)
			n.leaf, n.payload, n.tok = 'x', hexs(s), s
		} else {
			k := r.Intn(4)
			parts := make([]string, k)
			for i := range parts {
				parts[i] = strconv.Itoa(i)
			}
			n.leaf, n.payload, n.tok = 'j', strconv.Itoa(k), "["+strings.Join(parts, " ")+"]"
		}
	}
	return n
}

func genNode(r *hx.Rng, depth int) *node {
	c := r.Intn(20)
	switch {
	case c < 1:
		return &node{kind: 'e'}
	case c < 11 || depth >= 3:
		return genLeaf(r, hx.Pick(r, keys))
	case c < 15:
		n := &node{kind: 'g', key: hx.Pick(r, keys)}
		for i, k := 0, r.Intn(4); i < k; i++ {
			n.kids = append(n.kids, genNode(r, depth+1))
		}
		return n
	case c < 17:
		return &node{kind: 'v', inner: genNode(r, depth+1)}
	case c >= 19: // the library's own stackValue over a scripted stack text
		key := "stack_trace"
		if r.Chance(1, 5) {
			key = hx.Pick(r, keys)
		}
		return &node{kind: 's', key: key, trace: svTrace(r)}
	default:
		key := "stack_trace"
		if r.Chance(1, 4) {
			key = hx.Pick(r, keys)
		}
		var in *node
		if r.Chance(1, 5) {
			in = &node{kind: 'g', key: key}
			for i, k := 0, r.Intn(3); i < k; i++ {
				in.kids = append(in.kids, genNode(r, depth+1))
			}
		} else {
			in = genLeaf(r, key)
		}
		return &node{kind: 'k', key: key, trace: hx.Pick(r, traces), inner: in}
	}
}

func (n *node) plainEmptyGroup() bool { return n.kind == 'g' && len(n.kids) == 0 }

// norm mirrors what construction does to the tree before any handler sees it: slog.GroupValue removes the members that
// are (already constructed, hence already normalised) empty groups.  LogValuers are opaque to it.
func (n *node) norm() *node {
	switch n.kind {
	case 'g':
		m := &node{kind: 'g', key: n.key}
		for _, k := range n.kids {
			if kn := k.norm(); !kn.plainEmptyGroup() {
				m.kids = append(m.kids, kn)
			}
		}
		return m
	case 'v':
		return &node{kind: 'v', inner: n.inner.norm()}
	case 'k':
		return &node{kind: 'k', key: n.key, trace: n.trace, inner: n.inner.norm()}
	}
	return n // (`s`, leaves, the empty attribute)
}

func (n *node) words(out []string) []string { return n.wordsIn(out, "") }

// wordsIn: `outer` is the type of the outermost LogValuer the value is wrapped in (slog names it when a LogValuer
// never resolves).
func (n *node) wordsIn(out []string, outer string) []string {
	switch n.kind {
	case 'e':
		return append(out, "e")
	case 'l':
		tok := n.tok
		if n.leaf == 'r' && outer != "" {
			tok = strings.Replace(tok, "*main.loopLV", outer, 1)
		}
		return append(out, "l", hexs(n.key), hexs(tok), string(n.leaf), n.payload)
	case 'g':
		out = append(out, "g", hexs(n.key), strconv.Itoa(len(n.kids)))
		for _, k := range n.kids {
			out = k.wordsIn(out, "")
		}
		return out
	case 'v':
		if outer == "" {
			outer = "*main.lv"
		}
		return n.inner.wordsIn(append(out, "v"), outer)
	case 'k':
		if outer == "" {
			outer = "*main.carrier"
		}
		return n.inner.wordsIn(append(out, "k", hexs(n.key), hexs(n.trace)), outer)
	case 's':
		return append(out, "s", hexs(n.key), hexs(n.trace))
	}
	return out
}

// genAttrs returns the words of 0..max attributes; record=true also applies Record.AddAttrs' removal of empty groups.
func genAttrs(r *hx.Rng, maxN int, record bool) []string {
	var out []string
	for i, k := 0, r.Intn(maxN+1); i < k; i++ {
		n := genNode(r, 0).norm()
		if record && n.plainEmptyGroup() {
			continue
		}
		out = n.words(out)
	}
	return out
}

// longString returns a string around a size threshold (small-buffer, page and 64 KiB boundaries).
func longString(r *hx.Rng) string {
	n := hx.Pick(r, []int{63, 64, 65, 127, 128, 129, 255, 256, 257, 1023, 1024, 4095, 4096, 4097, 65535, 65536, 65537, 70000})
	b := make([]byte, n)
	for i := range b {
		b[i] = "abcdefghijklmnopqrstuvwxyz \"\\\n"[(i*7+n)%30]
	}
	return string(b)
}

var sizes = []int{5, 6, 7, 12, 16, 17, 32, 33, 64, 65, 100, 128, 129, 257}

// bigAttrs returns attribute words of a shape chosen for its SIZE: many attributes (slog keeps the first five inline),
// deep nesting, wide groups, long values.
func bigAttrs(r *hx.Rng, tier string, record bool) []string {
	var nodes []*node
	switch r.Intn(5) {
	case 0: // many flat attributes
		n := hx.Pick(r, sizes)
		if tier == "thorough" && r.Chance(1, 4) {
			n = hx.Pick(r, []int{1000, 1025, 2049})
		}
		for i := 0; i < n; i++ {
			if r.Chance(1, 10) {
				nodes = append(nodes, genNode(r, 2))
			} else {
				nodes = append(nodes, genLeaf(r, "k"+strconv.Itoa(i)))
			}
		}
	case 1: // deep nesting, an attribute after each closing group (the prefix must be restored at every level)
		d := hx.Pick(r, []int{10, 11, 16, 17, 32, 33, 64, 65})
		cur := genLeaf(r, "leaf")
		for i := d; i > 0; i-- {
			g := &node{kind: 'g', key: "g" + strconv.Itoa(i)}
			if r.Chance(1, 5) {
				g.kids = append(g.kids, &node{kind: 'g', key: "empty"}) // dropped by GroupValue
			}
			if r.Chance(1, 5) {
				g.kids = append(g.kids, &node{kind: 'v', inner: &node{kind: 'g', key: "vempty"}}) // survives until Resolve
			}
			g.kids = append(g.kids, cur)
			if r.Bool() {
				g.kids = append(g.kids, genLeaf(r, "after"+strconv.Itoa(i)))
			}
			if r.Chance(1, 4) {
				cur = &node{kind: 'v', inner: g}
			} else {
				cur = g
			}
		}
		nodes = append(nodes, cur, genLeaf(r, "tail"))
	case 2: // a wide group and wide nested groups
		n := hx.Pick(r, sizes)
		g := &node{kind: 'g', key: "wide"}
		for i := 0; i < n; i++ {
			if i%9 == 4 {
				in := &node{kind: 'g', key: "in" + strconv.Itoa(i)}
				for j, k := 0, r.Intn(4); j < k; j++ {
					in.kids = append(in.kids, genLeaf(r, "j"+strconv.Itoa(j)))
				}
				g.kids = append(g.kids, in)
			} else {
				g.kids = append(g.kids, genLeaf(r, "i"+strconv.Itoa(i)))
			}
		}
		nodes = append(nodes, genLeaf(r, "before"), g, genLeaf(r, "after"))
	case 3: // long values and keys
		s := longString(r)
		nodes = append(nodes, &node{kind: 'l', key: "long", leaf: 's', payload: hexs(s), tok: strconv.Quote(s)})
		k := longString(r)
		if len(k) > 5000 {
			k = k[:5000]
		}
		nodes = append(nodes, genLeaf(r, strings.ReplaceAll(k, "\n", "_")), genLeaf(r, "z"))
	default: // empty things in every position, with something after them
		for i, k := 0, r.Range(3, 12); i < k; i++ {
			switch r.Intn(6) {
			case 0:
				nodes = append(nodes, &node{kind: 'g', key: hx.Pick(r, keys)})
			case 1:
				nodes = append(nodes, &node{kind: 'v', inner: &node{kind: 'g', key: hx.Pick(r, keys)}})
			case 2:
				nodes = append(nodes, &node{kind: 'e'})
			case 3:
				nodes = append(nodes, &node{kind: 'g', key: hx.Pick(r, keys), kids: []*node{{kind: 'v', inner: &node{kind: 'g', key: "x"}}, {kind: 'e'}}})
			case 4:
				nodes = append(nodes, &node{kind: 'k', key: "stack_trace", trace: hx.Pick(r, traces), inner: genLeaf(r, "stack_trace")})
			default:
				nodes = append(nodes, genLeaf(r, hx.Pick(r, keys)))
			}
		}
	}
	var out []string
	for _, n := range nodes {
		n = n.norm()
		if record && n.plainEmptyGroup() {
			continue
		}
		out = n.words(out)
	}
	return out
}

type ghandler struct {
	name  string
	multi bool
	sinks []int
	depth int // number of derivations below its root
}

var (
	okModes   = []string{"ok", "ok", "fail", "faile", "fails", "fails", "failm", "failn", "failf", "failk", "failk", "failk", "failk", "panic", "panice", "panicr", "panicp", "panicn", "panics"}
	logAPIs   = []string{"Log", "LogContext", "LogTo", "LogContextTo", "LogWithLevel", "LogAttrs", "LogAttrsContext", "LogAttrsTo", "LogAttrsContextTo", "LogAttrsWithLevel"}
	bigMsgLen = []int{64, 65, 4096, 65536, 65537}
)

type gen struct {
	r        *hx.Rng
	tier     string
	left     int
	emit     func(string)
	hs       []ghandler
	buffered map[int]int
	held     map[int]bool
	isVar    map[int]bool
	nextH    int
	nextS    int
}

func (g *gen) out(s string) { g.emit(s); g.left-- }

func (g *gen) newName() string { g.nextH++; return "h" + strconv.Itoa(g.nextH-1) }

func (g *gen) addRoot() {
	r := g.r
	depth := 0
	switch {
	case r.Chance(1, 4):
		depth = hx.Pick(r, depths)
	case r.Chance(1, 20):
		depth = hx.Pick(r, negDepth) // Normalize turns it into 0
	}
	lvl := hx.Pick(r, rootLvls)
	w := []string{"new", g.newName(), strconv.Itoa(g.nextS), lvl, strconv.Itoa(depth)}
	if r.Chance(1, 4) {
		seen := map[int]bool{}
		k := r.Range(1, 3)
		if r.Chance(1, 8) {
			k = hx.Pick(r, []int{8, 9, 17, 33}) // beyond the small-map representation
		}
		for i := 0; i < k; i++ {
			l := hx.Pick(r, levels)
			if i >= 3 {
				l = i*3 - 20
			}
			if !seen[l] {
				seen[l] = true
				w = append(w, strconv.Itoa(l)+":"+hexs(hx.Pick(r, []string{"TRACE", "info", "", "W", "FATAL!", "é", "a | b"})))
			}
		}
	}
	if depth > 0 {
		g.buffered[g.nextS] = depth
	}
	g.isVar[g.nextS] = strings.HasPrefix(lvl, "var:")
	g.hs = append(g.hs, ghandler{name: w[1], sinks: []int{g.nextS}})
	g.nextS++
	g.out(strings.Join(w, " "))
}

func (g *gen) attrs(maxN int, record bool) []string {
	if g.r.Chance(1, 60) {
		return bigAttrs(g.r, g.tier, record)
	}
	return genAttrs(g.r, maxN, record)
}

func (g *gen) logLine(h ghandler, level int, attrs []string) {
	r := g.r
	sec, nsec, zone := hx.Pick(r, secs), hx.Pick(r, nsecs), hx.Pick(r, zones)
	if r.Chance(1, 3) {
		sec, nsec = 1700000000+int64(r.Intn(40000000)), int64(r.Intn(1000000000))
	}
	msg := hx.Pick(r, msgs)
	if r.Chance(1, 80) {
		msg = strings.Repeat("m", hx.Pick(r, bigMsgLen))
	}
	w := []string{"log", h.name, strconv.Itoa(level), hexs(stampTok(mkTime(sec, nsec, zone))),
		strconv.FormatInt(sec, 10), strconv.FormatInt(nsec, 10), strconv.Itoa(zone), hexs(msg)}
	g.out(strings.Join(append(w, attrs...), " "))
}

func (g *gen) derive(h ghandler) ghandler {
	r := g.r
	nh := ghandler{name: g.newName(), multi: h.multi, sinks: h.sinks, depth: h.depth + 1}
	g.hs = append(g.hs, nh)
	if r.Chance(2, 5) {
		g.out("wg " + nh.name + " " + h.name + " " + hexs(hx.Pick(r, grpNames)))
	} else {
		a := g.attrs(3, false)
		if r.Chance(1, 4) { // an empty group handed to WithAttrs reaches the handler; something must follow it
			a = append((&node{kind: 'g', key: hx.Pick(r, keys)}).words(nil), a...)
		}
		g.out(strings.TrimSpace("wa " + nh.name + " " + h.name + " " + strings.Join(a, " ")))
	}
	return nh
}

func (g *gen) pickMulti(minSinks int) (ghandler, bool) {
	var ml []ghandler
	for _, x := range g.hs {
		if x.multi && len(x.sinks) >= minSinks {
			ml = append(ml, x)
		}
	}
	if len(ml) == 0 {
		return ghandler{}, false
	}
	return hx.Pick(g.r, ml), true
}

func (g *gen) setMode(s int, m string) {
	if m == "failk" { // an error value of some dynamic kind
		m = "failk:" + hx.Pick(g.r, errKindNames)
	}
	if g.buffered[s] > 0 && strings.HasPrefix(m, "panic") {
		m = "fail" // a panic in the delivery goroutine would end the process
	}
	g.out("mode " + strconv.Itoa(s) + " " + m)
}

func (g *gen) anyHeld() bool { return len(g.held) > 0 }

func (logArea) Gen(r *hx.Rng, n int, tier string, emit func(string)) {
	g := &gen{r: r, tier: tier, left: n, emit: emit}
	for g.left > 0 {
		g.out("reset")
		g.hs, g.buffered, g.held, g.isVar, g.nextH, g.nextS = nil, map[int]int{}, map[int]bool{}, map[int]bool{}, 0, 1
		g.addRoot()
		for ops := r.Range(8, 45); ops > 0 && g.left > 0; ops-- {
			g.one()
		}
		for s := 1; s < g.nextS; s++ { // leave nothing stalled
			if g.held[s] {
				g.out("release " + strconv.Itoa(s))
			}
		}
	}
}

func (g *gen) one() {
	r := g.r
	h := g.hs[r.Intn(len(g.hs))]
	if r.Chance(1, 3) { // favour recent handlers so that chains grow
		h = g.hs[len(g.hs)-1-r.Intn(min(3, len(g.hs)))]
	} else if r.Chance(1, 3) { // and fan-out handlers once there are some
		if m, ok := g.pickMulti(1); ok {
			h = m
		}
	}
	c := r.Intn(100)
	switch {
	case c < 3 && g.nextS < 6:
		g.addRoot()
	case c < 8:
		var tl []ghandler
		for _, x := range g.hs {
			if !x.multi {
				tl = append(tl, x)
			}
		}
		m := ghandler{name: g.newName(), multi: true}
		w := []string{"mnew", m.name}
		usedBuf := map[int]bool{}
		k := r.Intn(5)
		if r.Chance(1, 12) {
			k = hx.Pick(r, []int{16, 17, 18, 33, 65}) // many children
		}
		nest := r.Chance(1, 3) // some children are fan-out handlers themselves
		for i := 0; i < k; i++ {
			x := hx.Pick(r, tl)
			if nest && r.Bool() {
				x = hx.Pick(r, g.hs)
			}
			// two children on one buffered sink race with the delivery goroutine inside a single Handle: whether the
			// second send finds room is a matter of scheduling, so that shape is left to `stress`
			clash := false
			for _, sk := range x.sinks {
				clash = clash || (g.buffered[sk] > 0 && usedBuf[sk])
			}
			if clash || len(m.sinks)+len(x.sinks) > 80 {
				continue
			}
			for _, sk := range x.sinks {
				if g.buffered[sk] > 0 {
					usedBuf[sk] = true
				}
			}
			w = append(w, x.name)
			m.sinks = append(m.sinks, x.sinks...)
		}
		g.hs = append(g.hs, m)
		g.out(strings.Join(w, " "))
	case c < 30:
		g.derive(h)
	case c < 34: // derivation tree: two siblings at every depth, the chain goes on from one of them, everything logs afterwards
		var made []ghandler
		cur := h
		d := r.Range(3, 10)
		if r.Chance(1, 10) {
			d = hx.Pick(r, []int{16, 17, 33})
		}
		for i := 0; i < d && g.left > 0; i++ {
			a := g.derive(cur)
			b := g.derive(cur)
			made = append(made, a, b)
			if r.Chance(1, 4) {
				made = append(made, g.derive(cur)) // a third one
			}
			if r.Bool() {
				cur = a
			} else {
				cur = b
			}
		}
		for i, k := 0, r.Range(3, 8); i < k && g.left > 0 && !g.anyHeld(); i++ {
			x := hx.Pick(r, made)
			g.logLine(x, hx.Pick(r, []int{8, 8, 9, 100, math.MaxInt64}), genAttrs(r, 2, true))
		}
		if !g.anyHeld() && g.left > 0 {
			g.logLine(h, 100, nil) // and the handler it all started from
		}
	case c < 38:
		g.out("en " + h.name + " " + strconv.Itoa(hx.Pick(r, levels)))
	case c < 45:
		g.setMode(r.Range(1, g.nextS-1), hx.Pick(r, okModes))
	case c < 50:
		s := r.Range(1, g.nextS-1)
		if g.buffered[s] == 0 {
			return
		}
		if g.held[s] {
			delete(g.held, s)
			g.out("release " + strconv.Itoa(s))
		} else {
			g.held[s] = true
			g.out("hold " + strconv.Itoa(s))
		}
	case c < 53: // buffered burst: fill to the limit and one beyond, drain, regrow, with records of different lengths
		s := r.Range(1, g.nextS-1)
		d := g.buffered[s]
		if d == 0 || d > 8 || g.held[s] {
			return
		}
		var fam []ghandler
		for _, x := range g.hs {
			if !x.multi && x.sinks[0] == s {
				fam = append(fam, x)
			}
		}
		for round := 0; round < 2 && g.left > 0; round++ {
			g.out("hold " + strconv.Itoa(s))
			g.held[s] = true
			for i, k := 0, d+r.Range(0, 2); i < k; i++ {
				g.logLine(hx.Pick(r, fam), 8, genAttrs(r, i%4, true))
			}
			g.out("release " + strconv.Itoa(s))
			delete(g.held, s)
			g.logLine(hx.Pick(r, fam), 8, nil)
		}
	case c < 56: // change the level shared by a family, then look at once
		s := r.Range(1, g.nextS-1)
		if !g.isVar[s] {
			return
		}
		l := hx.Pick(r, levels)
		g.out("setlevel " + strconv.Itoa(s) + " " + strconv.Itoa(l))
		g.out("en " + h.name + " " + strconv.Itoa(hx.Pick(r, []int{l, l - 1, l + 1, 0})))
		if !g.anyHeld() {
			g.logx(h, hx.Pick(r, []int{l, l - 1, 8}))
		}
	case c < 57:
		g.out("norm " + hx.Pick(r, rootLvls) + " " + strconv.Itoa(hx.Pick(r, []int{0, 1, -1, 64, math.MinInt64, math.MaxInt64})) + " " + strconv.Itoa(r.Intn(2)))
	case c < 64 && !g.anyHeld():
		g.logx(h, hx.Pick(r, levels))
	case c >= 92 && !g.anyHeld():
		// one fan-out handler takes several records in a row while the set of failing children varies; its first
		// child keeps returning its sentinel *errs.Error (an aggregate must never be built INTO a child's error)
		m, ok := g.pickMulti(2)
		if !ok {
			g.addRootOrDerive(h)
			return
		}
		g.setMode(m.sinks[0], hx.Pick(r, []string{"fails", "fails", "failm"}))
		for k := r.Range(3, 7); k > 0 && g.left > 0; k-- {
			for _, sk := range m.sinks[1:] {
				if sk == m.sinks[0] || r.Chance(1, 3) {
					continue
				}
				g.setMode(sk, hx.Pick(r, okModes))
			}
			if r.Chance(1, 6) {
				g.setMode(m.sinks[0], hx.Pick(r, []string{"ok", "fails", "fails", "failm", "panics"}))
			}
			g.logLine(m, hx.Pick(r, []int{8, 8, 9, 12, 100, 4, 0, math.MaxInt64}), genAttrs(r, 2, true))
		}
	default:
		g.logLine(h, hx.Pick(r, levels), g.attrs(6, true))
	}
}

func (g *gen) addRootOrDerive(h ghandler) {
	if g.nextS < 6 {
		g.addRoot()
	} else {
		g.derive(h)
	}
}

// logx emits one of the ten errs.Log* entry points; those without a level argument log at slog.LevelError.
func (g *gen) logx(h ghandler, level int) {
	r := g.r
	api := hx.Pick(r, logAPIs)
	if !strings.HasSuffix(api, "WithLevel") {
		level = 8
	}
	ek, msg := hx.Pick(r, []string{"e", "e", "e", "p", "p", "n", "t", "k", "k", "k"}), hx.Pick(r, msgs)
	if ek == "k" { // an error value of some dynamic kind; the message is what its Error() says
		kind := hx.Pick(r, errKindNames)
		ek, msg = "k:"+kind, errKindMsg[kind]
	}
	w := []string{"logx", api, hx.Pick(r, []string{"bg", "bg", "nil"}), hx.Pick(r, []string{"h", "h", "nil"}),
		ek, h.name, strconv.Itoa(level), hexs(msg)}
	g.out(strings.TrimSpace(strings.Join(append(w, g.attrs(6, true)...), " ")))
}
