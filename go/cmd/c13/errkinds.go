package main

import (
	"context"
	"io"
	"io/fs"
)

// Error values of every dynamic kind, for scripted children (`mode <sink> failk:<kind>`) and for the errs.Log* entry
// points (`logx … k:<kind> …`).  Whether such a value is "an error" is never asked of the library: the harness only
// counts `err != nil` on the interface (every value below is a non-nil interface); the model's rule — a nil value of a
// nillable kind is no error (design Appendix B, C11), everything else is — decides what Handle must return.
type (
	zStructErr  struct{}
	nzStructErr struct{ code int }
	intErr      int
	strErr      string
	arrErr      [2]int
	ptrErr      struct{ n int }
	sliceErr    []int
	mapErr      map[string]int
	funcErr     func()
	chanErr     chan int
)

func (zStructErr) Error() string  { return "K:struct" }
func (nzStructErr) Error() string { return "K:struct" }
func (intErr) Error() string      { return "K:int" }
func (strErr) Error() string      { return "K:string" }
func (arrErr) Error() string      { return "K:array" }
func (*ptrErr) Error() string     { return "K:ptr" }
func (sliceErr) Error() string    { return "K:slice" }
func (mapErr) Error() string      { return "K:map" }
func (funcErr) Error() string     { return "K:func" }
func (chanErr) Error() string     { return "K:chan" }

// errKinds: kind token -> value.  The tokens ending in a `nil…` name are nil values of nillable kinds.
var errKinds = map[string]error{
	"zstruct": zStructErr{}, "zint": intErr(0), "zstring": strErr(""), "zarray": arrErr{},
	"nzstruct": nzStructErr{7}, "nzint": intErr(5), "nzstring": strErr("x"), "nzarray": arrErr{0, 1},
	"ptr": &ptrErr{}, "zptr": new(ptrErr), "slice": sliceErr{1}, "eslice": sliceErr{}, "map": mapErr{"a": 1}, "emap": mapErr{},
	"func": funcErr(func() {}), "chan": chanErr(make(chan int)),
	"nilptr": (*ptrErr)(nil), "nilslice": sliceErr(nil), "nilmap": mapErr(nil), "nilfunc": funcErr(nil), "nilchan": chanErr(nil),
	"deadline": context.DeadlineExceeded, "canceled": context.Canceled, "eof": io.EOF, "notexist": fs.ErrNotExist,
	"patherr": &fs.PathError{Op: "open", Path: "/x", Err: fs.ErrNotExist},
}

// errKindMsg is what the generator writes into the op line for the model (the text of Error(), a token).
var errKindMsg = map[string]string{
	"zstruct": "K:struct", "zint": "K:int", "zstring": "K:string", "zarray": "K:array",
	"nzstruct": "K:struct", "nzint": "K:int", "nzstring": "K:string", "nzarray": "K:array",
	"ptr": "K:ptr", "zptr": "K:ptr", "slice": "K:slice", "eslice": "K:slice", "map": "K:map", "emap": "K:map",
	"func": "K:func", "chan": "K:chan",
	"nilptr": "K:ptr", "nilslice": "K:slice", "nilmap": "K:map", "nilfunc": "K:func", "nilchan": "K:chan",
	"deadline": "context deadline exceeded", "canceled": "context canceled", "eof": "EOF", "notexist": "file does not exist",
	"patherr": "open /x: file does not exist",
}

var errKindNames = []string{"zstruct", "zint", "zstring", "zarray", "nzstruct", "nzint", "nzstring", "nzarray", "ptr", "zptr", "slice", "eslice",
	"map", "emap", "func", "chan", "nilptr", "nilslice", "nilmap", "nilfunc", "nilchan", "deadline", "canceled", "eof", "notexist", "patherr"}
