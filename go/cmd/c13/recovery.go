package main

import (
	"errors"
	"fmt"
	"runtime"
	"strconv"
	"strings"

	"github.com/richardwilkes/toolbox/errs"
	"verifharness/hx"
)

// Area `recovery`: errs.Recovery on its own (multilog's per-child protection rests on it), judged on the implementation
// side.  `rec <panic kind> <handler kind>`: a function with `defer errs.Recovery(handler)` panics (or not); no panic may
// escape, the handler is called exactly once iff there was a panic, with an error that leads back to the panic value.
type recoveryArea struct{}

var (
	panicKinds   = []string{"none", "string", "error", "errs", "runtime", "tnilptr", "nil", "int"}
	handlerKinds = []string{"nil", "record", "panics"}
	errBoom      = errors.New("boom-error")
	errsBoom     = errs.New("boom-errs")
)

func (recoveryArea) Gen(r *hx.Rng, n int, _ string, emit func(string)) {
	for i := 0; i < n; i++ {
		emit("rec " + panicKinds[i%len(panicKinds)] + " " + hx.Pick(r, handlerKinds))
	}
}

func (recoveryArea) Run(line string) string {
	f := strings.Fields(line)
	if len(f) != 3 || f[0] != "rec" {
		return "bad-op"
	}
	calls := 0
	var got error
	var handler errs.RecoveryHandler
	switch f[2] {
	case "record":
		handler = func(err error) { calls++; got = err }
	case "panics":
		handler = func(err error) { calls++; got = err; panic("bad handler") }
	}
	escaped := func() (esc any) {
		defer func() { esc = recover() }()
		func() {
			defer errs.Recovery(handler)
			switch f[1] {
			case "string":
				panic("boom-string")
			case "error":
				panic(errBoom)
			case "errs":
				panic(errsBoom)
			case "runtime":
				var m map[string]int
				m["x"] = 1
			case "tnilptr":
				panic((*nothing)(nil))
			case "nil":
				panic(nil) //nolint:govet // on purpose
			case "int":
				panic(42)
			}
		}()
		return nil
	}()
	if escaped != nil {
		return fmt.Sprintf("FAIL a panic escaped errs.Recovery: %v", escaped)
	}
	want := 0
	if f[1] != "none" && handler != nil {
		want = 1
	}
	if calls != want {
		return fmt.Sprintf("FAIL handler called %d times, expected %d", calls, want)
	}
	if want == 0 {
		return "ok " + f[1] + " " + f[2]
	}
	if got == nil {
		return "FAIL handler received a nil error"
	}
	cause := errors.Unwrap(got)
	if cause == nil {
		return "FAIL the recovered error has no cause"
	}
	switch f[1] {
	case "error":
		if !errors.Is(got, errBoom) {
			return "FAIL the panic's error value is not reachable from the recovered error"
		}
	case "errs":
		if cause != error(errsBoom) || errsBoom.Count() != 1 || errsBoom.Message() != "boom-errs" {
			return "FAIL the panic's *errs.Error is not the cause, or was modified"
		}
	case "runtime", "nil":
		var re runtime.Error
		if !errors.As(got, &re) {
			return "FAIL the runtime error is not reachable from the recovered error"
		}
	case "string":
		if !strings.Contains(cause.Error(), "boom-string") {
			return "FAIL the panic's string is not in the cause"
		}
	case "int":
		if !strings.Contains(cause.Error(), "42") {
			return "FAIL the panic's value is not in the cause"
		}
	}
	return "ok " + f[1] + " " + f[2]
}

// Area `rec`: the same experiment as a DIFFERENTIAL stream against the Lean model `Rec.recovery` (Model/LogEntry.lean):
// the harness prints what an observer of `defer errs.Recovery(handler)` can see — the panic that escapes (if any), how
// often the handler ran, the error it received (Count(), and whether its cause IS the panic
// value, is a fresh *errs.Error carrying the `%+v` text of the value, or is absent), and Count()/Message() of two
// long-lived *errs.Error values, one of which may be the panic value itself.
type recArea struct{}

var (
	recPanicKinds   = []string{"none", "string", "int", "tnilptr", "error", "errs", "agg", "runtime", "nil", "tnilerr", "fnilerr"}
	recHandlerKinds = []string{"nil", "record", "panics", "panicse"}
	errBadHandler   = errors.New("bad-handler-error")
)

func (recArea) Gen(_ *hx.Rng, n int, _ string, emit func(string)) {
	for i := 0; i < n; i++ {
		emit("rec " + recPanicKinds[i%len(recPanicKinds)] + " " + recHandlerKinds[(i/len(recPanicKinds))%len(recHandlerKinds)])
	}
}

func (recArea) Run(line string) string {
	f := strings.Fields(line)
	if len(f) != 3 || f[0] != "rec" {
		return "bad-op"
	}
	boom := errs.New("boom-errs")
	agg := errs.Append(errs.New("agg-a"), errs.New("agg-b"))
	var pv any
	hasPanic := true
	switch f[1] {
	case "none":
		hasPanic = false
	case "string":
		pv = "boom-string"
	case "int":
		pv = 42
	case "tnilptr":
		pv = (*nothing)(nil)
	case "error":
		pv = errBoom
	case "errs":
		pv = boom
	case "agg":
		pv = agg
	case "runtime", "nil":
	case "tnilerr":
		pv = (*errs.Error)(nil)
	case "fnilerr":
		pv = (*foreignErr)(nil)
	default:
		return "bad-op"
	}
	calls := 0
	var got error
	var handler errs.RecoveryHandler
	switch f[2] {
	case "nil":
	case "record":
		handler = func(err error) { calls++; got = err }
	case "panics":
		handler = func(err error) { calls++; got = err; panic("bad handler") }
	case "panicse":
		handler = func(err error) { calls++; got = err; panic(errBadHandler) }
	default:
		return "bad-op"
	}
	escaped := func() (esc any) {
		defer func() { esc = recover() }()
		func() {
			defer errs.Recovery(handler)
			switch {
			case !hasPanic:
			case f[1] == "runtime":
				var m map[string]int
				m["x"] = 1
			case f[1] == "nil":
				panic(nil) //nolint:govet // on purpose
			default:
				panic(pv)
			}
		}()
		return nil
	}()
	out := []string{"esc=-", "calls=" + strconv.Itoa(calls)}
	if escaped != nil {
		out[0] = "esc=" + panicText(escaped)
	}
	if calls == 1 {
		count := "?" // (the wording of the library's own message is not compared)
		if e, ok := got.(*errs.Error); ok && e != nil { //nolint:errorlint // the exact dynamic type is the observation
			count = strconv.Itoa(e.Count())
		}
		cause := "other"
		c := errors.Unwrap(got)
		switch f[1] {
		case "string", "int", "tnilptr":
			if ce, ok := c.(*errs.Error); ok && ce != nil && ce != boom && ce != agg { //nolint:errorlint // see above
				cause = "fresh:" + hx.Hex([]byte(ce.Message()))
			} else if ok && ce != nil {
				cause = "old"
			}
		case "runtime":
			if _, ok := c.(runtime.Error); ok { //nolint:errorlint // see above
				cause = "same"
			}
		case "nil":
			if _, ok := c.(*runtime.PanicNilError); ok { //nolint:errorlint // see above
				cause = "same"
			}
		default:
			if pe, ok := pv.(error); ok && c == pe {
				cause = "same"
			}
		}
		if c == nil {
			cause = "nil"
		}
		out = append(out, "count="+count, "cause="+cause)
	} else if calls > 1 {
		out = append(out, "arg=?")
	}
	cell := func(e *errs.Error) string { return strconv.Itoa(e.Count()) + ":" + hx.Hex([]byte(e.Message())) }
	return strings.Join(append(out, "boom="+cell(boom), "agg="+cell(agg)), " ")
}
