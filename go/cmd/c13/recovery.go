package main

import (
	"errors"
	"fmt"
	"runtime"
	"strings"

	"github.com/richardwilkes/toolbox/errs"
	"verifharness/hx"
)

// Area `recovery`: errs.Recovery on its own (multilog's per-child protection rests on it), judged on the implementation
// side.  `rec <panic kind> <handler kind>`: a function with `defer errs.Recovery(handler)` panics (or not); no panic may
// escape, the handler is called exactly once iff there was a panic, with an error that leads back to the panic value.
type recoveryArea struct{}

var (
	panicKinds   = []string{"none", "string", "error", "errs", "runtime", "tnilptr", "nil", "int"}
	handlerKinds = []string{"nil", "record", "panics"}
	errBoom      = errors.New("boom-error")
	errsBoom     = errs.New("boom-errs")
)

func (recoveryArea) Gen(r *hx.Rng, n int, _ string, emit func(string)) {
	for i := 0; i < n; i++ {
		emit("rec " + panicKinds[i%len(panicKinds)] + " " + hx.Pick(r, handlerKinds))
	}
}

func (recoveryArea) Run(line string) string {
	f := strings.Fields(line)
	if len(f) != 3 || f[0] != "rec" {
		return "bad-op"
	}
	calls := 0
	var got error
	var handler errs.RecoveryHandler
	switch f[2] {
	case "record":
		handler = func(err error) { calls++; got = err }
	case "panics":
		handler = func(err error) { calls++; got = err; panic("bad handler") }
	}
	escaped := func() (esc any) {
		defer func() { esc = recover() }()
		func() {
			defer errs.Recovery(handler)
			switch f[1] {
			case "string":
				panic("boom-string")
			case "error":
				panic(errBoom)
			case "errs":
				panic(errsBoom)
			case "runtime":
				var m map[string]int
				m["x"] = 1
			case "tnilptr":
				panic((*nothing)(nil))
			case "nil":
				panic(nil) //nolint:govet // on purpose
			case "int":
				panic(42)
			}
		}()
		return nil
	}()
	if escaped != nil {
		return fmt.Sprintf("FAIL a panic escaped errs.Recovery: %v", escaped)
	}
	want := 0
	if f[1] != "none" && handler != nil {
		want = 1
	}
	if calls != want {
		return fmt.Sprintf("FAIL handler called %d times, expected %d", calls, want)
	}
	if want == 0 {
		return "ok " + f[1] + " " + f[2]
	}
	if got == nil {
		return "FAIL handler received a nil error"
	}
	cause := errors.Unwrap(got)
	if cause == nil {
		return "FAIL the recovered error has no cause"
	}
	switch f[1] {
	case "error":
		if !errors.Is(got, errBoom) {
			return "FAIL the panic's error value is not reachable from the recovered error"
		}
	case "errs":
		if cause != error(errsBoom) || errsBoom.Count() != 1 || errsBoom.Message() != "boom-errs" {
			return "FAIL the panic's *errs.Error is not the cause, or was modified"
		}
	case "runtime", "nil":
		var re runtime.Error
		if !errors.As(got, &re) {
			return "FAIL the runtime error is not reachable from the recovered error"
		}
	case "string":
		if !strings.Contains(cause.Error(), "boom-string") {
			return "FAIL the panic's string is not in the cause"
		}
	case "int":
		if !strings.Contains(cause.Error(), "42") {
			return "FAIL the panic's value is not in the cause"
		}
	}
	return "ok " + f[1] + " " + f[2]
}
