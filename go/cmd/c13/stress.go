package main

import (
	"bytes"
	"errors"
	"fmt"
	"log/slog"
	"regexp"
	"runtime"
	"strconv"
	"strings"
	"sync"
	"sync/atomic"
	"time"

	"github.com/richardwilkes/toolbox/log/multilog"
	"github.com/richardwilkes/toolbox/log/tracelog"
	"verifharness/hx"
)

// Area `stress`: the schedules clause, judged on the implementation side (no Lean model).
//
//	sync <G> <M> <failMod> <multi>   G goroutines x M records through handlers derived from ONE synchronous root
//	buf  <G> <M> <depth> <stall>     the same through a buffered root; stall=1 keeps the sink stalled while logging
//
// Every record carries its goroutine number, a per-goroutine sequence number and padding whose length is a function
// of both, in the message and in the attributes, so a torn, merged or duplicated Write is recognisable.
type stressArea struct{}

func (stressArea) Gen(r *hx.Rng, n int, _ string, emit func(string)) {
	for i := 0; i < n; i++ {
		g, m := hx.Pick(r, []int{1, 2, 3, 6, 7, 8, 12, 13, 17, 24, 33}), r.Range(20, 200)
		if r.Bool() {
			emit(fmt.Sprintf("sync %d %d %d %d", g, m, hx.Pick(r, []int{0, 3, 7}), r.Intn(2)))
		} else {
			emit(fmt.Sprintf("buf %d %d %d %d", g, m, hx.Pick(r, []int{1, 2, 8, 64}), r.Intn(2)))
		}
	}
}

type stressSink struct {
	mu      sync.Mutex
	writes  [][]byte
	active  atomic.Int32
	overlap atomic.Int32
	failMod int
	gate    chan struct{}
}

var recRx = regexp.MustCompile(`^INF \| \d{4}-\d{2}-\d{2} \| \d{2}:\d{2}:\d{2}\.\d{3} \| m(\d+)-(\d+) \|( [^\n]*)\n$`)

// expectAttrs is what goroutine g's handler (see handlerFor) must print after the bar for its record seq.
func expectAttrs(g, seq int) string {
	pad := strings.Repeat("x", padLen(g, seq))
	rec := func(p string) string { return fmt.Sprintf(" %sg=%d %sseq=%d %spad=%q", p, g, p, seq, p, pad) }
	switch g % 6 {
	case 0:
		return rec("")
	case 1:
		return fmt.Sprintf(" r.pre=%d", g) + rec("r.")
	case 2:
		return fmt.Sprintf(" pre=%d", g) + rec("")
	case 3:
		return fmt.Sprintf(" pre=%d", g) + rec("r.")
	case 4:
		return " pre=999" + rec("")
	default:
		return fmt.Sprintf(" pre=999 pre2=%d", g) + rec("")
	}
}

func padLen(g, seq int) int { return (g*31 + seq*7) % 97 }

func (s *stressSink) Write(p []byte) (int, error) {
	if s.active.Add(1) != 1 {
		s.overlap.Add(1)
	}
	defer s.active.Add(-1)
	runtime.Gosched() // widen the window in which a second, unserialised Write would be seen
	if s.gate != nil {
		<-s.gate
	}
	if bytes.Contains(p, sentinelMark) {
		s.mu.Lock()
		s.writes = append(s.writes, []byte("SENTINEL"))
		s.mu.Unlock()
		return len(p), nil
	}
	c := bytes.Clone(p)
	s.mu.Lock()
	s.writes = append(s.writes, c)
	s.mu.Unlock()
	if s.failMod > 0 {
		if m := recRx.FindSubmatch(p); m != nil {
			g, _ := strconv.Atoi(string(m[1]))   //nolint:errcheck // matched digits
			seq, _ := strconv.Atoi(string(m[2])) //nolint:errcheck // matched digits
			if (g+seq)%s.failMod == 0 {
				return 0, fmt.Errorf("fail-%d-%d", g, seq)
			}
		}
	}
	return len(p), nil
}

func (stressArea) Run(line string) string {
	f := strings.Fields(line)
	if len(f) != 5 {
		return "bad-op"
	}
	if stressFailed { // one failure is the verdict; do not spend a deadline per remaining line
		return "ok skipped-after-failure"
	}
	g, m := hx.Atoi(f[1]), hx.Atoi(f[2])
	out := "bad-op"
	switch f[0] {
	case "sync":
		out = stressSync(g, m, hx.Atoi(f[3]), f[4] == "1")
	case "buf":
		out = stressBuf(g, m, hx.Atoi(f[3]), f[4] == "1")
	}
	if strings.HasPrefix(out, "FAIL") {
		stressFailed = true
	}
	return out
}

var stressFailed bool

// family is one root and handlers derived from it; goroutine i logs through handlerFor(i): the root ITSELF, children,
// grandchildren, siblings, and ONE derived handler object shared by several goroutines (together with its own child) —
// all of them must serialise on the same sink.
type family struct {
	root   slog.Handler
	shared slog.Handler
}

func newFamily(root slog.Handler) *family {
	return &family{root: root, shared: root.WithAttrs([]slog.Attr{slog.Int("pre", 999)})}
}

func (f *family) handlerFor(i int) slog.Handler {
	pre := []slog.Attr{slog.Int("pre", i)}
	switch i % 6 {
	case 0:
		return f.root
	case 1:
		return f.root.WithGroup("r").WithAttrs(pre)
	case 2:
		return f.root.WithAttrs(pre)
	case 3:
		return f.root.WithAttrs(pre).WithGroup("r")
	case 4:
		return f.shared
	default:
		return f.shared.WithAttrs([]slog.Attr{slog.Int("pre2", i)})
	}
}

func logOne(h slog.Handler, g, seq int) error {
	r := slog.NewRecord(time.Now(), slog.LevelInfo, fmt.Sprintf("m%d-%d", g, seq), 0)
	r.AddAttrs(slog.Int("g", g), slog.Int("seq", seq), slog.String("pad", strings.Repeat("x", padLen(g, seq))))
	return h.Handle(ctx, r)
}

// judge checks that every Write is exactly one whole record, none twice, per-goroutine order kept.
func judge(writes [][]byte, g, m int) (count int, problem string) {
	last := make([]int, g)
	for i := range last {
		last[i] = -1
	}
	for _, w := range writes {
		mm := recRx.FindSubmatch(w)
		if mm == nil {
			return 0, "a Write is not one whole record: " + strconv.Quote(string(w))
		}
		gi, _ := strconv.Atoi(string(mm[1]))  //nolint:errcheck // matched digits
		seq, _ := strconv.Atoi(string(mm[2])) //nolint:errcheck // matched digits
		if gi >= g || seq >= m || string(mm[3]) != expectAttrs(gi, seq) {
			return 0, "a Write mixes records: " + strconv.Quote(string(w))
		}
		if seq <= last[gi] {
			return 0, fmt.Sprintf("goroutine %d: record %d written after record %d (duplicate or reordered)", gi, seq, last[gi])
		}
		last[gi] = seq
		count++
	}
	return count, ""
}

func stressSync(g, m, failMod int, multi bool) string {
	s := &stressSink{failMod: failMod}
	var root slog.Handler = tracelog.New(&tracelog.Config{Sink: s})
	var s2 *stressSink
	if multi { // the same records fanned out to a second tracelog handler with its own sink
		s2 = &stressSink{}
		root = multilog.New(root, tracelog.New(&tracelog.Config{Sink: s2}))
	}
	fam := newFamily(root)
	var wg sync.WaitGroup
	problems := make(chan string, g)
	for i := 0; i < g; i++ {
		wg.Add(1)
		go func(i int) {
			defer wg.Done()
			h := fam.handlerFor(i)
			for seq := 0; seq < m; seq++ {
				err := logOne(h, i, seq)
				wantFail := failMod > 0 && (i+seq)%failMod == 0
				switch {
				case wantFail && err == nil:
					problems <- fmt.Sprintf("sink error for record %d-%d was not returned", i, seq)
					return
				case !wantFail && err != nil:
					problems <- fmt.Sprintf("record %d-%d: unexpected error %q", i, seq, firstLine(err))
					return
				case wantFail && !strings.Contains(err.Error(), fmt.Sprintf("fail-%d-%d", i, seq)):
					problems <- fmt.Sprintf("record %d-%d got another record's error %q", i, seq, firstLine(err))
					return
				}
			}
		}(i)
	}
	wg.Wait()
	select {
	case p := <-problems:
		return "FAIL " + p
	default:
	}
	for _, k := range []*stressSink{s, s2} {
		if k == nil {
			continue
		}
		if k.overlap.Load() != 0 {
			return "FAIL overlapping Write calls on one sink"
		}
		n, p := judge(k.writes, g, m)
		if p != "" {
			return "FAIL " + p
		}
		if n != g*m {
			return fmt.Sprintf("FAIL %d writes for %d records", n, g*m)
		}
	}
	return fmt.Sprintf("ok sync g=%d m=%d writes=%d", g, m, g*m)
}

func firstLine(err error) string {
	s := err.Error()
	if i := strings.IndexByte(s, '\n'); i >= 0 {
		s = s[:i]
	}
	return s
}

func stressBuf(g, m, depth int, stall bool) string {
	s := &stressSink{}
	if stall {
		s.gate = make(chan struct{})
	}
	root := tracelog.New(&tracelog.Config{Sink: s, BufferDepth: depth})
	fam := newFamily(root)
	var wg sync.WaitGroup
	var slowest atomic.Int64
	var nonNil atomic.Int32
	for i := 0; i < g; i++ {
		wg.Add(1)
		go func(i int) {
			defer wg.Done()
			h := fam.handlerFor(i)
			for seq := 0; seq < m; seq++ {
				t0 := time.Now()
				if err := logOne(h, i, seq); err != nil {
					nonNil.Add(1)
				}
				if d := int64(time.Since(t0)); d > slowest.Load() {
					slowest.Store(d)
				}
			}
		}(i)
	}
	done := make(chan struct{})
	go func() { wg.Wait(); close(done) }()
	select {
	case <-done:
	case <-time.After(5 * time.Second):
		return "FAIL Handle blocked in buffered mode while the sink was stalled"
	}
	if stall {
		close(s.gate)
	}
	// flush: log sentinels until one arrives
	ok := false
	for end := time.Now().Add(10 * time.Second); time.Now().Before(end) && !ok; {
		if callHandle(root, slog.NewRecord(time.Time{}, slog.LevelInfo, string(sentinelMark)+"0", 0)) == "ret=blocked" {
			return "FAIL Handle blocked in buffered mode although the sink was free"
		}
		time.Sleep(200 * time.Microsecond)
		s.mu.Lock()
		for _, w := range s.writes {
			if string(w) == "SENTINEL" {
				ok = true
			}
		}
		s.mu.Unlock()
	}
	if !ok {
		return "FAIL delivery goroutine never drained the channel"
	}
	s.mu.Lock()
	var ws [][]byte
	for _, w := range s.writes {
		if string(w) == "SENTINEL" {
			break // records logged before the first sentinel precede it in the FIFO
		}
		ws = append(ws, w)
	}
	s.mu.Unlock()
	if s.overlap.Load() != 0 {
		return "FAIL overlapping Write calls on one sink"
	}
	if nonNil.Load() != 0 {
		return "FAIL buffered Handle returned an error"
	}
	n, p := judge(ws, g, m)
	if p != "" {
		return "FAIL " + p
	}
	if n > g*m {
		return fmt.Sprintf("FAIL %d writes for %d records", n, g*m)
	}
	if stall { // nothing could leave while stalled: exactly the channel's capacity (+1 in the goroutine's hands) survives
		lo := min(depth, g*m)
		if n < lo || n > depth+1 {
			return fmt.Sprintf("FAIL stalled sink, depth %d: %d records delivered", depth, n)
		}
	} else if n == 0 {
		return "FAIL nothing delivered"
	}
	if time.Duration(slowest.Load()) > 2*time.Second {
		return "FAIL a buffered Handle call took " + time.Duration(slowest.Load()).String()
	}
	return fmt.Sprintf("ok buf g=%d m=%d depth=%d stall=%v", g, m, depth, stall)
}

var _ = errors.New
