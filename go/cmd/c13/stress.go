package main

import (
	"bytes"
	"errors"
	"fmt"
	"log/slog"
	"regexp"
	"strconv"
	"strings"
	"sync"
	"sync/atomic"
	"time"

	"github.com/richardwilkes/toolbox/log/multilog"
	"github.com/richardwilkes/toolbox/log/tracelog"
	"verifharness/hx"
)

// Area `stress`: the schedules clause, judged on the implementation side (no Lean model).
//
//	sync <G> <M> <failMod> <multi>   G goroutines x M records through handlers derived from ONE synchronous root
//	buf  <G> <M> <depth> <stall>     the same through a buffered root; stall=1 keeps the sink stalled while logging
//
// Every record carries its goroutine number, a per-goroutine sequence number and padding whose length is a function
// of both, in the message and in the attributes, so a torn, merged or duplicated Write is recognisable.
type stressArea struct{}

func (stressArea) Gen(r *hx.Rng, n int, _ string, emit func(string)) {
	for i := 0; i < n; i++ {
		g, m := r.Range(2, 12), r.Range(20, 200)
		if r.Bool() {
			emit(fmt.Sprintf("sync %d %d %d %d", g, m, hx.Pick(r, []int{0, 3, 7}), r.Intn(2)))
		} else {
			emit(fmt.Sprintf("buf %d %d %d %d", g, m, hx.Pick(r, []int{1, 2, 8, 64}), r.Intn(2)))
		}
	}
}

type stressSink struct {
	mu      sync.Mutex
	writes  [][]byte
	active  atomic.Int32
	overlap atomic.Int32
	failMod int
	gate    chan struct{}
}

var recRx = regexp.MustCompile(`^INF \| \d{4}-\d{2}-\d{2} \| \d{2}:\d{2}:\d{2}\.\d{3} \| m(\d+)-(\d+) \| (?:r\.)?pre=(\d+) (?:r\.)?g=(\d+) (?:r\.)?seq=(\d+) (?:r\.)?pad="(x*)"\n$`)

func padLen(g, seq int) int { return (g*31 + seq*7) % 97 }

func (s *stressSink) Write(p []byte) (int, error) {
	if s.active.Add(1) != 1 {
		s.overlap.Add(1)
	}
	defer s.active.Add(-1)
	if s.gate != nil {
		<-s.gate
	}
	if bytes.Contains(p, sentinelMark) {
		s.mu.Lock()
		s.writes = append(s.writes, []byte("SENTINEL"))
		s.mu.Unlock()
		return len(p), nil
	}
	c := bytes.Clone(p)
	s.mu.Lock()
	s.writes = append(s.writes, c)
	s.mu.Unlock()
	if s.failMod > 0 {
		if m := recRx.FindSubmatch(p); m != nil {
			g, _ := strconv.Atoi(string(m[1]))   //nolint:errcheck // matched digits
			seq, _ := strconv.Atoi(string(m[2])) //nolint:errcheck // matched digits
			if (g+seq)%s.failMod == 0 {
				return 0, fmt.Errorf("fail-%d-%d", g, seq)
			}
		}
	}
	return len(p), nil
}

func (stressArea) Run(line string) string {
	f := strings.Fields(line)
	if len(f) != 5 {
		return "bad-op"
	}
	if stressFailed { // one failure is the verdict; do not spend a deadline per remaining line
		return "ok skipped-after-failure"
	}
	g, m := hx.Atoi(f[1]), hx.Atoi(f[2])
	out := "bad-op"
	switch f[0] {
	case "sync":
		out = stressSync(g, m, hx.Atoi(f[3]), f[4] == "1")
	case "buf":
		out = stressBuf(g, m, hx.Atoi(f[3]), f[4] == "1")
	}
	if strings.HasPrefix(out, "FAIL") {
		stressFailed = true
	}
	return out
}

var stressFailed bool

// handlerFor gives goroutine i its own derivation of the shared root (every third one adds a group).
func handlerFor(root slog.Handler, i int) slog.Handler {
	h := root.WithAttrs([]slog.Attr{slog.Int("pre", i)})
	if i%3 == 1 {
		h = root.WithGroup("r").WithAttrs([]slog.Attr{slog.Int("pre", i)})
	}
	return h
}

func logOne(h slog.Handler, g, seq int) error {
	r := slog.NewRecord(time.Now(), slog.LevelInfo, fmt.Sprintf("m%d-%d", g, seq), 0)
	r.AddAttrs(slog.Int("g", g), slog.Int("seq", seq), slog.String("pad", strings.Repeat("x", padLen(g, seq))))
	return h.Handle(ctx, r)
}

// judge checks that every Write is exactly one whole record, none twice, per-goroutine order kept.
func judge(writes [][]byte, g, m int) (count int, problem string) {
	last := make([]int, g)
	for i := range last {
		last[i] = -1
	}
	for _, w := range writes {
		mm := recRx.FindSubmatch(w)
		if mm == nil {
			return 0, "a Write is not one whole record: " + strconv.Quote(string(w))
		}
		gi, _ := strconv.Atoi(string(mm[1]))  //nolint:errcheck // matched digits
		seq, _ := strconv.Atoi(string(mm[2])) //nolint:errcheck // matched digits
		pre, _ := strconv.Atoi(string(mm[3])) //nolint:errcheck // matched digits
		g2, _ := strconv.Atoi(string(mm[4]))  //nolint:errcheck // matched digits
		s2, _ := strconv.Atoi(string(mm[5]))  //nolint:errcheck // matched digits
		if gi != g2 || seq != s2 || pre != gi || gi >= g || seq >= m || len(mm[6]) != padLen(gi, seq) || bytes.Contains(w, []byte("r.")) != (gi%3 == 1) {
			return 0, "a Write mixes records: " + strconv.Quote(string(w))
		}
		if seq <= last[gi] {
			return 0, fmt.Sprintf("goroutine %d: record %d written after record %d (duplicate or reordered)", gi, seq, last[gi])
		}
		last[gi] = seq
		count++
	}
	return count, ""
}

func stressSync(g, m, failMod int, multi bool) string {
	s := &stressSink{failMod: failMod}
	var root slog.Handler = tracelog.New(&tracelog.Config{Sink: s})
	var s2 *stressSink
	if multi { // the same records fanned out to a second tracelog handler with its own sink
		s2 = &stressSink{}
		root = multilog.New(root, tracelog.New(&tracelog.Config{Sink: s2}))
	}
	var wg sync.WaitGroup
	problems := make(chan string, g)
	for i := 0; i < g; i++ {
		wg.Add(1)
		go func(i int) {
			defer wg.Done()
			h := handlerFor(root, i)
			for seq := 0; seq < m; seq++ {
				err := logOne(h, i, seq)
				wantFail := failMod > 0 && (i+seq)%failMod == 0
				switch {
				case wantFail && err == nil:
					problems <- fmt.Sprintf("sink error for record %d-%d was not returned", i, seq)
					return
				case !wantFail && err != nil:
					problems <- fmt.Sprintf("record %d-%d: unexpected error %q", i, seq, firstLine(err))
					return
				case wantFail && !strings.Contains(err.Error(), fmt.Sprintf("fail-%d-%d", i, seq)):
					problems <- fmt.Sprintf("record %d-%d got another record's error %q", i, seq, firstLine(err))
					return
				}
			}
		}(i)
	}
	wg.Wait()
	select {
	case p := <-problems:
		return "FAIL " + p
	default:
	}
	for _, k := range []*stressSink{s, s2} {
		if k == nil {
			continue
		}
		if k.overlap.Load() != 0 {
			return "FAIL overlapping Write calls on one sink"
		}
		n, p := judge(k.writes, g, m)
		if p != "" {
			return "FAIL " + p
		}
		if n != g*m {
			return fmt.Sprintf("FAIL %d writes for %d records", n, g*m)
		}
	}
	return fmt.Sprintf("ok sync g=%d m=%d writes=%d", g, m, g*m)
}

func firstLine(err error) string {
	s := err.Error()
	if i := strings.IndexByte(s, '\n'); i >= 0 {
		s = s[:i]
	}
	return s
}

func stressBuf(g, m, depth int, stall bool) string {
	s := &stressSink{}
	if stall {
		s.gate = make(chan struct{})
	}
	root := tracelog.New(&tracelog.Config{Sink: s, BufferDepth: depth})
	var wg sync.WaitGroup
	var slowest atomic.Int64
	var nonNil atomic.Int32
	for i := 0; i < g; i++ {
		wg.Add(1)
		go func(i int) {
			defer wg.Done()
			h := handlerFor(root, i)
			for seq := 0; seq < m; seq++ {
				t0 := time.Now()
				if err := logOne(h, i, seq); err != nil {
					nonNil.Add(1)
				}
				if d := int64(time.Since(t0)); d > slowest.Load() {
					slowest.Store(d)
				}
			}
		}(i)
	}
	done := make(chan struct{})
	go func() { wg.Wait(); close(done) }()
	select {
	case <-done:
	case <-time.After(5 * time.Second):
		return "FAIL Handle blocked in buffered mode while the sink was stalled"
	}
	if stall {
		close(s.gate)
	}
	// flush: log sentinels until one arrives
	ok := false
	for end := time.Now().Add(10 * time.Second); time.Now().Before(end) && !ok; {
		_ = root.Handle(ctx, slog.NewRecord(time.Time{}, slog.LevelInfo, string(sentinelMark)+"0", 0)) //nolint:errcheck // buffered
		time.Sleep(200 * time.Microsecond)
		s.mu.Lock()
		for _, w := range s.writes {
			if string(w) == "SENTINEL" {
				ok = true
			}
		}
		s.mu.Unlock()
	}
	if !ok {
		return "FAIL delivery goroutine never drained the channel"
	}
	s.mu.Lock()
	var ws [][]byte
	for _, w := range s.writes {
		if string(w) == "SENTINEL" {
			break // records logged before the first sentinel precede it in the FIFO
		}
		ws = append(ws, w)
	}
	s.mu.Unlock()
	if s.overlap.Load() != 0 {
		return "FAIL overlapping Write calls on one sink"
	}
	if nonNil.Load() != 0 {
		return "FAIL buffered Handle returned an error"
	}
	n, p := judge(ws, g, m)
	if p != "" {
		return "FAIL " + p
	}
	if n > g*m {
		return fmt.Sprintf("FAIL %d writes for %d records", n, g*m)
	}
	if stall { // nothing could leave while stalled: exactly the channel's capacity (+1 in the goroutine's hands) survives
		lo := min(depth, g*m)
		if n < lo || n > depth+1 {
			return fmt.Sprintf("FAIL stalled sink, depth %d: %d records delivered", depth, n)
		}
	} else if n == 0 {
		return "FAIL nothing delivered"
	}
	if time.Duration(slowest.Load()) > 2*time.Second {
		return "FAIL a buffered Handle call took " + time.Duration(slowest.Load()).String()
	}
	return fmt.Sprintf("ok buf g=%d m=%d depth=%d stall=%v", g, m, depth, stall)
}

var _ = errors.New
