// factgen regenerates lean/Generated/Facts.lean from the repository on every run, so that the theorems which speak
// about tables of the source (decimal multipliers, operator precedences, thresholds) are re-checked against what the
// code says now.  Two sources: (1) the linked packages themselves (exported tables are read by calling the real
// constructors), (2) go/parser over the working tree for unexported integer constants.
//
// usage: factgen <repo> <out.lean>
package main

import (
	"fmt"
	"go/ast"
	"go/constant"
	"go/parser"
	"go/token"
	"os"
	"path/filepath"
	"sort"
	"strings"

	"github.com/richardwilkes/toolbox/eval"
	"github.com/richardwilkes/toolbox/xmath/fixed"
)

type cfg struct {
	places int
	mult   int64
}

func configs() []cfg {
	ds := []fixed.Dx{fixed.D1(0), fixed.D2(0), fixed.D3(0), fixed.D4(0), fixed.D5(0), fixed.D6(0), fixed.D7(0), fixed.D8(0),
		fixed.D9(0), fixed.D10(0), fixed.D11(0), fixed.D12(0), fixed.D13(0), fixed.D14(0), fixed.D15(0), fixed.D16(0)}
	out := make([]cfg, 0, len(ds))
	for _, d := range ds {
		out = append(out, cfg{d.Places(), d.Multiplier()})
	}
	return out
}

func leanStr(s string) string {
	return "\"" + strings.ReplaceAll(strings.ReplaceAll(s, "\\", "\\\\"), "\"", "\\\"") + "\""
}

func opTable(name string, ops []*eval.Operator, sb *strings.Builder) {
	fmt.Fprintf(sb, "/-- (symbol, precedence, hasBinary, hasUnary) in the order the evaluator tries them -/\ndef %s : List (String × Nat × Bool × Bool) := [\n", name)
	for i, o := range ops {
		sep := ","
		if i == len(ops)-1 {
			sep = ""
		}
		fmt.Fprintf(sb, "  (%s, %d, %v, %v)%s\n", leanStr(o.Symbol), o.Precedence, o.Evaluate != nil, o.EvaluateUnary != nil, sep)
	}
	sb.WriteString("]\n\n")
}

// constFiles lists the files whose top-level integer constants are exported to Lean as <prefix>_<name>.
var constFiles = []struct{ prefix, path string }{
	{"num", "xmath/num/uint128.go"},
	{"num", "xmath/num/int128.go"},
	{"bitset", "xmath/bitset.go"},
	{"quadtree", "collection/quadtree/quadtree.go"},
	{"rotation", "log/rotation/options.go"},
	{"safe", "xio/fs/safe/file.go"},
	{"safe", "xio/fs/safe/writefile.go"},
	{"taskqueue", "taskqueue/taskqueue.go"},
	{"tracelog", "log/tracelog/tracelog.go"},
}

func evalConst(e ast.Expr, env map[string]constant.Value, iota int64) constant.Value {
	switch x := e.(type) {
	case *ast.BasicLit:
		if x.Kind == token.INT || x.Kind == token.FLOAT || x.Kind == token.CHAR {
			return constant.MakeFromLiteral(x.Value, x.Kind, 0)
		}
	case *ast.ParenExpr:
		return evalConst(x.X, env, iota)
	case *ast.Ident:
		if x.Name == "iota" {
			return constant.MakeInt64(iota)
		}
		if v, ok := env[x.Name]; ok {
			return v
		}
	case *ast.UnaryExpr:
		v := evalConst(x.X, env, iota)
		if v != nil && (x.Op == token.SUB || x.Op == token.ADD || x.Op == token.XOR) {
			return constant.UnaryOp(x.Op, v, 0)
		}
	case *ast.BinaryExpr:
		l, r := evalConst(x.X, env, iota), evalConst(x.Y, env, iota)
		if l == nil || r == nil {
			return nil
		}
		switch x.Op {
		case token.SHL, token.SHR:
			if s, ok := constant.Uint64Val(constant.ToInt(r)); ok && s < 4096 {
				return constant.Shift(constant.ToInt(l), x.Op, uint(s))
			}
			return nil
		case token.QUO:
			if l.Kind() == constant.Int && r.Kind() == constant.Int {
				if constant.Sign(r) == 0 {
					return nil
				}
				return constant.BinaryOp(l, token.QUO_ASSIGN, r)
			}
			return constant.BinaryOp(l, x.Op, r)
		case token.ADD, token.SUB, token.MUL, token.REM, token.AND, token.OR, token.XOR, token.AND_NOT:
			return constant.BinaryOp(l, x.Op, r)
		}
	case *ast.CallExpr: // conversions such as uint64(1) << 63
		if len(x.Args) == 1 {
			if id, ok := x.Fun.(*ast.Ident); ok {
				switch id.Name {
				case "int", "int64", "uint", "uint64", "int32", "uint32", "uint8", "byte":
					return evalConst(x.Args[0], env, iota)
				}
			}
		}
	}
	return nil
}

func consts(repo string, sb *strings.Builder) error {
	type kv struct {
		k string
		v string
	}
	var all []kv
	for _, cf := range constFiles {
		fset := token.NewFileSet()
		f, err := parser.ParseFile(fset, filepath.Join(repo, cf.path), nil, 0)
		if err != nil {
			if os.IsNotExist(err) {
				continue
			}
			return err
		}
		env := map[string]constant.Value{}
		for _, d := range f.Decls {
			gd, ok := d.(*ast.GenDecl)
			if !ok || gd.Tok != token.CONST {
				continue
			}
			var last []ast.Expr
			for i, s := range gd.Specs {
				vs := s.(*ast.ValueSpec)
				vals := vs.Values
				if len(vals) == 0 {
					vals = last
				} else {
					last = vals
				}
				for j, n := range vs.Names {
					if j >= len(vals) || n.Name == "_" {
						continue
					}
					v := evalConst(vals[j], env, int64(i))
					if v == nil {
						continue
					}
					env[n.Name] = v
					if v.Kind() == constant.Int {
						all = append(all, kv{cf.prefix + "_" + n.Name, v.ExactString()})
					}
				}
			}
		}
	}
	sort.Slice(all, func(i, j int) bool { return all[i].k < all[j].k })
	seen := map[string]bool{}
	for _, e := range all {
		if seen[e.k] {
			continue
		}
		seen[e.k] = true
		fmt.Fprintf(sb, "def %s : Int := %s\n", e.k, e.v)
	}
	return nil
}

func main() {
	if len(os.Args) != 3 {
		fmt.Fprintln(os.Stderr, "usage: factgen <repo> <out.lean>")
		os.Exit(2)
	}
	var sb strings.Builder
	sb.WriteString("/-! GENERATED by /verif/go/cmd/factgen from the repository working tree on every check run — do not edit. -/\nnamespace Facts\n\n")
	sb.WriteString("/-- (places, multiplier) of fixed.D1 … fixed.D16, read from the linked `fixed` package -/\ndef fixedConfigs : List (Nat × Int) := [")
	for i, c := range configs() {
		if i > 0 {
			sb.WriteString(", ")
		}
		fmt.Fprintf(&sb, "(%d, %d)", c.places, c.mult)
	}
	sb.WriteString("]\n\n")
	opTable("fixedOperators", eval.FixedOperators[fixed.D4](true), &sb)
	opTable("floatOperators", eval.FloatOperators[float64](true), &sb)
	fn := func(name string, m map[string]eval.Function) {
		keys := make([]string, 0, len(m))
		for k := range m {
			keys = append(keys, k)
		}
		sort.Strings(keys)
		fmt.Fprintf(&sb, "def %s : List String := [", name)
		for i, k := range keys {
			if i > 0 {
				sb.WriteString(", ")
			}
			sb.WriteString(leanStr(k))
		}
		sb.WriteString("]\n\n")
	}
	fn("fixedFunctions", eval.FixedFunctions[fixed.D4]())
	fn("floatFunctions", eval.FloatFunctions[float64]())
	if err := consts(os.Args[1], &sb); err != nil {
		fmt.Fprintln(os.Stderr, err)
		os.Exit(1)
	}
	sb.WriteString("\nend Facts\n")
	if err := os.WriteFile(os.Args[2], []byte(sb.String()), 0o644); err != nil {
		fmt.Fprintln(os.Stderr, err)
		os.Exit(1)
	}
}
