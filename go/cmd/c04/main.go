// Harness for C04 (fixed-point text round trip): drives String / StringWithSign / Comma / CommaWithSign / FromString /
// FromStringForced / Marshal* / Unmarshal* / As / CheckedAs of f64.Int[T] and f128.Int[T] for all sixteen
// configurations, plus txt.CommaFromStringNum and txt.Unquote.
package main

import (
	"encoding/json"
	"errors"
	"fmt"
	"math"
	"math/big"
	"runtime/debug"
	"strconv"
	"strings"
	"unsafe"

	"github.com/richardwilkes/toolbox/txt"
	"github.com/richardwilkes/toolbox/xmath/fixed"
	"github.com/richardwilkes/toolbox/xmath/fixed/f128"
	"github.com/richardwilkes/toolbox/xmath/fixed/f64"
	"gopkg.in/yaml.v3"
	"verifharness/hx"
)

// ---------------------------------------------------------------------------------------------------------------
// generic registration: one cfg per (D, type)

type asRes struct {
	as      string // value of As
	checked string // "ok:<v>" or "nofit"
}

type floatRes struct {
	as       float64
	v        float64
	ok       bool
	wrongErr bool // CheckedAs failed with something other than fixed.ErrDoesNotFitInRequestedType itself
	bits     int
}

type typ struct {
	forms   func(raw *big.Int) [4]string
	parse   func(s string) string     // FromString: "ok:<raw>" | "err"
	unm     func(s string) string     // UnmarshalText
	libVal  func(raw *big.Int) string // library round trips of a value: "" or a failure tag
	libStr  func(s string) string     // cross-consistency of the entry points on an arbitrary string
	asInt   map[string]func(raw *big.Int) asRes
	asFloat map[string]func(raw *big.Int) floatRes
	fromF   func(f float64) string       // From[T](float64) raw, for the exponent-literal oracle
	cfgOut  func() string                // MaxDecimalDigits, Multiplier (raw)
	ext     func(which string) [2]string // f128 only: raw and text of Maximum / Minimum
	frac    func(n, d *big.Int) string   // Fraction compositions, "" or a failure description
}

// the value every Unmarshal* receiver holds before the call (both halves of the 128-bit word non-zero)
const other64 = -4611686018427387127

var other128 = new(big.Int).Add(new(big.Int).Lsh(big.NewInt(-3), 64), big.NewInt(777))

type cfg struct {
	places int
	mult   int64
	t      map[string]*typ // "64", "128"
}

var (
	two64   = new(big.Int).Lsh(big.NewInt(1), 64)
	two128  = new(big.Int).Lsh(big.NewInt(1), 128)
	mask64  = new(big.Int).Sub(two64, big.NewInt(1))
	mask128 = new(big.Int).Sub(two128, big.NewInt(1))
	min64   = new(big.Int).Neg(new(big.Int).Lsh(big.NewInt(1), 63))
	max64   = new(big.Int).Sub(new(big.Int).Lsh(big.NewInt(1), 63), big.NewInt(1))
	min128  = new(big.Int).Neg(new(big.Int).Lsh(big.NewInt(1), 127))
	max128  = new(big.Int).Sub(new(big.Int).Lsh(big.NewInt(1), 127), big.NewInt(1))
)

// raw128s mirrors the layout of num.Int128 (hi, lo) so that raw values are written and read without any library helper.
type raw128s struct{ hi, lo uint64 }

func mk128[T fixed.Dx](v *big.Int) f128.Int[T] {
	m := new(big.Int).And(v, mask128) // two's complement
	i := raw128s{hi: new(big.Int).Rsh(m, 64).Uint64(), lo: new(big.Int).And(m, mask64).Uint64()}
	if unsafe.Sizeof(i) != unsafe.Sizeof(f128.Int[T]{}) {
		panic("layout of f128.Int changed")
	}
	return *(*f128.Int[T])(unsafe.Pointer(&i))
}

func raw128[T fixed.Dx](f f128.Int[T]) *big.Int {
	i := *(*raw128s)(unsafe.Pointer(&f))
	v := new(big.Int).SetUint64(i.hi)
	v.Lsh(v, 64)
	v.Or(v, new(big.Int).SetUint64(i.lo))
	if i.hi>>63 == 1 {
		v.Sub(v, two128)
	}
	return v
}

type fxv interface {
	comparable
	MarshalText() ([]byte, error)
	MarshalJSON() ([]byte, error)
	MarshalYAML() (any, error)
	String() string
	StringWithSign() string
	Comma() string
	CommaWithSign() string
}

type fxp[V any] interface {
	*V
	UnmarshalText([]byte) error
	UnmarshalJSON([]byte) error
	UnmarshalYAML(func(any) error) error
}

type wrap[V any] struct {
	A V            `json:"a" yaml:"a"`
	P *V           `json:"p" yaml:"p"`
	M map[string]V `json:"m" yaml:"m"`
	L []V          `json:"l" yaml:"l"`
}

var errSentinel = errors.New("sentinel")

func okWrap[V comparable](back wrap[V], v V) bool {
	return back.A == v && back.P != nil && *back.P == v && len(back.M) == 1 && back.M["k"] == v && len(back.L) == 2 &&
		back.L[0] == v && back.L[1] == v
}

// libVal runs every library-mediated round trip of the value v; the result is "" or the name of the first failure.
// Every receiver starts out holding `other` (a different, non-zero value): a successful Unmarshal* must overwrite it.
func libVal[V fxv, P fxp[V]](v, other V, fromString func(string) (V, error), forced func(string) V) string {
	forms := [4]string{v.String(), v.StringWithSign(), v.Comma(), v.CommaWithSign()}
	names := [4]string{"str", "strsign", "comma", "commasign"}
	// MarshalText / UnmarshalText
	b, err := v.MarshalText()
	if err != nil || string(b) != forms[0] {
		return "marshaltext"
	}
	w := other
	if P(&w).UnmarshalText(b) != nil || w != v {
		return "text-roundtrip"
	}
	for i := range b { // the returned bytes are the caller's: scribbling on them must not reach later renderings
		b[i] = 'X'
	}
	if v.String() != forms[0] {
		return "marshaltext-aliased"
	}
	// direct Marshal* calls
	if mj, err2 := v.MarshalJSON(); err2 != nil || string(mj) != forms[0] {
		return "marshaljson-direct"
	}
	my, err := v.MarshalYAML()
	if err != nil {
		return "marshalyaml-direct"
	}
	switch n := my.(type) {
	case yaml.Node:
		if n.Kind != yaml.ScalarNode || n.Value != forms[0] {
			return "marshalyaml-node"
		}
	case *yaml.Node:
		if n.Kind != yaml.ScalarNode || n.Value != forms[0] {
			return "marshalyaml-node"
		}
	case string:
		if n != forms[0] {
			return "marshalyaml-node"
		}
	}
	// JSON through encoding/json (bare number)
	jb, err := json.Marshal(v)
	if err != nil {
		return "json-marshal"
	}
	if string(jb) != forms[0] {
		return "json-marshal-text"
	}
	j := other
	if json.Unmarshal(jb, &j) != nil || j != v {
		return "json-roundtrip"
	}
	// JSON inside a structure (struct field, pointer field, map value, slice), decoded into a pre-filled structure
	vv := v
	ws := wrap[V]{A: v, P: &vv, M: map[string]V{"k": v}, L: []V{v, v}}
	if sb, err2 := json.Marshal(ws); err2 != nil {
		return "json-struct-marshal"
	} else {
		var back wrap[V]
		if json.Unmarshal(sb, &back) != nil || !okWrap(back, v) {
			return "json-struct-roundtrip"
		}
		oo := other
		pre := wrap[V]{A: other, P: &oo, M: map[string]V{"k": other}, L: []V{other, other, other}}
		if json.Unmarshal(sb, &pre) != nil || !okWrap(pre, v) {
			return "json-struct-prefilled"
		}
	}
	// JSON map key (encoding.TextMarshaler / TextUnmarshaler)
	if kb, err2 := json.Marshal(map[V]int{v: 1}); err2 != nil || string(kb) != `{"`+forms[0]+`":1}` {
		return "json-mapkey-marshal"
	} else {
		var back map[V]int
		if json.Unmarshal(kb, &back) != nil || len(back) != 1 || back[v] != 1 {
			return "json-mapkey-roundtrip"
		}
	}
	// YAML through yaml.v3
	yb, err := yaml.Marshal(v)
	if err != nil {
		return "yaml-marshal"
	}
	y := other
	if yaml.Unmarshal(yb, &y) != nil || y != v {
		return "yaml-roundtrip"
	}
	if sb, err2 := yaml.Marshal(ws); err2 != nil {
		return "yaml-struct-marshal"
	} else {
		var back wrap[V]
		if yaml.Unmarshal(sb, &back) != nil || !okWrap(back, v) {
			return "yaml-struct-roundtrip"
		}
	}
	// UnmarshalYAML called directly with a callback that fails: the error comes back, nothing else is written
	cbFail := other
	if e := P(&cbFail).UnmarshalYAML(func(any) error { return errSentinel }); !errors.Is(e, errSentinel) || cbFail != other {
		return "unmarshalyaml-callback-error"
	}
	for i, f := range forms {
		// every rendering through every entry point, into a receiver that holds another value
		a := other
		if P(&a).UnmarshalText([]byte(f)) != nil || a != v {
			return "unmarshaltext-" + names[i]
		}
		q := other
		if P(&q).UnmarshalText([]byte(`"`+f+`"`)) != nil || q != v {
			return "unmarshaltext-quoted-" + names[i]
		}
		jq := other
		if json.Unmarshal([]byte(`"`+f+`"`), &jq) != nil || jq != v {
			return "json-quoted-" + names[i]
		}
		jd := other
		if P(&jd).UnmarshalJSON([]byte(f)) != nil || jd != v {
			return "unmarshaljson-direct-" + names[i]
		}
		yv := other
		if yaml.Unmarshal([]byte(f), &yv) != nil || yv != v {
			return "yaml-" + names[i]
		}
		yq := other
		if yaml.Unmarshal([]byte(`"`+f+`"`), &yq) != nil || yq != v {
			return "yaml-quoted-" + names[i]
		}
		yd := other
		if P(&yd).UnmarshalYAML(func(x any) error {
			if sp, ok := x.(*string); ok {
				*sp = f
				return nil
			}
			return errSentinel
		}) != nil || yd != v {
			return "unmarshalyaml-direct-" + names[i]
		}
		if forced(f) != v {
			return "forced-" + names[i]
		}
		if g, err2 := fromString(f); err2 != nil || g != v {
			return "fromstring-" + names[i]
		}
		// a receiver that has just rejected an input is reused
		r := other
		_ = P(&r).UnmarshalText([]byte("1.x.y")) //nolint:errcheck // the outcome is irrelevant, only the reuse matters
		if P(&r).UnmarshalText([]byte(f)) != nil || r != v {
			return "reuse-after-error-" + names[i]
		}
	}
	return ""
}

// libStr checks that the entry points agree with each other on an arbitrary string.  Receivers start out holding
// `other`; after an error they may hold `other` or zero, after a success exactly the parsed value.
func libStr[V fxv, P fxp[V]](s string, other V, fromString func(string) (V, error), forced func(string) V) string {
	var zero V
	v, err := fromString(s)
	if fv := forced(s); (err == nil && fv != v) || (err != nil && fv != zero && fv != v) {
		return "forced"
	}
	a, b := other, other
	ea := P(&a).UnmarshalText([]byte(s))
	eb := P(&b).UnmarshalJSON([]byte(s))
	if (ea == nil) != (eb == nil) || (ea == nil && a != b) {
		return "text-vs-json"
	}
	u, eu := fromString(txt.Unquote(s))
	if (eu == nil) != (ea == nil) || (eu == nil && u != a) {
		return "unmarshal-vs-unquote"
	}
	if ea != nil && a != other && a != zero {
		return "unmarshal-error-wrote"
	}
	if eb != nil && b != other && b != zero {
		return "unmarshaljson-error-wrote"
	}
	// YAML entry point (no Unquote on this path): the callback delivers the string
	y := other
	ey := P(&y).UnmarshalYAML(func(x any) error {
		if sp, ok := x.(*string); ok {
			*sp = s
			return nil
		}
		return errSentinel
	})
	if (ey == nil) != (err == nil) || (ey == nil && y != v) {
		return "unmarshalyaml-vs-fromstring"
	}
	if ey != nil && y != other && y != zero {
		return "unmarshalyaml-error-wrote"
	}
	return ""
}

func res(raw *big.Int, err error) string {
	if err != nil {
		return "err"
	}
	return "ok:" + raw.String()
}

func asInt64[T fixed.Dx, TO int | int8 | int16 | int32 | int64 | uint | uint8 | uint16 | uint32 | uint64 | uintptr]() func(raw *big.Int) asRes {
	return func(raw *big.Int) asRes {
		f := f64.Int[T](raw.Int64())
		a := f64.As[T, TO](f)
		c, err := f64.CheckedAs[T, TO](f)
		r := asRes{as: fmt.Sprint(a), checked: "nofit"}
		if err == nil {
			r.checked = "ok:" + fmt.Sprint(c)
		} else if err != fixed.ErrDoesNotFitInRequestedType {
			r.checked = "wrong-error"
		}
		return r
	}
}

func asInt128[T fixed.Dx, TO int | int8 | int16 | int32 | int64 | uint | uint8 | uint16 | uint32 | uint64 | uintptr]() func(raw *big.Int) asRes {
	return func(raw *big.Int) asRes {
		f := mk128[T](raw)
		a := f128.As[T, TO](f)
		c, err := f128.CheckedAs[T, TO](f)
		r := asRes{as: fmt.Sprint(a), checked: "nofit"}
		if err == nil {
			r.checked = "ok:" + fmt.Sprint(c)
		} else if err != fixed.ErrDoesNotFitInRequestedType {
			r.checked = "wrong-error"
		}
		return r
	}
}

func asFloat64[T fixed.Dx, TO float32 | float64](bits int) func(raw *big.Int) floatRes {
	return func(raw *big.Int) floatRes {
		f := f64.Int[T](raw.Int64())
		c, err := f64.CheckedAs[T, TO](f)
		return floatRes{as: float64(f64.As[T, TO](f)), v: float64(c), ok: err == nil,
			wrongErr: err != nil && err != fixed.ErrDoesNotFitInRequestedType, bits: bits}
	}
}

func asFloat128[T fixed.Dx, TO float32 | float64](bits int) func(raw *big.Int) floatRes {
	return func(raw *big.Int) floatRes {
		f := mk128[T](raw)
		c, err := f128.CheckedAs[T, TO](f)
		return floatRes{as: float64(f128.As[T, TO](f)), v: float64(c), ok: err == nil,
			wrongErr: err != nil && err != fixed.ErrDoesNotFitInRequestedType, bits: bits}
	}
}

func reg[T fixed.Dx]() *cfg {
	var t T
	c := &cfg{places: t.Places(), mult: t.Multiplier(), t: map[string]*typ{}}
	from64 := func(s string) (f64.Int[T], error) { return f64.FromString[T](s) }
	forced64 := func(s string) f64.Int[T] { return f64.FromStringForced[T](s) }
	c.t["64"] = &typ{
		forms: func(raw *big.Int) [4]string {
			f := f64.Int[T](raw.Int64())
			return [4]string{f.String(), f.StringWithSign(), f.Comma(), f.CommaWithSign()}
		},
		parse: func(s string) string {
			v, err := f64.FromString[T](s)
			return res(big.NewInt(int64(v)), err)
		},
		unm: func(s string) string {
			v := f64.Int[T](other64)
			err := v.UnmarshalText([]byte(s))
			return res(big.NewInt(int64(v)), err)
		},
		libVal: func(raw *big.Int) string {
			o := f64.Int[T](other64)
			if raw.Int64() == other64 {
				o++
			}
			return libVal[f64.Int[T], *f64.Int[T]](f64.Int[T](raw.Int64()), o, from64, forced64)
		},
		libStr: func(s string) string {
			return libStr[f64.Int[T], *f64.Int[T]](s, f64.Int[T](other64), from64, forced64)
		},
		frac: frac64[T](),
		cfgOut: func() string {
			return fmt.Sprintf("%d %d", f64.MaxDecimalDigits[T](), f64.Multiplier[T]())
		},
		asInt: map[string]func(raw *big.Int) asRes{
			"i8": asInt64[T, int8](), "i16": asInt64[T, int16](), "i32": asInt64[T, int32](), "i64": asInt64[T, int64](),
			"int": asInt64[T, int](), "u8": asInt64[T, uint8](), "u16": asInt64[T, uint16](), "u32": asInt64[T, uint32](),
			"u64": asInt64[T, uint64](), "uint": asInt64[T, uint](), "uptr": asInt64[T, uintptr](),
		},
		asFloat: map[string]func(raw *big.Int) floatRes{"32": asFloat64[T, float32](32), "64": asFloat64[T, float64](64)},
		fromF:   func(f float64) string { return big.NewInt(int64(f64.From[T](f))).String() },
	}
	from128 := func(s string) (f128.Int[T], error) { return f128.FromString[T](s) }
	forced128 := func(s string) f128.Int[T] { return f128.FromStringForced[T](s) }
	c.t["128"] = &typ{
		forms: func(raw *big.Int) [4]string {
			f := mk128[T](raw)
			return [4]string{f.String(), f.StringWithSign(), f.Comma(), f.CommaWithSign()}
		},
		parse: func(s string) string {
			v, err := f128.FromString[T](s)
			return res(raw128(v), err)
		},
		unm: func(s string) string {
			v := mk128[T](other128)
			err := v.UnmarshalText([]byte(s))
			return res(raw128(v), err)
		},
		libVal: func(raw *big.Int) string {
			o := other128
			if raw.Cmp(o) == 0 {
				o = new(big.Int).Add(o, big.NewInt(1))
			}
			return libVal[f128.Int[T], *f128.Int[T]](mk128[T](raw), mk128[T](o), from128, forced128)
		},
		libStr: func(s string) string {
			return libStr[f128.Int[T], *f128.Int[T]](s, mk128[T](other128), from128, forced128)
		},
		frac: frac128[T](),
		cfgOut: func() string {
			return fmt.Sprintf("%d %s", f128.MaxDecimalDigits[T](), raw128(f128.Multiplier[T]()))
		},
		ext: func(which string) [2]string {
			v := f128.Maximum[T]()
			if which == "min" {
				v = f128.Minimum[T]()
			}
			return [2]string{raw128(v).String(), v.String()}
		},
		asInt: map[string]func(raw *big.Int) asRes{
			"i8": asInt128[T, int8](), "i16": asInt128[T, int16](), "i32": asInt128[T, int32](), "i64": asInt128[T, int64](),
			"int": asInt128[T, int](), "u8": asInt128[T, uint8](), "u16": asInt128[T, uint16](), "u32": asInt128[T, uint32](),
			"u64": asInt128[T, uint64](), "uint": asInt128[T, uint](), "uptr": asInt128[T, uintptr](),
		},
		asFloat: map[string]func(raw *big.Int) floatRes{"32": asFloat128[T, float32](32), "64": asFloat128[T, float64](64)},
		fromF:   func(f float64) string { return raw128(f128.From[T](f)).String() },
	}
	return c
}

// index i = configuration D(i+1), the order of Facts.fixedConfigs
var cfgs = []*cfg{
	reg[fixed.D1](), reg[fixed.D2](), reg[fixed.D3](), reg[fixed.D4](), reg[fixed.D5](), reg[fixed.D6](),
	reg[fixed.D7](), reg[fixed.D8](), reg[fixed.D9](), reg[fixed.D10](), reg[fixed.D11](), reg[fixed.D12](),
	reg[fixed.D13](), reg[fixed.D14](), reg[fixed.D15](), reg[fixed.D16](),
}

func getCfg(d, ty string) (*cfg, *typ) {
	i := hx.Atoi(d)
	if i < 1 || i > len(cfgs) {
		return nil, nil
	}
	return cfgs[i-1], cfgs[i-1].t[ty]
}

func parseRaw(s string) *big.Int {
	v, ok := new(big.Int).SetString(s, 10)
	if !ok {
		panic("bad raw " + s)
	}
	return v
}

func plain(s string) string {
	if s == "" {
		return "-"
	}
	return s
}

func isExp(s string) bool { return strings.ContainsAny(s, "Ee") }

// ---------------------------------------------------------------------------------------------------------------
// areas

type valArea struct{}

// the renderings of the previous `val` line and private copies of them: a rendering must not change after it was
// returned (a shared or pooled buffer behind the returned string would show here)
var prevForms, prevCopies [4]string

func (valArea) Run(line string) string {
	f := strings.Fields(line)
	if len(f) == 3 && f[0] == "cfg" { // MaxDecimalDigits / Multiplier of the package against the table of the model
		_, t := getCfg(f[2], f[1])
		if t == nil {
			return "bad-op"
		}
		return t.cfgOut()
	}
	if len(f) == 4 && f[0] == "ext" { // f128.Maximum / f128.Minimum
		_, t := getCfg(f[2], f[1])
		if t == nil || t.ext == nil {
			return "bad-op"
		}
		r := t.ext(f[3])
		return r[0] + " " + plain(r[1])
	}
	if len(f) != 4 || f[0] != "val" {
		return "bad-op"
	}
	_, t := getCfg(f[2], f[1])
	if t == nil {
		return "bad-op"
	}
	raw := parseRaw(f[3])
	forms := t.forms(raw)
	out := make([]string, 0, 9)
	for _, s := range forms {
		out = append(out, plain(s))
	}
	for _, s := range forms {
		out = append(out, t.parse(s))
	}
	lib := t.libVal(raw)
	if lib == "" && prevForms != prevCopies {
		lib = "earlier-rendering-changed"
	}
	if again := t.forms(raw); lib == "" && again != forms {
		lib = "rendering-not-repeatable"
	}
	prevForms = forms
	for i, s := range forms {
		prevCopies[i] = strings.Clone(s)
	}
	if lib != "" {
		out = append(out, "lib-FAIL:"+lib)
	} else {
		out = append(out, "lib-ok")
	}
	return strings.Join(out, " ")
}

type parseArea struct{}

func (parseArea) Run(line string) string {
	f := strings.Fields(line)
	if len(f) != 4 || f[0] != "parse" {
		return "bad-op"
	}
	_, t := getCfg(f[2], f[1])
	if t == nil {
		return "bad-op"
	}
	s := string(hx.UnHex(f[3]))
	a, b := t.parse(s), t.unm(s)
	lib := "lib-ok"
	if l := t.libStr(s); l != "" {
		lib = "lib-FAIL:" + l
	}
	// strconv.ParseFloat branch: modelled (Model/FixedTextExp.lean), hexadecimal floats and underscore separators included;
	// the float -> int64 conversion of f64.From outside the int64 range is implementation-defined and printed as `impl`
	a = expView(s, a, f[1], f[2])
	b = expView(ownUnquote(s), b, f[1], f[2])
	return a + " " + b + " " + lib
}

// ownUnquote is the harness's own reading of "one pair of surrounding double quotes is stripped".
func ownUnquote(s string) string {
	if len(s) > 1 && s[0] == '"' && s[len(s)-1] == '"' {
		return s[1 : len(s)-1]
	}
	return s
}

// expView rewrites the outcome `got` of parsing `s` where Go does not define a number: `impl` where f64.From converts a
// float product outside the int64 range (decided with the stdlib's ParseFloat and the hardware product, without the
// library).
func expView(s, got, ty, d string) string {
	t := strings.ReplaceAll(s, ",", "")
	if s == "" || !isExp(t) {
		return got
	}
	if longMantissa(t) {
		return "long"
	}
	if ty == "64" {
		if fl, err := strconv.ParseFloat(t, 64); err == nil {
			m, _ := new(big.Float).SetInt(pow10(hx.Atoi(d))).Float64() // 10^D <= 10^16 is exact
			p := fl * m
			if !(p < 9223372036854775808.0 && p >= -9223372036854775808.0) {
				return "impl"
			}
		}
	}
	return got
}

// longMantissa reports the texts on which strconv.ParseFloat itself is not correctly rounded (its slow path keeps 800 digits
// and loses the position of the decimal point beyond them): a decimal mantissa with more than 800 bytes in front of the
// point, sign, underscores and leading zeros not counted.  Same definition as Model/FixedTextExp.lean `longMantissa`.
func longMantissa(t string) bool {
	body := t
	if body != "" && (body[0] == '+' || body[0] == '-') {
		body = body[1:]
	}
	if len(body) >= 3 && body[0] == '0' && (body[1] == 'x' || body[1] == 'X') {
		return false
	}
	if i := strings.IndexAny(body, "eE"); i >= 0 {
		body = body[:i]
	}
	body = strings.ReplaceAll(body, "_", "")
	if i := strings.IndexByte(body, '.'); i >= 0 {
		body = body[:i]
	}
	return len(strings.TrimLeft(body, "0")) > 800
}

type asArea struct{}

func (asArea) Run(line string) string {
	f := strings.Fields(line)
	if len(f) != 5 || f[0] != "as" {
		return "bad-op"
	}
	_, t := getCfg(f[2], f[1])
	if t == nil {
		return "bad-op"
	}
	fn := t.asInt[f[4]]
	if fn == nil {
		return "bad-op"
	}
	r := fn(parseRaw(f[3]))
	return r.as + " " + r.checked
}

type txtArea struct{}

func commaInt(v *big.Int) (string, bool) {
	if v.IsInt64() {
		i := v.Int64()
		r := txt.Comma(i)
		same := txt.Comma(int(i)) == r
		if i == int64(int32(i)) {
			same = same && txt.Comma(int32(i)) == r
		}
		if i == int64(int16(i)) {
			same = same && txt.Comma(int16(i)) == r
		}
		if i == int64(int8(i)) {
			same = same && txt.Comma(int8(i)) == r
		}
		if i >= 0 {
			same = same && txt.Comma(uint64(i)) == r && txt.Comma(uint(i)) == r
			if i == int64(uint32(i)) {
				same = same && txt.Comma(uint32(i)) == r
			}
			if i == int64(uint8(i)) {
				same = same && txt.Comma(uint8(i)) == r
			}
		}
		return r, same
	}
	if v.IsUint64() {
		return txt.Comma(v.Uint64()), true
	}
	panic("commai out of range")
}

func (txtArea) Run(line string) string {
	f := strings.Fields(line)
	if len(f) != 2 {
		return "bad-op"
	}
	if f[0] == "commai" { // txt.Comma[T] of an integer: fmt %v, then CommaFromStringNum
		r, same := commaInt(parseRaw(f[1]))
		if !same {
			return "comma-differs-between-integer-types"
		}
		return hx.Hex([]byte(r))
	}
	s := hx.UnHex(f[1])
	switch f[0] {
	case "unq":
		a := txt.Unquote(string(s))
		in := append([]byte(nil), s...)
		b := txt.UnquoteBytes(in)
		if string(b) != a {
			return "unquote-vs-unquotebytes"
		}
		if string(in) != string(s) {
			return "unquotebytes-modified-its-input"
		}
		return hx.Hex([]byte(a))
	case "comma":
		return hx.Hex([]byte(txt.CommaFromStringNum(string(s))))
	}
	return "bad-op"
}

// floatArea: implementation-side oracle for CheckedAs/As with float targets.
// Expected: success iff the shortest round-trip decimal of the float nearest to raw/10^D denotes exactly raw/10^D.
type floatArea struct{}

func (floatArea) Run(line string) string {
	f := strings.Fields(line)
	if (len(f) != 5 && len(f) != 6) || f[0] != "cf" { // optional 6th token: class tag written by the generator
		return "bad-op"
	}
	c, t := getCfg(f[2], f[1])
	if t == nil {
		return "bad-op"
	}
	fn := t.asFloat[f[4]]
	if fn == nil {
		return "bad-op"
	}
	raw := parseRaw(f[3])
	got := fn(raw)
	_ = c
	mult := pow10(hx.Atoi(f[2])) // 10^D computed here, not read from the package's table
	q := new(big.Rat).SetFrac(raw, mult)
	var near float64
	if got.bits == 32 {
		n32, _ := q.Float32()
		near = float64(n32)
	} else {
		near, _ = q.Float64()
	}
	text := strconv.FormatFloat(near, 'f', -1, got.bits)
	back, ok := new(big.Rat).SetString(text)
	want := ok && back.Cmp(q) == 0
	switch {
	case got.wrongErr:
		return fmt.Sprintf("FAIL CheckedAs of %s/%s to float%d fails with an error other than ErrDoesNotFitInRequestedType", raw, mult, got.bits)
	case want && !got.ok:
		return fmt.Sprintf("FAIL CheckedAs rejects %s/%s although float%d %s identifies it", raw, mult, got.bits, text)
	case !want && got.ok:
		return fmt.Sprintf("FAIL CheckedAs accepts %s/%s as %s (nearest float%d prints %s)", raw, mult,
			strconv.FormatFloat(got.v, 'f', -1, got.bits), got.bits, text)
	case got.ok && math.Float64bits(got.v) != math.Float64bits(near):
		return fmt.Sprintf("FAIL CheckedAs value %v is not the nearest float %v", got.v, near)
	case got.ok && math.Float64bits(got.as) != math.Float64bits(got.v):
		return fmt.Sprintf("FAIL As %v differs from CheckedAs %v", got.as, got.v)
	}
	if got.ok {
		return "ok fits"
	}
	return "ok nofit"
}

// expArea: implementation-side oracle for the exponent-literal branch: no panic, and the documented composition
// FromString(s) = From(ParseFloat(s without commas)).
type expArea struct{}

func (expArea) Run(line string) string {
	f := strings.Fields(line)
	if len(f) != 4 || f[0] != "exp" {
		return "bad-op"
	}
	_, t := getCfg(f[2], f[1])
	if t == nil {
		return "bad-op"
	}
	s := string(hx.UnHex(f[3]))
	got := t.parse(s)
	if l := t.libStr(s); l != "" {
		return "FAIL entry points disagree: " + l
	}
	if !isExp(s) {
		return "ok not-exp"
	}
	fl, err := strconv.ParseFloat(strings.ReplaceAll(s, ",", ""), 64)
	want := "err"
	if err == nil {
		want = "ok:" + t.fromF(fl)
	}
	if got != want {
		return "FAIL exponent literal: got " + got + " want " + want
	}
	return "ok " + strings.SplitN(got, ":", 2)[0]
}

func main() {
	debug.SetMaxStack(64 << 20) // a runaway recursion dies in milliseconds instead of after filling 1 GB
	hx.Main(map[string]hx.Area{
		"val": &guard{Area: valArea{}}, "parse": &guard{Area: parseArea{}}, "as": &guard{Area: asArea{}},
		"txtfn": &guard{Area: txtArea{}}, "float": &guard{Area: floatArea{}}, "exp": &guard{Area: expArea{}},
		"misc": &guard{Area: miscArea{}}, "fltm": &guard{Area: fltmArea{}},
	})
}
