package main

import (
	"math"
	"math/big"
	"strconv"
	"strings"

	"verifharness/hx"
)

func pow10(n int) *big.Int { return new(big.Int).Exp(big.NewInt(10), big.NewInt(int64(n)), nil) }

func randBits(r *hx.Rng, bits int) *big.Int {
	v := new(big.Int)
	for i := 0; i < (bits+63)/64; i++ {
		v.Lsh(v, 64)
		v.Or(v, new(big.Int).SetUint64(r.U64()))
	}
	return v.Rsh(v, uint((bits+63)/64*64-bits))
}

func clamp(v *big.Int, wide bool) *big.Int {
	lo, hi := min64, max64
	if wide {
		lo, hi = min128, max128
	}
	if v.Cmp(lo) < 0 {
		return new(big.Int).Set(lo)
	}
	if v.Cmp(hi) > 0 {
		return new(big.Int).Set(hi)
	}
	return v
}

// genRaw produces raw values that exercise the integer/fraction split, zero stripping, the sign of -0.x, the thousands
// grouping and the range ends.
func genRaw(r *hx.Rng, places int, wide bool) *big.Int {
	mult := pow10(places)
	lo, hi := min64, max64
	maxBits := 63
	if wide {
		lo, hi = min128, max128
		maxBits = 127
	}
	sign := func(v *big.Int) *big.Int {
		if r.Bool() {
			return v.Neg(v)
		}
		return v
	}
	small := func() *big.Int { return big.NewInt(int64(r.Intn(12))) }
	var v *big.Int
	switch r.Intn(20) {
	case 16: // powers of two and their neighbours, every exponent of the type
		v = new(big.Int).Lsh(big.NewInt(1), uint(r.Intn(maxBits+1)))
		v = sign(v.Add(v, big.NewInt(int64(r.Intn(3)-1))))
	case 17: // powers of ten and their neighbours (19 / 38 digits)
		k := 19
		if wide {
			k = 39
		}
		v = pow10(r.Intn(k))
		v = sign(v.Add(v, big.NewInt(int64(r.Intn(3)-1))))
	case 18: // half the range, 2^53 (float mantissa), 2^31, 2^32 and neighbours
		v = new(big.Int).Set(hx.Pick(r, []*big.Int{new(big.Int).Rsh(hi, 1), new(big.Int).Rsh(max64, 1), big.NewInt(1 << 53),
			big.NewInt(1 << 31), big.NewInt(1 << 32), new(big.Int).Rsh(max128, 1)}))
		v = sign(v.Add(v, big.NewInt(int64(r.Intn(5)-2))))
	case 19: // 0 < |value| < 1 written with exactly D digits or fewer (where a sign lands relative to the first digit)
		k := r.Intn(places)
		v = new(big.Int).Mul(big.NewInt(int64(1+r.Intn(9))), pow10(k))
		if r.Bool() && k > 0 {
			v.Add(v, big.NewInt(int64(r.Intn(10))))
		}
		v = sign(v)
	case 0: // specials
		v = new(big.Int).Set(hx.Pick(r, []*big.Int{big.NewInt(0), big.NewInt(1), big.NewInt(-1), lo, hi,
			new(big.Int).Add(lo, big.NewInt(1)), new(big.Int).Sub(hi, big.NewInt(1)), mult, new(big.Int).Neg(mult),
			new(big.Int).Add(mult, big.NewInt(1)), new(big.Int).Sub(mult, big.NewInt(1)),
			new(big.Int).Neg(new(big.Int).Sub(mult, big.NewInt(1))), min64, max64,
			new(big.Int).Add(max64, big.NewInt(1)), new(big.Int).Sub(min64, big.NewInt(1)), two64, new(big.Int).Neg(two64)}))
	case 1, 2: // |integer part| = 0
		v = sign(new(big.Int).Mod(randBits(r, 60), mult))
	case 3: // fraction d·10^k (trailing zeros) with a random integer part
		k := r.Intn(places)
		fr := new(big.Int).Mul(big.NewInt(int64(1+r.Intn(9))), pow10(k))
		v = new(big.Int).Mul(randBits(r, r.Intn(maxBits-places*3)), mult)
		v = sign(v.Add(v, fr))
	case 4: // fraction 0…0d (leading zeros)
		v = new(big.Int).Mul(randBits(r, r.Intn(40)), mult)
		v = sign(v.Add(v, big.NewInt(int64(1+r.Intn(99)))))
	case 5: // k·mult ± small
		v = new(big.Int).Mul(randBits(r, r.Intn(maxBits-places*3)), mult)
		v = sign(v)
		v.Add(v, big.NewInt(int64(r.Intn(5)-2)))
	case 6: // near the ends of the range
		if r.Bool() {
			v = new(big.Int).Sub(hi, new(big.Int).Mul(small(), hx.Pick(r, []*big.Int{big.NewInt(1), mult})))
			v.Sub(v, small())
		} else {
			v = new(big.Int).Add(lo, new(big.Int).Mul(small(), hx.Pick(r, []*big.Int{big.NewInt(1), mult})))
			v.Add(v, small())
		}
	case 7: // integer part at a thousands boundary
		k := r.Intn(13)
		if wide {
			k = r.Intn(22)
		}
		ip := pow10(k)
		ip.Add(ip, big.NewInt(int64(r.Intn(3)-1)))
		v = ip.Mul(ip, mult)
		if r.Bool() {
			v.Add(v, new(big.Int).Mod(randBits(r, 60), mult))
		}
		v = sign(v)
	case 8: // around ±2^63 / ±2^64 (only interesting for the wide type; clamped for f64)
		v = new(big.Int).Set(hx.Pick(r, []*big.Int{min64, max64, two64}))
		v.Add(v, big.NewInt(int64(r.Intn(7)-3)))
		if r.Bool() {
			v.Mul(v, mult)
		}
		v = sign(v)
	case 9: // small integers and short fractions
		v = big.NewInt(int64(r.Intn(2000000) - 1000000))
	default: // random magnitude
		v = sign(randBits(r, 1+r.Intn(maxBits)))
	}
	return clamp(v, wide)
}

func digits(r *hx.Rng, n int) string {
	var sb strings.Builder
	for i := 0; i < n; i++ {
		sb.WriteByte(byte('0' + r.Intn(10)))
	}
	return sb.String()
}

// group inserts commas every three digits from the right.
func group(s string) string {
	var sb strings.Builder
	for i, c := range []byte(s) {
		if i > 0 && (len(s)-i)%3 == 0 {
			sb.WriteByte(',')
		}
		sb.WriteByte(c)
	}
	return sb.String()
}

// sizes around the usual thresholds of small-size fast paths, fixed buffers and growth policies
var sizes = []int{11, 12, 13, 15, 16, 17, 18, 19, 20, 23, 24, 25, 31, 32, 33, 38, 39, 40, 63, 64, 65, 127, 128, 129, 255, 256, 257, 300, 1000, 1100}

var junk = []string{" ", "_", "e", "E", "x", ".", "-", "+", ",", "\"", "\xff", "\xc3", "\x00", "a", "\xe2\x88\x92", "0x", "\t", "\n", "1", "0"}

// genLit produces decimal literals (and near misses) for FromString.
func genLit(r *hx.Rng, places int, wide bool) string {
	limit := 19
	if wide {
		limit = 39
	}
	// integer part
	var ip string
	if r.Chance(1, 25) { // size thresholds: very long digit runs in every position
		n := hx.Pick(r, sizes)
		switch r.Intn(5) {
		case 0: // long integer part (f64: range error, f128: saturation)
			return pick3(r) + strconv.Itoa(1+r.Intn(9)) + digits(r, n) + hx.Pick(r, []string{"", ".", ".5"})
		case 1: // many leading zeros
			return pick3(r) + strings.Repeat("0", n) + digits(r, r.Intn(5)) + hx.Pick(r, []string{"", ".", ".25"})
		case 2: // long fraction (cut at D digits)
			return pick3(r) + digits(r, r.Intn(4)) + "." + digits(r, n)
		case 3: // long fraction of zeros and a late digit
			return pick3(r) + digits(r, r.Intn(4)) + "." + strings.Repeat("0", n) + "1"
		default: // many separators
			return pick3(r) + strings.Repeat(",", n) + digits(r, 1+r.Intn(5)) + strings.Repeat(",", r.Intn(3)) + "." + digits(r, r.Intn(places+2))
		}
	}
	switch r.Intn(12) {
	case 0:
		ip = ""
	case 1:
		ip = strings.Repeat("0", 1+r.Intn(4))
	case 2: // leading zeros
		ip = strings.Repeat("0", 1+r.Intn(25)) + digits(r, r.Intn(6))
	case 3: // close to the largest representable integer part
		v := genRaw(r, places, wide)
		if r.Chance(2, 3) {
			v = clamp(new(big.Int).Set(hx.Pick(r, []*big.Int{min64, max64, min128, max128})), wide)
			v.Add(v, big.NewInt(int64(r.Intn(41)-20)))
		}
		v.Abs(v)
		s := v.String()
		if r.Bool() && len(s) > places { // as a literal with the full fraction
			return pick3(r) + s[:len(s)-places] + "." + s[len(s)-places:] + digits(r, r.Intn(3))
		}
		ip = s
		if r.Bool() && len(s) > places {
			ip = s[:len(s)-places]
		}
	case 4: // beyond the range
		ip = strconv.Itoa(1+r.Intn(9)) + digits(r, limit-places-2+r.Intn(8))
	case 5:
		ip = strconv.Itoa(1+r.Intn(9)) + digits(r, limit-places-3+r.Intn(3))
	default:
		ip = digits(r, 1+r.Intn(9))
	}
	if r.Chance(1, 5) {
		if r.Chance(3, 4) {
			ip = group(ip)
		} else if len(ip) > 0 {
			i := r.Intn(len(ip) + 1)
			ip = ip[:i] + "," + ip[i:]
		}
	}
	// fraction
	var fr string
	switch r.Intn(10) {
	case 0, 1:
		fr = ""
	case 2:
		fr = "."
	case 3: // only zeros
		fr = "." + strings.Repeat("0", r.Intn(places+4))
	case 4: // trailing zeros
		fr = "." + digits(r, r.Intn(places+1)) + strings.Repeat("0", 1+r.Intn(3))
	case 5: // longer than D: truncation, never rounding
		fr = "." + digits(r, places) + hx.Pick(r, []string{"5", "9", "99", "50", "49", "999999999999999999999"})
	case 6: // all nines
		fr = "." + strings.Repeat("9", r.Intn(places+4))
	default:
		fr = "." + digits(r, r.Intn(places+4))
	}
	s := pick3(r) + ip + fr
	// malformations
	switch r.Intn(14) {
	case 0: // insert a junk byte
		i := r.Intn(len(s) + 1)
		s = s[:i] + hx.Pick(r, junk) + s[i:]
	case 1: // junk behind the cutoff or a second dot
		s += hx.Pick(r, []string{".", ".5", "x", " ", "_1", "-", "\xff", "1.2.3"})
	case 2: // quoting (UnmarshalText / UnmarshalJSON strip one pair)
		s = hx.Pick(r, []string{`"`, `""`, ``}) + s + hx.Pick(r, []string{`"`, `""`, ``})
	case 3: // double sign / sign in the wrong place
		s = hx.Pick(r, []string{"-", "+", "--", "+-", "-+"}) + s
	}
	return s
}

func pick3(r *hx.Rng) string {
	switch r.Intn(6) {
	case 0, 1:
		return "-"
	case 2:
		return "+"
	}
	return ""
}

func genGarbage(r *hx.Rng) string {
	switch r.Intn(6) {
	case 0:
		return hx.Pick(r, []string{"", "-", "+", ".", "-.", "+.", "-0", "-0.", "-00", "-00.5", "-0.5", "+0", "+0.5", "-.5", ".5", "5.",
			",", ",,", "-,", "1,", ",1", "\"", "\"\"", "\"\"\"", "\"1\"", "\"-0.5\"", "\"", "1\"", "\"1", "--1", "+-1", "1-", "0x10", "1_000",
			" 1", "1 ", "\xff", "\xc3\x28", "-,", "+,", ",.", ",-", ",+", "-0,", "-0.0", "-0.00", "-00.0", "-000", "+0", "+00", "+0.0", "-,0", ",,,", ".,",
			",.,", "-.,", "-,.", "+,.", "-.0", "+.0", ".0", "0.", "0", "00", "-0,0", "0,0", "0,.5", ",.5", "-,.5", "-.,5", "-0.,5", "\"-\"", "\"+\"", "\".\"", "\",\"",
			"\"\"\"\"", "\"-0\"", "\"+.5\"", "-\"1\"", "\"1\"-", "\xe2\x88\x921", "１", "1.2.3", "..", "-..", "NaN", "inf", "Inf", "-Inf", "nil", "null", "true"})
	case 1:
		n := r.Intn(8)
		b := make([]byte, n)
		for i := range b {
			b[i] = byte(r.U64())
		}
		return string(b)
	default:
		var sb strings.Builder
		for i, n := 0, r.Intn(8); i < n; i++ {
			sb.WriteString(hx.Pick(r, []string{"0", "1", "9", "5", ".", "-", "+", ",", "\"", " ", "_", "\xff", "a", "00", "000"}))
		}
		return sb.String()
	}
}

func pickTy(r *hx.Rng) (string, bool) {
	if r.Bool() {
		return "128", true
	}
	return "64", false
}

func (valArea) Gen(r *hx.Rng, n int, _ string, emit func(string)) {
	for i := 0; i < n; i++ {
		d := 1 + r.Intn(16)
		ty, wide := pickTy(r)
		emit("val " + ty + " " + strconv.Itoa(d) + " " + genRaw(r, d, wide).String())
	}
}

func (parseArea) Gen(r *hx.Rng, n int, _ string, emit func(string)) {
	for i := 0; i < n; i++ {
		d := 1 + r.Intn(16)
		ty, wide := pickTy(r)
		var s string
		if r.Chance(1, 6) {
			s = genGarbage(r)
		} else {
			s = genLit(r, d, wide)
		}
		if r.Chance(1, 7) { // the exponent branch (Model/FixedTextExp.lean)
			s = genExpLit(r, d)
			if r.Chance(1, 10) { // quoted: UnmarshalText strips one pair, FromString rejects
				s = `"` + s + `"`
			}
		}
		emit("parse " + ty + " " + strconv.Itoa(d) + " " + hx.Hex([]byte(s)))
	}
}

var intTargets = []string{"i8", "i16", "i32", "i64", "int", "u8", "u16", "u32", "u64", "uint", "uptr"}

func (asArea) Gen(r *hx.Rng, n int, _ string, emit func(string)) {
	for i := 0; i < n; i++ {
		d := 1 + r.Intn(16)
		ty, wide := pickTy(r)
		mult := pow10(d)
		var v *big.Int
		switch r.Intn(8) {
		case 6: // f128: integer part k·2^64 + small (AsInt64 keeps the low word only), and the ends of the 128-bit range
			v = new(big.Int).Lsh(big.NewInt(int64(1+r.Intn(5))), uint(hx.Pick(r, []int{64, 65, 70, 96})))
			v.Add(v, big.NewInt(int64(r.Intn(300)-150)))
			if r.Bool() {
				v.Neg(v)
			}
			v.Mul(v, mult)
			v = clamp(v, wide)
		case 7: // half of MaxInt64 and neighbours, as integer part and as raw value
			v = new(big.Int).Rsh(max64, uint(r.Intn(3)))
			v.Add(v, big.NewInt(int64(r.Intn(5)-2)))
			if r.Bool() {
				v.Neg(v)
			}
			if r.Bool() {
				v.Mul(v, mult)
			}
			v = clamp(v, wide)
		case 0, 1: // integers around the bounds of the target types
			b := hx.Pick(r, []uint{0, 7, 8, 15, 16, 31, 32, 63, 64, 65, 126})
			v = new(big.Int).Lsh(big.NewInt(1), b)
			if b == 0 {
				v.SetInt64(0)
			}
			v.Add(v, big.NewInt(int64(r.Intn(5)-2)))
			if r.Bool() {
				v.Neg(v)
			}
			v.Mul(v, mult)
			if r.Chance(1, 4) {
				v.Add(v, big.NewInt(int64(r.Intn(3)-1)))
			}
			v = clamp(v, wide)
		case 2: // small integers, exact
			v = new(big.Int).Mul(big.NewInt(int64(r.Intn(700)-350)), mult)
		default:
			v = genRaw(r, d, wide)
		}
		emit("as " + ty + " " + strconv.Itoa(d) + " " + v.String() + " " + hx.Pick(r, intTargets))
	}
}

func (txtArea) Gen(r *hx.Rng, n int, _ string, emit func(string)) {
	for i := 0; i < n; i++ {
		if r.Chance(1, 8) { // txt.Comma[T] of integers: limits, powers of ten and of two and their neighbours
			var v *big.Int
			switch r.Intn(5) {
			case 0:
				v = new(big.Int).Set(hx.Pick(r, []*big.Int{big.NewInt(0), min64, max64, new(big.Int).Sub(two64, big.NewInt(1)), new(big.Int).Add(max64, big.NewInt(1)),
					big.NewInt(-1), big.NewInt(999), big.NewInt(1000), big.NewInt(-999), big.NewInt(-1000), big.NewInt(127), big.NewInt(-128), big.NewInt(255)}))
			case 1:
				v = pow10(r.Intn(20))
				v.Add(v, big.NewInt(int64(r.Intn(3)-1)))
				if r.Bool() {
					v.Neg(v)
				}
			case 2:
				v = new(big.Int).Lsh(big.NewInt(1), uint(r.Intn(64)))
				v.Add(v, big.NewInt(int64(r.Intn(3)-1)))
				if r.Bool() {
					v.Neg(v)
				}
			default:
				v = randBits(r, 1+r.Intn(64))
				if r.Bool() {
					v.Neg(v)
				}
			}
			if v.Cmp(min64) < 0 {
				v = new(big.Int).Set(min64)
			}
			if v.Cmp(mask64) > 0 {
				v = new(big.Int).Set(mask64)
			}
			emit("commai " + v.String())
			continue
		}
		if r.Chance(1, 12) { // size thresholds: long digit strings (100+, 1000+ digits), long quoted strings
			n := hx.Pick(r, sizes)
			if r.Chance(1, 4) {
				emit("unq " + hx.Hex([]byte(hx.Pick(r, []string{`"`, ``})+digits(r, n)+hx.Pick(r, []string{`"`, ``}))))
			} else {
				s := hx.Pick(r, []string{"", "-"}) + digits(r, n)
				if r.Bool() {
					s += "." + digits(r, hx.Pick(r, sizes))
				}
				emit("comma " + hx.Hex([]byte(s)))
			}
			continue
		}
		if r.Chance(1, 3) {
			s := genGarbage(r)
			if r.Bool() {
				s = genLit(r, 1+r.Intn(16), true)
			}
			switch r.Intn(5) {
			case 0:
				s = `"` + s + `"`
			case 1:
				s = `"` + s
			case 2:
				s += `"`
			}
			emit("unq " + hx.Hex([]byte(s)))
			continue
		}
		var s string
		switch r.Intn(6) {
		case 0:
			s = genGarbage(r)
		case 1:
			s = genLit(r, 1+r.Intn(16), true)
		default:
			s = hx.Pick(r, []string{"", "-"}) + digits(r, r.Intn(14))
			if r.Bool() {
				s += "." + digits(r, r.Intn(6))
			}
			if r.Chance(1, 8) {
				s += "." + digits(r, r.Intn(3))
			}
		}
		emit("comma " + hx.Hex([]byte(s)))
	}
}

func (floatArea) Gen(r *hx.Rng, n int, _ string, emit func(string)) {
	for i := 0; i < n; i++ {
		emit(genFloatCase(r, "cf"))
	}
}

// genFloatCase produces one float-target case; `op` is "cf" (oracle area) or "cfm" (model area).
func genFloatCase(r *hx.Rng, op string) string {
	{
		d := 1 + r.Intn(16)
		ty, wide := pickTy(r)
		mult := pow10(d)
		var v *big.Int
		switch r.Intn(12) {
		case 8, 9: // 2^53 < |raw| < 2^63 with at most 17 significant digits: float64(raw) is inexact although the value
			// is often exactly identified by a float (both types must take the exact path here)
			sig := randBits(r, 1+r.Intn(56))
			v = new(big.Int).Add(sig, big.NewInt(1))
			for v.Cmp(big.NewInt(1<<53)) <= 0 {
				v.Mul(v, big.NewInt(10))
			}
			for v.Cmp(max64) < 0 && r.Chance(2, 3) {
				nv := new(big.Int).Mul(v, big.NewInt(10))
				if nv.Cmp(max64) >= 0 {
					break
				}
				v = nv
			}
		case 10: // at and next to the midpoint of two adjacent floats of the target type
			var lo, hiF float64
			if r.Bool() {
				x := math.Float32frombits(uint32(r.Intn(0x7f000000-0x20000000) + 0x20000000))
				lo, hiF = float64(x), float64(math.Nextafter32(x, float32(math.Inf(1))))
			} else {
				lo = math.Float64frombits(uint64(r.Intn(0x7fe-0x300)+0x300)<<52 | r.U64()>>12)
				hiF = math.Nextafter(lo, math.Inf(1))
			}
			mid := new(big.Rat).Add(new(big.Rat).SetFloat64(lo), new(big.Rat).SetFloat64(hiF))
			mid.Quo(mid, big.NewRat(2, 1))
			mid.Mul(mid, new(big.Rat).SetInt(mult))
			v = new(big.Int).Quo(mid.Num(), mid.Denom())
			v.Add(v, big.NewInt(int64(r.Intn(3)-1)))
		case 11: // exactly a float of the target type, scaled (when it has at most D decimals it must be accepted)
			x := float64(math.Float32frombits(uint32(r.Intn(0x4f000000-0x30000000) + 0x30000000)))
			if r.Bool() {
				x = float64(r.Intn(1<<20)) / float64(uint64(1)<<uint(r.Intn(d+1)))
			}
			q := new(big.Rat).Mul(new(big.Rat).SetFloat64(x), new(big.Rat).SetInt(mult))
			v = new(big.Int).Quo(q.Num(), q.Denom())
		case 0: // integers, among them those >= 10^6 whose shortest %g form uses an exponent
			v = new(big.Int).Mul(big.NewInt(int64(r.Intn(5))), pow10(r.Intn(13)))
			v.Add(v, big.NewInt(int64(r.Intn(3))))
			v.Mul(v, mult)
		case 1: // few significant digits at any scale (0.00001, 0.5, 2500000 …)
			v = new(big.Int).Mul(big.NewInt(int64(1+r.Intn(999))), pow10(r.Intn(d+8)))
		case 2: // powers of two and their neighbours (exactly representable binary fractions)
			v = new(big.Int).Lsh(big.NewInt(1), uint(r.Intn(60)))
			v.Add(v, big.NewInt(int64(r.Intn(3)-1)))
		case 3: // k / 2^j scaled: exact binary fractions when 2^j divides 10^D
			j := r.Intn(d + 1)
			v = new(big.Int).Mul(big.NewInt(int64(r.Intn(100000))), mult)
			v.Div(v, new(big.Int).Lsh(big.NewInt(1), uint(j)))
		case 4: // up to 7 / 15..17 significant digits: the limits of float32 / float64 shortest forms
			v = new(big.Int).Mul(randBits(r, 1+r.Intn(58)), pow10(r.Intn(4)))
		default:
			v = genRaw(r, d, wide)
		}
		if r.Bool() {
			v.Neg(v)
		}
		v = clamp(v, wide)
		tg := hx.Pick(r, []string{"32", "64"})
		// class tag: `r` = f64 type, float64 target and |raw| > 2^53 (float64(raw) may round before the division)
		class := "x"
		if !wide && tg == "64" && new(big.Int).Abs(v).Cmp(new(big.Int).Lsh(big.NewInt(1), 53)) > 0 {
			class = "r"
		}
		if op == "cfm" {
			return "cfm " + ty + " " + strconv.Itoa(d) + " " + v.String() + " " + tg
		}
		return "cf " + ty + " " + strconv.Itoa(d) + " " + v.String() + " " + tg + " " + class
	}
}

// genExpLit produces texts for the exponent branch of FromString (strconv.ParseFloat, then From[T](float64)):
// well-formed exponent literals of every shape, products at the edge of int64 (f64: implementation-defined
// conversion) and of the 128-bit range (f128: saturation), values at the edge of float64 (overflow = range error,
// underflow = 0), long mantissas, saturating exponents, malformed neighbours, and the families outside the model
// (hexadecimal floats, underscores).
func genExpLit(r *hx.Rng, d int) string {
	e := func() string { return hx.Pick(r, []string{"e", "E"}) }
	switch r.Intn(16) {
	case 0:
		return genGarbage(r) + hx.Pick(r, []string{"e", "E", "e5", "E-3"})
	case 1:
		s := genLit(r, d, false)
		i := r.Intn(len(s) + 1)
		return s[:i] + e() + s[i:]
	case 2:
		return hx.Pick(r, []string{"1e400", "-1e400", "1e-400", "0x1p-2", "0x1.8P3", "1E", "E1", "e", "E", "1e+", "1_0e1", "Infinity",
			"-infinity", "1e19", "-1e19", "9.3e18", "1e38", "1e39", "-1e39", "1.7e38", "1e-17", "5e-324", "1,000e3", "1e1,0", "\xffe1",
			"0x1ep3", "-0Xep1", "+0x1e", "0xe", "1e5_0", "infe", "nane5", "-0e5", "+0e-5", "0e99999", "1e308", "1.8e308", "1.7976931348623157e308",
			"1.7976931348623159e308", "2.5e-324", "2.4e-324", "4.9e-324", "1e-323", "1e10000", "1e-10000", "1e99999999999999999999",
			"1e-99999999999999999999", ".e5", "1.e5", ".5e5", "1..e5", "+-1e5", "1e5e3", "1.5e2.5", "e5", "+e5", "1e 5", " 1e5", "1e5 ",
			"\"1e5\"", "\"1e5", "1e5\"", "\"\"1e5\"\"", "1e+05", "1e-05", "1E+0", "1e-0", "00001e2", "1e0000000000000000000000002",
			"1_0e1", "1_23.50_0_0e+1_2", "-_123.5e+12", "1e5_0", "1__0e1", "_1e1", "1_e1", "1e_1", "1._5e1", "1_.5e1", "0_1e1", "1e1_",
			"0x1_0p1e", "0_0e1", "1e+_1", "0b1e1", "0o1e1", "0b1_0e1", "0B_1e1", "0_e1", "0_x1e1", "0x1ep3", "-0XE.8P-1", "0x_1ep3", "0x1e_p3",
			"0x1ep3_0", "0x1ep_3", "0xe", "0x.ep1", "0x.p1e", "0xep", "0x1e.p+0_1", "0x1.fffffffffffff8ep1023", "0x1.fffffffffffff7ep1023",
			"0x0.0000000000000000000000000000000000000000000000ep-1000", "0x1ep-1074", "0x1ep-1079", "0x1ep-1080", "0x1.e000000000000p-1027",
			"0xe.0000000000001p0", "0xe.00000000000008p0", "0xe.00000000000018p0", "0xe.000000000000080000000001p0", "0x1E", "0xEp", "0xep+", "0xep-_1",
			"+0xep0", "-0xEP0", "0x0ep99999", "0xep-99999", "0xep1_0", "0x_ep1", "0xe_p1", "0xe._1p1", "0x1,ep1", "0x1e p1", "0xep1e", "0xgep1"})
	case 3: // the product value * 10^D at the edge of int64: 9.22337203685477xxxxe(18-D)
		m := hx.Pick(r, []string{"9.223372036854775", "9.223372036854776", "9.2233720368547758", "9.2233720368547759", "9.223372036854774",
			"9.22337203685477", "9.2233720368547748", "9.3", "9.2", "4.611686018427388", "18.446744073709552"})
		return pick3(r) + m + e() + strconv.Itoa(18-d+r.Intn(3)-1)
	case 4: // at the edge of the 128-bit range: 1.70141183460469231731687303715884105727e(38-D)
		m := hx.Pick(r, []string{"1.7014118346046923", "1.7014118346046924", "1.7014118346046922", "1.70141183460469231731687303715884105727",
			"1.70141183460469231731687303715884105728", "1.8", "1.7", "3.4028236692093846"})
		return pick3(r) + m + e() + strconv.Itoa(38-d+r.Intn(3)-1)
	case 5: // long mantissas (more than the 19 digits of the fast path, more than 800 digits of the slow path)
		n := hx.Pick(r, []int{17, 18, 19, 20, 21, 40, 100, 770, 800, 801, 1100})
		s := pick3(r) + strconv.Itoa(1+r.Intn(9)) + digits(r, r.Intn(3)) + "." + digits(r, n)
		return s + e() + hx.Pick(r, []string{"", "+", "-"}) + strconv.Itoa(r.Intn(12))
	case 6: // mantissa of leading / trailing zeros with a compensating exponent
		n := hx.Pick(r, []int{1, 5, 20, 30, 300, 330, 400})
		if r.Bool() {
			return pick3(r) + "0." + strings.Repeat("0", n) + strconv.Itoa(1+r.Intn(99)) + e() + strconv.Itoa(n+r.Intn(5))
		}
		return pick3(r) + strconv.Itoa(1+r.Intn(99)) + strings.Repeat("0", n) + e() + "-" + strconv.Itoa(n+r.Intn(5)-2)
	case 7: // negative exponents: values below one unit of the last place, truncation of the product
		s := pick3(r) + strconv.Itoa(1+r.Intn(9999))
		if r.Bool() {
			s += "." + digits(r, r.Intn(6))
		}
		return s + e() + "-" + strconv.Itoa(r.Intn(d+6))
	case 8: // exactly representable small numbers (k·2^-j) with an exponent: exact results
		k := r.Intn(4)
		return pick3(r) + hx.Pick(r, []string{"5", "25", "125", "75", "375", "1", "2", "15"}) + e() + hx.Pick(r, []string{"-", ""}) + strconv.Itoa(k)
	case 9: // exponent digits: saturation of the accumulator, leading zeros, many digits
		ex := hx.Pick(r, []string{"9999", "10000", "10001", "99999", "100000", "0009", "00000000000000000000", "4294967296", "18446744073709551616"})
		return pick3(r) + hx.Pick(r, []string{"1", "0", "0.0", "1.5", "0.000001"}) + e() + hx.Pick(r, []string{"", "+", "-"}) + ex
	case 10: // the families outside the model, and near misses of them
		return pick3(r) + hx.Pick(r, []string{"0x", "0X", "0", "x", "0_", "_", "1_"}) + digits(r, 1+r.Intn(3)) + hx.Pick(r, []string{"e", "E", "ep1", "eP-1", "p1e", "e1_0", "e_1"}) + digits(r, r.Intn(2))
	case 11: // separators inside an exponent literal (removed before the dispatch)
		s := group(strconv.Itoa(1+r.Intn(9))+digits(r, 3+r.Intn(6))) + e() + hx.Pick(r, []string{"", "+", "-"}) + strconv.Itoa(r.Intn(9))
		if r.Bool() {
			i := r.Intn(len(s) + 1)
			s = s[:i] + "," + s[i:]
		}
		return pick3(r) + s
	case 12: // hexadecimal floats (the 'e' is a mantissa digit): short and long mantissas (strconv keeps 16 hex digits and a
		// sticky bit), fractions, exponents at both ends of the float64 range, products at the edge of int64 / int128
		m := hexDigits(r, hx.Pick(r, []int{0, 1, 2, 3, 8, 13, 14, 15, 16, 17, 18, 30}))
		i := r.Intn(len(m) + 1)
		m = m[:i] + e() + m[i:]
		if r.Chance(1, 3) {
			m += "." + hexDigits(r, r.Intn(6))
		} else if r.Chance(1, 8) {
			m = "." + m
		}
		ex := strconv.Itoa(r.Intn(70))
		switch r.Intn(6) {
		case 0:
			ex = strconv.Itoa(hx.Pick(r, []int{960, 1000, 1015, 1019, 1020, 1023, 1024, 1070, 1074, 1075, 1080, 1130, 10000, 99999}))
		case 1: // value * 10^D near 2^63 resp. 2^127
			ex = strconv.Itoa(hx.Pick(r, []int{63, 127}) - 4*(len(m)-1) - int(float64(d)*3.33) + r.Intn(5) - 2)
		}
		s := pick3(r) + hx.Pick(r, []string{"0x", "0X"}) + m + hx.Pick(r, []string{"p", "P"}) + hx.Pick(r, []string{"", "+", "-"}) + ex
		if r.Chance(1, 4) { // an underscore somewhere (allowed only between digits or behind the prefix)
			i := r.Intn(len(s) + 1)
			s = s[:i] + "_" + s[i:]
		}
		if r.Chance(1, 10) { // malformed neighbours: no exponent, no digit behind p, two dots
			s = hx.Pick(r, []string{strings.Replace(s, "p", "", 1), s + "p", strings.Replace(s, "p", "p.", 1), s + ".", s + "e1"})
		}
		return s
	case 13: // underscores in decimal exponent literals: between digits (accepted) and everywhere else (rejected)
		s := pick3(r) + strconv.Itoa(1+r.Intn(9)) + digits(r, 1+r.Intn(5))
		if r.Bool() {
			s += "." + digits(r, 1+r.Intn(d+2))
		}
		s += e() + hx.Pick(r, []string{"", "+", "-"}) + strconv.Itoa(r.Intn(30))
		for n := 1 + r.Intn(2); n > 0; n-- {
			i := r.Intn(len(s) + 1)
			s = s[:i] + "_" + s[i:]
		}
		return s
	default:
		s := pick3(r) + digits(r, 1+r.Intn(4))
		if r.Bool() {
			s += "." + digits(r, r.Intn(d+3))
		}
		return s + e() + hx.Pick(r, []string{"", "+", "-"}) + strconv.Itoa(r.Intn(25))
	}
}

func hexDigits(r *hx.Rng, n int) string {
	var sb strings.Builder
	for i := 0; i < n; i++ {
		sb.WriteByte("0123456789abcdefABCDEF"[r.Intn(22)])
	}
	return sb.String()
}

func (expArea) Gen(r *hx.Rng, n int, _ string, emit func(string)) {
	for i := 0; i < n; i++ {
		d := 1 + r.Intn(16)
		ty, _ := pickTy(r)
		emit("exp " + ty + " " + strconv.Itoa(d) + " " + hx.Hex([]byte(genExpLit(r, d))))
	}
}
