package main

import (
	"encoding/json"
	"fmt"
	"math"
	"math/big"
	"regexp"
	"strconv"
	"strings"
	"time"

	"github.com/richardwilkes/toolbox/txt"
	"github.com/richardwilkes/toolbox/xmath/fixed"
	"github.com/richardwilkes/toolbox/xmath/fixed/f128"
	"github.com/richardwilkes/toolbox/xmath/fixed/f64"
	"verifharness/hx"
)

// ---------------------------------------------------------------------------------------------------------------
// guard: a per-line deadline, so that a looping implementation costs seconds, not the stream's time-out.  After three
// hangs the rest of the stream is answered with the token the framework ignores.

type guard struct {
	hx.Area
	hangs int
}

const lineDeadline = 2500 * time.Millisecond

func (g *guard) Run(line string) string {
	if g.hangs >= 3 {
		return "skipped-after-crash"
	}
	ch := make(chan string, 1)
	go func() {
		defer func() {
			if r := recover(); r != nil {
				ch <- "panic"
			}
		}()
		ch <- g.Area.Run(line)
	}()
	select {
	case out := <-ch:
		return out
	case <-time.After(lineDeadline):
		g.hangs++
		return "hang"
	}
}

// ---------------------------------------------------------------------------------------------------------------
// miscArea: implementation-side oracles for the remaining entry points of the anchored files:
//   commaf <float64 bits>      txt.Comma of a float64 / float32 against an independent grouping of fmt's %v text
//   frac <ty> <D> <num> <den>  Fraction (den > 0): String / StringWithSign / MarshalJSON / UnmarshalJSON are compositions
//                              of the Int renderings that the model checks

type miscArea struct{}

var plainNumber = regexp.MustCompile(`^-?[0-9]+(\.[0-9]+)?$`)

// ownComma is written independently of txt.CommaFromStringNum: group the integer digits from the right.
func ownComma(s string) string {
	sign := ""
	if strings.HasPrefix(s, "-") {
		sign, s = "-", s[1:]
	}
	ip, rest := s, ""
	if i := strings.IndexByte(s, '.'); i >= 0 {
		ip, rest = s[:i], s[i:]
	}
	var out []byte
	for i := 0; i < len(ip); i++ {
		if i > 0 && (len(ip)-i)%3 == 0 {
			out = append(out, ',')
		}
		out = append(out, ip[i])
	}
	return sign + string(out) + rest
}

func (miscArea) Run(line string) string {
	f := strings.Fields(line)
	if len(f) == 2 && f[0] == "commaf" {
		bits, err := strconv.ParseUint(f[1], 16, 64)
		if err != nil {
			return "bad-op"
		}
		v := math.Float64frombits(bits)
		got := txt.Comma(v)
		got32 := txt.Comma(float32(v))
		t64, t32 := fmt.Sprintf("%v", v), fmt.Sprintf("%v", float32(v))
		if plainNumber.MatchString(t64) && got != ownComma(t64) {
			return "FAIL txt.Comma(float64 " + t64 + ") = " + got
		}
		if plainNumber.MatchString(t32) && got32 != ownComma(t32) {
			return "FAIL txt.Comma(float32 " + t32 + ") = " + got32
		}
		if strings.ReplaceAll(got, ",", "") != t64 || strings.ReplaceAll(got32, ",", "") != t32 {
			return "FAIL txt.Comma changed more than separators: " + got + " / " + got32
		}
		return "ok commaf"
	}
	if len(f) == 5 && f[0] == "frac" {
		_, t := getCfg(f[2], f[1])
		if t == nil {
			return "bad-op"
		}
		if l := t.frac(parseRaw(f[3]), parseRaw(f[4])); l != "" {
			return "FAIL Fraction " + l
		}
		return "ok frac"
	}
	return "bad-op"
}

type fracLike interface {
	comparable
	String() string
	StringWithSign() string
	MarshalJSON() ([]byte, error)
}

// fracCheck: fr has numerator n and a POSITIVE denominator d (no normalisation involved); one is the value 1.
func fracCheck[F fracLike, PF interface {
	*F
	UnmarshalJSON([]byte) error
}, V fxv](fr F, n, d, one V, other F) string {
	want, wantS := n.String(), n.StringWithSign()
	if d != one {
		want += "/" + d.String()
		wantS += "/" + d.String()
	}
	if got := fr.String(); got != want {
		return "String " + got + " want " + want
	}
	if got := fr.StringWithSign(); got != wantS {
		return "StringWithSign " + got + " want " + wantS
	}
	mj, err := fr.MarshalJSON()
	wj, _ := json.Marshal(want) //nolint:errcheck // a string always marshals
	if err != nil || string(mj) != string(wj) {
		return "MarshalJSON " + string(mj)
	}
	back := other
	if PF(&back).UnmarshalJSON(mj) != nil || back != fr {
		return "UnmarshalJSON(MarshalJSON) is not the identity for " + want
	}
	lb, err := json.Marshal([]F{fr, fr})
	if err != nil {
		return "json.Marshal of a slice"
	}
	var l []F
	if json.Unmarshal(lb, &l) != nil || len(l) != 2 || l[0] != fr || l[1] != fr {
		return "json slice round trip for " + want
	}
	return ""
}

func frac64[T fixed.Dx]() func(n, d *big.Int) string {
	return func(n, d *big.Int) string {
		if !n.IsInt64() || !d.IsInt64() || d.Sign() <= 0 {
			return "" // outside the domain of this oracle (no normalisation, no wrap-around)
		}
		nn, dd := f64.Int[T](n.Int64()), f64.Int[T](d.Int64())
		var t T
		other := f64.Fraction[T]{Numerator: 7, Denominator: 9}
		return fracCheck[f64.Fraction[T], *f64.Fraction[T], f64.Int[T]](f64.Fraction[T]{Numerator: nn, Denominator: dd},
			nn, dd, f64.Int[T](t.Multiplier()), other)
	}
}

func frac128[T fixed.Dx]() func(n, d *big.Int) string {
	return func(n, d *big.Int) string {
		if d.Sign() <= 0 || d.Cmp(max128) > 0 || n.Cmp(max128) > 0 || n.Cmp(min128) < 0 {
			return "" // outside the domain of this oracle
		}
		nn, dd := mk128[T](n), mk128[T](d)
		var t T
		other := f128.Fraction[T]{Numerator: mk128[T](big.NewInt(7)), Denominator: mk128[T](big.NewInt(9))}
		return fracCheck[f128.Fraction[T], *f128.Fraction[T], f128.Int[T]](f128.Fraction[T]{Numerator: nn, Denominator: dd},
			nn, dd, mk128[T](big.NewInt(t.Multiplier())), other)
	}
}

func (miscArea) Gen(r *hx.Rng, n int, _ string, emit func(string)) {
	for i := 0; i < n; i++ {
		if r.Chance(1, 3) {
			var v float64
			switch r.Intn(6) {
			case 0:
				v = float64(int64(r.U64()>>uint(r.Intn(64)))) * hx.Pick(r, []float64{1, -1})
			case 1:
				v = float64(r.Intn(2000000)-1000000) / hx.Pick(r, []float64{1, 2, 4, 8, 10, 100, 1000})
			case 2:
				v = hx.Pick(r, []float64{0, math.Copysign(0, -1), 1, -1, 999, 1000, -1000, 999999, 1e6, 1e20, 1e21, -1e21, 1e-5, 123456789.125,
					math.MaxFloat64, math.SmallestNonzeroFloat64, math.Inf(1), math.Inf(-1), math.NaN(), math.MaxFloat32, 1 << 53, 1<<53 + 2})
			default:
				v = math.Float64frombits(r.U64())
			}
			emit("commaf " + strconv.FormatUint(math.Float64bits(v), 16))
			continue
		}
		d := 1 + r.Intn(16)
		ty, wide := pickTy(r)
		num := genRaw(r, d, wide)
		var den *big.Int
		switch r.Intn(5) {
		case 0:
			den = pow10(d) // the value 1: no "/den"
		case 1:
			den = new(big.Int).Mul(big.NewInt(int64(1+r.Intn(999))), pow10(d))
		default:
			den = new(big.Int).Abs(genRaw(r, d, wide))
		}
		den = clamp(den, wide)
		if den.Sign() == 0 {
			den = big.NewInt(1)
		}
		emit("frac " + ty + " " + strconv.Itoa(d) + " " + num.String() + " " + den.String())
	}
}

// ---------------------------------------------------------------------------------------------------------------
// fltmArea: the float branch against the Lean model (Model/FixedTextFloat.lean):
//   pf <bits> <hex text>        strconv.ParseFloat(text, bits) of a decimal text     -> bit pattern
//   ff <bits> <hex bit pattern> strconv.FormatFloat(x, 'f', -1, bits)                -> text
//   cfm <ty> <D> <raw> <bits>   As and CheckedAs to float32 / float64                -> bit patterns / nofit / wrong-error
//   pfx <hex text>              strconv.ParseFloat(text, 64) of ANY text (special values, exponent, hexadecimal and
//                               underscore grammars: Model/FixedTextExp.lean `parseFloatAny`)  -> bit pattern / err

type fltmArea struct{}

func bitsHex(v float64, bits int) string {
	if bits == 32 {
		return strconv.FormatUint(uint64(math.Float32bits(float32(v))), 16)
	}
	return strconv.FormatUint(math.Float64bits(v), 16)
}

func (fltmArea) Run(line string) string {
	f := strings.Fields(line)
	switch {
	case len(f) == 3 && f[0] == "pf":
		bits := hx.Atoi(f[1])
		v, _ := strconv.ParseFloat(string(hx.UnHex(f[2])), bits) //nolint:errcheck // the value is what CheckedAs uses
		return bitsHex(v, bits)
	case len(f) == 2 && f[0] == "pfx":
		text := string(hx.UnHex(f[1]))
		body := strings.TrimLeft(text, "+-")
		if len(text)-len(body) > 1 {
			body = text[1:]
		}
		if !isExp(text) && (body == "" || !strings.ContainsRune("iInN", rune(body[0]))) {
			return "n/a" // plain decimals without an exponent belong to op `pf`
		}
		if isExp(text) && longMantissa(text) {
			return "long"
		}
		v, err := strconv.ParseFloat(text, 64)
		if err != nil {
			return "err"
		}
		if math.IsNaN(v) {
			return "7ff8000000000000" // any NaN: the model has one
		}
		return bitsHex(v, 64)
	case len(f) == 3 && f[0] == "ff":
		bits := hx.Atoi(f[1])
		u, err := strconv.ParseUint(f[2], 16, 64)
		if err != nil {
			return "bad-op"
		}
		var v float64
		if bits == 32 {
			v = float64(math.Float32frombits(uint32(u)))
		} else {
			v = math.Float64frombits(u)
		}
		return hx.Hex([]byte(strconv.FormatFloat(v, 'f', -1, bits)))
	case len(f) == 5 && f[0] == "cfm":
		_, t := getCfg(f[2], f[1])
		if t == nil {
			return "bad-op"
		}
		fn := t.asFloat[f[4]]
		if fn == nil {
			return "bad-op"
		}
		got := fn(parseRaw(f[3]))
		out := bitsHex(got.as, got.bits)
		if got.ok {
			return out + " ok:" + bitsHex(got.v, got.bits)
		}
		if got.wrongErr {
			return out + " wrong-error"
		}
		return out + " nofit"
	}
	return "bad-op"
}

func (fltmArea) Gen(r *hx.Rng, n int, _ string, emit func(string)) {
	for i := 0; i < n; i++ {
		switch r.Intn(6) {
		case 0: // ParseFloat of decimal texts: 0-40 digits on either side, signs, leading/trailing zeros
			s := pick3(r)
			ip := digits(r, r.Intn(hx.Pick(r, []int{1, 3, 10, 20, 41})))
			fp := digits(r, r.Intn(hx.Pick(r, []int{1, 3, 10, 20, 41})))
			if r.Chance(1, 4) {
				ip = strings.Repeat("0", r.Intn(4)) + ip
			}
			if r.Chance(1, 4) {
				fp += strings.Repeat("0", r.Intn(4))
			}
			if ip == "" && fp == "" {
				ip = "0"
			}
			s += ip
			if fp != "" || r.Chance(1, 8) {
				s += "." + fp
			}
			emit("pf " + hx.Pick(r, []string{"32", "64"}) + " " + hx.Hex([]byte(s)))
		case 1: // FormatFloat of arbitrary bit patterns (both widths), and of values with few digits
			if r.Bool() {
				u := uint32(r.U64())
				if r.Chance(1, 3) {
					u = math.Float32bits(float32(r.Intn(100000)) / float32(hx.Pick(r, []int{1, 2, 4, 8, 10, 100, 1000, 3, 7})))
				}
				emit("ff 32 " + strconv.FormatUint(uint64(u), 16))
			} else {
				u := r.U64()
				if r.Chance(1, 3) {
					u = math.Float64bits(float64(r.Intn(10000000)) / float64(hx.Pick(r, []int{1, 2, 4, 8, 10, 100, 1000, 3, 7, 1 << 20})))
				}
				if r.Chance(1, 10) {
					u = math.Float64bits(math.Ldexp(1, r.Intn(200)-100)) + uint64(r.Intn(3)) - 1
				}
				emit("ff 64 " + strconv.FormatUint(u, 16))
			}
		case 2: // ParseFloat of any text: the special values and their neighbours, and the texts of the exponent branch
			var s string
			if r.Bool() {
				s = hx.Pick(r, []string{"nan", "NaN", "NAN", "nAn", "+nan", "-nan", "nan ", "nane5", "na", "n", "nanx", "inf", "Inf", "INF", "+inf", "-inf",
					"-Inf", "+INF", "infinity", "Infinity", "INFINITY", "+Infinity", "-infinity", "iNfInItY", "infi", "infin", "infini", "infinit",
					"infinityx", "infinity1", "-infinit", "+infi", "infe", "infe5", "-infE", "in", "i", "+i", "+", "-", "", "++inf", "+-inf", "inff", "inf_",
					"1e999", "-1e999", "1e308", "1.8e308", "1e-999", "0x1p1024", "0x1p-1080", "1e", "e", "E5", ".e1", "1_0", "0x1p0", "0x", "0x_1p0", "1p5"})
				if r.Chance(1, 4) { // random case
					b := []byte(s)
					for i := range b {
						if r.Bool() && b[i] >= 'a' && b[i] <= 'z' {
							b[i] -= 32
						}
					}
					s = string(b)
				}
			} else {
				s = genExpLit(r, 1+r.Intn(16))
			}
			emit("pfx " + hx.Hex([]byte(s)))
		default:
			emit(genFloatCase(r, "cfm"))
		}
	}
}
