package main

import (
	"math"
	"strconv"
	"strings"

	"verifharness/hx"
)

// Generator of the `bitset` area.  A stream is a sequence of histories (each starts with `reset`).  About half of the
// histories are free mixes of every operation; the others follow one of the shapes of tools/HARDENING.md: drain and
// regrow, the only element, the same element twice, sparse sets probed around empty words, dense sets probed for clear
// bits, aliasing after Clone/Copy/Data/Load (both directions, after growth and after Trim), capacity thresholds, reset
// and reuse, Load of every size class, large indexes.

var boundary = []int{0, 1, 62, 63, 64, 65, 127, 128, 129, 191, 192}

// word counts around which growth policies and fast paths change
var wordSizes = []int{1, 2, 3, 4, 8, 12, 16, 17, 32, 33, 64, 65}

// indexes that cost nothing to query but cannot be stored (the storage is index/64 words)
var hugeQuery = []int{1 << 20, 1<<31 - 1, 1 << 31, 1<<32 - 1, 1 << 32, 1<<32 + 1, math.MaxInt/2 - 1, math.MaxInt / 2,
	math.MaxInt/2 + 1, 1 << 62, math.MaxInt - 64, math.MaxInt - 63, math.MaxInt - 1, math.MaxInt}

var rangeLens = []int{0, 1, 62, 63, 64, 65, 127, 128, 129, 4095, 4096, 4097}

var it = strconv.Itoa

// index draws a storable index: boundary bits, first/last bit of a word at a size threshold, powers of two and their
// neighbours, a small dense window, or anything below `scale`.
func index(r *hx.Rng, scale int) int {
	switch r.Intn(14) {
	case 0, 1, 2:
		return hx.Pick(r, boundary)
	case 3, 4:
		w := r.Intn(scale/64 + 1)
		return max(0, w*64+r.Range(-2, 2))
	case 5, 6:
		return r.Intn(min(scale, 260))
	case 7:
		return max(0, hx.Pick(r, wordSizes)*64+hx.Pick(r, []int{-65, -64, -2, -1, 0, 1, 63, 64}))
	case 8:
		return max(0, (1<<uint(r.Range(0, 12)))+r.Range(-1, 1))
	case 9:
		return hx.Pick(r, []int{9, 10, 11, 99, 100, 101, 999, 1000, 1001})
	default:
		return r.Intn(scale)
	}
}

// qindex draws an index for calls that never allocate (State, Clear, the searches, the far end of ClearRange).
func qindex(r *hx.Rng, scale int) int {
	if r.Chance(1, 10) {
		return hx.Pick(r, hugeQuery)
	}
	return index(r, scale+130)
}

// genRange returns an ordered range; the caller decides about reversal and about reaching beyond the capacity.
func genRange(r *hx.Rng, scale int) (int, int) {
	var s, e int
	switch r.Intn(10) {
	case 0: // inside one word
		w := r.Intn(scale / 64)
		s = w*64 + r.Intn(64)
		e = w*64 + r.Intn(64)
	case 1, 2: // spanning three or more words, ends on boundary bits
		w := r.Intn(max(1, scale/64-4))
		s = w*64 + hx.Pick(r, []int{0, 1, 31, 62, 63})
		e = (w+2+r.Intn(3))*64 + hx.Pick(r, []int{0, 1, 31, 62, 63})
	case 3: // whole words exactly
		w := r.Intn(max(1, scale/64-3))
		s = w * 64
		e = (w+1+r.Intn(3))*64 - 1
	case 4: // two words
		w := r.Intn(max(1, scale/64-1))
		s = w*64 + r.Intn(64)
		e = (w+1)*64 + r.Intn(64)
	case 5: // single index
		s = index(r, scale)
		e = s
	case 6, 7: // a length from the list, from a boundary start
		s = index(r, scale)
		e = s + hx.Pick(r, rangeLens)
	default:
		s = index(r, scale)
		e = index(r, scale)
	}
	if s > e {
		s, e = e, s
	}
	return s, e
}

func rangeOp(r *hx.Rng, op, R string, scale int) string {
	s, e := genRange(r, scale)
	if r.Chance(1, 4) { // reach beyond the capacity (all three forms, both argument orders)
		e += 64 * r.Range(1, 70)
	}
	if op == "clrr" && r.Chance(1, 8) { // clearing never allocates: the far end may be anything
		e = hx.Pick(r, hugeQuery)
	}
	if r.Chance(1, 3) {
		s, e = e, s
	}
	return op + " " + R + " " + it(s) + " " + it(e)
}

func genWordList(r *hx.Rng, n int) []uint64 {
	ws := make([]uint64, 0, n+4)
	for i := 0; i < n; i++ {
		switch r.Intn(6) {
		case 0:
			ws = append(ws, 0)
		case 1:
			ws = append(ws, ^uint64(0))
		case 2:
			ws = append(ws, uint64(1)<<uint(hx.Pick(r, []int{0, 1, 31, 32, 62, 63, r.Intn(64)})))
		case 3:
			ws = append(ws, ^(uint64(1) << uint(r.Intn(64))))
		default:
			ws = append(ws, r.U64())
		}
	}
	// trailing zero words: none, an odd or an even number
	for i, z := 0, hx.Pick(r, []int{0, 0, 1, 2, 3, 4}); i < z; i++ {
		ws = append(ws, 0)
	}
	return ws
}

func genWords(r *hx.Rng) string {
	var n int
	switch r.Intn(8) {
	case 0:
		n = 0 // nothing but (possibly) zero words: the empty set
	case 1:
		n = hx.Pick(r, []int{12, 16, 17, 32, 33, 64, 65, 128, 129})
	default:
		n = r.Range(1, 6)
	}
	return wordsStr(genWordList(r, n))
}

func other(R string) string {
	if R == "B" {
		return "A"
	}
	return "B"
}

// query emits one read-only line.
func query(r *hx.Rng, R string, scale int) string {
	switch r.Intn(12) {
	case 0:
		return "state " + R + " " + it(qindex(r, scale))
	case 1:
		return "count " + R
	case 2:
		return hx.Pick(r, []string{"first ", "last "}) + R
	case 3, 4:
		return "next " + R + " " + it(qindex(r, scale))
	case 5, 6:
		return "prev " + R + " " + it(qindex(r, scale))
	case 7, 8:
		return "nextclr " + R + " " + it(qindex(r, scale))
	case 9, 10:
		return "prevclr " + R + " " + it(qindex(r, scale))
	default:
		return "mem " + R
	}
}

// inPlace emits a mutation that stays inside the first words (no reallocation when the storage is non-empty).
func inPlace(r *hx.Rng, R string) string {
	i := r.Intn(64)
	switch r.Intn(5) {
	case 0:
		return "set " + R + " " + it(i)
	case 1:
		return "clr " + R + " " + it(i)
	case 2:
		return "flipr " + R + " " + it(r.Intn(64)) + " " + it(r.Intn(64))
	case 3:
		return "setr " + R + " " + it(r.Intn(64)) + " " + it(r.Intn(64))
	default:
		return "flip " + R + " " + it(i)
	}
}

func free(r *hx.Rng, scale int, emit func(string)) {
	steps := r.Range(8, 40)
	for k := 0; k < steps; k++ {
		R := hx.Pick(r, []string{"A", "A", "B"})
		O := other(R)
		var l string
		switch r.Intn(46) {
		case 0, 1, 2, 3:
			l = "set " + R + " " + it(index(r, scale))
		case 4, 5:
			l = "clr " + R + " " + it(qindex(r, scale))
		case 6, 7:
			l = "flip " + R + " " + it(index(r, scale))
		case 8, 9, 10:
			l = rangeOp(r, "setr", R, scale)
		case 11, 12, 13:
			l = rangeOp(r, "clrr", R, scale)
		case 14, 15, 16:
			l = rangeOp(r, "flipr", R, scale)
		case 17:
			if r.Chance(1, 6) {
				l = "loadnil " + R
			} else {
				l = "load " + R + " " + genWords(r)
			}
		case 18, 19:
			l = "copy " + R + " " + O
		case 20:
			l = "clone " + R + " " + O
		case 21, 22:
			l = "trim " + R
		case 23, 24:
			l = "ensure " + R + " " + it(hx.Pick(r, []int{0, 1, 2, 3, 4, 5, 7, 8, 9, 10, 11, 12, 16, 17, 32, 33, 64, 65,
				-1, math.MinInt, r.Intn(70)}))
		case 25:
			if r.Chance(1, 2) {
				l = "rst " + R
			} else {
				l = "loaddata " + R + " " + O
			}
		case 26:
			l = "data " + R
		case 27, 28, 29, 30, 31, 32, 33, 34, 35, 36, 37:
			l = query(r, R, scale)
		case 38, 39:
			l = "equal"
		case 40:
			l = hx.Pick(r, []string{"equalnil ", "equalself ", "mem ", "mem "}) + R
		case 41:
			l = "loaddata " + R + " " + R
		case 42:
			l = hx.Pick(r, []string{"clone ", "copy ", "copy "}) + R + " " + R
		default:
			l = "obs " + R
		}
		emit(l)
		// after a copy, perturb one side and look at the other: Equal must not see capacities, storage must not be shared
		if strings.HasPrefix(l, "copy") || strings.HasPrefix(l, "clone") {
			switch r.Intn(5) {
			case 0:
				emit("ensure " + R + " " + it(r.Range(1, 40)))
			case 1:
				emit("trim " + O)
			case 2:
				emit(inPlace(r, R))
				emit("mem " + O)
			case 3:
				emit(inPlace(r, O))
				emit("mem " + R)
			}
			emit("equal")
		}
	}
}

// build puts some content into R: a few bits, a range, or loaded words; `top` bounds the indexes.
func build(r *hx.Rng, R string, top int, emit func(string)) {
	switch r.Intn(4) {
	case 0:
		for i, n := 0, r.Range(1, 5); i < n; i++ {
			emit("set " + R + " " + it(r.Intn(top)))
		}
	case 1:
		s, e := r.Intn(top), r.Intn(top)
		emit("setr " + R + " " + it(s) + " " + it(e))
	case 2:
		emit("load " + R + " " + wordsStr(genWordList(r, r.Range(1, max(1, top/64)))))
	default:
		emit("setr " + R + " 0 " + it(top-1))
		emit("clr " + R + " " + it(r.Intn(top)))
	}
}

func shaped(r *hx.Rng, emit func(string)) {
	R := hx.Pick(r, []string{"A", "B"})
	O := other(R)
	switch r.Intn(11) {
	case 0: // drain to empty and regrow
		n := hx.Pick(r, []int{1, 63, 64, 65, 128, 129, 200, 1000})
		emit("setr " + R + " 0 " + it(n-1))
		switch r.Intn(3) {
		case 0:
			emit("clrr " + R + " " + it(n+r.Intn(200)) + " 0")
		case 1:
			emit("flipr " + R + " 0 " + it(n-1))
		default:
			emit("clrr " + R + " 0 " + it(n/2))
			emit("clrr " + R + " " + it(n/2) + " " + it(n-1))
		}
		emit("obs " + R)
		emit("equal")
		emit("next " + R + " 0")
		emit("prev " + R + " " + it(n))
		emit("nextclr " + R + " 0")
		emit("prevclr " + R + " " + it(n))
		emit("set " + R + " " + it(r.Intn(n)))
		emit("flip " + R + " " + it(n+r.Intn(70)))
		emit("obs " + R)
	case 1: // the only element: add it, find it from everywhere, remove it
		x := index(r, 1100)
		emit(hx.Pick(r, []string{"set ", "flip "}) + R + " " + it(x))
		for _, q := range []string{"next", "prev", "nextclr", "prevclr"} {
			for _, d := range []int{-1, 0, 1} {
				emit(q + " " + R + " " + it(max(0, x+d)))
			}
		}
		emit("first " + R)
		emit("last " + R)
		emit("next " + R + " 0")
		emit("prev " + R + " " + it(hx.Pick(r, hugeQuery)))
		emit(hx.Pick(r, []string{"clr ", "flip "}) + R + " " + it(x))
		emit("obs " + R)
		emit("equal")
		emit("last " + R)
		emit("prevclr " + R + " " + it(x))
	case 2: // the same element twice
		x := index(r, 520)
		for _, op := range []string{"set", "set", "clr", "clr", "flip", "flip", "set", "flip", "clr"} {
			emit(op + " " + R + " " + it(x))
		}
		emit("setr " + R + " " + it(x) + " " + it(x))
		emit("setr " + R + " " + it(x) + " " + it(x))
		emit("flipr " + R + " " + it(x) + " " + it(x))
		emit("clrr " + R + " " + it(x) + " " + it(x))
		emit("clrr " + R + " " + it(x) + " " + it(x))
		emit("obs " + R)
	case 3: // sparse: members far apart, probes in the empty words between them and at word ends
		var xs []int
		x := r.Intn(64)
		for i, n := 0, r.Range(1, 4); i < n; i++ {
			xs = append(xs, x)
			emit("set " + R + " " + it(x))
			x += 64*r.Range(1, 4) + r.Range(-40, 40)
			if x < 0 {
				x = 0
			}
		}
		if r.Bool() {
			emit("ensure " + R + " " + it(x/64+r.Range(1, 6)))
		}
		for i := 0; i < 14; i++ {
			w := r.Intn(x/64 + 2)
			p := w*64 + hx.Pick(r, []int{0, 1, 10, 40, 62, 63, r.Intn(64)})
			emit(hx.Pick(r, []string{"next ", "next ", "prev ", "prev ", "nextclr ", "prevclr "}) + R + " " + it(p))
		}
		for _, y := range xs {
			emit("prev " + R + " " + it(y|63))
			emit("next " + R + " " + it(y&^63))
		}
	case 4: // dense: long runs with a few holes, probes for clear bits at word ends
		n := hx.Pick(r, []int{64, 128, 192, 256, 320, 1024})
		emit("setr " + R + " 0 " + it(n-1))
		for i, k := 0, r.Intn(3); i < k; i++ {
			emit("clr " + R + " " + it(hx.Pick(r, []int{0, 63, 64, 127, n - 1, n - 64, r.Intn(n)})))
		}
		if r.Bool() {
			emit("ensure " + R + " " + it(n/64+r.Range(1, 5)))
		}
		for i := 0; i < 12; i++ {
			w := r.Intn(n/64 + 2)
			p := w*64 + hx.Pick(r, []int{0, 1, 62, 63, r.Intn(64)})
			emit(hx.Pick(r, []string{"nextclr ", "nextclr ", "prevclr ", "prevclr ", "next ", "prev "}) + R + " " + it(p))
		}
		emit("prevclr " + R + " " + it(hx.Pick(r, hugeQuery)))
		emit("nextclr " + R + " " + it(hx.Pick(r, hugeQuery)))
	case 5, 6: // aliasing after Clone / Copy / Data / Load, after growth and after Trim, both directions
		build(r, O, hx.Pick(r, []int{64, 128, 200, 520}), emit)
		switch r.Intn(4) {
		case 0:
			emit("trim " + O) // no spare words
		case 1:
			emit("ensure " + O + " " + it(r.Range(2, 20))) // spare words
		case 2:
			emit("data " + O)
		}
		if r.Chance(1, 3) { // the destination held more before
			emit("set " + R + " " + it(r.Range(200, 900)))
			if r.Bool() {
				emit("setr " + R + " 0 " + it(r.Range(100, 900)))
			}
		}
		if r.Chance(1, 3) { // a set copied onto itself (with or without spare words) stays what it is
			emit("copy " + O + " " + O)
		}
		emit(hx.Pick(r, []string{"copy ", "clone ", "loaddata "}) + R + " " + O)
		emit("equal")
		if r.Chance(1, 3) {
			emit("copy " + R + " " + R)
			emit("equal")
		}
		for i, k := 0, r.Range(1, 4); i < k; i++ {
			X := hx.Pick(r, []string{R, O})
			switch r.Intn(6) {
			case 0:
				emit("set " + X + " " + it(r.Range(64, 900))) // grow again (stale words must not come back)
			case 1:
				emit("ensure " + X + " " + it(r.Range(1, 20)))
			case 2:
				emit("trim " + X)
			default:
				emit(inPlace(r, X))
			}
			emit("mem " + other(X))
			emit("count " + other(X))
		}
		emit("equal")
		emit("obs " + R)
		emit("obs " + O)
	case 7: // capacity thresholds: ask for exactly / one more than / twice what is there, then touch the edge words
		w := hx.Pick(r, wordSizes)
		emit("ensure " + R + " " + it(w))
		emit("set " + R + " " + it(w*64-1))
		emit("set " + R + " " + it(w*64))
		emit("last " + R)
		emit("nextclr " + R + " " + it(w*64-1))
		emit("ensure " + R + " " + it(hx.Pick(r, []int{w, w + 1, 2 * w, 2*w + 1, 2*w + 2, 3 * w, 0, -1})))
		emit("flipr " + R + " " + it(w*64-2) + " " + it((2*w+1)*64+1))
		if r.Bool() {
			emit("copy " + R + " " + R)
		}
		emit("copy " + O + " " + R)
		emit("trim " + hx.Pick(r, []string{R, O}))
		emit("equal")
		emit("clrr " + R + " " + it((2*w+1)*64) + " " + it(hx.Pick(r, hugeQuery)))
		emit("obs " + R)
		emit("equal")
	case 8: // reset and reuse
		build(r, R, hx.Pick(r, []int{64, 200, 520}), emit)
		emit("copy " + O + " " + R)
		emit("rst " + R)
		emit("equal")
		if r.Bool() {
			emit("copy " + R + " " + R)
		}
		emit("obs " + R)
		emit("mem " + O)
		switch r.Intn(4) {
		case 0:
			emit("set " + R + " " + it(r.Intn(64)))
		case 1:
			emit("flipr " + R + " " + it(r.Intn(300)) + " " + it(r.Intn(300)))
		case 2:
			emit("load " + R + " " + genWords(r))
		default:
			emit("ensure " + R + " " + it(r.Range(1, 9)))
			emit("clr " + R + " 3")
		}
		emit("obs " + R)
		emit("rst " + R)
		emit("rst " + R)
		emit("count " + R)
		emit("loaddata " + R + " " + O)
		emit("equal")
	case 9: // Load: every size class, the empty set into a non-empty receiver, then Load(Data())
		build(r, R, hx.Pick(r, []int{64, 200}), emit)
		switch r.Intn(5) {
		case 0:
			emit("loadnil " + R)
		case 1:
			emit("load " + R + " -")
		case 2:
			emit("load " + R + " " + wordsStr(make([]uint64, r.Range(1, 5))))
		case 3:
			emit("load " + R + " " + wordsStr(genWordList(r, hx.Pick(r, []int{12, 16, 17, 32, 33, 64, 65, 128, 129, 256, 1000}))))
		default:
			emit("load " + R + " " + genWords(r))
		}
		emit("obs " + R)
		emit("equal")
		emit("set " + R + " " + it(index(r, 520)))
		emit("loaddata " + O + " " + R)
		emit("equal")
		emit("last " + O)
		emit("prev " + O + " " + it(hx.Pick(r, hugeQuery)))
	default: // large indexes (the storage is index/64 words, so stay below 2^16 here; 2^20 is in the corpus)
		x := hx.Pick(r, []int{1 << 13, 1<<14 - 1, 1 << 14, 1<<15 + 1, 1<<16 - 1, 1 << 16, 10000, 9999, 65537})
		emit(hx.Pick(r, []string{"set ", "flip "}) + R + " " + it(x))
		emit("last " + R)
		emit("next " + R + " " + it(r.Intn(x)))
		emit("prevclr " + R + " " + it(x))
		emit("nextclr " + R + " " + it(x))
		emit("setr " + R + " " + it(x+r.Range(-200, 200)) + " " + it(x-r.Range(0, 300)))
		emit("count " + R)
		emit("copy " + O + " " + R)
		emit("clrr " + R + " " + it(x/2) + " " + it(hx.Pick(r, hugeQuery)))
		emit("equal")
		emit("data " + O)
		emit("obs " + R)
	}
}

func (ar *area) Gen(r *hx.Rng, n int, _ string, emit func(string)) {
	done := 0
	out := func(s string) { emit(s); done++ }
	for done < n {
		out("reset")
		if r.Chance(9, 20) {
			shaped(r, out)
			if r.Bool() { // a shape followed by a few free steps: two features used together
				free(r, 520, func(s string) {
					if r.Chance(1, 3) {
						out(s)
					}
				})
			}
		} else {
			free(r, hx.Pick(r, []int{256, 256, 520, 1100, 4096}), out)
		}
		// final full observation of both
		out("obs A")
		out("obs B")
		out("equal")
	}
}
