//go:build !c08popcnt

package main

import "verifharness/hx"

func registerPopcnt(map[string]hx.Area) {}
