//go:build c08popcnt

package main

import (
	"strconv"
	"strings"

	"github.com/richardwilkes/toolbox/xmath"
	"verifharness/hx"
)

// popcnt: the repository's SWAR countSetBits (exported by the overlay file go/overlay/c08_export.go) on single words.
// Built only when the unexported helper still exists (vlib/C08.py falls back to a build without this area when a
// rewrite has removed or renamed it — the helper is not part of the property).
type popcnt struct{}

func (popcnt) Gen(r *hx.Rng, n int, _ string, emit func(string)) {
	for i := 0; i < n; i++ {
		var w uint64
		switch r.Intn(10) {
		case 0:
			w = uint64(1) << uint(r.Intn(64))
		case 1:
			w = ^(uint64(1) << uint(r.Intn(64)))
		case 2: // one byte pattern in one lane
			w = uint64(r.Intn(256)) << uint(8*r.Intn(8))
		case 3: // sparse
			w = r.U64() & r.U64() & r.U64()
		case 4: // dense
			w = r.U64() | r.U64() | r.U64()
		case 5: // a run of ones
			a, b := r.Intn(64), r.Intn(64)
			if a > b {
				a, b = b, a
			}
			w = (^uint64(0) >> uint(63-(b-a))) << uint(a)
		case 6:
			w = hx.Pick(r, []uint64{0, ^uint64(0), 0x5555555555555555, 0xaaaaaaaaaaaaaaaa, 0x3333333333333333,
				0xcccccccccccccccc, 0x0f0f0f0f0f0f0f0f, 0xf0f0f0f0f0f0f0f0, 0x0101010101010101, 0x8080808080808080,
				0xff00000000000000, 0x00000000000000ff, 0x8000000000000000, 0x7fffffffffffffff, 1<<32 - 1, 1 << 32,
				1<<32 + 1, 1<<63 + 1, ^uint64(0) - 1})
		default:
			w = r.U64()
		}
		emit("pc " + strconv.FormatUint(w, 16))
	}
}

func (popcnt) Run(line string) string {
	f := strings.Fields(line)
	if len(f) != 2 || f[0] != "pc" {
		return "bad-op"
	}
	v, err := strconv.ParseUint(f[1], 16, 64)
	if err != nil {
		return "bad-op"
	}
	return strconv.Itoa(xmath.VerifCountSetBits(v))
}

func registerPopcnt(areas map[string]hx.Area) { areas["popcnt"] = popcnt{} }
