// Harness for C08 (xmath.BitSet): two bit sets A and B per history, driven only through the exported API.
//
// Mutators print Count() of the receiver afterwards; queries print their result; `mem R` prints the members below
// 66*64 as hex words obtained through State (trailing zero words dropped); `obs R` prints Count, the State scan,
// FirstSet, LastSet and then Data() (which trims the receiver); `data R` prints Data().
package main

import (
	"strconv"
	"strings"

	"github.com/richardwilkes/toolbox/xmath"
	"verifharness/hx"
)

const scanWords = 66

type area struct {
	a, b *xmath.BitSet
}

func (ar *area) reg(r string) *xmath.BitSet {
	switch r {
	case "A":
		return ar.a
	case "B":
		return ar.b
	}
	return nil
}

func wordsStr(ws []uint64) string {
	if len(ws) == 0 {
		return "-"
	}
	parts := make([]string, len(ws))
	for i, w := range ws {
		parts[i] = strconv.FormatUint(w, 16)
	}
	return strings.Join(parts, ",")
}

func parseWords(s string) []uint64 {
	if s == "-" {
		return []uint64{}
	}
	parts := strings.Split(s, ",")
	out := make([]uint64, len(parts))
	for i, p := range parts {
		v, err := strconv.ParseUint(p, 16, 64)
		if err != nil {
			panic("bad word " + p)
		}
		out[i] = v
	}
	return out
}

func memStr(b *xmath.BitSet) string {
	ws := make([]uint64, scanWords)
	for k := 0; k < scanWords; k++ {
		var w uint64
		for j := 0; j < 64; j++ {
			if b.State(k*64 + j) {
				w |= uint64(1) << uint(j)
			}
		}
		ws[k] = w
	}
	n := len(ws)
	for n > 0 && ws[n-1] == 0 {
		n--
	}
	return wordsStr(ws[:n])
}

func (ar *area) Run(line string) string {
	f := strings.Fields(line)
	if len(f) == 0 {
		return "bad-op"
	}
	if f[0] == "reset" && len(f) == 1 {
		ar.a = &xmath.BitSet{}
		ar.b = &xmath.BitSet{}
		return "reset"
	}
	if ar.a == nil {
		ar.a = &xmath.BitSet{}
		ar.b = &xmath.BitSet{}
	}
	if f[0] == "equal" && len(f) == 1 {
		return strconv.FormatBool(ar.a.Equal(ar.b)) + " " + strconv.FormatBool(ar.b.Equal(ar.a))
	}
	if len(f) < 2 {
		return "bad-op"
	}
	b := ar.reg(f[1])
	if b == nil {
		return "bad-op"
	}
	cnt := func() string { return strconv.Itoa(b.Count()) }
	switch {
	case f[0] == "set" && len(f) == 3:
		b.Set(hx.Atoi(f[2]))
		return cnt()
	case f[0] == "clr" && len(f) == 3:
		b.Clear(hx.Atoi(f[2]))
		return cnt()
	case f[0] == "flip" && len(f) == 3:
		b.Flip(hx.Atoi(f[2]))
		return cnt()
	case f[0] == "setr" && len(f) == 4:
		b.SetRange(hx.Atoi(f[2]), hx.Atoi(f[3]))
		return cnt()
	case f[0] == "clrr" && len(f) == 4:
		b.ClearRange(hx.Atoi(f[2]), hx.Atoi(f[3]))
		return cnt()
	case f[0] == "flipr" && len(f) == 4:
		b.FlipRange(hx.Atoi(f[2]), hx.Atoi(f[3]))
		return cnt()
	case f[0] == "load" && len(f) == 3:
		b.Load(parseWords(f[2]))
		return cnt()
	case f[0] == "copy" && len(f) == 3:
		o := ar.reg(f[2])
		if o == nil {
			return "bad-op"
		}
		b.Copy(o)
		return cnt()
	case f[0] == "clone" && len(f) == 3:
		o := ar.reg(f[2])
		if o == nil {
			return "bad-op"
		}
		c := o.Clone()
		if f[1] == "A" {
			ar.a = c
		} else {
			ar.b = c
		}
		return strconv.Itoa(c.Count())
	case f[0] == "trim" && len(f) == 2:
		b.Trim()
		return cnt()
	case f[0] == "ensure" && len(f) == 3:
		b.EnsureCapacity(hx.Atoi(f[2]))
		return cnt()
	case f[0] == "rst" && len(f) == 2:
		b.Reset()
		return cnt()
	case f[0] == "data" && len(f) == 2:
		return wordsStr(b.Data())
	case f[0] == "loaddata" && len(f) == 3:
		o := ar.reg(f[2])
		if o == nil {
			return "bad-op"
		}
		d := o.Data()
		b.Load(d)
		// the returned slice must be a copy: scribbling on it afterwards must not reach either bit set
		for i := range d {
			d[i] = ^d[i]
		}
		return cnt()
	case f[0] == "state" && len(f) == 3:
		return strconv.FormatBool(b.State(hx.Atoi(f[2])))
	case f[0] == "count" && len(f) == 2:
		return cnt()
	case f[0] == "first" && len(f) == 2:
		return strconv.Itoa(b.FirstSet())
	case f[0] == "last" && len(f) == 2:
		return strconv.Itoa(b.LastSet())
	case f[0] == "next" && len(f) == 3:
		return strconv.Itoa(b.NextSet(hx.Atoi(f[2])))
	case f[0] == "prev" && len(f) == 3:
		return strconv.Itoa(b.PreviousSet(hx.Atoi(f[2])))
	case f[0] == "nextclr" && len(f) == 3:
		return strconv.Itoa(b.NextClear(hx.Atoi(f[2])))
	case f[0] == "prevclr" && len(f) == 3:
		return strconv.Itoa(b.PreviousClear(hx.Atoi(f[2])))
	case f[0] == "equalnil" && len(f) == 2:
		return strconv.FormatBool(b.Equal(nil))
	case f[0] == "mem" && len(f) == 2:
		return memStr(b)
	case f[0] == "obs" && len(f) == 2:
		pre := "c=" + cnt() + " m=" + memStr(b) + " f=" + strconv.Itoa(b.FirstSet()) + " l=" + strconv.Itoa(b.LastSet())
		d := b.Data()
		s := pre + " d=" + wordsStr(d)
		for i := range d {
			d[i] = ^d[i]
		}
		return s
	}
	return "bad-op"
}

var boundary = []int{0, 1, 62, 63, 64, 65, 127, 128, 129, 191, 192}

// index draws from the boundary set, a small dense window, or the whole range below 4096; `scale` narrows the range
// for histories that should stay dense.
func index(r *hx.Rng, scale int) int {
	switch r.Intn(10) {
	case 0, 1, 2:
		return hx.Pick(r, boundary)
	case 3, 4:
		// around a word boundary
		w := r.Intn(scale/64 + 1)
		return max(0, w*64+r.Range(-2, 2))
	case 5, 6:
		return r.Intn(min(scale, 260))
	default:
		return r.Intn(scale)
	}
}

func genRange(r *hx.Rng, scale int) (int, int) {
	var s, e int
	switch r.Intn(8) {
	case 0: // inside one word
		w := r.Intn(scale / 64)
		s = w*64 + r.Intn(64)
		e = w*64 + r.Intn(64)
	case 1, 2: // spanning three or more words, ends on boundary bits
		w := r.Intn(max(1, scale/64-4))
		s = w*64 + hx.Pick(r, []int{0, 1, 31, 62, 63})
		e = (w+2+r.Intn(3))*64 + hx.Pick(r, []int{0, 1, 31, 62, 63})
	case 3: // whole words exactly
		w := r.Intn(max(1, scale/64-3))
		s = w * 64
		e = (w+1+r.Intn(3))*64 - 1
	case 4: // two words
		w := r.Intn(max(1, scale/64-1))
		s = w*64 + r.Intn(64)
		e = (w+1)*64 + r.Intn(64)
	case 5: // single index
		s = index(r, scale)
		e = s
	default:
		s = index(r, scale)
		e = index(r, scale)
		if s > e {
			s, e = e, s
		}
	}
	if r.Chance(1, 4) { // reversed
		s, e = e, s
	}
	return s, e
}

func genWords(r *hx.Rng) string {
	n := r.Intn(7)
	ws := make([]uint64, 0, n+4)
	for i := 0; i < n; i++ {
		switch r.Intn(6) {
		case 0:
			ws = append(ws, 0)
		case 1:
			ws = append(ws, ^uint64(0))
		case 2:
			ws = append(ws, uint64(1)<<uint(r.Intn(64)))
		case 3:
			ws = append(ws, ^(uint64(1) << uint(r.Intn(64))))
		default:
			ws = append(ws, r.U64())
		}
	}
	// trailing zero words: none, an odd or an even number
	for i, z := 0, hx.Pick(r, []int{0, 0, 1, 2, 3, 4}); i < z; i++ {
		ws = append(ws, 0)
	}
	return wordsStr(ws)
}

func (ar *area) Gen(r *hx.Rng, n int, _ string, emit func(string)) {
	it := strconv.Itoa
	for done := 0; done < n; {
		emit("reset")
		done++
		scale := hx.Pick(r, []int{256, 256, 520, 1100, 4096})
		steps := r.Range(8, 40)
		for k := 0; k < steps; k++ {
			R := hx.Pick(r, []string{"A", "A", "B"})
			O := "B"
			if R == "B" {
				O = "A"
			}
			var l string
			switch r.Intn(44) {
			case 0, 1, 2, 3:
				l = "set " + R + " " + it(index(r, scale))
			case 4, 5:
				l = "clr " + R + " " + it(index(r, scale))
			case 6, 7:
				l = "flip " + R + " " + it(index(r, scale))
			case 8, 9, 10:
				s, e := genRange(r, scale)
				l = "setr " + R + " " + it(s) + " " + it(e)
			case 11, 12, 13:
				s, e := genRange(r, scale)
				if r.Chance(1, 3) { // reach beyond the capacity
					e += 64 * r.Range(1, 70)
				}
				l = "clrr " + R + " " + it(s) + " " + it(e)
			case 14, 15, 16:
				s, e := genRange(r, scale)
				l = "flipr " + R + " " + it(s) + " " + it(e)
			case 17:
				l = "load " + R + " " + genWords(r)
			case 18, 19:
				l = "copy " + R + " " + O
			case 20:
				l = "clone " + R + " " + O
			case 21, 22:
				l = "trim " + R
			case 23, 24:
				l = "ensure " + R + " " + it(hx.Pick(r, []int{0, 1, 2, 3, 4, 5, 7, 8, 9, 16, 17, r.Intn(70)}))
			case 25:
				if r.Chance(1, 3) {
					l = "rst " + R
				} else {
					l = "loaddata " + R + " " + O
				}
			case 26:
				l = "data " + R
			case 27:
				l = "state " + R + " " + it(index(r, scale+130))
			case 28:
				l = "count " + R
			case 29:
				l = hx.Pick(r, []string{"first ", "last "}) + R
			case 30, 31:
				l = "next " + R + " " + it(index(r, scale+130))
			case 32, 33:
				l = "prev " + R + " " + it(index(r, scale+130))
			case 34, 35:
				l = "nextclr " + R + " " + it(index(r, scale+130))
			case 36, 37:
				l = "prevclr " + R + " " + it(index(r, scale+130))
			case 38, 39:
				l = "equal"
			case 40:
				if r.Chance(1, 8) {
					l = "equalnil " + R
				} else {
					l = "mem " + R
				}
			case 41:
				l = "loaddata " + R + " " + R
			default:
				l = "obs " + R
			}
			emit(l)
			done++
			// after a copy, perturb the capacity of one side and compare: Equal must not see capacities
			if strings.HasPrefix(l, "copy") || strings.HasPrefix(l, "clone") {
				switch r.Intn(4) {
				case 0:
					emit("ensure " + R + " " + it(r.Range(1, 40)))
					done++
				case 1:
					emit("trim " + O)
					done++
				case 2:
					emit("flip " + R + " " + it(index(r, scale)))
					done++
				}
				emit("equal")
				done++
			}
		}
		// final full observation of both
		emit("obs A")
		emit("obs B")
		emit("equal")
		done += 3
	}
}

// popcnt: the repository's SWAR countSetBits (exported by the overlay file go/overlay/c08_export.go) on single words.
type popcnt struct{}

func (popcnt) Gen(r *hx.Rng, n int, _ string, emit func(string)) {
	for i := 0; i < n; i++ {
		var w uint64
		switch r.Intn(10) {
		case 0:
			w = uint64(1) << uint(r.Intn(64))
		case 1:
			w = ^(uint64(1) << uint(r.Intn(64)))
		case 2: // one byte pattern in one lane
			w = uint64(r.Intn(256)) << uint(8*r.Intn(8))
		case 3: // sparse
			w = r.U64() & r.U64() & r.U64()
		case 4: // dense
			w = r.U64() | r.U64() | r.U64()
		case 5: // a run of ones
			a, b := r.Intn(64), r.Intn(64)
			if a > b {
				a, b = b, a
			}
			w = (^uint64(0) >> uint(63-(b-a))) << uint(a)
		case 6:
			w = hx.Pick(r, []uint64{0, ^uint64(0), 0x5555555555555555, 0xaaaaaaaaaaaaaaaa, 0x3333333333333333,
				0xcccccccccccccccc, 0x0f0f0f0f0f0f0f0f, 0xf0f0f0f0f0f0f0f0, 0x0101010101010101, 0x8080808080808080,
				0xff00000000000000, 0x00000000000000ff, 0x8000000000000000, 0x7fffffffffffffff})
		default:
			w = r.U64()
		}
		emit("pc " + strconv.FormatUint(w, 16))
	}
}

func (popcnt) Run(line string) string {
	f := strings.Fields(line)
	if len(f) != 2 || f[0] != "pc" {
		return "bad-op"
	}
	v, err := strconv.ParseUint(f[1], 16, 64)
	if err != nil {
		return "bad-op"
	}
	return strconv.Itoa(xmath.VerifCountSetBits(v))
}

func main() { hx.Main(map[string]hx.Area{"bitset": &area{}, "popcnt": popcnt{}}) }
