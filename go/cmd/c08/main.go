// Harness for C08 (xmath.BitSet): two bit sets A and B per history, driven only through the exported API.
//
// Mutators print Count() of the receiver afterwards followed by ` h=<hash>`, a 64-bit multiply-xorshift hash of the canonical
// words of the WHOLE set (Clone().Data(), which leaves the receiver alone) — so every mutating line compares the complete
// abstract state, not only its cardinality; queries print their result; `mem R` prints the members below
// 66*64 as hex words obtained through State (trailing zero words dropped); `obs R` prints Count, the State scan,
// FirstSet, LastSet and then Data() (which trims the receiver); `data R` prints Data().
//
// Aliasing (both directions): every slice handed out by Data() or handed in to Load() is either scribbled on right away
// (the bit set must not notice: later observations) or kept together with a pristine copy and re-checked after every
// later line (the bit set must never write into it: the line gets the suffix ` ALIAS:<what>`, which the model never
// prints).  Clone/Copy independence is observed by mutating either bit set and observing the other.
//
// Hangs: every line is executed by a worker goroutine under a deadline (HX_C08_DEADLINE_MS, default 1500) that is
// confirmed by the CPU clock of the process (a starved worker is waited for, a spinning one is not).  A line that
// does not return prints `hang`, the rest of its history prints `skipped-after-crash` (ignored by the comparison), the
// worker and its bit sets are abandoned; after three hangs the rest of the stream is skipped.
package main

import (
	"os"
	"strconv"
	"strings"
	"syscall"
	"time"

	"github.com/richardwilkes/toolbox/xmath"
	"verifharness/hx"
)

const scanWords = 66

type held struct {
	what     string
	live     []uint64
	pristine []uint64
}

// session is the state of one history; it is owned by one worker goroutine.
type session struct {
	a, b *xmath.BitSet
	held []held
	n    int
}

func newSession() *session { return &session{a: &xmath.BitSet{}, b: &xmath.BitSet{}} }

func (s *session) reg(r string) *xmath.BitSet {
	switch r {
	case "A":
		return s.a
	case "B":
		return s.b
	}
	return nil
}

func wordsStr(ws []uint64) string {
	if len(ws) == 0 {
		return "-"
	}
	parts := make([]string, len(ws))
	for i, w := range ws {
		parts[i] = strconv.FormatUint(w, 16)
	}
	return strings.Join(parts, ",")
}

func parseWords(s string) []uint64 {
	if s == "-" {
		return []uint64{}
	}
	parts := strings.Split(s, ",")
	out := make([]uint64, len(parts))
	for i, p := range parts {
		v, err := strconv.ParseUint(p, 16, 64)
		if err != nil {
			panic("bad word " + p)
		}
		out[i] = v
	}
	return out
}

func memStr(b *xmath.BitSet) string {
	ws := make([]uint64, scanWords)
	for k := 0; k < scanWords; k++ {
		var w uint64
		for j := 0; j < 64; j++ {
			if b.State(k*64 + j) {
				w |= uint64(1) << uint(j)
			}
		}
		ws[k] = w
	}
	n := len(ws)
	for n > 0 && ws[n-1] == 0 {
		n--
	}
	return wordsStr(ws[:n])
}

// stateHash is the full abstract state of b in 16 hex digits at most: the hash of the minimal word list.  It goes through
// a clone so that the receiver's storage (which Data would trim) stays what the history made it.
func stateHash(b *xmath.BitSet) string {
	d := b.Clone().Data()
	h := uint64(0xcbf29ce484222325)
	for _, w := range d {
		h = (h ^ w) * 0x100000001b3
		h ^= h >> 29 // multiplication only carries upwards: fold the high bits back so that bit 63 of a word counts
	}
	h = (h ^ uint64(len(d))) * 0x100000001b3
	h ^= h >> 32
	return strconv.FormatUint(h, 16)
}

func scribble(d []uint64) {
	for i := range d {
		d[i] = ^d[i]
	}
}

// hand decides what happens to a slice that crossed the API: scribble on it now, or keep it and watch it.
func (s *session) hand(what string, d []uint64) {
	s.n++
	if s.n%2 == 0 {
		scribble(d)
		return
	}
	p := make([]uint64, len(d))
	copy(p, d)
	s.held = append(s.held, held{what: what, live: d, pristine: p})
}

// aliasCheck reports (once) every watched slice that has been written to.
func (s *session) aliasCheck() string {
	out := ""
	keep := s.held[:0]
	for _, h := range s.held {
		same := len(h.live) == len(h.pristine)
		if same {
			for i := range h.live {
				if h.live[i] != h.pristine[i] {
					same = false
					break
				}
			}
		}
		if same {
			keep = append(keep, h)
		} else {
			out += " ALIAS:" + h.what
		}
	}
	s.held = keep
	return out
}

// data calls Data() twice (it is idempotent): one result is printed and handed on, the other is scribbled on.
func (s *session) data(b *xmath.BitSet) string {
	d := b.Data()
	out := wordsStr(d)
	s.hand("Data-result", d)
	scribble(b.Data())
	return out
}

func (s *session) exec(line string) string {
	f := strings.Fields(line)
	if len(f) == 0 {
		return "bad-op"
	}
	if f[0] == "equal" && len(f) == 1 {
		return strconv.FormatBool(s.a.Equal(s.b)) + " " + strconv.FormatBool(s.b.Equal(s.a))
	}
	if len(f) < 2 {
		return "bad-op"
	}
	b := s.reg(f[1])
	if b == nil {
		return "bad-op"
	}
	plain := func() string { return strconv.Itoa(b.Count()) }
	cnt := func() string { return strconv.Itoa(b.Count()) + " h=" + stateHash(b) }
	switch {
	case f[0] == "set" && len(f) == 3:
		b.Set(hx.Atoi(f[2]))
		return cnt()
	case f[0] == "clr" && len(f) == 3:
		b.Clear(hx.Atoi(f[2]))
		return cnt()
	case f[0] == "flip" && len(f) == 3:
		b.Flip(hx.Atoi(f[2]))
		return cnt()
	case f[0] == "setr" && len(f) == 4:
		b.SetRange(hx.Atoi(f[2]), hx.Atoi(f[3]))
		return cnt()
	case f[0] == "clrr" && len(f) == 4:
		b.ClearRange(hx.Atoi(f[2]), hx.Atoi(f[3]))
		return cnt()
	case f[0] == "flipr" && len(f) == 4:
		b.FlipRange(hx.Atoi(f[2]), hx.Atoi(f[3]))
		return cnt()
	case f[0] == "load" && len(f) == 3:
		ws := parseWords(f[2])
		b.Load(ws)
		s.hand("Load-argument", ws)
		return cnt()
	case f[0] == "loadnil" && len(f) == 2:
		b.Load(nil)
		return cnt()
	case f[0] == "copy" && len(f) == 3:
		o := s.reg(f[2])
		if o == nil {
			return "bad-op"
		}
		b.Copy(o)
		if o == b {
			return cnt() + " " + memStr(b)
		}
		return cnt()
	case f[0] == "clone" && len(f) == 3:
		o := s.reg(f[2])
		if o == nil {
			return "bad-op"
		}
		c := o.Clone()
		if f[1] == "A" {
			s.a = c
		} else {
			s.b = c
		}
		return strconv.Itoa(c.Count()) + " h=" + stateHash(c)
	case f[0] == "trim" && len(f) == 2:
		b.Trim()
		return cnt()
	case f[0] == "ensure" && len(f) == 3:
		b.EnsureCapacity(hx.Atoi(f[2]))
		return cnt()
	case f[0] == "rst" && len(f) == 2:
		b.Reset()
		return cnt()
	case f[0] == "data" && len(f) == 2:
		return s.data(b)
	case f[0] == "loaddata" && len(f) == 3:
		o := s.reg(f[2])
		if o == nil {
			return "bad-op"
		}
		d := o.Data()
		b.Load(d)
		s.hand("Data-result-given-to-Load", d)
		return cnt()
	case f[0] == "state" && len(f) == 3:
		return strconv.FormatBool(b.State(hx.Atoi(f[2])))
	case f[0] == "count" && len(f) == 2:
		return plain()
	case f[0] == "first" && len(f) == 2:
		return strconv.Itoa(b.FirstSet())
	case f[0] == "last" && len(f) == 2:
		return strconv.Itoa(b.LastSet())
	case f[0] == "next" && len(f) == 3:
		return strconv.Itoa(b.NextSet(hx.Atoi(f[2])))
	case f[0] == "prev" && len(f) == 3:
		return strconv.Itoa(b.PreviousSet(hx.Atoi(f[2])))
	case f[0] == "nextclr" && len(f) == 3:
		return strconv.Itoa(b.NextClear(hx.Atoi(f[2])))
	case f[0] == "prevclr" && len(f) == 3:
		return strconv.Itoa(b.PreviousClear(hx.Atoi(f[2])))
	case f[0] == "equalnil" && len(f) == 2:
		return strconv.FormatBool(b.Equal(nil))
	case f[0] == "equalself" && len(f) == 2:
		return strconv.FormatBool(b.Equal(b))
	case f[0] == "mem" && len(f) == 2:
		return memStr(b)
	case f[0] == "obs" && len(f) == 2:
		pre := "c=" + plain() + " m=" + memStr(b) + " f=" + strconv.Itoa(b.FirstSet()) + " l=" + strconv.Itoa(b.LastSet())
		return pre + " d=" + s.data(b)
	}
	return "bad-op"
}

// worker executes lines for one session; it is abandoned when a line does not return.
type worker struct {
	in  chan string
	out chan string
}

func newWorker() *worker {
	w := &worker{in: make(chan string), out: make(chan string, 1)}
	go func() {
		s := newSession()
		for line := range w.in {
			if line == "reset" {
				s = newSession()
				w.out <- "reset"
				continue
			}
			l := line
			w.out <- hx.Safe(func() string {
				r := s.exec(l)
				return r + s.aliasCheck()
			})
		}
	}()
	return w
}

type area struct {
	w        *worker
	timer    *time.Timer
	deadline time.Duration
	hangs    int
	dead     bool // the rest of the current history is skipped
}

func (ar *area) Run(line string) string {
	if ar.w == nil {
		ar.w = newWorker()
		ms := 1500
		if v, err := strconv.Atoi(os.Getenv("HX_C08_DEADLINE_MS")); err == nil && v > 0 {
			ms = v
		}
		ar.deadline = time.Duration(ms) * time.Millisecond
		ar.timer = time.NewTimer(time.Hour)
		ar.timer.Stop()
	}
	line = strings.TrimSpace(line)
	if line == "reset" {
		ar.dead = false
	}
	if ar.hangs >= 3 || ar.dead {
		return "skipped-after-crash"
	}
	ar.w.in <- line
	start, cpu0 := time.Now(), cpuTime()
	ar.timer.Reset(ar.deadline)
	for {
		select {
		case r := <-ar.w.out:
			ar.timer.Stop()
			return r
		case <-ar.timer.C:
		}
		// The deadline has passed.  On an overloaded machine that alone does not mean the line loops: the worker may simply
		// not have been scheduled.  A line that really loops burns CPU, so the FIRST hang of a stream is declared only
		// when this process has consumed CPU for about as long as the deadline since the line began (or after 40
		// deadlines of wall time, whatever the CPU says).  Once a hang is established the abandoned worker keeps
		// spinning and the CPU clock says nothing any more: later lines get three deadlines of wall time.
		el := time.Since(start)
		hung := false
		if ar.hangs == 0 {
			hung = cpuTime()-cpu0 >= ar.deadline*8/10 || el >= 40*ar.deadline
		} else {
			hung = el >= 3*ar.deadline
		}
		if hung {
			ar.hangs++
			ar.dead = true
			ar.w = newWorker() // the old worker keeps spinning on bit sets nobody looks at any more
			return "hang"
		}
		ar.timer.Reset(25 * time.Millisecond)
	}
}

// cpuTime is the CPU time (user + system) this process has consumed so far.
func cpuTime() time.Duration {
	var ru syscall.Rusage
	if syscall.Getrusage(syscall.RUSAGE_SELF, &ru) != nil {
		return 0
	}
	return time.Duration(ru.Utime.Nano() + ru.Stime.Nano())
}

func main() {
	areas := map[string]hx.Area{"bitset": &area{}}
	registerPopcnt(areas)
	hx.Main(areas)
}
