package main

import (
	"math"
	"strconv"

	"verifharness/hx"
)

// History generator.
//
// Short histories (1…400 operations): key multisets with heavy duplication (order div10: ten distinguishable keys
// compare equal), ascending/descending runs, keys at the limits of int, removal of absent keys, of the minimum, of the
// maximum and of the same key twice, drain to empty and regrowth, probe keys below / between / equal to / above the
// stored keys, visitors that stop after j visits, visitors and compare functions that panic, re-entrant read-only
// visitors, two trees used alternately (`swap`), Dump.  First/Last/Count are asked after every removal.
//
// Long structured histories (400…2000 inserts): zig-zag, back-fill below/above a moving extreme, alternating extremes,
// interleaved sorted blocks, bit-reversed order, random; with probes at the size thresholds 12, 16/17, 32/33, 64/65,
// 128/129, 256/257, 512/513, 1000, 1024/1025 and periodic invariant checks, followed by a partial or total drain.

type hist struct {
	r      *hx.Rng
	emit   func(string)
	live   []int // keys inserted and (probably) not yet removed; an approximation is enough
	olive  []int // the same for the other tree (see swap)
	seq    int
	style  int
	next   int // next key of a run
	lo     int
	hi     int
	n      int // lines emitted
	long   bool
	twoTre bool
}

var limitKeys = []int{
	math.MinInt, math.MinInt + 1, math.MinInt + 9, math.MinInt + 10, math.MinInt + 11, -math.MaxInt/2 - 2, -math.MaxInt/2 - 1,
	-math.MaxInt / 2, -(1 << 32) - 1, -(1 << 32), -(1 << 31) - 1, -(1 << 31), -1001, -1000, -999, -101, -100, -99, -11, -10,
	-9, -2, -1, 0, 1, 2, 9, 10, 11, 99, 100, 101, 999, 1000, 1001, 1<<31 - 1, 1 << 31, 1<<31 + 1, 1<<32 - 1, 1 << 32,
	1<<32 + 1, 1<<62 - 1, 1 << 62, 1<<62 + 1, math.MaxInt/2 - 1, math.MaxInt / 2, math.MaxInt/2 + 1, math.MaxInt - 11,
	math.MaxInt - 10, math.MaxInt - 9, math.MaxInt - 1, math.MaxInt,
}

var panicKinds = []string{"str", "err", "rt", "nilptr", "nil", "reent"}

func (h *hist) out(s string) {
	h.emit(s)
	h.n++
}

func (h *hist) newKey() int {
	r := h.r
	switch h.style {
	case 2: // ascending run (with occasional repeats)
		if r.Chance(1, 6) {
			return h.next
		}
		h.next += r.Range(1, 4)
		return h.next
	case 3: // descending run
		if r.Chance(1, 6) {
			return h.next
		}
		h.next -= r.Range(1, 4)
		return h.next
	case 4: // one bucket only (all keys equal in div10 mode), or one key only
		if r.Chance(1, 3) {
			return 55
		}
		return r.Range(50, 59)
	case 7: // keys at the limits of int and around powers of two and ten
		return hx.Pick(r, limitKeys)
	default:
		return r.Range(h.lo, h.hi)
	}
}

func (h *hist) probeKey() int {
	r := h.r
	if len(h.live) > 0 && r.Chance(7, 10) {
		k := hx.Pick(r, h.live)
		switch r.Intn(8) {
		case 0:
			return k + 1 // wraps around at MaxInt: still a valid probe
		case 1:
			return k - 1
		case 2:
			return k + 10
		case 3:
			return k - 10
		default:
			return k
		}
	}
	if h.style == 7 {
		return hx.Pick(r, limitKeys)
	}
	switch r.Intn(4) {
	case 0:
		return h.lo - r.Range(1, 30)
	case 1:
		return h.hi + r.Range(1, 30)
	default:
		return r.Range(h.lo-5, h.hi+5)
	}
}

func (h *hist) limit() int {
	r := h.r
	big := 100000
	if len(h.live) > 200 && r.Chance(9, 10) { // keep the output of long histories small
		big = r.Range(1, 12)
	}
	switch r.Intn(6) {
	case 0:
		return 1
	case 1:
		return r.Range(0, 3)
	case 2, 3:
		return min(r.Range(1, len(h.live)+2), max(big, 12))
	default:
		return big
	}
}

func (h *hist) value() int {
	h.seq++
	if h.r.Chance(1, 40) { // values at the limits as well
		return hx.Pick(h.r, []int{math.MaxInt, math.MinInt, 0, -1, math.MaxInt - h.seq, math.MinInt + h.seq})
	}
	return h.seq
}

func (h *hist) noteKey(k int) {
	h.live = append(h.live, k)
	if k < h.lo {
		h.lo = k
	}
	if k > h.hi {
		h.hi = k
	}
}

func (h *hist) insertKey(k int, quiet bool) {
	if !quiet && h.r.Chance(1, 30) { // compare function panics at its first call: nothing may change
		h.out("pins " + strconv.Itoa(k) + " " + strconv.Itoa(h.value()))
		if len(h.live) == 0 {
			h.noteKey(k)
		}
		h.out("count")
		return
	}
	h.noteKey(k)
	h.out("ins " + strconv.Itoa(k) + " " + strconv.Itoa(h.value()))
	if !quiet {
		h.afterMutation(false)
	}
}

func (h *hist) insert() { h.insertKey(h.newKey(), false) }

func (h *hist) takeLive(i int) int {
	k := h.live[i]
	h.live[i] = h.live[len(h.live)-1]
	h.live = h.live[:len(h.live)-1]
	return k
}

func (h *hist) extreme(maxWanted bool) int {
	best := 0
	for i, k := range h.live {
		if (maxWanted && k > h.live[best]) || (!maxWanted && k < h.live[best]) {
			best = i
		}
	}
	return best
}

func (h *hist) remove() {
	r := h.r
	var k int
	twice := false
	switch {
	case len(h.live) > 0 && r.Chance(1, 30): // compare panics: nothing may change
		h.out("prem " + strconv.Itoa(hx.Pick(r, h.live)))
		h.out("count")
		return
	case len(h.live) > 0 && r.Chance(1, 10): // the minimum
		k = h.takeLive(h.extreme(false))
	case len(h.live) > 0 && r.Chance(1, 10): // the maximum
		k = h.takeLive(h.extreme(true))
	case len(h.live) > 0 && r.Chance(4, 5):
		k = h.takeLive(r.Intn(len(h.live)))
		twice = r.Chance(1, 12)
	default:
		k = h.probeKey() // often absent
	}
	h.out("rem " + strconv.Itoa(k))
	h.afterMutation(true)
	if r.Chance(1, 3) {
		h.out("get " + strconv.Itoa(k)) // the removed key: another duplicate, or gone
	}
	if twice { // the same key again (absent now unless it was duplicated)
		h.out("rem " + strconv.Itoa(k))
		h.afterMutation(true)
	}
}

func (h *hist) afterMutation(removal bool) {
	r := h.r
	sz := len(h.live)
	if removal || r.Chance(1, 3) { // First/Last/Count after every removal shape (stale caches), often after inserts
		h.out("first")
		h.out("last")
	}
	if removal || r.Chance(1, 8) {
		h.out("count")
	}
	if sz <= 10 || r.Chance(1, 3) && sz <= 300 || r.Chance(1, 60) {
		h.out("dump")
	}
	if sz <= 10 || r.Chance(1, 4) && sz <= 300 || r.Chance(1, 40) {
		h.out("inv")
	}
	if r.Chance(1, 2) {
		h.query()
	}
	if h.twoTre && r.Chance(1, 6) {
		h.out("swap")
		h.live, h.olive = h.olive, h.live
		if r.Chance(1, 2) {
			h.out("count")
			h.out("first")
		}
	}
}

func (h *hist) query() {
	r := h.r
	switch r.Intn(16) {
	case 0:
		h.out("first")
	case 1:
		h.out("last")
	case 2:
		h.out("count")
	case 3:
		h.out("trav " + strconv.Itoa(h.limit()))
	case 4:
		h.out("rtrav " + strconv.Itoa(h.limit()))
	case 5, 6:
		h.out("travfrom " + strconv.Itoa(h.probeKey()) + " " + strconv.Itoa(h.limit()))
	case 7, 8:
		h.out("rtravfrom " + strconv.Itoa(h.probeKey()) + " " + strconv.Itoa(h.limit()))
	case 9: // visitor that panics at its j-th visit (or re-enters the tree read-only); the tree must stay usable
		j, kind := strconv.Itoa(r.Range(1, min(len(h.live), 40)+1)), hx.Pick(r, panicKinds)
		switch r.Intn(4) {
		case 0:
			h.out("ptrav " + j + " " + kind)
		case 1:
			h.out("prtrav " + j + " " + kind)
		case 2:
			h.out("ptravfrom " + strconv.Itoa(h.probeKey()) + " " + j + " " + kind)
		default:
			h.out("prtravfrom " + strconv.Itoa(h.probeKey()) + " " + j + " " + kind)
		}
		if r.Chance(1, 2) {
			h.out("inv")
		}
	case 10:
		if r.Chance(1, 3) {
			h.out("pget " + strconv.Itoa(h.probeKey()))
		} else if len(h.live) <= 150 || r.Chance(1, 10) {
			h.out("dumpapi")
		} else {
			h.out("count")
		}
	default:
		h.out("get " + strconv.Itoa(h.probeKey()))
	}
}

func (h *hist) reset() {
	r := h.r
	order := "div10"
	if r.Chance(3, 10) {
		order = "plain"
	}
	// magnitude of the compare results: the library may only use the sign
	h.out("reset " + order + " " + hx.Pick(r, []string{"sign", "diff", "diff", "huge", "mixed"}))
}

func genShort(r *hx.Rng, emit func(string)) int {
	h := &hist{r: r, emit: emit, twoTre: r.Chance(1, 4)}
	h.reset()
	h.style = r.Intn(8)
	switch h.style {
	case 0: // tiny range: heavy duplication even in plain mode
		h.lo, h.hi = 0, r.Range(3, 25)
	case 1:
		h.lo, h.hi = -40, 160
	case 2, 3:
		h.next = r.Range(-20, 20)
		h.lo, h.hi = h.next, h.next
	case 4:
		h.lo, h.hi = 50, 59
	case 5:
		h.lo, h.hi = -1000, 1000
	case 7:
		h.lo, h.hi = -1000, 1000 // only used for absent probes; the keys come from limitKeys
	default: // around zero: truncating division makes -9…9 one bucket
		h.lo, h.hi = -25, 25
	}
	var length int
	switch r.Intn(5) {
	case 0:
		length = r.Range(1, 10)
	case 1, 2:
		length = r.Range(10, 80)
	default:
		length = r.Range(80, 400)
	}
	// phases: 0 grow, 1 churn, 2 drain (down to empty), then grow again
	phase := 0
	phaseLeft := r.Range(1, length/2+1)
	for h.n < length {
		if phaseLeft <= 0 {
			phase = r.Intn(3)
			phaseLeft = r.Range(1, length/3+1)
		}
		phaseLeft--
		x := r.Intn(100)
		switch phase {
		case 0:
			switch {
			case x < 70:
				h.insert()
			case x < 78:
				h.remove()
			default:
				h.query()
			}
		case 1:
			switch {
			case x < 35:
				h.insert()
			case x < 70:
				h.remove()
			default:
				h.query()
			}
		default:
			switch {
			case x < 80:
				h.remove()
				if len(h.live) == 0 && r.Chance(1, 2) { // drained: probe the empty tree, then regrow
					h.out("count")
					h.out("first")
					h.out("last")
					h.out("trav 5")
					h.out("ptrav 1 str")
					h.out("rtravfrom " + strconv.Itoa(h.probeKey()) + " 5")
					h.out("get " + strconv.Itoa(h.probeKey()))
					h.out("pget " + strconv.Itoa(h.probeKey()))
					h.out("rem " + strconv.Itoa(h.probeKey()))
					h.out("dumpapi")
					phase, phaseLeft = 0, r.Range(1, length/3+1)
				}
			default:
				h.query()
			}
		}
	}
	return h.n
}

// longKeys produces the key sequence of a long structured history.
func longKeys(r *hx.Rng, n int) []int {
	keys := make([]int, 0, n)
	step := r.Range(1, 3) * hx.Pick(r, []int{1, 1, 5, 10})
	switch r.Intn(9) {
	case 0: // zig-zag from the outside in: 0, N, 1, N-1, …
		for i := 0; len(keys) < n; i++ {
			keys = append(keys, i*step, (n-i)*step)
		}
	case 1: // alternating extremes from the inside out: 0, 1, -1, 2, -2, …
		for i := 1; len(keys) < n; i++ {
			keys = append(keys, i*step, -i*step)
		}
	case 2: // descending run, every third insert back-fills a gap just above the current minimum
		for i := 0; len(keys) < n; i++ {
			keys = append(keys, -2*i*step)
			if i >= 6 && i%2 == 0 {
				keys = append(keys, -2*i*step+3*step)
			}
		}
	case 3: // the mirror image: ascending run, back-fill just below the current maximum
		for i := 0; len(keys) < n; i++ {
			keys = append(keys, 2*i*step)
			if i >= 6 && i%2 == 0 {
				keys = append(keys, 2*i*step-3*step)
			}
		}
	case 4: // back-fill with a random period and a random distance from the moving extreme
		period, dist, dir := r.Range(2, 7), r.Range(1, 9), hx.Pick(r, []int{-1, 1})
		for i := 0; len(keys) < n; i++ {
			keys = append(keys, dir*4*i*step)
			if i%period == period-1 {
				keys = append(keys, dir*(4*i-2*dist-1)*step)
			}
		}
	case 5: // sorted blocks interleaved: round robin over several ascending (or descending) runs far apart
		blocks, blockLen := r.Range(2, 9), r.Range(1, 33)
		pos := make([]int, blocks)
		for len(keys) < n {
			b := r.Intn(blocks)
			dir := 1
			if b%2 == 1 {
				dir = -1
			}
			for j := 0; j < blockLen; j++ {
				keys = append(keys, b*100000+dir*pos[b]*step)
				pos[b]++
			}
		}
	case 6: // bit-reversed order (a perfectly "balanced" arrival order)
		bitsN := 1
		for 1<<bitsN < n {
			bitsN++
		}
		for i := 0; len(keys) < n; i++ {
			v := 0
			for b := 0; b < bitsN; b++ {
				if i&(1<<b) != 0 {
					v |= 1 << (bitsN - 1 - b)
				}
			}
			keys = append(keys, v*step)
		}
	case 7: // plain ascending or descending run
		dir := hx.Pick(r, []int{-1, 1})
		for i := 0; len(keys) < n; i++ {
			keys = append(keys, dir*i*step)
		}
	default: // uniformly random, moderate duplication
		for len(keys) < n {
			keys = append(keys, r.Range(-2*n, 2*n))
		}
	}
	return keys[:n]
}

var thresholds = map[int]bool{12: true, 16: true, 17: true, 32: true, 33: true, 64: true, 65: true, 128: true, 129: true,
	256: true, 257: true, 512: true, 513: true, 1000: true, 1024: true, 1025: true, 2000: true}

// probes emits cheap observations of a big tree: the ends, the invariants, lookups of the extreme and of random keys
// (each judged against the comparison bound, so that a degenerate tree is reported at once).
func (h *hist) probes(full bool) {
	r := h.r
	h.out("inv")
	h.out("count")
	h.out("first")
	h.out("last")
	if len(h.live) > 0 {
		h.out("get " + strconv.Itoa(h.live[h.extreme(false)]))
		h.out("get " + strconv.Itoa(h.live[h.extreme(true)]))
		for i := 0; i < 4; i++ {
			h.out("get " + strconv.Itoa(hx.Pick(r, h.live)))
		}
	}
	h.out("travfrom " + strconv.Itoa(h.probeKey()) + " " + strconv.Itoa(r.Range(1, 8)))
	h.out("rtravfrom " + strconv.Itoa(h.probeKey()) + " " + strconv.Itoa(r.Range(1, 8)))
	if full {
		h.out("dump")
		h.out("trav 100000")
		h.out("rtrav " + strconv.Itoa(r.Range(1, 20)))
		h.out("ptrav " + strconv.Itoa(r.Range(1, len(h.live)+1)) + " " + hx.Pick(r, panicKinds))
		if len(h.live) <= 300 {
			h.out("dumpapi")
		}
	}
}

func genLong(r *hx.Rng, emit func(string)) int {
	h := &hist{r: r, emit: emit, long: true, style: 5}
	h.reset()
	n := r.Range(400, 2000)
	if r.Chance(1, 3) {
		n = r.Range(400, 700)
	}
	every := r.Range(40, 120)
	for i, k := range longKeys(r, n) {
		h.insertKey(k, true)
		sz := i + 1
		if thresholds[sz] {
			h.probes(sz <= 129 || r.Chance(1, 4))
		} else if sz%every == 0 {
			h.probes(false)
		} else if r.Chance(1, 25) {
			h.query()
		}
	}
	h.probes(true)
	// drain: a random part, or everything, in random / ascending / descending key order, with the ends after each removal
	want := hx.Pick(r, []int{0, n / 4, n / 2, n - 20, n})
	order := r.Intn(3)
	for removed := 0; removed < want && len(h.live) > 0; removed++ {
		var k int
		switch order {
		case 0:
			k = h.takeLive(r.Intn(len(h.live)))
		case 1:
			k = h.takeLive(h.extreme(false))
		default:
			k = h.takeLive(h.extreme(true))
		}
		h.out("rem " + strconv.Itoa(k))
		h.out("first")
		h.out("last")
		if removed%every == 0 || thresholds[len(h.live)] {
			h.probes(false)
		}
	}
	h.probes(len(h.live) <= 300)
	// regrow a little
	for i := 0; i < 30; i++ {
		h.insertKey(r.Range(-50, 50), true)
	}
	h.probes(false)
	return h.n
}

func (a *area) Gen(r *hx.Rng, n int, _ string, emit func(string)) {
	for total := 0; total < n; {
		if r.Chance(1, 20) {
			total += genLong(r.Fork(), emit)
		} else {
			total += genShort(r.Fork(), emit)
		}
	}
}
