package main

import (
	"strconv"

	"verifharness/hx"
)

// history generator: key multisets with heavy duplication (mode div10: ten distinguishable keys compare equal),
// ascending/descending runs, removal of absent keys, drain to empty and regrowth, probe keys below / between / equal
// to / above the stored keys, visitors that stop after j visits; histories of 1…400 operations.

type hist struct {
	r     *hx.Rng
	emit  func(string)
	live  []int // keys inserted and (probably) not yet removed; an approximation is enough
	seq   int
	style int
	next  int // next key of a run
	lo    int
	hi    int
	n     int // lines emitted
}

func (h *hist) out(s string) {
	h.emit(s)
	h.n++
}

func (h *hist) newKey() int {
	r := h.r
	switch h.style {
	case 2: // ascending run (with occasional repeats)
		if r.Chance(1, 6) {
			return h.next
		}
		h.next += r.Range(1, 4)
		return h.next
	case 3: // descending run
		if r.Chance(1, 6) {
			return h.next
		}
		h.next -= r.Range(1, 4)
		return h.next
	case 4: // one bucket only (all keys equal in div10 mode), or one key only
		if r.Chance(1, 3) {
			return 55
		}
		return r.Range(50, 59)
	default:
		return r.Range(h.lo, h.hi)
	}
}

func (h *hist) probeKey() int {
	r := h.r
	if len(h.live) > 0 && r.Chance(7, 10) {
		k := hx.Pick(r, h.live)
		switch r.Intn(8) {
		case 0:
			return k + 1
		case 1:
			return k - 1
		case 2:
			return k + 10
		case 3:
			return k - 10
		default:
			return k
		}
	}
	switch r.Intn(4) {
	case 0:
		return h.lo - r.Range(1, 30)
	case 1:
		return h.hi + r.Range(1, 30)
	default:
		return r.Range(h.lo-5, h.hi+5)
	}
}

func (h *hist) limit() int {
	r := h.r
	switch r.Intn(6) {
	case 0:
		return 1
	case 1:
		return r.Range(0, 3)
	case 2, 3:
		return r.Range(1, len(h.live)+2)
	default:
		return 100000
	}
}

func (h *hist) insert() {
	k := h.newKey()
	h.seq++
	h.live = append(h.live, k)
	if k < h.lo {
		h.lo = k
	}
	if k > h.hi {
		h.hi = k
	}
	h.out("ins " + strconv.Itoa(k) + " " + strconv.Itoa(h.seq))
	h.afterMutation()
}

func (h *hist) remove() {
	r := h.r
	var k int
	if len(h.live) > 0 && r.Chance(4, 5) {
		i := r.Intn(len(h.live))
		k = h.live[i]
		h.live[i] = h.live[len(h.live)-1]
		h.live = h.live[:len(h.live)-1]
	} else {
		k = h.probeKey() // often absent
	}
	h.out("rem " + strconv.Itoa(k))
	h.afterMutation()
}

func (h *hist) afterMutation() {
	r := h.r
	sz := len(h.live)
	if sz <= 10 || r.Chance(1, 3) {
		h.out("dump")
	}
	if sz <= 10 || r.Chance(1, 4) {
		h.out("inv")
	}
	if r.Chance(1, 8) {
		h.out("count")
	}
	if r.Chance(1, 2) {
		h.query()
	}
}

func (h *hist) query() {
	r := h.r
	switch r.Intn(12) {
	case 0:
		h.out("first")
	case 1:
		h.out("last")
	case 2:
		h.out("count")
	case 3:
		h.out("trav " + strconv.Itoa(h.limit()))
	case 4:
		h.out("rtrav " + strconv.Itoa(h.limit()))
	case 5, 6:
		h.out("travfrom " + strconv.Itoa(h.probeKey()) + " " + strconv.Itoa(h.limit()))
	case 7, 8:
		h.out("rtravfrom " + strconv.Itoa(h.probeKey()) + " " + strconv.Itoa(h.limit()))
	default:
		h.out("get " + strconv.Itoa(h.probeKey()))
	}
}

func genHistory(r *hx.Rng, emit func(string)) int {
	h := &hist{r: r, emit: emit}
	mode := "div10"
	if r.Chance(3, 10) {
		mode = "plain"
	}
	h.out("reset " + mode)
	h.style = r.Intn(7)
	switch h.style {
	case 0: // tiny range: heavy duplication even in plain mode
		h.lo, h.hi = 0, r.Range(3, 25)
	case 1:
		h.lo, h.hi = -40, 160
	case 2, 3:
		h.next = r.Range(-20, 20)
		h.lo, h.hi = h.next, h.next
	case 4:
		h.lo, h.hi = 50, 59
	case 5:
		h.lo, h.hi = -1000, 1000
	default: // around zero: truncating division makes -9…9 one bucket
		h.lo, h.hi = -25, 25
	}
	var length int
	switch r.Intn(5) {
	case 0:
		length = r.Range(1, 10)
	case 1, 2:
		length = r.Range(10, 80)
	default:
		length = r.Range(80, 400)
	}
	// phases: 0 grow, 1 churn, 2 drain (down to empty), then grow again
	phase := 0
	phaseLeft := r.Range(1, length/2+1)
	for h.n < length {
		if phaseLeft <= 0 {
			phase = r.Intn(3)
			phaseLeft = r.Range(1, length/3+1)
		}
		phaseLeft--
		x := r.Intn(100)
		switch phase {
		case 0:
			switch {
			case x < 70:
				h.insert()
			case x < 78:
				h.remove()
			default:
				h.query()
			}
		case 1:
			switch {
			case x < 35:
				h.insert()
			case x < 70:
				h.remove()
			default:
				h.query()
			}
		default:
			switch {
			case x < 80:
				h.remove()
				if len(h.live) == 0 && r.Chance(1, 2) { // drained: probe the empty tree, then regrow
					h.out("count")
					h.out("first")
					h.out("last")
					h.out("trav 5")
					h.out("rtravfrom " + strconv.Itoa(h.probeKey()) + " 5")
					h.out("get " + strconv.Itoa(h.probeKey()))
					h.out("rem " + strconv.Itoa(h.probeKey()))
					phase, phaseLeft = 0, r.Range(1, length/3+1)
				}
			default:
				h.query()
			}
		}
	}
	return h.n
}

func (a *area) Gen(r *hx.Rng, n int, _ string, emit func(string)) {
	for total := 0; total < n; {
		total += genHistory(r.Fork(), emit)
	}
}
