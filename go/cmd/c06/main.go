// Harness for C06 (collection/redblack): drives the exported API of redblack.Tree[int,int] with a counting compare
// function; `dump` and `inv` look at the real nodes through go/overlay/redblack_verif.go (build tag verif).
package main

import (
	"cmp"
	"fmt"
	"os"
	"strconv"
	"strings"
	"sync/atomic"
	"time"

	"github.com/richardwilkes/toolbox/collection/redblack"
	"verifharness/hx"
)

type area struct {
	tree  *redblack.Tree[int, int]
	div10 bool
	calls int
}

func (a *area) compare(x, y int) int {
	a.calls++
	if a.div10 {
		// any int with the right sign is a legal compare result: use the difference, not -1/0/1
		return x/10 - y/10
	}
	return cmp.Compare(x, y)
}

func (a *area) reset(mode string) {
	a.div10 = mode == "div10"
	a.tree = redblack.New[int, int](a.compare)
}

type visitor struct {
	sb    strings.Builder
	seen  int
	limit int
}

func (v *visitor) visit(key, value int) bool {
	if v.seen > 0 {
		v.sb.WriteByte(' ')
	}
	v.seen++
	v.sb.WriteString(strconv.Itoa(key))
	v.sb.WriteByte(':')
	v.sb.WriteString(strconv.Itoa(value))
	return v.seen < v.limit
}

func (v *visitor) String() string {
	if v.seen == 0 {
		return "-"
	}
	return v.sb.String()
}

func optStr(v int, ok bool) string {
	if !ok {
		return "none"
	}
	return strconv.Itoa(v)
}

// opStart is the start time (unix nanoseconds) of the operation in progress, 0 when idle. A broken fix-up can make
// the real `recolor` loop spin forever (its sibling-nil branch makes no progress); the watchdog turns that into a
// process death, which the check attributes to the line (`crash:exit3`) instead of waiting for the global timeout.
var opStart atomic.Int64

const opLimit = 2 * time.Second

func watchdog() {
	for {
		time.Sleep(100 * time.Millisecond)
		if s := opStart.Load(); s != 0 && time.Now().UnixNano()-s > int64(opLimit) {
			fmt.Fprintln(os.Stderr, "c06 harness: operation did not finish within", opLimit)
			os.Exit(3)
		}
	}
}

func (a *area) Run(line string) string {
	opStart.Store(time.Now().UnixNano())
	defer opStart.Store(0)
	return a.run(line)
}

func (a *area) run(line string) string {
	f := strings.Fields(line)
	if len(f) == 0 {
		return "bad-op"
	}
	if a.tree == nil {
		a.reset("plain")
	}
	a.calls = 0
	c := func() string { return " c=" + strconv.Itoa(a.calls) }
	switch {
	case f[0] == "reset" && len(f) == 2:
		a.reset(f[1])
		return "ok"
	case f[0] == "ins" && len(f) == 3:
		a.tree.Insert(hx.Atoi(f[1]), hx.Atoi(f[2]))
		return "c=" + strconv.Itoa(a.calls)
	case f[0] == "rem" && len(f) == 2:
		before := a.tree.Count()
		a.tree.Remove(hx.Atoi(f[1]))
		what := "absent"
		if a.tree.Count() != before {
			what = "removed"
		}
		return what + c()
	case f[0] == "get" && len(f) == 2:
		v, ok := a.tree.Get(hx.Atoi(f[1]))
		return optStr(v, ok) + c()
	case f[0] == "first" && len(f) == 1:
		return optStr(a.tree.First())
	case f[0] == "last" && len(f) == 1:
		return optStr(a.tree.Last())
	case f[0] == "count" && len(f) == 1:
		return strconv.Itoa(a.tree.Count()) + " " + strconv.FormatBool(a.tree.Empty())
	case f[0] == "trav" && len(f) == 2:
		v := &visitor{limit: hx.Atoi(f[1])}
		a.tree.Traverse(v.visit)
		return v.String()
	case f[0] == "rtrav" && len(f) == 2:
		v := &visitor{limit: hx.Atoi(f[1])}
		a.tree.ReverseTraverse(v.visit)
		return v.String()
	case f[0] == "travfrom" && len(f) == 3:
		v := &visitor{limit: hx.Atoi(f[2])}
		a.tree.TraverseStartingAt(hx.Atoi(f[1]), v.visit)
		return v.String() + c()
	case f[0] == "rtravfrom" && len(f) == 3:
		v := &visitor{limit: hx.Atoi(f[2])}
		a.tree.ReverseTraverseStartingAt(hx.Atoi(f[1]), v.visit)
		return v.String() + c()
	case f[0] == "dump" && len(f) == 1:
		return a.tree.VerifDump()
	case f[0] == "inv" && len(f) == 1:
		return a.tree.VerifCheck()
	}
	return "bad-op"
}

func main() {
	go watchdog()
	hx.Main(map[string]hx.Area{"rbtree": &area{}})
}
