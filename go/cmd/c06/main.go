// Harness for C06 (collection/redblack): drives the exported API of redblack.Tree[int,int] with a counting compare
// function; `dump` and `inv` look at the real nodes through go/overlay/redblack_verif.go (build tag verif).
//
// Exported API of the anchored files and the op that calls it:
//
//	New                         reset <order> [<style>]   (two trees per history, see `swap`)
//	Insert                      ins k v, pins k v
//	Remove                      rem k, prem k
//	Get                         get k, pget k, re-entrant visitors
//	Count, Empty                count
//	First, Last                 first, last
//	Traverse                    trav j, ptrav j kind
//	ReverseTraverse             rtrav j, prtrav j kind
//	TraverseStartingAt          travfrom k j, ptravfrom k j kind
//	ReverseTraverseStartingAt   rtravfrom k j, prtravfrom k j kind
//	Dump                        dumpapi (stdout captured through a pipe)
package main

import (
	"cmp"
	"errors"
	"io"
	"math"
	"math/bits"
	"os"
	"slices"
	"strconv"
	"strings"
	"syscall"
	"time"

	"github.com/richardwilkes/toolbox/collection/redblack"
	"verifharness/hx"
)

// The comparison bounds judged in run are the ones proved for the model (Props/C06.lean: compares_find,
// compares_insert, compares_remove_le with height_run) plus the property's own allowance of E equal entries, read as in
// DESIGN Appendix B ("height + duplicates + 1 with height <= 2*log2(n+1)"). The bounded traversals are not part of the
// property's comparison clause (their cost includes the visit); they get the proved n plus travSlack as a sanity bound.
const travSlack = 2

// shadow is the harness's own, library-independent record of what one tree must contain: per equivalence class of
// the compare function the keys in insertion order (a removal takes the oldest). It provides n and E of the
// comparison bound and the key multiset that Dump must print; results themselves are judged by the Lean model.
type shadow struct {
	classes map[int][]int
	n       int
}

func newShadow() *shadow { return &shadow{classes: map[int][]int{}} }

func (s *shadow) insert(class, key int) {
	s.classes[class] = append(s.classes[class], key)
	s.n++
}

func (s *shadow) remove(class int) {
	if q := s.classes[class]; len(q) > 0 {
		if len(q) == 1 {
			delete(s.classes, class)
		} else {
			s.classes[class] = q[1:]
		}
		s.n--
	}
}

func (s *shadow) keys() []int {
	out := make([]int, 0, s.n)
	for _, q := range s.classes {
		out = append(out, q...)
	}
	slices.Sort(out)
	return out
}

// session is the state of one history: two trees sharing one compare function. A session is abandoned as a whole when
// an operation hangs (the stuck goroutine keeps its session; the harness continues with a fresh one at the next reset).
type session struct {
	tree, other     *redblack.Tree[int, int]
	shadow, oshadow *shadow
	div10           bool
	style           string
	calls           int
	panicAt         int // the compare function panics at this call number (0 = never)
}

func (s *session) class(x int) int {
	if s.div10 {
		return x / 10 // Go's truncating division: -9…9 is one class
	}
	return x
}

// compare is the user-supplied compare function. The library may only look at the sign of the result; the style
// decides the magnitude: sign = -1/0/1, diff = the (saturating) difference, huge = MinInt/0/MaxInt, mixed = a
// deterministic pseudo-random magnitude.
func (s *session) compare(x, y int) int {
	s.calls++
	if s.panicAt != 0 && s.calls == s.panicAt {
		panic("compare function panics")
	}
	a, b := s.class(x), s.class(y)
	c := cmp.Compare(a, b)
	switch s.style {
	case "diff":
		d := a - b
		if (c < 0) != (d < 0) || (c == 0) != (d == 0) { // the subtraction wrapped around
			return c * math.MaxInt
		}
		return d
	case "huge":
		switch {
		case c < 0:
			return math.MinInt
		case c > 0:
			return math.MaxInt
		}
		return 0
	case "mixed":
		return c * (1 + int((uint(x)*31+uint(y)*17)%1000003))
	}
	return c
}

func newSession(order, style string) *session {
	s := &session{div10: order == "div10", style: style, shadow: newShadow(), oshadow: newShadow()}
	s.tree = redblack.New[int, int](s.compare)
	s.other = redblack.New[int, int](s.compare)
	return s
}

type area struct {
	s        *session
	hangs    int
	poisoned bool // an operation of this history hung: skip to the next reset
	stopped  bool // too many hangs: the rest of the stream is skipped
	timer    *time.Timer
}

// A broken fix-up can make the real `recolor` loop spin forever (its sibling-nil branch makes no progress). Every
// operation runs in its own goroutine with a deadline (two periods of opLimit, the second one with the process burning
// CPU — see Run); a hang becomes the output `hang`, the rest of the history is
// skipped (`skipped-after-crash`, which the check does not count), and after maxHangs hangs the rest of the stream is
// skipped, so that a looping mutant costs seconds, not minutes.
const (
	opLimit  = 1 * time.Second
	maxWait  = 60 * time.Second
	maxHangs = 2
)

func (a *area) Run(line string) string {
	isReset := strings.HasPrefix(line, "reset")
	if a.stopped || (a.poisoned && !isReset) {
		if isReset {
			return "ok" // keeps the history boundaries aligned; everything else is skipped
		}
		return "skipped-after-crash"
	}
	if isReset {
		a.poisoned = false
	}
	ch := make(chan string, 1)
	go func() { ch <- hx.Safe(func() string { return a.run(line) }) }()
	if a.timer == nil {
		a.timer = time.NewTimer(opLimit)
	} else {
		a.timer.Reset(opLimit)
	}
	var waited, cpuBefore time.Duration
	for {
		select {
		case out := <-ch:
			if !a.timer.Stop() {
				<-a.timer.C
			}
			return out
		case <-a.timer.C:
		}
		// Deadline passed. A hung operation spins and therefore burns CPU: it is declared hung when, during one further
		// full period, the process used at least half a period of CPU. If it used (almost) none, the machine is
		// overloaded and the operation is merely starved: keep waiting (up to maxWait).
		waited += opLimit
		cpu := cpuTime()
		if waited == opLimit || (cpu-cpuBefore < opLimit/2 && waited < maxWait) {
			cpuBefore = cpu
			a.timer.Reset(opLimit)
			continue
		}
		a.hangs++
		a.poisoned = true
		a.s = nil // the stuck goroutine keeps the old session
		if a.hangs >= maxHangs {
			a.stopped = true
		}
		return "hang"
	}
}

func cpuTime() time.Duration {
	var ru syscall.Rusage
	if syscall.Getrusage(syscall.RUSAGE_SELF, &ru) != nil {
		return 1 << 62
	}
	return time.Duration(ru.Utime.Nano() + ru.Stime.Nano())
}

type visitor struct {
	sb      strings.Builder
	seen    int
	limit   int
	panicAt int    // panic at this visit (0 = never)
	kind    string // what to panic with
	reent   func(key, value int)
}

func (v *visitor) visit(key, value int) bool {
	if v.seen > 0 {
		v.sb.WriteByte(' ')
	}
	v.seen++
	v.sb.WriteString(strconv.Itoa(key))
	v.sb.WriteByte(':')
	v.sb.WriteString(strconv.Itoa(value))
	if v.reent != nil {
		v.reent(key, value)
	}
	if v.panicAt != 0 && v.seen == v.panicAt {
		switch v.kind {
		case "err":
			panic(errors.New("visitor error"))
		case "rt":
			var m map[int]int
			m[key] = value // runtime error: assignment to entry in nil map
		case "nilptr":
			panic((*int)(nil))
		case "nil":
			panic(nil) //nolint:govet // deliberately the nil panic value
		default:
			panic("visitor panics")
		}
	}
	return v.seen < v.limit
}

func (v *visitor) String() string {
	if v.seen == 0 {
		return "-"
	}
	return v.sb.String()
}

func optStr(v int, ok bool) string {
	if !ok {
		return "none"
	}
	return strconv.Itoa(v)
}

// guarded runs f and reports whether it panicked (whatever the panic value, including nil).
func guarded(f func()) (panicked bool) {
	panicked = true
	defer func() {
		_ = recover()
	}()
	f()
	return false
}

// captureDump calls Tree.Dump with os.Stdout redirected into a pipe and returns what it printed.
func captureDump(t *redblack.Tree[int, int]) string {
	r, w, err := os.Pipe()
	if err != nil {
		return "pipe-error"
	}
	old := os.Stdout
	done := make(chan []byte, 1)
	go func() {
		b, _ := io.ReadAll(r)
		done <- b
	}()
	func() {
		defer func() {
			os.Stdout = old
			w.Close()
		}()
		os.Stdout = w
		t.Dump()
	}()
	b := <-done
	r.Close()
	return string(b)
}

func (a *area) run(line string) string {
	f := strings.Fields(line)
	if len(f) == 0 {
		return "bad-op"
	}
	if a.s == nil {
		a.s = newSession("plain", "sign")
	}
	s := a.s
	// The comparison clause of the property is judged here, on the REAL count of every operation, against the bound
	// computed from n = number of inserted-and-not-removed entries before the operation and, for lookups/removals, the
	// number E of those entries whose key compares equal to the probe (both from the harness's own shadow record, not
	// from the library):
	//   Get / Remove              c <= 2*floor(log2(n+1)) + E + 1
	//   Insert                    c <= 2*floor(log2(n+1)) + 1
	//   (Reverse)TraverseStartingAt  c <= n + 2
	// The exact count is appended as ` c=N` for information only (the check strips it before comparing).
	n := s.shadow.n
	logTerm := 2 * (bits.Len(uint(n+1)) - 1)
	judge := func(bound int) string {
		if s.calls <= bound {
			return " cmp-ok c=" + strconv.Itoa(s.calls)
		}
		return " cmp-bad c=" + strconv.Itoa(s.calls) + " bound=" + strconv.Itoa(bound)
	}
	switch {
	case f[0] == "reset" && (len(f) == 2 || len(f) == 3):
		style := "sign"
		if len(f) == 3 {
			style = f[2]
		}
		a.s = newSession(f[1], style)
		return "ok"
	case f[0] == "swap" && len(f) == 1:
		s.tree, s.other = s.other, s.tree
		s.shadow, s.oshadow = s.oshadow, s.shadow
		return "ok"
	case (f[0] == "ins" || f[0] == "pins") && len(f) == 3:
		key, val := hx.Atoi(f[1]), hx.Atoi(f[2])
		s.calls = 0
		if f[0] == "pins" {
			s.panicAt = 1
		}
		panicked := guarded(func() { s.tree.Insert(key, val) })
		s.panicAt = 0
		if panicked {
			if f[0] == "ins" {
				panic("Insert panicked")
			}
			return "cmp-panic"
		}
		s.shadow.insert(s.class(key), key)
		return "done" + judge(logTerm+1)
	case (f[0] == "rem" || f[0] == "prem") && len(f) == 2:
		key := hx.Atoi(f[1])
		e := len(s.shadow.classes[s.class(key)])
		before := s.tree.Count()
		s.calls = 0
		if f[0] == "prem" {
			s.panicAt = 1
		}
		panicked := guarded(func() { s.tree.Remove(key) })
		s.panicAt = 0
		if panicked {
			if f[0] == "rem" {
				panic("Remove panicked")
			}
			return "cmp-panic"
		}
		s.shadow.remove(s.class(key))
		what := "absent"
		if s.tree.Count() != before {
			what = "removed"
		}
		return what + judge(logTerm+e+1)
	case (f[0] == "get" || f[0] == "pget") && len(f) == 2:
		key := hx.Atoi(f[1])
		e := len(s.shadow.classes[s.class(key)])
		s.calls = 0
		if f[0] == "pget" {
			s.panicAt = 1
		}
		var v int
		var ok bool
		panicked := guarded(func() { v, ok = s.tree.Get(key) })
		s.panicAt = 0
		if panicked {
			if f[0] == "get" {
				panic("Get panicked")
			}
			return "cmp-panic"
		}
		return optStr(v, ok) + judge(logTerm+e+1)
	case f[0] == "first" && len(f) == 1:
		return optStr(s.tree.First())
	case f[0] == "last" && len(f) == 1:
		return optStr(s.tree.Last())
	case f[0] == "count" && len(f) == 1:
		return strconv.Itoa(s.tree.Count()) + " " + strconv.FormatBool(s.tree.Empty())
	case f[0] == "trav" && len(f) == 2:
		v := &visitor{limit: hx.Atoi(f[1])}
		s.tree.Traverse(v.visit)
		return v.String()
	case f[0] == "rtrav" && len(f) == 2:
		v := &visitor{limit: hx.Atoi(f[1])}
		s.tree.ReverseTraverse(v.visit)
		return v.String()
	case f[0] == "travfrom" && len(f) == 3:
		v := &visitor{limit: hx.Atoi(f[2])}
		s.calls = 0
		s.tree.TraverseStartingAt(hx.Atoi(f[1]), v.visit)
		return v.String() + judge(n+travSlack)
	case f[0] == "rtravfrom" && len(f) == 3:
		v := &visitor{limit: hx.Atoi(f[2])}
		s.calls = 0
		s.tree.ReverseTraverseStartingAt(hx.Atoi(f[1]), v.visit)
		return v.String() + judge(n+travSlack)
	case (f[0] == "ptrav" || f[0] == "prtrav") && len(f) == 3,
		(f[0] == "ptravfrom" || f[0] == "prtravfrom") && len(f) == 4:
		// a visitor that panics at its j-th visit (kind = panic value), or (kind reent) that never panics, stops after j
		// visits and calls read-only methods of the tree from inside the traversal
		j, kind := hx.Atoi(f[len(f)-2]), f[len(f)-1]
		v := &visitor{kind: kind}
		reentBad := ""
		if kind == "reent" {
			v.limit = j
			tree := s.tree
			v.reent = func(key, _ int) {
				if _, ok := tree.Get(key); !ok {
					reentBad = " reent-get-missed-" + strconv.Itoa(key)
				}
				if tree.Count() != n {
					reentBad = " reent-count"
				}
				if _, ok := tree.First(); !ok {
					reentBad = " reent-first"
				}
			}
		} else {
			v.limit = math.MaxInt
			v.panicAt = j
		}
		panicked := guarded(func() {
			switch f[0] {
			case "ptrav":
				s.tree.Traverse(v.visit)
			case "prtrav":
				s.tree.ReverseTraverse(v.visit)
			case "ptravfrom":
				s.tree.TraverseStartingAt(hx.Atoi(f[1]), v.visit)
			default:
				s.tree.ReverseTraverseStartingAt(hx.Atoi(f[1]), v.visit)
			}
		})
		if panicked {
			return v.String() + " panicked" + reentBad
		}
		return v.String() + " done" + reentBad
	case f[0] == "dumpapi" && len(f) == 1:
		before := verifDump(s)
		text := captureDump(s.tree)
		after := verifDump(s)
		lines := strings.Split(strings.TrimSuffix(text, "\n"), "\n")
		if text == "" {
			lines = nil
		}
		keys := make([]int, 0, len(lines))
		keysOK := "keys-ok"
		for _, l := range lines {
			l = strings.TrimLeft(l, " ")
			if len(l) < 2 || (l[0] != 'r' && l[0] != 'b') {
				keysOK = "keys-BAD(line)"
				break
			}
			l = strings.TrimPrefix(strings.TrimPrefix(l[1:], "L "), "R ")
			k, err := strconv.Atoi(l)
			if err != nil {
				keysOK = "keys-BAD(parse)"
				break
			}
			keys = append(keys, k)
		}
		slices.Sort(keys)
		if keysOK == "keys-ok" && !slices.Equal(keys, s.shadow.keys()) {
			keysOK = "keys-BAD(multiset)"
		}
		changed := "unchanged"
		if before != after {
			changed = "CHANGED"
		}
		return "lines=" + strconv.Itoa(len(lines)) + " " + keysOK + " " + changed
	case f[0] == "dump" && len(f) == 1:
		return verifDump(s)
	case f[0] == "inv" && len(f) == 1:
		return verifCheck(s)
	}
	return "bad-op"
}

func main() {
	hx.Main(map[string]hx.Area{"rbtree": &area{}})
}
