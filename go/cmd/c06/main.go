// Harness for C06 (collection/redblack): drives the exported API of redblack.Tree[int,int] with a counting compare
// function; `dump` and `inv` look at the real nodes through go/overlay/redblack_verif.go (build tag verif).
package main

import (
	"cmp"
	"fmt"
	"math/bits"
	"os"
	"strconv"
	"strings"
	"sync/atomic"
	"time"

	"github.com/richardwilkes/toolbox/collection/redblack"
	"verifharness/hx"
)

type area struct {
	tree  *redblack.Tree[int, int]
	div10 bool
	calls int
}

func (a *area) compare(x, y int) int {
	a.calls++
	if a.div10 {
		// any int with the right sign is a legal compare result: use the difference, not -1/0/1
		return x/10 - y/10
	}
	return cmp.Compare(x, y)
}

// slack is the "about" of the property's comparison bound (see run).
const slack = 2

// raw is the comparison without the call counter (used by the harness's own bookkeeping only).
func (a *area) raw(x, y int) int {
	if a.div10 {
		return x/10 - y/10
	}
	return cmp.Compare(x, y)
}

// equalCount walks the real tree and counts the stored entries whose key compares equal to key.
func (a *area) equalCount(key int) int {
	e := 0
	a.tree.Traverse(func(k, _ int) bool {
		if a.raw(key, k) == 0 {
			e++
		}
		return true
	})
	return e
}

func (a *area) reset(mode string) {
	a.div10 = mode == "div10"
	a.tree = redblack.New[int, int](a.compare)
}

type visitor struct {
	sb    strings.Builder
	seen  int
	limit int
}

func (v *visitor) visit(key, value int) bool {
	if v.seen > 0 {
		v.sb.WriteByte(' ')
	}
	v.seen++
	v.sb.WriteString(strconv.Itoa(key))
	v.sb.WriteByte(':')
	v.sb.WriteString(strconv.Itoa(value))
	return v.seen < v.limit
}

func (v *visitor) String() string {
	if v.seen == 0 {
		return "-"
	}
	return v.sb.String()
}

func optStr(v int, ok bool) string {
	if !ok {
		return "none"
	}
	return strconv.Itoa(v)
}

// opStart is the start time (unix nanoseconds) of the operation in progress, 0 when idle. A broken fix-up can make
// the real `recolor` loop spin forever (its sibling-nil branch makes no progress); the watchdog turns that into a
// process death, which the check attributes to the line (`crash:exit3`) instead of waiting for the global timeout.
var opStart atomic.Int64

const opLimit = 2 * time.Second

func watchdog() {
	for {
		time.Sleep(100 * time.Millisecond)
		if s := opStart.Load(); s != 0 && time.Now().UnixNano()-s > int64(opLimit) {
			fmt.Fprintln(os.Stderr, "c06 harness: operation did not finish within", opLimit)
			os.Exit(3)
		}
	}
}

func (a *area) Run(line string) string {
	opStart.Store(time.Now().UnixNano())
	defer opStart.Store(0)
	return a.run(line)
}

func (a *area) run(line string) string {
	f := strings.Fields(line)
	if len(f) == 0 {
		return "bad-op"
	}
	if a.tree == nil {
		a.reset("plain")
	}
	// The comparison clause of the property is judged here, on the REAL count of every operation, against the bound
	// computed from the real tree's Count() before the operation (n) and, for lookups/removals, the number E of stored
	// entries whose key compares equal to the probe (counted with the raw, uncounted comparison):
	//   Get / Remove              c <= 2*floor(log2(n+1)) + E + slack
	//   Insert                    c <= 2*floor(log2(n+1)) + 1 + slack
	//   (Reverse)TraverseStartingAt  c <= n + slack
	// with slack = 2. The exact count is appended as ` c=N` for information only (the check strips it before comparing).
	n := a.tree.Count()
	logTerm := 2 * (bits.Len(uint(n+1)) - 1)
	judge := func(bound int) string {
		if a.calls <= bound {
			return " cmp-ok c=" + strconv.Itoa(a.calls)
		}
		return " cmp-bad c=" + strconv.Itoa(a.calls) + " bound=" + strconv.Itoa(bound)
	}
	switch {
	case f[0] == "reset" && len(f) == 2:
		a.reset(f[1])
		return "ok"
	case f[0] == "ins" && len(f) == 3:
		a.calls = 0
		a.tree.Insert(hx.Atoi(f[1]), hx.Atoi(f[2]))
		return "done" + judge(logTerm+1+slack)
	case f[0] == "rem" && len(f) == 2:
		key := hx.Atoi(f[1])
		e := a.equalCount(key)
		a.calls = 0
		a.tree.Remove(key)
		what := "absent"
		if a.tree.Count() != n {
			what = "removed"
		}
		return what + judge(logTerm+e+slack)
	case f[0] == "get" && len(f) == 2:
		key := hx.Atoi(f[1])
		e := a.equalCount(key)
		a.calls = 0
		v, ok := a.tree.Get(key)
		return optStr(v, ok) + judge(logTerm+e+slack)
	case f[0] == "first" && len(f) == 1:
		return optStr(a.tree.First())
	case f[0] == "last" && len(f) == 1:
		return optStr(a.tree.Last())
	case f[0] == "count" && len(f) == 1:
		return strconv.Itoa(a.tree.Count()) + " " + strconv.FormatBool(a.tree.Empty())
	case f[0] == "trav" && len(f) == 2:
		v := &visitor{limit: hx.Atoi(f[1])}
		a.tree.Traverse(v.visit)
		return v.String()
	case f[0] == "rtrav" && len(f) == 2:
		v := &visitor{limit: hx.Atoi(f[1])}
		a.tree.ReverseTraverse(v.visit)
		return v.String()
	case f[0] == "travfrom" && len(f) == 3:
		v := &visitor{limit: hx.Atoi(f[2])}
		a.calls = 0
		a.tree.TraverseStartingAt(hx.Atoi(f[1]), v.visit)
		return v.String() + judge(n+slack)
	case f[0] == "rtravfrom" && len(f) == 3:
		v := &visitor{limit: hx.Atoi(f[2])}
		a.calls = 0
		a.tree.ReverseTraverseStartingAt(hx.Atoi(f[1]), v.visit)
		return v.String() + judge(n+slack)
	case f[0] == "dump" && len(f) == 1:
		return a.tree.VerifDump()
	case f[0] == "inv" && len(f) == 1:
		return a.tree.VerifCheck()
	}
	return "bad-op"
}

func main() {
	go watchdog()
	hx.Main(map[string]hx.Area{"rbtree": &area{}})
}
