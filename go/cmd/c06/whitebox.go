//go:build !nooverlay

package main

// White-box observation through go/overlay/redblack_verif.go (injected into package redblack with -overlay).

func verifDump(s *session) string  { return s.tree.VerifDump() }
func verifCheck(s *session) string { return s.tree.VerifCheck() }
