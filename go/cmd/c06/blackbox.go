//go:build blackbox

package main

import (
	"strconv"
	"strings"
)

// Black-box fallback, used by vlib/C06.py only when the private declarations of package redblack have been refactored
// beyond what the overlay's accessor block can be rewritten for: `dump` shows the in-order content instead of the node
// structure (the check then does not compare it with the model's shape) and `inv` checks what the exported API shows:
// order, Count, ReverseTraverse = reverse of Traverse, First/Last = the ends. Balance is then observed only through the
// comparison bound (cmp-ok / cmp-bad).

type kv struct{ k, v int }

func inorder(s *session, reverse bool) []kv {
	var out []kv
	f := func(k, v int) bool {
		out = append(out, kv{k, v})
		return true
	}
	if reverse {
		s.tree.ReverseTraverse(f)
	} else {
		s.tree.Traverse(f)
	}
	return out
}

func verifDump(s *session) string {
	var sb strings.Builder
	sb.WriteString("inorder")
	for _, e := range inorder(s, false) {
		sb.WriteByte(' ')
		sb.WriteString(strconv.Itoa(e.k))
		sb.WriteByte(':')
		sb.WriteString(strconv.Itoa(e.v))
	}
	sb.WriteString(" parents=ok")
	return sb.String()
}

func verifCheck(s *session) string {
	fw, bw := inorder(s, false), inorder(s, true)
	if len(fw) != s.tree.Count() {
		return "FAIL count=" + strconv.Itoa(s.tree.Count()) + " visited=" + strconv.Itoa(len(fw))
	}
	if s.tree.Empty() != (len(fw) == 0) {
		return "FAIL Empty"
	}
	if len(bw) != len(fw) {
		return "FAIL reverse traversal visits " + strconv.Itoa(len(bw)) + " of " + strconv.Itoa(len(fw))
	}
	for i := range fw {
		if bw[len(bw)-1-i] != fw[i] {
			return "FAIL reverse traversal is not the reverse at " + strconv.Itoa(i)
		}
		if i > 0 && s.class(fw[i-1].k) > s.class(fw[i].k) {
			return "FAIL order: " + strconv.Itoa(fw[i-1].k) + " before " + strconv.Itoa(fw[i].k)
		}
	}
	first, okF := s.tree.First()
	last, okL := s.tree.Last()
	if okF != (len(fw) > 0) || okL != (len(fw) > 0) {
		return "FAIL First/Last existence"
	}
	if len(fw) > 0 && (first != fw[0].v || last != fw[len(fw)-1].v) {
		return "FAIL First/Last"
	}
	return "ok"
}
