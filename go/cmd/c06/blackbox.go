//go:build nooverlay

package main

import (
	"math/bits"
	"strconv"
	"strings"
)

// Black-box substitute for the overlay, built (tag nooverlay, no -overlay) when the overlay does not compile against
// the working tree, e.g. after a refactoring of the private declarations of package redblack that vlib/C06.py could not
// adapt the accessor block to. Node structure and colours are then read from the text the exported Tree.Dump() prints
// (pre-order, two blanks of indentation per level, `r`/`b`, `L `/`R ` for the side, the key). Not observable this way:
// parent links and which VALUE sits in which node (dumps are compared without values). If the text cannot be parsed
// (a refactoring may change this debugging output) `dump` answers `dump-unavailable` — the check then does not
// compare shape at all — and `inv` checks only what the rest of the exported API shows; balance is then observed through
// the comparison bound (cmp-ok / cmp-bad) alone.

type bnode struct {
	black       bool
	key         int
	left, right *bnode
}

// parseDump rebuilds the tree from Dump's text; ok=false if the text does not have the expected form.
func parseDump(text string) (root *bnode, nodes int, ok bool) {
	if text == "" {
		return nil, 0, true
	}
	var stack []*bnode // stack[d] = the last node seen at depth d
	for _, line := range strings.Split(strings.TrimSuffix(text, "\n"), "\n") {
		trimmed := strings.TrimLeft(line, " ")
		indent := len(line) - len(trimmed)
		if indent%2 != 0 || len(trimmed) < 2 || (trimmed[0] != 'r' && trimmed[0] != 'b') {
			return nil, 0, false
		}
		depth := indent / 2
		n := &bnode{black: trimmed[0] == 'b'}
		rest := trimmed[1:]
		side := byte(0)
		if strings.HasPrefix(rest, "L ") || strings.HasPrefix(rest, "R ") {
			side = rest[0]
			rest = rest[2:]
		}
		k, err := strconv.Atoi(rest)
		if err != nil {
			return nil, 0, false
		}
		n.key = k
		nodes++
		switch {
		case depth == 0:
			if side != 0 || root != nil {
				return nil, 0, false
			}
			root = n
		case depth > len(stack) || side == 0:
			return nil, 0, false
		default:
			p := stack[depth-1]
			if side == 'L' {
				if p.left != nil || p.right != nil { // pre-order: the left child comes first
					return nil, 0, false
				}
				p.left = n
			} else {
				if p.right != nil {
					return nil, 0, false
				}
				p.right = n
			}
		}
		stack = append(stack[:depth], n)
	}
	return root, nodes, root != nil
}

type kv struct{ k, v int }

func inorder(s *session, reverse bool) []kv {
	var out []kv
	f := func(k, v int) bool {
		out = append(out, kv{k, v})
		return true
	}
	if reverse {
		s.tree.ReverseTraverse(f)
	} else {
		s.tree.Traverse(f)
	}
	return out
}

// structure returns the tree read from Dump(), provided its in-order key sequence is exactly what Traverse reports.
func structure(s *session) (*bnode, bool) {
	root, nodes, ok := parseDump(captureDump(s.tree))
	if !ok {
		return nil, false
	}
	fw := inorder(s, false)
	if nodes != len(fw) {
		return nil, false
	}
	i := 0
	good := true
	var walk func(n *bnode)
	walk = func(n *bnode) {
		if n == nil || !good {
			return
		}
		walk(n.left)
		if i >= len(fw) || fw[i].k != n.key {
			good = false
			return
		}
		i++
		walk(n.right)
	}
	walk(root)
	return root, good
}

func verifDump(s *session) string {
	root, ok := structure(s)
	if !ok {
		return "dump-unavailable parents=ok"
	}
	var sb strings.Builder
	var walk func(n *bnode)
	walk = func(n *bnode) {
		if n == nil {
			sb.WriteByte('.')
			return
		}
		sb.WriteByte('(')
		if n.black {
			sb.WriteByte('b')
		} else {
			sb.WriteByte('r')
		}
		sb.WriteString(strconv.Itoa(n.key))
		sb.WriteByte(' ')
		walk(n.left)
		sb.WriteByte(' ')
		walk(n.right)
		sb.WriteByte(')')
	}
	walk(root)
	sb.WriteString(" parents=ok") // parent links are not observable without the overlay
	return sb.String()
}

func verifCheck(s *session) string {
	fw, bw := inorder(s, false), inorder(s, true)
	if len(fw) != s.tree.Count() {
		return "FAIL count=" + strconv.Itoa(s.tree.Count()) + " visited=" + strconv.Itoa(len(fw))
	}
	if s.tree.Empty() != (len(fw) == 0) {
		return "FAIL Empty"
	}
	if len(bw) != len(fw) {
		return "FAIL reverse traversal visits " + strconv.Itoa(len(bw)) + " of " + strconv.Itoa(len(fw))
	}
	for i := range fw {
		if bw[len(bw)-1-i] != fw[i] {
			return "FAIL reverse traversal is not the reverse at " + strconv.Itoa(i)
		}
		if i > 0 && s.class(fw[i-1].k) > s.class(fw[i].k) {
			return "FAIL order: " + strconv.Itoa(fw[i-1].k) + " before " + strconv.Itoa(fw[i].k)
		}
	}
	first, okF := s.tree.First()
	last, okL := s.tree.Last()
	if okF != (len(fw) > 0) || okL != (len(fw) > 0) {
		return "FAIL First/Last existence"
	}
	if len(fw) > 0 && (first != fw[0].v || last != fw[len(fw)-1].v) {
		return "FAIL First/Last"
	}
	if len(fw) == 0 {
		return "ok"
	}
	root, ok := structure(s)
	if !ok {
		return "ok" // Dump's text is not usable: balance is observed through the comparison bound only
	}
	// the red-black invariants on the structure Dump() shows
	if !root.black {
		return "FAIL root is red"
	}
	problem := ""
	height, depth := 0, 0
	var walk func(n *bnode) int
	walk = func(n *bnode) int {
		if n == nil || problem != "" {
			return 1
		}
		depth++
		if depth > height {
			height = depth
		}
		defer func() { depth-- }()
		red := func(m *bnode) bool { return m != nil && !m.black }
		if red(n) && (red(n.left) || red(n.right)) {
			problem = "FAIL red node " + strconv.Itoa(n.key) + " has a red child"
		}
		lh, rh := walk(n.left), walk(n.right)
		if lh != rh && problem == "" {
			problem = "FAIL black heights " + strconv.Itoa(lh) + "/" + strconv.Itoa(rh) + " below " + strconv.Itoa(n.key)
		}
		if n.black {
			return lh + 1
		}
		return lh
	}
	walk(root)
	if problem != "" {
		return problem
	}
	if limit := 2 * (bits.Len(uint(len(fw)+1)) - 1); height > limit {
		return "FAIL height=" + strconv.Itoa(height) + " limit=" + strconv.Itoa(limit) + " nodes=" + strconv.Itoa(len(fw))
	}
	return "ok"
}
