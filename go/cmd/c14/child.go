package main

import (
	"fmt"
	"io"
	"os"
	"strings"
	"runtime"
	"runtime/debug"
	"syscall"

	"github.com/richardwilkes/toolbox/xio/fs/safe"
)

// The main goroutine is wired to the main OS thread before anything else runs, so that every system call of the
// operation is issued by one thread (strace's inject counters are per thread and per system call name).
func init() { runtime.LockOSThread() }

// perform runs one scenario against the real code.
//   kind "wf":     safe.WriteFileWithMode(dst, callback writing the pieces (failing after cbFail pieces if >= 0), mode)
//   kind "commit": safe.CreateWithMode, one File.Write per piece, Commit, Close
//   kind "abort":  safe.CreateWithMode, one File.Write per piece, Close (no Commit)
// after is called after every piece handed over (may be nil).
// cbMode says what the callback does with an error returned by w.Write: "p" returns it, "s" swallows it and stops
// (returns nil), "k" swallows it and keeps writing the remaining pieces (returns nil) — the last two rely on the
// final Flush to report the write error, as fmt.Fprintf- or encoder-style callbacks do.
// A "!" appended to cbMode makes the callback's own stop after cbFail pieces a panic instead of a returned error.
func perform(kind, dst string, mode uint32, pieces []int, cbFail int, cbMode string, after func(i int)) error {
	stopPanic := strings.HasSuffix(cbMode, "!")
	cbMode = strings.TrimSuffix(cbMode, "!")
	// the callback's own way out comes in several kinds (chosen by the position, so that every run is reproducible):
	// returned errors — the sentinel, a fresh error, a typed-nil pointer in a non-nil interface; panics — with an error,
	// a string, a runtime error, nil, a typed-nil pointer
	stop := func() error {
		if stopPanic {
			switch cbFail % 5 {
			case 1:
				panic("callback panic")
			case 2:
				var m map[int]int
				m[cbFail] = 1 // runtime error: assignment to entry in nil map
			case 3:
				panic(nil)
			case 4:
				panic((*cbErrT)(nil))
			}
			panic(errCB)
		}
		switch cbFail % 3 {
		case 1:
			lastCbErr = fmt.Errorf("fresh callback error %d", cbFail)
		case 2:
			lastCbErr = (*cbErrT)(nil)
		default:
			lastCbErr = errCB
		}
		return lastCbErr
	}
	// half of the runs hand every piece over in one reused buffer that is overwritten between the calls
	var shared []byte
	if len(pieces)%3 == 0 {
		m := 0
		for _, n := range pieces {
			if n > m {
				m = n
			}
		}
		shared = make([]byte, m)
	}
	bytesOf := func(off, n int) []byte {
		if shared == nil {
			return genBytes(off, n, seedNew)
		}
		b := shared[:n]
		for i := range b {
			b[i] = byte(((off+i)*31 + seedNew) % 251)
		}
		return b
	}
	// the thin wrappers WriteFile / Create fix the mode to 0644: a fraction of the 0644 runs goes through them
	viaWrapper := mode == 0o644 && len(pieces)%2 == 0
	switch kind {
	case "baseline": // plain os calls, independent of the code under test: teaches the tracer names and offsets
		f, err := os.OpenFile(dst+".b", os.O_RDWR|os.O_CREATE|os.O_EXCL, os.FileMode(mode))
		if err != nil {
			return err
		}
		if _, err = f.Write([]byte("x")); err != nil {
			return err
		}
		if err = f.Close(); err != nil {
			return err
		}
		if err = os.Rename(dst+".b", dst); err != nil {
			return err
		}
		return os.Remove(dst)
	case "wf":
		writer := func(w io.Writer) error {
			off := 0
			for i, n := range pieces {
				if i == cbFail {
					return stop()
				}
				if _, err := w.Write(bytesOf(off, n)); err != nil {
					switch cbMode {
					case "s":
						return nil
					case "k":
						off += n
						continue
					default:
						return err
					}
				}
				off += n
				if after != nil {
					after(i)
				}
			}
			if cbFail >= len(pieces) {
				return stop()
			}
			return nil
		}
		if viaWrapper {
			return safe.WriteFile(dst, writer)
		}
		return safe.WriteFileWithMode(dst, writer, os.FileMode(mode))
	case "commit", "abort":
		var f *safe.File
		var err error
		if viaWrapper {
			f, err = safe.Create(dst)
		} else {
			f, err = safe.CreateWithMode(dst, os.FileMode(mode))
		}
		if err != nil {
			return err
		}
		off := 0
		for i, n := range pieces {
			if _, err = f.Write(bytesOf(off, n)); err != nil {
				_ = f.Close()
				return err
			}
			off += n
			if after != nil {
				after(i)
			}
		}
		if kind == "commit" {
			if err = f.Commit(); err != nil {
				_ = f.Close()
				return err
			}
		}
		return f.Close()
	}
	panic("bad kind " + kind)
}

// performHist runs a history of the safe.File API: CreateWithMode, then the '.'-separated calls w<n> (Write of n bytes),
// C (Commit), X (Close), F (Close of the embedded *os.File); the result codes of all calls, comma separated.
func performHist(dst string, mode uint32, ops string) string {
	var f *safe.File
	var err error
	if mode == 0o644 && len(ops)%2 == 0 {
		f, err = safe.Create(dst)
	} else {
		f, err = safe.CreateWithMode(dst, os.FileMode(mode))
	}
	if err != nil {
		return "create:" + resCode(err)
	}
	var res []string
	off := 0
	for _, o := range strings.Split(ops, ".") {
		switch {
		case strings.HasPrefix(o, "w"):
			n := atoi(o[1:])
			k, werr := f.Write(genBytes(off, n, seedNew))
			if werr == nil {
				if k != n {
					res = append(res, "BAD:short-write")
					continue
				}
				off += n
			}
			res = append(res, resCode(werr))
		case o == "C":
			res = append(res, resCode(f.Commit()))
		case o == "X":
			res = append(res, resCode(f.Close()))
		case o == "F":
			res = append(res, resCode(f.File.Close()))
		default:
			panic("bad history op " + o)
		}
	}
	if len(res) == 0 {
		return "-"
	}
	return strings.Join(res, ",")
}

// childMain: child <umask> <mode> <dst> <kind> <pieces> <cbFail> <cbMode>; prints the result code with one write(2)
// (nothing if the callback panics: the process then dies with exit status 2).
func childMain() {
	debug.SetGCPercent(-1)
	a := os.Args[2:]
	syscall.Umask(int(octal(a[0])))
	quiet := os.Getenv("C14_QUIET") != "" // kill lines: no result line, hence no write(2) of the child's own after the operation
	if a[3] == "hist" {
		if r := performHist(a[2], octal(a[1]), a[4]); !quiet {
			os.Stdout.WriteString("res=" + r + "\n")
		}
		return
	}
	err := perform(a[3], a[2], octal(a[1]), parsePieces(a[4]), atoi(a[5]), a[6], nil)
	if !quiet {
		os.Stdout.WriteString("res=" + resCode(err) + "\n")
	}
}
