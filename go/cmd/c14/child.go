package main

import (
	"io"
	"os"
	"strings"
	"runtime"
	"runtime/debug"
	"syscall"

	"github.com/richardwilkes/toolbox/xio/fs/safe"
)

// The main goroutine is wired to the main OS thread before anything else runs, so that every system call of the
// operation is issued by one thread (strace's inject counters are per thread and per system call name).
func init() { runtime.LockOSThread() }

// perform runs one scenario against the real code.
//   kind "wf":     safe.WriteFileWithMode(dst, callback writing the pieces (failing after cbFail pieces if >= 0), mode)
//   kind "commit": safe.CreateWithMode, one File.Write per piece, Commit, Close
//   kind "abort":  safe.CreateWithMode, one File.Write per piece, Close (no Commit)
// after is called after every piece handed over (may be nil).
// cbMode says what the callback does with an error returned by w.Write: "p" returns it, "s" swallows it and stops
// (returns nil), "k" swallows it and keeps writing the remaining pieces (returns nil) — the last two rely on the
// final Flush to report the write error, as fmt.Fprintf- or encoder-style callbacks do.
// A "!" appended to cbMode makes the callback's own stop after cbFail pieces a panic instead of a returned error.
func perform(kind, dst string, mode uint32, pieces []int, cbFail int, cbMode string, after func(i int)) error {
	stopPanic := strings.HasSuffix(cbMode, "!")
	cbMode = strings.TrimSuffix(cbMode, "!")
	stop := func() error {
		if stopPanic {
			panic(errCB)
		}
		return errCB
	}
	switch kind {
	case "baseline": // plain os calls, independent of the code under test: teaches the tracer names and offsets
		f, err := os.OpenFile(dst+".b", os.O_RDWR|os.O_CREATE|os.O_EXCL, os.FileMode(mode))
		if err != nil {
			return err
		}
		if _, err = f.Write([]byte("x")); err != nil {
			return err
		}
		if err = f.Close(); err != nil {
			return err
		}
		if err = os.Rename(dst+".b", dst); err != nil {
			return err
		}
		return os.Remove(dst)
	case "wf":
		return safe.WriteFileWithMode(dst, func(w io.Writer) error {
			off := 0
			for i, n := range pieces {
				if i == cbFail {
					return stop()
				}
				if _, err := w.Write(genBytes(off, n, seedNew)); err != nil {
					switch cbMode {
					case "s":
						return nil
					case "k":
						off += n
						continue
					default:
						return err
					}
				}
				off += n
				if after != nil {
					after(i)
				}
			}
			if cbFail >= len(pieces) {
				return stop()
			}
			return nil
		}, os.FileMode(mode))
	case "commit", "abort":
		f, err := safe.CreateWithMode(dst, os.FileMode(mode))
		if err != nil {
			return err
		}
		off := 0
		for i, n := range pieces {
			if _, err = f.Write(genBytes(off, n, seedNew)); err != nil {
				_ = f.Close()
				return err
			}
			off += n
			if after != nil {
				after(i)
			}
		}
		if kind == "commit" {
			if err = f.Commit(); err != nil {
				_ = f.Close()
				return err
			}
		}
		return f.Close()
	}
	panic("bad kind " + kind)
}

// childMain: child <umask> <mode> <dst> <kind> <pieces> <cbFail> <cbMode>; prints the result code with one write(2)
// (nothing if the callback panics: the process then dies with exit status 2).
func childMain() {
	debug.SetGCPercent(-1)
	a := os.Args[2:]
	syscall.Umask(int(octal(a[0])))
	err := perform(a[3], a[2], octal(a[1]), parsePieces(a[4]), atoi(a[5]), a[6], nil)
	os.Stdout.WriteString("res=" + resCode(err) + "\n")
}
