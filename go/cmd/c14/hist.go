package main

import (
	"fmt"
	"os"
	"path/filepath"
	"strconv"
	"strings"

	"verifharness/hx"
)

// ---------------------------------------------------------------------------------------------- area hist
// Arbitrary histories of the safe.File API in a child process under strace, with a fault on ANY system call of the
// history (one per system call name: strace counts per name) and SIGKILL on entry to any call.  The expected output comes
// from the Lean model `Safe.File.stepsU` (Model/SafeFileHist.lean), about which Props/C14Hist.lean proves the refinement
// of the abstract specification and old-or-committed at every kill point.
//
// hist  <old> <umask> <mode> <ops> <faults>
//    -> seq=<system calls in the destination directory> res=<result of every call, comma separated> dst=<state> tmp=<state> reader=<ok|BAD>
// hkill <old> <umask> <mode> <ops> <faults> <name> <j>          (SIGKILL on entry to the j-th <name> call, 1-based)
//    -> seq=<calls completed before the kill> dst=<state> tmp=<state> reader=<ok|BAD>
// ops:    '.'-separated calls after CreateWithMode: w<n> = Write of n bytes, C = Commit, X = Close, F = Close of the embedded *os.File
// faults: '-' or ','-separated <name>:<j>:<ERRNO> — the j-th call of that name (open|write|close|rename|unlink) fails
type histArea struct{}

var histShapes = []string{
	"w10.C.X", "w10.X", "w10.X.C", "w10.C.C.X.X", "C", "X", "X.X", "C.w5.X", "X.w5.C", "w10.F.C.X", "w10.F.X.C", "F.F.w3.X",
	"w0.w70000.w1.C", "w70000.w70000.X", "w10.w20.C.w5.F.X", "F.w10.C", "w1.C.F.X.C",
}

func histWrites(ops string) (nw int, hasF bool) {
	open := true
	for _, o := range strings.Split(ops, ".") {
		switch {
		case strings.HasPrefix(o, "w"):
			if open {
				nw++
			}
		case o == "F":
			hasF = true
			open = false
		default:
			open = false
		}
	}
	return
}

func genHistOps(r *hx.Rng) string {
	if r.Intn(3) == 0 {
		return hx.Pick(r, histShapes)
	}
	var ops []string
	for k, m := 0, r.Range(1, 6); k < m; k++ {
		switch r.Intn(10) {
		case 0, 1, 2, 3:
			ops = append(ops, "w"+strconv.Itoa(hx.Pick(r, []int{0, 1, 10, 1000, 70000, r.Intn(5000)})))
		case 4, 5, 6:
			ops = append(ops, "C")
		case 7, 8:
			ops = append(ops, "X")
		default:
			ops = append(ops, "F")
		}
	}
	return strings.Join(ops, ".")
}

func (histArea) Gen(r *hx.Rng, n int, _ string, emit func(string)) {
	for i := 0; i < n; i++ {
		ops := genHistOps(r)
		nw, hasF := histWrites(ops)
		old := hx.Pick(r, []string{"absent", "file:70000:600", "file:5:644", "link:5:644", "dangling", "dir", "link:70000:600", "noparent"})
		// half of the lines (all with a directory destination or a missing parent) are judged by the model with node kinds and
		// the kernel's rules inside (`histk`, Model/SafeFileKinds.lean), the others by Safe.apiRunFull
		sfx := ""
		if old == "dir" || old == "noparent" || r.Intn(2) == 0 {
			sfx = "k"
		}
		um := hx.Pick(r, []string{"22", "27", "77", "0"})
		mode := hx.Pick(r, []string{"644", "600", "666", "755"})
		var faults []string
		used := map[string]int{}
		if nw > 0 && r.Intn(3) == 0 {
			used["write"] = r.Range(1, nw)
			faults = append(faults, "write:"+strconv.Itoa(used["write"])+":"+hx.Pick(r, errs3))
		}
		// the first close(2) of the history: the one of Commit / Close, or the one of the embedded Close (F)
		_ = hasF
		if r.Intn(3) == 0 {
			used["close"] = 1
			faults = append(faults, "close:1:"+hx.Pick(r, errs3))
		}
		if r.Intn(3) == 0 {
			used["rename"] = 1
			faults = append(faults, "rename:1:"+hx.Pick(r, errs3))
		}
		if r.Intn(2) == 0 {
			used["unlink"] = 1
			faults = append(faults, "unlink:1:"+hx.Pick(r, errs3))
		}
		if r.Intn(12) == 0 {
			faults = []string{"open:1:" + hx.Pick(r, errs3)}
			used = map[string]int{"open": 1}
		} else if old == "noparent" { // no handle, no further system call in the directory: a fault would land on a foreign call
			faults, used = nil, map[string]int{}
		}
		fs := "-"
		if len(faults) > 0 {
			fs = strings.Join(faults, ",")
		}
		line := old + " " + um + " " + mode + " " + ops + " " + fs
		if r.Intn(3) == 0 {
			name := hx.Pick(r, []string{"open", "write", "close", "rename", "unlink"})
			j := 1
			if name == "write" {
				j = r.Range(1, nw+1)
			} else if name == "close" || name == "unlink" {
				j = r.Range(1, 2)
			}
			if w, ok := used[name]; ok { // one inject expression per name: the kill replaces the fault on the same call
				j = w
			}
			emit("hkill" + sfx + " " + line + " " + name + " " + strconv.Itoa(j))
		} else {
			emit("hist" + sfx + " " + line)
		}
	}
}

// histNew: the content the history commits if nothing but the given write fails (for the reader's allowed set only; the
// expected final state comes from the model)
func histNew(ops string, wfail int) int {
	open := true
	nw, total := 0, 0
	for _, o := range strings.Split(ops, ".") {
		switch {
		case strings.HasPrefix(o, "w"):
			if open {
				nw++
				if nw != wfail {
					total += atoi(o[1:])
				}
			}
		case o == "F":
			open = false
		default:
			return total
		}
	}
	return total
}

func (histArea) Run(line string) string {
	f := strings.Fields(line)
	kmode := strings.HasSuffix(f[0], "k")
	f[0] = strings.TrimSuffix(f[0], "k")
	if (f[0] != "hist" && f[0] != "hkill") || (f[0] == "hist" && len(f) != 6) || (f[0] == "hkill" && len(f) != 8) {
		return "bad-op"
	}
	sysOnce.Do(learn)
	if sys.err != "" {
		return "strace:" + sys.err
	}
	s := scenario{f[1], f[2], f[3], "hist", f[4]}
	want := map[string]int{}
	var injects []string
	if f[5] != "-" {
		for _, ft := range strings.Split(f[5], ",") {
			p := strings.Split(ft, ":")
			if len(p) != 3 {
				return "bad-op"
			}
			want[p[0]] = atoi(p[1])
			injects = append(injects, fmt.Sprintf("%s:error=%s:when=%d", sys.name[p[0]], p[2], sys.offset[p[0]]+atoi(p[1])))
		}
	}
	killKind, killIdx := "", 0
	if f[0] == "hkill" {
		killKind, killIdx = f[6], atoi(f[7])
		nm := sys.name[killKind]
		k := sys.offset[killKind] + killIdx
		merged := false
		for i, in := range injects {
			if strings.HasPrefix(in, nm+":") {
				injects[i] = fmt.Sprintf("%s:signal=KILL:when=%d", nm, k)
				delete(want, killKind)
				merged = true
			}
		}
		if !merged {
			injects = append(injects, fmt.Sprintf("%s:signal=KILL:when=%d", nm, k))
		}
	}
	out := ""
	childQuiet = f[0] == "hkill"
	defer func() { childQuiet = false }()
	for attempt := 0; attempt < 3; attempt++ {
		var drift bool
		out, drift = histOnce(f[0] == "hkill", kmode, s, injects, want, killKind, killIdx)
		if !drift {
			break
		}
	}
	if strings.Contains(out, " NOTE:") || strings.HasPrefix(out, "strace:") {
		return inconclusive(line, out)
	}
	return out
}

// histOnce performs one strace run of a history; drift = an injection landed on another call than the intended one
func histOnce(kill, kmode bool, s scenario, injects []string, want map[string]int, killKind string, killIdx int) (string, bool) {
	old := parseOld(s.old)
	um, mode := octal(s.umask), octal(s.mode)
	dir, dst := setup(old)
	defer cleanup(dir)
	oldState := fileState(dst)
	newState := stateOf(genBytes(0, histNew(s.pieces, want["write"]), seedNew), mode&^um)
	rd := startReader(dst, oldState, newState)
	res, calls, e := runStrace(dir, dst, s, -1, "p", injects)
	rs := rd.finish()
	if e != "" {
		return "strace:" + e, !strings.HasPrefix(e, "timeout")
	}
	var seq []string
	idx := map[string]int{}
	note := ""
	for _, c := range calls {
		if c.canon == "" {
			if c.inj || (c.dead && !c.stdio) {
				note = " NOTE:injection-or-kill-hit-a-call-outside-the-directory:" + c.name
			}
			continue
		}
		idx[c.kind]++
		if c.inj && !c.dead && want[c.kind] != idx[c.kind] {
			note = fmt.Sprintf(" NOTE:injection-hit-%s-%d", c.kind, idx[c.kind])
		}
		if c.dead {
			if c.kind != killKind || idx[c.kind] != killIdx {
				note = fmt.Sprintf(" NOTE:killed-in-%s-%d", c.kind, idx[c.kind])
			}
			continue
		}
		seq = append(seq, c.canon)
	}
	sq := strings.Join(seq, ";")
	if sq == "" {
		sq = "-"
	}
	ex := extras(dir)
	t := "absent"
	if len(ex) == 1 {
		t = fileState(filepath.Join(dir, ex[0]))
	} else if len(ex) > 1 {
		t = "MULTI"
	}
	tgt := ""
	if kmode {
		tgt = kindsSuffix(old, dir, &sq, &res)
	}
	if !kill {
		if res == "" {
			res = "none"
		}
		return fmt.Sprintf("seq=%s res=%s dst=%s tmp=%s reader=%s%s%s%s", sq, res, fileState(dst), t, rs, tgt, note, targetCheck(dir, old)), note != "" || strings.HasPrefix(rs, "BAD")
	}
	return fmt.Sprintf("seq=%s dst=%s tmp=%s reader=%s%s%s%s", sq, fileState(dst), t, rs, tgt, note, targetCheck(dir, old)), note != "" || strings.HasPrefix(rs, "BAD")
}

// kindsSuffix: what the lines judged by the model with node kinds (Model/SafeFileKinds.lean) report in addition — the state
// of the link's target — and the canonical name of "the destination is a directory" (os.Rename refuses a directory itself
// with EEXIST; were it to ask the kernel, the errno would depend on the file system)
func kindsSuffix(old oldSpec, dir string, sq, res *string) string {
	if old.kind == "dir" {
		for _, e := range []string{"EISDIR", "EEXIST", "ENOTEMPTY"} {
			*sq = strings.ReplaceAll(*sq, "rename tmp dst!"+e, "rename tmp dst!DIR")
			*res = strings.ReplaceAll(*res, "errno:"+e, "errno:DIR")
		}
	}
	switch old.kind {
	case "link":
		return " target=" + readState(dir+".target")
	case "dangling":
		return " target=" + readState(dir+".missing")
	}
	return " target=absent"
}

// shardOf: enumerated streams are split over C14_SHARDS generator calls (the seed of a call carries its shard number)
func shardOf() (int, int) {
	if v, err := strconv.Atoi(os.Getenv("C14_SHARDS")); err == nil && v > 0 && len(os.Args) > 3 {
		if seed, err2 := strconv.ParseUint(os.Args[3], 10, 64); err2 == nil {
			return int(seed % 1000003 % uint64(v)), v
		}
	}
	return 0, 1
}

// ---------------------------------------------------------------------------------------------- area multi
// multi <old> <umask> <mode> <pieces> <primary> <cbmode> <secondary>     (strace; two or three faults in one WriteFileWithMode)
//    primary:   none | cb:<j> | panic:<j> | write:<k>:<ERR> | close:<ERR> | rename:<ERR>
//    secondary: close:<ERR> | unlink:<ERR> | close:<ERR1>+unlink:<ERR2> — the close(2) of the deferred Close / the unlinkat of
//               the cleanup fail as well (with primary close:<ERR> the close of Commit is the one close there is)
//    -> seq=… res=… dst=… tmp=… reader=…       expected output: Lean model `Safe.writeFileMulti`
type multiArea struct{}

func (multiArea) Gen(_ *hx.Rng, _ int, tier string, emit func(string)) {
	b := bufSize()
	pats := []string{"1000x70", strconv.Itoa(b + 1)}
	olds := []string{"file:70000:600 22 644"}
	if tier == "thorough" {
		pats = append(pats, "1", "-", "1000x200", strconv.Itoa(b)+",1")
		olds = append(olds, "absent 77 666", "link:5:644 27 640")
	}
	shard, shards := shardOf()
	i := 0
	out := func(l string) {
		if i%shards == shard {
			emit(l)
		}
		i++
	}
	for _, old := range olds {
		for _, p := range pats {
			np := len(parsePieces(p))
			nw := len(chunkSizes("wf", parsePieces(p)))
			prim := []string{"cb:0", "cb:" + strconv.Itoa(np), "panic:" + strconv.Itoa(np/2)}
			if nw > 0 {
				prim = append(prim, "write:"+strconv.Itoa(nw-1)+":ENOSPC", "write:0:EIO")
			}
			for k, pr := range prim {
				cb := []string{"p", "s", "k"}[k%3]
				if !strings.HasPrefix(pr, "write:") {
					cb = "p"
				}
				out("multi " + old + " " + p + " " + pr + " " + cb + " close:EIO")
				out("multi " + old + " " + p + " " + pr + " " + cb + " unlink:EACCES")
				out("multi " + old + " " + p + " " + pr + " " + cb + " close:ENOSPC+unlink:EIO")
			}
			out("multi " + old + " " + p + " rename:EIO p unlink:EIO")
			out("multi " + old + " " + p + " close:EIO p unlink:ENOSPC")
			out("multi " + old + " " + p + " none p unlink:EIO") // nothing fires: the clean run issues no unlink
		}
	}
}

func (multiArea) Run(line string) string {
	f := strings.Fields(line)
	if len(f) != 8 || f[0] != "multi" {
		return "bad-op"
	}
	sysOnce.Do(learn)
	if sys.err != "" {
		return "strace:" + sys.err
	}
	s := scenario{f[1], f[2], f[3], "wf", f[4]}
	prim := strings.Split(f[5], ":")
	cbFail, cbMode := -1, f[6]
	want := map[string]int{}
	var injects []string
	add := func(kind, errno string, j int) {
		want[kind] = j
		injects = append(injects, fmt.Sprintf("%s:error=%s:when=%d", sys.name[kind], errno, sys.offset[kind]+j))
	}
	switch prim[0] {
	case "cb":
		cbFail = atoi(prim[1])
	case "panic":
		cbFail, cbMode = atoi(prim[1]), cbMode+"!"
	case "write":
		add("write", prim[2], atoi(prim[1])+1)
	case "close":
		add("close", prim[1], 1)
	case "rename":
		add("rename", prim[1], 1)
	}
	for _, sec := range strings.Split(f[7], "+") {
		p := strings.Split(sec, ":")
		if len(p) != 2 {
			return "bad-op"
		}
		if p[0] == "close" && prim[0] == "close" {
			continue // one close(2) in the run: the primary fault already sits on it
		}
		add(p[0], p[1], 1)
	}
	out := ""
	for attempt := 0; attempt < 3; attempt++ {
		var drift bool
		out, drift = multiOnce(s, cbFail, cbMode, injects, want)
		if !drift {
			break
		}
	}
	if strings.Contains(out, " NOTE:") || strings.HasPrefix(out, "strace:") {
		return inconclusive(line, out)
	}
	return out
}

func multiOnce(s scenario, cbFail int, cbMode string, injects []string, want map[string]int) (string, bool) {
	old := parseOld(s.old)
	um, mode := octal(s.umask), octal(s.mode)
	dir, dst := setup(old)
	defer cleanup(dir)
	oldState := fileState(dst)
	newState := stateOf(genBytes(0, sum(parsePieces(s.pieces)), seedNew), mode&^um)
	rd := startReader(dst, oldState, newState)
	res, calls, e := runStrace(dir, dst, s, cbFail, cbMode, injects)
	rs := rd.finish()
	if e != "" {
		return "strace:" + e, !strings.HasPrefix(e, "timeout")
	}
	var seq []string
	idx := map[string]int{}
	note := ""
	for _, c := range calls {
		if c.canon == "" {
			if c.inj || (c.dead && !c.stdio) {
				note = " NOTE:injection-or-kill-hit-a-call-outside-the-directory:" + c.name
			}
			continue
		}
		idx[c.kind]++
		if c.inj && want[c.kind] != idx[c.kind] {
			note = fmt.Sprintf(" NOTE:injection-hit-%s-%d", c.kind, idx[c.kind])
		}
		seq = append(seq, c.canon)
	}
	sq := strings.Join(seq, ";")
	if sq == "" {
		sq = "-"
	}
	ex := extras(dir)
	t := "absent"
	if len(ex) == 1 {
		t = fileState(filepath.Join(dir, ex[0]))
	} else if len(ex) > 1 {
		t = "MULTI"
	}
	if res == "" {
		res = "none"
	}
	return fmt.Sprintf("seq=%s res=%s dst=%s tmp=%s reader=%s%s%s", sq, res, fileState(dst), t, rs, note, targetCheck(dir, old)), note != "" || strings.HasPrefix(rs, "BAD")
}
