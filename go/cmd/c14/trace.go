package main

import (
	"context"
	"fmt"
	"os"
	"os/exec"
	"path/filepath"
	"regexp"
	"strconv"
	"strings"
	"sync"
	"time"

	"verifharness/hx"
)

// ---------------------------------------------------------------------------------------------- area trace
// trace <old> <umask> <mode> <kind> <pieces> <fault> <cbmode>
//    -> seq=<canonical system calls in the destination directory> res=<code> dst=<state> tmp=<state> reader=<ok|BAD>
// kill  <old> <umask> <mode> <kind> <pieces> <fault> <cbmode> <name> <j>     (SIGKILL on entry to the j-th <name> call, 1-based)
//    -> seq=<calls completed before the kill> dst=<state> tmp=<state> reader=<ok|BAD>
// fault also: exist:<k> (the first k openat(O_EXCL) of CreateTemp fail with EEXIST) | open:<ERR> (the first one fails
// otherwise); cbmode may be followed by +u:<ERR> (the unlinkat of the cleanup path fails).
// kind: wf | commit | abort;  fault: none | cb:<j> | panic:<j> | write:<k>:<ERR> | close:<ERR> | rename:<ERR>;
// cbmode: p | s | k (what the callback does with a Write error: propagate / swallow and stop / swallow and go on);
// name: open | write | close | rename | unlink
type traceArea struct{}

const traceSet = "trace=execve,openat,write,close,renameat,renameat2,rename,unlinkat,unlink,fchmod,chmod,fchmodat"

var errs3 = []string{"ENOSPC", "EIO", "EACCES"}

type scenario struct {
	old, umask, mode, kind, pieces string
}

func (s scenario) String() string {
	return s.old + " " + s.umask + " " + s.mode + " " + s.kind + " " + s.pieces
}

func (s scenario) nWrites() int { return len(chunkSizes(s.kind, parsePieces(s.pieces))) }

// enumerate lists the runs of one scenario: clean trace, every single fault, every kill point of the clean run and of
// the cleanup paths.
func enumerate(s scenario, full bool, emit func(string)) {
	nw := s.nWrites()
	np := len(parsePieces(s.pieces))
	emit("trace " + s.String() + " none p")
	var faults []string
	e := 0
	nextErr := func() string { e++; return errs3[e%3] }
	// every write(2) index fails; the callback returns the error ("p"), or swallows it and stops ("s") / keeps writing
	// ("k") so that only the final Flush can report it
	for k := 0; k < nw; k++ {
		if full {
			for _, x := range errs3 {
				faults = append(faults, "write:"+strconv.Itoa(k)+":"+x+" p")
			}
			if s.kind == "wf" {
				faults = append(faults, "write:"+strconv.Itoa(k)+":EIO s", "write:"+strconv.Itoa(k)+":ENOSPC k")
			}
		} else {
			faults = append(faults, "write:"+strconv.Itoa(k)+":"+nextErr()+" p")
			if s.kind == "wf" {
				faults = append(faults, "write:"+strconv.Itoa(k)+":"+nextErr()+" "+[]string{"s", "k"}[k%2])
			}
		}
	}
	if full {
		for _, x := range errs3 {
			faults = append(faults, "close:"+x+" p")
			if s.kind != "abort" {
				faults = append(faults, "rename:"+x+" p")
			}
		}
	} else {
		faults = append(faults, "close:"+nextErr()+" p")
		if s.kind != "abort" {
			faults = append(faults, "rename:"+nextErr()+" p")
		}
	}
	if s.kind == "wf" {
		js := map[int]bool{0: true, np: true, np / 2: true}
		if np <= 6 {
			for j := 0; j <= np; j++ {
				js[j] = true
			}
		}
		if full {
			for j := 0; j <= np && j < 12; j++ {
				js[j] = true
			}
			if np > 70 {
				js[66] = true // just past the first flush of 1000-byte pieces
			}
		}
		for j := 0; j <= np; j++ {
			if js[j] {
				faults = append(faults, "cb:"+strconv.Itoa(j)+" p", "panic:"+strconv.Itoa(j)+" p")
			}
		}
	}
	for _, f := range faults {
		emit("trace " + s.String() + " " + f)
	}
	// strace keeps one inject expression per system call name, so a kill may share its name with the fault only when
	// it is the very same call
	kills := func(f string, nWr int) {
		fk := strings.Split(strings.Fields(f)[0], ":")
		emit("kill " + s.String() + " " + f + " open 1")
		if fk[0] == "write" {
			emit("kill " + s.String() + " " + f + " write " + strconv.Itoa(atoi(fk[1])+1))
		} else {
			for j := 1; j <= nWr+1; j++ {
				emit("kill " + s.String() + " " + f + " write " + strconv.Itoa(j))
			}
		}
		for _, nm := range []string{"close", "rename", "unlink"} {
			emit("kill " + s.String() + " " + f + " " + nm + " 1")
			if nm != fk[0] {
				emit("kill " + s.String() + " " + f + " " + nm + " 2")
			}
		}
	}
	kills("none p", nw)
	// kill points inside the cleanup paths (callback error, panic unwinding): every scenario in the thorough tier, the
	// multi-chunk ones and the special destination kinds in the quick tier
	faultPathKills := full || s.pieces == "1000x200" || strings.HasPrefix(s.pieces, "100,") ||
		strings.HasPrefix(s.old, "link") || s.old == "dangling" || s.old == "file:0:644"
	if s.kind == "wf" && faultPathKills {
		kills("cb:"+strconv.Itoa(np/2)+" p", nw)
		kills("panic:"+strconv.Itoa(np)+" p", nw)
	}
	if full {
		for _, f := range faults {
			if !strings.HasPrefix(f, "cb:") && (strings.Contains(f, "EIO") || strings.HasPrefix(f, "write:0:")) {
				kills(f, nw)
			}
		}
	}
	// the loop of CreateTemp (collisions injected as EEXIST on the first k openat(O_EXCL); another error at once) and a
	// failing unlinkat in every cleanup path — for the scenarios that stand for their class
	rep := s.pieces == "1000x70" || s.pieces == "1" || s.kind != "wf" || s.pieces == strconv.Itoa(bufSize()+1) && s.old != "absent"
	if full || rep {
		ks := []int{1, 2}
		if s.pieces == "1000x70" || s.kind == "abort" || full && s.pieces == "1" {
			ks = append(ks, 999, 1000)
		}
		for _, k := range ks {
			emit("trace " + s.String() + " exist:" + strconv.Itoa(k) + " p")
		}
		emit("trace " + s.String() + " open:" + nextErr() + " p")
		u := "p+u:" + nextErr()
		var paths []string
		if s.kind == "wf" {
			paths = []string{"cb:0", "cb:" + strconv.Itoa(np), "panic:" + strconv.Itoa(np/2), "close:EIO", "rename:ENOSPC"}
			if nw > 0 {
				paths = append(paths, "write:0:EIO", "write:"+strconv.Itoa(nw-1)+":ENOSPC")
			}
		} else if s.kind == "commit" {
			paths = []string{"close:EIO", "rename:ENOSPC"}
			if nw > 0 {
				paths = append(paths, "write:0:EIO")
			}
		} else {
			paths = []string{"none", "close:EACCES"}
		}
		for _, f := range paths {
			emit("trace " + s.String() + " " + f + " " + u)
		}
		emit("kill " + s.String() + " exist:2 p write 1")
		emit("kill " + s.String() + " exist:2 p rename 1")
		emit("kill " + s.String() + " exist:2 p rename 2")
		emit("kill " + s.String() + " " + paths[0] + " " + u + " close 1")
		emit("kill " + s.String() + " " + paths[0] + " " + u + " unlink 1")
	}
}

func scenarios(full bool) []scenario {
	b := bufSize()
	sizes := []int{0, 1, b - 1, b, b + 1, 200000}
	var out []scenario
	for _, old := range []string{"absent", "file:70000:600"} {
		for _, n := range sizes {
			pats := []string{strconv.Itoa(n)}
			if n > 1000 {
				p := strconv.Itoa(1000) + "x" + strconv.Itoa(n/1000)
				if n%1000 != 0 {
					p += "," + strconv.Itoa(n%1000)
				}
				pats = append(pats, p)
			}
			if n == 0 {
				pats = append(pats, "-")
			}
			if full && n > b {
				pats = append(pats, strconv.Itoa(b-1)+","+strconv.Itoa(n-b+1), "1,"+strconv.Itoa(n-1))
			}
			for _, p := range pats {
				out = append(out, scenario{old, "22", "644", "wf", p})
			}
		}
	}
	// a single Write that by-passes the (empty) buffer; a full buffer followed by a by-passing Write
	out = append(out,
		scenario{"file:70000:600", "22", "644", "wf", strconv.Itoa(2 * b)},
		scenario{"file:70000:600", "22", "644", "wf", strconv.Itoa(b) + "," + strconv.Itoa(b+1)},
		scenario{"file:70000:600", "22", "644", "wf", "99990," + strconv.Itoa(b+1)},
		scenario{"absent", "22", "644", "wf", "100," + strconv.Itoa(b-100) + ",1,5"}, // < N, exactly N, > N handed over
		// the destination is an empty file, a symbolic link to a file, a dangling symbolic link
		scenario{"file:0:644", "22", "600", "wf", "1"},
		scenario{"link:70000:600", "22", "644", "wf", "1000x70"},
		scenario{"dangling", "22", "644", "wf", strconv.Itoa(b + 1)},
		scenario{"link:5:644", "27", "640", "commit", "10,70000"},
		scenario{"dangling", "22", "644", "abort", "10"},
	)
	out = append(out,
		scenario{"file:5:644", "77", "666", "wf", "1000x70"},
		scenario{"absent", "27", "755", "commit", "10,0,70000"},
		scenario{"file:70000:600", "22", "640", "commit", "-"},
		scenario{"file:70000:600", "22", "644", "abort", "10,70000"},
		scenario{"absent", "22", "644", "abort", "-"},
	)
	return out
}

func (traceArea) Gen(r *hx.Rng, n int, tier string, emit func(string)) {
	full := tier == "thorough"
	shard, shards := 0, 1
	if v, err := strconv.Atoi(os.Getenv("C14_SHARDS")); err == nil && v > 0 && len(os.Args) > 3 {
		if seed, err2 := strconv.ParseUint(os.Args[3], 10, 64); err2 == nil {
			shards = v
			shard = int(seed % 1000003 % uint64(v))
		}
	}
	var all []string
	for i, s := range scenarios(full) {
		// the quick tier enumerates the clean trace of every scenario but faults and kill points of a fixed subset
		if full || quickFull(s) {
			enumerate(s, full, func(l string) { all = append(all, l) })
		} else {
			all = append(all, "trace "+s.String()+" none p")
		}
		_ = i
	}
	// WriteFileWithMode on every KIND of destination, judged by Safe.writeFileK (Model/SafeFileKinds.lean)
	for _, old := range []string{"dir", "link:70000:600", "dangling", "noparent", "absent", "file:70000:600"} {
		sc := old + " 22 644 wf 1000x70"
		all = append(all, "tracek "+old+" 27 666 wf - none p", "tracek "+sc+" none p")
		if old == "noparent" {
			continue
		}
		all = append(all, "tracek "+sc+" cb:0 p", "tracek "+sc+" panic:35 p", "tracek "+sc+" write:0:EIO p", "tracek "+sc+" write:1:ENOSPC s",
			"tracek "+sc+" close:EIO p", "killk "+sc+" none p close 1", "killk "+sc+" none p rename 1", "killk "+sc+" none p unlink 1")
		if old != "dir" { // (no rename(2) is issued for a directory destination: nothing to inject into, nothing to kill)
			all = append(all, "tracek "+sc+" rename:EIO p", "killk "+sc+" none p rename 2")
		}
	}
	for i, l := range all {
		if i%shards == shard {
			emit(l)
		}
	}
}

func quickFull(s scenario) bool {
	b := bufSize()
	if s.kind != "wf" {
		return true
	}
	switch s.pieces {
	case "0", "1", strconv.Itoa(b + 1), "1000x200", "1000x70", strconv.Itoa(2 * b), strconv.Itoa(b) + "," + strconv.Itoa(b+1),
		"99990," + strconv.Itoa(b+1), "200000", "100," + strconv.Itoa(b-100) + ",1,5":
		return true
	case "1000x" + strconv.Itoa((b+1)/1000) + "," + strconv.Itoa((b+1)%1000):
		return true
	}
	return false
}

// ---------------------------------------------------------------------------------------------- running strace

type call struct {
	name  string // system call name
	canon string // canonical form, "" if the call does not touch the destination directory
	kind  string // open | write | close | rename | unlink | chmod
	inj   bool   // marked (INJECTED)
	dead  bool   // "= ?": the thread was killed inside/on entry to the call
	stdio bool   // a write to descriptor 1 or 2: the child's result line or the runtime's panic message — both strictly AFTER the operation
}

var (
	lineRE    = regexp.MustCompile(`^(\d+)\s+(\w+)\((.*)$`)
	unfinRE   = regexp.MustCompile(`^(\d+)\s+(\w+)\((.*) <unfinished \.\.\.>$`)
	resumedRE = regexp.MustCompile(`^(\d+)\s+<\.\.\. (\w+) resumed>(.*)$`)
	quotedRE  = regexp.MustCompile(`"((?:[^"\\]|\\.)*)"`)
	fdRE      = regexp.MustCompile(`^(\d+)<([^>]*)>`)
	resRE     = regexp.MustCompile(`\)\s+= (-?\d+|\?)(?:<[^>]*>)?(?: (E[A-Z0-9]+))?`)
)

// parseTrace returns the calls of the main thread (the thread that did execve).
func parseTrace(text, dir, dst string) []call {
	var out []call
	mainPid := ""
	pending := map[string]string{}
	names := map[string]string{}
	nameOf := func(p string) string {
		if p == dst {
			return "dst"
		}
		if filepath.Dir(p) != dir && filepath.Dir(p) != filepath.Dir(dst) { // (Dir(dst) differs from dir for a missing parent only)
			return "other"
		}
		if v, ok := names[p]; ok {
			return v
		}
		v := "tmp"
		if len(names) > 0 {
			v = "tmp" + strconv.Itoa(len(names)+1)
		}
		names[p] = v
		return v
	}
	lines := strings.Split(text, "\n")
	killed := false
	for i := 0; i <= len(lines); i++ {
		ln := ""
		if i < len(lines) {
			ln = lines[i]
		} else if p, ok := pending[mainPid]; ok && mainPid != "" {
			ln = p + ") = ?" // the main thread died inside a call that strace never saw return
		} else {
			break
		}
		if mainPid != "" && strings.HasPrefix(ln, mainPid+" +++ killed by SIGKILL") {
			killed = true
		}
		if m := unfinRE.FindStringSubmatch(ln); m != nil {
			pending[m[1]] = m[1] + " " + m[2] + "(" + m[3]
			continue
		}
		if m := resumedRE.FindStringSubmatch(ln); m != nil {
			ln = pending[m[1]] + m[3]
			delete(pending, m[1])
		}
		m := lineRE.FindStringSubmatch(ln)
		if m == nil {
			continue
		}
		pid, name, rest := m[1], m[2], m[3]
		if mainPid == "" {
			mainPid = pid
		}
		if pid != mainPid || name == "execve" {
			continue
		}
		c := call{name: name, inj: strings.Contains(rest, "(INJECTED)")}
		if fm := fdRE.FindStringSubmatch(rest); name == "write" && fm != nil && (fm[1] == "1" || fm[1] == "2") {
			c.stdio = true
		}
		suffix := ""
		ret := ""
		body := rest
		if loc := resRE.FindStringSubmatchIndex(rest); loc != nil {
			r := resRE.FindStringSubmatch(rest)
			body = rest[:loc[0]]
			ret = r[1]
			if r[1] == "?" {
				c.dead = true
			} else if r[2] != "" {
				suffix = "!" + r[2]
			}
		}
		if strings.Contains(rest, dir+"/") {
			qs := quotedRE.FindAllStringSubmatch(rest, -1)
			switch name {
			case "openat":
				c.kind = "open"
				args := strings.Split(body, ", ")
				flags, mode := "", ""
				if len(args) >= 3 {
					flags = args[2]
				}
				if len(args) >= 4 {
					mode = strings.TrimLeft(args[3], "0")
					if mode == "" {
						mode = "0"
					}
				}
				if len(qs) > 0 {
					if flags == "O_RDWR|O_CREAT|O_EXCL|O_CLOEXEC" && suffix == "!EEXIST" && qs[0][1] != dst &&
						filepath.Dir(qs[0][1]) == dir {
						// a collision of CreateTemp: every attempt has another random name, none is remembered
						c.canon = "create tmp* " + mode
					} else if flags == "O_RDWR|O_CREAT|O_EXCL|O_CLOEXEC" {
						c.canon = "create " + nameOf(qs[0][1]) + " " + mode
					} else {
						c.canon = "open " + nameOf(qs[0][1]) + " " + flags + " " + mode
					}
				}
			case "write":
				c.kind = "write"
				if fm := fdRE.FindStringSubmatch(rest); fm != nil {
					cnt := body[strings.LastIndex(body, ", ")+2:]
					c.canon = "write " + nameOf(fm[2]) + " " + cnt
					if suffix == "" && !c.dead && ret != cnt {
						c.canon += "=" + ret
					}
				}
			case "close":
				c.kind = "close"
				if fm := fdRE.FindStringSubmatch(rest); fm != nil {
					c.canon = "close " + nameOf(fm[2])
				}
			case "renameat", "renameat2", "rename":
				c.kind = "rename"
				if len(qs) >= 2 {
					c.canon = "rename " + nameOf(qs[0][1]) + " " + nameOf(qs[1][1])
				}
			case "unlinkat", "unlink":
				c.kind = "unlink"
				if len(qs) >= 1 {
					c.canon = "unlink " + nameOf(qs[0][1])
					if strings.Contains(rest, "AT_REMOVEDIR") {
						c.canon = "rmdir " + nameOf(qs[0][1])
						if suffix != "" { // os.Remove's second try after a failed unlink: no effect, not part of the model
							c.canon = ""
						}
					}
				}
			default:
				c.kind = "chmod"
				c.canon = name + " " + strings.Join(strings.Fields(rest), "")
			}
			if c.canon != "" {
				c.canon += suffix
			}
		}
		out = append(out, c)
	}
	if killed { // the kill must be attributable to a call of the main thread; if none shows as dead, say so
		found := false
		for _, c := range out {
			found = found || c.dead
		}
		if !found {
			out = append(out, call{name: "unknown", dead: true})
		}
	}
	return out
}

// inconclusive: a strace run whose injection or kill did not land on the intended call of the library (the Go runtime's own
// calls on the main thread - wake-up pipe, the result line - shift strace's per-name counters under load), or that timed
// out.  After three attempts the line is SKIPPED (the core ignores this output) and counted in the evidence; it is never
// reported: what the run observed says nothing about the code.
func inconclusive(line, why string) string {
	if f, err := os.OpenFile("c14_inconclusive.log", os.O_APPEND|os.O_CREATE|os.O_WRONLY, 0o644); err == nil {
		fmt.Fprintf(f, "%s\t%s\n", strings.ReplaceAll(why, "\t", " "), line)
		f.Close()
	}
	return "skipped-after-crash"
}

// sysNames: which system call carries each kind on this platform, and how many calls of that name the main thread
// makes before the operation starts (runtime start-up).  Learnt from two baseline runs.
type sysInfo struct {
	name   map[string]string
	offset map[string]int
	err    string
}

var (
	sysOnce        sync.Once
	sys            sysInfo
	sysMu          sync.Mutex
	straceTimeouts int
)

// childQuiet: set while a kill line runs (the areas execute their lines one at a time)
var childQuiet bool

func self() string {
	p, err := os.Executable()
	if err != nil {
		panic(err)
	}
	return p
}

func runStrace(dir, dst string, s scenario, cbFail int, cbMode string, injects []string) (string, []call, string) {
	tf := filepath.Join(filepath.Dir(dir), filepath.Base(dir)+".trace")
	defer os.Remove(tf)
	args := []string{"-f", "-s", "0", "-y", "-e", traceSet}
	for _, in := range injects {
		args = append(args, "-e", "inject="+in)
	}
	args = append(args, "-o", tf, self(), "child", s.umask, s.mode, dst, s.kind, s.pieces, strconv.Itoa(cbFail), cbMode)
	sysMu.Lock()
	tooMany := straceTimeouts >= 3
	sysMu.Unlock()
	if tooMany {
		return "", nil, "timeout-skipped"
	}
	ctx, cancel := context.WithTimeout(context.Background(), 30*time.Second)
	defer cancel()
	cmd := exec.CommandContext(ctx, "strace", args...)
	cmd.Env = append(os.Environ(), "GODEBUG=asyncpreemptoff=1")
	if childQuiet { // kill lines: the child prints no result line, so that no write(2) of its own follows the operation
		cmd.Env = append(cmd.Env, "C14_QUIET=1")
	}
	out, runErr := cmd.Output()
	if ctx.Err() != nil { // a child that hangs costs 30 s once; after three the stream stops trying
		sysMu.Lock()
		straceTimeouts++
		sysMu.Unlock()
		return "", nil, "timeout"
	}
	text, err := os.ReadFile(tf)
	if err != nil {
		return "", nil, "no-trace-file"
	}
	res := ""
	for _, l := range strings.Split(string(out), "\n") {
		if strings.HasPrefix(l, "res=") {
			res = l[4:]
		}
	}
	if ee, ok := runErr.(*exec.ExitError); ok && res == "" && ee.ExitCode() == 2 {
		res = "panic" // strace exits with the status of the traced process; 2 = Go's exit status for a panic
	}
	return res, parseTrace(string(text), dir, dst), ""
}

func learn() {
	sys = sysInfo{name: map[string]string{"open": "openat", "write": "write", "close": "close", "rename": "renameat", "unlink": "unlinkat"},
		offset: map[string]int{}}
	// three baseline runs; a foreign call of the runtime on the main thread can only ADD to a count, so the minimum is kept
	good := 0
	for run := 0; run < 3; run++ {
		dir, dst := setup(oldSpec{kind: "absent"})
		_, calls, e := runStrace(dir, dst, scenario{"absent", "22", "644", "baseline", "-"}, -1, "p", nil)
		cleanup(dir)
		if e != "" || len(calls) == 0 {
			continue
		}
		good++
		seen := map[string]int{}
		first := map[string]bool{}
		for _, c := range calls {
			if c.canon != "" && !first[c.kind] {
				first[c.kind] = true
				sys.name[c.kind] = c.name
				if old, ok := sys.offset[c.kind]; !ok || seen[c.name] < old {
					sys.offset[c.kind] = seen[c.name]
				}
			}
			seen[c.name]++
		}
	}
	if good == 0 {
		sys.err = "strace-unusable"
		return
	}
	for _, k := range []string{"open", "write", "close", "rename", "unlink"} {
		if _, ok := sys.offset[k]; !ok {
			sys.err = "strace-baseline-lacks-" + k
		}
	}
}

func probeStrace() string {
	if _, err := exec.LookPath("strace"); err != nil {
		return "unavailable: strace not found"
	}
	sysOnce.Do(learn)
	if sys.err != "" {
		return "unavailable: " + sys.err
	}
	return fmt.Sprintf("ok open=%s+%d write=%s+%d close=%s+%d rename=%s+%d unlink=%s+%d", sys.name["open"], sys.offset["open"],
		sys.name["write"], sys.offset["write"], sys.name["close"], sys.offset["close"], sys.name["rename"], sys.offset["rename"],
		sys.name["unlink"], sys.offset["unlink"])
}

func (traceArea) Run(line string) string {
	f := strings.Fields(line)
	kmode := strings.HasSuffix(f[0], "k") // tracek / killk: judged by Safe.writeFileK on the file system with node kinds
	f[0] = strings.TrimSuffix(f[0], "k")
	if (f[0] != "trace" && f[0] != "kill") || (f[0] == "trace" && len(f) != 8) || (f[0] == "kill" && len(f) != 10) {
		return "bad-op"
	}
	cbMode := f[7]
	sysOnce.Do(learn)
	if sys.err != "" {
		return "strace:" + sys.err
	}
	s := scenario{f[1], f[2], f[3], f[4], f[5]}
	fault := f[6]
	old := parseOld(s.old)
	um, mode := octal(s.umask), octal(s.mode)
	cbFail := -1
	var injects []string
	wantInj := "" // kind of the call that must carry the (INJECTED) mark, and its index among the directory's calls
	wantIdx := 0
	wantHi := 0 // exist:<k> marks the calls wantIdx..wantHi
	unlinkErr := ""
	if i := strings.Index(cbMode, "+u:"); i >= 0 { // the unlink of the cleanup path fails
		unlinkErr = cbMode[i+3:]
		cbMode = cbMode[:i]
		injects = append(injects, fmt.Sprintf("%s:error=%s:when=%d", sys.name["unlink"], unlinkErr, sys.offset["unlink"]+1))
	}
	fp := strings.Split(fault, ":")
	switch fp[0] {
	case "exist": // the first k openat(O_EXCL) of CreateTemp fail with EEXIST
		if k := atoi(fp[1]); k > 0 {
			wantInj, wantIdx, wantHi = "open", 1, k
			injects = append(injects, fmt.Sprintf("%s:error=EEXIST:when=%d..%d", sys.name["open"], sys.offset["open"]+1, sys.offset["open"]+k))
		}
	case "open":
		wantInj, wantIdx = "open", 1
		injects = append(injects, fmt.Sprintf("%s:error=%s:when=%d", sys.name["open"], fp[1], sys.offset["open"]+1))
	case "cb":
		cbFail = atoi(fp[1])
	case "panic": // the child dies of the unrecovered panic (exit status 2) after the deferred Close has run
		cbFail = atoi(fp[1])
		cbMode += "!"
	case "write":
		wantInj, wantIdx = "write", atoi(fp[1])+1
		injects = append(injects, fmt.Sprintf("%s:error=%s:when=%d", sys.name["write"], fp[2], sys.offset["write"]+wantIdx))
	case "close":
		wantInj, wantIdx = "close", 1
		injects = append(injects, fmt.Sprintf("%s:error=%s:when=%d", sys.name["close"], fp[1], sys.offset["close"]+1))
	case "rename":
		wantInj, wantIdx = "rename", 1
		injects = append(injects, fmt.Sprintf("%s:error=%s:when=%d", sys.name["rename"], fp[1], sys.offset["rename"]+1))
	}
	killKind, killIdx := "", 0
	if f[0] == "kill" {
		killKind, killIdx = f[8], atoi(f[9])
		nm := sys.name[killKind]
		k := sys.offset[killKind] + killIdx
		merged := false
		for i, in := range injects { // one system call name can carry only one inject expression per invocation count
			if strings.HasPrefix(in, nm+":") && strings.HasSuffix(in, fmt.Sprintf(":when=%d", k)) {
				injects[i] = fmt.Sprintf("%s:signal=KILL:when=%d", nm, k)
				merged = true
			}
		}
		if !merged {
			injects = append(injects, fmt.Sprintf("%s:signal=KILL:when=%d", nm, k))
		}
	}
	out := ""
	childQuiet = f[0] == "kill"
	defer func() { childQuiet = false }()
	for attempt := 0; attempt < 3; attempt++ {
		var drift bool
		if wantHi < wantIdx {
			wantHi = wantIdx
		}
		out, drift = runOnce(f, s, old, um, mode, cbFail, cbMode, injects, wantInj, wantIdx, wantHi, unlinkErr != "", killKind, killIdx, kmode)
		if !drift {
			break
		}
	}
	if strings.Contains(out, " NOTE:") || strings.HasPrefix(out, "strace:") {
		return inconclusive(line, out)
	}
	return out
}

// runOnce performs one strace run; drift = the injection did not land on the intended call (retried by the caller).
func runOnce(f []string, s scenario, old oldSpec, um, mode uint32, cbFail int, cbMode string, injects []string, wantInj string, wantIdx, wantHi int,
	unlinkInj bool, killKind string, killIdx int, kmode bool) (string, bool) {
	dir, dst := setup(old)
	defer cleanup(dir)
	oldState := fileState(dst)
	newState := stateOf(genBytes(0, sum(parsePieces(s.pieces)), seedNew), mode&^um)
	rd := startReader(dst, oldState, newState)
	res, calls, e := runStrace(dir, dst, s, cbFail, cbMode, injects)
	rs := rd.finish()
	if e != "" {
		return "strace:" + e, !strings.HasPrefix(e, "timeout")
	}
	var seq []string
	idx := map[string]int{}
	note := ""
	for _, c := range calls {
		if c.canon == "" {
			if c.inj || (c.dead && !c.stdio) {
				note = " NOTE:injection-or-kill-hit-a-call-outside-the-directory:" + c.name
			}
			continue
		}
		idx[c.kind]++
		if c.inj && !c.dead && !(c.kind == wantInj && idx[c.kind] >= wantIdx && idx[c.kind] <= wantHi) &&
			!(unlinkInj && c.kind == "unlink" && idx[c.kind] == 1) {
			note = fmt.Sprintf(" NOTE:injection-hit-%s-%d", c.kind, idx[c.kind])
		}
		if c.dead {
			if c.kind != killKind || idx[c.kind] != killIdx {
				note = fmt.Sprintf(" NOTE:killed-in-%s-%d", c.kind, idx[c.kind])
			}
			continue
		}
		seq = append(seq, c.canon)
	}
	// a run of collisions is written once, with its length
	var col []string
	for i := 0; i < len(seq); {
		j := i
		for j < len(seq) && seq[j] == seq[i] && strings.HasPrefix(seq[i], "create tmp* ") {
			j++
		}
		if j > i {
			col = append(col, fmt.Sprintf("%s x%d", seq[i], j-i))
			i = j
		} else {
			col = append(col, seq[i])
			i++
		}
	}
	sq := strings.Join(col, ";")
	if sq == "" {
		sq = "-"
	}
	ex := extras(dir)
	t := "absent"
	if len(ex) == 1 {
		t = fileState(filepath.Join(dir, ex[0]))
	} else if len(ex) > 1 {
		t = "MULTI"
	}
	tgt := ""
	if kmode {
		tgt = kindsSuffix(old, dir, &sq, &res)
	}
	if f[0] == "trace" {
		if res == "" {
			res = "none"
		}
		return fmt.Sprintf("seq=%s res=%s dst=%s tmp=%s reader=%s%s%s%s", sq, res, fileState(dst), t, rs, tgt, note, targetCheck(dir, old)), note != "" || strings.HasPrefix(rs, "BAD")
	}
	return fmt.Sprintf("seq=%s dst=%s tmp=%s reader=%s%s%s%s", sq, fileState(dst), t, rs, tgt, note, targetCheck(dir, old)), note != "" || strings.HasPrefix(rs, "BAD")
}
