package main

import "github.com/richardwilkes/toolbox/notifier"

// dump uses the white-box accessor injected by go/overlay/c17_notifier_dump.go.
func dump(w *world, n int) string {
	return w.ns[n].VerifDump(func(t notifier.Target) int { return w.ids[t] })
}
