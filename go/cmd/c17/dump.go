//go:build !nooverlay

package main

import "github.com/richardwilkes/toolbox/notifier"

// wbDump uses the white-box accessor injected by go/overlay/c17_notifier_dump.go ("" = representation not recognised).
func wbDump(n *notifier.Notifier, idOf func(notifier.Target) int) string { return n.VerifDump(idOf) }
