package main

import (
	"math"
	"strconv"
	"strings"

	"verifharness/hx"
)

var pool = []string{"a", "a", "a", "b", "b", "bc", "c", "a", "b", "foo", "bar", "barn"}
var prios = []int{-3, -1, 0, 0, 1, 1, 2, 2, 5, 7}

// extreme priorities ("always first" / "always last"): differences that do not fit an int
var bigPrios = []int{math.MaxInt, math.MaxInt, math.MaxInt - 1, math.MinInt, math.MinInt, math.MinInt + 1, 1 << 62, -(1 << 62),
	math.MaxInt/2 + 1, math.MaxInt / 2, math.MaxInt/2 - 1, -(math.MaxInt / 2) - 2, math.MinInt / 2, 1<<62 - 1, -(1 << 62) - 1,
	1 << 31, -(1 << 31), 1<<31 - 1, 1 << 32, -(1 << 32), 1<<32 + 1, 999999999, 1000000000, 1000000001, -1000000000,
	1e18, -1e18, 1e18 + 1, 255, 256, 65535, 65536, -65536, 0, 1, -1}

func genPrio(r *hx.Rng) int {
	if r.Chance(1, 4) {
		return hx.Pick(r, bigPrios)
	}
	return hx.Pick(r, prios)
}

func genSegs(r *hx.Rng) []string {
	d := 1 + r.Intn(2)
	if r.Chance(1, 5) {
		d = 3 + r.Intn(2)
	}
	s := make([]string, d)
	for i := range s {
		s[i] = hx.Pick(r, pool)
	}
	return s
}

// render writes the segments with noise dots (empty segments, repeated/leading/trailing dots).
func render(r *hx.Rng, s []string) string {
	var sb strings.Builder
	if r.Chance(1, 6) {
		sb.WriteString(strings.Repeat(".", 1+r.Intn(2)))
	}
	for i, x := range s {
		if i > 0 {
			sb.WriteByte('.')
			if r.Chance(1, 6) {
				sb.WriteString(strings.Repeat(".", 1+r.Intn(2)))
			}
		}
		sb.WriteString(x)
	}
	if r.Chance(1, 6) {
		sb.WriteString(strings.Repeat(".", 1+r.Intn(2)))
	}
	return sb.String()
}

// related derives a name from a known one: itself, a child, a parent, or a textual extension of the last segment.
func related(r *hx.Rng, known [][]string) []string {
	if len(known) == 0 {
		return genSegs(r)
	}
	base := append([]string(nil), hx.Pick(r, known)...)
	switch r.Intn(7) {
	case 0, 1:
		return base
	case 2, 3:
		return append(base, hx.Pick(r, pool))
	case 4:
		if len(base) > 1 {
			return base[:len(base)-1]
		}
		return base
	case 5: // shares a textual prefix only: a.b -> a.bc, foo.bar -> foo.barn
		base[len(base)-1] += hx.Pick(r, []string{"c", "n", "a"})
		return base
	default: // textual prefix of the last segment: a.bc -> a.b
		l := base[len(base)-1]
		if len(l) > 1 {
			base[len(base)-1] = l[:len(l)-1]
		}
		return base
	}
}

func genName(r *hx.Rng, known *[][]string, learn bool) string {
	if r.Chance(1, 20) {
		return hx.Pick(r, []string{"", ".", "..", "..."})
	}
	var s []string
	if r.Chance(5, 6) {
		s = related(r, *known)
	} else {
		s = genSegs(r)
	}
	if !learn {
		return render(r, s)
	}
	if len(*known) < 6 {
		*known = append(*known, s)
	} else if r.Chance(1, 6) {
		(*known)[r.Intn(len(*known))] = s
	}
	return render(r, s)
}

func hexName(s string) string { return hx.Hex([]byte(s)) }

func pickTarget(r *hx.Rng) int {
	switch r.Intn(10) {
	case 0:
		return hx.Pick(r, []int{reentrant, reentrant, reentrantBatch})
	case 1:
		return 5 + r.Intn(numTargets-5)
	default:
		return r.Intn(5)
	}
}

func pickNotifier(r *hx.Rng) string {
	if r.Chance(2, 3) {
		return "0" // most of the action on one notifier so that histories are deep
	}
	return strconv.Itoa(r.Intn(numNotifiers))
}

// armOp is an operation for the re-entrant target to perform from inside HandleNotification.
func armOp(r *hx.Rng, known *[][]string) string {
	nn := pickNotifier(r)
	switch r.Intn(14) {
	case 8, 9:
		return "notify " + nn + " " + hexName(genName(r, known, false))
	case 10:
		return "notifyd " + nn + " " + hexName(genName(r, known, false)) + " " + strconv.Itoa(r.Intn(10))
	case 11:
		return "start " + nn
	case 12, 13:
		return "end " + nn
	case 0, 1:
		return "reg " + nn + " " + strconv.Itoa(pickTarget(r)) + " " + strconv.Itoa(genPrio(r)) + " " + hexName(genName(r, known, true))
	case 2, 3:
		return "unreg " + nn + " " + strconv.Itoa(pickTarget(r))
	case 4:
		return "unreg " + nn + " " + strconv.Itoa(reentrant)
	case 5:
		return "enable " + nn + " " + strconv.Itoa(r.Intn(2))
	case 6:
		return "nreset " + nn
	default:
		return "merge " + nn + " " + strconv.Itoa(r.Intn(numNotifiers))
	}
}

// randomOp is one step of the free-form histories.
func (a *area) randomOp(r *hx.Rng, known *[][]string, emit func(string)) {
	nn := pickNotifier(r)
	t := strconv.Itoa(pickTarget(r))
	switch x := r.Intn(100); {
	case x < 27:
		cnt := 1
		switch r.Intn(8) {
		case 0:
			cnt = 0
		case 1, 2:
			cnt = 2
		case 3:
			cnt = 3
		}
		parts := []string{"reg", nn, t, strconv.Itoa(genPrio(r))}
		for j := 0; j < cnt; j++ {
			parts = append(parts, hexName(genName(r, known, true)))
		}
		emit(strings.Join(parts, " "))
	case x < 58:
		nm := hexName(genName(r, known, false))
		switch r.Intn(8) {
		case 0:
			emit("notifyd " + nn + " " + nm + " " + strconv.Itoa(r.Intn(10)))
		case 1:
			emit("notifyd " + nn + " " + nm)
		case 2:
			emit("notify " + nn + " " + nm + " nilproducer")
		default:
			emit("notify " + nn + " " + nm)
		}
	case x < 65:
		emit("unreg " + nn + " " + t)
	case x < 72:
		emit("merge " + nn + " " + strconv.Itoa(r.Intn(numNotifiers)))
	case x < 77:
		emit("enable " + nn + " " + strconv.Itoa(min(1, r.Intn(3))))
	case x < 80:
		emit("nreset " + nn)
	case x < 86:
		emit("start " + nn)
	case x < 94:
		emit("end " + nn)
	case x < 97:
		emit("arm " + nn + " " + armOp(r, known))
	default:
		if a.dumps {
			emit("dump " + nn)
		} else {
			emit("notify " + nn + " " + hexName(genName(r, known, false)))
		}
	}
}

var crowdSizes = []int{11, 12, 13, 15, 16, 17, 18, 31, 32, 33, 50, 63, 64, 65, 100, 127, 128}

// scenario emits a history with a specific shape (HARDENING classes 2, 5, 6, 8) and returns the number of lines.
func (a *area) scenario(r *hx.Rng, emit func(string)) int {
	c := 0
	e := func(s string) { emit(s); c++ }
	var known [][]string
	dump := func(n int) {
		if a.dumps {
			e("dump " + strconv.Itoa(n))
		}
	}
	switch r.Intn(11) {
	case 9, 10: // a new batch starts (or the batch ends) from inside a BatchMode callback: the snapshot being delivered
		// must not share storage with the registry (ind4-c17-b)
		nn := strconv.Itoa(r.Intn(numNotifiers))
		k := r.Range(2, 24)
		e("reg " + nn + " " + strconv.Itoa(reentrantBatch) + " 0 " + hexName("a"))
		for i := 0; i < k; i++ {
			e("reg " + nn + " " + strconv.Itoa(hx.Pick(r, []int{1, 3, 4, 7, 13, 16, 19, 22, 25, 28, 31, 34, 37, 40, 43, 46})) + " 0 " + hexName("a"))
		}
		for i := 0; i < r.Range(2, 5); i++ {
			e("start " + nn)
			switch r.Intn(4) {
			case 0:
				e("arm " + nn + " start " + nn)
			case 1:
				e("arm " + nn + " end " + nn)
			case 2:
				e("arm " + nn + " unreg " + nn + " " + strconv.Itoa(hx.Pick(r, []int{1, 3, 4, 7, reentrantBatch})))
			default:
				e("arm " + nn + " notify " + nn + " " + hexName("a.b"))
			}
			e("end " + nn)
			e("end " + nn)
			e("start " + nn)
			e("arm " + nn + " start " + nn)
			e("end " + nn)
			e("end " + nn)
			e("end " + nn)
		}
		dump(idx(nn, numNotifiers))
	case 0: // crowd: many targets on one name (sort cut-offs), few distinct priorities, some on the ancestor
		k := hx.Pick(r, crowdSizes)
		ps := []int{genPrio(r), genPrio(r), hx.Pick(r, prios)}
		if r.Chance(1, 3) {
			ps = ps[:1] // all equal
		}
		perm := make([]int, numTargets)
		for i := range perm {
			perm[i] = i
		}
		for i := len(perm) - 1; i > 0; i-- {
			j := r.Intn(i + 1)
			perm[i], perm[j] = perm[j], perm[i]
		}
		for _, t := range perm[:k] {
			nm := "a.b"
			if r.Chance(1, 5) {
				nm = "a"
			}
			e("reg 0 " + strconv.Itoa(t) + " " + strconv.Itoa(hx.Pick(r, ps)) + " " + hexName(nm))
			if r.Chance(1, 8) {
				e("reg 0 " + strconv.Itoa(t) + " " + strconv.Itoa(genPrio(r)) + " " + hexName("a.b.c"))
			}
		}
		e("notify 0 " + hexName("a.b"))
		e("notifyd 0 " + hexName("a.b.c") + " " + strconv.Itoa(r.Intn(10)))
		e("start 0")
		e("notify 0 " + hexName("a"))
		for _, t := range perm[:k/2] {
			e("unreg 0 " + strconv.Itoa(t))
		}
		e("merge 1 0")
		e("end 0")
		e("notify 0 " + hexName("a.b"))
		e("notify 1 " + hexName("a.b.x"))
		e("start 1")
		e("end 1")
		dump(0)
		dump(1)
	case 1: // one target under many names, in one call or in many, with non-normalised spellings; then Unregister
		t := strconv.Itoa(pickTarget(r))
		k := r.Range(18, 40)
		var names []string
		for i := 0; i < k; i++ {
			names = append(names, render(r, append(genSegs(r), "n"+strconv.Itoa(i%23))))
		}
		if r.Bool() {
			parts := []string{"reg", "0", t, strconv.Itoa(genPrio(r))}
			for _, nm := range names {
				parts = append(parts, hexName(nm))
			}
			e(strings.Join(parts, " "))
		} else {
			for _, nm := range names {
				e("reg 0 " + t + " " + strconv.Itoa(genPrio(r)) + " " + hexName(nm))
			}
		}
		e("reg 0 0 1 " + hexName(names[0]))
		for i := 0; i < 4; i++ {
			e("notify 0 " + hexName(strings.Trim(hx.Pick(r, names), ".")+".x"))
		}
		dump(0)
		e("merge 2 0")
		e("unreg 0 " + t)
		for i := 0; i < 4; i++ {
			e("notify 0 " + hexName(hx.Pick(r, names)))
		}
		e("notify 2 " + hexName(names[1]))
		e("unreg 2 " + t)
		e("notify 2 " + hexName(names[1]))
		e("start 0")
		e("end 0")
		dump(0)
		dump(2)
	case 2: // long names: 10+ segments, 4 KiB, hundreds of segments, names made only of dots
		depth := hx.Pick(r, []int{10, 11, 16, 17, 33, 64, 100, 300})
		sg := make([]string, depth)
		for i := range sg {
			sg[i] = hx.Pick(r, pool)
		}
		long := strings.Join(sg, ".")
		huge := "x." + strings.Repeat("y", hx.Pick(r, []int{4000, 4096, 4097, 9000})) + ".z"
		e("reg 0 0 1 " + hexName(long))
		e("reg 0 1 2 " + hexName(strings.Join(sg[:depth/2], "..")))
		e("reg 0 2 3 " + hexName(sg[0]))
		e("reg 0 4 " + strconv.Itoa(genPrio(r)) + " " + hexName(huge) + " " + hexName(strings.Repeat(".", 300)))
		e("reg 0 3 0 " + hexName(strings.Repeat(".", 4096)) + " " + hexName(""))
		e("notify 0 " + hexName(long))
		e("notify 0 " + hexName(long+".tail"))
		e("notify 0 " + hexName("."+strings.Join(sg[:depth-1], "...")))
		e("notify 0 " + hexName(long+"x"))
		e("notify 0 " + hexName(huge))
		e("notifyd 0 " + hexName(huge+".q") + " " + strconv.Itoa(r.Intn(10)))
		e("notify 0 " + hexName(huge+"q"))
		e("notify 0 " + hexName(strings.Repeat(".", 4096)))
		e("notify 0 " + hexName(""))
		dump(0)
		e("unreg 0 0")
		e("notify 0 " + hexName(long))
		e("unreg 0 4")
		e("notify 0 " + hexName(huge))
		dump(0)
	case 3: // merge chains a->b->c, into itself, then mutate either side and observe the other (no shared inner maps)
		order := [][3]string{{"0", "1", "2"}, {"2", "1", "0"}, {"1", "2", "0"}}[r.Intn(3)]
		x, y, z := order[0], order[1], order[2]
		shared := strconv.Itoa(pickTarget(r)) // a target of the source that the destination registers again after the merge
		e("reg " + x + " " + shared + " " + strconv.Itoa(genPrio(r)) + " " + hexName(genName(r, &known, true)))
		for i := 0; i < r.Range(1, 5); i++ {
			e("reg " + x + " " + strconv.Itoa(pickTarget(r)) + " " + strconv.Itoa(genPrio(r)) + " " + hexName(genName(r, &known, true)))
		}
		if r.Bool() {
			e("reg " + y + " " + strconv.Itoa(pickTarget(r)) + " " + strconv.Itoa(genPrio(r)) + " " + hexName(genName(r, &known, true)))
		}
		e("merge " + y + " " + x)
		// the inner maps must have been COPIED: a Register on the destination for a target / name of the source must not
		// show in the source's maps (white-box dump of the SOURCE), and vice versa
		e("reg " + y + " " + shared + " " + strconv.Itoa(genPrio(r)) + " " + hexName(genName(r, &known, true)))
		dump(idx(x, numNotifiers))
		e("reg " + x + " " + shared + " " + strconv.Itoa(genPrio(r)) + " " + hexName(genName(r, &known, true)))
		dump(idx(y, numNotifiers))
		e("merge " + z + " " + y)
		e("merge " + x + " " + x)
		if r.Bool() {
			e("merge " + x + " " + z)
		}
		for i := 0; i < r.Range(3, 8); i++ {
			side := hx.Pick(r, []string{x, y, z})
			switch r.Intn(4) {
			case 0:
				e("unreg " + side + " " + strconv.Itoa(pickTarget(r)))
			case 1:
				e("nreset " + side)
			default:
				e("reg " + side + " " + strconv.Itoa(pickTarget(r)) + " " + strconv.Itoa(genPrio(r)) + " " + hexName(genName(r, &known, true)))
			}
			for _, o := range []string{x, y, z} {
				e("notify " + o + " " + hexName(genName(r, &known, false)))
			}
			if r.Chance(1, 3) {
				e("start " + hx.Pick(r, []string{x, y, z}))
			}
		}
		for _, o := range []string{x, y, z} {
			e("end " + o)
			e("start " + o)
			e("end " + o)
		}
		dump(0)
		dump(1)
		dump(2)
	case 4: // deep nesting, unmatched ends, Reset / SetEnabled inside a batch
		nn := strconv.Itoa(r.Intn(numNotifiers))
		for i := 0; i < r.Range(1, 4); i++ {
			e("reg " + nn + " " + strconv.Itoa(hx.Pick(r, []int{1, 3, 4, 7, 10, 0, 2})) + " 0 " + hexName("a"))
		}
		if r.Chance(1, 4) {
			e("end " + nn) // unmatched at level 0
		}
		d := r.Range(8, 14)
		for i := 0; i < d; i++ {
			e("start " + nn)
			if r.Chance(1, 6) {
				e("reg " + nn + " " + strconv.Itoa(hx.Pick(r, []int{1, 3, 4, 7, 10})) + " 0 " + hexName("a"))
			}
			if r.Chance(1, 6) {
				e("unreg " + nn + " " + strconv.Itoa(hx.Pick(r, []int{1, 3, 4, 7})))
			}
			if r.Chance(1, 12) {
				e("enable " + nn + " 0")
				e("start " + nn)
				e("end " + nn)
				e("enable " + nn + " 1")
			}
			if r.Chance(1, 20) {
				e("nreset " + nn)
				e("reg " + nn + " 4 0 " + hexName("a"))
			}
		}
		e("notify " + nn + " " + hexName("a"))
		for i := 0; i < d+r.Range(0, 3); i++ {
			e("end " + nn)
		}
		e("start " + nn)
		e("end " + nn)
		dump(idx(nn, numNotifiers))
	case 5: // drain to empty and regrow; the only target; the same target twice
		k := r.Range(1, 6)
		var tsl []string
		for i := 0; i < k; i++ {
			t := strconv.Itoa(pickTarget(r))
			tsl = append(tsl, t)
			e("reg 0 " + t + " " + strconv.Itoa(genPrio(r)) + " " + hexName(genName(r, &known, true)))
		}
		e("reg 0 " + tsl[0] + " " + strconv.Itoa(genPrio(r)) + " " + hexName(genName(r, &known, true)))
		e("notify 0 " + hexName(genName(r, &known, false)))
		for _, t := range tsl {
			e("unreg 0 " + t)
			if r.Chance(1, 3) {
				e("unreg 0 " + t) // twice
			}
			e("notify 0 " + hexName(genName(r, &known, false)))
		}
		dump(0)
		e("start 0")
		e("end 0")
		for _, t := range tsl {
			e("reg 0 " + t + " " + strconv.Itoa(genPrio(r)) + " " + hexName(genName(r, &known, true)))
		}
		e("notify 0 " + hexName(genName(r, &known, false)))
		e("notify 0 " + hexName(genName(r, &known, false)))
		e("start 0")
		e("end 0")
		dump(0)
	case 6, 7: // re-entrancy: a target calls back into a notifier from inside HandleNotification / BatchMode
		nn := strconv.Itoa(r.Intn(2))
		nm := genName(r, &known, true)
		e("reg " + nn + " " + strconv.Itoa(reentrant) + " " + strconv.Itoa(genPrio(r)) + " " + hexName(nm))
		if r.Bool() {
			e("reg " + nn + " " + strconv.Itoa(reentrantBatch) + " " + strconv.Itoa(genPrio(r)) + " " + hexName(nm))
		}
		for i := 0; i < r.Range(1, 4); i++ {
			e("reg " + nn + " " + strconv.Itoa(pickTarget(r)) + " " + strconv.Itoa(genPrio(r)) + " " + hexName(nm))
		}
		for i := 0; i < r.Range(1, 4); i++ {
			op := armOp(r, &known)
			if r.Bool() {
				op = strings.Replace(op, " "+strings.Fields(op)[1]+" ", " "+nn+" ", 1)
			}
			if r.Chance(1, 2) { // deeper nesting: the notifications armed first re-enter and pop the following operations
				for k := r.Range(1, 3); k > 0; k-- {
					if r.Chance(2, 3) {
						e("arm " + nn + " notify " + nn + " " + hexName(nm))
					} else {
						e("arm " + nn + " start " + nn)
					}
				}
			}
			e("arm " + nn + " " + op)
			e("notify " + nn + " " + hexName(nm))
			e("notify " + nn + " " + hexName(nm+".k"))
			e("start " + nn)
			e("end " + nn)
		}
		dump(0)
		dump(1)
	default: // an operation immediately after a configuration change
		nn := strconv.Itoa(r.Intn(numNotifiers))
		e("reg " + nn + " 1 1 " + hexName("a"))
		e("reg " + nn + " 0 2 " + hexName("a"))
		for i := 0; i < r.Range(2, 6); i++ {
			e("enable " + nn + " " + strconv.Itoa(r.Intn(2)))
			switch r.Intn(6) {
			case 0:
				e("notify " + nn + " " + hexName("a"))
			case 1:
				e("start " + nn)
			case 2:
				e("end " + nn)
			case 3:
				e("nreset " + nn)
				e("reg " + nn + " 1 1 " + hexName("a"))
			case 4:
				e("unreg " + nn + " 1")
				e("reg " + nn + " 1 1 " + hexName("a"))
			default:
				e("merge " + nn + " " + strconv.Itoa(r.Intn(numNotifiers)))
			}
			e("notify " + nn + " " + hexName("a.b"))
		}
		e("enable " + nn + " 1")
		e("end " + nn)
		e("start " + nn)
		e("end " + nn)
		dump(idx(nn, numNotifiers))
	}
	return c
}

func (a *area) Gen(r *hx.Rng, n int, _ string, emit func(string)) {
	count := 0
	for count < n {
		emit("reset")
		if r.Chance(1, 5) {
			count += a.scenario(r, emit)
			continue
		}
		var known [][]string
		k := r.Range(6, 40)
		for i := 0; i < k; i++ {
			a.randomOp(r, &known, emit)
			count++
			if a.dumps && r.Chance(1, 3) { // white-box stream: the three maps are compared after about every third operation
				emit("dump " + pickNotifier(r))
				count++
			}
		}
		if a.dumps {
			emit("dump 0")
			emit("dump 1")
			emit("dump 2")
			count += 3
		}
	}
}
