//go:build nooverlay

package main

import "github.com/richardwilkes/toolbox/notifier"

// wbDump under the black-box fallback build (the overlay did not compile against the working tree): no white-box view.
func wbDump(*notifier.Notifier, func(notifier.Target) int) string { return "" }
