package main

import (
	"bytes"
	"encoding/hex"
	"fmt"
	"runtime"
	"sort"
	"strconv"
	"strings"
	"sync"
	"sync/atomic"
	"time"

	"github.com/richardwilkes/toolbox/notifier"
	"verifharness/hx"
)

// raceArea: the concurrent oracle, meant for the -race build (GORACE=halt_on_error=1: a race report kills the process
// and the check reports the crash of that line).  No Lean model runs here; the judge is the CONCLUSION of the theorems
// C17.concurrent_registry_linearizable / notify_delivers_snapshot / batch_delivers_snapshot:
//
//   - linearizability rounds: from a quiescent registry (equal to the reference), 2-4 goroutines each run a short program
//     of exported calls concurrently; every call is stamped at call and return, every callback is attributed to the call
//     that made it.  The round passes iff there is ONE order of all calls -- respecting each goroutine's program order and
//     real time (a call that returned before another was made comes first) -- in which the sequential reference (`ref`,
//     the same rules as the Lean model; the deterministic streams tie the model to the code) gives, for every call,
//     exactly what was observed: the targets of every Notify (each once, non-increasing in the reference priority, the
//     normalised name, the data passed through), the targets of every BatchMode broadcast, the values of Enabled() and
//     BatchLevel(), the maps copied out by RegisterFromNotifier, and in the end the three maps, the current batch, the
//     level and the flag of the real notifier (white-box dump);
//   - a free-running phase (StartBatch/EndBatch in any order, no Reset/SetEnabled), then the level drained to 0:
//     BatchMode(true) and BatchMode(false) counts are equal for every target, no delivery is duplicated, one recovery
//     report per panic.
//
// A deadlock (60 s), a panic escaping the notifier, or any judge failure is a FAIL line.
type raceArea struct{}

const raceTargets = 6

func (raceArea) Gen(r *hx.Rng, n int, _ string, emit func(string)) {
	for i := 0; i < n; i++ {
		emit(fmt.Sprintf("stress %d %d %d", r.U64()%1000000, r.Range(2, 4), r.Range(60, 160)))
	}
}

// ---------------------------------------------------------------------------------------------- reference

type ref struct {
	prod    map[string]map[int]int
	names   map[int]map[string]bool
	batch   map[int]bool
	current []int
	level   int
	enabled bool
}

func newRef() *ref {
	return &ref{prod: map[string]map[int]int{}, names: map[int]map[string]bool{}, batch: map[int]bool{}, enabled: true}
}

func (r *ref) clone() *ref {
	c := newRef()
	for n, set := range r.prod {
		m := make(map[int]int, len(set))
		for t, p := range set {
			m[t] = p
		}
		c.prod[n] = m
	}
	for t, nm := range r.names {
		m := make(map[string]bool, len(nm))
		for n := range nm {
			m[n] = true
		}
		c.names[t] = m
	}
	for t := range r.batch {
		c.batch[t] = true
	}
	c.current = append([]int(nil), r.current...)
	c.level, c.enabled = r.level, r.enabled
	return c
}

func (r *ref) register(t, prio int, names []string) {
	var ns []string
	for _, nm := range names {
		if s := segs(nm); len(s) > 0 {
			ns = append(ns, strings.Join(s, "."))
		}
	}
	if len(ns) == 0 {
		return
	}
	if isBatch(t) {
		r.batch[t] = true
	}
	if r.names[t] == nil {
		r.names[t] = map[string]bool{}
	}
	for _, n := range ns {
		if r.prod[n] == nil {
			r.prod[n] = map[int]int{}
		}
		r.prod[n][t] = prio
		r.names[t][n] = true
	}
}

func (r *ref) unregister(t int) {
	nm, ok := r.names[t]
	if !ok {
		return
	}
	delete(r.batch, t)
	for n := range nm {
		if set, ok2 := r.prod[n]; ok2 {
			delete(set, t)
			if len(set) == 0 {
				delete(r.prod, n)
			}
		}
	}
	delete(r.names, t)
}

func (r *ref) merge(o *ref) {
	for t := range o.batch {
		r.batch[t] = true
	}
	for n, set := range o.prod {
		if r.prod[n] == nil {
			r.prod[n] = map[int]int{}
		}
		for t, p := range set {
			r.prod[n][t] = p
		}
	}
	for t, nm := range o.names {
		if r.names[t] == nil {
			r.names[t] = map[string]bool{}
		}
		for n := range nm {
			r.names[t][n] = true
		}
	}
}

func (r *ref) reset() {
	r.prod, r.names, r.batch = map[string]map[int]int{}, map[int]map[string]bool{}, map[int]bool{}
	r.current, r.level = nil, 0
}

func (r *ref) startBatch() []int {
	if !r.enabled {
		return nil
	}
	r.level++
	if r.level == 1 && len(r.batch) > 0 {
		r.current = r.current[:0:0]
		for t := range r.batch {
			r.current = append(r.current, t)
		}
		sort.Ints(r.current)
		return r.current
	}
	return nil
}

func (r *ref) endBatch() []int {
	if r.enabled && r.level > 0 {
		r.level--
		if r.level == 0 {
			t := r.current
			r.current = nil
			return t
		}
	}
	return nil
}

func (r *ref) notify(name string) map[int]int {
	if !r.enabled {
		return nil
	}
	s := segs(name)
	tg := map[int]int{}
	for k := 1; k <= len(s); k++ {
		if set, ok := r.prod[strings.Join(s[:k], ".")]; ok {
			for t, p := range set {
				tg[t] = p
			}
		}
	}
	return tg
}

// dump renders the reference like the white-box accessor VerifDump renders the real notifier.
func (r *ref) dump(full bool) string {
	var prod []string
	for name, set := range r.prod {
		if len(set) == 0 {
			continue
		}
		ids := make([]int, 0, len(set))
		for t := range set {
			ids = append(ids, t)
		}
		sort.Ints(ids)
		parts := make([]string, len(ids))
		for i, id := range ids {
			parts[i] = fmt.Sprintf("%d:%d", id, set[id])
		}
		prod = append(prod, hex.EncodeToString([]byte(name))+"="+strings.Join(parts, ","))
	}
	sort.Strings(prod)
	var tids []int
	for t, nm := range r.names {
		if len(nm) > 0 {
			tids = append(tids, t)
		}
	}
	sort.Ints(tids)
	nameL := make([]string, len(tids))
	for i, id := range tids {
		var l []string
		for n := range r.names[id] {
			l = append(l, hex.EncodeToString([]byte(n)))
		}
		sort.Strings(l)
		nameL[i] = fmt.Sprintf("%d=%s", id, strings.Join(l, ","))
	}
	ints := func(l []int) string {
		l = append([]int(nil), l...)
		sort.Ints(l)
		s := make([]string, len(l))
		for i, v := range l {
			s[i] = strconv.Itoa(v)
		}
		return strings.Join(s, ",")
	}
	var b []int
	for t := range r.batch {
		b = append(b, t)
	}
	if !full {
		return fmt.Sprintf("P[%s] N[%s] B[%s]", strings.Join(prod, " "), strings.Join(nameL, " "), ints(b))
	}
	e := 0
	if r.enabled {
		e = 1
	}
	return fmt.Sprintf("P[%s] N[%s] B[%s] C[%s] L%d E%d", strings.Join(prod, " "), strings.Join(nameL, " "), ints(b),
		ints(r.current), r.level, e)
}

// ---------------------------------------------------------------------------------------------- instrumentation

func goid() int64 {
	var buf [64]byte
	b := buf[:runtime.Stack(buf[:], false)]
	b = bytes.TrimPrefix(b, []byte("goroutine "))
	i := bytes.IndexByte(b, ' ')
	id, _ := strconv.ParseInt(string(b[:i]), 10, 64)
	return id
}

type hcall struct {
	t    int
	name string
}

type bcall struct {
	t     int
	start bool
}

// opRec is one exported call made by a goroutine, with what was observed.
type opRec struct {
	kind      string // reg unreg notify start end enable reset merge enabled level copyout
	t, prio   int
	names     []string
	flag      bool
	data      any
	call, ret int64
	handles   []hcall
	batches   []bcall
	badData   bool
	boolRes   bool
	intRes    int
	dumpRes   string
}

func (o *opRec) String() string {
	s := fmt.Sprintf("%s[%d..%d]", o.kind, o.call, o.ret)
	switch o.kind {
	case "reg":
		s += fmt.Sprintf("(t%d,%d,%q)", o.t, o.prio, o.names)
	case "unreg":
		s += fmt.Sprintf("(t%d)", o.t)
	case "notify":
		s += fmt.Sprintf("(%q)->%v", o.names[0], o.handles)
	case "start", "end":
		s += fmt.Sprintf("->%v", o.batches)
	case "enable":
		s += fmt.Sprintf("(%v)", o.flag)
	case "enabled":
		s += fmt.Sprintf("->%v", o.boolRes)
	case "level":
		s += fmt.Sprintf("->%d", o.intRes)
	}
	return s
}

// enc renders the call with what it observed for the Lean judge (drv_c17 `lin` lines): kind,call,ret,args...
func (o *opRec) enc() string {
	hexs := func(x string) string {
		if x == "" {
			return "-"
		}
		return hex.EncodeToString([]byte(x))
	}
	bit := func(b bool) string {
		if b {
			return "1"
		}
		return "0"
	}
	p := fmt.Sprintf("%s,%d,%d", o.kind, o.call, o.ret)
	switch o.kind {
	case "reg":
		p += fmt.Sprintf(",%d,%d", o.t, o.prio)
		for _, n := range o.names {
			p += "," + hexs(n)
		}
	case "unreg":
		p += fmt.Sprintf(",%d", o.t)
	case "notify":
		l := make([]string, len(o.handles))
		for i, h := range o.handles {
			l[i] = fmt.Sprintf("%d:%s", h.t, hexs(h.name))
		}
		hs := "-"
		if len(l) > 0 {
			hs = strings.Join(l, "/")
		}
		p += "," + hexs(o.names[0]) + "," + bit(o.badData) + "," + hs
	case "start", "end":
		l := make([]string, len(o.batches))
		for i, b := range o.batches {
			l[i] = fmt.Sprintf("%d:%s", b.t, bit(b.start))
		}
		bs := "-"
		if len(l) > 0 {
			bs = strings.Join(l, "/")
		}
		p += "," + bs
	case "enable":
		p += "," + bit(o.flag)
	case "enabled":
		p += "," + bit(o.boolRes)
	case "level":
		p += fmt.Sprintf(",%d", o.intRes)
	case "copyout":
		p += "," + hexs(o.dumpRes)
	}
	return p
}

// encRound renders one round (the programs of all goroutines and the white-box dump of the registry afterwards).
func encRound(progs [][]*opRec, final string) string {
	var sb strings.Builder
	if final == "" {
		sb.WriteString("-")
	} else {
		sb.WriteString(hex.EncodeToString([]byte(final)))
	}
	for k, p := range progs {
		if k > 0 {
			sb.WriteString(" |")
		}
		for _, o := range p {
			sb.WriteString(" " + o.enc())
		}
	}
	return sb.String()
}

type raceWorld struct {
	cur     sync.Map // goroutine id -> *opRec: the call that goroutine is inside
	stray   atomic.Int64
	recs    atomic.Int64
	booms   atomic.Int64
	trueCt  [raceTargets]atomic.Int64
	falseCt [raceTargets]atomic.Int64
	dupMu   sync.Mutex
	seen    map[[2]int64]bool // (call stamp, target): a delivery of that Notify to that target
	dups    atomic.Int64
}

type raceT struct {
	w  *raceWorld
	id int
}

func (t *raceT) HandleNotification(name string, data, _ any) {
	if v, ok := t.w.cur.Load(goid()); ok {
		o := v.(*opRec)
		o.handles = append(o.handles, hcall{t: t.id, name: name})
		if !same(data, o.data) {
			o.badData = true
		}
		t.w.dupMu.Lock()
		k := [2]int64{o.call, int64(t.id)}
		if t.w.seen[k] {
			t.w.dups.Add(1)
		}
		t.w.seen[k] = true
		t.w.dupMu.Unlock()
	} else {
		t.w.stray.Add(1)
	}
	if panics(t.id) {
		t.w.booms.Add(1)
		panic(fmt.Sprintf("target %d", t.id))
	}
}

type raceBT struct{ raceT }

func (t *raceBT) BatchMode(start bool) {
	if start {
		t.w.trueCt[t.id].Add(1)
	} else {
		t.w.falseCt[t.id].Add(1)
	}
	if v, ok := t.w.cur.Load(goid()); ok {
		o := v.(*opRec)
		o.batches = append(o.batches, bcall{t: t.id, start: start})
	} else {
		t.w.stray.Add(1)
	}
	if panics(t.id) {
		t.w.booms.Add(1)
		panic(fmt.Sprintf("target %d batch", t.id))
	}
}

var raceNames = []string{"a", "a.b", "a.bc", "a.b.c", "b", "..a..b.", "foo.bar", "foo.barn", "", "a...b"}

// genBatchOp: rounds that concentrate on the batch bookkeeping (level, current batch, batch-target set).
func genBatchOp(r *hx.Rng) *opRec {
	switch x := r.Intn(100); {
	case x < 36:
		return &opRec{kind: "start"}
	case x < 72:
		return &opRec{kind: "end"}
	case x < 80:
		return &opRec{kind: "level"}
	case x < 90:
		return &opRec{kind: "reg", t: hx.Pick(r, []int{1, 3, 4}), prio: r.Intn(3), names: []string{"a"}}
	case x < 96:
		return &opRec{kind: "unreg", t: hx.Pick(r, []int{1, 3, 4})}
	default:
		return &opRec{kind: "enable", flag: r.Intn(3) != 0}
	}
}

func genRaceOp(r *hx.Rng) *opRec {
	switch x := r.Intn(100); {
	case x < 24:
		return &opRec{kind: "reg", t: r.Intn(raceTargets), prio: hx.Pick(r, []int{0, 0, 1, 2, -1, 1 << 62, -(1 << 62)}),
			names: []string{hx.Pick(r, raceNames), hx.Pick(r, raceNames)}}
	case x < 52:
		return &opRec{kind: "notify", names: []string{hx.Pick(r, raceNames)}, data: int(r.Intn(1000))}
	case x < 62:
		return &opRec{kind: "unreg", t: r.Intn(raceTargets)}
	case x < 69:
		return &opRec{kind: "merge"}
	case x < 74:
		return &opRec{kind: "enable", flag: r.Intn(4) != 0}
	case x < 76:
		return &opRec{kind: "reset"}
	case x < 83:
		return &opRec{kind: "start"}
	case x < 90:
		return &opRec{kind: "end"}
	case x < 93:
		return &opRec{kind: "enabled"}
	case x < 96:
		return &opRec{kind: "level"}
	default:
		return &opRec{kind: "copyout"}
	}
}

type raceSys struct {
	w     *raceWorld
	n     *notifier.Notifier // the notifier under test
	other *notifier.Notifier // quiescent source of RegisterFromNotifier
	oref  *ref
	ts    [raceTargets]notifier.Target
	ids   map[notifier.Target]int
	clock atomic.Int64
	wb    bool // the white-box view of the registry is available
}

func newRaceSys() *raceSys {
	s := &raceSys{w: &raceWorld{seen: map[[2]int64]bool{}}, ids: map[notifier.Target]int{}, oref: newRef()}
	h := func(error) { s.w.recs.Add(1) }
	s.n, s.other = notifier.New(h), notifier.New(h)
	for i := range s.ts {
		if isBatch(i) {
			s.ts[i] = &raceBT{raceT{w: s.w, id: i}}
		} else {
			s.ts[i] = &raceT{w: s.w, id: i}
		}
		s.ids[s.ts[i]] = i
	}
	s.other.Register(s.ts[4], 3, "a", "b.x")
	s.oref.register(4, 3, []string{"a", "b.x"})
	s.other.Register(s.ts[0], -2, "a.b")
	s.oref.register(0, -2, []string{"a.b"})
	s.wb = wbDump(s.n, s.idOf) != ""
	return s
}

func (s *raceSys) idOf(t notifier.Target) int { return s.ids[t] }

// exec performs one call on the real notifier, stamped.
func (s *raceSys) exec(o *opRec) {
	g := goid()
	s.w.cur.Store(g, o)
	o.call = s.clock.Add(1)
	switch o.kind {
	case "reg":
		s.n.Register(s.ts[o.t], o.prio, o.names...)
	case "unreg":
		s.n.Unregister(s.ts[o.t])
	case "notify":
		s.n.NotifyWithData(o.names[0], o.data, s)
	case "merge":
		s.n.RegisterFromNotifier(s.other)
	case "enable":
		s.n.SetEnabled(o.flag)
	case "reset":
		s.n.Reset()
	case "start":
		s.n.StartBatch()
	case "end":
		s.n.EndBatch()
	case "enabled":
		o.boolRes = s.n.Enabled()
	case "level":
		o.intRes = s.n.BatchLevel()
	case "copyout":
		fresh := notifier.New(nil)
		fresh.RegisterFromNotifier(s.n)
		if d := wbDump(fresh, s.idOf); d != "" {
			o.dumpRes = d[:strings.Index(d, " C[")]
		}
	}
	o.ret = s.clock.Add(1)
	s.w.cur.Delete(g)
}

// apply performs the call on the reference and says whether the observation agrees.
func (s *raceSys) apply(r *ref, o *opRec) bool {
	switch o.kind {
	case "reg":
		r.register(o.t, o.prio, o.names)
	case "unreg":
		r.unregister(o.t)
	case "merge":
		r.merge(s.oref)
	case "enable":
		r.enabled = o.flag
	case "reset":
		r.reset()
	case "enabled":
		return o.boolRes == r.enabled
	case "level":
		return o.intRes == r.level
	case "copyout":
		return !s.wb || o.dumpRes == r.dump(false)
	case "start", "end":
		var want []int
		if o.kind == "start" {
			want = r.startBatch()
		} else {
			want = r.endBatch()
		}
		if len(want) != len(o.batches) {
			return false
		}
		got := make([]int, 0, len(o.batches))
		for _, b := range o.batches {
			if b.start != (o.kind == "start") {
				return false
			}
			got = append(got, b.t)
		}
		sort.Ints(got)
		for i := range got {
			if got[i] != want[i] {
				return false
			}
		}
	case "notify":
		tg := r.notify(o.names[0])
		if len(tg) != len(o.handles) || o.badData {
			return false
		}
		nm := strings.Join(segs(o.names[0]), ".")
		seen := map[int]bool{}
		for i, h := range o.handles {
			p, ok := tg[h.t]
			if !ok || seen[h.t] || h.name != nm {
				return false
			}
			seen[h.t] = true
			if i > 0 && tg[o.handles[i-1].t] < p {
				return false
			}
		}
	}
	return true
}

// linearize searches for the orders of all calls that explain every observation (and the final state, if the white-box
// view gives one); it returns the distinct reference states at the end of such orders (none: not linearizable).
func (s *raceSys) linearize(starts []*ref, progs [][]*opRec, final string) []*ref {
	idx := make([]int, len(progs))
	visited := map[string]bool{}
	finals := map[string]*ref{}
	var dfs func(r *ref)
	dfs = func(r *ref) {
		if len(finals) >= 64 {
			return
		}
		d := r.dump(true)
		done := true
		for g := range progs {
			if idx[g] < len(progs[g]) {
				done = false
			}
		}
		if done {
			if final == "" || d == final {
				finals[d] = r
			}
			return
		}
		key := fmt.Sprint(idx) + d
		if visited[key] {
			return
		}
		visited[key] = true
		for g := range progs {
			if idx[g] >= len(progs[g]) {
				continue
			}
			a := progs[g][idx[g]]
			ok := true
			for h := range progs {
				if h != g && idx[h] < len(progs[h]) && progs[h][idx[h]].ret < a.call {
					ok = false // that call returned before this one was made: it must come first
				}
			}
			if !ok {
				continue
			}
			r2 := r.clone()
			if !s.apply(r2, a) {
				continue
			}
			idx[g]++
			dfs(r2)
			idx[g]--
			if final != "" && len(finals) > 0 {
				return // the final state is known and explained: one order is enough
			}
		}
	}
	for _, st := range starts {
		dfs(st)
	}
	out := make([]*ref, 0, len(finals))
	for _, r := range finals {
		out = append(out, r)
	}
	return out
}

var crossDeadlocks int // lines of this process on which crossMerge dead-locked

// crossMerge: x.RegisterFromNotifier(y) and y.RegisterFromNotifier(x) in tight loops from two goroutines while a third
// registers and notifies on both; afterwards (one more merge each way, sequentially) both registries must hold the same
// registrations.  "" = passed.
func (s *raceSys) crossMerge() string {
	h := func(error) {}
	x, y := notifier.New(h), notifier.New(h)
	x.Register(s.ts[0], 1, "a", "x.only")
	y.Register(s.ts[1], 2, "b", "y.only")
	y.Register(s.ts[4], 0, "a.b")
	const iters = 1000
	if crossDeadlocks >= 2 { // every further line would cost another 5 s
		return "FAIL deadlock: concurrent RegisterFromNotifier calls in opposite directions (two earlier lines dead-locked; not run again)"
	}
	done := make(chan struct{}, 3)
	var progress atomic.Int64
	go func() {
		for i := 0; i < iters; i++ {
			x.RegisterFromNotifier(y)
			progress.Add(1)
		}
		done <- struct{}{}
	}()
	go func() {
		for i := 0; i < iters; i++ {
			y.RegisterFromNotifier(x)
			progress.Add(1)
		}
		done <- struct{}{}
	}()
	go func() {
		for i := 0; i < iters; i++ {
			x.Register(s.ts[5], 7, "c")
			_ = y.Enabled()
			y.Register(s.ts[5], 7, "d")
			_ = x.BatchLevel()
			progress.Add(1)
		}
		done <- struct{}{}
	}()
	// watchdog by progress, not by wall time (the machine may be heavily loaded): dead-locked = no goroutine completed a
	// single call during 3 s
	tick := time.NewTicker(500 * time.Millisecond)
	defer tick.Stop()
	last, still := int64(-1), 0
	for k := 0; k < 3; {
		select {
		case <-done:
			k++
		case <-tick.C:
			if p := progress.Load(); p == last {
				still++
			} else {
				last, still = p, 0
			}
			if still >= 6 {
				crossDeadlocks++
				return "FAIL deadlock: concurrent RegisterFromNotifier calls in opposite directions made no progress for 3s"
			}
		}
	}
	x.RegisterFromNotifier(y)
	y.RegisterFromNotifier(x)
	if s.wb {
		dx, dy := wbDump(x, s.idOf), wbDump(y, s.idOf)
		cut := func(d string) string { return d[:strings.Index(d, " C[")] }
		if cut(dx) != cut(dy) {
			return fmt.Sprintf("FAIL after merging both ways the registries differ: %s vs %s", cut(dx), cut(dy))
		}
		want := "P[612e62=4:0 61=0:1 62=1:2 63=5:7 64=5:7 782e6f6e6c79=0:1 792e6f6e6c79=1:2]"
		if !strings.HasPrefix(dx, want) {
			return fmt.Sprintf("FAIL after merging both ways: %s, expected %s ...", cut(dx), want)
		}
	}
	return ""
}

func (raceArea) Run(line string) string {
	f := strings.Fields(line)
	if len(f) != 4 || f[0] != "stress" {
		return "bad-op"
	}
	seed, _ := strconv.ParseUint(f[1], 10, 64)
	g := min(max(hx.Atoi(f[2]), 2), 4) // the search for a linearization is exponential in the number of calls per round
	rounds := min(hx.Atoi(f[3]), 400)
	res := make(chan string, 1)
	go func() { res <- raceRun(seed, g, rounds) }()
	select {
	case out := <-res:
		return out
	case <-time.After(60 * time.Second):
		return "FAIL deadlock: the goroutines did not finish within 60s"
	}
}

func raceRun(seed uint64, g, rounds int) (out string) {
	s := newRaceSys()
	r := hx.NewRng(seed)
	cands := []*ref{newRef()} // the reference states the real registry may be in (exactly one with the white-box view)
	var escaped atomic.Int64
	overlaps := 0
	var linlog []string // every judged round, for the second judge (the Lean model itself: drv_c17 `lin`)
	// ---- linearizability rounds
	for round := 0; round < rounds; round++ {
		if got := wbDump(s.n, s.idOf); s.wb && got != cands[0].dump(true) {
			return fmt.Sprintf("FAIL round %d starts from %s, reference %s", round, got, cands[0].dump(true))
		}
		batchRound := round%3 == 2
		if batchRound { // start from a state in which the batch bookkeeping matters: enabled, batch targets, level <= 1
			fix := []*opRec{{kind: "enable", flag: true}, {kind: "reg", t: 1, prio: 0, names: []string{"a"}},
				{kind: "reg", t: 4, prio: 0, names: []string{"a"}}}
			for l := s.n.BatchLevel(); l > 1; l-- {
				fix = append(fix, &opRec{kind: "end"})
			}
			for _, o := range fix {
				s.exec(o)
				var keep []*ref
				for _, c := range cands {
					if s.apply(c, o) {
						keep = append(keep, c)
					}
				}
				if len(keep) == 0 {
					return fmt.Sprintf("FAIL round %d: sequential %s disagrees with the reference", round, o)
				}
				cands = keep
			}
			linlog = append(linlog, encRound([][]*opRec{fix}, wbDump(s.n, s.idOf)))
		}
		ng := g
		if batchRound {
			ng = 4
		}
		progs := make([][]*opRec, ng)
		for k := range progs {
			most := 3 // at most 9 calls per round: the search for an order stays small even when it must fail
			if ng > 3 {
				most = 2
			}
			for i, n := 0, r.Range(1, most); i < n; i++ {
				if batchRound {
					progs[k] = append(progs[k], genBatchOp(r))
				} else {
					progs[k] = append(progs[k], genRaceOp(r))
				}
			}
		}
		var wg sync.WaitGroup
		var ready atomic.Int64
		for k := range progs {
			wg.Add(1)
			go func(p []*opRec) {
				defer wg.Done()
				defer func() {
					if recover() != nil {
						escaped.Add(1)
					}
				}()
				ready.Add(1)
				for ready.Load() < int64(len(progs)) { // spin: start together
				}
				for _, o := range p {
					s.exec(o)
				}
			}(progs[k])
		}
		wg.Wait()
		if escaped.Load() > 0 {
			return fmt.Sprintf("FAIL round %d: a panic escaped the notifier", round)
		}
		final := wbDump(s.n, s.idOf) // "" without the white-box view: only the observations are explained
		next := s.linearize(cands, progs, final)
		if len(next) == 0 {
			var sb strings.Builder
			for k, p := range progs {
				fmt.Fprintf(&sb, " g%d:", k)
				for _, o := range p {
					sb.WriteString(" " + o.String())
				}
			}
			return fmt.Sprintf("FAIL round %d not linearizable: from %s;%s; final %s", round, cands[0].dump(true), sb.String(), final)
		}
		for a := range progs {
			for b := range progs {
				if a < b && progs[a][0].call < progs[b][len(progs[b])-1].ret && progs[b][0].call < progs[a][len(progs[a])-1].ret {
					overlaps++
				}
			}
		}
		cands = next // with the white-box view: the one state equal to the real registry
		linlog = append(linlog, encRound(progs, final))
	}
	// ---- cross merges: two notifiers merged into each other concurrently, a third goroutine notifying
	// (C17.merge_never_deadlocks: the code holds one lock at a time; taking the destination's lock inside the source's
	// bracket dead-locks here within a few iterations -- reported after 5 s, not after the 60 s of the whole line)
	if msg := s.crossMerge(); msg != "" {
		return msg
	}
	// ---- free-running phase: StartBatch/EndBatch in any order from all goroutines (no Reset, no SetEnabled); every
	// outermost start broadcasts true to a snapshot and the end that brings the level back to 0 broadcasts false to the
	// same snapshot, so after draining the level to 0 the counts per target are equal
	s.exec(&opRec{kind: "enable", flag: true})
	for s.n.BatchLevel() > 0 {
		s.exec(&opRec{kind: "end"})
	}
	for i := range s.w.trueCt {
		s.w.trueCt[i].Store(0)
		s.w.falseCt[i].Store(0)
	}
	var wg sync.WaitGroup
	for k := 0; k < 4; k++ {
		wg.Add(1)
		rr := hx.NewRng(seed*977 + uint64(k))
		go func() {
			defer wg.Done()
			defer func() {
				if recover() != nil {
					escaped.Add(1)
				}
			}()
			for i := 0; i < 1200; i++ {
				switch x := rr.Intn(100); {
				case x < 12:
					s.exec(&opRec{kind: "reg", t: rr.Intn(raceTargets), prio: rr.Intn(3), names: []string{hx.Pick(rr, raceNames)}})
				case x < 18:
					s.exec(&opRec{kind: "unreg", t: rr.Intn(raceTargets)})
				case x < 30:
					s.exec(&opRec{kind: "notify", names: []string{hx.Pick(rr, raceNames)}, data: i})
				case x < 62:
					s.exec(&opRec{kind: "start"})
				case x < 64:
					s.exec(&opRec{kind: "merge"})
				default:
					s.exec(&opRec{kind: "end"})
				}
			}
		}()
	}
	wg.Wait()
	for s.n.BatchLevel() > 0 {
		s.exec(&opRec{kind: "end"})
	}
	if escaped.Load() > 0 {
		return "FAIL a panic escaped the notifier"
	}
	for i := range s.w.trueCt {
		if a, b := s.w.trueCt[i].Load(), s.w.falseCt[i].Load(); a != b {
			return fmt.Sprintf("FAIL target %d got BatchMode(true) %d times and BatchMode(false) %d times", i, a, b)
		}
	}
	if d := s.w.dups.Load(); d > 0 {
		return fmt.Sprintf("FAIL %d notifications were delivered more than once to the same target", d)
	}
	if st := s.w.stray.Load(); st > 0 {
		return fmt.Sprintf("FAIL %d callbacks outside any call", st)
	}
	if a, b := s.w.recs.Load(), s.w.booms.Load(); a != b {
		return fmt.Sprintf("FAIL %d panics but %d recovery reports", b, a)
	}
	return fmt.Sprintf("ok rounds=%d overlapping-pairs=%d LIN %s", rounds, overlaps, strings.Join(linlog, ";"))
}
