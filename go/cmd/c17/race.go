package main

import (
	"fmt"
	"strconv"
	"strings"
	"sync"
	"sync/atomic"
	"time"

	"github.com/richardwilkes/toolbox/notifier"
	"verifharness/hx"
)

// raceArea: several goroutines register, unregister, merge, toggle, batch and notify concurrently on two notifiers
// sharing five targets. Judged here (no Lean model of interleavings): under the -race build any race report kills the
// process (GORACE=halt_on_error=1 -> crash line); a notification delivered twice to one target, a deadlock (timeout),
// or a panic escaping the notifier is a FAIL.
type raceArea struct{}

const raceTargets = 6

type rTarget struct {
	mu    sync.Mutex
	seen  map[uint64]int
	dup   atomic.Int64
	calls atomic.Int64
	boom  bool
}

func (t *rTarget) HandleNotification(_ string, data, _ any) {
	t.calls.Add(1)
	id, _ := data.(uint64)
	t.mu.Lock()
	t.seen[id]++
	if t.seen[id] > 1 {
		t.dup.Add(1)
	}
	t.mu.Unlock()
	if t.boom {
		panic("boom")
	}
}

type rBatchTarget struct {
	rTarget
	batches atomic.Int64
}

func (t *rBatchTarget) BatchMode(bool) { t.batches.Add(1) }

func (raceArea) Gen(r *hx.Rng, n int, _ string, emit func(string)) {
	for i := 0; i < n; i++ {
		emit(fmt.Sprintf("stress %d %d %d", r.U64()%1000000, r.Range(3, 8), r.Range(200, 1500)))
	}
}

func (raceArea) Run(line string) string {
	f := strings.Fields(line)
	if len(f) != 4 || f[0] != "stress" {
		return "bad-op"
	}
	seed, _ := strconv.ParseUint(f[1], 10, 64)
	g := hx.Atoi(f[2])
	iters := hx.Atoi(f[3])
	var recs atomic.Int64
	ns := []*notifier.Notifier{notifier.New(func(error) { recs.Add(1) }), notifier.New(func(error) { recs.Add(1) })}
	plain := make([]*rTarget, 0, raceTargets)
	ts := make([]notifier.Target, raceTargets)
	for i := range ts {
		if isBatch(i) {
			b := &rBatchTarget{rTarget: rTarget{seen: make(map[uint64]int), boom: panics(i)}}
			ts[i] = b
			plain = append(plain, &b.rTarget)
		} else {
			p := &rTarget{seen: make(map[uint64]int), boom: panics(i)}
			ts[i] = p
			plain = append(plain, p)
		}
	}
	names := []string{"a", "a.b", "a.bc", "a.b.c", "b", "..a..b.", "foo.bar", "foo.barn", ""}
	var next atomic.Uint64
	var escaped atomic.Int64
	var wg sync.WaitGroup
	for k := 0; k < g; k++ {
		wg.Add(1)
		r := hx.NewRng(seed*131 + uint64(k))
		go func() {
			defer wg.Done()
			defer func() {
				if recover() != nil {
					escaped.Add(1)
				}
			}()
			for i := 0; i < iters; i++ {
				n := ns[r.Intn(2)]
				switch x := r.Intn(100); {
				case x < 25:
					n.Register(ts[r.Intn(raceTargets)], r.Intn(4), hx.Pick(r, names), hx.Pick(r, names))
				case x < 55:
					n.NotifyWithData(hx.Pick(r, names), next.Add(1), n)
				case x < 63:
					n.Unregister(ts[r.Intn(raceTargets)])
				case x < 71:
					n.RegisterFromNotifier(ns[r.Intn(2)])
				case x < 76:
					n.SetEnabled(r.Intn(4) != 0)
				case x < 78:
					n.Reset()
				case x < 85:
					n.StartBatch()
				case x < 92:
					n.EndBatch()
				case x < 96:
					_ = n.Enabled()
				default:
					_ = n.BatchLevel()
				}
			}
		}()
	}
	done := make(chan struct{})
	go func() { wg.Wait(); close(done) }()
	select {
	case <-done:
	case <-time.After(60 * time.Second):
		return "FAIL deadlock: goroutines did not finish within 60s"
	}
	var dups, calls int64
	for _, p := range plain {
		dups += p.dup.Load()
		calls += p.calls.Load()
	}
	if escaped.Load() > 0 {
		return fmt.Sprintf("FAIL %d panics escaped the notifier", escaped.Load())
	}
	if dups > 0 {
		return fmt.Sprintf("FAIL %d notifications were delivered more than once to the same target", dups)
	}
	if calls == 0 {
		return "FAIL no notification delivered at all (stress did not exercise delivery)"
	}
	return "ok"
}
