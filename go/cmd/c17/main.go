// Harness for C17 (notifier): a stateful protocol over 2 notifiers and 5 targets (area `notifier`; area `nwb` = the same
// plus white-box `dump` lines comparing the three internal maps with the model's association lists), and a
// multi-goroutine stress oracle meant for the -race build (area `race`).
//
// Targets: 0 plain, 1 batch, 2 plain+panics, 3 batch+panics (HandleNotification and BatchMode), 4 batch.
// After each operation the harness prints the calls received by the targets since the previous operation in
// canonical form: `order-ok|order-bad` (the raw HandleNotification sequence is non-increasing in the priority that the
// harness' own registry -- a plain name->target->priority table, the specification relation `registered` -- gives for
// the most specific matching name), then the calls sorted by (priority descending, target ascending), then the number
// of reports the recovery handler received, then BatchLevel() and Enabled().
package main

import (
	"fmt"
	"math"
	"sort"
	"strconv"
	"strings"

	"github.com/richardwilkes/toolbox/notifier"
	"verifharness/hx"
)

const (
	numNotifiers = 2
	numTargets   = 5
)

var (
	isBatch = [numTargets]bool{false, true, false, true, true}
	panics  = [numTargets]bool{false, false, true, true, false}
)

type call struct {
	batch bool
	t     int
	name  string
	start bool
	bad   bool
}

type world struct {
	ns       [numNotifiers]*notifier.Notifier
	ts       [numTargets]notifier.Target
	ids      map[notifier.Target]int
	calls    []call
	recs     int
	shadow   [numNotifiers]map[string]map[int]int // the specification relation: name -> target -> priority
	wantData any
	wantProd any
}

type plainT struct {
	w  *world
	id int
}

func (t *plainT) HandleNotification(name string, data, producer any) {
	t.w.calls = append(t.w.calls, call{t: t.id, name: name, bad: data != t.w.wantData || producer != t.w.wantProd})
	if panics[t.id] {
		panic(fmt.Sprintf("target %d", t.id))
	}
}

type batchT struct{ plainT }

func (t *batchT) BatchMode(start bool) {
	t.w.calls = append(t.w.calls, call{batch: true, t: t.id, start: start})
	if panics[t.id] {
		panic(fmt.Sprintf("target %d batch", t.id))
	}
}

func newWorld() *world {
	w := &world{ids: make(map[notifier.Target]int)}
	for i := range w.ns {
		w.ns[i] = notifier.New(func(error) { w.recs++ })
		w.shadow[i] = make(map[string]map[int]int)
	}
	for i := range w.ts {
		if isBatch[i] {
			w.ts[i] = &batchT{plainT{w: w, id: i}}
		} else {
			w.ts[i] = &plainT{w: w, id: i}
		}
		w.ids[w.ts[i]] = i
	}
	return w
}

// segs is the harness' own reading of a name: the non-empty dot-separated segments.
func segs(name string) []string {
	return strings.FieldsFunc(name, func(r rune) bool { return r == '.' })
}

func (w *world) shadowPrio(n, t int, name string) (int, bool) {
	s := segs(name)
	for k := len(s); k >= 1; k-- {
		if set, ok := w.shadow[n][strings.Join(s[:k], ".")]; ok {
			if p, ok2 := set[t]; ok2 {
				return p, true
			}
		}
	}
	return 0, false
}

func (w *world) observe(n int) string {
	type hc struct {
		c    call
		p    int
		have bool
	}
	var hs []hc
	var bs []call
	order := "order-ok"
	for _, c := range w.calls {
		if c.batch {
			bs = append(bs, c)
			continue
		}
		p, ok := w.shadowPrio(n, c.t, c.name)
		if len(hs) > 0 && (!ok || !hs[len(hs)-1].have || hs[len(hs)-1].p < p) {
			order = "order-bad"
		}
		hs = append(hs, hc{c: c, p: p, have: ok})
	}
	sort.SliceStable(hs, func(i, j int) bool {
		if hs[i].p != hs[j].p {
			return hs[i].p > hs[j].p
		}
		return hs[i].c.t < hs[j].c.t
	})
	sort.SliceStable(bs, func(i, j int) bool { return bs[i].t < bs[j].t })
	toks := []string{order}
	for _, h := range hs {
		p := "?"
		if h.have {
			p = strconv.Itoa(h.p)
		}
		tok := fmt.Sprintf("h%d:%s:%s", h.c.t, p, hx.Hex([]byte(h.c.name)))
		if h.c.bad {
			tok += "!data"
		}
		toks = append(toks, tok)
	}
	for _, b := range bs {
		v := 0
		if b.start {
			v = 1
		}
		toks = append(toks, fmt.Sprintf("b%d:%d", b.t, v))
	}
	e := 0
	if w.ns[n].Enabled() {
		e = 1
	}
	out := fmt.Sprintf("%s | rec=%d | L%d E%d", strings.Join(toks, " "), w.recs, w.ns[n].BatchLevel(), e)
	w.calls = w.calls[:0]
	w.recs = 0
	return out
}

// area: dumps=false is the black-box protocol (area `notifier`), dumps=true adds white-box `dump` lines (area `nwb`).
type area struct {
	w     *world
	dumps bool
}

func (a *area) Run(line string) string {
	f := strings.Fields(line)
	if len(f) == 0 {
		return "bad-op"
	}
	if f[0] == "reset" && len(f) == 1 {
		a.w = newWorld()
		return "reset"
	}
	if a.w == nil {
		a.w = newWorld()
	}
	w := a.w
	idx := func(s string, lim int) int {
		v := hx.Atoi(s)
		if v < 0 || v >= lim {
			panic("index")
		}
		return v
	}
	if len(f) < 2 {
		return "bad-op"
	}
	n := idx(f[1], numNotifiers)
	switch f[0] {
	case "reg":
		t := idx(f[2], numTargets)
		p := hx.Atoi(f[3])
		names := make([]string, 0, len(f)-4)
		for _, h := range f[4:] {
			names = append(names, string(hx.UnHex(h)))
		}
		w.ns[n].Register(w.ts[t], p, names...)
		for _, nm := range names {
			if s := segs(nm); len(s) > 0 {
				k := strings.Join(s, ".")
				if w.shadow[n][k] == nil {
					w.shadow[n][k] = make(map[int]int)
				}
				w.shadow[n][k][t] = p
			}
		}
	case "unreg":
		t := idx(f[2], numTargets)
		w.ns[n].Unregister(w.ts[t])
		for _, set := range w.shadow[n] {
			delete(set, t)
		}
	case "merge":
		m := idx(f[2], numNotifiers)
		w.ns[n].RegisterFromNotifier(w.ns[m])
		if n != m {
			for k, set := range w.shadow[m] {
				if w.shadow[n][k] == nil {
					w.shadow[n][k] = make(map[int]int)
				}
				for t, p := range set {
					w.shadow[n][k][t] = p
				}
			}
		}
	case "enable":
		w.ns[n].SetEnabled(f[2] == "1")
	case "nreset":
		w.ns[n].Reset()
		w.shadow[n] = make(map[string]map[int]int)
	case "start":
		w.ns[n].StartBatch()
	case "end":
		w.ns[n].EndBatch()
	case "notify":
		w.wantData, w.wantProd = nil, w.ns[n]
		w.ns[n].Notify(string(hx.UnHex(f[2])), w.ns[n])
	case "notifyd":
		w.wantData, w.wantProd = w.ts[0], w
		w.ns[n].NotifyWithData(string(hx.UnHex(f[2])), w.ts[0], w)
	case "dump":
		return dump(w, n)
	default:
		return "bad-op"
	}
	return w.observe(n)
}

// ---------------------------------------------------------------------------------------------- generator

var pool = []string{"a", "a", "a", "b", "b", "bc", "c", "a", "b", "foo", "bar", "barn"}
var prios = []int{-3, -1, 0, 0, 1, 1, 2, 2, 5, 7}

// extreme priorities ("always first" / "always last"): differences that do not fit an int
var bigPrios = []int{math.MaxInt, math.MaxInt, math.MaxInt - 1, math.MinInt, math.MinInt, math.MinInt + 1, 1 << 62, -(1 << 62),
	1 << 31, -(1 << 31), 1<<31 - 1, 1 << 32, -(1 << 32), 0, 1, -1}

func genPrio(r *hx.Rng) int {
	if r.Chance(1, 4) {
		return hx.Pick(r, bigPrios)
	}
	return hx.Pick(r, prios)
}

func genSegs(r *hx.Rng) []string {
	d := 1 + r.Intn(2)
	if r.Chance(1, 5) {
		d = 3 + r.Intn(2)
	}
	s := make([]string, d)
	for i := range s {
		s[i] = hx.Pick(r, pool)
	}
	return s
}

// render writes the segments with noise dots (empty segments, repeated/leading/trailing dots).
func render(r *hx.Rng, s []string) string {
	var sb strings.Builder
	if r.Chance(1, 6) {
		sb.WriteString(strings.Repeat(".", 1+r.Intn(2)))
	}
	for i, x := range s {
		if i > 0 {
			sb.WriteByte('.')
			if r.Chance(1, 6) {
				sb.WriteString(strings.Repeat(".", 1+r.Intn(2)))
			}
		}
		sb.WriteString(x)
	}
	if r.Chance(1, 6) {
		sb.WriteString(strings.Repeat(".", 1+r.Intn(2)))
	}
	return sb.String()
}

// related derives a name from a known one: itself, a child, a parent, or a textual extension of the last segment.
func related(r *hx.Rng, known [][]string) []string {
	if len(known) == 0 {
		return genSegs(r)
	}
	base := append([]string(nil), hx.Pick(r, known)...)
	switch r.Intn(7) {
	case 0, 1:
		return base
	case 2, 3:
		return append(base, hx.Pick(r, pool))
	case 4:
		if len(base) > 1 {
			return base[:len(base)-1]
		}
		return base
	case 5: // shares a textual prefix only: a.b -> a.bc, foo.bar -> foo.barn
		base[len(base)-1] += hx.Pick(r, []string{"c", "n", "a"})
		return base
	default: // textual prefix of the last segment: a.bc -> a.b
		l := base[len(base)-1]
		if len(l) > 1 {
			base[len(base)-1] = l[:len(l)-1]
		}
		return base
	}
}

func genName(r *hx.Rng, known *[][]string, learn bool) string {
	if r.Chance(1, 20) {
		return hx.Pick(r, []string{"", ".", "..", "..."})
	}
	var s []string
	if r.Chance(5, 6) {
		s = related(r, *known)
	} else {
		s = genSegs(r)
	}
	if !learn {
		return render(r, s)
	}
	if len(*known) < 6 {
		*known = append(*known, s)
	} else if r.Chance(1, 6) {
		(*known)[r.Intn(len(*known))] = s
	}
	return render(r, s)
}

func (a *area) Gen(r *hx.Rng, n int, _ string, emit func(string)) {
	count := 0
	for count < n {
		emit("reset")
		var known [][]string
		k := r.Range(6, 40)
		for i := 0; i < k; i++ {
			nn := strconv.Itoa(r.Intn(numNotifiers))
			if r.Chance(2, 3) {
				nn = "0" // most of the action on one notifier so that histories are deep
			}
			t := strconv.Itoa(r.Intn(numTargets))
			switch x := r.Intn(100); {
			case x < 28:
				cnt := 1
				switch r.Intn(8) {
				case 0:
					cnt = 0
				case 1, 2:
					cnt = 2
				case 3:
					cnt = 3
				}
				parts := []string{"reg", nn, t, strconv.Itoa(genPrio(r))}
				for j := 0; j < cnt; j++ {
					parts = append(parts, hx.Hex([]byte(genName(r, &known, true))))
				}
				emit(strings.Join(parts, " "))
			case x < 60:
				op := "notify"
				if r.Chance(1, 4) {
					op = "notifyd"
				}
				emit(op + " " + nn + " " + hx.Hex([]byte(genName(r, &known, false))))
			case x < 67:
				emit("unreg " + nn + " " + t)
			case x < 74:
				emit("merge " + nn + " " + strconv.Itoa(r.Intn(numNotifiers)))
			case x < 79:
				emit("enable " + nn + " " + strconv.Itoa(min(1, r.Intn(3))))
			case x < 82:
				emit("nreset " + nn)
			case x < 88:
				emit("start " + nn)
			case x < 97:
				emit("end " + nn)
			default:
				if a.dumps {
					emit("dump " + nn)
				} else {
					emit("notify " + nn + " " + hx.Hex([]byte(genName(r, &known, false))))
				}
			}
			count++
		}
		if a.dumps {
			emit("dump 0")
			emit("dump 1")
			count += 2
		}
	}
}

func main() {
	hx.Main(map[string]hx.Area{"notifier": &area{}, "nwb": &area{dumps: true}, "race": &raceArea{}})
}
