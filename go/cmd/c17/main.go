// Harness for C17 (notifier): a stateful protocol over 3 notifiers and 128 targets (area `notifier`; area `nwb` = the
// same plus white-box `dump` lines comparing the three internal maps with the model's association lists), and a
// multi-goroutine stress oracle meant for the -race build (area `race`).
//
// Notifiers: 0 normal recovery handler, 1 a recovery handler that itself panics after counting the report (errs.Recovery
// guards against that), 2 created with a nil recovery handler (reports unobservable: both sides print rec=0).
// Targets: 0 plain, 1 batch, 2 plain+panics, 3 batch+panics (HandleNotification and BatchMode), 4 batch, 6 plain and
// RE-ENTRANT (executes an armed Register/Unregister/SetEnabled/Reset/RegisterFromNotifier on a notifier from inside its
// HandleNotification); ids >= 5: batch iff id%3 == 1, panics iff id%5 == 2 (same tables in Nt.batchCapable / the driver).
// Panicking targets cycle through the kinds of panic value: string, error, runtime error, typed-nil pointer, nil,
// struct value, errs.Error.
// After each operation the harness prints the calls received by the targets since the previous operation in
// canonical form: `order-ok|order-bad` (the raw HandleNotification sequence is non-increasing in the priority that the
// harness' own registry -- a plain name->target->priority table, the specification relation `registered` -- gives for
// the most specific matching name), then the calls sorted by (priority descending, target ascending), then the number
// of reports the recovery handler received, then BatchLevel() and Enabled().
// Operations run on the main goroutine with no timer pending: a lock taken twice (e.g. a notifier that delivered while
// holding its lock, hit by the re-entrant target) makes the Go runtime abort at once with "all goroutines are asleep",
// which the check reports as a crash of that line -- a hang costs no wall time.
package main

import (
	"errors"
	"fmt"
	"reflect"
	"sort"
	"strconv"
	"strings"

	"github.com/richardwilkes/toolbox/errs"
	"github.com/richardwilkes/toolbox/notifier"
	"verifharness/hx"
)

const (
	numNotifiers   = 3
	numTargets     = 128
	reentrant      = 6  // plain target that calls back into a notifier from HandleNotification
	reentrantBatch = 10 // batch target that calls back from HandleNotification and from BatchMode
)

func isBatch(t int) bool {
	if t < 5 {
		return t == 1 || t == 3 || t == 4
	}
	return t%3 == 1
}

func panics(t int) bool {
	if t < 5 {
		return t == 2 || t == 3
	}
	return t%5 == 2
}

type call struct {
	batch bool
	t     int
	name  string
	start bool
	bad   bool
	frame int // which Notify invocation made the call (nested invocations from re-entrant targets get their own)
	n     int // the notifier of that invocation
}

// frame is one running Notify/NotifyWithData invocation (they nest when a target notifies from inside a callback).
type frame struct {
	id       int
	n        int
	wantData any
	wantProd any
}

type world struct {
	ns       [numNotifiers]*notifier.Notifier
	ts       [numTargets]notifier.Target
	ids      map[notifier.Target]int
	calls    []call
	recs     int
	shadow   [numNotifiers]map[string]map[int]int // the specification relation: name -> target -> priority
	frames   []frame
	frameSeq int
	armed    [][]string                     // QUEUE of operations: every callback of a re-entrant target pops the head and performs it
	snaps    map[int]map[string]map[int]int // per Notify invocation of this line: the specification relation when it began
	boom     int                            // cycles through the panic value kinds
}

type payload struct {
	a int
	b string
}

// dataKinds are the values passed to NotifyWithData (pass-through is checked by the targets).
func (w *world) dataKind(k int) any {
	switch k {
	case 0:
		return nil
	case 1:
		return 42
	case 2:
		return "data"
	case 3:
		return w.ts[0]
	case 4:
		return payload{a: 7, b: "x"}
	case 5:
		return []int{1, 2, 3}
	case 6:
		return map[string]int{"k": 1}
	case 7:
		return errors.New("an error as data")
	case 8:
		return (*payload)(nil)
	default:
		return 3.5
	}
}

func same(a, b any) bool {
	if a == nil || b == nil {
		return a == nil && b == nil
	}
	return reflect.DeepEqual(a, b)
}

func (w *world) explode(what string, id int) {
	w.boom++
	switch w.boom % 7 {
	case 0:
		panic(fmt.Sprintf("target %d %s", id, what))
	case 1:
		panic(errors.New("an error value"))
	case 2:
		var m map[int]int
		m[id] = 1 // runtime error
	case 3:
		panic((*plainT)(nil))
	case 4:
		panic(nil) //nolint:govet // on purpose
	case 5:
		panic(payload{a: id})
	default:
		panic(errs.New("an errs.Error"))
	}
}

type plainT struct {
	w  *world
	id int
}

func (t *plainT) HandleNotification(name string, data, producer any) {
	w := t.w
	fr := w.frames[len(w.frames)-1]
	w.calls = append(w.calls, call{t: t.id, name: name, frame: fr.id, n: fr.n,
		bad: !same(data, fr.wantData) || !same(producer, fr.wantProd)})
	if t.id == reentrant || t.id == reentrantBatch {
		w.fire()
	}
	if panics(t.id) {
		w.explode("handle", t.id)
	}
}

// fire pops the head of the queue of armed operations (if any) and performs it from inside the running callback.  The
// operation's own callbacks may reach re-entrant targets again: calls nest as deep as the queue is long.  Operations that
// change registrations make no callbacks, operations that make callbacks change no registration, so the harness'
// registry can be updated right away.
func (w *world) fire() {
	if len(w.armed) == 0 {
		return
	}
	f := w.armed[0]
	w.armed = w.armed[1:]
	w.shadowOp(f)
	w.doOp(f)
}

// snapshot remembers the specification relation of notifier n at the beginning of Notify invocation id (only needed when
// an armed operation may change it while the invocation is still delivering).
func (w *world) snapshot(id, n int) {
	if len(w.armed) == 0 {
		return
	}
	c := make(map[string]map[int]int, len(w.shadow[n]))
	for k, set := range w.shadow[n] {
		m := make(map[int]int, len(set))
		for t, p := range set {
			m[t] = p
		}
		c[k] = m
	}
	if w.snaps == nil {
		w.snaps = make(map[int]map[string]map[int]int)
	}
	w.snaps[id] = c
}

type batchT struct{ plainT }

func (t *batchT) BatchMode(start bool) {
	t.w.calls = append(t.w.calls, call{batch: true, t: t.id, start: start})
	if t.id == reentrantBatch {
		t.w.fire()
	}
	if panics(t.id) {
		t.w.explode("batch", t.id)
	}
}

func newWorld() *world {
	w := &world{ids: make(map[notifier.Target]int)}
	w.ns[0] = notifier.New(func(error) { w.recs++ })
	w.ns[1] = notifier.New(func(error) { w.recs++; panic("bad recovery handler") })
	w.ns[2] = notifier.New(nil)
	for i := range w.ns {
		w.shadow[i] = make(map[string]map[int]int)
	}
	for i := range w.ts {
		if isBatch(i) {
			w.ts[i] = &batchT{plainT{w: w, id: i}}
		} else {
			w.ts[i] = &plainT{w: w, id: i}
		}
		w.ids[w.ts[i]] = i
	}
	return w
}

// segs is the harness' own reading of a name: the non-empty dot-separated segments.
func segs(name string) []string {
	return strings.FieldsFunc(name, func(r rune) bool { return r == '.' })
}

func (w *world) shadowPrio(frame, n, t int, name string) (int, bool) {
	reg := w.shadow[n]
	if snap, ok := w.snaps[frame]; ok { // the registrations when that Notify invocation began
		reg = snap
	}
	s := segs(name)
	for k := len(s); k >= 1; k-- {
		if set, ok := reg[strings.Join(s[:k], ".")]; ok {
			if p, ok2 := set[t]; ok2 {
				return p, true
			}
		}
	}
	return 0, false
}

func (w *world) observe(n int) string {
	type hc struct {
		c    call
		p    int
		have bool
	}
	var hs []hc
	var bs []call
	order := "order-ok"
	last := make(map[int]hc) // per Notify invocation: the previous call
	for _, c := range w.calls {
		if c.batch {
			bs = append(bs, c)
			continue
		}
		p, ok := w.shadowPrio(c.frame, c.n, c.t, c.name)
		if prev, seen := last[c.frame]; seen && (!ok || !prev.have || prev.p < p) {
			order = "order-bad"
		}
		h := hc{c: c, p: p, have: ok}
		last[c.frame] = h
		hs = append(hs, h)
	}
	tok := func(h hc) string {
		p := "?"
		if h.have {
			p = strconv.Itoa(h.p)
		}
		t := fmt.Sprintf("h%d:%s:%s", h.c.t, p, hx.Hex([]byte(h.c.name)))
		if h.c.bad {
			t += "!data"
		}
		return t
	}
	sort.SliceStable(hs, func(i, j int) bool {
		if hs[i].p != hs[j].p {
			return hs[i].p > hs[j].p
		}
		if hs[i].c.t != hs[j].c.t {
			return hs[i].c.t < hs[j].c.t
		}
		return tok(hs[i]) < tok(hs[j])
	})
	sort.SliceStable(bs, func(i, j int) bool {
		if bs[i].t != bs[j].t {
			return bs[i].t < bs[j].t
		}
		return !bs[i].start && bs[j].start
	})
	toks := []string{order}
	for _, h := range hs {
		toks = append(toks, tok(h))
	}
	for _, b := range bs {
		v := 0
		if b.start {
			v = 1
		}
		toks = append(toks, fmt.Sprintf("b%d:%d", b.t, v))
	}
	e := 0
	if w.ns[n].Enabled() {
		e = 1
	}
	out := fmt.Sprintf("%s | rec=%d | L%d E%d", strings.Join(toks, " "), w.recs, w.ns[n].BatchLevel(), e)
	w.calls = w.calls[:0]
	w.recs = 0
	w.snaps = nil
	return out
}

func idx(s string, lim int) int {
	v := hx.Atoi(s)
	if v < 0 || v >= lim {
		panic("index")
	}
	return v
}

// doOp performs an operation on the real notifier (no observation, no registry update); false = not an operation.
func (w *world) doOp(f []string) bool {
	n := idx(f[1], numNotifiers)
	switch f[0] {
	case "start":
		w.ns[n].StartBatch()
	case "end":
		w.ns[n].EndBatch()
	case "notify":
		w.frameSeq++
		fr := frame{id: w.frameSeq, n: n, wantProd: w.ns[n]}
		if len(f) > 3 { // nil producer
			fr.wantProd = nil
		}
		w.frames = append(w.frames, fr)
		w.snapshot(fr.id, n)
		w.ns[n].Notify(string(hx.UnHex(f[2])), fr.wantProd)
		w.frames = w.frames[:len(w.frames)-1]
	case "notifyd":
		k := 3
		if len(f) > 3 {
			k = hx.Atoi(f[3])
		}
		w.frameSeq++
		fr := frame{id: w.frameSeq, n: n, wantData: w.dataKind(k), wantProd: w}
		w.frames = append(w.frames, fr)
		w.snapshot(fr.id, n)
		w.ns[n].NotifyWithData(string(hx.UnHex(f[2])), fr.wantData, w)
		w.frames = w.frames[:len(w.frames)-1]
	case "reg":
		names := make([]string, 0, len(f)-4)
		for _, h := range f[4:] {
			names = append(names, string(hx.UnHex(h)))
		}
		w.ns[n].Register(w.ts[idx(f[2], numTargets)], hx.Atoi(f[3]), names...)
	case "unreg":
		w.ns[n].Unregister(w.ts[idx(f[2], numTargets)])
	case "merge":
		w.ns[n].RegisterFromNotifier(w.ns[idx(f[2], numNotifiers)])
	case "enable":
		w.ns[n].SetEnabled(f[2] == "1")
	case "nreset":
		w.ns[n].Reset()
	default:
		return false
	}
	return true
}

// shadowOp is the same operation on the harness' registry (the specification relation).
func (w *world) shadowOp(f []string) {
	n := idx(f[1], numNotifiers)
	switch f[0] {
	case "reg":
		t := idx(f[2], numTargets)
		p := hx.Atoi(f[3])
		for _, h := range f[4:] {
			if s := segs(string(hx.UnHex(h))); len(s) > 0 {
				k := strings.Join(s, ".")
				if w.shadow[n][k] == nil {
					w.shadow[n][k] = make(map[int]int)
				}
				w.shadow[n][k][t] = p
			}
		}
	case "unreg":
		t := idx(f[2], numTargets)
		for _, set := range w.shadow[n] {
			delete(set, t)
		}
	case "merge":
		m := idx(f[2], numNotifiers)
		if n != m {
			for k, set := range w.shadow[m] {
				if w.shadow[n][k] == nil {
					w.shadow[n][k] = make(map[int]int)
				}
				for t, p := range set {
					w.shadow[n][k][t] = p
				}
			}
		}
	case "nreset":
		w.shadow[n] = make(map[string]map[int]int)
	}
}

// tables prints the fixed tables the harness shares with the Lean model (Nt.batchCapable, the driver's `pan`,
// Nt.reentersOn, Nt.handlerKind) so that a drift between the two copies shows as an ordinary difference.
func tables() string {
	bits := func(f func(int) bool) string {
		var sb strings.Builder
		for i := 0; i < numTargets; i++ {
			if f(i) {
				sb.WriteByte('1')
			} else {
				sb.WriteByte('0')
			}
		}
		return sb.String()
	}
	return "tables B" + bits(isBatch) + " P" + bits(panics) +
		" RH" + bits(func(t int) bool { return t == reentrant || t == reentrantBatch }) +
		" RB" + bits(func(t int) bool { return t == reentrantBatch }) + " H good,bad,nil"
}

// area: dumps=false is the black-box protocol (area `notifier`), dumps=true adds white-box `dump` lines (area `nwb`).
type area struct {
	w     *world
	dumps bool
}

func (a *area) Run(line string) string {
	f := strings.Fields(line)
	if len(f) == 0 {
		return "bad-op"
	}
	if f[0] == "reset" && len(f) == 1 {
		a.w = newWorld()
		return "reset"
	}
	if a.w == nil {
		a.w = newWorld()
	}
	w := a.w
	if f[0] == "tables" && len(f) == 1 {
		return tables()
	}
	if len(f) < 2 {
		return "bad-op"
	}
	n := idx(f[1], numNotifiers)
	switch f[0] {
	case "arm": // arm <n> <op...>: a re-entrant target will execute <op...> inside its next callback
		switch f[2] {
		case "reg", "unreg", "merge", "enable", "nreset", "start", "end", "notify", "notifyd":
			idx(f[3], numNotifiers)
			w.armed = append(w.armed, f[2:])
		default:
			return "bad-op"
		}
	case "dump":
		if d := wbDump(w.ns[n], func(t notifier.Target) int { return w.ids[t] }); d != "" {
			return d
		}
		return "dump-unavailable"
	default:
		if !w.doOp(f) {
			return "bad-op"
		}
		w.shadowOp(f)
	}
	return w.observe(n)
}

func main() {
	hx.Main(map[string]hx.Area{"notifier": &area{}, "nwb": &area{dumps: true}, "race": &raceArea{}})
}
