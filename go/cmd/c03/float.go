package main

import (
	"math"
	"math/big"
	"strconv"

	"github.com/richardwilkes/toolbox/xmath/fixed"
	"github.com/richardwilkes/toolbox/xmath/fixed/f128"
	"github.com/richardwilkes/toolbox/xmath/fixed/f64"
	"verifharness/hx"
)

// Implementation-side oracle for the float paths of From / As (no Lean model): the result is compared with an exact
// big.Rat computation.  Bound of the property: off by at most one unit of the last decimal place, or one part in 2^52
// of the value, whichever is larger.  For the float32 kinds the relative part of the bound is 2^-23 (a float32 carries
// 24 significant bits, so "one part in 2^52" cannot be meant for it; this reading is recorded in the evidence).

func ratAbs(x *big.Rat) *big.Rat { return new(big.Rat).Abs(x) }

func relBound(v *big.Rat, exp int) *big.Rat {
	return new(big.Rat).Quo(ratAbs(v), new(big.Rat).SetInt(pow2(exp)))
}

func ratMax(a, b *big.Rat) *big.Rat {
	if a.Cmp(b) >= 0 {
		return a
	}
	return b
}

// judgeFrom: raw is the raw result for the exactly known input x.
func judgeFrom(raw *big.Int, x *big.Rat, mult int64, relExp int) string {
	exact := new(big.Rat).Mul(x, new(big.Rat).SetInt64(mult))
	err := ratAbs(new(big.Rat).Sub(new(big.Rat).SetInt(raw), exact))
	bound := ratMax(big.NewRat(1, 1), relBound(exact, relExp))
	if err.Cmp(bound) > 0 {
		return "FAIL from: raw=" + raw.String() + " exact=" + exact.FloatString(4) + " err=" + err.FloatString(4)
	}
	return "ok " + raw.String()
}

// judgeAs: y is the float result for the raw value.
func judgeAs(y float64, raw *big.Int, mult int64, relExp int) string {
	if math.IsNaN(y) || math.IsInf(y, 0) {
		return "FAIL as: not finite for raw=" + raw.String()
	}
	exact := new(big.Rat).SetFrac(raw, big.NewInt(mult))
	err := ratAbs(new(big.Rat).Sub(new(big.Rat).SetFloat64(y), exact))
	bound := ratMax(big.NewRat(1, mult), relBound(exact, relExp))
	if err.Cmp(bound) > 0 {
		return "FAIL as: got=" + strconv.FormatFloat(y, 'g', -1, 64) + " raw=" + raw.String() + " err=" + err.FloatString(30)
	}
	return "ok " + strconv.FormatUint(math.Float64bits(y), 16)
}

func parseF64(s string) float64 {
	b, err := strconv.ParseUint(s, 16, 64)
	if err != nil {
		panic("bad float bits " + s)
	}
	return math.Float64frombits(b)
}

func parseF32(s string) float32 {
	b, err := strconv.ParseUint(s, 16, 32)
	if err != nil {
		panic("bad float bits " + s)
	}
	return math.Float32frombits(uint32(b))
}

func float64Oracle[T fixed.Dx](mult int64, op, arg string) string {
	switch op {
	case "fromf64":
		x := parseF64(arg)
		return judgeFrom(big.NewInt(int64(f64.From[T](x))), new(big.Rat).SetFloat64(x), mult, 52)
	case "fromf32":
		x := parseF32(arg)
		return judgeFrom(big.NewInt(int64(f64.From[T](x))), new(big.Rat).SetFloat64(float64(x)), mult, 23)
	case "asf64":
		raw := sInt(arg, 64)
		return judgeAs(f64.As[T, float64](f64.Int[T](raw)), big.NewInt(raw), mult, 52)
	case "asf32":
		raw := sInt(arg, 64)
		return judgeAs(float64(f64.As[T, float32](f64.Int[T](raw))), big.NewInt(raw), mult, 23)
	}
	return "FAIL bad-op"
}

func float128Oracle[T fixed.Dx](mult int64, op, arg string) string {
	switch op {
	case "fromf64":
		x := parseF64(arg)
		return judgeFrom(raw128(f128.From[T](x)), new(big.Rat).SetFloat64(x), mult, 52)
	case "fromf32":
		x := parseF32(arg)
		return judgeFrom(raw128(f128.From[T](x)), new(big.Rat).SetFloat64(float64(x)), mult, 23)
	case "asf64":
		raw := wrapTo(parseBig(arg), 128)
		return judgeAs(f128.As[T, float64](mk128[T](raw)), raw, mult, 52)
	case "asf32":
		raw := wrapTo(parseBig(arg), 128)
		y := f128.As[T, float32](mk128[T](raw))
		if math.IsInf(float64(y), 0) { // beyond the float32 range: outside "representable"
			return "ok inf32"
		}
		return judgeAs(float64(y), raw, mult, 23)
	}
	return "FAIL bad-op"
}

// genFloat yields a float64 whose product with the multiplier stays well inside the representable range.
func genFloat(r *hx.Rng, bits int, mult int64, single bool) float64 {
	limit := math.Ldexp(1, bits-2) / float64(mult) // |x·mult| < 2^(bits-2)
	if single && limit > math.MaxFloat32/4 {
		limit = math.MaxFloat32 / 4
	}
	var x float64
	switch r.Intn(9) {
	case 0: // small integers and halves
		x = float64(r.Range(-1000, 1000)) / 2
	case 1: // the float nearest to a decimal with D places (0.07, 0.29, …)
		x = float64(int64(r.U64()%uint64(1000*mult))) / float64(mult)
	case 2: // the float nearest to a decimal with more places than D
		x = float64(int64(r.U64()%1000000000000)) / 1e9
	case 3: // tiny, including values below one unit of the last place and subnormals
		x = math.Ldexp(float64(r.U64()>>11), -r.Range(53, 1120))
	case 4: // large integers
		x = math.Ldexp(float64(r.U64()>>11), r.Range(0, bits))
	case 5: // k·10^-D ± one ulp
		x = float64(int64(r.U64()%uint64(100000*mult))) / float64(mult)
		if r.Bool() {
			x = math.Nextafter(x, math.Inf(1))
		} else {
			x = math.Nextafter(x, math.Inf(-1))
		}
	case 6: // close to the limit
		x = limit * (1 - float64(r.Intn(1000))/4000)
	default: // random mantissa, random exponent
		x = math.Ldexp(float64(r.U64()>>11)/float64(1<<53), r.Range(-80, bits))
	}
	if r.Bool() {
		x = -x
	}
	for math.Abs(x) >= limit {
		x /= 1024
	}
	return x
}

func (floatArea) Gen(r *hx.Rng, n int, _ string, emit func(string)) {
	for i := 0; i < n; i++ {
		d := r.Range(1, 16)
		name := strconv.Itoa(d)
		c := cfgs[name]
		ty, bits := "f64", 64
		if r.Bool() {
			ty, bits = "f128", 128
		}
		switch r.Intn(6) {
		case 0, 1:
			x := genFloat(r, bits, c.mult, false)
			if r.Bool() { // the decision points of the conversions (midpoints ± ulps, subnormals, -0, range edge)
				x = representable(r, genFloatM(r, bits, c.places, c.mult), bits, c.mult)
			}
			emit(ty + " " + name + " fromf64 " + strconv.FormatUint(math.Float64bits(x), 16))
		case 2:
			x := float32(genFloat(r, bits, c.mult, true))
			if r.Bool() {
				x = float32(representable(r, genFloatM(r, bits, c.places, c.mult), bits, c.mult))
				if x != x || math.IsInf(float64(x), 0) {
					x = 1
				}
			}
			// the conversion to float32 may round up to the limit; stay inside
			for float64(x)*float64(c.mult) >= math.Ldexp(1, bits-2) || float64(x)*float64(c.mult) <= -math.Ldexp(1, bits-2) {
				x /= 2
			}
			emit(ty + " " + name + " fromf32 " + strconv.FormatUint(uint64(math.Float32bits(x)), 16))
		case 3, 4:
			emit(ty + " " + name + " asf64 " + genRawFloat(r, bits, c.mult, false).String())
		default:
			emit(ty + " " + name + " asf32 " + genRawFloat(r, bits, c.mult, true).String())
		}
	}
}

// representable moves x to a finite value whose product with the multiplier is well inside the raw range (the oracle
// judges only results that the fixed-point type can represent).
func representable(r *hx.Rng, x float64, bits int, mult int64) float64 {
	if math.IsNaN(x) || math.IsInf(x, 0) {
		x = 1
	}
	limit := math.Ldexp(1, bits-2) / float64(mult)
	for i := 0; i < 6 && math.Abs(x) >= limit; i++ {
		x = math.Nextafter(x, 0)
	}
	for math.Abs(x) >= limit {
		x /= float64(r.Range(2, 1024))
	}
	return x
}
