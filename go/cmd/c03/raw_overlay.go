//go:build !nooverlay

package main

import (
	"math/big"

	"github.com/richardwilkes/toolbox/xmath/fixed"
	"github.com/richardwilkes/toolbox/xmath/fixed/f128"
	"github.com/richardwilkes/toolbox/xmath/num"
)

// White-box access to the raw 128-bit value of an f128.Int[T], through the accessors injected with `go build -overlay`
// (go/overlay/c03_f128_raw.go, go/overlay/c03_num_words.go): no exported helper of the library is involved.
// If the overlay no longer compiles against the working tree (an unexported field was renamed …) the check rebuilds with
// tag `nooverlay` and raw_stub.go takes over.

const blackBox = false

// mk128 builds the value whose raw scaled integer is raw (reduced modulo 2^128, two's complement).
func mk128[T fixed.Dx](raw *big.Int) f128.Int[T] {
	v := new(big.Int).Mod(raw, two128)
	hi := new(big.Int).Rsh(v, 64).Uint64()
	lo := new(big.Int).And(v, mask64).Uint64()
	return f128.VerifC03FromRaw[T](num.VerifC03FromWords(hi, lo))
}

// raw128 returns the raw scaled integer of the value.
func raw128[T fixed.Dx](f f128.Int[T]) *big.Int {
	hi, lo := num.VerifC03Words(f128.VerifC03Raw(f))
	v := new(big.Int).SetUint64(hi)
	v.Lsh(v, 64)
	v.Or(v, new(big.Int).SetUint64(lo))
	if hi>>63 != 0 {
		v.Sub(v, two128)
	}
	return v
}
