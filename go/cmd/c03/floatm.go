package main

import (
	"math"
	"strconv"
	"strings"

	"github.com/richardwilkes/toolbox/xmath/fixed"
	"github.com/richardwilkes/toolbox/xmath/fixed/f128"
	"github.com/richardwilkes/toolbox/xmath/fixed/f64"
	"verifharness/hx"
)

// Area fxfloatm: the float paths of From / As, real code versus the Lean model (Model/FixedFloat.lean), raw for raw and
// bit for bit.  Not an oracle: Run only executes the exported API and prints the result canonically.
//
//	<f64|f128> <k> fromf64 <hex bits of a float64>   -> raw (decimal) | panic
//	<f64|f128> <k> fromf32 <hex bits of a float32>   -> raw (decimal) | panic
//	<f64|f128> <k> asf64   <raw>                     -> hex bits of the float64
//	<f64|f128> <k> asf32   <raw>                     -> hex bits of the float32
//
// Domain: for f64.From the float → int64 conversion of Go is implementation-defined for NaN and when the truncated
// product is outside int64; the generator keeps every f64 `from` line inside the domain (decided with the hardware
// product, independently of the library) and the model answers `impl-defined` outside of it.  f128.From is defined
// everywhere (NaN panics in math/big, ±Inf give 0, out-of-range values saturate) and is generated without restriction.

func float64Model[T fixed.Dx](op, arg string) string {
	switch op {
	case "fromf64":
		return strconv.FormatInt(int64(f64.From[T](parseF64(arg))), 10)
	case "fromf32":
		return strconv.FormatInt(int64(f64.From[T](parseF32(arg))), 10)
	case "asf64":
		return strconv.FormatUint(math.Float64bits(f64.As[T, float64](f64.Int[T](sInt(arg, 64)))), 16)
	case "asf32":
		return strconv.FormatUint(uint64(math.Float32bits(f64.As[T, float32](f64.Int[T](sInt(arg, 64))))), 16)
	// the same through named float types (kind, not type identity, selects the float path)
	case "fromf64n":
		return strconv.FormatInt(int64(f64.From[T](myFloat64(parseF64(arg)))), 10)
	case "fromf32n":
		return strconv.FormatInt(int64(f64.From[T](myFloat32(parseF32(arg)))), 10)
	case "asf64n":
		return strconv.FormatUint(math.Float64bits(float64(f64.As[T, myFloat64](f64.Int[T](sInt(arg, 64))))), 16)
	case "asf32n":
		return strconv.FormatUint(uint64(math.Float32bits(float32(f64.As[T, myFloat32](f64.Int[T](sInt(arg, 64)))))), 16)
	}
	return "bad-op"
}

func float128Model[T fixed.Dx](op, arg string) string {
	switch op {
	case "fromf64":
		return raw128(f128.From[T](parseF64(arg))).String()
	case "fromf32":
		return raw128(f128.From[T](parseF32(arg))).String()
	case "asf64":
		return strconv.FormatUint(math.Float64bits(f128.As[T, float64](mk128[T](parseBig(arg)))), 16)
	case "asf32":
		return strconv.FormatUint(uint64(math.Float32bits(f128.As[T, float32](mk128[T](parseBig(arg))))), 16)
	case "fromf64n":
		return raw128(f128.From[T](myFloat64(parseF64(arg)))).String()
	case "fromf32n":
		return raw128(f128.From[T](myFloat32(parseF32(arg)))).String()
	case "asf64n":
		return strconv.FormatUint(math.Float64bits(float64(f128.As[T, myFloat64](mk128[T](parseBig(arg))))), 16)
	case "asf32n":
		return strconv.FormatUint(uint64(math.Float32bits(float32(f128.As[T, myFloat32](mk128[T](parseBig(arg)))))), 16)
	}
	return "bad-op"
}

type floatModelArea struct{}

func (floatModelArea) Run(line string) string {
	f := strings.Fields(line)
	if len(f) != 4 {
		return "bad-op"
	}
	c, ok := cfgs[f[1]]
	if !ok {
		return "bad-op"
	}
	switch f[0] {
	case "f64":
		return guarded(func() string { return c.fm64(f[2], f[3]) })
	case "f128":
		return guarded(func() string { return c.fm128(f[2], f[3]) })
	}
	return "bad-op"
}

// inDomain64 / inDomain32: the truncated product is an int64 (the only inputs on which Go defines f64.From).
func inDomain64(x float64, mult int64) bool {
	p := x * float64(mult)
	return p >= -9223372036854775808.0 && p < 9223372036854775808.0
}

func inDomain32(x float32, mult int64) bool {
	p := x * float32(mult)
	return p >= -9223372036854775808.0 && p < 9223372036854775808.0
}

// intoDomain64 moves x into the domain of f64.From: first a few ulps toward zero (values generated at the edge of the
// range stay at the edge), then by division.
func intoDomain64(r *hx.Rng, x float64, mult int64) float64 {
	if math.IsNaN(x) || math.IsInf(x, 0) {
		x = 1
	}
	for i := 0; i < 10 && !inDomain64(x, mult); i++ {
		x = math.Nextafter(x, 0)
	}
	for !inDomain64(x, mult) {
		x /= float64(r.Range(2, 1024))
	}
	return x
}

func intoDomain32(r *hx.Rng, x float32, mult int64) float32 {
	if x != x || math.IsInf(float64(x), 0) {
		x = 1
	}
	for i := 0; i < 10 && !inDomain32(x, mult); i++ {
		x = math.Nextafter32(x, 0)
	}
	for !inDomain32(x, mult) {
		x /= float32(r.Range(2, 1024))
	}
	return x
}

func ulps(x float64, n int) float64 {
	for ; n > 0; n-- {
		x = math.Nextafter(x, math.Inf(1))
	}
	for ; n < 0; n++ {
		x = math.Nextafter(x, math.Inf(-1))
	}
	return x
}

func ulps32(x float32, n int) float32 {
	for ; n > 0; n-- {
		x = math.Nextafter32(x, float32(math.Inf(1)))
	}
	for ; n < 0; n++ {
		x = math.Nextafter32(x, float32(math.Inf(-1)))
	}
	return x
}

// genFloatM: a float64 aimed at the decision points of the conversions.  bits is 64 or 128 (width of the raw value).
func genFloatM(r *hx.Rng, bits int, places int, mult int64) float64 {
	fm := float64(mult)
	top := math.Ldexp(1, bits-1) / fm // |x| at which the raw value leaves the representation
	var x float64
	switch r.Intn(16) {
	case 0: // k / 10^D ± a few ulps, small k (0.07, 0.29, 1.10 …): the truncation decision
		k := int64(r.U64() % uint64(1000*mult))
		x = ulps(float64(k)/fm, r.Range(-2, 2))
	case 1: // the same with k of any size below the limit
		n := r.Range(1, bits-2)
		if n > 62 {
			n = 62
		}
		k := int64(r.U64() >> uint(64-n))
		x = ulps(float64(k)/fm, r.Range(-2, 2))
	case 2: // decimals with D+1 and D+2 places: the rounding of Text('f', D+1) before the cut to D digits
		k := int64(r.U64() % uint64(1000*mult))
		d := []float64{0.5, 0.95, 0.949, 0.951, 0.05, 0.049, 0.051, 0.99, 0.999999, 0.45, 0.55}[r.Intn(11)]
		x = (float64(k) + d) / fm
		if r.Chance(1, 3) {
			x = ulps(x, r.Range(-1, 1))
		}
	case 3: // small integers, halves, quarters
		x = float64(r.Range(-4000, 4000)) / 4
	case 4: // large integers
		x = math.Ldexp(float64(r.U64()>>11), r.Range(-52, bits-54))
	case 5: // powers of two and their neighbours
		lo, hi := -1080, bits
		if r.Bool() {
			lo, hi = -70, 70
		}
		x = ulps(math.Ldexp(1, r.Range(lo, hi)), r.Range(-1, 1))
	case 6: // just below / at / above the end of the range (above only where the behaviour is defined: f128 saturates)
		x = ulps(top, r.Range(-4, 4))
	case 7: // a fraction of the limit
		x = top * (1 - float64(r.Intn(1000))/1000)
	case 8: // subnormals, the smallest normal, zero
		switch r.Intn(4) {
		case 0:
			x = 0
		case 1:
			x = math.Float64frombits(uint64(r.Range(1, 4)))
		case 2:
			x = math.Float64frombits(r.U64() >> 12)
		default:
			x = ulps(math.Float64frombits(1<<52), r.Range(-2, 2))
		}
	case 9: // below one unit of the last place: 10^-D · (0 … 2)
		x = float64(r.Intn(2001)) / 1000 / fm
	case 10: // around one unit of the last place and around one half of it, exactly at the float's resolution
		x = ulps([]float64{1, 0.5, 0.05, 0.95, 2}[r.Intn(5)]/fm, r.Range(-3, 3))
	case 11: // decimal literals as a user writes them
		x = float64(int64(r.U64()%1000000000000)) / []float64{1e1, 1e2, 1e3, 1e6, 1e9, 1e12}[r.Intn(6)]
	case 12: // huge (f128: saturation, f64: reduced below)
		x = math.Ldexp(float64(r.U64()>>11), r.Range(60, 971))
	case 13: // products that land next to 2^53 … 2^63: the float product is inexact, the truncation is exact
		x = math.Ldexp(float64(r.U64()>>11|1<<52), r.Range(0, 10)) / fm
	default: // random mantissa, random exponent
		x = math.Ldexp(float64(r.U64()>>11)/float64(1<<53), r.Range(-80, bits))
	}
	if r.Bool() {
		x = -x
	}
	_ = places
	return x
}

func (floatModelArea) Gen(r *hx.Rng, n int, _ string, emit0 func(string)) {
	for i := 0; i < n; i++ {
		named := r.Chance(1, 8)
		emit := func(l string) {
			if named { // <ty> <k> <op>n <arg>: the same operation through a named float type
				f := strings.Fields(l)
				f[2] += "n"
				l = strings.Join(f, " ")
			}
			emit0(l)
		}
		d := r.Range(1, 16)
		name := strconv.Itoa(d)
		c := cfgs[name]
		ty, bits := "f64", 64
		if r.Bool() {
			ty, bits = "f128", 128
		}
		switch r.Intn(8) {
		case 0, 1, 2:
			x := genFloatM(r, bits, c.places, c.mult)
			if bits == 64 {
				x = intoDomain64(r, x, c.mult)
			} else if r.Chance(1, 200) {
				x = []float64{math.NaN(), math.Inf(1), math.Inf(-1), math.MaxFloat64, -math.MaxFloat64}[r.Intn(5)]
			}
			emit(ty + " " + name + " fromf64 " + strconv.FormatUint(math.Float64bits(x), 16))
		case 3:
			x64 := genFloatM(r, bits, c.places, c.mult)
			x := float32(x64)
			if r.Chance(1, 4) {
				x = ulps32(x, r.Range(-2, 2))
			}
			if bits == 64 {
				x = intoDomain32(r, x, c.mult)
			} else if r.Chance(1, 200) {
				x = []float32{float32(math.NaN()), float32(math.Inf(1)), float32(math.Inf(-1)), math.MaxFloat32}[r.Intn(4)]
			}
			emit(ty + " " + name + " fromf32 " + strconv.FormatUint(uint64(math.Float32bits(x)), 16))
		case 4, 5, 6:
			emit(ty + " " + name + " asf64 " + genRawFloat(r, bits, c.mult, false).String())
		default:
			emit(ty + " " + name + " asf32 " + genRawFloat(r, bits, c.mult, true).String())
		}
	}
}
