package main

import (
	"math/big"
	"strconv"
	"strings"
	"sync/atomic"
	"time"

	"github.com/richardwilkes/toolbox/xmath/fixed"
	"github.com/richardwilkes/toolbox/xmath/fixed/f128"
	"github.com/richardwilkes/toolbox/xmath/fixed/f64"
	"verifharness/hx"
)

// ---------------------------------------------------------------------------------------------------- Fraction text
//
// NewFraction / UnmarshalJSON take text.  The text is built HERE from raw values with math/big (independent of the
// library's String): `fnew <v> <ntok> <dtok>` where a token is a raw value in decimal, `bad` (not a number), `empty`, or
// (denominator only) `none` (no slash at all); v selects white space and zero padding deterministically.

var wsChoices = []string{"", " ", "  ", "\t", " \t "}

// renderIndep writes raw / 10^places as a plain decimal literal; pad = keep all `places` fraction digits.
func renderIndep(raw *big.Int, places int, pad bool) string {
	m := new(big.Int).Exp(bi(10), bi(int64(places)), nil)
	q, r := new(big.Int).QuoRem(raw, m, new(big.Int))
	neg := raw.Sign() < 0
	r.Abs(r)
	ip := new(big.Int).Abs(q).String()
	fr := r.String()
	for len(fr) < places {
		fr = "0" + fr
	}
	if !pad {
		fr = strings.TrimRight(fr, "0")
	}
	s := ip
	if fr != "" {
		s += "." + fr
	}
	if neg {
		s = "-" + s
	}
	return s
}

func tokText(tok string, places int, pad bool) string {
	switch tok {
	case "bad":
		return "x1"
	case "empty":
		return ""
	}
	return renderIndep(parseBig(tok), places, pad)
}

func fracText(places, v int, ntok, dtok string) string {
	s := wsChoices[v%5] + tokText(ntok, places, (v/625)%2 == 1) + wsChoices[(v/5)%5]
	if dtok != "none" {
		s += "/" + wsChoices[(v/25)%5] + tokText(dtok, places, (v/1250)%2 == 1) + wsChoices[(v/125)%5]
	}
	return s
}

func frac64[T fixed.Dx](places int, op string, a []string) string {
	o := func(v f64.Int[T]) string { return strconv.FormatInt(int64(v), 10) }
	all := func(fr f64.Fraction[T]) string {
		out := o(fr.Numerator) + " " + o(fr.Denominator)
		nf := fr
		nf.Normalize()
		out += " | " + o(nf.Numerator) + " " + o(nf.Denominator)
		return out + " | " + hx.Safe(func() string { return o(fr.Value()) })
	}
	switch op {
	case "fnew":
		return all(f64.NewFraction[T](fracText(places, hx.Atoi(a[0]), a[1], a[2])))
	case "fjson":
		fr := f64.Fraction[T]{Numerator: 7, Denominator: 9}
		err := fr.UnmarshalJSON([]byte(strconv.Quote(fracText(places, hx.Atoi(a[0]), a[1], a[2]))))
		if err != nil {
			return "err " + o(fr.Numerator) + " " + o(fr.Denominator)
		}
		return "ok " + o(fr.Numerator) + " " + o(fr.Denominator)
	case "fjsonbad":
		fr := f64.Fraction[T]{Numerator: 7, Denominator: 9}
		if err := fr.UnmarshalJSON([]byte("12")); err != nil {
			return "err " + o(fr.Numerator) + " " + o(fr.Denominator)
		}
		return "ok " + o(fr.Numerator) + " " + o(fr.Denominator)
	}
	return "bad-op"
}

func frac128[T fixed.Dx](places int, op string, a []string) string {
	o := func(v f128.Int[T]) string { return raw128(v).String() }
	raw := func(v int64) f128.Int[T] { return mk128[T](bi(v)) }
	all := func(fr f128.Fraction[T]) string {
		out := o(fr.Numerator) + " " + o(fr.Denominator)
		nf := fr
		nf.Normalize()
		out += " | " + o(nf.Numerator) + " " + o(nf.Denominator)
		return out + " | " + hx.Safe(func() string { return o(fr.Value()) })
	}
	switch op {
	case "fnew":
		return all(f128.NewFraction[T](fracText(places, hx.Atoi(a[0]), a[1], a[2])))
	case "fjson":
		fr := f128.Fraction[T]{Numerator: raw(7), Denominator: raw(9)}
		err := fr.UnmarshalJSON([]byte(strconv.Quote(fracText(places, hx.Atoi(a[0]), a[1], a[2]))))
		if err != nil {
			return "err " + o(fr.Numerator) + " " + o(fr.Denominator)
		}
		return "ok " + o(fr.Numerator) + " " + o(fr.Denominator)
	case "fjsonbad":
		fr := f128.Fraction[T]{Numerator: raw(7), Denominator: raw(9)}
		if err := fr.UnmarshalJSON([]byte("12")); err != nil {
			return "err " + o(fr.Numerator) + " " + o(fr.Denominator)
		}
		return "ok " + o(fr.Numerator) + " " + o(fr.Denominator)
	}
	return "bad-op"
}

// ---------------------------------------------------------------------------------------------------- hang guard
//
// Every operation runs under a deadline: a mutant that loops is answered with `hang` after hangDeadline instead of
// blocking the stream until the check's time-out; after maxHangs hangs the rest of the stream is answered `hang-skipped`
// without being executed (each hung goroutine keeps a CPU busy).

const (
	hangDeadline = 3 * time.Second
	maxHangs     = 3
)

var hangs atomic.Int32

func guarded(f func() string) string {
	if hangs.Load() >= maxHangs {
		return "hang-skipped"
	}
	done := make(chan string, 1)
	go func() { done <- hx.Safe(f) }()
	select {
	case s := <-done:
		return s
	default:
	}
	t := time.NewTimer(hangDeadline)
	defer t.Stop()
	select {
	case s := <-done:
		return s
	case <-t.C:
		hangs.Add(1)
		return "hang"
	}
}

// ---------------------------------------------------------------------------------------------------- fxcfg
//
// Implementation-side oracle for the configuration table: Places() / Multiplier() of Dk, as seen through f64 and f128,
// against k and 10^k computed here.  (The Lean model takes the multiplier from the table regenerated from the source, so
// a mistyped constant is invisible to the model comparison; Props.C03.multiplier_table fails, and this oracle names
// the configuration.)

type cfgArea struct{}

func (cfgArea) Gen(_ *hx.Rng, _ int, _ string, emit func(string)) {
	for rep := 0; rep < 2; rep++ {
		for k := 16; k >= 1; k-- {
			emit("cfg " + strconv.Itoa(k))
		}
	}
}

func (cfgArea) Run(line string) string {
	f := strings.Fields(line)
	if len(f) != 2 || cfgs[f[1]] == nil {
		return "FAIL bad-op"
	}
	c := cfgs[f[1]]
	p64, p128 := c.libPlaces()
	m64, m128 := c.libMult()
	if p64 != c.places || p128 != c.places {
		return "FAIL D" + f[1] + ": MaxDecimalDigits = " + strconv.Itoa(p64) + " / " + strconv.Itoa(p128)
	}
	if m64 != c.mult || m128 != strconv.FormatInt(c.mult, 10) {
		return "FAIL D" + f[1] + ": Multiplier = " + strconv.FormatInt(m64, 10) + " / " + m128 + ", want 10^" + f[1]
	}
	return "ok " + m128
}

var _ = big.NewInt
