package main

import (
	"math/big"
	"strconv"

	"verifharness/hx"
)

// Generator for the areas fx (every exact intermediate and result is representable: the hypotheses of the theorems of
// Props/C03.lean hold) and fxwrap (some intermediate or the result is NOT representable, or the divisor is zero:
// wrap-around / panic behaviour, compared model-vs-implementation only).  The classification is computed here with
// math/big, independently of both the library and the Lean model.

func bi(v int64) *big.Int { return big.NewInt(v) }

func pow2(n int) *big.Int { return new(big.Int).Lsh(bi(1), uint(n)) }

func maxOf(bits int) *big.Int { return new(big.Int).Sub(pow2(bits-1), bi(1)) }
func minOf(bits int) *big.Int { return new(big.Int).Neg(pow2(bits - 1)) }

func fitsS(v *big.Int, bits int) bool { return v.Cmp(minOf(bits)) >= 0 && v.Cmp(maxOf(bits)) <= 0 }
func fitsU(v *big.Int, bits int) bool { return v.Sign() >= 0 && v.Cmp(pow2(bits)) < 0 }

func randBits(r *hx.Rng, n int) *big.Int {
	v := new(big.Int)
	for i := 0; i < (n+63)/64; i++ {
		v.Lsh(v, 64)
		v.Or(v, new(big.Int).SetUint64(r.U64()))
	}
	v.Rsh(v, uint(((n+63)/64)*64-n))
	return v
}

func randSign(r *hx.Rng, v *big.Int) *big.Int {
	if r.Bool() {
		return new(big.Int).Neg(v)
	}
	return v
}

// wrapTo reduces into the signed range of the width (so that every emitted operand is a legal raw value).
func wrapTo(v *big.Int, bits int) *big.Int {
	m := new(big.Int).Mod(v, pow2(bits))
	if m.Cmp(maxOf(bits)) > 0 {
		m.Sub(m, pow2(bits))
	}
	return m
}

func offsets(r *hx.Rng, m *big.Int) *big.Int {
	half := new(big.Int).Quo(m, bi(2))
	switch r.Intn(9) {
	case 0, 1:
		return bi(0)
	case 2:
		return bi(1)
	case 3:
		return bi(-1)
	case 4:
		return half
	case 5:
		return new(big.Int).Neg(half)
	case 6:
		return new(big.Int).Add(half, bi(int64(r.Range(-1, 1))))
	case 7:
		return new(big.Int).Add(new(big.Int).Neg(half), bi(int64(r.Range(-1, 1))))
	default:
		return randSign(r, randBits(r, r.Range(1, m.BitLen())))
	}
}

func genRaw(r *hx.Rng, bits int, m *big.Int) *big.Int {
	var v *big.Int
	switch r.Intn(20) {
	case 0: // around 0
		v = bi(int64(r.Range(-3, 3)))
	case 1: // around ±mult/2
		v = new(big.Int).Add(randSign(r, new(big.Int).Quo(m, bi(2))), bi(int64(r.Range(-2, 2))))
	case 2: // around ±mult
		v = new(big.Int).Add(randSign(r, m), bi(int64(r.Range(-2, 2))))
	case 3, 4, 5: // k·mult ± {0, 1, mult/2, …}, small k
		k := bi(int64(r.Range(-1000, 1000)))
		if r.Chance(1, 2) {
			k = bi(int64(r.Range(-4, 4)))
		}
		v = new(big.Int).Add(new(big.Int).Mul(k, m), offsets(r, m))
	case 6: // k·mult ± …, large k
		n := bits - 1 - m.BitLen()
		k := randSign(r, randBits(r, r.Range(1, n)))
		v = new(big.Int).Add(new(big.Int).Mul(k, m), offsets(r, m))
	case 7: // near Max/mult (the largest value that can still be multiplied by the multiplier)
		v = new(big.Int).Quo(maxOf(bits), m)
		v.Add(v, bi(int64(r.Range(-3, 3))))
		v = randSign(r, v)
	case 8: // near ±2^(bits-1)
		d := bi(int64(r.Range(0, 3)))
		if r.Chance(1, 3) {
			d = randBits(r, r.Range(1, m.BitLen()+1))
		}
		if r.Bool() {
			v = new(big.Int).Sub(maxOf(bits), d)
		} else {
			v = new(big.Int).Add(minOf(bits), d)
		}
	case 9: // near ±sqrt(Max)
		v = new(big.Int).Sqrt(maxOf(bits))
		v.Add(v, bi(int64(r.Range(-3, 3))))
		v = randSign(r, v)
	case 10: // about half width, so that products fit
		v = randSign(r, randBits(r, r.Range(1, (bits-1)/2)))
	case 11, 12: // any bit length
		v = randSign(r, randBits(r, r.Range(1, bits-1)))
	case 13: // full-width random
		v = wrapTo(randBits(r, bits), bits)
	case 14: // powers of two and their neighbours (incl. the 2^31/2^32/2^53/2^63/2^64 word and mantissa boundaries)
		k := r.Range(0, bits-1)
		if r.Bool() {
			k = hx.Pick(r, []int{7, 8, 15, 16, 31, 32, 52, 53, 62, 63, 64, 65, 126, 127})
			if k > bits-1 {
				k = bits - 1
			}
		}
		v = randSign(r, new(big.Int).Add(pow2(k), bi(int64(r.Range(-2, 2)))))
	case 15: // powers of ten and their neighbours
		maxExp := 18
		if bits == 128 {
			maxExp = 38
		}
		v = new(big.Int).Exp(bi(10), bi(int64(r.Range(0, maxExp))), nil)
		v = randSign(r, v.Add(v, bi(int64(r.Range(-1, 1)))))
	case 16: // Max/2 ± 1, Max/mult², 3·Max/4 …
		switch r.Intn(3) {
		case 0:
			v = new(big.Int).Rsh(maxOf(bits), 1)
		case 1:
			v = new(big.Int).Quo(maxOf(bits), mulB(m, m))
		default:
			v = new(big.Int).Sub(maxOf(bits), new(big.Int).Rsh(maxOf(bits), 2))
		}
		v = randSign(r, v.Add(v, bi(int64(r.Range(-2, 2)))))
	case 17: // a·mult lands next to a word boundary 2^k (Div, Inc, From paths; f128 fast paths across 2^63/2^64)
		k := hx.Pick(r, []int{31, 32, 53, 62, 63, 64, 65, 96, 126, 127, 128})
		if k > bits {
			k = hx.Pick(r, []int{31, 32, 53, 62, 63, 64})
		}
		v = new(big.Int).Quo(new(big.Int).Add(pow2(k), bi(int64(r.Range(-2, 2)))), m)
		v = randSign(r, v.Add(v, bi(int64(r.Range(-1, 1)))))
	case 18: // within one whole unit of the ends of the range (Ceil / Round / Inc / Dec at the top and bottom)
		top := mulB(tq(maxOf(bits), m), m) // the largest representable whole number
		d := randBits(r, r.Range(1, m.BitLen()))
		d.Mod(d, new(big.Int).Add(m, bi(2)))
		switch r.Intn(4) {
		case 0:
			v = new(big.Int).Sub(top, d)
		case 1:
			v = new(big.Int).Add(top, d)
		case 2:
			v = new(big.Int).Add(new(big.Int).Neg(top), d)
		default:
			v = new(big.Int).Sub(new(big.Int).Neg(top), d)
		}
	default: // strictly inside (-1, 1): integer part zero, every fraction (Round/Ceil/Trunc of -0.x)
		v = randSign(r, new(big.Int).Mod(randBits(r, m.BitLen()+8), m))
	}
	return wrapTo(v, bits)
}

func genSecond(r *hx.Rng, bits int, m, a *big.Int) *big.Int {
	var v *big.Int
	switch r.Intn(20) {
	case 0:
		v = new(big.Int).Set(a)
	case 1:
		v = new(big.Int).Neg(a)
	case 2:
		v = new(big.Int).Add(a, bi(int64(r.Range(-2, 2))))
	case 3: // ±1.0 … ±9.0
		v = new(big.Int).Mul(m, bi(int64(r.Range(-9, 9))))
	case 4: // tiny raw
		v = bi(int64(r.Range(-3, 3)))
	case 5, 6: // sized so that the product with a (or with the multiplier) is close to the overflow boundary
		n := bits - a.BitLen() + r.Range(-2, 1)
		if n < 1 {
			n = 1
		}
		if n > bits-1 {
			n = bits - 1
		}
		v = randSign(r, randBits(r, n))
	case 7: // a divisor-like value: a / k
		k := bi(int64(r.Range(2, 12)))
		v = new(big.Int).Quo(a, k)
	case 8, 9: // the product a·b lands next to 2^k: word boundaries of the 64/128-bit products (f128 fast paths)
		k := hx.Pick(r, []int{31, 32, 53, 62, 63, 63, 64, 64, 65, 96, 126, 127, 128})
		if k > bits {
			k = hx.Pick(r, []int{31, 32, 53, 62, 63, 64})
		}
		if a.Sign() == 0 {
			v = genRaw(r, bits, m)
			break
		}
		t := new(big.Int).Add(pow2(k), bi(int64(r.Range(-3, 3))))
		v = new(big.Int).Quo(t, new(big.Int).Abs(a))
		v = randSign(r, v.Add(v, bi(int64(r.Range(-1, 1)))))
	case 10: // opposite-sign partner whose difference / sum leaves the range (compare-by-subtraction, a-b wrap)
		d := new(big.Int).Add(pow2(bits-1), bi(int64(r.Range(-2, 2))))
		if a.Sign() >= 0 {
			v = new(big.Int).Sub(a, d)
		} else {
			v = new(big.Int).Add(a, d)
		}
	case 11: // the extremes against anything
		v = hx.Pick(r, []*big.Int{maxOf(bits), minOf(bits), new(big.Int).Add(minOf(bits), bi(1)), bi(-1), bi(1), bi(0)})
	case 12: // a single-bit divisor (shift fast path of the unsigned division)
		v = randSign(r, pow2(r.Range(0, bits-2)))
	case 13: // the divisor equals / brackets the scaled dividend a·mult (quotient 0, ±1, ±2)
		v = new(big.Int).Add(mulB(a, m), bi(int64(r.Range(-1, 1))))
		if r.Chance(1, 3) {
			v.Quo(v, bi(2))
		}
		if r.Bool() {
			v.Neg(v)
		}
	case 14: // divisor 14…19 bits shorter than the scaled dividend (threshold between the two division algorithms)
		n := mulB(a, m).BitLen() - r.Range(13, 20)
		if n < 1 {
			n = 1
		}
		if n > bits-1 {
			n = bits - 1
		}
		v = randSign(r, new(big.Int).SetBit(randBits(r, n), n-1, 1))
	case 15: // product 14…19 bits longer than the multiplier (the same threshold inside Mul's division)
		n := m.BitLen() + r.Range(13, 20) - a.BitLen()
		if n < 1 {
			n = 1
		}
		if n > bits-1 {
			n = bits - 1
		}
		v = randSign(r, new(big.Int).SetBit(randBits(r, n), n-1, 1))
	case 16: // denominators of fractions: 0, ±1 raw, ±1.0
		v = hx.Pick(r, []*big.Int{bi(0), bi(0), bi(1), bi(-1), m, new(big.Int).Neg(m)})
	default:
		v = genRaw(r, bits, m)
	}
	return wrapTo(v, bits)
}

// tq is Go's truncated quotient (big.Int.Quo); b must be non-zero.
func tq(a, b *big.Int) *big.Int { return new(big.Int).Quo(a, b) }

func mulB(a, b *big.Int) *big.Int { return new(big.Int).Mul(a, b) }

type kindInfo struct {
	name   string
	bits   int
	signed bool
}

var kinds = []kindInfo{
	{"int8", 8, true}, {"int16", 16, true}, {"int32", 32, true}, {"int64", 64, true}, {"int", 64, true},
	{"uint8", 8, false}, {"uint16", 16, false}, {"uint32", 32, false}, {"uint64", 64, false}, {"uint", 64, false},
	{"uintptr", 64, false},
	// named types with these underlying kinds
	{"myint8", 8, true}, {"myint64", 64, true}, {"myuint8", 8, false}, {"myuint", 64, false}, {"myuint64", 64, false},
	{"myuintptr", 64, false},
}

func kindOf(name string) kindInfo {
	for _, k := range kinds {
		if k.name == name {
			return k
		}
	}
	panic("bad kind")
}

// divFits: the conditions under which the fixed-point Div(a, b) is exact: b ≠ 0, a·mult and the quotient representable.
func divFits(bits int, m, a, b *big.Int) (*big.Int, bool) {
	if b.Sign() == 0 {
		return nil, false
	}
	p := mulB(a, m)
	if !fitsS(p, bits) {
		return nil, false
	}
	q := tq(p, b)
	return q, fitsS(q, bits)
}

// allFit reports whether every exact intermediate value and the exact result of the operation is representable.
func allFit(bits int, m *big.Int, op string, kind string, a, b *big.Int) bool {
	switch op {
	case "add":
		return fitsS(new(big.Int).Add(a, b), bits)
	case "sub":
		return fitsS(new(big.Int).Sub(a, b), bits)
	case "mul":
		return fitsS(mulB(a, b), bits)
	case "div":
		_, ok := divFits(bits, m, a, b)
		return ok
	case "mod": // `f % value` / Int128.Mod: no intermediate; the exact result always fits, only the zero divisor is outside
		return b.Sign() != 0
	case "neg", "abs":
		return fitsS(new(big.Int).Neg(a), bits)
	case "ceil":
		t := mulB(tq(a, m), m)
		if a.Sign() > 0 && a.Cmp(t) != 0 {
			t.Add(t, m)
		}
		return fitsS(t, bits)
	case "round":
		// judged whenever the EXACT result (nearest whole number, halves away from zero) is representable - no margin:
		// operands within half a unit of the limits that round toward zero are in-hypothesis
		// (C03.rounding_exact_whenever_representable, round_toward_zero_needs_no_margin)
		t := mulB(tq(a, m), m)
		rem := new(big.Int).Sub(a, t)
		half := tq(m, bi(2))
		if rem.Cmp(half) >= 0 {
			t.Add(t, m)
		} else if rem.Cmp(new(big.Int).Neg(half)) <= 0 {
			t.Sub(t, m)
		}
		return fitsS(t, bits)
	case "inc":
		return fitsS(new(big.Int).Add(a, m), bits)
	case "dec":
		return fitsS(new(big.Int).Sub(a, m), bits)
	case "from":
		if bits == 64 && !fitsS(a, 64) {
			return false
		}
		return fitsS(mulB(a, m), bits)
	case "as":
		// always judged: `As` to an integer kind is `TO(int64 quotient)`, and Go's integer -> integer conversion is fully
		// defined (truncation to the width of the target), also when the integer part does not fit the target kind - the
		// model (Fixed.toKind) and both implementations must agree on the wrapped value
		// (C03.f64_f128_agree_as_int has no fitsKind hypothesis).  Only float -> integer out of range is
		// implementation-defined, and that is the float From path (area fxfloatm), not this one.
		return true
	case "maxsafe": // f128.MaxSafeMultiply is the fixed-point Maximum.Div(Multiplier): the intermediate Max·mult wraps
		return bits == 64
	case "fnorm", "fval", "fstr", "fnew", "fjson", "fjsonbad":
		n, d := a, b
		if d.Sign() == 0 {
			n, d = bi(0), m
		} else if d.Sign() < 0 {
			nm := new(big.Int).Neg(m)
			if !fitsS(mulB(n, nm), bits) || !fitsS(mulB(d, nm), bits) {
				return false
			}
			n, d = new(big.Int).Neg(n), new(big.Int).Neg(d)
		}
		if op == "fnorm" || op == "fstr" || op == "fjson" {
			return true
		}
		_, ok := divFits(bits, m, n, d)
		return ok
	}
	return true // trunc, min, max, comparisons, constants: never overflow
}

var binOps = []string{"add", "sub", "mul", "mul", "mul", "div", "div", "div", "mod", "mod", "min", "max", "eq", "lt", "le", "gt", "ge", "cmp", "cmp", "fnorm", "fval", "fstr"}
var unOps = []string{"abs", "neg", "trunc", "trunc", "ceil", "ceil", "ceil", "round", "round", "round", "round", "inc", "dec"}
var constOps = []string{"mult", "places", "maxsafe", "maximum", "minimum"}

func genKindValue(r *hx.Rng, k kindInfo, m *big.Int) *big.Int {
	var lo, hi *big.Int
	if k.signed {
		lo, hi = minOf(k.bits), maxOf(k.bits)
	} else {
		lo, hi = bi(0), new(big.Int).Sub(pow2(k.bits), bi(1))
	}
	var v *big.Int
	switch r.Intn(11) {
	case 8: // half of the kind's range ± 1
		v = new(big.Int).Add(new(big.Int).Rsh(hi, 1), bi(int64(r.Range(-1, 1))))
		v = randSign(r, v)
	case 9: // powers of two ± 1 inside the kind
		v = randSign(r, new(big.Int).Add(pow2(r.Range(0, k.bits)), bi(int64(r.Range(-1, 1)))))
	case 10: // powers of ten ± 1
		v = new(big.Int).Exp(bi(10), bi(int64(r.Range(0, 19))), nil)
		v = randSign(r, v.Add(v, bi(int64(r.Range(-1, 1)))))
	case 0:
		v = new(big.Int).Sub(hi, bi(int64(r.Range(0, 2))))
	case 1:
		v = new(big.Int).Add(lo, bi(int64(r.Range(0, 2))))
	case 2:
		v = bi(int64(r.Range(-3, 3)))
	case 3: // near the largest value whose product with the multiplier fits 64 bits
		v = new(big.Int).Add(tq(maxOf(64), m), bi(int64(r.Range(-2, 2))))
		v = randSign(r, v)
	case 4: // just above MaxInt64 (only meaningful for the unsigned 64-bit kinds)
		v = new(big.Int).Add(pow2(63), bi(int64(r.Range(-2, 2))))
	case 5: // near the largest value whose product with the multiplier fits the kind itself
		v = new(big.Int).Add(tq(hi, m), bi(int64(r.Range(-1, 2))))
		v = randSign(r, v)
	default:
		v = randSign(r, randBits(r, r.Range(1, k.bits)))
	}
	if v.Cmp(lo) < 0 || v.Cmp(hi) > 0 {
		v = new(big.Int).Add(lo, new(big.Int).Mod(v, new(big.Int).Add(new(big.Int).Sub(hi, lo), bi(1))))
	}
	return v
}

func (ar area) Gen(r *hx.Rng, n int, _ string, emit func(string)) {
	emitted := 0
	for tries := 0; emitted < n && tries < n*400; tries++ {
		d := r.Range(1, 16)
		name := strconv.Itoa(d)
		c := cfgs[name]
		m := bi(c.mult)
		tsel := r.Intn(3) // 0: f64, 1: f128, 2: the same 64-bit operands for both
		bits := 64
		if tsel == 1 {
			bits = 128
		}
		var op, kind, args string
		var a, b *big.Int
		switch sel := r.Intn(23); {
		case sel < 10:
			op = hx.Pick(r, binOps)
			a = genRaw(r, bits, m)
			b = genSecond(r, bits, m, a)
			if r.Chance(1, 8) {
				a, b = b, a
			}
			args = a.String() + " " + b.String()
		case sel < 16:
			op = hx.Pick(r, unOps)
			a = genRaw(r, bits, m)
			args = a.String()
		case sel < 18:
			op = "from"
			k := hx.Pick(r, kinds)
			kind = k.name
			a = genKindValue(r, k, m)
			args = kind + " " + a.String()
		case sel < 21:
			op = "as"
			k := hx.Pick(r, kinds)
			kind = k.name
			if r.Chance(1, 4) { // quotient 0, ±1, 2^j ± 1 (low bits of a wider quotient; negative into unsigned)
				q := randSign(r, new(big.Int).Add(pow2(r.Range(0, bits-2-m.BitLen())), bi(int64(r.Range(-1, 1)))))
				if r.Chance(1, 3) {
					q = bi(int64(r.Range(-1, 1)))
				}
				a = wrapTo(new(big.Int).Add(mulB(q, m), offsets(r, m)), bits)
			} else if r.Bool() { // quotient near the limits of the target kind
				lim := maxOf(k.bits)
				if !k.signed {
					lim = new(big.Int).Sub(pow2(k.bits), bi(1))
				}
				q := new(big.Int).Add(lim, bi(int64(r.Range(-1, 1))))
				if k.signed && r.Bool() {
					q = new(big.Int).Add(minOf(k.bits), bi(int64(r.Range(-1, 1))))
				}
				a = wrapTo(new(big.Int).Add(mulB(q, m), offsets(r, m)), bits)
			} else {
				a = genRaw(r, bits, m)
			}
			args = kind + " " + a.String()
		case sel < 22: // Fraction from text: NewFraction / UnmarshalJSON (tokens: raw value, bad, empty, none)
			op = hx.Pick(r, []string{"fnew", "fnew", "fjson"})
			a = genRaw(r, bits, m)
			b = genSecond(r, bits, m, a)
			ntok, dtok := a.String(), b.String()
			switch r.Intn(12) {
			case 0:
				ntok, a = hx.Pick(r, []string{"bad", "empty"}), bi(0)
			case 1:
				dtok, b = hx.Pick(r, []string{"bad", "empty"}), bi(0)
			case 2, 3:
				dtok, b = "none", m
			}
			if r.Chance(1, 40) {
				op, args = "fjsonbad", ""
				a, b = bi(0), m
			} else {
				args = strconv.Itoa(r.Intn(2500)) + " " + ntok + " " + dtok
			}
		default:
			op = hx.Pick(r, constOps)
		}
		fit := allFit(bits, m, op, kind, a, b)
		if fit == ar.wrap {
			continue
		}
		line := " " + name + " " + op
		if args != "" {
			line += " " + args
		}
		has64 := op != "neg" && op != "cmp"
		switch tsel {
		case 0:
			if !has64 {
				continue
			}
			emit("f64" + line)
			emitted++
		case 1:
			emit("f128" + line)
			emitted++
		default:
			// the 64-bit operands are run on both types; for fxwrap the 128-bit side usually does not overflow, which
			// is fine for a model-vs-implementation stream
			if op == "maxsafe" { // f128.MaxSafeMultiply overflows internally: never part of the in-hypothesis stream
				emit("f64" + line)
				emitted++
				continue
			}
			if has64 {
				emit("f64" + line)
				emitted++
			}
			emit("f128" + line)
			emitted++
		}
	}
}

// genRawMid yields a raw value whose quotient raw/mult sits on or within a few raw units of a rounding midpoint of the
// float64 (single: float32) grid: N·2^e with N an odd (p+1)-bit integer, at any magnitude the width allows.
func genRawMid(r *hx.Rng, bits int, mult int64, single bool) *big.Int {
	p := 53
	if single {
		p = 24
	}
	n := randBits(r, p+1)
	n.SetBit(n, p, 1)
	n.SetBit(n, 0, 1)
	v := mulB(n, bi(mult))
	l := r.Range(2, bits-1)
	if e := l - v.BitLen(); e >= 0 {
		v.Lsh(v, uint(e))
	} else {
		v.Rsh(v, uint(-e))
	}
	v.Add(v, bi(int64(r.Range(-2, 2))))
	return wrapTo(randSign(r, v), bits)
}

// genRawFloat: the raw operand of an As-to-float line.
func genRawFloat(r *hx.Rng, bits int, mult int64, single bool) *big.Int {
	if r.Chance(1, 3) {
		return genRawMid(r, bits, mult, single)
	}
	return genRaw(r, bits, bi(mult))
}
