//go:build nooverlay

package main

import (
	"math/big"
	"reflect"
	"strconv"
	"strings"

	"github.com/richardwilkes/toolbox/xmath/fixed"
	"github.com/richardwilkes/toolbox/xmath/fixed/f128"
)

// Black-box substitute for raw_overlay.go, used when the white-box accessor does not compile against the working tree
// (e.g. the private field of f128.Int was renamed).  The raw value is obtained and constructed through the PUBLIC API
// only, exactly for every one of the 2^128 values (Min and Max included):
//   - reading:  String() is the exact decimal expansion of raw / 10^D (property C04); it is parsed here with math/big
//     as sign, integer digits and up to D fraction digits;
//   - building: FromString of the exact decimal literal written here with math/big (renderIndep).
// The number of places D comes from the NAME of the configuration type ("D7" -> 7), not from its methods.
// What is lost against the white-box build: the conversion goes through the library's own text code, so a defect there
// would show up here as well (it is the subject of C04).

const blackBox = true

func placesOf[T fixed.Dx]() int {
	var t T
	k, err := strconv.Atoi(strings.TrimPrefix(reflect.TypeOf(t).Name(), "D"))
	if err != nil || k < 1 || k > 16 {
		panic("stub: unknown configuration type " + reflect.TypeOf(t).Name())
	}
	return k
}

func mk128[T fixed.Dx](raw *big.Int) f128.Int[T] {
	v, err := f128.FromString[T](renderIndep(wrapTo(raw, 128), placesOf[T](), false))
	if err != nil {
		panic("stub: FromString rejected an exact literal: " + err.Error())
	}
	return v
}

func raw128[T fixed.Dx](f f128.Int[T]) *big.Int {
	k := placesOf[T]()
	s := f.String()
	neg := strings.HasPrefix(s, "-")
	s = strings.TrimPrefix(s, "-")
	ip, fr, _ := strings.Cut(s, ".")
	if len(fr) > k {
		panic("stub: String() printed more than D fraction digits: " + s)
	}
	for len(fr) < k {
		fr += "0"
	}
	v, ok := new(big.Int).SetString(ip+fr, 10)
	if !ok {
		panic("stub: String() is not a decimal literal: " + s)
	}
	if neg {
		v.Neg(v)
	}
	return v
}
