// Harness for C03 (fixed-point arithmetic): drives every arithmetic / rounding / comparison method of f64.Int[T] and
// f128.Int[T], the integer paths of From / As, Multiplier / MaxDecimalDigits / MaxSafeMultiply and Fraction.Normalize /
// Fraction.Value for all sixteen configurations D1..D16 (instantiated at compile time by `register`).
//
// Line protocol (areas fx, fxwrap):   <f64|f128> <k of Dk> <op> <args…>     raw values in decimal
// Line protocol (area fxfloat):       <f64|f128> <k> <fromf64|fromf32|asf64|asf32> <hex bits | raw>   (oracle: ok/FAIL)
// Line protocol (area fxfloatm):      the same lines, answered with the raw value / the float's bits (floatm.go)
package main

import (
	"math/big"
	"strconv"
	"strings"

	"github.com/richardwilkes/toolbox/xmath/fixed"
	"github.com/richardwilkes/toolbox/xmath/fixed/f128"
	"github.com/richardwilkes/toolbox/xmath/fixed/f64"
	"verifharness/hx"
)

type cfg struct {
	places    int   // k of Dk: the harness' own view of the configuration (independent of the library)
	mult      int64 // 10^k, computed here (independent of the library)
	libPlaces func() (int, int)
	libMult   func() (int64, string)
	run64     func(op string, a []string) string
	run128    func(op string, a []string) string
	flt64     func(op string, arg string) string
	flt128    func(op string, arg string) string
	fm64      func(op string, arg string) string
	fm128     func(op string, arg string) string
}

var cfgs = map[string]*cfg{}

func register[T fixed.Dx](name string) {
	k := hx.Atoi(name)
	mult := int64(1)
	for i := 0; i < k; i++ {
		mult *= 10
	}
	cfgs[name] = &cfg{
		places: k, mult: mult,
		libPlaces: func() (int, int) { return f64.MaxDecimalDigits[T](), f128.MaxDecimalDigits[T]() },
		libMult: func() (int64, string) {
			return f64.Multiplier[T](), raw128(f128.Multiplier[T]()).String()
		},
		run64:  func(op string, a []string) string { return run64[T](k, op, a) },
		run128: func(op string, a []string) string { return run128[T](k, op, a) },
		flt64:  func(op, arg string) string { return float64Oracle[T](mult, op, arg) },
		flt128: func(op, arg string) string { return float128Oracle[T](mult, op, arg) },
		fm64:   float64Model[T], fm128: float128Model[T],
	}
}

func init() {
	register[fixed.D1]("1")
	register[fixed.D2]("2")
	register[fixed.D3]("3")
	register[fixed.D4]("4")
	register[fixed.D5]("5")
	register[fixed.D6]("6")
	register[fixed.D7]("7")
	register[fixed.D8]("8")
	register[fixed.D9]("9")
	register[fixed.D10]("10")
	register[fixed.D11]("11")
	register[fixed.D12]("12")
	register[fixed.D13]("13")
	register[fixed.D14]("14")
	register[fixed.D15]("15")
	register[fixed.D16]("16")
}

// ---------------------------------------------------------------------------------------------------- raw values

var (
	two64  = new(big.Int).Lsh(big.NewInt(1), 64)
	two128 = new(big.Int).Lsh(big.NewInt(1), 128)
	mask64 = new(big.Int).Sub(two64, big.NewInt(1))
)

func parseBig(s string) *big.Int {
	v, ok := new(big.Int).SetString(s, 10)
	if !ok {
		panic("bad integer " + s)
	}
	return v
}

func b2s(b bool) string { return strconv.FormatBool(b) }

// Named types with the underlying machine kinds: xmath.Numeric admits them (~int8 …), and From / As must treat them by
// kind, not by identity of the type.
type (
	myInt8    int8
	myInt64   int64
	myUint8   uint8
	myUint    uint
	myUint64  uint64
	myUintptr uintptr
	myFloat64 float64
	myFloat32 float32
)

// ---------------------------------------------------------------------------------------------------- f64

func run64[T fixed.Dx](k int, op string, a []string) string {
	p := func(i int) f64.Int[T] {
		v, err := strconv.ParseInt(a[i], 10, 64)
		if err != nil {
			panic("bad int64 " + a[i])
		}
		return f64.Int[T](v)
	}
	o := func(v f64.Int[T]) string { return strconv.FormatInt(int64(v), 10) }
	switch op {
	case "add":
		return o(p(0).Add(p(1)))
	case "sub":
		return o(p(0).Sub(p(1)))
	case "mul":
		return o(p(0).Mul(p(1)))
	case "div":
		return o(p(0).Div(p(1)))
	case "mod":
		return o(p(0).Mod(p(1)))
	case "abs":
		return o(p(0).Abs())
	case "trunc":
		return o(p(0).Trunc())
	case "ceil":
		return o(p(0).Ceil())
	case "round":
		return o(p(0).Round())
	case "min":
		return o(p(0).Min(p(1)))
	case "max":
		return o(p(0).Max(p(1)))
	case "inc":
		return o(p(0).Inc())
	case "dec":
		return o(p(0).Dec())
	// f64.Int is a defined int64 type: its comparisons are the built-in operators
	case "eq":
		return b2s(p(0) == p(1))
	case "lt":
		return b2s(p(0) < p(1))
	case "le":
		return b2s(p(0) <= p(1))
	case "gt":
		return b2s(p(0) > p(1))
	case "ge":
		return b2s(p(0) >= p(1))
	case "mult":
		return strconv.FormatInt(f64.Multiplier[T](), 10)
	case "places":
		return strconv.Itoa(f64.MaxDecimalDigits[T]())
	case "maxsafe":
		return o(f64.MaxSafeMultiply[T]())
	case "maximum": // the exported constants f64.Max / f64.Min
		return strconv.FormatInt(f64.Max, 10)
	case "minimum":
		return strconv.FormatInt(f64.Min, 10)
	case "from":
		return o(from64[T](a[0], a[1]))
	case "as":
		return as64[T](a[0], p(1))
	case "fnorm":
		fr := f64.Fraction[T]{Numerator: p(0), Denominator: p(1)}
		fr.Normalize()
		return o(fr.Numerator) + " " + o(fr.Denominator)
	case "fval": // the receiver must be left alone (value receiver)
		fr := f64.Fraction[T]{Numerator: p(0), Denominator: p(1)}
		return o(fr.Value()) + " " + o(fr.Numerator) + " " + o(fr.Denominator)
	case "fstr":
		fr := f64.Fraction[T]{Numerator: p(0), Denominator: p(1)}
		j, err := fr.MarshalJSON()
		if err != nil {
			return "err"
		}
		return fr.String() + " " + fr.StringWithSign() + " " + string(j) + " " + o(fr.Numerator) + " " + o(fr.Denominator)
	case "fnew", "fjson", "fjsonbad":
		return frac64[T](k, op, a)
	}
	return "bad-op"
}

func sInt(s string, bits int) int64 {
	v, err := strconv.ParseInt(s, 10, bits)
	if err != nil {
		panic("bad value " + s)
	}
	return v
}

func uInt(s string, bits int) uint64 {
	v, err := strconv.ParseUint(s, 10, bits)
	if err != nil {
		panic("bad value " + s)
	}
	return v
}

func from64[T fixed.Dx](kind, s string) f64.Int[T] {
	switch kind {
	case "int8":
		return f64.From[T](int8(sInt(s, 8)))
	case "int16":
		return f64.From[T](int16(sInt(s, 16)))
	case "int32":
		return f64.From[T](int32(sInt(s, 32)))
	case "int64":
		return f64.From[T](sInt(s, 64))
	case "int":
		return f64.From[T](int(sInt(s, 64)))
	case "uint8":
		return f64.From[T](uint8(uInt(s, 8)))
	case "uint16":
		return f64.From[T](uint16(uInt(s, 16)))
	case "uint32":
		return f64.From[T](uint32(uInt(s, 32)))
	case "uint64":
		return f64.From[T](uInt(s, 64))
	case "uint":
		return f64.From[T](uint(uInt(s, 64)))
	case "uintptr":
		return f64.From[T](uintptr(uInt(s, 64)))
	case "myint8":
		return f64.From[T](myInt8(sInt(s, 8)))
	case "myint64":
		return f64.From[T](myInt64(sInt(s, 64)))
	case "myuint8":
		return f64.From[T](myUint8(uInt(s, 8)))
	case "myuint":
		return f64.From[T](myUint(uInt(s, 64)))
	case "myuint64":
		return f64.From[T](myUint64(uInt(s, 64)))
	case "myuintptr":
		return f64.From[T](myUintptr(uInt(s, 64)))
	}
	panic("bad kind " + kind)
}

func as64[T fixed.Dx](kind string, f f64.Int[T]) string {
	switch kind {
	case "int8":
		return strconv.FormatInt(int64(f64.As[T, int8](f)), 10)
	case "int16":
		return strconv.FormatInt(int64(f64.As[T, int16](f)), 10)
	case "int32":
		return strconv.FormatInt(int64(f64.As[T, int32](f)), 10)
	case "int64":
		return strconv.FormatInt(f64.As[T, int64](f), 10)
	case "int":
		return strconv.FormatInt(int64(f64.As[T, int](f)), 10)
	case "uint8":
		return strconv.FormatUint(uint64(f64.As[T, uint8](f)), 10)
	case "uint16":
		return strconv.FormatUint(uint64(f64.As[T, uint16](f)), 10)
	case "uint32":
		return strconv.FormatUint(uint64(f64.As[T, uint32](f)), 10)
	case "uint64":
		return strconv.FormatUint(f64.As[T, uint64](f), 10)
	case "uint":
		return strconv.FormatUint(uint64(f64.As[T, uint](f)), 10)
	case "uintptr":
		return strconv.FormatUint(uint64(f64.As[T, uintptr](f)), 10)
	case "myint8":
		return strconv.FormatInt(int64(f64.As[T, myInt8](f)), 10)
	case "myint64":
		return strconv.FormatInt(int64(f64.As[T, myInt64](f)), 10)
	case "myuint8":
		return strconv.FormatUint(uint64(f64.As[T, myUint8](f)), 10)
	case "myuint":
		return strconv.FormatUint(uint64(f64.As[T, myUint](f)), 10)
	case "myuint64":
		return strconv.FormatUint(uint64(f64.As[T, myUint64](f)), 10)
	case "myuintptr":
		return strconv.FormatUint(uint64(f64.As[T, myUintptr](f)), 10)
	}
	panic("bad kind " + kind)
}

// ---------------------------------------------------------------------------------------------------- f128

func run128[T fixed.Dx](k int, op string, a []string) string {
	p := func(i int) f128.Int[T] { return mk128[T](parseBig(a[i])) }
	o := func(v f128.Int[T]) string { return raw128(v).String() }
	switch op {
	case "add":
		return o(p(0).Add(p(1)))
	case "sub":
		return o(p(0).Sub(p(1)))
	case "mul":
		return o(p(0).Mul(p(1)))
	case "div":
		return o(p(0).Div(p(1)))
	case "mod":
		return o(p(0).Mod(p(1)))
	case "neg":
		return o(p(0).Neg())
	case "abs":
		return o(p(0).Abs())
	case "trunc":
		return o(p(0).Trunc())
	case "ceil":
		return o(p(0).Ceil())
	case "round":
		return o(p(0).Round())
	case "min":
		return o(p(0).Min(p(1)))
	case "max":
		return o(p(0).Max(p(1)))
	case "inc":
		return o(p(0).Inc())
	case "dec":
		return o(p(0).Dec())
	case "cmp":
		return strconv.Itoa(p(0).Cmp(p(1)))
	case "eq":
		return b2s(p(0).Equal(p(1)))
	case "lt":
		return b2s(p(0).LessThan(p(1)))
	case "le":
		return b2s(p(0).LessThanOrEqual(p(1)))
	case "gt":
		return b2s(p(0).GreaterThan(p(1)))
	case "ge":
		return b2s(p(0).GreaterThanOrEqual(p(1)))
	case "mult":
		return o(f128.Multiplier[T]())
	case "places":
		return strconv.Itoa(f128.MaxDecimalDigits[T]())
	case "maxsafe":
		return o(f128.MaxSafeMultiply[T]())
	case "maximum":
		return o(f128.Maximum[T]())
	case "minimum":
		return o(f128.Minimum[T]())
	case "from":
		return o(from128[T](a[0], a[1]))
	case "as":
		return as128[T](a[0], p(1))
	case "fnorm":
		fr := f128.Fraction[T]{Numerator: p(0), Denominator: p(1)}
		fr.Normalize()
		return o(fr.Numerator) + " " + o(fr.Denominator)
	case "fval":
		fr := f128.Fraction[T]{Numerator: p(0), Denominator: p(1)}
		return o(fr.Value()) + " " + o(fr.Numerator) + " " + o(fr.Denominator)
	case "fstr":
		fr := f128.Fraction[T]{Numerator: p(0), Denominator: p(1)}
		j, err := fr.MarshalJSON()
		if err != nil {
			return "err"
		}
		return fr.String() + " " + fr.StringWithSign() + " " + string(j) + " " + o(fr.Numerator) + " " + o(fr.Denominator)
	case "fnew", "fjson", "fjsonbad":
		return frac128[T](k, op, a)
	}
	return "bad-op"
}

func from128[T fixed.Dx](kind, s string) f128.Int[T] {
	switch kind {
	case "int8":
		return f128.From[T](int8(sInt(s, 8)))
	case "int16":
		return f128.From[T](int16(sInt(s, 16)))
	case "int32":
		return f128.From[T](int32(sInt(s, 32)))
	case "int64":
		return f128.From[T](sInt(s, 64))
	case "int":
		return f128.From[T](int(sInt(s, 64)))
	case "uint8":
		return f128.From[T](uint8(uInt(s, 8)))
	case "uint16":
		return f128.From[T](uint16(uInt(s, 16)))
	case "uint32":
		return f128.From[T](uint32(uInt(s, 32)))
	case "uint64":
		return f128.From[T](uInt(s, 64))
	case "uint":
		return f128.From[T](uint(uInt(s, 64)))
	case "uintptr":
		return f128.From[T](uintptr(uInt(s, 64)))
	case "myint8":
		return f128.From[T](myInt8(sInt(s, 8)))
	case "myint64":
		return f128.From[T](myInt64(sInt(s, 64)))
	case "myuint8":
		return f128.From[T](myUint8(uInt(s, 8)))
	case "myuint":
		return f128.From[T](myUint(uInt(s, 64)))
	case "myuint64":
		return f128.From[T](myUint64(uInt(s, 64)))
	case "myuintptr":
		return f128.From[T](myUintptr(uInt(s, 64)))
	}
	panic("bad kind " + kind)
}

func as128[T fixed.Dx](kind string, f f128.Int[T]) string {
	switch kind {
	case "int8":
		return strconv.FormatInt(int64(f128.As[T, int8](f)), 10)
	case "int16":
		return strconv.FormatInt(int64(f128.As[T, int16](f)), 10)
	case "int32":
		return strconv.FormatInt(int64(f128.As[T, int32](f)), 10)
	case "int64":
		return strconv.FormatInt(f128.As[T, int64](f), 10)
	case "int":
		return strconv.FormatInt(int64(f128.As[T, int](f)), 10)
	case "uint8":
		return strconv.FormatUint(uint64(f128.As[T, uint8](f)), 10)
	case "uint16":
		return strconv.FormatUint(uint64(f128.As[T, uint16](f)), 10)
	case "uint32":
		return strconv.FormatUint(uint64(f128.As[T, uint32](f)), 10)
	case "uint64":
		return strconv.FormatUint(f128.As[T, uint64](f), 10)
	case "uint":
		return strconv.FormatUint(uint64(f128.As[T, uint](f)), 10)
	case "uintptr":
		return strconv.FormatUint(uint64(f128.As[T, uintptr](f)), 10)
	case "myint8":
		return strconv.FormatInt(int64(f128.As[T, myInt8](f)), 10)
	case "myint64":
		return strconv.FormatInt(int64(f128.As[T, myInt64](f)), 10)
	case "myuint8":
		return strconv.FormatUint(uint64(f128.As[T, myUint8](f)), 10)
	case "myuint":
		return strconv.FormatUint(uint64(f128.As[T, myUint](f)), 10)
	case "myuint64":
		return strconv.FormatUint(uint64(f128.As[T, myUint64](f)), 10)
	case "myuintptr":
		return strconv.FormatUint(uint64(f128.As[T, myUintptr](f)), 10)
	}
	panic("bad kind " + kind)
}

// ---------------------------------------------------------------------------------------------------- areas

type area struct{ wrap bool }

func (area) Run(line string) string {
	f := strings.Fields(line)
	if len(f) < 3 {
		return "bad-op"
	}
	c, ok := cfgs[f[1]]
	if !ok {
		return "bad-op"
	}
	switch f[0] {
	case "f64":
		return guarded(func() string { return c.run64(f[2], f[3:]) })
	case "f128":
		return guarded(func() string { return c.run128(f[2], f[3:]) })
	}
	return "bad-op"
}

type floatArea struct{}

func (floatArea) Run(line string) string {
	f := strings.Fields(line)
	if len(f) != 4 {
		return "FAIL bad-op"
	}
	c, ok := cfgs[f[1]]
	if !ok {
		return "FAIL bad-op"
	}
	var out string
	switch f[0] {
	case "f64":
		out = guarded(func() string { return c.flt64(f[2], f[3]) })
	case "f128":
		out = guarded(func() string { return c.flt128(f[2], f[3]) })
	default:
		return "FAIL bad-op"
	}
	if out == "hang" || out == "hang-skipped" {
		return "FAIL " + out
	}
	return out
}

func main() {
	hx.Main(map[string]hx.Area{"fx": area{wrap: false}, "fxwrap": area{wrap: true}, "fxfloat": floatArea{},
		"fxfloatm": floatModelArea{}, "fxcfg": cfgArea{}})
}
