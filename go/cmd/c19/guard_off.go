//go:build nooverlay

package main

import "verifharness/hx"

// the white-box accessor did not compile against the working tree: the area does not exist in this build
func guardCall(root, path string) (error, bool) { return nil, false }

func registerGuard(areas map[string]hx.Area) {}
