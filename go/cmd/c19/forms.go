// Two further areas of the C19 harness.
//
// dstform: the destination is handed to the extractors AS THE CALLER SPELLS IT — relative to the working directory,
// with `.`/`..`/repeated or trailing separators, absolute but unclean — with the process standing in T, T/outside or the
// destination itself.  `filepath.Abs(dst)` (the first statement of both ExtractWithMask) is what turns the spelling
// into the root every later check is made against; the model does the same with `Ex.absPath`.
//
// closefault: the close(2) of one extracted regular file fails (strace injects EIO into exactly the close calls of
// descriptors that refer to that path).  The payload was copied, so only the deferred `file.Close()` can tell that the
// entry may not have been written in full; the extraction has to return an error.
package main

import (
	"bytes"
	"fmt"
	"hash/fnv"
	"os"
	"os/exec"
	"path/filepath"
	"strings"

	"verifharness/hx"
)

type formArea struct{}

// Run executes one line; the items `cw:` and `dd:` are handled by execute.
func (formArea) Run(line string) string { return area{}.Run(line) }

type form struct {
	cw, dd string
	force  bool // the sandbox must contain the destination directory (the process stands in it)
}

// the first block names T/dst, the second other places (a missing sub-directory of the destination, the sandbox
// itself, the directory beside the destination)
var forms = []form{
	{"", "dst", false}, {"", "./dst", false}, {"", "dst/", false}, {"", "dst//", false}, {"", "./dst/.", false},
	{"", "outside/../dst", false}, {"", "../" + placeholder + "/dst", false}, {"", "dst/../dst", false},
	{"", "/tmp/" + placeholder + "/dst", false}, {"", "/tmp/" + placeholder + "/dst/", false},
	{"", "/tmp//" + placeholder + "/./dst", false}, {"", "/tmp/" + placeholder + "/outside/../dst", false},
	{"", "//tmp/" + placeholder + "/dst", false}, {"", "/../tmp/" + placeholder + "/dst/.", false},
	{"", ".//dst", false}, {"", "dst/a/..", false}, {"", "nowhere/../dst", false},
	{"outside", "../dst", false}, {"outside", "../dst/", false}, {"outside", "./../dst", false}, {"outside", "..//dst", false},
	{"outside", "../../" + placeholder + "/dst", false}, {"outside", "/tmp/" + placeholder + "/dst", false},
	{"outside", "../outside/../dst/.", false},
	{"dst", ".", true}, {"dst", "", true}, {"dst", "./", true}, {"dst", "../dst", true}, {"dst", "x/..", true},
	{"dst", "/tmp/" + placeholder + "/dst", true}, {"dst", "./.", true}, {"dst", "..//dst/", true},

	{"", "dst/sub", false}, {"", "dst/sub/deeper/", false}, {"", ".", false}, {"", "", false}, {"", "outside", false},
	{"outside", ".", false}, {"outside", "", false}, {"outside", "..", false}, {"dst", "sub", true}, {"dst", "..", true},
	{"", "fresh/new/dst", false}, {"", "dst-evil", false},
}

// with the working directory gone (cg:1): relative spellings are an error before anything happens, absolute ones work
var goneForms = []string{"dst", "", ".", "./dst/", "../" + placeholder + "/dst", "/tmp/" + placeholder + "/dst",
	"/tmp//" + placeholder + "/outside/../dst/", "/tmp/" + placeholder + "/fresh/dst", "x/../dst"}

// Gen emits archives of the ordinary generator with a destination spelling each.
func (formArea) Gen(r *hx.Rng, n int, _ string, emit func(string)) {
	priv := os.Geteuid() == 0
	for i := 0; i < n; i++ {
		f := forms[i%len(forms)]
		if i >= len(forms) && r.Chance(1, 2) {
			f = hx.Pick(r, forms)
		}
		if i >= len(forms) && i%8 == 0 { // the working directory was removed: only ExtractWithMask, no via
			emit(fmt.Sprintf("%s cg:1 dd:%s", genLine(r, priv, false), hexs(goneForms[(i/8)%len(goneForms)])))
			continue
		}
		line := genLine(r, priv, f.force)
		hs := fnv.New32a()
		_, _ = hs.Write([]byte(line))
		if h := hs.Sum32() >> 3; h%4 == 0 {
			line += " v:" + []string{"x", "a", "am"}[(h/4)%3]
		}
		emit(fmt.Sprintf("%s cw:%s dd:%s", line, hexs(f.cw), hexs(f.dd)))
	}
}

type closeArea struct{}

// regNames returns the names of the regular-file entries of a line (without those that mention the sandbox).
func regNames(line string) []string {
	var names []string
	for _, w := range strings.Fields(line) {
		p := strings.Split(w, ":")
		if len(p) == 8 && p[0] == "e" && (p[1] == "r" || p[1] == "f") {
			if nm := string(hx.UnHex(p[2])); !strings.Contains(nm, placeholder) {
				names = append(names, nm)
			}
		}
	}
	return names
}

// Gen emits archives with `cf:<path below the destination>`: the close of the file extracted there fails.  Half of
// the lines get a benign entry of their own for it (first, last or in the middle), the others fail the close of one
// of the generator's entries (which may itself be refused, truncated, written twice, …).
func (closeArea) Gen(r *hx.Rng, n int, _ string, emit func(string)) {
	priv := os.Geteuid() == 0
	for i := 0; i < n; i++ {
		line := genLine(r, priv, i%5 != 0)
		zip := strings.HasPrefix(line, "zip")
		cf := ""
		if names := regNames(line); len(names) > 0 && i%2 == 1 {
			c := filepath.Join("/", hx.Pick(r, names))
			cf = strings.TrimPrefix(c, "/")
		}
		if cf == "" {
			cf = hx.Pick(r, []string{"cfile", "cd/cfile", "a/cfile", "cd/e/f/cfile"})
			k := "r"
			if zip {
				k = "f"
			}
			nm := hx.Pick(r, []string{cf, "./" + cf, cf, "../dst/" + cf, "/" + cf})
			sz := hx.Pick(r, []int{0, 1, 5, 700, 40000})
			e := fmt.Sprintf("e:%s:%s:%o:%d:%d:%d:-", k, hexs(nm), hx.Pick(r, fileModes)&0o7777, r.Intn(200), sz, sz)
			w := strings.Fields(line)
			// position: before the first entry, after the last, or in the middle
			first := len(w)
			for j, x := range w {
				if strings.HasPrefix(x, "e:") {
					first = j
					break
				}
			}
			pos := []int{first, len(w), first + (len(w)-first)/2}[r.Intn(3)]
			w = append(w[:pos], append([]string{e}, w[pos:]...)...)
			line = strings.Join(w, " ")
		}
		if r.Chance(1, 10) {
			line += " r:2"
		}
		emit(line + " cf:" + hexs(cf))
	}
}

// Run executes the line in a child process under strace with the close fault armed.
func (closeArea) Run(line string) string {
	return guarded(func() string {
		cf := ""
		var rest []string
		for _, w := range strings.Fields(line) {
			if strings.HasPrefix(w, "cf:") {
				cf = string(hx.UnHex(w[3:]))
				continue
			}
			rest = append(rest, w)
		}
		// a clean relative path below the destination; `..a` and `a..b` are ordinary names, only a `..` COMPONENT is refused
		if cf == "" || strings.HasPrefix(cf, "/") {
			return "bad-op"
		}
		for _, c := range strings.Split(cf, "/") {
			if c == "" || c == "." || c == ".." {
				return "bad-op"
			}
		}
		t, err := os.MkdirTemp("/tmp", "c19-")
		must(err)
		must(os.Remove(t)) // the child creates it again
		defer cleanup(t)
		exe, err := os.Executable()
		must(err)
		cmd := exec.Command("strace", "-f", "-qq", "-o", "/dev/null", "-P", filepath.Join(t, "dst", cf), "-e", "trace=close",
			"-e", "inject=close:error=EIO", exe, "run", "extract")
		cmd.Env = append(os.Environ(), "C19_T="+t)
		cmd.Stdin = strings.NewReader(strings.Join(rest, " ") + "\n")
		var out, errb bytes.Buffer
		cmd.Stdout, cmd.Stderr = &out, &errb
		if rerr := cmd.Run(); rerr != nil {
			return "child-failed:" + strings.ReplaceAll(rerr.Error()+" "+clip(errb.String()), " ", "_")
		}
		return strings.TrimRight(out.String(), "\n")
	})
}
