// Harness for C19 (archive extraction): every line describes a sandbox (pre-existing files, directories, symbolic and
// hard links below a fresh temporary directory T) and a tar or zip archive.  The archive is built in memory with
// archive/tar / archive/zip, extracted with ExtractWithMask into T/dst by the real code, and the ENTIRE tree below T
// (under and beside the destination) is printed canonically, preceded by ok/err.
package main

import (
	"archive/tar"
	"archive/zip"
	"bytes"
	"fmt"
	"hash/fnv"
	"io/fs"
	"os"
	"os/signal"
	"path/filepath"
	"sort"
	"strconv"
	"strings"
	"syscall"
	"time"

	xtar "github.com/richardwilkes/toolbox/xio/fs/tar"
	xzip "github.com/richardwilkes/toolbox/xio/fs/zip"
	"verifharness/hx"
)

const placeholder = "@T@"

type area struct{}

func pattern(seed, n int) []byte {
	b := make([]byte, n)
	for i := range b {
		b[i] = byte((seed + i*7 + i/251) % 256)
	}
	return b
}

func oct(s string) int {
	v, err := strconv.ParseInt(s, 8, 64)
	if err != nil {
		panic("bad octal " + s)
	}
	return int(v)
}

type entry struct {
	k                        string
	name, link               string
	mode, seed, length, pres int
}

// Run executes one line.
const deadline = 10 * time.Second

var hung bool

// guarded runs one line with a deadline: a call that does not return is reported as `hang` at once, and the rest of
// the stream is skipped (the runaway goroutine may still be touching the process state).
func guarded(f func() string) string {
	if hung {
		return "skipped-after-crash"
	}
	ch := make(chan string, 1)
	go func() { ch <- hx.Safe(f) }()
	select {
	case s := <-ch:
		return s
	case <-time.After(deadline):
		hung = true
		return "hang"
	}
}

// Run executes one line against the real code.
func (area) Run(line string) string {
	return guarded(func() string {
		o := execute(line, false)
		if o.bad {
			return "bad-op"
		}
		return o.res + format(o.nodes)
	})
}

// linkModelArea: the destination is a symbolic link and the WHOLE tree (the link and its target included) is compared
// with the resolving model, which follows the link as the kernel does.
type linkModelArea struct{}

// Run executes one line with `dst -> real`.
func (linkModelArea) Run(line string) string {
	return guarded(func() string {
		o := execute(line, strings.Contains(line, " dl:"))
		if o.bad {
			return "bad-op"
		}
		return o.res + format(o.nodes)
	})
}

// Gen emits the sandboxes of linkArea, marked `dl:1`.
func (linkModelArea) Gen(r *hx.Rng, n int, tier string, emit func(string)) {
	priv := os.Geteuid() == 0
	for i := 0; i < n; i++ {
		switch {
		case i%2 == 0: // the destination itself is a link (7 shapes; 6 and 7 are chains of 40 and 41 links)
			k := 1 + (i/2)%5
			if i%40 == 38 {
				k = 6 + (i/40)%2
			}
			emit(fmt.Sprintf("%s dl:%d", genLine(r, priv, true), k))
		default: // the destination's parent is missing / a link / a chain of links / an absolute link
			emit(fmt.Sprintf("%s dp:%d", genLine(r, priv, false), 1+(i/2)%4))
		}
	}
}

// Run of linkArea: the same sandbox and archive twice — once with `dst` a symbolic link to the sibling directory `real`
// that holds what the sandbox put into the destination, once with `dst` that directory itself.  The two trees must be
// the same after renaming (extracting through a linked destination is extracting into its target).  Archives with an
// entry that names the destination itself are exempt: the guard refuses to Lstat a linked root.
func (linkArea) Run(line string) string {
	s := linkRun(line)
	if s == "hang" || s == "panic" {
		return "FAIL " + s
	}
	return s
}

func linkRun(line string) string {
	return guarded(func() string {
		a := execute(line, true)
		b := execute(line, false)
		if a.bad || b.bad {
			return "bad-op"
		}
		var na []node
		sawLink := false
		for _, n := range a.nodes {
			switch {
			case n.rel == "dst":
				sawLink = n.text == "s:"+hx.Hex([]byte("real"))
				continue
			case n.rel == "real":
				n.rel = "dst"
			case strings.HasPrefix(n.rel, "real/"):
				n.rel = "dst/" + n.rel[5:]
			}
			na = append(na, n)
		}
		if !sawLink {
			return "FAIL the destination link was replaced or removed"
		}
		ra, rb := a.res+format(na), b.res+format(b.nodes)
		if ra == rb {
			return "ok " + b.res
		}
		if a.rootEntry {
			return "ok exempt-root-entry"
		}
		return "FAIL linked=" + clip(ra) + " plain=" + clip(rb)
	})
}

func clip(s string) string {
	if len(s) > 400 {
		return s[:400] + "..."
	}
	return s
}

type outcome struct {
	bad       bool
	res       string
	nodes     []node
	rootEntry bool // some entry's name cleans to the destination itself
}

// execute builds the sandbox, runs the extraction and collects the tree; with dstLink the sandbox's `dst` subtree is
// created as `real` and `dst` is a symbolic link to it.
func execute(line string, dstLink bool) (o outcome) {
	f := strings.Fields(line)
	isGuard := len(f) >= 2 && f[0] == "guard" // area guard: the sandbox is built, then EnsureNoSymlinks is called directly
	if len(f) < 2 || (f[0] != "tar" && f[0] != "zip" && !isGuard) {
		o.bad = true
		return
	}
	gr, gp, grSet, gpSet := "", "", false, false
	dlKind := 1 // how `dst` points at `real` when it is a link (dl:<k>)
	dpKind := 0 // the destination is T/p/dst: 1 = p missing, 2 = p -> q, 3 = p -> m -> q, 4 = p -> /tmp/T/q (dp:<k>)
	for _, w := range f[2:] {
		if strings.HasPrefix(w, "dl:") {
			dlKind = hx.Atoi(w[3:])
		}
		if strings.HasPrefix(w, "dp:") {
			dpKind = hx.Atoi(w[3:])
		}
	}
	// place maps the sandbox's `dst/…` to where it physically lives; "" = it cannot exist (dp:1)
	place := func(rel string) string {
		if rel == "dst" || strings.HasPrefix(rel, "dst/") {
			switch {
			case dstLink:
				return "real" + rel[3:]
			case dpKind == 1:
				return ""
			case dpKind >= 2:
				return "q/" + rel
			}
		}
		return rel
	}
	isZip := f[0] == "zip"
	mask := oct(f[1])
	// the close-fault parent (closefault.go) fixes the sandbox so that it can tell strace which path to watch
	t := os.Getenv("C19_T")
	if t != "" {
		must(os.Mkdir(t, 0o700))
	} else {
		var err error
		if t, err = os.MkdirTemp("/tmp", "c19-"); err != nil {
			panic(err)
		}
	}
	defer cleanup(t)
	base := filepath.Base(t)
	subst := func(s string) string { return strings.ReplaceAll(s, placeholder, base) }
	var entries []entry
	limit := -1
	via := ""
	times := 1
	ddSet, dd, cw := false, "", "" // dd: the destination as the caller spells it; cw: the working directory (below T)
	cwGone := false                // cg:1: the process stands in a directory that was removed (os.Getwd fails)
	if dpKind >= 2 {
		must(os.Mkdir(filepath.Join(t, "q"), 0o755))
		switch dpKind {
		case 3:
			must(os.Symlink("q", filepath.Join(t, "m")))
			must(os.Symlink("m", filepath.Join(t, "p")))
		case 4:
			must(os.Symlink(filepath.Join(t, "q"), filepath.Join(t, "p")))
		default:
			must(os.Symlink("q", filepath.Join(t, "p")))
		}
	}
	skip := func(rel string) bool { return place(rel) == "" }
	for _, w := range f[2:] {
		p := strings.Split(w, ":")
		switch {
		case p[0] == "v" && len(p) == 2:
			via = p[1]
		case p[0] == "r" && len(p) == 2:
			times = hx.Atoi(p[1])
		case (p[0] == "dl" || p[0] == "dp" || p[0] == "cf") && len(p) == 2:
		case isGuard && p[0] == "gr" && len(p) == 2:
			gr, grSet = string(hx.UnHex(p[1])), true
		case isGuard && p[0] == "gp" && len(p) == 2:
			gp, gpSet = string(hx.UnHex(p[1])), true
		case p[0] == "cg" && len(p) == 2 && p[1] == "1":
			cwGone = true
		case p[0] == "dd" && len(p) == 2:
			ddSet, dd = true, subst(string(hx.UnHex(p[1])))
		case p[0] == "cw" && len(p) == 2:
			cw = string(hx.UnHex(p[1]))
		case p[0] == "i" && len(p) >= 3 && skip(string(hx.UnHex(p[2]))):
			// below a destination whose parent does not exist
		case p[0] == "w" && len(p) == 2:
			limit = hx.Atoi(p[1])
		case p[0] == "i" && p[1] == "d" && len(p) == 4:
			path := filepath.Join(t, place(string(hx.UnHex(p[2]))))
			must(os.Mkdir(path, 0o700))
			must(os.Chmod(path, modeOf(oct(p[3]))))
		case p[0] == "i" && p[1] == "f" && len(p) == 6:
			path := filepath.Join(t, place(string(hx.UnHex(p[2]))))
			must(writeInitial(path, pattern(hx.Atoi(p[4]), hx.Atoi(p[5]))))
			must(os.Chmod(path, modeOf(oct(p[3]))))
		case p[0] == "i" && p[1] == "s" && len(p) == 4:
			must(os.Symlink(subst(string(hx.UnHex(p[3]))), filepath.Join(t, place(string(hx.UnHex(p[2]))))))
		case p[0] == "i" && p[1] == "h" && len(p) == 4 && skip(string(hx.UnHex(p[3]))):
		case p[0] == "i" && p[1] == "h" && len(p) == 4:
			must(os.Link(filepath.Join(t, place(string(hx.UnHex(p[3])))), filepath.Join(t, place(string(hx.UnHex(p[2]))))))
		case p[0] == "e" && len(p) == 8:
			entries = append(entries, entry{k: p[1], name: subst(string(hx.UnHex(p[2]))), mode: oct(p[3]), seed: hx.Atoi(p[4]),
				length: hx.Atoi(p[5]), pres: hx.Atoi(p[6]), link: subst(string(hx.UnHex(p[7])))})
		default:
			o.bad = true
			return
		}
	}
	if isGuard {
		if !grSet || !gpSet || len(entries) > 0 || dstLink || dpKind > 0 {
			o.bad = true
			return
		}
		gerr, have := guardCall(filepath.Join(t, gr), filepath.Join(t, gp))
		if !have {
			o.bad = true
			return
		}
		o.res = "ok"
		if gerr != nil {
			o.res = "err"
		}
		o.nodes = collect(t, base)
		return
	}
	dst := filepath.Join(t, "dst")
	if dpKind > 0 {
		dst = filepath.Join(t, "p", "dst")
	}
	if dstLink {
		switch dlKind {
		case 6, 7: // a chain of 40 links is followed, the 41st gives ELOOP
			n := 34 + dlKind
			for i := 1; i < n; i++ {
				tg := fmt.Sprintf("c%d", i+1)
				if i == n-1 {
					tg = "real"
				}
				must(os.Symlink(tg, filepath.Join(t, fmt.Sprintf("c%d", i))))
			}
			must(os.Symlink("c1", dst))
		case 2: // absolute
			must(os.Symlink(filepath.Join(t, "real"), dst))
		case 3: // with dots and a trailing slash
			must(os.Symlink("./real/", dst))
		case 4: // a chain of two links
			must(os.Symlink("real", filepath.Join(t, "mid")))
			must(os.Symlink("mid", dst))
		case 5: // out of the sandbox and back
			must(os.Symlink("../"+base+"/real", dst))
		default:
			must(os.Symlink("real", dst))
		}
	}
	for _, e := range entries {
		if e.k != "x" && e.k != "g" && filepath.Join(dst, e.name) == dst {
			o.rootEntry = true
		}
	}
	var raw []byte
	var bad bool
	if isZip {
		raw, bad = buildZip(entries)
	} else {
		raw, bad = buildTar(entries)
	}
	if bad {
		o.bad = true
		return
	}
	// the archive FILE of the *Archive* forms lives outside the sandbox (it must not show up in the tree)
	src := ""
	switch via {
	case "a", "am", "cut":
		af, cerr := os.CreateTemp("/tmp", "c19a-")
		must(cerr)
		src = af.Name()
		defer os.Remove(src)
		if via == "cut" && len(raw) > 100 {
			raw = raw[:100]
		}
		_, werr := af.Write(raw)
		must(werr)
		must(af.Close())
	case "missing":
		src = filepath.Join("/tmp", base+"-no-such-archive")
	case "", "x":
	default:
		o.bad = true
		return
	}
	if cwGone && (!ddSet || via != "") {
		o.bad = true
		return
	}
	if ddSet { // the destination is handed over as spelled (relative, unclean, …) with the process in T/<cw>
		wd := filepath.Join(t, cw)
		if cwGone { // a directory of its own, removed as soon as the process stands in it: it is not part of the tree
			wd = filepath.Join(t, "cwd-gone")
			must(os.Mkdir(wd, 0o700))
		}
		if os.Chdir(wd) != nil {
			o.bad = true
			return
		}
		if cwGone {
			must(os.Remove(wd))
		}
		defer func() { _ = os.Chdir("/") }()
		dst = dd
	}
	restore := writeLimit(limit)
	fm := os.FileMode(mask)
	results := make([]string, 0, times)
	for round := 0; round < times; round++ {
		var xerr error
		switch {
		case via == "" && !isZip:
			xerr = xtar.ExtractWithMask(tar.NewReader(bytes.NewReader(raw)), dst, fm)
		case via == "" && isZip:
			xerr = xzip.ExtractWithMask(zipReader(raw), dst, fm)
		case via == "x" && !isZip:
			xerr = xtar.Extract(tar.NewReader(bytes.NewReader(raw)), dst)
		case via == "x" && isZip:
			xerr = xzip.Extract(zipReader(raw), dst)
		case via == "a" && !isZip:
			xerr = xtar.ExtractArchive(src, dst)
		case via == "a" && isZip:
			xerr = xzip.ExtractArchive(src, dst)
		case via == "am" && !isZip:
			xerr = xtar.ExtractArchiveWithMask(src, dst, fm)
		case via == "am" && isZip:
			xerr = xzip.ExtractArchiveWithMask(src, dst, fm)
		case !isZip: // missing / cut: the mask word selects the form (0 = ExtractArchive)
			if mask == 0 {
				xerr = xtar.ExtractArchive(src, dst)
			} else {
				xerr = xtar.ExtractArchiveWithMask(src, dst, fm)
			}
		default:
			if mask == 0 {
				xerr = xzip.ExtractArchive(src, dst)
			} else {
				xerr = xzip.ExtractArchiveWithMask(src, dst, fm)
			}
		}
		if xerr != nil {
			results = append(results, "err")
		} else {
			results = append(results, "ok")
		}
	}
	restore()
	leaked := src != "" && via != "missing" && holdsOpen(src)
	res := strings.Join(results, ",")
	o.nodes = collect(t, base)
	if leaked {
		res += " FD-LEAK" // an *Archive* form returned without closing the archive file
	}
	for _, esc := range []string{"/tmp/c19esc", "/c19esc"} {
		if _, e := os.Lstat(esc); e == nil {
			res += " ESCAPED:" + esc
			_ = os.RemoveAll(esc)
		}
	}
	o.res = res
	return
}

// writeLimit makes every write beyond `limit` bytes of a file fail (RLIMIT_FSIZE: the kernel writes up to the limit and
// then reports EFBIG) for the duration of the extraction: the fault "an entry cannot be written in full".
func writeLimit(limit int) func() {
	if limit < 0 {
		return func() {}
	}
	var old syscall.Rlimit
	must(syscall.Getrlimit(syscall.RLIMIT_FSIZE, &old))
	must(syscall.Setrlimit(syscall.RLIMIT_FSIZE, &syscall.Rlimit{Cur: uint64(limit), Max: old.Max}))
	return func() { must(syscall.Setrlimit(syscall.RLIMIT_FSIZE, &old)) }
}

func modeOf(m int) os.FileMode {
	fm := os.FileMode(m & 0o777)
	if m&0o4000 != 0 {
		fm |= os.ModeSetuid
	}
	if m&0o2000 != 0 {
		fm |= os.ModeSetgid
	}
	if m&0o1000 != 0 {
		fm |= os.ModeSticky
	}
	return fm
}

// writeInitial is os.WriteFile for the files that exist BEFORE the extraction, except that the result of close(2) is
// not looked at: in the closefault area strace fails every close of the watched path, and the watched path may be one
// that the line also creates up front (the fault is meant for the library's close, not for the set-up's).
func writeInitial(path string, data []byte) error {
	f, err := os.OpenFile(path, os.O_WRONLY|os.O_CREATE|os.O_TRUNC, 0o600)
	if err != nil {
		return err
	}
	_, err = f.Write(data)
	_ = f.Close()
	return err
}

func must(err error) {
	if err != nil {
		panic(err)
	}
}

func cleanup(t string) {
	if os.Geteuid() != 0 {
		_ = filepath.WalkDir(t, func(p string, d fs.DirEntry, err error) error {
			if err == nil && d.IsDir() {
				_ = os.Chmod(p, 0o700)
			}
			return nil
		})
	}
	_ = os.RemoveAll(t)
}

// holdsOpen reports whether one of the harness's descriptors still refers to the archive file (an *Archive* form that
// returned without closing it).  Only descriptors of that very file count: the runtime opens others on its own.
func holdsOpen(src string) bool {
	d, err := os.Open("/proc/self/fd")
	if err != nil {
		return false
	}
	defer d.Close()
	names, _ := d.Readdirnames(-1)
	for _, n := range names {
		if tg, lerr := os.Readlink("/proc/self/fd/" + n); lerr == nil && tg == src {
			return true
		}
	}
	return false
}

func zipReader(raw []byte) *zip.Reader {
	zr, err := zip.NewReader(bytes.NewReader(raw), int64(len(raw)))
	if err != nil && zr == nil {
		panic(err)
	}
	return zr
}

func buildTar(entries []entry) ([]byte, bool) {
	var buf bytes.Buffer
	tw := tar.NewWriter(&buf)
	complete := true
loop:
	for _, e := range entries {
		hdr := &tar.Header{Name: e.name, Mode: int64(e.mode), Linkname: e.link}
		switch e.k {
		case "r":
			hdr.Typeflag = tar.TypeReg
			hdr.Size = int64(e.length)
		case "d":
			hdr.Typeflag = tar.TypeDir
		case "s":
			hdr.Typeflag = tar.TypeSymlink
		case "l":
			hdr.Typeflag = tar.TypeLink
		case "o":
			hdr.Typeflag = tar.TypeFifo
		case "c":
			hdr.Typeflag = tar.TypeChar
			hdr.Devmajor, hdr.Devminor = 1, 7
		case "b":
			hdr.Typeflag = tar.TypeBlock
			hdr.Devmajor, hdr.Devminor = 8, 0
		case "n": // contiguous file: a payload the extractor has to skip
			hdr.Typeflag = tar.TypeCont
			hdr.Size = int64(e.length)
		case "g": // PAX global header: the reader hands it to the caller as an entry of its own
			hdr = &tar.Header{Typeflag: tar.TypeXGlobalHeader, PAXRecords: map[string]string{"comment": "c19"}} // its name is GlobalHead.0.0
		case "x": // a header the reader rejects: seed 0 = a block of 0xff, seed 1 = the stream ends 100 bytes into a header
			must(tw.Flush())
			if e.seed == 1 {
				var hb bytes.Buffer
				hw := tar.NewWriter(&hb)
				must(hw.WriteHeader(&tar.Header{Name: "cut", Typeflag: tar.TypeReg, Mode: 0o644}))
				buf.Write(hb.Bytes()[:100])
			} else {
				buf.Write(bytes.Repeat([]byte{0xff}, 512))
			}
			complete = false
			break loop
		default:
			return nil, true
		}
		// the header encoding (ustar / PAX records with a path override / GNU long names) is chosen per entry; when the
		// chosen one cannot hold the header the writer picks for itself
		if e.k != "g" {
			hdr.Format = []tar.Format{tar.FormatUnknown, tar.FormatPAX, tar.FormatGNU}[e.seed%3]
		}
		if err := tw.WriteHeader(hdr); err != nil {
			hdr.Format = tar.FormatUnknown
			if err = tw.WriteHeader(hdr); err != nil {
				return nil, true
			}
		}
		if e.k == "n" {
			if _, err := tw.Write(pattern(e.seed, e.length)); err != nil {
				return nil, true
			}
		}
		if e.k == "r" {
			n := e.length
			if e.pres < n {
				n = e.pres
			}
			if _, err := tw.Write(pattern(e.seed, e.length)[:n]); err != nil {
				return nil, true
			}
			if e.pres < e.length { // the stream ends here: the header promised more
				complete = false
				break loop
			}
		}
	}
	if complete {
		must(tw.Close())
	}
	return buf.Bytes(), false
}

func buildZip(entries []entry) ([]byte, bool) {
	var buf bytes.Buffer
	zw := zip.NewWriter(&buf)
	corrupt := make([]bool, len(entries))
	resize := make([]int, len(entries))    // change of the declared uncompressed size in the central directory
	unopen := make([]string, len(entries)) // "M": compression method 99, "H": local file header destroyed
	for i, e := range entries {
		fh := &zip.FileHeader{Name: e.name, Method: zip.Store}
		mode := os.FileMode(e.mode & 0o777)
		payload := pattern(e.seed, e.length)
		bad := e.pres < e.length
		switch e.k {
		case "f":
			if e.link == "L" || e.link == "S" {
				bad = false
				resize[i] = map[string]int{"L": 1, "S": -1}[e.link]
			}
			if e.link == "M" || e.link == "H" { // the entry cannot be opened
				bad = false
				unopen[i] = e.link
			}
		case "d":
			bad = false
			mode |= os.ModeDir
		case "s":
			mode |= os.ModeSymlink
			payload = []byte(e.link)
			bad = e.pres == 0 && len(e.link) > 0
			if e.length == 99 {
				unopen[i] = "M"
			} else if e.length == 98 {
				unopen[i] = "H"
			}
		default:
			return nil, true
		}
		if strings.HasSuffix(e.name, "/") { // archive/zip writes such an entry without a payload
			payload = nil
			bad = false
			resize[i] = 0
			unopen[i] = ""
		}
		if unopen[i] != "" {
			bad = false
			resize[i] = 0
		}
		if !bad && resize[i] == 0 && e.seed%2 == 1 {
			fh.Method = zip.Deflate
		}
		fh.SetMode(mode)
		w, err := zw.CreateHeader(fh)
		if err != nil {
			return nil, true
		}
		if len(payload) > 0 {
			if _, err = w.Write(payload); err != nil {
				return nil, true
			}
		}
		corrupt[i] = bad
	}
	must(zw.Close())
	b := buf.Bytes()
	zr, err := zip.NewReader(bytes.NewReader(b), int64(len(b)))
	if err != nil && zr == nil {
		return nil, true
	}
	for i, f := range zr.File {
		if corrupt[i] {
			off, oerr := f.DataOffset()
			must(oerr)
			b[off] ^= 0xff
		}
	}
	patchDeclaredSizes(b, resize, unopen)
	return b, false
}

// patchDeclaredSizes changes the uncompressed size recorded in the central directory of the i-th entry by resize[i].
func patchDeclaredSizes(b []byte, resize []int, unopen []string) {
	le16 := func(o int) int { return int(b[o]) | int(b[o+1])<<8 }
	le32 := func(o int) int { return le16(o) | le16(o+2)<<16 }
	eocd := bytes.LastIndex(b, []byte{0x50, 0x4b, 0x05, 0x06})
	if eocd < 0 {
		return
	}
	pos := le32(eocd + 16)
	for i := 0; i < len(resize) && pos+46 <= len(b) && le32(pos) == 0x02014b50; i++ {
		if resize[i] != 0 {
			v := le32(pos+24) + resize[i]
			b[pos+24], b[pos+25], b[pos+26], b[pos+27] = byte(v), byte(v>>8), byte(v>>16), byte(v>>24)
		}
		switch unopen[i] {
		case "M": // compression method 99 in the central directory: archive/zip has no decompressor for it
			b[pos+10], b[pos+11] = 99, 0
		case "H": // the signature of the local file header this entry points at
			if lh := le32(pos + 42); lh+4 <= len(b) {
				b[lh] ^= 0xff
			}
		}
		pos += 46 + le16(pos+28) + le16(pos+30) + le16(pos+32)
	}
}

type node struct {
	rel  string
	text string
	ino  uint64
	file bool
}

func collect(t, base string) []node {
	var nodes []node
	_ = filepath.WalkDir(t, func(p string, d fs.DirEntry, err error) error {
		if p == t {
			return nil
		}
		rel, _ := filepath.Rel(t, p)
		rel = strings.ReplaceAll(rel, base, placeholder)
		if err != nil {
			nodes = append(nodes, node{rel: rel, text: "walk-error"})
			return nil
		}
		fi, lerr := os.Lstat(p)
		if lerr != nil {
			nodes = append(nodes, node{rel: rel, text: "lstat-error"})
			return nil
		}
		st := fi.Sys().(*syscall.Stat_t)
		perm := strconv.FormatUint(uint64(st.Mode&0o7777), 8)
		switch {
		case fi.Mode().IsDir():
			nodes = append(nodes, node{rel: rel, text: "d:" + perm})
		case fi.Mode()&os.ModeSymlink != 0:
			tg, _ := os.Readlink(p)
			nodes = append(nodes, node{rel: rel, text: "s:" + hx.Hex([]byte(strings.ReplaceAll(tg, base, placeholder)))})
		case fi.Mode().IsRegular():
			data, rerr := os.ReadFile(p)
			if rerr != nil {
				nodes = append(nodes, node{rel: rel, text: "read-error"})
				return nil
			}
			h := fnv.New32a()
			_, _ = h.Write(data)
			nodes = append(nodes, node{rel: rel, text: fmt.Sprintf("f:%s:%d:%x", perm, len(data), h.Sum32()), ino: st.Ino, file: true})
		default:
			nodes = append(nodes, node{rel: rel, text: "other"})
		}
		return nil
	})
	return nodes
}

// format prints the nodes sorted by path; regular files carry the index of the first path that shares their inode.
func format(nodes []node) string {
	sort.Slice(nodes, func(i, j int) bool { return nodes[i].rel < nodes[j].rel })
	first := map[uint64]int{}
	out := make([]string, 0, len(nodes))
	for i, n := range nodes {
		s := hx.Hex([]byte(n.rel)) + ":" + n.text
		if n.file {
			g, ok := first[n.ino]
			if !ok {
				g = i
				first[n.ino] = i
			}
			s += ":g" + strconv.Itoa(g)
		}
		out = append(out, s)
	}
	if len(out) == 0 {
		return ""
	}
	return " " + strings.Join(out, " ")
}

func main() {
	syscall.Umask(0)
	signal.Ignore(syscall.SIGXFSZ) // a write beyond RLIMIT_FSIZE must fail with EFBIG instead of killing the harness
	areas := map[string]hx.Area{"extract": area{}, "dstlink": linkArea{}, "dstlinkm": linkModelArea{}, "dstform": formArea{},
		"closefault": closeArea{}}
	registerGuard(areas)
	hx.Main(areas)
}
