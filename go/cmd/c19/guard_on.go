//go:build !nooverlay

package main

import (
	"verifharness/hx"

	xtar "github.com/richardwilkes/toolbox/xio/fs/tar"
)

func guardCall(root, path string) (error, bool) { return xtar.VerifEnsureNoSymlinks(root, path), true }

func registerGuard(areas map[string]hx.Area) { areas["guard"] = guardArea{} }
