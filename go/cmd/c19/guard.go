// Area guard: internal.EnsureNoSymlinks(root, path) called DIRECTLY (through the overlay accessor) on a sandbox tree,
// against Ex.ensureNoSymlinksR of the resolving model.  One line = `guard 0 <i: items>* gr:<root> gp:<path>`; root and
// path are relative to the sandbox T (hex; `-` = T itself) and handed over as clean absolute paths.  Pairs: the path
// below the root or equal to it — the guard's documented precondition ("path, which must be lexically within root") and
// all the extractors ever pass; what it does with other pairs is not constrained and NOT compared.  Roots that are
// directories, links, missing; trees with links, link chains, missing tails (not: a regular file on the way).  Output:
// ok|err and the whole tree (the guard must not change anything).
package main

import (
	"fmt"
	"os"
	"strings"

	"verifharness/hx"
)

type guardArea struct{}

func (guardArea) Run(line string) string { return area{}.Run(line) }

var guardNames = []string{"a", "b", "l", "f", "k", "p", "h", "x", "n1", "m0"}

func (guardArea) Gen(r *hx.Rng, n int, _ string, emit func(string)) {
	priv := os.Geteuid() == 0
	for i := 0; i < n; i++ {
		g := &gen{r: r, priv: priv, maskOverride: -1, forceDst: i%4 != 0}
		g.sandbox()
		hasDst := false
		for _, it := range g.items {
			if strings.HasPrefix(it, "i:d:"+hexs("dst")+":") {
				hasDst = true
			}
		}
		// a few more nodes so that deep paths meet something: directories, a file, links of every flavour
		if hasDst && r.Bool() {
			g.initDir("dst/x", 0o755)
			if r.Bool() {
				g.initDir("dst/x/n1", 0o700)
			}
			if r.Chance(1, 3) {
				g.initSym("dst/x/m0", hx.Pick(r, []string{"n1", "../../outside", "/tmp/" + placeholder + "/outside", "nonexistent", ".."}))
			}
		}
		if r.Chance(1, 5) {
			g.initSym("lroot", hx.Pick(r, []string{"dst", "outside", "nonexistent", "/tmp/" + placeholder + "/dst"}))
		}
		comp := func() string { return hx.Pick(r, guardNames) }
		below := func(base string, depth int) string {
			p := base
			for k := 0; k < depth; k++ {
				if p != "" {
					p += "/"
				}
				p += comp()
			}
			return p
		}
		var rels []string // what the sandbox holds: most paths run to or through one of these
		for _, it := range g.items {
			if p := strings.Split(it, ":"); len(p) >= 3 && p[0] == "i" {
				rels = append(rels, string(hx.UnHex(p[2])))
			}
		}
		root := hx.Pick(r, []string{"dst", "dst", "dst", "dst", "dst/x", "outside", "lroot", "dst-evil", "nowhere", "", "dst/a"})
		var path string
		switch r.Intn(10) {
		case 0:
			path = root // Rel = "."
		case 1, 2, 3:
			path = below(root, r.Range(1, 4))
		default: // to or through an existing node, the root an ancestor of it (mostly)
			path = hx.Pick(r, rels)
			if r.Bool() {
				path = below(path, r.Range(1, 2))
			}
			parts := strings.Split(path, "/")
			root = strings.Join(parts[:r.Intn(len(parts))], "/")
			if r.Chance(1, 8) {
				root = path
			}
		}
		// a regular file on the way (ENOTDIR) is left out: whether the guard or the next system call reports it is not
		// constrained (the extraction fails either way), only links and plain directories / missing tails are compared
		files := map[string]bool{}
		for _, it := range g.items {
			if p := strings.Split(it, ":"); len(p) >= 3 && p[0] == "i" && (p[1] == "f" || p[1] == "h") {
				files[string(hx.UnHex(p[2]))] = true
			}
		}
		through := files["dst"] && strings.HasPrefix(root, "lroot")
		for parts, k := strings.Split(path, "/"), 1; k < len(parts); k++ {
			if files[strings.Join(parts[:k], "/")] {
				through = true
			}
		}
		if through {
			path = root
		}
		emit(fmt.Sprintf("guard 0 %s gr:%s gp:%s", strings.Join(g.items, " "), hexs(root), hexs(path)))
	}
}
