package main

import (
	"fmt"
	"hash/fnv"
	"os"
	"path/filepath"
	"strings"

	"verifharness/hx"
)

var comps = []string{"a", "b", "c", "d", "f", "l", "k", "x y", "\xc3\xa9", "a", "b", "l"}

type gen struct {
	r            *hx.Rng
	zip          bool
	priv         bool
	items        []string
	names        []string // names (relative to dst) that exist already or are created by earlier entries
	syms         []string // those of them that are symbolic links
	files        []string // those of them that are regular files
	ghosts       []string // names an earlier entry NAMED without creating them (ancestors of skipped-kind entries)
	adv          int      // percentage of adversarial choices in this archive
	cnt          int
	maskOverride int // -1 = none
	forceDst     bool
}

func (g *gen) plain() string {
	n := 1
	switch v := g.r.Intn(20); {
	case v < 10:
		n = 1
	case v < 17:
		n = 2
	default:
		n = 3
	}
	parts := make([]string, n)
	for i := range parts {
		parts[i] = hx.Pick(g.r, comps)
	}
	return strings.Join(parts, "/")
}

var specials = []string{".", "", "./", "..", "/", "dst", "../dst", "../dst/", "../dst/.", "../../../../../../../../c19esc", "./.",
	"a/..", "../dst-evil", "../outside", "../outside/victim", "../outside/new", "..//dst//a", "/../dst/a"}

func (g *gen) decorate(s string) string {
	switch g.r.Intn(26) {
	case 0:
		return "./" + s
	case 1:
		return "/" + s
	case 2:
		return "//" + s
	case 3:
		return s + "/"
	case 4:
		return strings.Replace(s, "/", "//", 1)
	case 5:
		return "a/../" + s
	case 6:
		return s + "/."
	case 7:
		return s + "/.."
	case 8:
		return "../" + s
	case 9:
		return "../dst/" + s
	case 10:
		return "../dst-evil/" + s
	case 11:
		return "../outside/" + s
	case 12:
		return "../../tmp/" + placeholder + "/dst/" + s
	case 13:
		return "../../../c19esc/" + s
	case 14:
		return "../../c19esc/" + s
	case 15, 16:
		return hx.Pick(g.r, specials)
	case 17:
		return "/tmp/" + placeholder + "/dst/" + s
	case 18:
		return "dst/../" + s
	case 19:
		return "./../" + s
	case 20:
		return "../../tmp/" + placeholder + "/outside/" + s
	default:
		return s
	}
}

// fresh returns a name that does not collide with anything (optionally below a directory made of fresh components).
func (g *gen) fresh() string {
	g.cnt++
	s := fmt.Sprintf("n%d", g.cnt)
	switch g.r.Intn(4) {
	case 0:
		return fmt.Sprintf("m%d/%s", g.r.Intn(3), s)
	case 1:
		return fmt.Sprintf("m%d/q%d/%s", g.r.Intn(3), g.r.Intn(2), s)
	}
	return s
}

var nfc, nfd = "\u00e9", "e\u0301" // the same letter composed and decomposed: different names for the kernel

// weird returns names at the limits of what the file system takes: 255-byte components, depth 35, a path of ~3.9 KB,
// control characters, backslashes, trailing dots, only dots, invalid UTF-8, normalisation pairs.
func (g *gen) weird() string {
	r := g.r
	long := func(c byte, k int) string {
		return strings.Repeat(string([]byte{c}), 255-k) + fmt.Sprintf("%0*d", k, r.Intn(9))
	}
	switch r.Intn(14) {
	case 0:
		return long('L', 1)
	case 1:
		return long('M', 1) + "/" + long('N', 1)
	case 2: // depth 35
		return strings.Repeat("a/", 34) + "f"
	case 3: // depth 64 with a file at the bottom
		return strings.Repeat("d/", 63) + hx.Pick(r, comps)
	case 4: // near PATH_MAX: 15 components of 255 bytes
		parts := make([]string, 15)
		for i := range parts {
			parts[i] = strings.Repeat(string([]byte{byte('a' + i)}), 255)
		}
		return strings.Join(parts, "/")
	case 5:
		return hx.Pick(r, []string{"a.", "a..", "...", "....", ".a", "..a", "a/...", ".../b"})
	case 6:
		return hx.Pick(r, []string{"a\\b", "\\", "..\\x", "a\\..\\..\\x", "c:\\x"})
	case 7:
		return hx.Pick(r, []string{"a\nb", "\n", "a\tb", "\r", "a\x7fb", "\x01"})
	case 8:
		return hx.Pick(r, []string{nfc, nfd, nfc + "/" + nfd, nfd + "/x"})
	case 9:
		return hx.Pick(r, []string{"\xff\xfe", "a\xc3", "\xe2\x80\xae" + "x", "\xef\xbb\xbf" + "a"})
	case 10:
		return hx.Pick(r, []string{" ", "  ", "-", "--x", "~", "*", "?", "a b c", "$HOME", "%00", "CON", "a:b"})
	case 11: // 100/101 bytes: the ustar name field boundary; 155+100: the prefix split
		return hx.Pick(r, []string{strings.Repeat("x", 100), strings.Repeat("x", 101), strings.Repeat("p", 155) + "/" + strings.Repeat("n", 100),
			strings.Repeat("p", 156) + "/" + strings.Repeat("n", 100), strings.Repeat("q", 99) + "/" + "a"})
	case 12:
		return g.plain() + "/" + long('Z', 2)
	default:
		return strings.Repeat("e/", r.Range(28, 40)) + g.plain()
	}
}

func (g *gen) name() string {
	if g.r.Chance(1, 30) {
		return g.weird()
	}
	if g.r.Intn(100) >= g.adv {
		if g.r.Chance(1, 4) {
			return g.plain()
		}
		return g.fresh()
	}
	switch v := g.r.Intn(20); {
	case v < 5 && len(g.names) > 0:
		s := hx.Pick(g.r, g.names)
		if g.r.Chance(1, 4) {
			s = g.decorate(s)
		}
		return s
	case v < 9 && len(g.names) > 0:
		base := hx.Pick(g.r, g.names)
		if len(g.syms) > 0 && g.r.Bool() {
			base = hx.Pick(g.r, g.syms)
		}
		return base + "/" + g.plain()
	case v < 14:
		return g.plain()
	default:
		return g.decorate(g.plain())
	}
}

func (g *gen) size() int {
	switch v := g.r.Intn(100); {
	case v < 20:
		return 0
	case v < 40:
		return 1
	case v < 43:
		return 70000
	case v < 46: // around io.Copy's 32 KiB buffer; rarely 1 MiB
		if g.r.Chance(1, 12) {
			return 1 << 20
		}
		return hx.Pick(g.r, []int{32767, 32768, 32769, 65536, 65537})
	case v < 50:
		return hx.Pick(g.r, []int{511, 512, 513, 1024})
	default:
		return g.r.Range(2, 40)
	}
}

var fileModes = []int{0o644, 0o644, 0o600, 0o755, 0o444, 0o400, 0o000, 0o777, 0o4755, 0o666, 0o640, 0o751, 0o664, 0o775, 0o7777,
																		0o7777777, 1<<40 | 0o646, 0o1000, 0o001, 0o002, 0o020}
var dirModes = []int{0o755, 0o755, 0o700, 0o777, 0o555, 0o000, 0o750, 0o711, 0o1777, 0o775, 0o777, 0o7777777 &^ 0o2000, 1<<40 | 0o757, 0o500} // no setgid: the kernel would propagate it to children

func (g *gen) fmode() int {
	m := hx.Pick(g.r, fileModes)
	if !g.priv {
		m |= 0o600
	}
	return m
}

func (g *gen) dmode() int {
	m := hx.Pick(g.r, dirModes)
	if !g.priv {
		m |= 0o700
	}
	return m
}

func hexs(s string) string { return hx.Hex([]byte(s)) }

func (g *gen) initDir(rel string, mode int) {
	g.items = append(g.items, fmt.Sprintf("i:d:%s:%o", hexs(rel), mode&0o7777))
}

func (g *gen) initFile(rel string, mode, seed, n int) {
	g.items = append(g.items, fmt.Sprintf("i:f:%s:%o:%d:%d", hexs(rel), mode&0o777, seed, n))
}

func (g *gen) initSym(rel, target string) {
	g.items = append(g.items, fmt.Sprintf("i:s:%s:%s", hexs(rel), hexs(target)))
}

func (g *gen) initHard(rel, target string) {
	g.items = append(g.items, fmt.Sprintf("i:h:%s:%s", hexs(rel), hexs(target)))
}

func (g *gen) entry(k, name string, mode, seed, n, pres int, link string) {
	g.items = append(g.items, fmt.Sprintf("e:%s:%s:%o:%d:%d:%d:%s", k, hexs(name), mode, seed, n, pres, hexs(link)))
}

func (g *gen) noteFile(name string) {
	n := len(g.names)
	g.note(name, false)
	if len(g.names) > n {
		g.files = append(g.files, g.names[n])
	}
}

func (g *gen) note(name string, sym bool) {
	c := strings.Trim(name, "/")
	if c == "" || strings.Contains(c, "..") || strings.HasPrefix(name, "/") || strings.Contains(c, "//") || strings.Contains(c, "./") {
		return
	}
	g.names = append(g.names, c)
	if sym {
		g.syms = append(g.syms, c)
	}
}

var symTargets = []string{"../outside", "/tmp/" + placeholder + "/outside", "../outside/victim", "/tmp/" + placeholder + "/outside/victim", ".", "..",
	"a", "a/b", "nonexistent", "", "/tmp/" + placeholder + "/dst", "../dst-evil", "l", "../dst", "b", "../outside/new"}

func (g *gen) symTarget() string {
	if len(g.names) > 0 && g.r.Chance(1, 4) {
		return hx.Pick(g.r, g.names)
	}
	return hx.Pick(g.r, symTargets)
}

func (g *gen) linkTarget() string {
	if len(g.files) > 0 && g.r.Intn(100) >= g.adv {
		return hx.Pick(g.r, g.files)
	}
	switch v := g.r.Intn(20); {
	case v < 10 && len(g.names) > 0:
		s := hx.Pick(g.r, g.names)
		if g.r.Chance(1, 5) {
			s = g.decorate(s)
		}
		return s
	case v < 12:
		return "../outside/victim"
	case v < 13:
		return "/tmp/" + placeholder + "/outside/victim"
	case v < 14:
		return "../../tmp/" + placeholder + "/outside/victim"
	case v < 15 && len(g.syms) > 0:
		return hx.Pick(g.r, g.syms) + hx.Pick(g.r, []string{"", "/victim", "/a"})
	case v < 16:
		return hx.Pick(g.r, []string{"", ".", "..", "./", "../dst"})
	default:
		return g.decorate(g.plain())
	}
}

// sandbox emits the pre-existing state: `outside/` with its sentinels always, the destination in one of its states.
func (g *gen) sandbox() {
	r := g.r
	g.initDir("outside", 0o755)
	g.initFile("outside/victim", 0o644, 77, 9)
	if r.Bool() {
		g.initDir("dst-evil", 0o755)
	}
	if r.Chance(1, 6) {
		g.initDir("dst2", 0o755)
		g.initFile("dst2/keep", 0o600, 5, 3)
	}
	switch v := r.Intn(100); {
	case g.forceDst:
	case v < 12: // destination missing
		return
	case v < 16: // destination is a file
		g.initFile("dst", 0o644, 1, 4)
		return
	}
	g.initDir("dst", hx.Pick(r, []int{0o755, 0o755, 0o700, 0o777}))
	have := map[string]bool{}
	for i, n := 0, r.Intn(4); i < n; i++ {
		nm := hx.Pick(r, []string{"a", "b", "l", "f", "k", "p", "h"})
		if have[nm] {
			continue
		}
		have[nm] = true
		switch r.Intn(6) {
		case 0, 1:
			dm := g.dmode() | 0o700
			if g.priv && r.Chance(1, 3) {
				dm = hx.Pick(r, []int{0o555, 0o500, 0o000, 0o111}) // read-only / untraversable for ordinary users
			}
			g.initDir("dst/"+nm, dm)
			g.note(nm, false)
			if r.Bool() {
				g.initFile("dst/"+nm+"/f", g.fmode(), r.Intn(200), r.Intn(6))
				g.note(nm+"/f", false)
			}
			if r.Chance(1, 3) {
				g.initSym("dst/"+nm+"/l", hx.Pick(r, []string{"../../outside", "..", "f", "/tmp/" + placeholder + "/outside"}))
				g.note(nm+"/l", true)
			}
		case 2:
			g.initFile("dst/"+nm, g.fmode(), r.Intn(200), r.Intn(6))
			g.note(nm, false)
		case 3, 4:
			g.initSym("dst/"+nm, hx.Pick(r, []string{"../outside", "a", "nonexistent", "../outside/victim", "/tmp/" + placeholder + "/outside", ".", "../dst-evil"}))
			g.note(nm, true)
		case 5:
			g.initHard("dst/"+nm, "outside/victim")
			g.note(nm, false)
		}
	}
}

func (g *gen) fileKind() string {
	if g.zip {
		return "f"
	}
	return "r"
}

func (g *gen) regName(s string) string {
	if g.zip {
		return s
	}
	s = strings.TrimRight(s, "/") // archive/tar's writer refuses a regular entry with a trailing slash
	if s == "" {
		return "a"
	}
	return s
}

// noteGhost records the proper ancestors of a name that an entry mentioned without creating anything.
func (g *gen) noteGhost(name string) {
	c := strings.Trim(name, "/")
	if c == "" || strings.Contains(c, "..") || strings.HasPrefix(name, "/") || strings.Contains(c, "//") || strings.Contains(c, "./") {
		return
	}
	parts := strings.Split(c, "/")
	for k := 1; k < len(parts); k++ {
		g.ghosts = append(g.ghosts, strings.Join(parts[:k], "/"))
	}
}

// ghostScenario: an entry of a kind the tar extractor does not materialise (fifo, character / block device, contiguous
// file) NAMES a nested path whose parents do not exist (sometimes: do exist) and creates nothing; then a symbolic or hard
// link entry takes the name of one of those parents; then entries below that name.  Anything that remembers "this
// directory was looked at / will exist" from the first entry is wrong by the third.  zip has no skipped kinds: there
// the first entry is left out (a link, then entries below it).
func (g *gen) ghostScenario(fk, out string) {
	r := g.r
	g.cnt++
	top := fmt.Sprintf("g%d", g.cnt)
	dirs := []string{top}
	for k, d := 0, r.Intn(3); k < d; k++ {
		dirs = append(dirs, dirs[len(dirs)-1]+"/"+hx.Pick(r, []string{"p", "q", "a"}))
	}
	deepest := dirs[len(dirs)-1]
	if r.Chance(1, 5) { // the sibling case: the parent exists
		g.entry("d", top, g.dmode()|0o700, 0, 0, 0, "")
		g.note(top, false)
	}
	if !g.zip {
		for k, m := 0, r.Range(1, 2); k < m; k++ {
			kind := hx.Pick(r, []string{"o", "c", "b", "n"})
			n := 0
			if kind == "n" {
				n = r.Range(0, 40)
			}
			g.entry(kind, deepest+"/"+hx.Pick(r, []string{"x", "fifo", "dev"}), 0o644, r.Intn(256), n, n, "")
		}
		g.noteGhost(deepest + "/x")
	}
	at := hx.Pick(r, dirs) // the ancestor whose name the link takes
	switch {
	case g.zip || r.Chance(3, 4):
		g.entry("s", at, 0o777, 0, 0, 1, hx.Pick(r, []string{out, out, "../outside", "/tmp/" + placeholder + "/outside", "."}))
		g.note(at, true)
	default: // a hard link (to a file made just before, or to the outside sentinel)
		if r.Bool() {
			g.entry("r", "gsrc", g.fmode(), 1, 3, 3, "")
			g.noteFile("gsrc")
			g.entry("l", at, 0o644, 0, 0, 0, "gsrc")
		} else {
			g.entry("l", at, 0o644, 0, 0, 0, "../outside/victim")
		}
	}
	for k, m := 0, r.Range(1, 3); k < m; k++ {
		below := at + "/" + hx.Pick(r, []string{"y", "evil", "victim", "z/y", "new/deep/y"})
		if k == 0 && len(dirs) > 1 && r.Bool() {
			below = deepest + "/y" // the very directory the skipped entry named
		}
		g.entry(hx.Pick(r, []string{fk, fk, fk, "d", "s"}), below, g.fmode(), 3, 4, 1<<20, "t")
	}
	g.entry(fk, "after", g.fmode(), 3, 2, 2, "")
}

func (g *gen) randomEntry() {
	r := g.r
	nm := g.name()
	seed := r.Intn(256)
	if len(g.ghosts) > 0 && r.Chance(1, 5) { // a link takes a name that was only mentioned so far, then an entry below it
		at := hx.Pick(r, g.ghosts)
		g.entry("s", at, 0o777, seed, 0, 1, g.symTarget())
		g.note(at, true)
		g.entry(g.fileKind(), at+"/"+hx.Pick(r, []string{"y", "evil", "z/y"}), g.fmode(), seed, 3, 3, "")
		return
	}
	v := r.Intn(100)
	if g.zip {
		switch {
		case v < 50:
			n := g.size()
			pres := n
			fault := ""
			if n > 0 && r.Intn(100) < g.adv/8+1 {
				switch r.Intn(5) {
				case 0:
					pres = 0 // CRC mismatch
				case 1:
					fault = "L" // declared size one more than the payload
				case 2:
					fault = "M" // compression method 99: f.Open() fails, before anything is created
				case 3:
					fault = "H" // local file header destroyed: f.Open() fails
				default:
					if n <= 40 {
						fault = "S" // declared size one less than the payload
					} else {
						pres = 0
					}
				}
			}
			g.entry("f", nm, g.fmode(), seed, n, pres, fault)
			g.noteFile(nm)
		case v < 72:
			if r.Bool() && !strings.HasSuffix(nm, "/") {
				nm += "/"
			}
			n := 0
			if !strings.HasSuffix(nm, "/") && r.Chance(1, 3) {
				n = g.r.Range(1, 30) // directory bit AND a payload: the payload is ignored
			}
			g.entry("d", nm, g.dmode(), seed, n, n, "")
			g.note(nm, false)
		default:
			tg := g.symTarget()
			pres := 1
			unopenable := 0
			if r.Intn(100) < g.adv/8+1 {
				switch r.Intn(3) {
				case 0:
					pres = 0
				case 1:
					unopenable = 99 // compression method 99
				default:
					unopenable = 98 // local file header destroyed
				}
			}
			// a symlink-bit entry with a trailing slash that names the destination itself passes Go's root test
			// (fi.IsDir() is true for the slash) but not the model's (kind = symlink): an error without effect in both,
			// except that Go's MkdirAll(Dir(root)) creates a missing parent of the destination first.  Documented
			// (Props/C19.lean header), not generated.
			if strings.HasSuffix(nm, "/") && filepath.Join("/r/dst", nm) == "/r/dst" {
				nm = "x" + nm
			}
			g.entry("s", nm, 0o777, seed, unopenable, pres, tg)
			g.note(nm, true)
		}
		return
	}
	switch {
	case v < 40:
		n := g.size()
		pres := n
		if n > 0 && r.Intn(100) < g.adv/8+1 {
			pres = r.Intn(n)
		}
		nm = g.regName(nm)
		g.entry("r", nm, g.fmode(), seed, n, pres, "")
		g.noteFile(nm)
	case v < 58:
		if r.Bool() && !strings.HasSuffix(nm, "/") {
			nm += "/"
		}
		g.entry("d", nm, g.dmode(), seed, 0, 0, "")
		g.note(nm, false)
	case v < 74:
		g.entry("s", nm, 0o777, seed, 0, 0, g.symTarget())
		g.note(nm, true)
	case v < 91:
		if len(g.files) == 0 && r.Intn(100) >= g.adv {
			g.entry("r", g.regName(nm), g.fmode(), seed, 3, 3, "")
			g.noteFile(g.regName(nm))
			return
		}
		g.entry("l", nm, 0o644, seed, 0, 0, g.linkTarget())
		g.note(nm, false)
	case v < 97:
		// type flags the extractor skips: fifo, character and block device, contiguous file (with a payload), PAX global header
		k := hx.Pick(r, []string{"o", "o", "c", "b", "n", "g"})
		n := 0
		if k == "n" {
			n = r.Range(0, 600)
		}
		if r.Bool() { // at a fresh nested path: its ancestors are named, not created
			nm = g.fresh() + "/" + hx.Pick(r, comps)
		}
		g.entry(k, g.regName(nm), 0o644, seed, n, n, "")
		if k != "g" {
			g.noteGhost(g.regName(nm))
		}
	default:
		if r.Intn(100) < g.adv {
			// seed 0: a block of 0xff (bad checksum); seed 1: the stream ends 100 bytes into the header
			g.entry("x", "-", 0, r.Intn(2), 0, 0, "")
		} else {
			g.entry("d", g.plain(), g.dmode(), seed, 0, 0, "")
		}
	}
}

// scenario emits one of the classical attacks / boundary sequences (then random entries may follow).
func (g *gen) scenario() {
	r := g.r
	fk := g.fileKind()
	out := hx.Pick(r, []string{"../outside", "/tmp/" + placeholder + "/outside", "../dst-evil", ".."})
	switch r.Intn(22) {
	case 19, 20, 21:
		g.ghostScenario(fk, out)
	case 12: // a symbolic link (also at depth), then entries beneath it two and more levels down
		ln := hx.Pick(r, []string{"l", "a/l", "a/b/l"})
		g.entry("s", ln, 0o777, 0, 0, 1, out)
		g.note(ln, true)
		g.entry(hx.Pick(r, []string{fk, "d", "s"}), ln+hx.Pick(r, []string{"/x/evil", "/x/y/evil", "/victim/x", "/x/y/z/w"}), g.fmode(), 3, 4, 4, "t")
		g.entry(fk, "after", g.fmode(), 3, 2, 2, "")
	case 13: // hard links in sub-directories: the link name is relative to the ROOT, not to the directory of the link
		if g.zip {
			g.entry("f", "a/f", g.fmode(), 2, 5, 5, "")
			g.entry("s", "a/b/h", 0o777, 0, 0, 1, "../f")
		} else {
			g.entry("r", "a/f", g.fmode(), 2, 5, 5, "")
			g.entry("r", "a/b/f", g.fmode(), 7, 6, 6, "")
			g.entry("l", "a/b/h", 0o644, 0, 0, 0, hx.Pick(r, []string{"a/f", "a/b/f", "f", "../f", "b/f", "./a/f"}))
			g.entry("l", "c/d/e/h2", 0o644, 0, 0, 0, hx.Pick(r, []string{"a/b/h", "a/f", "h", "c/d/e/h2"}))
			g.note("a/f", false)
			g.note("a/b/h", false)
		}
	case 14: // a symbolic link entry, then an entry of the SAME name (the final component must be inspected)
		ln := hx.Pick(r, []string{"l", "a/l"})
		tg := hx.Pick(r, []string{"../outside/victim", "../outside/new", "/tmp/" + placeholder + "/outside/victim", "../../outside/victim", "nonexistent", "../outside"})
		g.entry("s", ln, 0o777, 0, 0, 1, tg)
		k := hx.Pick(r, []string{fk, fk, "d", "s", "l"})
		if g.zip && k == "l" {
			k = "f"
		}
		g.entry(k, hx.Pick(r, []string{ln, "./" + ln, ln + "/."}), g.fmode(), 9, g.size(), 1<<20, "x")
	case 15: // group/other write bits under the usual masks: every MkdirAll and OpenFile must apply the mask, and only the mask
		g.maskOverride = hx.Pick(r, []int{0o777, 0o770, 0o755, 0o775, 0o707})
		g.entry("d", "w", hx.Pick(r, []int{0o777, 0o775, 0o757}), 0, 0, 0, "")
		g.entry(fk, "w/f", hx.Pick(r, []int{0o666, 0o664, 0o646, 0o777}), 1, 3, 3, "")
		g.entry(fk, "p/q/f", hx.Pick(r, []int{0o666, 0o662, 0o777}), 1, 3, 3, "")
		g.entry("s", "p2/q/l", 0o777, 0, 0, 1, "x")
		if !g.zip {
			g.entry("l", "p3/q/h", 0o644, 0, 0, 0, "w/f")
		}
		g.entry("d", "p4/q/d", hx.Pick(r, []int{0o777, 0o773}), 0, 0, 0, "")
	case 16: // file twice, directory after file, file after directory, all on one name
		nm := hx.Pick(r, []string{"z", "a/z"})
		ks := []string{fk, "d", fk, "d", "s"}
		for i := 0; i < 3; i++ {
			g.entry(hx.Pick(r, ks), nm, g.fmode(), i, g.size(), 1<<20, "t")
		}
	case 17: // every fault kind at a chosen position of an otherwise benign archive
		n := r.Range(1, 6)
		at := r.Intn(n)
		for i := 0; i < n; i++ {
			nm := fmt.Sprintf("e%d", i)
			if i != at {
				g.entry(fk, nm, g.fmode(), i, g.size(), 1<<20, "")
				continue
			}
			sz := hx.Pick(r, []int{1, 2, 512, 513, 32769})
			switch {
			case g.zip:
				g.entry("f", nm, g.fmode(), i, sz, hx.Pick(r, []int{0, sz}), hx.Pick(r, []string{"L", "M", "H", ""}))
			case r.Bool():
				g.entry("r", nm, g.fmode(), i, sz, r.Intn(sz), "")
			default:
				g.entry("x", "-", 0, r.Intn(2), 0, 0, "")
			}
		}
	case 18: // a regular file where a parent directory is needed, at several depths
		g.entry(fk, "p", g.fmode(), 2, 3, 3, "")
		g.entry(hx.Pick(r, []string{fk, "d", "s"}), hx.Pick(r, []string{"p/a", "p/a/b", "p/a/b/c"}), g.fmode(), 2, 3, 1<<20, "x")
	case 0: // a symbolic link, then an entry beneath it
		g.entry("s", "l", 0o777, 0, 0, 1, out)
		g.note("l", true)
		g.entry(fk, "l/evil", g.fmode(), 3, g.size(), 1<<20, "")
	case 1: // a hard link to an outside file, then a regular entry of the same name
		if g.zip {
			g.entry("s", "h", 0o777, 0, 0, 1, "../outside/victim")
		} else {
			g.entry("l", "h", 0o644, 0, 0, 0, hx.Pick(r, []string{"../outside/victim", "../../tmp/" + placeholder + "/outside/victim", "/tmp/" + placeholder + "/outside/victim"}))
		}
		g.entry(fk, "h", g.fmode(), 9, g.size(), 1<<20, "")
	case 2: // hard link whose target runs through a symbolic link created earlier
		g.entry("s", "l", 0o777, 0, 0, 1, out)
		g.note("l", true)
		if g.zip {
			g.entry("d", "l/sub/", g.dmode(), 0, 0, 0, "")
		} else {
			g.entry("l", "x", 0o644, 0, 0, 0, "l/victim")
		}
	case 3: // sibling sharing the textual prefix of the destination
		g.entry(fk, "../dst-evil/x", g.fmode(), 1, 5, 5, "")
		g.entry(fk, "../dst2/keep", g.fmode(), 1, 5, 5, "")
	case 4: // the destination itself as a directory entry, then content
		g.entry("d", hx.Pick(r, []string{"./", ".", "", "a/..", "../dst", "../dst/"}), g.dmode()|0o700, 0, 0, 0, "")
		g.entry(fk, "a/b", g.fmode(), 2, g.size(), 1<<20, "")
	case 5: // a file before its directory, then the directory entry with another mode
		g.entry(fk, "a/b/c", g.fmode(), 2, g.size(), 1<<20, "")
		g.entry("d", "a/b", g.dmode(), 0, 0, 0, "")
		g.entry("d", "a/", g.dmode(), 0, 0, 0, "")
		g.note("a/b/c", false)
	case 6: // a link to the directory itself, then a deep path through it
		g.entry("s", "l", 0o777, 0, 0, 1, ".")
		g.note("l", true)
		g.entry(fk, "l/l/l/x", g.fmode(), 2, 3, 3, "")
		g.entry("d", "l/", g.dmode(), 0, 0, 0, "")
	case 7: // duplicate file entries: the later content wins, the first mode stays
		g.entry(fk, "f", g.fmode(), 2, g.size(), 1<<20, "")
		g.entry(fk, "./f", g.fmode(), 3, g.size(), 1<<20, "")
		g.note("f", false)
	case 8: // hard link inside, then overwrite through one of the names
		if !g.zip {
			g.entry("r", "a/f", g.fmode(), 2, g.size(), 1<<20, "")
			g.entry("l", "h", 0o644, 0, 0, 0, hx.Pick(r, []string{"a/f", "./a//f", "/a/f", "a/../a/f"}))
			g.entry("r", hx.Pick(r, []string{"h", "a/f"}), g.fmode(), 5, g.size(), 1<<20, "")
			g.note("a/f", false)
			g.note("h", false)
		} else {
			g.entry("f", "a/f/", g.fmode(), 2, 0, 0, "")
			g.entry("f", "a/f", g.fmode(), 2, 4, 4, "")
		}
	case 9: // a file where a directory is needed and the reverse
		g.entry(fk, "a", g.fmode(), 2, 3, 3, "")
		k := hx.Pick(r, []string{fk, "d", "s", "o"})
		if g.zip && k == "o" {
			k = "d"
		}
		g.entry(k, "a/b", g.fmode(), 2, 3, 3, "x")
	case 10: // symbolic link replaced / shadowed
		g.entry("s", "l", 0o777, 0, 0, 1, out)
		g.entry(hx.Pick(r, []string{fk, "d", "s"}), "l", g.dmode(), 2, 3, 3, "a")
		g.note("l", true)
	case 11: // truncated payload in the middle of an archive: later entries must not appear
		n := hx.Pick(r, []int{1, 2, 513, 70000})
		g.entry(fk, "t", g.fmode(), 4, n, r.Intn(n), "")
		g.entry(fk, "after", g.fmode(), 4, 2, 2, "")
	}
}

// many emits an archive with a number of entries around the usual size thresholds (12 … 1000), spread over a directory
// tree, with some symbolic and hard links, one directory chain of depth 33, and optionally one fault somewhere.
func (g *gen) many() {
	r := g.r
	n := hx.Pick(r, []int{12, 16, 17, 32, 33, 64, 65, 100, 128, 129, 256, 257, 500, 1000})
	fk := g.fileKind()
	faultAt := -1
	if r.Chance(1, 3) {
		faultAt = r.Intn(n)
	}
	deep := strings.Repeat("deep/", 33)
	lastFile := ""
	for i := 0; i < n; i++ {
		dir := fmt.Sprintf("t%d/u%d", i%7, i%3)
		nm := fmt.Sprintf("%s/f%d", dir, i)
		switch {
		case i == faultAt && g.zip:
			g.entry("f", nm, 0o644, i%256, 9, 0, hx.Pick(r, []string{"", "L", "S", "M", "H"}))
		case i == faultAt && r.Bool():
			g.entry("x", "-", 0, r.Intn(2), 0, 0, "")
		case i == faultAt:
			g.entry("r", nm, 0o644, i%256, 600, r.Intn(600), "")
		case i%29 == 5:
			g.entry("d", fmt.Sprintf("%sd%d", deep, i), g.dmode()|0o700, 0, 0, 0, "")
		case i%31 == 7:
			g.entry("s", nm, 0o777, 0, 0, 1, hx.Pick(r, []string{"../outside", "f0", "."}))
		case i%17 == 3 && !g.zip && lastFile != "":
			g.entry("l", nm, 0o644, 0, 0, 0, lastFile)
		case i%23 == 9:
			g.entry("d", dir, g.dmode()|0o700, 0, 0, 0, "")
		default:
			g.entry(fk, nm, g.fmode(), i%256, hx.Pick(r, []int{0, 1, 7, 100, 513}), 1<<20, "")
			lastFile = nm
		}
	}
}

func genLine(r *hx.Rng, priv, forceDst bool) string {
	g := &gen{r: r, zip: r.Chance(2, 5), priv: priv, adv: hx.Pick(r, []int{4, 4, 4, 25, 25, 25, 60, 100}), maskOverride: -1, forceDst: forceDst}
	mask := 0o777
	if r.Chance(1, 3) {
		mask = hx.Pick(r, []int{0o755, 0o700, 0o750, 0o022, 0o077, 0o000, 0o711, 0o555, 0o027, 0o770, 0o775, 0o707, 0o001, 0o1777, 0o7777,
			0o37777777777, 0o20000000755, 0o776})
		if !priv {
			mask |= 0o700
		}
	}
	g.sandbox()
	if r.Chance(1, 12) { // write fault: no file may grow beyond this many bytes during the extraction
		g.items = append(g.items, fmt.Sprintf("w:%d", hx.Pick(r, []int{0, 1, 5, 20, 512, 40000, 32767, 32768, 32769, 65536})))
	}
	if r.Chance(1, 150) {
		g.many()
	} else {
		pre := 0
		if r.Bool() {
			pre = r.Intn(4) // benign entries before a scenario
		}
		for k := 0; k < pre; k++ {
			g.randomEntry()
		}
		if r.Chance(1, 4) {
			g.scenario()
		}
		for k, m := 0, r.Range(1, 6); k < m; k++ {
			g.randomEntry()
		}
	}
	if g.maskOverride >= 0 {
		mask = g.maskOverride
	}
	f := "tar"
	if g.zip {
		f = "zip"
	}
	return fmt.Sprintf("%s %o %s", f, mask, strings.Join(g.items, " "))
}

// Gen emits n archives.
func (area) Gen(r *hx.Rng, n int, _ string, emit func(string)) {
	priv := os.Geteuid() == 0
	for i := 0; i < n; i++ {
		line := genLine(r, priv, false)
		// which exported function runs the archive is derived from the line itself (no draw from the generator):
		// 1 line in 5 goes through Extract / ExtractArchive / ExtractArchiveWithMask, about 1 in 100 asks the *Archive*
		// forms for a missing or a cut-off archive file; 1 line in 12 extracts the archive twice into the same destination
		hs := fnv.New32a()
		_, _ = hs.Write([]byte(line))
		h := hs.Sum32() >> 3
		switch {
		case h%97 == 0:
			line += " v:" + []string{"missing", "cut"}[(h/97)%2]
		case h%5 == 0:
			line += " v:" + []string{"x", "a", "am"}[(h/5)%3]
		}
		if (h>>9)%12 == 0 {
			line += " r:2"
		}
		emit(line)
	}
}

// linkArea: the destination is a symbolic link to a directory (see main.go).
type linkArea struct{}

// Gen emits sandboxes whose destination exists as a directory (the harness turns it into a link to a sibling).
func (linkArea) Gen(r *hx.Rng, n int, _ string, emit func(string)) {
	priv := os.Geteuid() == 0
	for i := 0; i < n; i++ {
		emit(genLine(r, priv, true))
	}
}
