package main

import (
	"fmt"
	"hash/fnv"
	"os"
	"strings"

	"verifharness/hx"
)

var comps = []string{"a", "b", "c", "d", "f", "l", "k", "x y", "\xc3\xa9", "a", "b", "l"}

type gen struct {
	r     *hx.Rng
	zip   bool
	priv  bool
	items []string
	names []string // names (relative to dst) that exist already or are created by earlier entries
	syms  []string // those of them that are symbolic links
	files []string // those of them that are regular files
	adv   int      // percentage of adversarial choices in this archive
	cnt   int
}

func (g *gen) plain() string {
	n := 1
	switch v := g.r.Intn(20); {
	case v < 10:
		n = 1
	case v < 17:
		n = 2
	default:
		n = 3
	}
	parts := make([]string, n)
	for i := range parts {
		parts[i] = hx.Pick(g.r, comps)
	}
	return strings.Join(parts, "/")
}

var specials = []string{".", "", "./", "..", "/", "dst", "../dst", "../dst/", "../dst/.", "../../../../../../../../c19esc", "./.",
	"a/..", "../dst-evil", "../outside", "../outside/victim", "../outside/new", "..//dst//a", "/../dst/a"}

func (g *gen) decorate(s string) string {
	switch g.r.Intn(26) {
	case 0:
		return "./" + s
	case 1:
		return "/" + s
	case 2:
		return "//" + s
	case 3:
		return s + "/"
	case 4:
		return strings.Replace(s, "/", "//", 1)
	case 5:
		return "a/../" + s
	case 6:
		return s + "/."
	case 7:
		return s + "/.."
	case 8:
		return "../" + s
	case 9:
		return "../dst/" + s
	case 10:
		return "../dst-evil/" + s
	case 11:
		return "../outside/" + s
	case 12:
		return "../../tmp/" + placeholder + "/dst/" + s
	case 13:
		return "../../../c19esc/" + s
	case 14:
		return "../../c19esc/" + s
	case 15, 16:
		return hx.Pick(g.r, specials)
	case 17:
		return "/tmp/" + placeholder + "/dst/" + s
	case 18:
		return "dst/../" + s
	case 19:
		return "./../" + s
	case 20:
		return "../../tmp/" + placeholder + "/outside/" + s
	default:
		return s
	}
}

// fresh returns a name that does not collide with anything (optionally below a directory made of fresh components).
func (g *gen) fresh() string {
	g.cnt++
	s := fmt.Sprintf("n%d", g.cnt)
	switch g.r.Intn(4) {
	case 0:
		return fmt.Sprintf("m%d/%s", g.r.Intn(3), s)
	case 1:
		return fmt.Sprintf("m%d/q%d/%s", g.r.Intn(3), g.r.Intn(2), s)
	}
	return s
}

func (g *gen) name() string {
	if g.r.Intn(100) >= g.adv {
		if g.r.Chance(1, 4) {
			return g.plain()
		}
		return g.fresh()
	}
	switch v := g.r.Intn(20); {
	case v < 5 && len(g.names) > 0:
		s := hx.Pick(g.r, g.names)
		if g.r.Chance(1, 4) {
			s = g.decorate(s)
		}
		return s
	case v < 9 && len(g.names) > 0:
		base := hx.Pick(g.r, g.names)
		if len(g.syms) > 0 && g.r.Bool() {
			base = hx.Pick(g.r, g.syms)
		}
		return base + "/" + g.plain()
	case v < 14:
		return g.plain()
	default:
		return g.decorate(g.plain())
	}
}

func (g *gen) size() int {
	switch v := g.r.Intn(100); {
	case v < 20:
		return 0
	case v < 40:
		return 1
	case v < 43:
		return 70000
	case v < 50:
		return hx.Pick(g.r, []int{511, 512, 513, 1024})
	default:
		return g.r.Range(2, 40)
	}
}

var fileModes = []int{0o644, 0o644, 0o600, 0o755, 0o444, 0o400, 0o000, 0o777, 0o4755, 0o666, 0o640, 0o751}
var dirModes = []int{0o755, 0o755, 0o700, 0o777, 0o555, 0o000, 0o750, 0o711, 0o1777, 0o775} // no setgid: the kernel would propagate it to children

func (g *gen) fmode() int {
	m := hx.Pick(g.r, fileModes)
	if !g.priv {
		m |= 0o600
	}
	return m
}

func (g *gen) dmode() int {
	m := hx.Pick(g.r, dirModes)
	if !g.priv {
		m |= 0o700
	}
	return m
}

func hexs(s string) string { return hx.Hex([]byte(s)) }

func (g *gen) initDir(rel string, mode int) {
	g.items = append(g.items, fmt.Sprintf("i:d:%s:%o", hexs(rel), mode&0o7777))
}

func (g *gen) initFile(rel string, mode, seed, n int) {
	g.items = append(g.items, fmt.Sprintf("i:f:%s:%o:%d:%d", hexs(rel), mode&0o777, seed, n))
}

func (g *gen) initSym(rel, target string) {
	g.items = append(g.items, fmt.Sprintf("i:s:%s:%s", hexs(rel), hexs(target)))
}

func (g *gen) initHard(rel, target string) {
	g.items = append(g.items, fmt.Sprintf("i:h:%s:%s", hexs(rel), hexs(target)))
}

func (g *gen) entry(k, name string, mode, seed, n, pres int, link string) {
	g.items = append(g.items, fmt.Sprintf("e:%s:%s:%o:%d:%d:%d:%s", k, hexs(name), mode, seed, n, pres, hexs(link)))
}

func (g *gen) noteFile(name string) {
	n := len(g.names)
	g.note(name, false)
	if len(g.names) > n {
		g.files = append(g.files, g.names[n])
	}
}

func (g *gen) note(name string, sym bool) {
	c := strings.Trim(name, "/")
	if c == "" || strings.Contains(c, "..") || strings.HasPrefix(name, "/") || strings.Contains(c, "//") || strings.Contains(c, "./") {
		return
	}
	g.names = append(g.names, c)
	if sym {
		g.syms = append(g.syms, c)
	}
}

var symTargets = []string{"../outside", "/tmp/" + placeholder + "/outside", "../outside/victim", "/tmp/" + placeholder + "/outside/victim", ".", "..",
	"a", "a/b", "nonexistent", "", "/tmp/" + placeholder + "/dst", "../dst-evil", "l", "../dst", "b", "../outside/new"}

func (g *gen) symTarget() string {
	if len(g.names) > 0 && g.r.Chance(1, 4) {
		return hx.Pick(g.r, g.names)
	}
	return hx.Pick(g.r, symTargets)
}

func (g *gen) linkTarget() string {
	if len(g.files) > 0 && g.r.Intn(100) >= g.adv {
		return hx.Pick(g.r, g.files)
	}
	switch v := g.r.Intn(20); {
	case v < 10 && len(g.names) > 0:
		s := hx.Pick(g.r, g.names)
		if g.r.Chance(1, 5) {
			s = g.decorate(s)
		}
		return s
	case v < 12:
		return "../outside/victim"
	case v < 13:
		return "/tmp/" + placeholder + "/outside/victim"
	case v < 14:
		return "../../tmp/" + placeholder + "/outside/victim"
	case v < 15 && len(g.syms) > 0:
		return hx.Pick(g.r, g.syms) + hx.Pick(g.r, []string{"", "/victim", "/a"})
	case v < 16:
		return hx.Pick(g.r, []string{"", ".", "..", "./", "../dst"})
	default:
		return g.decorate(g.plain())
	}
}

// sandbox emits the pre-existing state: `outside/` with its sentinels always, the destination in one of its states.
func (g *gen) sandbox() {
	r := g.r
	g.initDir("outside", 0o755)
	g.initFile("outside/victim", 0o644, 77, 9)
	if r.Bool() {
		g.initDir("dst-evil", 0o755)
	}
	if r.Chance(1, 6) {
		g.initDir("dst2", 0o755)
		g.initFile("dst2/keep", 0o600, 5, 3)
	}
	switch v := r.Intn(100); {
	case v < 12: // destination missing
		return
	case v < 16: // destination is a file
		g.initFile("dst", 0o644, 1, 4)
		return
	}
	g.initDir("dst", hx.Pick(r, []int{0o755, 0o755, 0o700, 0o777}))
	have := map[string]bool{}
	for i, n := 0, r.Intn(4); i < n; i++ {
		nm := hx.Pick(r, []string{"a", "b", "l", "f", "k", "p", "h"})
		if have[nm] {
			continue
		}
		have[nm] = true
		switch r.Intn(6) {
		case 0, 1:
			g.initDir("dst/"+nm, g.dmode()|0o700)
			g.note(nm, false)
			if r.Bool() {
				g.initFile("dst/"+nm+"/f", g.fmode(), r.Intn(200), r.Intn(6))
				g.note(nm+"/f", false)
			}
			if r.Chance(1, 3) {
				g.initSym("dst/"+nm+"/l", hx.Pick(r, []string{"../../outside", "..", "f", "/tmp/" + placeholder + "/outside"}))
				g.note(nm+"/l", true)
			}
		case 2:
			g.initFile("dst/"+nm, g.fmode(), r.Intn(200), r.Intn(6))
			g.note(nm, false)
		case 3, 4:
			g.initSym("dst/"+nm, hx.Pick(r, []string{"../outside", "a", "nonexistent", "../outside/victim", "/tmp/" + placeholder + "/outside", ".", "../dst-evil"}))
			g.note(nm, true)
		case 5:
			g.initHard("dst/"+nm, "outside/victim")
			g.note(nm, false)
		}
	}
}

func (g *gen) fileKind() string {
	if g.zip {
		return "f"
	}
	return "r"
}

func (g *gen) regName(s string) string {
	if g.zip {
		return s
	}
	s = strings.TrimRight(s, "/") // archive/tar's writer refuses a regular entry with a trailing slash
	if s == "" {
		return "a"
	}
	return s
}

func (g *gen) randomEntry() {
	r := g.r
	nm := g.name()
	seed := r.Intn(256)
	v := r.Intn(100)
	if g.zip {
		switch {
		case v < 50:
			n := g.size()
			pres := n
			if n > 0 && r.Intn(100) < g.adv/8+1 {
				pres = 0
			}
			g.entry("f", nm, g.fmode(), seed, n, pres, "")
			g.noteFile(nm)
		case v < 72:
			if r.Bool() && !strings.HasSuffix(nm, "/") {
				nm += "/"
			}
			g.entry("d", nm, g.dmode(), seed, 0, 0, "")
			g.note(nm, false)
		default:
			tg := g.symTarget()
			pres := 1
			if r.Intn(100) < g.adv/8+1 {
				pres = 0
			}
			g.entry("s", nm, 0o777, seed, 0, pres, tg)
			g.note(nm, true)
		}
		return
	}
	switch {
	case v < 40:
		n := g.size()
		pres := n
		if n > 0 && r.Intn(100) < g.adv/8+1 {
			pres = r.Intn(n)
		}
		nm = g.regName(nm)
		g.entry("r", nm, g.fmode(), seed, n, pres, "")
		g.noteFile(nm)
	case v < 58:
		if r.Bool() && !strings.HasSuffix(nm, "/") {
			nm += "/"
		}
		g.entry("d", nm, g.dmode(), seed, 0, 0, "")
		g.note(nm, false)
	case v < 74:
		g.entry("s", nm, 0o777, seed, 0, 0, g.symTarget())
		g.note(nm, true)
	case v < 91:
		if len(g.files) == 0 && r.Intn(100) >= g.adv {
			g.entry("r", g.regName(nm), g.fmode(), seed, 3, 3, "")
			g.noteFile(g.regName(nm))
			return
		}
		g.entry("l", nm, 0o644, seed, 0, 0, g.linkTarget())
		g.note(nm, false)
	case v < 97:
		g.entry("o", g.regName(nm), 0o644, seed, 0, 0, "")
	default:
		if r.Intn(100) < g.adv {
			g.entry("x", "-", 0, 0, 0, 0, "")
		} else {
			g.entry("d", g.plain(), g.dmode(), seed, 0, 0, "")
		}
	}
}

// scenario emits one of the classical attacks / boundary sequences (then random entries may follow).
func (g *gen) scenario() {
	r := g.r
	fk := g.fileKind()
	out := hx.Pick(r, []string{"../outside", "/tmp/" + placeholder + "/outside", "../dst-evil", ".."})
	switch r.Intn(12) {
	case 0: // a symbolic link, then an entry beneath it
		g.entry("s", "l", 0o777, 0, 0, 1, out)
		g.note("l", true)
		g.entry(fk, "l/evil", g.fmode(), 3, g.size(), 1<<20, "")
	case 1: // a hard link to an outside file, then a regular entry of the same name
		if g.zip {
			g.entry("s", "h", 0o777, 0, 0, 1, "../outside/victim")
		} else {
			g.entry("l", "h", 0o644, 0, 0, 0, hx.Pick(r, []string{"../outside/victim", "../../tmp/" + placeholder + "/outside/victim", "/tmp/" + placeholder + "/outside/victim"}))
		}
		g.entry(fk, "h", g.fmode(), 9, g.size(), 1<<20, "")
	case 2: // hard link whose target runs through a symbolic link created earlier
		g.entry("s", "l", 0o777, 0, 0, 1, out)
		g.note("l", true)
		if g.zip {
			g.entry("d", "l/sub/", g.dmode(), 0, 0, 0, "")
		} else {
			g.entry("l", "x", 0o644, 0, 0, 0, "l/victim")
		}
	case 3: // sibling sharing the textual prefix of the destination
		g.entry(fk, "../dst-evil/x", g.fmode(), 1, 5, 5, "")
		g.entry(fk, "../dst2/keep", g.fmode(), 1, 5, 5, "")
	case 4: // the destination itself as a directory entry, then content
		g.entry("d", hx.Pick(r, []string{"./", ".", "", "a/..", "../dst", "../dst/"}), g.dmode()|0o700, 0, 0, 0, "")
		g.entry(fk, "a/b", g.fmode(), 2, g.size(), 1<<20, "")
	case 5: // a file before its directory, then the directory entry with another mode
		g.entry(fk, "a/b/c", g.fmode(), 2, g.size(), 1<<20, "")
		g.entry("d", "a/b", g.dmode(), 0, 0, 0, "")
		g.entry("d", "a/", g.dmode(), 0, 0, 0, "")
		g.note("a/b/c", false)
	case 6: // a link to the directory itself, then a deep path through it
		g.entry("s", "l", 0o777, 0, 0, 1, ".")
		g.note("l", true)
		g.entry(fk, "l/l/l/x", g.fmode(), 2, 3, 3, "")
		g.entry("d", "l/", g.dmode(), 0, 0, 0, "")
	case 7: // duplicate file entries: the later content wins, the first mode stays
		g.entry(fk, "f", g.fmode(), 2, g.size(), 1<<20, "")
		g.entry(fk, "./f", g.fmode(), 3, g.size(), 1<<20, "")
		g.note("f", false)
	case 8: // hard link inside, then overwrite through one of the names
		if !g.zip {
			g.entry("r", "a/f", g.fmode(), 2, g.size(), 1<<20, "")
			g.entry("l", "h", 0o644, 0, 0, 0, hx.Pick(r, []string{"a/f", "./a//f", "/a/f", "a/../a/f"}))
			g.entry("r", hx.Pick(r, []string{"h", "a/f"}), g.fmode(), 5, g.size(), 1<<20, "")
			g.note("a/f", false)
			g.note("h", false)
		} else {
			g.entry("f", "a/f/", g.fmode(), 2, 0, 0, "")
			g.entry("f", "a/f", g.fmode(), 2, 4, 4, "")
		}
	case 9: // a file where a directory is needed and the reverse
		g.entry(fk, "a", g.fmode(), 2, 3, 3, "")
		k := hx.Pick(r, []string{fk, "d", "s", "o"})
		if g.zip && k == "o" {
			k = "d"
		}
		g.entry(k, "a/b", g.fmode(), 2, 3, 3, "x")
	case 10: // symbolic link replaced / shadowed
		g.entry("s", "l", 0o777, 0, 0, 1, out)
		g.entry(hx.Pick(r, []string{fk, "d", "s"}), "l", g.dmode(), 2, 3, 3, "a")
		g.note("l", true)
	case 11: // truncated payload in the middle of an archive: later entries must not appear
		n := hx.Pick(r, []int{1, 2, 513, 70000})
		g.entry(fk, "t", g.fmode(), 4, n, r.Intn(n), "")
		g.entry(fk, "after", g.fmode(), 4, 2, 2, "")
	}
}

// Gen emits n archives.
func (area) Gen(r *hx.Rng, n int, _ string, emit func(string)) {
	priv := os.Geteuid() == 0
	for i := 0; i < n; i++ {
		g := &gen{r: r, zip: r.Chance(2, 5), priv: priv, adv: hx.Pick(r, []int{4, 4, 4, 25, 25, 25, 60, 100})}
		mask := 0o777
		if r.Chance(1, 3) {
			mask = hx.Pick(r, []int{0o755, 0o700, 0o750, 0o022, 0o077, 0o000, 0o711, 0o555, 0o027})
			if !priv {
				mask |= 0o700
			}
		}
		g.sandbox()
		if r.Chance(1, 12) { // write fault: no file may grow beyond this many bytes during the extraction
			g.items = append(g.items, fmt.Sprintf("w:%d", hx.Pick(r, []int{0, 1, 5, 20, 512, 40000})))
		}
		pre := 0
		if r.Bool() {
			pre = r.Intn(4) // benign entries before a scenario
		}
		for k := 0; k < pre; k++ {
			g.randomEntry()
		}
		if r.Chance(1, 4) {
			g.scenario()
		}
		for k, m := 0, r.Range(1, 6); k < m; k++ {
			g.randomEntry()
		}
		f := "tar"
		if g.zip {
			f = "zip"
		}
		line := fmt.Sprintf("%s %o %s", f, mask, strings.Join(g.items, " "))
		// which exported function runs the archive is derived from the line itself (no draw from the generator, so the
		// archives of a seed are the ones they always were): 1 line in 5 goes through Extract / ExtractArchive /
		// ExtractArchiveWithMask, about 1 in 100 asks the *Archive* forms for a missing or a cut-off archive file
		hs := fnv.New32a()
		_, _ = hs.Write([]byte(line))
		h := hs.Sum32() >> 3
		switch {
		case h%97 == 0:
			line += " v:" + []string{"missing", "cut"}[(h/97)%2]
		case h%5 == 0:
			line += " v:" + []string{"x", "a", "am"}[(h/5)%3]
		}
		emit(line)
	}
}
