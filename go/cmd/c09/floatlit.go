package main

import (
	"math"
	"math/big"
	"strings"

	"verifharness/hx"
)

// Literals that separate a correct decimal->binary conversion at the evaluator's own bit size from any shortcut
// (parsing at another size and converting, truncating digits, …).

// exactDecimal is the finite decimal expansion of a float64-representable value (or of the midpoint of two).
func exactDecimal(x *big.Rat) string {
	s := x.FloatString(400)
	if strings.Contains(s, ".") {
		s = strings.TrimRight(s, "0")
		s = strings.TrimSuffix(s, ".")
	}
	return s
}

// offMidpoint returns a decimal just above or just below the exact midpoint m: the exact digits followed by a tail of
// 12-20 further digits, far below half an ulp of float64 at that magnitude.
func offMidpoint(r *hx.Rng, m *big.Rat) string {
	neg := m.Sign() < 0
	s := exactDecimal(new(big.Rat).Abs(m))
	k := r.Range(12, 20)
	last := s[len(s)-1]
	var out string
	if r.Bool() || last == '0' {
		if !strings.Contains(s, ".") {
			s += "."
		}
		out = s + strings.Repeat("0", k) + string(byte('1'+r.Intn(9)))
	} else {
		if !strings.Contains(s, ".") {
			out = s[:len(s)-1] + string(last-1) + "." + strings.Repeat("9", k)
		} else {
			out = s[:len(s)-1] + string(last-1) + strings.Repeat("9", k)
		}
	}
	if neg {
		out = "-" + out
	}
	return out
}

func midpoint32(r *hx.Rng) string {
	var x float32
	switch r.Intn(4) {
	case 0:
		x = float32(uint32(1)<<24 + uint32(r.Intn(1<<20))*2) // integers where the spacing is 2: 16777216, 16777218 …
	case 1:
		x = 1 + float32(r.Intn(1<<20))*float32(math.Pow(2, -23)) // just above 1
	default:
		for {
			x = math.Float32frombits(uint32(r.U64()) & 0x7fffffff)
			if x > 1e-6 && x < 1e12 {
				break
			}
		}
	}
	y := math.Nextafter32(x, float32(math.Inf(1)))
	m := new(big.Rat).Add(new(big.Rat).SetFloat64(float64(x)), new(big.Rat).SetFloat64(float64(y)))
	m.Quo(m, big.NewRat(2, 1))
	if r.Chance(1, 6) {
		m.Neg(m)
	}
	return offMidpoint(r, m)
}

func midpoint64(r *hx.Rng) string {
	var x float64
	switch r.Intn(3) {
	case 0:
		x = float64(uint64(1)<<53 + uint64(r.Intn(1<<20))*2)
	default:
		for {
			x = math.Float64frombits(r.U64() & 0x7fffffffffffffff)
			if x > 1e-6 && x < 1e18 {
				break
			}
		}
	}
	y := math.Nextafter(x, math.Inf(1))
	m := new(big.Rat).Add(new(big.Rat).SetFloat64(x), new(big.Rat).SetFloat64(y))
	m.Quo(m, big.NewRat(2, 1))
	return offMidpoint(r, m)
}

var oddLiterals = []string{
	// beyond the range of float32 / float64
	"1e39", "3.5e38", "3.4028235e38", "3.4028236e38", "340282356779733661637539395458142568448", "-1e39", "1e309", "1.8e308", "1e400", "-1e309",
	// subnormal range
	"1e-40", "1.4e-45", "7e-46", "7.1e-46", "1e-46", "1.17549435e-38", "4.9e-324", "2.4e-324", "2.5e-324", "1e-310", "1e-400",
	// long digit strings
	"123456789012345678901234567890", "0.1000000000000000055511151231257827021181583404541015625", "3.14159265358979323846264338327950288",
	"0.000000000000000000000000000000000000000000001", "9007199254740993", "9007199254740992.0000000000000001", "16777217", "16777217.0",
	"99999999999999999999.99999999999999999999", "00000000000000000000001.50", "1.00000000000000000000000000000000000000000000000000",
	// forms that meet the scanner's exponent hack or the syntax edge of the number parsers
	"1e-2", "1E+2", "1E-2", "1e+2", ".5", "5.", "-.5", "1.e2", "1e", "0e0", "1e2.5", "0x10", "0x1p-2", "1_000", "Inf", "NaN", "infinity", "+5", "1.5.2",
	// the inputs of the defects this stream must see
	"16777217.000000001", "33554434.000000001", "1.00000005960464478", "1e39",
}

// fixedLimitLiterals: for D1, D2, D4, D6 and D16 the largest and smallest representable value, one unit beyond each
// (not representable: an error), halves, and the neighbours of powers of ten.
func fixedLimitLiterals() []string {
	var out []string
	for _, places := range []int{1, 2, 4, 6, 16} {
		point := func(digits string) string { // insert the decimal point `places` digits from the right
			neg := strings.HasPrefix(digits, "-")
			digits = strings.TrimPrefix(digits, "-")
			for len(digits) <= places {
				digits = "0" + digits
			}
			s := digits[:len(digits)-places] + "." + digits[len(digits)-places:]
			if neg {
				s = "-" + s
			}
			return s
		}
		out = append(out, point("9223372036854775807"), point("-9223372036854775808"), point("9223372036854775808"), point("-9223372036854775809"),
			point("9223372036854775806"), point("4611686018427387904"), point("4611686018427387903"), point("-4611686018427387905"),
			point("1"), point("-1"), point("0"), point("9"), point("10"), point("11"), point("999999999"), point("1000000001"))
		ip := "9223372036854775807"[:19-places]
		out = append(out, ip, "-"+ip, ip+"0", "1"+strings.Repeat("0", 18-places), strings.Repeat("9", 18-places))
	}
	return out
}

func init() {
	oddLiterals = append(oddLiterals, fixedLimitLiterals()...)
	oddLiterals = append(oddLiterals, "0", "1", "-1", "2", "0.5", "9223372036854775807", "9223372036854775808", "18446744073709551615", "18446744073709551616",
		"1e-15", "1e-10", "1e-12", "3e-9", "1e-7", "4294967295", "4294967296", "2147483647", "2147483648", "65535", "65536", "255", "256", "0.0001", "0.00001", "0.00005", "0.00004999", "99999999", "100000001")
}

var litTemplates = []string{"log1p(#)", "log1p(#) + 0", "log1p(-#)", "# + #", "# - #", "# * #", "# / #", "# % #", "# ^ 2", "# < #", "# >= #", "# + 0.0001", "# - 0.0001", "# * 2", "# / 0.5", "# * -1",
	"max(#, #)", "min(#, #)", "round(#)", "floor(#)", "ceil(#)", "abs(#) - #", "round(# / 3)", "floor(# * 0.5)", "ceil(-#)", "floor(-#)", "round(-# - 0.5)",
	"0 * -1 + #", "1 / (0 * -1)", "min(0, 0 * -1)", "(0 * -1) == 0", "# - # == 0", "-# + #", "# + 0", "# * 1", "0 + #", "1 * #", "-#", "- # + 0", "abs(#)", "max(#, 0)", "min(#, #)", "max(0 + #, 1)", "# == #", "# < #", "# >= #",
	"if(#, 1, 2)", "if(1, #, 2) * 1", "sqrt(#)", "floor(#)", "# - 0", "# / 1", "1 * # + 0", "(#) * 1", "#", "$x * #", "# + # - #", "abs(max(#, #))", "!#", "# && 1", "# ^ 1", "# % 7"}

func floatLit(r *hx.Rng) string {
	switch r.Intn(8) {
	case 0, 1, 2:
		return midpoint32(r)
	case 3, 4:
		return midpoint64(r)
	default:
		return hx.Pick(r, oddLiterals)
	}
}

// literalExpr puts number literals that are hard to convert into an operator or function position.
func literalExpr(r *hx.Rng) string {
	t := hx.Pick(r, litTemplates)
	var sb strings.Builder
	first := ""
	for _, ch := range t {
		if ch != '#' {
			sb.WriteRune(ch)
			continue
		}
		l := floatLit(r)
		if first == "" {
			first = l
		} else if r.Chance(1, 3) {
			l = first
		}
		sb.WriteString(l)
	}
	return sb.String()
}

// Boolean-valued subexpressions (comparison / logical results, also through `if`) feeding arithmetic, comparisons and
// numeric functions: true must count as the NUMBER 1 of the evaluator's type.
var boolTemplates = []string{"(a < b) + c", "(a > b) * c", "a == b == c", "a < b == c", "a > b > c", "a != b != c", "max(a < b, c)", "min(a <= b, a >= b)",
	"abs(a != b)", "-(a < b)", "!(a < b)", "+(a >= b)", "-(a == a) + c", "if(a < b, a == b, c) + 1", "if(if(a < b, a == b, a != b), c, d)", "if(a < b, c, d) * (a < b)",
	"(a < b) / (c > d)", "(a < b) % 2", "sqrt(a == a)", "(a && b) + 1", "(a || b) * 3", "(a < b) == 1", "1 == (a < b)", "(a < b) < 0.5", "(a < b) - (c < d)",
	"(a < b) ^ 2", "2 ^ (a < b)", "floor((a < b) / 2)", "round((a < b) * 0.5)", "(a < b) + (c < d) + (a == b)", "a == a == 1", "a < b == 1", "c > b > 0.5",
	"max(a < b, 0.5)", "(a > b) * 5", "(a < b) + 1", "ceil((a >= b) * 0.3)", "!(a < b) + 1", "(!a) * 4", "a < b && c", "(a < b && c < d) * 7", "exp2(a < b)",
	"abs(-(a < b))", "if((a < b) - 1, c, d)", "if(a < b, a < b, c) == 1", "(a < b) >= (c < d)", "log10((a < b) * 100)", "(a == b) + foo", "(a < b) == true"}

var boolAtoms = []string{"0", "1", "2", "3", "0.5", "2.5", "7", "10", "$x", "$y", "$z", "$h", "$n", "1e-2", "100", "$a1e", "$r2e", "$rate", "1e+2", "2.5E-1", "$A1E"}

func boolExpr(r *hx.Rng) string {
	t := hx.Pick(r, boolTemplates)
	vals := map[rune]string{'a': hx.Pick(r, boolAtoms), 'b': hx.Pick(r, boolAtoms), 'c': hx.Pick(r, boolAtoms), 'd': hx.Pick(r, boolAtoms)}
	var sb strings.Builder
	prev := ' '
	rs := []rune(t)
	for i, ch := range rs {
		next := ' '
		if i+1 < len(rs) {
			next = rs[i+1]
		}
		isVar := ch >= 'a' && ch <= 'd' && !isLetter(prev) && !isLetter(next)
		if isVar {
			sb.WriteString(vals[ch])
		} else if ch == ' ' && r.Chance(1, 3) {
			// drop or widen blanks
			if r.Bool() {
				sb.WriteString("  ")
			}
		} else {
			sb.WriteRune(ch)
		}
		prev = ch
	}
	return sb.String()
}

func isLetter(ch rune) bool { return (ch >= 'a' && ch <= 'z') || (ch >= '0' && ch <= '9') || ch == '.' }
