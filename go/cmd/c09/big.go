package main

import (
	"strconv"
	"strings"

	"verifharness/hx"
)

// Inputs around size thresholds: 200+ tokens, nesting 30+ deep, 17+ arguments, very long operands and blank runs.

func smallAtom(r *hx.Rng) string {
	return hx.Pick(r, []string{"0", "1", "2", "3", "7", "0.5", "2.5", "10", "$x", "$y", "$h", "$n", "$neg", "$e", "1e-2", "100", "$a1e", "$r2e", "1e+2", "2.5E-1", "$A1E"})
}

func bigExpr(r *hx.Rng) string {
	var sb strings.Builder
	switch r.Intn(11) {
	case 0: // a long flat chain, 200-600 tokens
		n := r.Range(100, 300)
		ops := hx.Pick(r, [][]string{{"+", "-"}, {"*", "/", "%"}, {"+", "-", "*", "/"}, allBin, {"-"}, {"&&", "||"}, {"==", "<", "+"}})
		sb.WriteString(smallAtom(r))
		for i := 0; i < n; i++ {
			sb.WriteString(hx.Pick(r, []string{" ", "", "  "}) + hx.Pick(r, ops) + hx.Pick(r, []string{" ", "", "\t"}))
			if r.Chance(1, 8) {
				sb.WriteString(hx.Pick(r, []string{"-", "+", "!"}))
			}
			sb.WriteString(smallAtom(r))
		}
	case 1: // parentheses nested to the left: ((((1 + 2) * 3) - 4) …
		d := r.Range(30, 90)
		s := smallAtom(r)
		for i := 0; i < d; i++ {
			s = "(" + s + " " + hx.Pick(r, arith) + " " + smallAtom(r) + ")"
		}
		return s
	case 2: // nested to the right: (1 + (2 * (3 - …
		d := r.Range(30, 90)
		s := smallAtom(r)
		for i := 0; i < d; i++ {
			s = "(" + smallAtom(r) + hx.Pick(r, arith) + s + ")"
		}
		return s
	case 3: // signs before nested parentheses
		d := r.Range(30, 70)
		for i := 0; i < d; i++ {
			sb.WriteString(hx.Pick(r, []string{"-(", "+(", "!(", "(", "-("}))
		}
		sb.WriteString(smallAtom(r))
		sb.WriteString(strings.Repeat(")", d))
	case 4: // function calls nested 30+ deep
		d := r.Range(30, 45)
		for i := 0; i < d; i++ {
			sb.WriteString(hx.Pick(r, []string{"abs(", "max(1, ", "min(2,", "-abs(", "floor(", "round(", "if(1, ", "max(", "abs( "}))
		}
		sb.WriteString(smallAtom(r))
		sb.WriteString(strings.Repeat(")", d))
	case 5: // many arguments
		n := r.Range(17, 70)
		sb.WriteString(hx.Pick(r, []string{"max(", "min(", "max (", "1 + min("}))
		for i := 0; i < n; i++ {
			if i > 0 {
				sb.WriteString(hx.Pick(r, []string{",", ", ", " , "}))
			}
			switch r.Intn(6) {
			case 0:
				sb.WriteString("abs(" + smallAtom(r) + " - " + smallAtom(r) + ")")
			case 1:
				sb.WriteString("max(" + smallAtom(r) + ", " + smallAtom(r) + ")")
			case 2:
				sb.WriteString("(" + smallAtom(r) + " * " + strconv.Itoa(i) + ")")
			default:
				sb.WriteString(strconv.Itoa(r.Intn(1000)-500) + "." + strconv.Itoa(r.Intn(100)))
			}
		}
		sb.WriteString(")")
	case 6: // a very long digit string
		n := r.Range(100, 400)
		dot := r.Intn(n + 1)
		for i := 0; i < n; i++ {
			if i == dot && r.Bool() {
				sb.WriteByte('.')
			}
			sb.WriteByte(byte('0' + r.Intn(10)))
		}
		sb.WriteString(hx.Pick(r, []string{" + 0", " * 1", "", " - 1", " == 1", " / 3"}))
	case 7: // long blank runs
		toks := []string{smallAtom(r), "+", "abs", "(", smallAtom(r), "*", smallAtom(r), ")", "-", "(", smallAtom(r), ")"}
		for _, t := range toks {
			sb.WriteString(strings.Repeat(hx.Pick(r, blanks), r.Range(50, 300)))
			sb.WriteString(t)
		}
	case 8: // a very long variable name / operand text
		if r.Bool() {
			sb.WriteString("1 + $" + strings.Repeat("ab_.#9", r.Range(20, 60)))
		} else {
			sb.WriteString(strings.Repeat("word ", r.Range(40, 100)) + "+ 1")
		}
	case 9: // many `if` arguments and nested ifs
		d := r.Range(17, 40)
		for i := 0; i < d; i++ {
			sb.WriteString("if(" + smallAtom(r) + hx.Pick(r, cmpOps) + smallAtom(r) + ", " + smallAtom(r) + ", ")
		}
		sb.WriteString(smallAtom(r))
		sb.WriteString(strings.Repeat(")", d))
	default: // a long chain of calls on one level
		n := r.Range(40, 120)
		for i := 0; i < n; i++ {
			if i > 0 {
				sb.WriteString(hx.Pick(r, []string{" + ", " - ", "*", " < "}))
			}
			sb.WriteString(hx.Pick(r, fn1) + "(" + smallAtom(r) + ")")
		}
	}
	return sb.String()
}
