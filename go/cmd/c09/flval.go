package main

import (
	"fmt"
	"math"
	"strconv"
	"strings"

	"github.com/richardwilkes/toolbox/eval"
	"verifharness/hx"
)

// ---------------------------------------------------------------------------------------------------------------
// area flval (model correspondence, values of the FLOAT evaluators):  y <bits> <z> <hex>
// NewFloatEvaluator[float64|float32](valueResolver, z).Evaluate(expr); the Lean driver COMPUTES the same with
// Model/EvalFloat.lean over the IEEE-754 arithmetic on bit patterns of Model/EvalSoftFloat.lean (exact rationals,
// round to nearest even; strconv.ParseFloat on decimal literals).  The judge is the plain comparison of the texts.
//   n <bit pattern, decimal> | n nan | n 0 (a zero of either sign) | b true | b false | s <hex> | err
// (the driver answers `opaque` for ^, sqrt cbrt exp exp2 log log10 log1p, hexadecimal / `_` literals and the %v text
// of a number)
// ---------------------------------------------------------------------------------------------------------------

func flShow(v any, err error) string {
	if err != nil {
		return "err"
	}
	switch x := v.(type) {
	case float64:
		if x != x {
			return "n nan"
		}
		if x == 0 {
			return "n 0" // either sign: the property does not constrain the sign of a zero result
		}
		return "n " + strconv.FormatUint(math.Float64bits(x), 10)
	case float32:
		if x != x {
			return "n nan"
		}
		if x == 0 {
			return "n 0"
		}
		return "n " + strconv.FormatUint(uint64(math.Float32bits(x)), 10)
	case bool:
		return fmt.Sprintf("b %v", x)
	case string:
		return "s " + hx.Hex([]byte(x))
	}
	return fmt.Sprintf("other %T", v)
}

// flArea keeps one evaluator per (type, setting) for the whole stream: every line is evaluated on it AND on a fresh
// evaluator; the two must agree (clause "a reused Evaluator gives the same answers as a fresh one" — whatever the
// earlier lines, accepted or rejected, left on its stacks), and the fresh answer is compared with the model.
type flArea struct{ reused map[string]*eval.Evaluator }

func (a *flArea) Run(line string) string {
	f := strings.Fields(line)
	if len(f) != 4 || f[0] != "y" {
		return "bad-op"
	}
	zero := f[2] == "1"
	expr := string(hx.UnHex(f[3]))
	var fresh *eval.Evaluator
	switch f[1] {
	case "64":
		fresh = eval.NewFloatEvaluator[float64](valueResolver{}, zero)
	case "32":
		fresh = eval.NewFloatEvaluator[float32](valueResolver{}, zero)
	default:
		return "bad-op"
	}
	key := f[1] + f[2]
	if a.reused == nil {
		a.reused = map[string]*eval.Evaluator{}
	}
	old := a.reused[key]
	if old == nil {
		old = fresh
		fresh = nil
		a.reused[key] = old
	}
	var got string
	func() {
		defer func() {
			if r := recover(); r != nil {
				delete(a.reused, key)
				panic(r)
			}
		}()
		got = flShow(old.Evaluate(expr))
	}()
	if fresh != nil {
		if want := flShow(fresh.Evaluate(expr)); want != got {
			return "REUSE-DIFF reused=" + got + " fresh=" + want
		}
	}
	return got
}

// ---- generator ---------------------------------------------------------------------------------------------------

// flSpecial: literals whose conversion, sum, product, quotient or remainder needs the rounding rule, the subnormal
// range, the overflow threshold, a signed zero, an infinity or a NaN.
var flSpecial = []string{
	"0.1", "0.2", "0.3", "0.7", "1.1", "2.2", "3.3", "1e-2", "1E+2", "2.5E-1", "1e22", "1e23", "1e-5", "123456.789e3", "5e-324", "4.9e-324", "2.5e-324",
	"2.4e-324", "1e-323", "2.2250738585072014e-308", "2.2250738585072011e-308", "1.7976931348623157e308", "1.7976931348623158e308",
	"1.7976931348623159e308", "8.98846567431158e307", "3.4028235e38", "3.4028234e38", "3.4028236e38", "1.7014118e38", "1e-45", "1.4e-45", "7e-46",
	"7.1e-46", "1.17549435e-38", "1.1754942e-38", "16777216", "16777217", "16777218", "16777219", "9007199254740992", "9007199254740993",
	"9007199254740994", "4503599627370496.5", "4503599627370497.5", "8388608.5", "8388607.5", "0.5", "1.5", "2.5", "3.5", "-0.5", "-1.5", "-2.5",
	"0.49999999999999994", "0.50000000000000011", "0.499999970197677612", "Inf", "-Inf", "+Inf", "inf", "Infinity", "-infinity", "NaN", "nan", "-NaN",
	"0", "-0", "+0", "0.0", "-0.0", "0e0", "1e400", "-1e400", "1e-400", "-1e-400", "1e309", "1e39", "0.000001", "1000000", "4294967296", "4294967295",
	".5", "5.", "-.5", "+.5", "1.e2", ".e2", "1e", "1e+", "1e2.5", "0x10", "0x1p-2", "1_000", "1__0", "_1", "1.5.2", "--1", "+-1", "1e-", "e5", "E", ".",
	"100000000000000000000000000000000000000", "340282346638528859811704183484516925440", "340282356779733661637539395458142568447",
	"340282356779733661637539395458142568448", "179769313486231580793728971405303415079934132710037826936173778980444968292764750946649017977587207096330286416692887910946555547851940402630657488671505820681908902000708383676273854845817711531764475730270069855571366959622842914819860834936475292719074168444365510704342711559699508093042880177904174497791",
	"179769313486231580793728971405303415079934132710037826936173778980444968292764750946649017977587207096330286416692887910946555547851940402630657488671505820681908902000708383676273854845817711531764475730270069855571366959622842914819860834936475292719074168444365510704342711559699508093042880177904174497792",
}

func flLit(r *hx.Rng) string {
	switch r.Intn(12) {
	case 0, 1, 2:
		return hx.Pick(r, []string{"1", "2", "3", "5", "7", "10", "0.5", "2.5", "1.25", "100", "12", "0.1", "9.99", "1000", "0.2", "0.3"})
	case 3:
		s := strconv.Itoa(r.Intn(2000))
		if n := r.Intn(8); n > 0 {
			s += "."
			for i := 0; i < n; i++ {
				s += strconv.Itoa(r.Intn(10))
			}
		}
		if r.Chance(1, 4) {
			s += hx.Pick(r, []string{"e", "E"}) + hx.Pick(r, []string{"", "+", "-"}) + strconv.Itoa(r.Intn(40))
		}
		return s
	case 4:
		return hx.Pick(r, []string{"$x", "$y", "$h", "$foo.bar", "$a_1", "$a1e", "$r2e", "$rate", "$A1E", "$ch", "$tiny", "$x.1e", "$e", "$mid", "$max4", "$big", "$z", "$n", "$neg", "$inf"})
	case 5:
		return hx.Pick(r, []string{"0", "$z", "$n", "$neg", "-3", "0.0", "-0", "-0.0"})
	case 6:
		return midpoint32(r)
	case 7:
		return midpoint64(r)
	case 8, 9:
		return hx.Pick(r, flSpecial)
	case 10: // a random bit pattern, written exactly
		if r.Bool() {
			x := math.Float32frombits(uint32(r.U64()))
			if x != x || math.IsInf(float64(x), 0) {
				return "1"
			}
			return strconv.FormatFloat(float64(x), hx.Pick(r, []byte{'g', 'e', 'f'}), -1, 32)
		}
		x := math.Float64frombits(r.U64())
		if x != x || math.IsInf(x, 0) {
			return "1"
		}
		return strconv.FormatFloat(x, hx.Pick(r, []byte{'g', 'e'}), -1, 64)
	default:
		return strconv.Itoa(r.Intn(20))
	}
}

// flNumE: number-valued expressions over the operators and functions the float model computes.
func flNumE(r *hx.Rng, d int) string {
	if d <= 0 || r.Chance(1, 5) {
		if r.Chance(1, 8) {
			return hx.Pick(r, []string{"-", "+"}) + flLit(r)
		}
		return flLit(r)
	}
	sp := func() string { return hx.Pick(r, []string{"", " ", " ", "\t"}) }
	switch r.Intn(14) {
	case 0, 1, 2, 3:
		return "(" + flNumE(r, d-1) + sp() + hx.Pick(r, []string{"+", "-", "*", "/", "+", "-", "*"}) + sp() + flNumE(r, d-1) + ")"
	case 4, 5:
		div := hx.Pick(r, []string{"2", "3", "7", "0.5", "10", "$x", "$y", "$h", "1.25", "0.1", "0.3", "(1 + " + flLit(r) + ")", flLit(r)})
		return "(" + flNumE(r, d-1) + sp() + hx.Pick(r, []string{"/", "%"}) + sp() + div + ")"
	case 6:
		return hx.Pick(r, []string{"abs", "ceil", "floor", "round", "floor", "round", "ceil"}) + "(" + sp() + flNumE(r, d-1) + sp() + ")"
	case 7:
		n := r.Range(1, 4)
		parts := make([]string, n)
		for i := range parts {
			parts[i] = flNumE(r, d-1)
		}
		return hx.Pick(r, []string{"max", "min"}) + "(" + strings.Join(parts, ", ") + ")"
	case 8:
		return "if(" + flBoolE(r, d-1) + ", " + flNumE(r, d-1) + ", " + flNumE(r, d-1) + ")"
	case 9:
		return "-(" + flNumE(r, d-1) + ")"
	case 10:
		return "(" + flBoolE(r, d-1) + sp() + hx.Pick(r, []string{"+", "*", "-"}) + sp() + flNumE(r, d-1) + ")"
	case 11:
		n := r.Range(2, 5)
		s := flNumE(r, d-2)
		ops := hx.Pick(r, [][]string{{"+", "-"}, {"*", "/", "%"}, {"-"}, {"/"}, {"+", "-", "*", "/"}})
		for i := 0; i < n; i++ {
			s += sp() + hx.Pick(r, ops) + sp() + flNumE(r, d-2)
		}
		return s
	case 12:
		return flNumE(r, d-1) + sp() + hx.Pick(r, []string{"-", "+", "*", "/"}) + sp() + hx.Pick(r, []string{"-", "+"}) + flLit(r)
	default:
		return "(" + flNumE(r, d-1) + ")"
	}
}

func flBoolE(r *hx.Rng, d int) string {
	cmp := []string{"==", "!=", "<", "<=", ">", ">="}
	if d <= 0 {
		return flLit(r) + " " + hx.Pick(r, cmp) + " " + flLit(r)
	}
	switch r.Intn(6) {
	case 0, 1, 2:
		return "(" + flNumE(r, d-1) + " " + hx.Pick(r, cmp) + " " + flNumE(r, d-1) + ")"
	case 3:
		return "(" + flBoolE(r, d-1) + " " + hx.Pick(r, []string{"&&", "||"}) + " " + flBoolE(r, d-1) + ")"
	case 4:
		return "!(" + flBoolE(r, d-1) + ")"
	default:
		return flNumE(r, d-1) + hx.Pick(r, cmp) + flNumE(r, d-1)
	}
}

// flTemplates: one or two hard literals in every operator / function position.
var flTemplates = []string{"#", "-#", "+#", "!#", "# + #", "# - #", "# * #", "# / #", "# % #", "# == #", "# != #", "# < #", "# <= #", "# > #", "# >= #", "# && #", "# || #",
	"abs(#)", "ceil(#)", "floor(#)", "round(#)", "max(#, #)", "min(#, #)", "max(#)", "min(#)", "max()", "min()", "if(#, #, #)", "if(#, 1, 2)", "# + # - #", "# * # / #",
	"# - # - #", "# / # / #", "# % # % #", "(# + #) * #", "# + # * #", "-(#) + #", "max(#, #, #)", "min(# * #, # / #)", "round(# / #)", "floor(# * #)", "ceil(# - #)",
	"abs(# % #)", "# / 0", "# % 0", "# / -0", "# / (1 - 1)", "0 / 0", "# * 0", "0 * -#", "-0 + 0", "0 - 0", "-0 - 0", "min(0, -0)", "max(-0, 0)", "min(-0, 0)",
	"max(0, -0)", "1 / (0 * -1) ", "# - #", "abs(-0)", "round(-0.4)", "ceil(-0.5)", "floor(-0)", "# + foo", "foo + #", "foo == #", "# < foo", "foo < bar", "foo + bar",
	"true + 1", "true + true", "(1 < 2) + #", "if(foo, #, #)", "if(false, #, #)", "if(FALSE, 1, 2)", "if(fal\xc5\xbfe, 1, 2)", "if(, 1, 2)", "if(#)", "if(#, #)", "abs(#, #)",
	// a NUMBER meets a text: the %v text of the number (shortest %g) is concatenated / compared
	"(# + #) + foo", "foo + (# * #)", "abs(#) + foo", "(# / #) == foo", "(# - #) < bar", "max(#) + $str", "(-#) + x", "round(#) + _", "(# * #) + true",
	"(# + 0) + foo", "(# * 1) + foo", "foo + (# + 0)", "(# + 0) < (# + 0) + a", "(# + 0) == 1a", "min(#, #) + \"\"", "(# * 1) + (# * 1) + s", "floor(#) + e", "(0 * -1) + z",
	"$sp + #", "$ws + 1", "$str + #", "$comma", "max($comma)", "$expr * #", "$paren + #", "$fn", "$bool + 1", "$undefined + 1", "# ^ 2", "sqrt(#)", "log(#)"}

func flTemplate(r *hx.Rng) string {
	t := hx.Pick(r, flTemplates)
	var sb strings.Builder
	first := ""
	for _, ch := range []byte(t) {
		if ch != '#' {
			sb.WriteByte(ch)
			continue
		}
		l := flLit(r)
		if first == "" {
			first = l
		} else if r.Chance(1, 4) {
			l = first
		}
		sb.WriteString(l)
	}
	return sb.String()
}

func (*flArea) Gen(r *hx.Rng, n int, _ string, emit func(string)) {
	for i := 0; i < n; i++ {
		var s string
		switch {
		case i%211 == 0:
			s = strings.ReplaceAll(bigExpr(r), "^", "*")
		case r.Chance(1, 16):
			s = strings.ReplaceAll(malformed(r), "^", "*")
		case r.Chance(1, 14):
			s = boolExpr(r)
		case r.Chance(1, 10):
			s = literalExpr(r)
		case r.Chance(1, 4):
			s = flTemplate(r)
		case r.Chance(1, 8): // the generator of the fixed stream (texts, syntax edges of numbers, arities)
			s = fxExpr(r, r.Range(1, 4), 4)
		case r.Chance(1, 4):
			s = flBoolE(r, r.Range(1, 4))
		default:
			s = flNumE(r, r.Range(1, 5))
		}
		emit(fmt.Sprintf("y %s %d %s", hx.Pick(r, []string{"64", "32", "64"}), r.Intn(2), hx.Hex([]byte(s))))
	}
}
