package main

import (
	"errors"
	"fmt"

	"github.com/richardwilkes/toolbox/eval"
	"github.com/richardwilkes/toolbox/xmath/fixed"
)

// ---------------------------------------------------------------------------------------------------------------
// Entry points that the table-driven streams do not reach, and every outcome kind of the user-supplied callbacks
// (Resolver, Function, OpFunc, UnaryOpFunc): success, error, nil result, panic.  `c` lines of area wf.
// ---------------------------------------------------------------------------------------------------------------

// ctorOps builds the operator table with the exported constructors (OpenParen … Power), in the conventional order,
// with the symbolic functions of the structure pass.
func ctorOps() []*eval.Operator {
	b := func(sym string) eval.OpFunc {
		return func(l, r any) (any, error) { return "(" + str(l) + " " + sym + " " + str(r) + ")", nil }
	}
	u := func(sym string) eval.UnaryOpFunc {
		return func(x any) (any, error) { return "(" + sym + " " + str(x) + ")", nil }
	}
	return []*eval.Operator{
		eval.OpenParen(), eval.CloseParen(), eval.LogicalOr(b("||")), eval.LogicalAnd(b("&&")), eval.NotEqual(b("!=")), eval.Not(u("!")),
		eval.Equal(b("==")), eval.GreaterThanOrEqual(b(">=")), eval.GreaterThan(b(">")), eval.LessThanOrEqual(b("<=")), eval.LessThan(b("<")),
		eval.Add(b("+"), u("+")), eval.Subtract(b("-"), u("-")), eval.Multiply(b("*")), eval.Divide(b("/")), eval.Modulo(b("%")), eval.Power(b("^")),
	}
}

func newCtorSymbolic() *eval.Evaluator {
	return &eval.Evaluator{Resolver: structResolver{}, Operators: ctorOps(), Functions: symbolicFns(eval.FixedFunctions[fixed.D4]())}
}

type funcResolver func(string) string

func (f funcResolver) ResolveVariable(name string) string { return f(name) }

var errProbe = errors.New("probe error")

// try evaluates and reports a panic as such.
func try(ev *eval.Evaluator, expr string) (v any, err error, panicked bool) {
	defer func() {
		if r := recover(); r != nil {
			panicked = true
		}
	}()
	v, err = ev.Evaluate(expr)
	return v, err, false
}

func callbackProbes() string {
	base := func() *eval.Evaluator { return eval.NewFixedEvaluator[fixed.D4](valueResolver{}, false) }
	want3 := canon(base().Evaluate("1 + 2"))
	check := func(name string, ev *eval.Evaluator, expr string, wantErr, wantPanic bool) string {
		v, err, p := try(ev, expr)
		if p != wantPanic {
			return fmt.Sprintf("FAIL %s: `%s` panicked=%v, expected %v", name, expr, p, wantPanic)
		}
		if !p && (err != nil) != wantErr {
			return fmt.Sprintf("FAIL %s: `%s` gives %s, expected error=%v", name, expr, canon(v, err), wantErr)
		}
		// whatever happened, the evaluator must be as good as new
		if got := canon(ev.Evaluate("1 + 2")); got != want3 {
			return fmt.Sprintf("FAIL %s: after `%s` the evaluator gives 1 + 2 = %s, a fresh one %s", name, expr, got, want3)
		}
		if got := canon(ev.EvaluateNew("1 + 2")); got != want3 {
			return fmt.Sprintf("FAIL %s: after `%s` EvaluateNew gives 1 + 2 = %s", name, expr, got)
		}
		return ""
	}
	type probe struct {
		name      string
		ev        *eval.Evaluator
		expr      string
		err, pnic bool
	}
	withFn := func(f eval.Function) *eval.Evaluator {
		ev := base()
		ev.Functions["cb"] = f
		return ev
	}
	withOp := func(sym string, f eval.OpFunc, u eval.UnaryOpFunc) *eval.Evaluator {
		ev := base()
		ops := make([]*eval.Operator, len(ev.Operators))
		for i, o := range ev.Operators {
			c := *o
			if c.Symbol == sym {
				if f != nil {
					c.Evaluate = f
				}
				if u != nil {
					c.EvaluateUnary = u
				}
			}
			ops[i] = &c
		}
		ev.Operators = ops
		return ev
	}
	withRes := func(f func(string) string) *eval.Evaluator {
		ev := base()
		ev.Resolver = funcResolver(f)
		return ev
	}
	var typedNil *eval.Evaluator
	_ = typedNil
	probes := []probe{
		{"function returns an error", withFn(func(*eval.Evaluator, string) (any, error) { return nil, errProbe }), "1 + cb(2) * 3", true, false},
		{"function returns an error in a nested argument", withFn(func(*eval.Evaluator, string) (any, error) { return nil, errProbe }), "max(1, abs(cb(2)), 3)", true, false},
		{"function returns nil, nil", withFn(func(*eval.Evaluator, string) (any, error) { return nil, nil }), "2 - cb(2)", true, false},
		{"function returns a foreign type", withFn(func(*eval.Evaluator, string) (any, error) { return struct{}{}, nil }), "2 * cb(2)", true, false},
		{"function panics with a string", withFn(func(*eval.Evaluator, string) (any, error) { panic("boom") }), "(1 + (2 * cb(3", true, false},
		{"function panics with a string", withFn(func(*eval.Evaluator, string) (any, error) { panic("boom") }), "(1 + (2 * cb(3)))", false, true},
		{"function panics with an error", withFn(func(*eval.Evaluator, string) (any, error) { panic(errProbe) }), "-(4 - cb(3))", false, true},
		{"function panics with a runtime error", withFn(func(*eval.Evaluator, string) (any, error) { var m map[string]int; m["x"] = 1; return nil, nil }), "abs(cb(1))", false, true},
		{"function panics with nil pointer", withFn(func(e *eval.Evaluator, _ string) (any, error) { var p *eval.Evaluator; return p.Functions, nil }), "cb(1) + 1", false, true},
		{"function re-enters the same evaluator", withFn(func(e *eval.Evaluator, a string) (any, error) { return e.Evaluate(a) }), "1 + cb(2 * 3) - 1", false, false},
		{"function uses EvaluateNew", withFn(func(e *eval.Evaluator, a string) (any, error) { return e.EvaluateNew(a) }), "1 + cb(2 * cb(3)) - 1", false, false},
		{"binary operator returns an error", withOp("*", func(any, any) (any, error) { return nil, errProbe }, nil), "1 + 2 * 3", true, false},
		{"binary operator panics", withOp("*", func(any, any) (any, error) { panic(errProbe) }, nil), "(1 + 2 * 3) - 4", false, true},
		{"binary operator returns nil", withOp("*", func(any, any) (any, error) { return nil, nil }, nil), "1 - 2 * 3", true, false},
		{"unary operator returns an error", withOp("-", nil, func(any) (any, error) { return nil, errProbe }), "1 + -2", true, false},
		{"unary operator panics", withOp("-", nil, func(any) (any, error) { panic("boom") }), "3 * -(2)", false, true},
		{"resolver returns nothing", withRes(func(string) string { return "" }), "1 + $a", true, false},
		{"resolver returns blanks", withRes(func(string) string { return " \t " }), "1 + $a", true, false},
		{"resolver returns a number", withRes(func(string) string { return "41" }), "1 + $a", false, false},
		{"resolver returns an expression", withRes(func(string) string { return "40 + 1" }), "abs($a) + 1", false, false},
		{"resolver returns text", withRes(func(string) string { return "abc" }), "1 - $a", true, false},
		{"resolver panics", withRes(func(string) string { panic("boom") }), "(1 + $a", false, true},
		{"resolver panics inside function arguments", withRes(func(string) string { panic(errProbe) }), "max(1, $a)", false, true},
		{"no resolver", eval.NewFixedEvaluator[fixed.D4](nil, false), "1 + $a", true, false},
		{"no resolver, no variable", eval.NewFixedEvaluator[fixed.D4](nil, false), "1 + 41", false, false},
		{"evaluator without functions", &eval.Evaluator{Operators: eval.FixedOperators[fixed.D4](false)}, "1 + abs(2)", true, false},
		{"function map without the name", &eval.Evaluator{Operators: eval.FixedOperators[fixed.D4](false), Functions: map[string]eval.Function{}}, "1 + abs(2)", true, false},
	}
	for _, p := range probes {
		if msg := check(p.name, p.ev, p.expr, p.err, p.pnic); msg != "" {
			return msg
		}
	}
	// an evaluator without operators: everything is one operand
	zero := &eval.Evaluator{}
	if v, err, p := try(zero, " 1 + (2 "); p || err != nil || canon(v, nil) != canon("1 + (2", nil) {
		return fmt.Sprintf("FAIL evaluator without operators: %s panicked=%v", canon(v, err), p)
	}
	if v, err, p := try(zero, ""); p || err != nil || canon(v, nil) != canon("", nil) {
		return fmt.Sprintf("FAIL evaluator without operators on the empty string: %s panicked=%v", canon(v, err), p)
	}
	// FixedFrom on every kind of argument
	if v, err := eval.FixedFrom[fixed.D4](nil); err == nil {
		return fmt.Sprintf("FAIL FixedFrom(nil) = %v", v)
	}
	if v, err := eval.FixedFrom[fixed.D4](3); err == nil {
		return fmt.Sprintf("FAIL FixedFrom(int) = %v", v)
	}
	if v, err := eval.FixedFrom[fixed.D4](true); err != nil || int64(v) != 10000 {
		return fmt.Sprintf("FAIL FixedFrom(true) = %v %v", v, err)
	}
	if v, err := eval.FixedFrom[fixed.D2](true); err != nil || int64(v) != 100 {
		return fmt.Sprintf("FAIL FixedFrom[D2](true) = %v %v", v, err)
	}
	if v, err := eval.FixedFrom[fixed.D4](false); err != nil || v != 0 {
		return fmt.Sprintf("FAIL FixedFrom(false) = %v %v", v, err)
	}
	return "ok callbacks"
}
