package main

import (
	"strings"

	"verifharness/hx"
)

// ---------------------------------------------------------------------------------------------------------------
// The specification side: an expression AST, the conventional precedence table of the property statement, a
// renderer (minimal parentheses, three whitespace layouts) and the bracketed string of the tree.
// Nothing here is read from the package under test.
// ---------------------------------------------------------------------------------------------------------------

// conventional precedence levels: || < && < ==,!= < <,<=,>,>= < +,- < *,/,% < ^
var convPrec = map[string]int{
	"||": 1, "&&": 2, "==": 3, "!=": 3, "<": 4, "<=": 4, ">": 4, ">=": 4, "+": 5, "-": 5, "*": 6, "/": 6, "%": 6, "^": 7,
}

type kind int

const (
	kAtom kind = iota
	kBin
	kUn
	kParen
	kCall
)

type ast struct {
	k    kind
	text string // atom text, operator symbol or function name
	kids []*ast
}

func atom(s string) *ast            { return &ast{k: kAtom, text: s} }
func bin(op string, l, r *ast) *ast { return &ast{k: kBin, text: op, kids: []*ast{l, r}} }
func paren(e *ast) *ast             { return &ast{k: kParen, kids: []*ast{e}} }
func call(n string, a ...*ast) *ast { return &ast{k: kCall, text: n, kids: a} }

// un builds a unary node; the operand must be a primary, anything else is parenthesised.
func un(op string, e *ast) *ast {
	if e.k == kBin || e.k == kUn {
		e = paren(e)
	}
	return &ast{k: kUn, text: op, kids: []*ast{e}}
}

// tree is the bracketed form of the expression tree: "(l op r)", "(op x)", "name[a;b]"; `$v` reads `@v`.
func (a *ast) tree() string {
	switch a.k {
	case kAtom:
		return strings.ReplaceAll(a.text, "$", "@")
	case kBin:
		return "(" + a.kids[0].tree() + " " + a.text + " " + a.kids[1].tree() + ")"
	case kUn:
		return "(" + a.text + " " + a.kids[0].tree() + ")"
	case kParen:
		return a.kids[0].tree()
	default:
		parts := make([]string, len(a.kids))
		for i, k := range a.kids {
			parts[i] = k.tree()
		}
		return a.text + "[" + strings.Join(parts, ";") + "]"
	}
}

// toks renders with the parentheses the conventional precedence and left associativity require.
// ctx is the precedence of the enclosing binary operator (0 = none), right tells whether we are its right operand.
func (a *ast) toks(ctx int, right bool, out *[]string) {
	switch a.k {
	case kAtom:
		*out = append(*out, a.text)
	case kBin:
		p := convPrec[a.text]
		need := p < ctx || (p == ctx && right)
		if need {
			*out = append(*out, "(")
		}
		a.kids[0].toks(p, false, out)
		*out = append(*out, a.text)
		a.kids[1].toks(p, true, out)
		if need {
			*out = append(*out, ")")
		}
	case kUn:
		*out = append(*out, a.text)
		a.kids[0].toks(99, false, out) // operand is a primary by construction
	case kParen:
		*out = append(*out, "(")
		a.kids[0].toks(0, false, out)
		*out = append(*out, ")")
	case kCall:
		*out = append(*out, a.text, "(")
		for i, k := range a.kids {
			if i > 0 {
				*out = append(*out, ",")
			}
			k.toks(0, false, out)
		}
		*out = append(*out, ")")
	}
}

var blanks = []string{" ", "\t", "\n", "\r"}

func ws(r *hx.Rng) string {
	var sb strings.Builder
	for i, n := 0, r.Intn(4); i < n; i++ {
		sb.WriteString(hx.Pick(r, blanks))
	}
	return sb.String()
}

// layout: 0 = no whitespace, 1 = one space between tokens, 2 = random runs of blank/tab/newline/return everywhere.
func layout(r *hx.Rng, toks []string, mode int) string {
	var sb strings.Builder
	for i, t := range toks {
		switch mode {
		case 1:
			if i > 0 {
				sb.WriteByte(' ')
			}
		case 2:
			sb.WriteString(ws(r))
		}
		sb.WriteString(t)
	}
	if mode == 2 {
		sb.WriteString(ws(r))
	}
	return sb.String()
}

// ---------------------------------------------------------------------------------------------------------------
// Type-directed generator
// ---------------------------------------------------------------------------------------------------------------

var (
	numAtoms = []string{"0", "1", "2", "3", "7", "10", "2.5", "0.5", "100", "1e2", "1e-2", "2.5e-1", "1e+2", "2.5E-1", "2.5E+1", "1E2", "1.5e+1", "3E-2", "$x", "$y", "$z", "$h", "$n", "$foo.bar", "$a_1", "$sp",
		"$e", "$neg", "$big", "$tiny", "$max4", "$mid", "$inf", "$a1e", "$r2e", "$x.1e", "$a#1e", "$rate", "$a1e", "$r2e", "$ch", "$ch2", "$A1e", "$x.1e", "$A1E"}
	strAtoms = []string{"foo", "bar", "yes", "no", "abc", "x1", "true", "false", "$undefined", "$str", "$bool", "$ws", "$expr", "$paren", "$comma", "$fn"}
	arith    = []string{"+", "-", "*", "/", "%", "^", "+", "-", "*", "/"}
	cmpOps   = []string{"==", "!=", "<", "<=", ">", ">="}
	logic    = []string{"&&", "||"}
	allBin   = []string{"||", "&&", "==", "!=", "<", "<=", ">", ">=", "+", "-", "*", "/", "%", "^"}
	fn1      = []string{"abs", "sqrt", "floor", "ceil", "round", "cbrt", "exp", "exp2", "log", "log10", "log1p"}
	fnN      = []string{"max", "min"}
	signs    = []string{"-", "+", "-"}
	soupToks = []string{"(", ")", "+", "-", "*", "/", "%", "^", "!", "!=", "==", "<", "<=", ">", ">=", "&&", "||", ",", "$", "$x", "1", "2", "2e", "1e-2", "2e-", "e", "=", "&", "|", "abs", "max", "if", "foo", " ", "\t", "\n", "\r", "\v", "\f", "\xc2\xa0", "\xc2\x85", "\xe2\x80\x83", "\xe3\x80\x80", "\xe1\x9a\x80", "\xe2\x81\x9f", "\xe2\x80", "\xc2", "\x00", "\xff", ".", "#", "_", "@", "[", "]", ";", "0", "9e", "$1", "$_", "$a.b#c"}
)

func genNum(r *hx.Rng, d int) *ast {
	if d <= 0 || r.Chance(1, 5) {
		return atom(hx.Pick(r, numAtoms))
	}
	switch r.Intn(14) {
	case 12: // a comparison / logical result used as a number
		if r.Bool() {
			return bin(hx.Pick(r, arith), paren(genBool(r, d-1)), genNum(r, d-1))
		}
		return bin(hx.Pick(r, arith), genNum(r, d-1), paren(genBool(r, d-1)))
	case 13:
		if r.Bool() {
			return call(hx.Pick(r, fnN), genBool(r, d-1), genNum(r, d-1))
		}
		return un(hx.Pick(r, signs), paren(genBool(r, d-1)))
	case 0, 1, 2, 3, 4:
		return bin(hx.Pick(r, arith), genNum(r, d-1), genNum(r, d-1))
	case 5: // chain of equal precedence, left-nested or right-nested
		return chain(r, d)
	case 6, 7:
		return un(hx.Pick(r, signs), genPrimary(r, d-1))
	case 8:
		return paren(genNum(r, d-1))
	case 9:
		return call(hx.Pick(r, fn1), genNum(r, d-1))
	case 10:
		n := r.Range(1, 4)
		args := make([]*ast, n)
		for i := range args {
			args[i] = genNum(r, d-1)
		}
		return call(hx.Pick(r, fnN), args...)
	default:
		return call("if", genBool(r, d-1), genNum(r, d-1), genNum(r, d-1))
	}
}

// genPrimary yields a literal, a parenthesised expression or a function call (what a sign can be written before).
func genPrimary(r *hx.Rng, d int) *ast {
	switch r.Intn(4) {
	case 0:
		return paren(genNum(r, d))
	case 1:
		if d > 0 {
			return call(hx.Pick(r, fn1), genNum(r, d-1))
		}
		return atom(hx.Pick(r, numAtoms))
	default:
		return atom(hx.Pick(r, numAtoms))
	}
}

func chain(r *hx.Rng, d int) *ast {
	groups := [][]string{{"+", "-"}, {"*", "/", "%"}, {"^"}, {"-"}, {"/"}}
	g := hx.Pick(r, groups)
	n := r.Range(2, 5)
	leftNested := r.Bool()
	e := genNum(r, d-2)
	for i := 0; i < n; i++ {
		o := genNum(r, d-2)
		if r.Chance(1, 4) {
			o = un(hx.Pick(r, signs), genPrimary(r, d-2))
		}
		if leftNested {
			e = bin(hx.Pick(r, g), e, o)
		} else {
			e = bin(hx.Pick(r, g), o, e)
		}
	}
	return e
}

func genBool(r *hx.Rng, d int) *ast {
	if d <= 0 {
		return bin(hx.Pick(r, cmpOps), atom(hx.Pick(r, numAtoms)), atom(hx.Pick(r, numAtoms)))
	}
	switch r.Intn(8) {
	case 0, 1, 2:
		return bin(hx.Pick(r, cmpOps), genNum(r, d-1), genNum(r, d-1))
	case 3, 4:
		return bin(hx.Pick(r, logic), genBool(r, d-1), genBool(r, d-1))
	case 5:
		return un("!", paren(genBool(r, d-1)))
	case 6:
		return un("!", genPrimary(r, d-1))
	default:
		return paren(genBool(r, d-1))
	}
}

// genAny ignores types: every operator anywhere, strings as operands (the structure pass does not evaluate them).
func genAny(r *hx.Rng, d int) *ast {
	if d <= 0 || r.Chance(1, 5) {
		if r.Chance(1, 4) {
			return atom(hx.Pick(r, strAtoms))
		}
		return atom(hx.Pick(r, numAtoms))
	}
	switch r.Intn(10) {
	case 0, 1, 2, 3:
		return bin(hx.Pick(r, allBin), genAny(r, d-1), genAny(r, d-1))
	case 4:
		return un(hx.Pick(r, []string{"-", "+", "!"}), genAnyPrimary(r, d-1))
	case 5:
		return paren(genAny(r, d-1))
	case 6: // operator after `)` followed by a function
		return bin(hx.Pick(r, allBin), paren(genAny(r, d-1)), call(hx.Pick(r, fn1), genAny(r, d-1)))
	case 7: // (f(x)) op y — the case the unary fix had to keep working
		return bin(hx.Pick(r, allBin), paren(call(hx.Pick(r, fn1), genAny(r, d-1))), genAny(r, d-1))
	case 8: // calls with the arity of the function (`max()` vs `max( )` and `abs(1,2)` vs `abs(1 , 2)` are not well-formed)
		switch r.Intn(3) {
		case 0:
			return call("if", genAny(r, d-1), genAny(r, d-1), genAny(r, d-1))
		case 1:
			return call(hx.Pick(r, fn1), genAny(r, d-1))
		}
		n := r.Range(1, 4)
		args := make([]*ast, n)
		for i := range args {
			args[i] = genAny(r, d-1)
		}
		return call(hx.Pick(r, fnN), args...)
	default:
		return un(hx.Pick(r, []string{"-", "+", "!"}), call(hx.Pick(r, fn1), genAny(r, d-1)))
	}
}

func genAnyPrimary(r *hx.Rng, d int) *ast {
	switch r.Intn(3) {
	case 0:
		return paren(genAny(r, d))
	case 1:
		return call(hx.Pick(r, fnN), genAny(r, d), genAny(r, d))
	default:
		return genAny(r, 0)
	}
}

func genAST(r *hx.Rng, typed bool) *ast {
	d := r.Range(1, 6)
	if typed {
		if r.Chance(1, 4) {
			return genBool(r, d)
		}
		return genNum(r, d)
	}
	return genAny(r, d)
}

// ---------------------------------------------------------------------------------------------------------------
// Malformed stream
// ---------------------------------------------------------------------------------------------------------------

func malformed(r *hx.Rng) string {
	switch r.Intn(8) {
	case 0: // token soup
		var sb strings.Builder
		for i, n := 0, r.Range(1, 9); i < n; i++ {
			sb.WriteString(hx.Pick(r, soupToks))
		}
		return sb.String()
	case 1: // raw bytes
		n := r.Range(1, 6)
		b := make([]byte, n)
		for i := range b {
			b[i] = byte(r.U64())
		}
		return string(b)
	case 2: // consecutive unary operators / lone operators
		return hx.Pick(r, []string{"- -1", "--1", "-+1", "!-1", "1 - - 2", "1 - -(2)", "-", "+", "!", "*", "1 +", "* 2", "1 !", "1 ! 2", "(1 ! 2)",
			"-()", "()", ")(", "(", ")", "1 2", "2e-", "2e-3", "1e-2", "x2e-3", "2 e-3", "(2e-3)", "abs(2e-3)", "$", "$1", "1$", "$x$y", "()()", "1()",
			"abs()", "abs", "abs(", "abs(1", "abs)1(", "nosuch(1)", "(1)(2)", "max(1,(2,3))", "max((1,2),3)", "max(1,2))", "if(1,2", "-abs(-1)", "!(1)(2)"})
	default: // mutate a well-formed token list
		var toks []string
		genAST(r, r.Bool()).toks(0, false, &toks)
		for k, n := 0, r.Range(1, 3); k < n && len(toks) > 0; k++ {
			i := r.Intn(len(toks))
			switch r.Intn(6) {
			case 0: // delete
				toks = append(toks[:i:i], toks[i+1:]...)
			case 1: // duplicate
				toks = append(toks[:i+1:i+1], toks[i:]...)
			case 2: // swap with neighbour
				if i+1 < len(toks) {
					toks[i], toks[i+1] = toks[i+1], toks[i]
				}
			case 3: // insert a soup token
				toks = append(toks[:i:i], append([]string{hx.Pick(r, soupToks)}, toks[i:]...)...)
			case 4: // replace
				toks[i] = hx.Pick(r, soupToks)
			default: // unbalance
				toks[i] = hx.Pick(r, []string{"(", ")"})
			}
		}
		s := layout(r, toks, r.Intn(3))
		if r.Chance(1, 4) && len(s) > 0 { // byte-level damage
			b := []byte(s)
			i := r.Intn(len(b))
			switch r.Intn(3) {
			case 0:
				b = append(b[:i:i], b[i+1:]...)
			case 1:
				b[i] = byte(r.U64())
			default:
				b = append(b[:i:i], append([]byte{byte(r.U64())}, b[i:]...)...)
			}
			s = string(b)
		}
		return s
	}
}
