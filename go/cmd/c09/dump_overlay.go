//go:build !nooverlay

package main

import "github.com/richardwilkes/toolbox/eval"

// haveDump: the white-box accessor go/overlay/c09_stacks.go compiled against the working tree.
const haveDump = true

func dumpStacks(e *eval.Evaluator) string { return e.VerifStacks() }
